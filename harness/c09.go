package main

// C09 — every call terminates by its deadline and leaves nothing behind.
//
// One scenario = one child process (`harness c09-worker`): a fault-script peer (c09peer.go) and a real
// Communicator/ServantProxy driving TarsInvoke from 1..n concurrent callers over loopback TCP. The child
// reports per-call wall-clock durations and outcome classes, the three counters of the property
// (ServantProxy.queueLen, AdapterProxy.resp, endpointManager.invokeNum) at every filter point and at
// quiescence, goroutines still inside doInvoke/TarsInvoke/Recv, and a totally ordered event trace.
// The parent applies the monitors (L3) and renders every scenario as a Coq case: the model's canonical run of
// the same scenario (Conc/CallLife.v) must predict the same outcome classes and return times (L2), and the
// event trace must be accepted by the specification machine `accepts` (trace validation).

import (
	"bytes"
	"context"
	"encoding/json"
	"fmt"
	"math/rand"
	"net"
	"os"
	"os/exec"
	"runtime"
	"sort"
	"strings"
	"sync"
	"sync/atomic"
	"time"

	"github.com/TarsCloud/TarsGo/tars"
	"github.com/TarsCloud/TarsGo/tars/model"
	"github.com/TarsCloud/TarsGo/tars/protocol/res/basef"
	"github.com/TarsCloud/TarsGo/tars/protocol/res/requestf"
	"github.com/TarsCloud/TarsGo/tars/transport"
	"github.com/TarsCloud/TarsGo/tars/util/current"
	"github.com/TarsCloud/TarsGo/tars/util/rtimer"
)

type c09CallObs struct {
	Call    int    `json:"call"`
	Caller  int    `json:"caller"`
	ID      int32  `json:"id"`
	StartMs int64  `json:"start_ms"`
	DurMs   int64  `json:"dur_ms"`
	Out     string `json:"out"` // reply | timeout | error | badreply | hang
	Err     string `json:"err,omitempty"`
}

type c09Obs struct {
	Calls     []c09CallObs `json:"calls"`
	Events    []c09Event   `json:"events"`
	QueueLen  int32        `json:"queue_len"`
	QueueLens []int32      `json:"queue_lens"` // queueLen of every proxy of the scenario (each must be back to 0 on its own)
	InvokeNum int32        `json:"invoke_num"`
	Pending   []int32      `json:"pending"`
	Stuck     []string     `json:"stuck"`
	SeqViol   []string     `json:"seq_viol"`
	Adapters  int          `json:"adapters"`
	MaxRecv   int          `json:"max_recv"` // largest number of goroutines seen inside AdapterProxy.Recv at once (-1: not sampled)
	Fatal     string       `json:"fatal,omitempty"`
	Retries   int          `json:"retries"`
}

type c09Case struct {
	Name          string   `json:"name"`
	Conn          string   `json:"conn"` // accept | refuse | stall | accept-close | noread
	Acts          []c09Act `json:"acts"`
	Callers       int      `json:"callers"`
	Calls         int      `json:"calls"` // per caller, sequential
	TimeoutMs     int      `json:"timeout_ms"`
	CtxMs         int      `json:"ctx_ms"`      // > 0: the caller's context carries this deadline
	PerCallMs     int      `json:"per_call_ms"` // > 0: current.SetClientTimeout
	DialMs        int      `json:"dial_ms"`
	WriteMs       int      `json:"write_ms"`
	ReadMs        int      `json:"read_ms"`
	QueueLen      int      `json:"queue_len"`
	ReqSize       int      `json:"req_size"`
	Filter        string   `json:"filter"` // prepost | cf
	GapMs         int      `json:"gap_ms"`
	FilterSleepMs int      `json:"filter_sleep_ms"` // the client filter sleeps this long before the call is invoked
	ReadNs        int      `json:"read_ns"`         // with read_ms = 0: the read timeout in nanoseconds (0 = none)
	Proxies       int      `json:"proxies"`         // 2: odd callers use a second proxy (another object, its own adapter and connection) of the same process
	KeepAliveMs   int      `json:"keep_alive_ms"`   // > 0: the client's keep-alive-interval
	KaPattern     []int    `json:"ka_pattern"`      // after every call: pause (ms) before each trigger of the adapters' keep-alive ping
	ProxyByCall   bool     `json:"proxy_by_call"`   // with two proxies: the j-th call of every caller uses proxy j mod 2 (otherwise caller k uses proxy k mod 2)
	SmallAfter    int      `json:"small_after"`     // > 0: calls from the j-th on carry 8-byte requests whatever req_size says
	PerCallSet    bool     `json:"per_call_set"`    // current.SetClientTimeout is called even with per_call_ms <= 0
	BigPrimeOnly  bool     `json:"big_prime_only"`  // only the priming call carries req_size bytes, the callers' requests are 8 bytes
	PrimeAll      bool     `json:"prime_all"`       // one priming call per proxy (in parallel) before the callers start
	StaggerUs     int      `json:"stagger_us"`      // > 0: the callers of proxy i leave together, i*stagger_us after the first group
	SmallBuf      bool     `json:"small_buf"`       // the peer's sockets get a tiny receive buffer: a write of some 100 KB already blocks
	CancelMs      int      `json:"cancel_ms"`       // > 0: the caller cancels the call's context this long after it started the call
	RejectMod     int      `json:"reject_mod"`      // n > 0: the client filter (cf / mw) rejects every call whose index is n-1 modulo n, without invoking
	SameObject    bool     `json:"same_object"`     // the further proxies are ServantProxy objects for the SAME object (shared endpoint manager and adapters)
	Script        string   `json:"script"`          // "" = callers as described; "stale-close" / "held-close": see c09Script
	HandshakeMs   int      `json:"handshake_ms"`    // tls-slow: delay of the peer's side of the TLS handshake
	IdleMs        int      `json:"idle_ms"`         // > 0: the client's idle timeout (the sender goroutine checks it once per second)
	Gaps          []int    `json:"gaps"`            // pause after the j-th call of a caller (overrides gap_ms; the last one repeats)
	OneWay        bool     `json:"one_way"`         // one-way calls (no reply expected; monitors only)
	Procs         int      `json:"procs"`           // > 0: GOMAXPROCS of the scenario process
	ObjMax        int      `json:"obj_max"`         // > 0: ObjQueueMax (calls allowed inside doInvoke)
	EarlyMs       int      `json:"early_ms"`        // noread-early: when the peer writes its unsolicited replies
	Prime         bool     `json:"prime"`           // one call (answered at once) establishes the connection before the callers start
	Warm          bool     `json:"warm"`            // the adapter proxy exists before the first call (concurrent first callers share it)
	Predict       bool     `json:"predict"`         // outcome classes and times are determined by the script (sent to the model's canonical run)
	Obs           *c09Obs  `json:"obs,omitempty"`
}

func (c *c09Case) gap(j int) int {
	if len(c.Gaps) == 0 {
		return c.GapMs
	}
	if j < len(c.Gaps) {
		return c.Gaps[j]
	}
	return c.Gaps[len(c.Gaps)-1]
}

// eff is the call's effective timeout in ms: the caller's context deadline, else the per-call timeout if one is set, else
// the proxy's; a zero or negative timeout is a deadline that has passed when the call starts.
func (c *c09Case) eff() int {
	e := c.TimeoutMs
	if c.CtxMs > 0 {
		e = c.CtxMs
	} else if c.PerCallSet || c.PerCallMs > 0 {
		e = c.PerCallMs
	}
	if e < 0 {
		e = 0
	}
	return e
}

const (
	c09SlackMs     = 100 // scheduling slack of the deadline monitor (stated in the evidence)
	c09NominalMs   = 100 // a run whose calls overshoot their nominal return time by more is re-run (timing retry rule)
	c09ModelTolLo  = 60  // L2: observed return may precede the model's by at most this (time wheel fires up to T/20 early + rounding)
	c09ModelTolHi  = 250 // L2: observed return may exceed the model's by at most this
	c09TimingTries = 3
)

type c09Holder struct{ s model.Servant }

func (h *c09Holder) SetServant(s model.Servant) { h.s = s }

type c09CtxKey struct{}

// ---------------------------------------------------------------------------------------------------------------
// child: one scenario

func c09Worker() {
	var c c09Case
	if err := json.NewDecoder(os.Stdin).Decode(&c); err != nil {
		fmt.Println(`{"fatal":"bad scenario"}`)
		return
	}
	obs := c09RunScenario(&c)
	b, _ := json.Marshal(obs)
	os.Stdout.Write(b)
	os.Stdout.Write([]byte("\n"))
}

func c09RunScenario(c *c09Case) *c09Obs {
	obs := &c09Obs{}
	if c.Procs > 0 {
		runtime.GOMAXPROCS(c.Procs)
	}
	log := &c09Log{t0: time.Now()}
	var tlsm *c09TLS
	if strings.HasPrefix(c.Conn, "tls") {
		var terr error
		if tlsm, terr = c09NewTLS(); terr != nil {
			obs.Fatal = "tls material: " + terr.Error()
			return obs
		}
	}
	peer, err := newC09Peer(log, c.Conn, c.Acts, func(p *c09Peer) {
		p.earlyMs, p.earlyN, p.hsMs = c.EarlyMs, c.Callers*c.Calls, c.HandshakeMs
		p.sweepT, p.sweepCalls = c.eff(), c.Calls
		p.smallBuf = c.SmallBuf
		if tlsm != nil {
			p.tlsConf = tlsm.server
			if c.Conn == "tls-untrusted" {
				p.tlsConf = tlsm.untrusted
			}
		}
	})
	if err != nil {
		obs.Fatal = "peer: " + err.Error()
		return obs
	}
	defer peer.shutdown()
	if c.Conn == "transport-race" {
		c09TransportRace(c, obs, peer.port)
		return obs
	}
	comm := tars.NewCommunicator()
	comm.Client.ClientDialTimeout = time.Duration(c.DialMs) * time.Millisecond
	comm.Client.ClientWriteTimeout = time.Duration(c.WriteMs) * time.Millisecond
	comm.Client.ClientReadTimeout = time.Duration(c.ReadMs) * time.Millisecond
	if c.ReadNs >= 0 && c.ReadMs == 0 {
		comm.Client.ClientReadTimeout = time.Duration(c.ReadNs) // tiny read timeouts, 0 = no read deadline
	}
	comm.Client.ClientQueueLen = c.QueueLen
	if c.IdleMs > 0 {
		comm.Client.ClientIdleTimeout = time.Duration(c.IdleMs) * time.Millisecond
	}
	if tlsm != nil {
		tars.VerifSetClientTLS(comm, tlsm.client)
	}
	if c.ObjMax > 0 {
		comm.Client.ObjQueueMax = int32(c.ObjMax)
	}
	h := &c09Holder{}
	proto := "tcp"
	if strings.HasPrefix(c.Conn, "udp") {
		proto = "udp"
	}
	if tlsm != nil {
		proto = "ssl"
	}
	comm.StringToProxy(fmt.Sprintf("VerifApp.C09Server.C09Obj@%s -h 127.0.0.1 -p %d -t 60000", proto, peer.port), h)
	sp, ok := h.s.(*tars.ServantProxy)
	if !ok {
		obs.Fatal = "no servant proxy"
		return obs
	}
	sp.TarsSetTimeout(c.TimeoutMs)
	if c.Warm {
		tars.VerifWarmAdapter(sp)
	}
	sps := []*tars.ServantProxy{sp}
	for i := 1; i < c.Proxies; i++ {
		h2 := &c09Holder{}
		obj := fmt.Sprintf("VerifApp.C09Server.C09Other%d", i)
		if c.SameObject {
			obj = "VerifApp.C09Server.C09Obj" // another ServantProxy for the same object: it shares the endpoint manager and the adapters
		}
		comm.StringToProxy(fmt.Sprintf("%s@%s -h 127.0.0.1 -p %d -t 60000", obj, proto, peer.port), h2)
		if sp2, ok := h2.s.(*tars.ServantProxy); ok {
			sp2.TarsSetTimeout(c.TimeoutMs)
			if c.Warm {
				tars.VerifWarmAdapter(sp2)
			}
			sps = append(sps, sp2)
		}
	}
	if c.KeepAliveMs > 0 {
		comm.Client.KeepAliveInterval = c.KeepAliveMs
	}

	var amu sync.Mutex
	adps := map[*tars.AdapterProxy]bool{}
	var quiet int32 // while set (many proxies, racing callers): the filter points do not read the counters
	snapshot := func() (int32, int32, []int32) {
		if atomic.LoadInt32(&quiet) != 0 {
			return 0, 0, nil
		}
		amu.Lock()
		var q, n int32
		for _, p := range sps {
			for _, a := range tars.VerifAdapters(p) {
				adps[a] = true
			}
			q += tars.VerifQueueLen(p)
			if !c.SameObject || p == sps[0] { // proxies for one object share the endpoint manager and so its invokeNum
				n += tars.VerifInvokeNum(p)
			}
		}
		var ids []int32
		for a := range adps {
			ids = append(ids, tars.VerifPending(a)...)
		}
		amu.Unlock()
		return q, n, ids
	}
	seq := c.Callers == 1 && c.Script == ""
	var vmu sync.Mutex
	checkSeq := func(where string, call int, q, n int32, p []int32, wantN int32) {
		if !seq {
			return
		}
		if q != 0 || n != wantN || len(p) != 0 {
			vmu.Lock()
			obs.SeqViol = append(obs.SeqViol, fmt.Sprintf("%s of call %d: queueLen=%d invokeNum=%d pending=%v (expected 0, %d, none)", where, call, q, n, p, wantN))
			vmu.Unlock()
		}
	}
	type callInfo struct {
		id     int32
		status int32
	}
	infos := make([]callInfo, c.Callers*c.Calls+1+c.Proxies)
	pre := func(ctx context.Context, msg *tars.Message) {
		call, _ := ctx.Value(c09CtxKey{}).(int)
		infos[call].id = msg.Req.IRequestId
		q, n, p := snapshot()
		log.add(c09Event{Kind: "pre", Call: call, ID: msg.Req.IRequestId, Q: q, N: n, P: len(p)})
		checkSeq("before doInvoke", call, q, n, p, 1)
	}
	post := func(ctx context.Context, msg *tars.Message, err error) {
		call, _ := ctx.Value(c09CtxKey{}).(int)
		infos[call].status = msg.Status
		if msg.Adp != nil {
			amu.Lock()
			adps[msg.Adp] = true
			amu.Unlock()
		}
		q, n, p := snapshot()
		log.add(c09Event{Kind: "post", Call: call, ID: msg.Req.IRequestId, Q: q, N: n, P: len(p)})
		checkSeq("after doInvoke", call, q, n, p, 1)
	}
	nap := func() {
		if c.FilterSleepMs > 0 { // a client filter that takes its time before the call is invoked
			time.Sleep(time.Duration(c.FilterSleepMs) * time.Millisecond)
		}
	}
	// a client filter that turns some calls away without invoking them
	rejected := func(ctx context.Context) error {
		call, _ := ctx.Value(c09CtxKey{}).(int)
		if c.RejectMod > 0 && call%c.RejectMod == c.RejectMod-1 {
			return fmt.Errorf("rejected by the client filter")
		}
		return nil
	}
	if c.Filter == "mw" {
		tars.UseClientFilterMiddleware(func(next tars.ClientFilter) tars.ClientFilter {
			return func(ctx context.Context, msg *tars.Message, invoke tars.Invoke, timeout time.Duration) error {
				pre(ctx, msg)
				nap()
				if rerr := rejected(ctx); rerr != nil {
					post(ctx, msg, rerr)
					return rerr
				}
				err := next(ctx, msg, invoke, timeout)
				post(ctx, msg, err)
				return err
			}
		})
	} else if c.Filter == "cf" {
		tars.RegisterClientFilter(func(ctx context.Context, msg *tars.Message, invoke tars.Invoke, timeout time.Duration) error {
			pre(ctx, msg)
			nap()
			if rerr := rejected(ctx); rerr != nil {
				post(ctx, msg, rerr)
				return rerr
			}
			err := invoke(ctx, msg, timeout)
			post(ctx, msg, err)
			return err
		})
	} else {
		tars.RegisterPreClientFilter(func(ctx context.Context, msg *tars.Message, invoke tars.Invoke, timeout time.Duration) error {
			pre(ctx, msg)
			nap()
			return nil
		})
		tars.RegisterPostClientFilter(func(ctx context.Context, msg *tars.Message, invoke tars.Invoke, timeout time.Duration) error {
			post(ctx, msg, nil)
			return nil
		})
	}

	size := c.ReqSize
	if size < 8 {
		size = 8
	}
	ncalls := c.Callers * c.Calls
	if c.Prime {
		ncalls++ // the priming call has the last index and runs first, alone
	}
	if c.PrimeAll {
		ncalls = c.Callers*c.Calls + len(sps) // one priming call per proxy, in parallel, before the callers
	}
	results := make([]c09CallObs, ncalls)
	for i := range results {
		results[i] = c09CallObs{Call: i, Caller: i / c.Calls, Out: "hang"}
	}
	var rmu sync.Mutex
	var wg sync.WaitGroup
	start := make(chan struct{})
	var goAt time.Time
	doCall := func(call, k int) {
		bsize := size
		if c.SmallAfter > 0 && c.Calls > 0 && call%c.Calls >= c.SmallAfter {
			bsize = 8
		}
		if c.BigPrimeOnly && call < c.Callers*c.Calls {
			bsize = 8
		}
		buf := make([]byte, bsize)
		tag := uint32(0xA0000000) | uint32(call)
		buf[0], buf[1], buf[2], buf[3] = byte(tag>>24), byte(tag>>16), byte(tag>>8), byte(tag)
		ctx := current.ContextWithClientCurrent(context.WithValue(context.Background(), c09CtxKey{}, call))
		if c.PerCallSet || c.PerCallMs > 0 {
			current.SetClientTimeout(ctx, c.PerCallMs)
		}
		cancel := func() {}
		if c.CtxMs > 0 {
			ctx, cancel = context.WithTimeout(ctx, time.Duration(c.CtxMs)*time.Millisecond)
		}
		if c.CancelMs > 0 { // the caller cancels its context while the call is under way
			var cf context.CancelFunc
			ctx, cf = context.WithCancel(ctx)
			tm := time.AfterFunc(time.Duration(c.CancelMs)*time.Millisecond, cf)
			prev := cancel
			cancel = func() { tm.Stop(); cf(); prev() }
		}
		var resp requestf.ResponsePacket
		log.add(c09Event{Kind: "start", Call: call})
		t0 := time.Now()
		var ctype byte
		if c.OneWay {
			ctype = byte(basef.TARSONEWAY)
		}
		psp := sps[0]
		if k < 0 && c.PrimeAll {
			psp = sps[(call-c.Callers*c.Calls)%len(sps)]
		} else if c.ProxyByCall && c.Calls > 0 && k >= 0 {
			psp = sps[(call%c.Calls)%len(sps)]
		} else if k > 0 {
			psp = sps[k%len(sps)]
		}
		err := psp.TarsInvoke(ctx, ctype, "echo", buf, nil, nil, &resp)
		dur := time.Since(t0)
		cancel()
		out, es := "reply", ""
		var pay uint32
		if err != nil {
			es = err.Error()
			if len(es) > 100 {
				es = es[:100]
			}
			if infos[call].status == basef.TARSINVOKETIMEOUT {
				out = "timeout"
			} else {
				out = "error"
			}
		} else if c.OneWay {
			out = "oneway"
		} else if len(resp.SBuffer) >= 4 {
			pay = uint32(uint8(resp.SBuffer[0]))<<24 | uint32(uint8(resp.SBuffer[1]))<<16 | uint32(uint8(resp.SBuffer[2]))<<8 | uint32(uint8(resp.SBuffer[3]))
			if (pay != tag && !(c.Conn == "noread-early" && pay == c09EarlyPay)) || resp.IRequestId != infos[call].id {
				out = "badreply"
			}
		} else {
			out = "badreply"
		}
		q, n, p := snapshot()
		log.add(c09Event{Kind: "ret", Call: call, ID: infos[call].id, Out: out, Pay: pay, Q: q, N: n, P: len(p)})
		checkSeq("after return", call, q, n, p, 0)
		rmu.Lock()
		results[call] = c09CallObs{Call: call, Caller: k, ID: infos[call].id, StartMs: t0.Sub(log.t0).Milliseconds(), DurMs: dur.Milliseconds(), Out: out, Err: es}
		rmu.Unlock()
	}
	if c.Script != "" {
		wg.Add(1)
		go func() {
			defer wg.Done()
			<-start
			c09Script(c, sps[0], peer, log, doCall)
		}()
	}
	for k := 0; k < c.Callers && c.Script == ""; k++ {
		wg.Add(1)
		go func(k int) {
			defer wg.Done()
			<-start
			if c.StaggerUs > 0 {
				// the callers of one proxy leave at the same instant, the groups one after the other so that a group really
				// runs in parallel
				at := goAt.Add(time.Duration((k%len(sps))*c.StaggerUs) * time.Microsecond)
				if d := time.Until(at) - 150*time.Microsecond; d > 0 {
					time.Sleep(d)
				}
				for time.Now().Before(at) {
				}
			}
			for j := 0; j < c.Calls; j++ {
				doCall(k*c.Calls+j, k)
				t1 := time.Now()
				// the adapters' keep-alive ping, triggered inside and outside the keep-alive interval: it must leave the counters alone
				for i, pause := range c.KaPattern {
					time.Sleep(time.Duration(pause) * time.Millisecond)
					for _, p := range sps {
						tars.VerifC08KeepAlive(p)
					}
					q, n, pn := snapshot()
					checkSeq(fmt.Sprintf("after keep-alive trigger %d following", i), k*c.Calls+j, q, n, pn, 0)
				}
				if g := c.gap(j) - int(time.Since(t1).Milliseconds()); g > 0 && j+1 < c.Calls {
					time.Sleep(time.Duration(g) * time.Millisecond)
				}
			}
		}(k)
	}
	obs.MaxRecv = -1
	stopSample := make(chan struct{})
	sampled := make(chan struct{})
	if c.Conn == "noread-early" {
		// the replies for callers still blocked in Send are held by their receivers until ReadTimeout: sample them
		obs.MaxRecv = 0
		go func() {
			defer close(sampled)
			for {
				select {
				case <-stopSample:
					return
				case <-time.After(4 * time.Millisecond):
				}
				n := 0
				for _, f := range c09Stuck() {
					if f == "tars.(*AdapterProxy).Recv" {
						n++
					}
				}
				if n > obs.MaxRecv {
					obs.MaxRecv = n
				}
			}
		}()
	} else {
		close(sampled)
	}
	log.mu.Lock()
	log.t0 = time.Now()
	log.mu.Unlock()
	if c.PrimeAll {
		var pw sync.WaitGroup
		for i := range sps {
			pw.Add(1)
			go func(i int) { defer pw.Done(); doCall(c.Callers*c.Calls+i, -1) }(i)
		}
		pd := make(chan struct{})
		go func() { pw.Wait(); close(pd) }()
		select {
		case <-pd:
		case <-time.After(time.Duration(c.eff()+c.DialMs+c.WriteMs+4000) * time.Millisecond):
		}
	} else if c.Prime {
		pd := make(chan struct{})
		go func() { doCall(c.Callers*c.Calls, -1); close(pd) }()
		select {
		case <-pd:
		case <-time.After(time.Duration(c.eff()+c.DialMs+c.WriteMs+4000) * time.Millisecond):
		}
	}
	if c.StaggerUs > 0 {
		atomic.StoreInt32(&quiet, 1)
	}
	goAt = time.Now().Add(20 * time.Millisecond)
	close(start)
	done := make(chan struct{})
	go func() { wg.Wait(); close(done) }()
	maxDelay := 0
	for _, a := range c.Acts {
		if a.DelayMs > maxDelay {
			maxDelay = a.DelayMs
		}
	}
	gaps := 0
	for j := 0; j+1 < c.Calls; j++ {
		gaps += c.gap(j)
	}
	hang := time.Duration(c.Calls*(c.eff()+c.DialMs*c.Callers+c.WriteMs)+gaps+4000) * time.Millisecond
	select {
	case <-done:
	case <-time.After(hang):
	}
	atomic.StoreInt32(&quiet, 0)
	close(stopSample)
	<-sampled
	// the counters are read immediately after the last call returned
	obs.QueueLen, obs.InvokeNum, obs.Pending = snapshot()
	for _, p := range sps {
		obs.QueueLens = append(obs.QueueLens, tars.VerifQueueLen(p))
	}
	rmu.Lock()
	obs.Calls = append([]c09CallObs(nil), results...)
	rmu.Unlock()
	// late replies still scheduled by the peer are sent, then the receivers have ReadTimeout to give up
	peer.drain(time.Duration(maxDelay+500) * time.Millisecond)
	deadline := time.Now().Add(time.Duration(c.ReadMs+1500) * time.Millisecond)
	for {
		obs.Stuck = c09Stuck()
		hanging := false
		for _, r := range obs.Calls {
			if r.Out == "hang" {
				hanging = true
			}
		}
		if len(obs.Stuck) == 0 || hanging || time.Now().After(deadline) {
			break
		}
		time.Sleep(25 * time.Millisecond)
	}
	q2, n2, p2 := snapshot()
	if obs.QueueLen == 0 && obs.InvokeNum == 0 && len(obs.Pending) == 0 {
		obs.QueueLen, obs.InvokeNum, obs.Pending = q2, n2, p2 // a late reply must not have re-created anything
	}
	amu.Lock()
	obs.Adapters = len(adps)
	amu.Unlock()
	log.mu.Lock()
	obs.Events = append([]c09Event(nil), log.evs...)
	log.mu.Unlock()
	return obs
}

// c09Stuck lists goroutines that are still inside the call path or a reply delivery.
func c09Stuck() []string {
	buf := make([]byte, 1<<20)
	n := runtime.Stack(buf, true)
	var out []string
	for _, g := range strings.Split(string(buf[:n]), "\n\n") {
		for _, f := range []string{"tars.(*AdapterProxy).Recv", "tars.(*ServantProxy).doInvoke", "tars.(*ServantProxy).TarsInvoke"} {
			if strings.Contains(g, f) {
				out = append(out, f)
				break
			}
		}
	}
	return out
}

// ---------------------------------------------------------------------------------------------------------------
// parent: run a scenario in a child, monitors

// c09Exec runs the scenario in a child process. A call that hangs is reported by the child's own watchdog well inside the
// child's time limit, so a child that produces no report at all (killed at the limit, crashed at start) is re-run twice
// before it is reported as a failed scenario process.
func c09Exec(c *c09Case) *c09Obs {
	var obs *c09Obs
	for try := 0; try < 3; try++ {
		if obs = c09ExecOnce(c); obs.Fatal == "" || !strings.HasPrefix(obs.Fatal, "worker failed") {
			break
		}
	}
	return obs
}

func c09ExecOnce(c *c09Case) *c09Obs {
	in := *c
	in.Obs = nil
	b, _ := json.Marshal(in)
	ctx, cancel := context.WithTimeout(context.Background(), 60*time.Second)
	defer cancel()
	cmd := exec.CommandContext(ctx, os.Args[0], "c09-worker")
	cmd.Stdin = bytes.NewReader(b)
	var so, se bytes.Buffer
	cmd.Stdout = &so
	cmd.Stderr = &se
	err := cmd.Run()
	obs := &c09Obs{}
	line := so.Bytes()
	if i := bytes.LastIndexByte(bytes.TrimSpace(line), '\n'); i >= 0 {
		line = bytes.TrimSpace(line)[i+1:]
	}
	if jerr := json.Unmarshal(line, obs); jerr != nil || err != nil {
		tail := se.String()
		if len(tail) > 600 {
			tail = tail[len(tail)-600:]
		}
		obs.Fatal = fmt.Sprintf("worker failed: %v / %v / %s", err, jerr, tail)
	}
	return obs
}

// c09Nominal is the latest return time (ms) a call with this outcome should show when the machine is not overloaded.
func c09Nominal(c *c09Case, rank int, r c09CallObs) int64 {
	switch {
	case c.Conn == "stall" || c.Conn == "tls-silent":
		return int64((rank + 1) * c.DialMs)
	case strings.HasPrefix(c.Conn, "noread") && r.Out == "error":
		return int64(c.WriteMs)
	case c.Conn == "noread-early" && r.Out == "reply":
		return int64(c.EarlyMs)
	case c.Conn == "tls-slow" && r.Out == "error":
		return int64(c.DialMs)
	case r.Out == "error", r.Out == "oneway":
		return 0
	default:
		return int64(c.eff())
	}
}

func c09Monitors(c *c09Case) (fails []Failure, timing bool) {
	o := c.Obs
	add := func(sig, desc string) {
		fails = append(fails, Failure{Sig: sig, Desc: desc})
	}
	if o.Fatal != "" {
		add("C09/worker/"+c.Conn, "scenario process failed: "+o.Fatal)
		return
	}
	// M1 deadline: every call returns by effective deadline + connection-establishment bound + slack
	byDur := append([]c09CallObs(nil), o.Calls...)
	sort.Slice(byDur, func(i, j int) bool { return byDur[i].DurMs < byDur[j].DurMs })
	// the connection-establishment bound is granted only to calls that may have had to dial: calls that started
	// before the peer accepted a connection, or while/after the connection was lost
	var acceptSeq int64
	var lossSeq []int64
	startSeq, retSeq := map[int]int64{}, map[int]int64{}
	for _, e := range o.Events {
		switch e.Kind {
		case "accept":
			if acceptSeq == 0 {
				acceptSeq = e.Seq
			}
		case "close", "kill":
			lossSeq = append(lossSeq, e.Seq)
		case "start":
			startSeq[e.Call] = e.Seq
		case "ret":
			retSeq[e.Call] = e.Seq
		}
	}
	mayDial := func(call int) bool {
		if c.Conn == "udp" {
			return false // datagram sockets connect at once
		}
		if (c.Conn != "accept" && c.Conn != "tls" && c.Conn != "tls-slow") || acceptSeq == 0 || acceptSeq > startSeq[call] {
			return true
		}
		if c.IdleMs > 0 && c.Callers == 1 && call > 0 && c.gap(call-1) >= c.IdleMs {
			return true // the idle connection may have been closed during the pause: this call may dial again
		}
		for _, l := range lossSeq {
			if rs, ok := retSeq[call]; !ok || l < rs {
				return true
			}
		}
		return false
	}
	for rank, r := range byDur {
		if r.Out == "hang" {
			add("call-deadline/never-returned/"+c.Conn, fmt.Sprintf("%s: call %d had not returned %d ms after its deadline", c.Name, r.Call, 4000))
			continue
		}
		bound, dialB := int64(c.eff()+c09SlackMs), 0
		if mayDial(r.Call) {
			dialB = c.DialMs
			bound += int64(c.DialMs)
		}
		if r.DurMs > bound {
			sig := "call-deadline/" + c.Conn + "/" + c09ActsKey(c)
			// the two confirmed defects, each only as far as its mechanism explains the delay
			if (c.Conn == "stall" || c.Conn == "tls-silent") && c.Callers > 1 && r.DurMs <= int64((rank+1)*c.DialMs+c09SlackMs) {
				sig = "call-deadline / stalled-dial x concurrent callers"
			} else if strings.HasPrefix(c.Conn, "noread") && r.Out == "error" && r.DurMs <= int64(c.WriteMs+c09SlackMs) {
				sig = "call-deadline / send-queue full"
			}
			add(sig, fmt.Sprintf("%s: call %d (%s) returned after %d ms; effective deadline %d ms + dial bound %d ms + slack %d ms = %d ms", c.Name, r.Call, r.Out, r.DurMs, c.eff(), dialB, c09SlackMs, bound))
			timing = true
		}
		if r.DurMs > c09Nominal(c, rank, r)+c09NominalMs {
			timing = true
		}
	}
	if c.Conn == "noread-early" && o.MaxRecv >= 0 {
		// the sampler may have been starved: fewer blocked receivers seen than callers that were blocked in Send -> run again
		nerr := 0
		for _, r := range o.Calls {
			if r.Out == "error" {
				nerr++
			}
		}
		if o.MaxRecv < nerr {
			timing = true
		}
	}
	if c.Conn == "tls-slow" && c.HandshakeMs < c.DialMs {
		// a handshake that was to finish well inside DialTimeout but did not (overloaded machine): run again
		for _, r := range o.Calls {
			if r.Out == "error" {
				timing = true
			}
		}
	}
	// M2 outcome: the reply (its own), an error, or the timeout error
	for _, r := range o.Calls {
		if r.Out == "badreply" {
			add("call-outcome/foreign-reply/"+c.Conn, fmt.Sprintf("%s: call %d returned success with a reply that is not the answer to its request", c.Name, r.Call))
		}
	}
	// M3 restored
	if o.QueueLen != 0 || o.InvokeNum != 0 || len(o.Pending) != 0 {
		hang := false
		for _, r := range o.Calls {
			hang = hang || r.Out == "hang"
		}
		if !hang {
			what := []string{}
			if o.QueueLen != 0 {
				what = append(what, "queueLen")
			}
			if len(o.Pending) != 0 {
				what = append(what, "resp")
			}
			if o.InvokeNum != 0 {
				what = append(what, "invokeNum")
			}
			add("not-restored/"+strings.Join(what, "+"), fmt.Sprintf("%s: after all %d calls returned: queueLen=%d pending-reply table=%v invokeNum=%d (all must be back to 0/empty)", c.Name, len(o.Calls), o.QueueLen, o.Pending, o.InvokeNum))
		}
	}
	for pi, q := range o.QueueLens {
		if q != 0 && o.QueueLen == 0 {
			add("not-restored/queueLen-per-proxy", fmt.Sprintf("%s: after all calls returned the queueLen of proxy %d of %d is %d (the proxies' counters %v add up to 0, but each proxy must be back to 0 on its own)", c.Name, pi, len(o.QueueLens), q, o.QueueLens))
			break
		}
	}
	if len(o.SeqViol) > 0 {
		add("not-restored/sequential", c.Name+": "+strings.Join(o.SeqViol[:min(3, len(o.SeqViol))], "; "))
	}
	// M4/M5 late replies are discarded: nobody is still delivering or waiting
	if len(o.Stuck) > 0 {
		add("left-behind/goroutine/"+o.Stuck[0], fmt.Sprintf("%s: %d goroutine(s) still inside %v after all calls returned, the peer's last reply and ReadTimeout+1.5 s", c.Name, len(o.Stuck), o.Stuck[0]))
	}
	return
}

func c09ActsKey(c *c09Case) string {
	seen := map[string]bool{}
	var ks []string
	for _, a := range c.Acts {
		k := a.Do
		if a.Do == "reply" || a.Do == "dup" || a.Do == "dupburst" || a.Do == "forged" || a.Do == "garbbody" {
			if a.DelayMs >= c.eff() {
				k += "-late"
			}
		}
		if !seen[k] {
			seen[k] = true
			ks = append(ks, k)
		}
	}
	sort.Strings(ks)
	return strings.Join(ks, ",")
}

func c09Run(c *c09Case) []Failure {
	var fails []Failure
	for try := 0; ; try++ {
		c.Obs = c09Exec(c)
		c.Obs.Retries = try
		var timing bool
		fails, timing = c09Monitors(c)
		if !timing || try >= c09TimingTries {
			break
		}
		// timing retry rule: a timing failure counts only if it reproduces in three immediate re-runs
		nonTiming := false
		for _, f := range fails {
			if !strings.HasPrefix(f.Sig, "call-deadline") {
				nonTiming = true
			}
		}
		if nonTiming {
			break
		}
		known := len(fails) > 0
		for _, f := range fails {
			if !strings.HasPrefix(f.Sig, "call-deadline / ") {
				known = false
			}
		}
		if known {
			break // the confirmed defects are deterministic; no need to repeat them
		}
	}
	return fails
}

// ---------------------------------------------------------------------------------------------------------------
// Coq rendering

func c09CoqN(v int) string { return fmt.Sprintf("%d", v) }

// units of the model clock: 10 ms
func c09U(ms int) int { return ms / 10 }

func c09Coq(c *c09Case) string {
	o := c.Obs
	if o == nil || o.Fatal != "" || c.Conn == "transport-race" {
		return ""
	}
	conn := map[string]string{"accept": "CAccept", "udp": "CAccept", "udp-unreachable": "CAccept", "refuse": "CRefuse", "stall": "CStall", "tls": "CAccept", "tls-slow": fmt.Sprintf("(CSlowAccept %d)", c09U(c.HandshakeMs)), "tls-silent": "CStall", "tls-untrusted": "CRefuse", "accept-close": "CAcceptClose", "noread": "CNoRead", "noread-early": fmt.Sprintf("(CNoReadEarly %d)", c09U(c.EarlyMs))}[c.Conn]
	var acts []string
	for _, a := range c.Acts {
		junk, reply, dup, down := "false", "None", "false", "false"
		switch a.Do {
		case "reply":
			reply = fmt.Sprintf("(Some %d)", c09U(a.DelayMs))
		case "dup", "dupburst":
			reply, dup = fmt.Sprintf("(Some %d)", c09U(a.DelayMs)), "true"
		case "forged", "garbbody":
			junk, reply = "true", fmt.Sprintf("(Some %d)", c09U(a.DelayMs))
		case "garbonly":
			junk = "true"
		case "close", "garblen":
			down = "true"
		}
		acts = append(acts, fmt.Sprintf("mkact %s %s %s %s", junk, reply, dup, down))
	}
	var obs []string
	sorted := append([]c09CallObs(nil), o.Calls...)
	if c.Callers > 1 {
		sort.Slice(sorted, func(i, j int) bool {
			if sorted[i].DurMs != sorted[j].DurMs {
				return sorted[i].DurMs < sorted[j].DurMs
			}
			return sorted[i].Out < sorted[j].Out
		})
	}
	for _, r := range sorted {
		cls := map[string]string{"reply": "OReply", "timeout": "OTimeout", "error": "OError", "oneway": "OSent"}[r.Out]
		if cls == "" {
			cls = "OOther"
		}
		obs = append(obs, fmt.Sprintf("(%s, %d)", cls, r.DurMs))
	}
	var evs []string
	for _, e := range o.Events {
		switch e.Kind {
		case "start":
			evs = append(evs, fmt.Sprintf("EStart %d", e.Call))
		case "pre":
			evs = append(evs, fmt.Sprintf("EPre %d %s", e.Call, c09ID(e.ID)))
		case "post":
			evs = append(evs, fmt.Sprintf("EPost %d", e.Call))
		case "ret":
			cls := map[string]string{"reply": "OReply", "timeout": "OTimeout", "error": "OError", "oneway": "OSent"}[e.Out]
			if cls == "" {
				cls = "OOther"
			}
			evs = append(evs, fmt.Sprintf("ERet %d %s %d %d %d %d", e.Call, cls, e.Pay, c09NN(e.Q), c09NN(e.N), e.P))
		case "recv":
			evs = append(evs, fmt.Sprintf("EPeerRecv %s", c09ID(e.ID)))
		case "send":
			evs = append(evs, fmt.Sprintf("EPeerSend %s %d", c09ID(e.ID), e.Pay))
		}
	}
	pred := "false"
	if c.Predict {
		pred = "true"
	}
	objMax := 100000
	if c.ObjMax > 0 {
		objMax = c.ObjMax
	}
	held := "None"
	if o.MaxRecv >= 0 {
		held = fmt.Sprintf("(Some %d)", o.MaxRecv)
	}
	gl := []string{c09CoqN(c09U(c.GapMs))}
	if len(c.Gaps) > 0 {
		gl = nil
		for _, g := range c.Gaps {
			gl = append(gl, c09CoqN(c09U(g)))
		}
	}
	idle := 60000
	if c.IdleMs > 0 {
		idle = c09U(c.IdleMs)
	}
	// the number of connections the peer accepted is definite where idle periods are the only reason to dial again
	nconn := "None"
	if c.Predict && c.IdleMs > 0 && c.Callers == 1 && (c.Conn == "accept" || c.Conn == "tls") {
		acc := 0
		for _, e := range o.Events {
			if e.Kind == "accept" {
				acc++
			}
		}
		nconn = fmt.Sprintf("(Some %d)", acc)
	}
	canc := "None"
	if c.CancelMs > 0 {
		canc = fmt.Sprintf("(Some %d)", c09U(c.CancelMs))
	}
	return fmt.Sprintf("mkcase (mkcfg %d %d %d %d %d %d) %s [%s] %d %d %s [%s] %s %d %s %d %s %s %s %s [%s] [%s] (%d, %d, %d)",
		c09U(c.DialMs), c09U(c.WriteMs), c09U(c.ReadMs), c.QueueLen, objMax, idle, conn, strings.Join(acts, "; "),
		c.Callers, c.Calls, c09Tmo(c), strings.Join(gl, "; "), coqBool(c.OneWay), c09ModelProxies(c), canc, c.RejectMod, coqBool(c.Prime && c.Callers > 1), pred, nconn, held, strings.Join(obs, "; "), strings.Join(evs, "; "),
		c09NN(o.QueueLen), c09NN(o.InvokeNum), len(o.Pending))
}

// c09ModelProxies: the number of ServantProxy objects for the one object as the model counts them (0 = one proxy)
func c09ModelProxies(c *c09Case) int {
	if c.SameObject && c.Proxies > 1 {
		return c.Proxies
	}
	return 0
}

// c09Tmo renders the three sources of the call's timeout as they are (the model derives the effective timeout itself)
func c09Tmo(c *c09Case) string {
	z := func(ms int) string { return fmt.Sprintf("(%d)%%Z", ms/10) }
	pc, cx := "None", "None"
	if c.PerCallSet || c.PerCallMs > 0 {
		pc = "(Some " + z(c.PerCallMs) + ")"
	}
	if c.CtxMs > 0 {
		cx = fmt.Sprintf("(Some %d)", c09U(c.CtxMs))
	}
	return fmt.Sprintf("(mktmo %s %s %s)", z(c.TimeoutMs), pc, cx)
}

// ids and counters are rendered as naturals (a negative value can only come from a defect and is mapped to a large number)
func c09ID(id int32) string { return fmt.Sprintf("%d", uint32(id)) }
func c09NN(v int32) uint32  { return uint32(v) }

// ---------------------------------------------------------------------------------------------------------------
// generator

func c09Gen(tier string, rng *rand.Rand) []c09Case {
	var cs []c09Case
	pick := func(l ...int) int { return l[rng.Intn(len(l))] }
	base := func(name, conn string, acts []c09Act) c09Case {
		if tier == "thorough" && rng.Intn(2) == 0 {
			return c09Case{Name: name, Conn: conn, Acts: acts, Callers: 1, Calls: 1, TimeoutMs: 160 + 10*rng.Intn(25), DialMs: 250 + 10*rng.Intn(20),
				WriteMs: 400 + 20*rng.Intn(10), ReadMs: 40 + 10*rng.Intn(10), QueueLen: pick(2, 4, 16, 100, 1000), Filter: []string{"prepost", "cf", "mw"}[rng.Intn(3)], Predict: true, Warm: true}
		}
		return c09Case{Name: name, Conn: conn, Acts: acts, Callers: 1, Calls: 1, TimeoutMs: pick(200, 250, 300), DialMs: pick(300, 400),
			WriteMs: pick(400, 500), ReadMs: pick(50, 100), QueueLen: pick(4, 100, 1000), Filter: []string{"prepost", "cf", "mw"}[rng.Intn(3)], Predict: true, Warm: true}
	}
	rep := func(d int) []c09Act { return []c09Act{{Do: "reply", DelayMs: d}} }
	// concurrent callers on an established connection: one call alone first (answered at once), then the callers
	prime := func(c c09Case) c09Case {
		c.Prime = true
		c.Acts = append([]c09Act{{Do: "reply"}}, c.Acts...)
		c.Name += "+established"
		return c
	}
	maybePrime := func(c c09Case) c09Case {
		if rng.Intn(3) > 0 {
			return prime(c)
		}
		return c
	}
	r10 := func(v int) int { return v / 10 * 10 }
	rounds := 1
	if tier == "thorough" {
		rounds = 30
	}
	for round := 0; round < rounds; round++ {
		// ---- one sequential caller
		c := base("reply-fast", "accept", rep(0))
		c.Calls = pick(3, 5, 8)
		c.GapMs = pick(0, 10, 30)
		cs = append(cs, c)
		c = base("mixed-sequential", "accept", nil)
		T := c.TimeoutMs
		c.Acts = []c09Act{{"reply", r10(T / 2)}, {"reply", r10(T * 3 / 2)}, {"reply", 0}, {"forged", 20}, {"dup", 10}, {"garbbody", 30}, {"none", 0}, {"reply", 0}, {"garbonly", 0}, {"reply", 10}, {"dup", r10(T * 3 / 2)}, {"forged", r10(T * 3 / 2)}, {"reply", 0}}
		c.Calls = len(c.Acts)
		c.GapMs = 10
		cs = append(cs, c)
		c = base("reply-late", "accept", nil)
		c.Acts = []c09Act{{"reply", 0}, {"reply", r10(c.TimeoutMs * 3 / 2)}, {"reply", 0}}
		c.Calls = 4
		c.GapMs = 20
		cs = append(cs, c)
		c = base("ctx-shorter", "accept", []c09Act{{"reply", 0}, {"none", 0}, {"reply", 50}, {"reply", 350}})
		c.TimeoutMs = 600
		c.CtxMs = pick(150, 200, 250)
		c.Calls = 4
		cs = append(cs, c)
		c = base("ctx-longer", "accept", []c09Act{{"reply", 0}, {"reply", 200}, {"none", 0}})
		c.TimeoutMs = 100
		c.CtxMs = pick(300, 400)
		c.Calls = 3
		cs = append(cs, c)
		c = base("percall-shorter", "accept", []c09Act{{"reply", 0}, {"none", 0}, {"reply", 350}})
		c.TimeoutMs = 600
		c.PerCallMs = pick(150, 200, 250)
		c.Calls = 3
		cs = append(cs, c)
		c = base("percall-longer", "accept", []c09Act{{"reply", 0}, {"reply", 200}, {"none", 0}})
		c.TimeoutMs = 100
		c.PerCallMs = pick(300, 400)
		c.Calls = 3
		cs = append(cs, c)
		c = base("ctx-beats-percall", "accept", []c09Act{{"reply", 0}, {"none", 0}})
		c.TimeoutMs = 600
		c.PerCallMs = 500
		c.CtxMs = pick(150, 250)
		c.Calls = 2
		cs = append(cs, c)
		// after a close the proxy is used again (the outcome of the later calls is C11's subject: monitors only)
		c = base("close-then-more", "accept", []c09Act{{Do: "reply"}, {Do: "close"}, {Do: "reply"}})
		c.Calls = 5
		c.GapMs = 30
		c.Predict = false
		cs = append(cs, c)
		c = base("garbage-length-then-more", "accept", []c09Act{{Do: "reply"}, {Do: "garblen"}, {Do: "reply"}})
		c.Calls = 4
		c.GapMs = 30
		c.Predict = false
		cs = append(cs, c)
		c = base("refused", "refuse", []c09Act{{Do: "none"}})
		c.Calls = pick(1, 3)
		cs = append(cs, c)
		c = base("stalled-connect-single", "stall", []c09Act{{Do: "none"}})
		c.TimeoutMs = pick(100, 200)
		c.Calls = pick(1, 2)
		cs = append(cs, c)
		// ---- concurrent callers
		c = base("reply-fast-concurrent", "accept", rep(pick(0, 20, 50)))
		c.Callers = pick(2, 4, 8, 16, 32)
		cs = append(cs, maybePrime(c))
		c = base("reply-slow-concurrent", "accept", nil)
		c.Acts = rep(r10(c.TimeoutMs / 2))
		c.Callers = pick(2, 8, 16)
		cs = append(cs, maybePrime(c))
		c = base("reply-late-concurrent", "accept", nil)
		c.Acts = rep(c.TimeoutMs * 2)
		c.Callers = pick(2, 4, 16, 64)
		cs = append(cs, maybePrime(c))
		c = base("silent-concurrent", "accept", []c09Act{{Do: "none"}})
		c.Callers = pick(3, 8, 64)
		cs = append(cs, prime(c))
		c = base("silent-concurrent-first-use", "accept", []c09Act{{Do: "none"}})
		c.Callers = pick(2, 8, 32)
		cs = append(cs, c)
		c = base("ctx-shorter-silent-concurrent", "accept", []c09Act{{Do: "none"}})
		c.TimeoutMs = 600
		c.CtxMs = pick(100, 150, 200)
		c.Callers = pick(2, 4, 16)
		cs = append(cs, prime(c))
		c = base("percall-shorter-silent-concurrent", "accept", []c09Act{{Do: "none"}})
		c.TimeoutMs = 600
		c.PerCallMs = pick(100, 150, 200)
		c.Callers = pick(2, 4, 16)
		cs = append(cs, prime(c))
		for _, k := range []string{"close", "garblen"} {
			// (room for every caller in the send queue: what a sender goroutine does with queued requests once its
			// connection is lost is C11's subject)
			c = base(k+"-on-request", "accept", []c09Act{{Do: k}})
			c.QueueLen = 100
			c.Callers = pick(1, 2, 6)
			cs = append(cs, c)
		}
		c = base("close-on-accept", "accept-close", []c09Act{{Do: "none"}})
		c.QueueLen = 100
		c.Callers = pick(1, 3)
		cs = append(cs, c)
		c = base("garbage-body-concurrent", "accept", []c09Act{{Do: "garbbody", DelayMs: 40}})
		c.Callers = pick(2, 8)
		cs = append(cs, maybePrime(c))
		c = base("garbage-only-concurrent", "accept", []c09Act{{Do: "garbonly"}})
		c.Callers = pick(2, 8)
		cs = append(cs, prime(c))
		c = base("forged-concurrent", "accept", []c09Act{{Do: "forged", DelayMs: 30}})
		c.Callers = pick(2, 8, 16)
		cs = append(cs, maybePrime(c))
		c = base("dup-concurrent", "accept", []c09Act{{Do: "dup", DelayMs: 20}})
		c.Callers = pick(2, 8, 16)
		cs = append(cs, maybePrime(c))
		c = base("dup-burst-concurrent", "accept", []c09Act{{Do: "dupburst", DelayMs: pick(0, 20)}})
		c.Callers = pick(4, 16, 32)
		cs = append(cs, maybePrime(c))
		c = base("dup-burst-sequential", "accept", []c09Act{{Do: "dupburst", DelayMs: pick(0, 20)}})
		c.Calls = 6
		cs = append(cs, c)
		c = base("dup-late-concurrent", "accept", nil)
		c.Acts = []c09Act{{Do: "dup", DelayMs: r10(c.TimeoutMs * 3 / 2)}}
		c.Callers = pick(2, 8, 16)
		cs = append(cs, prime(c))
		// replies that race with the deadline (either outcome is right: monitors only)
		c = base("reply-at-deadline", "accept", nil)
		c.Acts = rep(c.TimeoutMs)
		c.Callers = pick(16, 64)
		c.Predict = false
		cs = append(cs, prime(c))
		// more callers than ObjQueueMax admits: the surplus is turned away at once (how many is a race: monitors only)
		c = base("obj-queue-max", "accept", []c09Act{{Do: "none"}})
		c.Callers = pick(8, 16)
		c.ObjMax = pick(1, 3)
		c.Predict = false
		cs = append(cs, prime(c))
		// concurrent first use without a prepared adapter (racing first callers may each create one: monitors only)
		c = base("cold-concurrent-silent", "accept", []c09Act{{Do: "none"}})
		c.Callers = pick(8, 32)
		c.Warm = false
		c.Predict = false
		cs = append(cs, c)
		c = base("cold-concurrent-reply", "accept", rep(pick(0, 30)))
		c.Callers = pick(8, 32)
		c.Calls = 3
		c.Warm = false
		c.Predict = false
		cs = append(cs, c)
		// ---- ssl endpoints: connection establishment = TCP connect + TLS handshake, both inside the dial step
		c = base("tls-mixed-sequential", "tls", nil)
		T = c.TimeoutMs
		c.Acts = []c09Act{{"reply", 0}, {"reply", r10(T / 2)}, {"none", 0}, {"reply", r10(T * 3 / 2)}, {"dup", 10}, {"forged", 20}, {"reply", 0}}
		c.Calls = len(c.Acts)
		c.GapMs = 10
		cs = append(cs, c)
		c = base("tls-reply-concurrent", "tls", rep(pick(0, 30)))
		c.Callers = pick(2, 8, 16)
		cs = append(cs, maybePrime(c))
		c = base("tls-silent-concurrent", "tls", []c09Act{{Do: "none"}})
		c.Callers = pick(2, 8)
		cs = append(cs, prime(c))
		c = base("tls-close-on-request", "tls", []c09Act{{Do: "close"}})
		c.QueueLen = 100
		c.Callers = pick(1, 3)
		cs = append(cs, c)
		// the peer accepts the TCP connection and never answers the handshake: the dial step must give up at DialTimeout
		c = base("tls-handshake-silent", "tls-silent", []c09Act{{Do: "none"}})
		c.TimeoutMs = pick(100, 200)
		c.Calls = pick(1, 2)
		cs = append(cs, c)
		c = base("tls-handshake-silent-concurrent", "tls-silent", []c09Act{{Do: "none"}})
		c.TimeoutMs = pick(100, 200)
		c.DialMs = 300
		c.Callers = pick(2, 3)
		cs = append(cs, c)
		// ... or answers it late, inside / outside DialTimeout
		c = base("tls-handshake-slow", "tls-slow", []c09Act{{Do: "reply"}})
		c.DialMs = 900 // wide margin: under load the handshake itself takes its time
		c.HandshakeMs = pick(100, 150, 200)
		c.TimeoutMs = pick(300, 350)
		c.Calls = 3
		c.GapMs = 10
		cs = append(cs, c)
		c = base("tls-handshake-slow-concurrent", "tls-slow", []c09Act{{Do: "reply", DelayMs: 20}})
		c.DialMs = 900
		c.HandshakeMs = pick(100, 200)
		c.TimeoutMs = 300
		c.Callers = pick(2, 4)
		cs = append(cs, c)
		c = base("tls-handshake-too-slow", "tls-slow", []c09Act{{Do: "reply"}})
		c.DialMs = 300
		c.HandshakeMs = 600
		c.TimeoutMs = pick(100, 200)
		cs = append(cs, c)
		c = base("tls-untrusted-certificate", "tls-untrusted", []c09Act{{Do: "reply"}})
		c.Callers = pick(1, 3)
		c.Calls = pick(1, 2)
		if c.Callers > 1 {
			c.Calls = 1
		}
		cs = append(cs, c)
		// ---- idle periods: the sender goroutine checks the idle timeout once per second and closes the connection; the next
		// call dials again and must return by its deadline all the same (idle timeouts around the one-second tick)
		// (an idle timeout that is an exact multiple of the one-second tick is closed at that tick or the next depending on
		// the ticker's jitter: such values are left to the monitors-only scenario below)
		for _, idle := range []int{pick(300, 700), pick(900, 1100), pick(1200, 1500, 1900)} {
			c = base("idle-then-call", "accept", rep(pick(0, 20)))
			c.IdleMs = idle
			c.Calls = 3
			c.Gaps = []int{idle + 1150, pick(50, idle/2)}
			if tier != "thorough" && idle > 1000 {
				c.Calls = 2
			}
			cs = append(cs, c)
		}
		c = base("idle-then-concurrent-callers", "accept", rep(pick(0, 20)))
		c.IdleMs = pick(400, 1000, 1200)
		c.Callers = pick(2, 6)
		c.Calls = 2
		c.Gaps = []int{c.IdleMs + 1150}
		c.Predict = false // the callers' second calls start at their own pace: monitors and trace validation only
		cs = append(cs, c)
		c = base("idle-then-call-tls", "tls", rep(0))
		c.IdleMs = pick(500, 900, 1100)
		c.Calls = 2
		c.Gaps = []int{c.IdleMs + 1150}
		cs = append(cs, c)
		c = base("idle-after-timeout", "accept", []c09Act{{"none", 0}, {"reply", 0}})
		c.IdleMs = pick(400, 1000)
		c.Calls = 3
		c.Gaps = []int{c.IdleMs + 1150, 50}
		cs = append(cs, c)
		// ---- a client filter (every registration style) spends part of the call's time before invoking: the deadline fixed at
		// TarsInvoke entry still holds (monitors and trace validation; the model has no filter step)
		for _, style := range []string{"prepost", "cf", "mw"} {
			c = base("sleeping-filter-silent-"+style, "accept", []c09Act{{"reply", 0}, {"none", 0}})
			c.TimeoutMs = pick(300, 400)
			c.FilterSleepMs = r10(c.TimeoutMs * pick(50, 60, 75) / 100)
			c.Filter = style
			c.Calls = 2
			c.Predict = false
			if rng.Intn(2) == 0 {
				c.CtxMs, c.TimeoutMs = c.TimeoutMs, 900
			}
			cs = append(cs, c)
		}
		c = base("sleeping-filter-slow-reply", "accept", nil)
		c.TimeoutMs = pick(300, 400)
		c.FilterSleepMs = r10(c.TimeoutMs / 2)
		c.Acts = []c09Act{{"reply", 0}, {"reply", r10(c.TimeoutMs / 4)}, {"reply", r10(c.TimeoutMs * 3 / 4)}}
		c.Filter = []string{"prepost", "cf", "mw"}[rng.Intn(3)]
		c.Calls = 3
		c.Predict = false
		cs = append(cs, c)
		c = base("sleeping-filter-silent-concurrent", "accept", []c09Act{{Do: "none"}})
		c.TimeoutMs = pick(300, 400)
		c.FilterSleepMs = r10(c.TimeoutMs * 6 / 10)
		c.Filter = []string{"prepost", "cf", "mw"}[rng.Intn(3)]
		c.Callers = pick(2, 8)
		c.Predict = false
		if rng.Intn(2) == 0 {
			c.PerCallMs, c.TimeoutMs = c.TimeoutMs, 900
		}
		cs = append(cs, c)
		// ---- read timeout 0 (no read deadline) and other tiny values: rtimer.After panics inside Recv for a reply whose caller
		// waits (recovered: the reply is lost); later calls must still return by their deadlines and leave nothing behind
		for _, ns := range []int{0, pick(1, 10, 19)} {
			c = base("tiny-read-timeout", "accept", rep(pick(0, 20)))
			c.ReadMs, c.ReadNs = 0, ns
			c.Calls = 3
			c.GapMs = 10
			c.Predict = false
			cs = append(cs, c)
		}
		c = base("tiny-read-timeout-concurrent", "accept", rep(pick(0, 20)))
		c.ReadMs, c.ReadNs = 0, pick(0, 10)
		c.Callers = pick(2, 8)
		c.Calls = 2
		c.Predict = false
		cs = append(cs, c)
		// ---- replies timed at the caller's deadline (-3..+5 ms in 1 ms steps), each followed at once by another call that is
		// still waiting while the late reply is around; two proxies of the process: every success must carry the caller's
		// own payload (either outcome of the raced call is right: monitors and trace validation only)
		for i := 0; i < 2; i++ {
			c = base("deadline-sweep", "accept", []c09Act{{Do: "sweep"}})
			c.TimeoutMs = 100
			c.ReadMs = 100
			c.QueueLen = 1000
			c.Callers = pick(16, 24, 32)
			c.Calls = 6
			c.Proxies = 2
			c.Predict = false
			cs = append(cs, c)
		}
		// ---- the adapters' keep-alive ping, triggered inside and outside the configured keep-alive interval between calls:
		// queueLen / pending table / invokeNum are exactly restored after each trigger
		for _, ka := range []int{0, 1000, pick(2000, 3000)} {
			c = base("keep-alive-triggers", "accept", rep(0))
			c.KeepAliveMs = ka
			c.KaPattern = []int{0, 30, ka + 100, 20}
			c.Calls = 2
			c.GapMs = ka + 200
			c.Proxies = pick(1, 2)
			if ka > 1000 && tier != "thorough" {
				c.Calls = 1
			}
			cs = append(cs, c)
		}
		// ---- many concurrent callers on a send queue with one (two) free slot(s) against a peer that does not read: the
		// priming call's 8 MB request keeps the send goroutine in conn.Write, then the callers arrive at the same instant; every
		// call returns (the ones that find no room after WriteTimeout: the known finding) and nothing is left behind
		for i := 0; i < 2; i++ {
			c = base("send-queue-race", "noread", []c09Act{{Do: "none"}})
			c.TimeoutMs = 100
			c.DialMs = 200
			c.WriteMs = 600
			c.QueueLen = pick(1, 1, 2)
			c.Callers = pick(16, 32, 64)
			c.Prime = true
			c.BigPrimeOnly = true
			c.ReqSize = 8 << 20
			cs = append(cs, c)
		}
		// ... and at the transport level, where the callers of one client really collide on connLock and on the one free slot:
		// many clients, each with its send goroutine stuck in conn.Write, two or three callers per client leave together; every
		// Send returns within DialTimeout + WriteTimeout (monitor only)
		cs = append(cs, c09TransportRaceCase(base, pick))
		// ---- effective timeout zero or negative, set on the proxy or per call, with and without a caller deadline, silent and
		// slow peers: a deadline that has passed at the start gives the timeout error at once; a caller deadline still wins
		for _, v := range []int{0, pick(-1, -50)} {
			c = base("timeout-nonpositive-proxy", "accept", []c09Act{{"none", 0}, {"reply", 100}, {"none", 0}})
			c.TimeoutMs = v
			c.Calls = 3
			c.GapMs = 20
			cs = append(cs, c)
			c = base("timeout-nonpositive-per-call", "accept", []c09Act{{"none", 0}, {"reply", 100}})
			c.PerCallSet, c.PerCallMs = true, v
			c.Calls = 2
			c.GapMs = 20
			cs = append(cs, c)
		}
		c = base("timeout-zero-concurrent", "accept", []c09Act{{Do: "none"}})
		c.TimeoutMs = 0
		c.Callers = pick(2, 8)
		cs = append(cs, c)
		c = base("timeout-zero-with-caller-deadline", "accept", []c09Act{{"none", 0}, {"reply", 100}})
		c.TimeoutMs = 0
		if rng.Intn(2) == 0 {
			c.TimeoutMs = 300
			c.PerCallSet, c.PerCallMs = true, pick(0, -10)
		}
		c.CtxMs = pick(200, 250)
		c.Calls = 2
		c.GapMs = 20
		cs = append(cs, c)
		// ---- the caller cancels its context while the call waits (silent and slow peers, with and without a deadline of its
		// own, before and after the deadline): the call returns at once with the timeout error and leaves nothing behind
		c = base("cancel-sequential", "accept", []c09Act{{"reply", 0}, {"none", 0}, {"reply", 350}, {"reply", 30}})
		c.TimeoutMs = pick(300, 400)
		c.CancelMs = pick(80, 120, 150)
		c.Calls = 4
		c.GapMs = 10
		cs = append(cs, c)
		c = base("cancel-concurrent", "accept", []c09Act{{Do: "none"}})
		c.TimeoutMs = pick(300, 400)
		c.CancelMs = pick(80, 120)
		c.Callers = pick(2, 8, 16)
		cs = append(cs, maybePrime(c))
		c = base("cancel-with-caller-deadline", "accept", []c09Act{{"reply", 0}, {"none", 0}})
		c.TimeoutMs = 600
		c.CtxMs = pick(250, 300)
		c.CancelMs = pick(80, 120)
		c.Calls = 2
		cs = append(cs, c)
		c = base("cancel-after-deadline", "accept", []c09Act{{"reply", 0}, {"none", 0}})
		c.TimeoutMs = pick(200, 250)
		c.CancelMs = c.TimeoutMs + 150
		c.Calls = 2
		cs = append(cs, c)
		// ---- a client filter rejects calls without invoking them: an error at once, nothing registered, postInvoke still runs
		c = base("filter-reject-sequential", "accept", rep(pick(0, 20)))
		c.Filter = []string{"cf", "mw"}[rng.Intn(2)]
		c.RejectMod = pick(2, 3)
		c.Calls = 6
		c.GapMs = 10
		cs = append(cs, c)
		c = base("filter-reject-all-concurrent", "accept", rep(0))
		c.Filter = []string{"cf", "mw"}[rng.Intn(2)]
		c.RejectMod = 1
		c.Callers = pick(4, 16)
		cs = append(cs, c)
		c = base("filter-reject-some-concurrent", "accept", []c09Act{{Do: "none"}})
		c.Filter = []string{"cf", "mw"}[rng.Intn(2)]
		c.RejectMod = 3
		c.Callers = pick(6, 12)
		c.Calls = 2
		c.Predict = false
		cs = append(cs, c)
		// ---- several ServantProxy objects for ONE object (they share the endpoint manager and its adapters) with overlapping
		// calls: every proxy's own queueLen is back to 0 (the model's counter is one proxy's: the sums are predicted)
		c = base("same-object-proxies-overlap", "accept", rep(pick(40, 60)))
		c.Proxies = pick(2, 3)
		c.SameObject = true
		c.Callers = pick(4, 6, 12)
		c.Calls = 3
		c.Predict = false // the callers' later calls start at their own pace
		cs = append(cs, c)
		c = base("same-object-proxies-overlap-once", "accept", rep(pick(40, 60)))
		c.Proxies = pick(2, 3)
		c.SameObject = true
		c.Callers = pick(4, 6, 12)
		cs = append(cs, maybePrime(c))
		c = base("same-object-proxies-timeouts", "accept", []c09Act{{Do: "none"}})
		c.Proxies = 2
		c.SameObject = true
		c.Callers = pick(2, 4, 8)
		cs = append(cs, c)
		c = base("same-object-proxies-refused", "refuse", []c09Act{{Do: "none"}})
		c.Proxies = 2
		c.SameObject = true
		c.Callers = pick(2, 6)
		c.Calls = 2
		c.Predict = false
		cs = append(cs, c)
		// ---- scripted connection loss with the send goroutine held in front of its write: the close of a connection that is
		// no longer current ("stale-close": the peer closes, the receiver marks the client closed, another call reconnects,
		// only then the held sender writes, fails and closes its old connection), and the same with the sender released
		// before anybody reconnects ("held-close"); further calls must return by their deadlines, nothing left behind
		for _, sc := range []string{"stale-close", "held-close"} {
			c = base(sc, "accept", rep(0))
			c.Script = sc
			c.TimeoutMs = 600
			c.Calls = pick(5, 6)
			c.QueueLen = 100
			c.Predict = false
			cs = append(cs, c)
		}
		// datagram transport: no connection to establish or lose
		c = base("udp-mixed-sequential", "udp", nil)
		T = c.TimeoutMs
		c.Acts = []c09Act{{"reply", 0}, {"none", 0}, {"reply", r10(T * 3 / 2)}, {"dup", 20}, {"forged", 20}, {"reply", r10(T / 2)}, {"reply", 0}}
		c.Calls = len(c.Acts)
		c.GapMs = 10
		cs = append(cs, c)
		c = base("udp-silent-concurrent", "udp", []c09Act{{Do: "none"}})
		c.Callers = pick(2, 8, 32)
		cs = append(cs, c)
		c = base("udp-reply-concurrent", "udp", rep(pick(0, 30)))
		c.Callers = pick(2, 8, 32)
		cs = append(cs, c)
		c = base("udp-unreachable", "udp-unreachable", []c09Act{{Do: "none"}})
		c.Calls = 3
		c.GapMs = 20
		c.Predict = false
		cs = append(cs, c)
		// one-way calls return as soon as the request is queued (monitors only)
		c = base("one-way", "accept", []c09Act{{Do: "none"}})
		c.OneWay = true
		c.Calls = pick(2, 4)
		c.GapMs = 10
		cs = append(cs, c)
		c = base("one-way-concurrent", "accept", []c09Act{{Do: "none"}})
		c.OneWay = true
		c.Callers = pick(2, 4, 16)
		cs = append(cs, c)
		c = base("one-way-refused", "refuse", []c09Act{{Do: "none"}})
		c.OneWay = true
		c.Callers = pick(1, 4)
		cs = append(cs, c)
		c = base("one-way-never-reading-peer", "noread", []c09Act{{Do: "none"}})
		c.OneWay = true
		c.TimeoutMs = 100
		c.DialMs = 200
		c.WriteMs = 600
		c.QueueLen = 1
		c.Callers = pick(4, 5)
		c.ReqSize = 8 << 20
		cs = append(cs, c)
		// connection establishment: refused, stalled
		c = base("refused-concurrent", "refuse", []c09Act{{Do: "none"}})
		c.Callers = pick(2, 4, 16)
		cs = append(cs, c)
		c = base("stalled-connect-concurrent", "stall", []c09Act{{Do: "none"}})
		c.TimeoutMs = pick(100, 200)
		c.DialMs = 300
		c.Callers = pick(2, 3)
		cs = append(cs, c)
		// the peer accepts and never reads: the send queue fills
		c = base("never-reading-peer", "noread", []c09Act{{Do: "none"}})
		c.TimeoutMs = 100
		c.DialMs = 200
		c.WriteMs = 600
		c.QueueLen = 1
		c.Callers = pick(4, 5)
		c.ReqSize = 8 << 20
		cs = append(cs, c)
		// ... and answers requests it never read: the replies for callers still blocked in Send find the callers' channels
		// and must be given up after ReadTimeout
		c = base("never-reading-peer-early-replies", "noread-early", []c09Act{{Do: "none"}})
		c.TimeoutMs = 200
		c.DialMs = 200
		c.WriteMs = 600
		c.ReadMs = pick(150, 200)
		c.QueueLen = 1
		c.Callers = pick(4, 5)
		c.EarlyMs = 50
		c.ReqSize = 8 << 20
		cs = append(cs, c)
		// ... with a read timeout longer than the write timeout: the receivers still hold the channels of callers that have
		// given up when those callers call again (a late reply must not reach the next call; which calls get through the full
		// queue is a race: monitors and trace validation only)
		c = base("never-reading-peer-early-replies-then-more", "noread-early", []c09Act{{Do: "none"}})
		c.TimeoutMs = 200
		c.DialMs = 200
		c.WriteMs = 500
		c.ReadMs = 800
		c.QueueLen = 1
		c.Callers = pick(4, 5)
		c.Calls = 2
		c.EarlyMs = 50
		c.ReqSize = 8 << 20
		c.Proxies = 2
		c.ProxyByCall = true // the second calls go to another proxy of the process, with small requests: they all reach their wait
		c.SmallAfter = 1
		c.Predict = false
		cs = append(cs, c)
		c = base("never-reading-peer-room", "noread", []c09Act{{Do: "none"}})
		c.QueueLen = 100
		c.Callers = pick(2, 6)
		cs = append(cs, c)
	}
	// a second instance, away from the first in the schedule (two of them at once load the machine needlessly)
	cs = append(cs, c09TransportRaceCase(base, pick))
	for i := range cs {
		cs[i].Procs = pick(0, 0, 0, 1, 2, 4)
		if strings.HasPrefix(cs[i].Name, "send-queue-race") || strings.HasPrefix(cs[i].Name, "transport-send-race") {
			cs[i].Procs = 0 // the race needs callers that really run in parallel
		}
	}
	return cs
}

// c09Script runs an orchestrated sequence on one proxy (calls 0 .. c.Calls-1):
//
//	call 0 is answered and establishes connection A; call 1's request is taken by A's send goroutine, which is held just
//	before its write (transport.VerifC11OnWrite); the peer closes A; the client is seen marked closed;
//	"stale-close": call 2 reconnects (B is current) and is answered, then the held sender is released: its write on A fails
//	               and it closes A, which is not the current connection any more;
//	"held-close":  the held sender is released first (its connection is still the current one), then call 2 reconnects;
//	call 1 returns (its request is re-queued for the new connection), the remaining calls follow one after the other.
func c09Script(c *c09Case, sp *tars.ServantProxy, peer *c09Peer, log *c09Log, doCall func(call, k int)) {
	hold, held := make(chan struct{}), make(chan struct{}, 1)
	var once sync.Once
	tag := []byte{0xA0, 0, 0, 1} // the payload tag of call 1
	transport.VerifC11OnWrite = func(tc *transport.TarsClient, conn net.Conn, req []byte, current bool, closedFlag bool) {
		if bytes.Contains(req, tag) {
			once.Do(func() {
				held <- struct{}{}
				select {
				case <-hold:
				case <-time.After(5 * time.Second):
				}
			})
		}
	}
	defer func() { transport.VerifC11OnWrite = nil }()
	doCall(0, 0)
	d1 := make(chan struct{})
	go func() { doCall(1, 0); close(d1) }()
	select {
	case <-held:
	case <-time.After(3 * time.Second):
		close(hold)
		<-d1
		return
	}
	peer.closeConns()
	var tc *transport.TarsClient
	if adps := tars.VerifAdapters(sp); len(adps) > 0 {
		tc = tars.VerifTarsClient(adps[0])
	}
	for deadline := time.Now().Add(3 * time.Second); tc != nil && time.Now().Before(deadline); time.Sleep(200 * time.Microsecond) {
		if closed, _ := transport.VerifC11Conn(tc); closed {
			break
		}
	}
	if c.Script == "held-close" {
		close(hold)
		time.Sleep(20 * time.Millisecond)
		doCall(2, 0)
	} else {
		doCall(2, 0)
		close(hold)
	}
	select {
	case <-d1:
	case <-time.After(time.Duration(c.eff()+c.DialMs+c.WriteMs+3000) * time.Millisecond):
	}
	for j := 3; j < c.Calls; j++ {
		doCall(j, 0)
		time.Sleep(10 * time.Millisecond)
	}
}

func c09TransportRaceCase(base func(name, conn string, acts []c09Act) c09Case, pick func(l ...int) int) c09Case {
	c := base("transport-send-race", "transport-race", []c09Act{{Do: "none"}})
	c.DialMs = 300
	c.WriteMs = 500
	c.TimeoutMs = c.WriteMs + 1000 // the bound checked: dial bound + write timeout + 1 s (the 8 MB writes of many clients can stall a loaded machine) + slack; a Send that lost the race never returns
	c.QueueLen = 1
	c.Proxies = pick(40, 48)
	c.Callers = c.Proxies * pick(2, 3)
	c.StaggerUs = 1000
	c.ReqSize = 8 << 20 // past what the socket buffers of a peer that does not read take
	c.Predict = false
	return c
}

func c09Class(c *c09Case) string {
	if c.Obs == nil {
		return ""
	}
	outs := map[string]bool{}
	for _, r := range c.Obs.Calls {
		outs[r.Out] = true
	}
	var ks []string
	for k := range outs {
		ks = append(ks, k)
	}
	sort.Strings(ks)
	conc := "seq"
	if c.Callers > 1 {
		conc = "conc"
	}
	dl := "cfg"
	if c.CtxMs > 0 {
		dl = "ctx"
	} else if c.PerCallSet || c.PerCallMs > 0 {
		dl = "percall"
	}
	return c.Conn + "/" + c09ActsKey(c) + "/" + conc + "/" + dl + "/" + c.Filter + "/" + strings.Join(ks, "+")
}

func init() {
	props["c09-worker"] = func(a Args) { c09Worker() }
	props["C09"] = func(a Args) {
		if a.Replay != "" && c09WheelReplay(a) {
			return
		}
		runProp(Prop[c09Case]{
			ID:       "C09",
			Require:  "From TarsV Require Import Conc.CallLife.",
			CaseType: "c09case",
			Mismatch: "c09_mismatches",
			Corr:     "corr_C09_scenario (canonical model run predicts outcome classes and return times; event trace accepted)",
			Rule:     "distinct (connection behaviour, peer actions, sequential/concurrent, deadline source, filter style, set of outcome classes)",
			Shard:    60,
			Workers:  8,
			Gen:      c09Gen,
			Run:      func(c *c09Case) []Failure { return c09Run(c) },
			Coq:      c09Coq,
			Class:    c09Class,
			Extra: func(tier string, rng *rand.Rand, res *Result) {
				res.Traces = len(res.Cases)
				retried := 0
				for _, c := range res.Cases {
					if strings.Contains(string(c), `"retries":0`) {
						continue
					}
					retried++
				}
				res.Stats["scenarios_rerun_for_timing"] = retried
				c09WheelExtra(a.Out, tier, rng, res)
				res.Stats["slack_ms"] = c09SlackMs
				res.Stats["model_tolerance_ms"] = []int{c09ModelTolLo, c09ModelTolHi}
				res.Stats["timing_rule"] = "a deadline overshoot counts only if it reproduces in three immediate re-runs of the same scenario"
			},
		}, a)
	}
	_ = rtimer.VerifAccuracy
}

// regenerated constants of the C09 model (coq/Gen/C09Consts.v), as the compiler sees them in the tree
func init() {
	props["gen-c09consts"] = func(a Args) {
		fmt.Println("(* GENERATED from the TarsGo tree by `harness gen-c09consts` on every run - do not edit *)")
		fmt.Println("From Coq Require Import NArith ZArith.")
		fmt.Println("Open Scope N_scope.")
		fmt.Printf("Definition c_rtimer_accuracy := %d.\n", rtimer.VerifAccuracy())
		fmt.Printf("Definition c_ClientDialTimeout := %d.\n", tars.ClientDialTimeout)
		fmt.Printf("Definition c_ClientWriteTimeout := %d.\n", tars.ClientWriteTimeout)
		fmt.Printf("Definition c_ClientReadTimeout := %d.\n", tars.ClientReadTimeout)
		fmt.Printf("Definition c_ClientQueueLen := %d.\n", tars.ClientQueueLen)
		fmt.Printf("Definition c_AsyncInvokeTimeout := %d.\n", tars.AsyncInvokeTimeout)
		fmt.Printf("Definition c_ObjQueueMax := %d.\n", tars.ObjQueueMax)
	}
}
