package main

// C18 — endpoint.Parse / Tars2endpoint / Endpoint2tars against the model Endpoint/Parse.v

import (
	"fmt"
	"math/rand"
	"regexp"
	"strings"

	"github.com/TarsCloud/TarsGo/tars/util/endpoint"
)

type c18Ep struct {
	Host       string `json:"host"`
	Port       int32  `json:"port"`
	Timeout    int32  `json:"timeout"`
	Istcp      int32  `json:"istcp"`
	Grid       int32  `json:"grid"`
	Qos        int32  `json:"qos"`
	Weight     int32  `json:"weight"`
	WeightType int32  `json:"wtype"`
	AuthType   int32  `json:"auth"`
	Proto      string `json:"proto"`
	Bind       string `json:"bind"`
	SetId      string `json:"setid"`
	Key        string `json:"key"`
}

func fromEp(e endpoint.Endpoint) c18Ep {
	return c18Ep{e.Host, e.Port, e.Timeout, e.Istcp, e.Grid, e.Qos, e.Weight, e.WeightType, e.AuthType, e.Proto, e.Bind, e.SetId, e.Key}
}
func (e c18Ep) toEp() endpoint.Endpoint {
	return endpoint.Endpoint{Host: e.Host, Port: e.Port, Timeout: e.Timeout, Istcp: e.Istcp, Grid: e.Grid, Qos: e.Qos, Weight: e.Weight,
		WeightType: e.WeightType, AuthType: e.AuthType, Proto: e.Proto, Bind: e.Bind, SetId: e.SetId, Key: e.Key}
}

type c18Case struct {
	Kind     string `json:"kind"` // rendered | malformed | conv
	S        string `json:"s"`
	In       *c18Ep `json:"in,omitempty"`       // conv: input endpoint
	Expect   *c18Ep `json:"expect,omitempty"`   // rendered, in-domain: what the string describes
	Obs      *c18Ep `json:"observed,omitempty"` // nil = panic
	PanicMsg string `json:"panic,omitempty"`
	Modelled bool   `json:"modelled"`
	Class    string `json:"class"`
}

func safeParse(s string) (e *c18Ep, pmsg string) {
	defer func() {
		if r := recover(); r != nil {
			e = nil
			pmsg = fmt.Sprint(r)
		}
	}()
	x := fromEp(endpoint.Parse(s))
	return &x, ""
}

var plainDec = regexp.MustCompile(`^[+-]?(0|[1-9][0-9]*)$`)
var intish = regexp.MustCompile(`^[0-9a-fA-FxXoObB_+\-]*$`)

func c18Modelled(s string) bool {
	for i := 0; i < len(s); i++ {
		if s[i] >= 128 || s[i] == 0 {
			return false
		}
	}
	for _, tok := range strings.Fields(s) {
		parts := []string{tok}
		if i := strings.IndexByte(tok, '='); i >= 0 {
			parts = []string{tok[:i], tok[i+1:]}
		}
		for _, p := range parts {
			if strings.ContainsAny(p, "0123456789") && intish.MatchString(p) && !plainDec.MatchString(p) {
				return false
			}
		}
	}
	return true
}

func c18Run(c *c18Case) []Failure {
	var fs []Failure
	if c.Kind == "conv" {
		o := fromEp(endpoint.Tars2endpoint(endpoint.Endpoint2tars(c.In.toEp())))
		c.Obs = &o
		i := c.In
		if o.Host != i.Host || o.Port != i.Port || o.Timeout != i.Timeout || o.Istcp != i.Istcp || o.Grid != i.Grid || o.Qos != i.Qos ||
			o.Weight != i.Weight || o.WeightType != i.WeightType || o.AuthType != i.AuthType || o.SetId != i.SetId {
			fs = append(fs, Failure{Sig: "endpoint.convert/field-not-preserved", Desc: fmt.Sprintf("Tars2endpoint(Endpoint2tars(e)) changed a preserved field: in=%+v out=%+v", *i, o)})
		}
		return fs
	}
	c.Obs, c.PanicMsg = safeParse(c.S)
	if c.Obs == nil {
		cls := "other"
		if len(c.S) < 3 {
			cls = "shorter-than-3"
		} else if len(strings.Fields(c.S)) == 0 {
			cls = "all-blank"
		}
		fs = append(fs, Failure{Sig: "endpoint.Parse/panic/" + cls, Desc: fmt.Sprintf("Parse(%q) panicked: %s", c.S, c.PanicMsg)})
		return fs
	}
	if c.Expect != nil {
		e, o := *c.Expect, *c.Obs
		if e != o {
			fs = append(fs, Failure{Sig: "endpoint.Parse/value-differs", Desc: fmt.Sprintf("Parse(%q) = %+v, the string describes %+v", c.S, o, e)})
		}
		// the transport kind as the accessors report it (what the framework consults, e.g. to attach a TLS configuration), on the
		// parsed endpoint and on its registry round trip: tcp = 1, udp = 0, ssl = 2 in the expected record
		for _, q := range []struct {
			what string
			ep   endpoint.Endpoint
		}{{"Parse", o.toEp()}, {"Tars2endpoint(Endpoint2tars(Parse", endpoint.Tars2endpoint(endpoint.Endpoint2tars(o.toEp()))}} {
			wantTCP, wantUDP, wantSSL := e.Istcp == 1 || e.Istcp == 2, e.Istcp == 0, e.Istcp == 2
			if q.ep.IsTcp() != wantTCP || q.ep.IsUdp() != wantUDP || q.ep.IsSSL() != wantSSL {
				fs = append(fs, Failure{Sig: "endpoint.kind/accessors-differ", Desc: fmt.Sprintf("%s(%q)) reports IsTcp=%v IsUdp=%v IsSSL=%v, the string describes tcp=%v udp=%v ssl=%v", q.what, c.S, q.ep.IsTcp(), q.ep.IsUdp(), q.ep.IsSSL(), wantTCP, wantUDP, wantSSL)})
				break
			}
		}
		// key agreement with the registry path
		r := endpoint.Tars2endpoint(endpoint.Endpoint2tars(o.toEp()))
		if r.Key != o.Key {
			fs = append(fs, Failure{Sig: "endpoint.key/direct-vs-registry", Desc: fmt.Sprintf("Parse(%q).Key=%q but the registry form of the same endpoint has key %q", c.S, o.Key, r.Key)})
		}
	}
	return fs
}

func coqStr(s string) string { return hx([]byte(s)) }
func coqEp(e *c18Ep) string {
	return fmt.Sprintf("(mk_ep %s %s %s %s %s %s %s %s %s %s %s %s %s)", coqStr(e.Host), coqZ(int64(e.Port)), coqZ(int64(e.Timeout)), coqZ(int64(e.Istcp)),
		coqZ(int64(e.Grid)), coqZ(int64(e.Qos)), coqZ(int64(e.Weight)), coqZ(int64(e.WeightType)), coqZ(int64(e.AuthType)), coqStr(e.Proto), coqStr(e.Bind), coqStr(e.SetId), coqStr(e.Key))
}

func c18Coq(c *c18Case) string {
	if c.Kind == "conv" {
		return fmt.Sprintf("inr (%s, %s)", coqEp(c.In), coqEp(c.Obs))
	}
	if !c.Modelled {
		return ""
	}
	if c.Obs == nil {
		return fmt.Sprintf("inl (%s, None)", coqStr(c.S))
	}
	return fmt.Sprintf("inl (%s, Some %s)", coqStr(c.S), coqEp(c.Obs))
}

var boundaryInts = []int64{0, 1, -1, 2, 7, 80, 100, 101, 127, 128, 255, 256, 3000, 32767, 32768, 65535, 65536, 60000, 19386,
	2147483647, -2147483648, 2147483646, -2147483647}
var wideInts = []int64{2147483648, -2147483649, 4294967295, 4294967296, 9223372036854775807, -9223372036854775808, 1 << 40}

func c18Gen(tier string, rng *rand.Rand) []c18Case {
	var cs []c18Case
	n := 500
	if tier == "thorough" {
		n = 6000
	}
	hosts := []string{"127.0.0.1", "10.219.139.142", "h", "example.org", "::1", "-", "-x", "a=b", "tars.tarsregistry.QueryObj", "0.0.0.0"}
	seps := []string{" ", "  ", "\t", " \t ", "\n", "   ", "\r\n", "\v", "\f "}
	flags := "hptgqwveb"
	pickInt := func() int64 {
		if rng.Intn(3) == 0 {
			return int64(int32(rng.Uint32()))
		}
		return boundaryInts[rng.Intn(len(boundaryInts))]
	}
	for it := 0; it < n; it++ {
		proto := []string{"tcp", "udp", "ssl"}[rng.Intn(3)]
		// current values (defaults), as int64 like the flag variables
		iv := map[byte]int64{'p': 0, 't': 3000, 'g': 0, 'q': 0, 'w': -1, 'v': 0, 'e': 0}
		sv := map[byte]string{'h': "", 'b': ""}
		k := rng.Intn(12)
		perm := rng.Perm(9)
		var sb strings.Builder
		sb.WriteString(proto)
		inDomain := true
		form := "plain"
		for j := 0; j < k; j++ {
			f := flags[perm[j%9]]
			if j >= 9 {
				f = flags[rng.Intn(9)] // duplicates: last one wins
			}
			var val string
			if f == 'h' || f == 'b' {
				val = hosts[rng.Intn(len(hosts))]
				sv[f] = val
			} else {
				x := pickInt()
				if f == 'w' && rng.Intn(2) == 0 {
					x = []int64{-1, 0, 1, 99, 100, 101, 250, -5}[rng.Intn(8)]
				}
				if f == 'v' && rng.Intn(2) == 0 {
					x = int64(rng.Intn(3))
				}
				if rng.Intn(40) == 0 {
					x = wideInts[rng.Intn(len(wideInts))]
					inDomain = false
				}
				val = fmt.Sprint(x)
				if x > 0 && rng.Intn(30) == 0 {
					val = "+" + val
				}
				iv[f] = x
			}
			sb.WriteString(seps[rng.Intn(len(seps))])
			switch rng.Intn(8) {
			case 0:
				fmt.Fprintf(&sb, "-%c=%s", f, val)
				form = "eq"
			case 1:
				fmt.Fprintf(&sb, "--%c%s%s", f, seps[rng.Intn(len(seps))], val)
				form = "dd"
			default:
				fmt.Fprintf(&sb, "-%c%s%s", f, seps[rng.Intn(len(seps))], val)
			}
		}
		if rng.Intn(3) == 0 {
			sb.WriteString(seps[rng.Intn(len(seps))])
		}
		s := sb.String()
		c := c18Case{Kind: "rendered", S: s, Modelled: c18Modelled(s), Class: fmt.Sprintf("rendered/%s/k%d/%s", proto, k, form)}
		if inDomain {
			w := iv['w']
			if iv['v'] != 0 && (w == -1 || w > 100) {
				w = 100
			}
			pr, tcp := proto, int32(0)
			if proto == "tcp" {
				tcp = 1
			} else if proto == "ssl" {
				pr, tcp = "tcp", 2
			}
			e := c18Ep{Host: sv['h'], Port: int32(iv['p']), Timeout: int32(iv['t']), Istcp: tcp, Grid: int32(iv['g']), Qos: int32(iv['q']), Weight: int32(w),
				WeightType: int32(iv['v']), AuthType: int32(iv['e']), Proto: pr, Bind: sv['b']}
			e.Key = fmt.Sprintf("%s -h %s -p %d -t %d", e.Proto, e.Host, e.Port, e.Timeout)
			c.Expect = &e
		}
		cs = append(cs, c)
	}
	// malformed stream
	mal := []string{"", "a", "ab", "   ", "  ", " ", "\t\t\t\t", "tcp", "tcp ", "tc", "udp -h", "tcp -h 1.1.1.1 -p", "tcp -p x", "tcp -t x -p 5", "tcp -p 1 2 -t 3",
		"tcp -", "tcp -- -p 3", "tcp -=x", "tcp ---h a", "tcp -z 1 -p 2", "tcp -h=a=b -p=7", "tcp -help", "tcp --help", "tcp -p=", "tcp -h= -p 1", "tcp -p -5 -t -1",
		"  tcp -h a -p 1", "tcpx -h a", "TCP -h a -p 1", "ssl", "ssl -h a -p 443 -e 1", "tcp -p 9223372036854775808", "tcp -p -9223372036854775809", "tcp -p 99999999999999999999999",
		"tcp -p 0x10", "tcp -p 010", "tcp -p 1_0", "tcp -p 08", "tcp -p +5", "tcp -p + -t 1", "tcp -p - -t 1", "tcp -w 1e3", "tcp -h  a -p 1", "tcp -h a", "tcp -h \xff\xfe -p 1",
		"tcp -v 1", "tcp -v 1 -w 100", "tcp -v 1 -w 101", "tcp -v 0 -w 101", "tcp -w 4294967297 -v 1", "tcp -v 4294967296 -w 200", "tcp -e 2147483648", "udp -h a -p 65536 -t 0 -g -1 -q 1"}
	for _, s := range mal {
		cs = append(cs, c18Case{Kind: "malformed", S: s, Modelled: c18Modelled(s), Class: "malformed/" + s})
	}
	nm := 300
	if tier == "thorough" {
		nm = 5000
	}
	alphabet := []string{"-", "--", "h", "p", "t", "w", "v", "=", " ", "  ", "\t", "1", "0", "9", "a", "tcp", "udp", "ssl", "-h", "-p", "x", "\n", "+", "_"}
	for it := 0; it < nm; it++ {
		var sb strings.Builder
		l := rng.Intn(10)
		for j := 0; j < l; j++ {
			sb.WriteString(alphabet[rng.Intn(len(alphabet))])
		}
		s := sb.String()
		if rng.Intn(10) == 0 {
			b := make([]byte, rng.Intn(6))
			rng.Read(b)
			s += string(b)
		}
		cs = append(cs, c18Case{Kind: "malformed", S: s, Modelled: c18Modelled(s), Class: fmt.Sprintf("random/len%d", len(s))})
	}
	// conversions
	for it := 0; it < n/4; it++ {
		e := c18Ep{Host: hosts[rng.Intn(len(hosts))], Port: int32(pickInt()), Timeout: int32(pickInt()), Istcp: int32(rng.Intn(4)), Grid: int32(pickInt()), Qos: int32(pickInt()),
			Weight: int32(pickInt()), WeightType: int32(rng.Intn(3)), AuthType: int32(rng.Intn(3)), Proto: []string{"tcp", "udp", "x"}[rng.Intn(3)], Bind: "b", SetId: []string{"", "a.b.c", "set.1.*"}[rng.Intn(3)]}
		cs = append(cs, c18Case{Kind: "conv", In: &e, Modelled: true, Class: fmt.Sprintf("conv/istcp%d/wt%d", e.Istcp, e.WeightType)})
	}
	return cs
}

func init() {
	props["C18"] = func(a Args) {
		runProp(Prop[c18Case]{
			ID: "C18", Require: "From TarsV Require Import Base.Hex Endpoint.Parse.", CaseType: "c18_case + c18_conv_case",
			Mismatch: "failing_from c18_all", Corr: "Parse.c18_all (parse / tars2endpoint o endpoint2tars = endpoint.Parse / Tars2endpoint(Endpoint2tars) field by field incl. Key)",
			Rule:  "rendered endpoints (proto tcp/udp/ssl; 0-11 options in random order with duplicates; forms -x v, -x=v, --x v; blank runs of space/tab/newline/CR/VT/FF; boundary-dense int32 values, occasionally beyond int32/int64), a fixed malformed list (empty, <3 bytes, blanks, unknown flags, missing values, bad numbers, non-ASCII), random token soup, and endpoint->registry->endpoint conversions; class = (kind, proto, option count, form); strings with non-ASCII bytes or non-decimal integer tokens are monitored for panics but not sent to the model",
			Shard: 300, Workers: 8,
			Gen: c18Gen, Run: c18Run, Coq: c18Coq,
			Class: func(c *c18Case) string { return c.Class },
		}, a)
	}
}
