package main

// C17 — tars/util/conf: InitFromBytes and the getters against the model Conf/Conf.v (L2) and against the
// generating document's meaning (L3 monitors: complete and exact, whole-or-error, no panic).

import (
	"bufio"
	"bytes"
	"encoding/json"
	"encoding/xml"
	"fmt"
	"io"
	"math/big"
	"math/rand"
	"os"
	"path/filepath"
	"regexp"
	"sort"
	"strings"
	"sync"

	"github.com/TarsCloud/TarsGo/tars/util/conf"
)

type c17Seg struct {
	N int `json:"n"`
	S B   `json:"s"`
}

type c17Query struct {
	Path  B      `json:"path"`
	Str   B      `json:"str"`
	Int   int64  `json:"int"`
	Int32 int32  `json:"int32"`
	BoolT bool   `json:"bool_def_true"`
	BoolF bool   `json:"bool_def_false"`
	Dom   []B    `json:"domains"`
	Keys  []B    `json:"keys"`
	Lines []B    `json:"lines"`
	Map   [][2]B `json:"map"`
}

// meaning of one domain of the generating document
type c17ExDomain struct {
	Path  []string    `json:"path"`
	Subs  []string    `json:"subs"`
	KV    [][2]string `json:"kv"` // sorted by key; last duplicate wins
	Lines []string    `json:"lines"`
}

// the document writes, inside the domain Parent, a sub-domain Name containing SubKey=SubVal and a key Name=Val
type c17Collide struct {
	Parent   []string `json:"parent"`
	Name     string   `json:"name"`
	SubKey   string   `json:"sub_key"`
	SubVal   string   `json:"sub_val"`
	Val      string   `json:"val"`
	KeyFirst bool     `json:"key_first"`
}

type c17Case struct {
	Kind     string        `json:"kind"`
	Inject   string        `json:"inject,omitempty"`
	Segs     []c17Seg      `json:"doc"` // the document = concatenation of n x s
	Sure     bool          `json:"in_alphabet"`
	MustErr  bool          `json:"must_err,omitempty"`
	MustOk   bool          `json:"must_ok,omitempty"`
	Expect   []c17ExDomain `json:"expect,omitempty"`
	Extra    []B           `json:"extra_paths,omitempty"`
	Collide  *c17Collide   `json:"collision,omitempty"` // a key and a sub-domain of the same name in one domain
	Err      bool          `json:"err"`
	ErrMsg   string        `json:"err_msg,omitempty"`
	PanicMsg string        `json:"panic,omitempty"`
	Queries  []c17Query    `json:"queries,omitempty"`
	Class    string        `json:"class"`
}

const (
	c17DefStr   = "?DEF"
	c17DefInt   = -77
	c17DefInt32 = 12345
)

func (c *c17Case) doc() []byte {
	var b bytes.Buffer
	for _, s := range c.Segs {
		for i := 0; i < s.N; i++ {
			b.Write(s.S)
		}
	}
	return b.Bytes()
}

func c17Safe(f func()) (pmsg string) {
	defer func() {
		if r := recover(); r != nil {
			pmsg = fmt.Sprint(r)
			if pmsg == "" {
				pmsg = "panic"
			}
		}
	}()
	f()
	return ""
}

func sortedB(l []string) []B {
	s := append([]string(nil), l...)
	sort.Strings(s)
	o := make([]B, len(s))
	for i := range s {
		o[i] = B(s[i])
	}
	return o
}

func c17Battery(cf *conf.Conf, path string) (q c17Query, pmsg string) {
	q.Path = B(path)
	pmsg = c17Safe(func() {
		q.Str = B(cf.GetStringWithDef(path, c17DefStr))
		q.Int = int64(cf.GetIntWithDef(path, c17DefInt))
		q.Int32 = cf.GetInt32WithDef(path, c17DefInt32)
		q.BoolT = cf.GetBoolWithDef(path, true)
		q.BoolF = cf.GetBoolWithDef(path, false)
		q.Dom = sortedB(cf.GetDomain(path))
		q.Keys = sortedB(cf.GetDomainKey(path))
		q.Lines = []B{}
		for _, l := range cf.GetDomainLine(path) {
			q.Lines = append(q.Lines, B(l))
		}
		m := cf.GetMap(path)
		ks := make([]string, 0, len(m))
		for k := range m {
			ks = append(ks, k)
		}
		sort.Strings(ks)
		q.Map = [][2]B{}
		for _, k := range ks {
			q.Map = append(q.Map, [2]B{B(k), B(m[k])})
		}
	})
	return
}

func c17Addressable(name string) bool {
	return name != "" && !strings.ContainsAny(name, "/<") && name[0] != '>' && name[len(name)-1] != '>'
}

var c17IntRe = regexp.MustCompile(`^[+-]?[0-9]+$`)

// independent reading of "the parsed value or the default": decimal integer within the width
func c17ExInt(v string, bits uint, def int64) int64 {
	if !c17IntRe.MatchString(v) {
		return def
	}
	n, ok := new(big.Int).SetString(strings.TrimPrefix(v, "+"), 10)
	if !ok {
		return def
	}
	lim := new(big.Int).Lsh(big.NewInt(1), bits-1)
	if n.Cmp(lim) >= 0 || n.Cmp(new(big.Int).Neg(lim)) < 0 {
		return def
	}
	return n.Int64()
}

func c17ExBool(v string, def bool) bool {
	switch v {
	case "1", "t", "T", "TRUE", "true", "True":
		return true
	case "0", "f", "F", "FALSE", "false", "False":
		return false
	}
	return def
}

func eqB(a []B, b []string) bool {
	if len(a) != len(b) {
		return false
	}
	for i := range a {
		if string(a[i]) != b[i] {
			return false
		}
	}
	return true
}

func domPath(p []string) string { return "/" + strings.Join(p, "/") }

// c17Oracle reads the document with the standard tokenizer alone: whether it is well formed, and which content
// lines are written directly inside which domain path (in order). collide = a key is named like a sub-domain of
// the same domain (known finding: the listing comparison is skipped then); long = a line the scanner refuses.
func c17Oracle(doc []byte) (wellFormed bool, lines map[string][]string, order []string, collide bool, long bool) {
	lines = map[string][]string{}
	dec := xml.NewDecoder(bytes.NewReader(doc))
	var stack []string
	doms := map[string]bool{}
	keys := map[string]bool{}
	for {
		tok, err := dec.Token()
		if tok == nil {
			if err != nil && err != io.EOF {
				return false, nil, nil, false, false
			}
			break
		}
		switch t := tok.(type) {
		case xml.StartElement:
			stack = append(stack, t.Name.Local)
			doms[strings.Join(stack, "/")] = true
		case xml.EndElement:
			stack = stack[:len(stack)-1]
		case xml.CharData:
			path := strings.Join(stack, "/")
			segs := strings.Split(string(t), "\n")
			if segs[len(segs)-1] == "" {
				segs = segs[:len(segs)-1]
			}
			for _, seg := range segs {
				if len(seg) >= bufio.MaxScanTokenSize {
					long = true
				}
				seg = strings.TrimSuffix(seg, "\r")
				l := strings.Trim(seg, " \t\n")
				if l == "" || l[0] == '#' {
					continue
				}
				if _, ok := lines[path]; !ok {
					order = append(order, path)
				}
				lines[path] = append(lines[path], l)
				k := l
				if i := strings.IndexByte(l, '='); i >= 0 {
					k = l[:i]
				}
				if k = strings.Trim(k, " \t\n"); k != "" {
					keys[strings.TrimPrefix(path+"/"+k, "/")] = true
				}
			}
		}
	}
	for k := range keys {
		if doms[k] {
			collide = true
		}
	}
	return true, lines, order, collide, long
}

var c17Stats = struct {
	sync.Mutex
	m map[string]int
}{m: map[string]int{}}

func c17Count(k string) {
	c17Stats.Lock()
	c17Stats.m[k]++
	c17Stats.Unlock()
}

func c17Run(c *c17Case) []Failure {
	fs := c17RunCase(c)
	c17Count("kind/" + c.Kind)
	if c.Sure {
		c17Count("claimed-in-alphabet")
	} else {
		c17Count("not-claimed-in-alphabet (compared only when the model classifies the input as modelled)")
	}
	if c.Err {
		c17Count("outcome/error")
	} else if c.PanicMsg == "" {
		c17Count("outcome/accepted")
	}
	c17Stats.Lock()
	c17Stats.m["getter-batteries"] += len(c.Queries)
	c17Stats.Unlock()
	return fs
}

func c17RunCase(c *c17Case) []Failure {
	var fs []Failure
	c.Queries, c.Err, c.ErrMsg, c.PanicMsg = nil, false, "", "" // a replayed case carries the observations of the failing run
	doc := c.doc()
	cf := conf.New()
	var err error
	c.PanicMsg = c17Safe(func() { err = cf.InitFromBytes(doc) })
	if c.PanicMsg != "" {
		return []Failure{{Sig: "conf.InitFromBytes/panic", Desc: fmt.Sprintf("InitFromBytes panicked on a %d-byte document (%s): %s", len(doc), c.Kind, c.PanicMsg)}}
	}
	c.Err = err != nil
	if err != nil {
		c.ErrMsg = err.Error()
	}
	if c.MustErr && err == nil {
		missing := ""
		for _, d := range c.Expect {
			for _, kv := range d.KV {
				if c17Addressable(kv[0]) {
					p := domPath(d.Path) + "<" + kv[0] + ">"
					if got := cf.GetStringWithDef(p, c17DefStr); got != kv[1] {
						missing = fmt.Sprintf("; e.g. %s is %q, written %q", p, got, kv[1])
						break
					}
				}
			}
			if missing != "" {
				break
			}
		}
		fs = append(fs, Failure{Sig: "conf.InitFromBytes/accepts-malformed/" + c.Inject,
			Desc: fmt.Sprintf("InitFromBytes returned nil for a document that is not well formed (%s: %s)%s", c.Kind, c.Inject, missing)})
	}
	if c.MustOk && err != nil {
		fs = append(fs, Failure{Sig: "conf.InitFromBytes/rejects-wellformed/" + c.Kind,
			Desc: fmt.Sprintf("InitFromBytes returned %q for a well-formed document (%s %s)", err.Error(), c.Kind, c.Inject)})
	}
	// whole or error, against the standard tokenizer alone: a document it rejects must be rejected; one it accepts
	// must be accepted (unless a line is too long for the scanner) with every content line present under its domain
	wf, olines, oorder, ocollide, olong := c17Oracle(doc)
	switch {
	case !wf && err == nil:
		fs = append(fs, Failure{Sig: "conf.InitFromBytes/accepts-malformed/tokenizer-error", Desc: fmt.Sprintf("encoding/xml reports a token error in the document (%s) but InitFromBytes returned nil", c.Kind)})
	case wf && olong && err == nil:
		fs = append(fs, Failure{Sig: "conf.InitFromBytes/accepts-malformed/line-too-long", Desc: fmt.Sprintf("a line of the document (%s) is too long for bufio.Scanner but InitFromBytes returned nil", c.Kind)})
	case wf && !olong && err != nil:
		fs = append(fs, Failure{Sig: "conf.InitFromBytes/rejects-wellformed/" + c.Kind, Desc: fmt.Sprintf("encoding/xml accepts the document (%s) but InitFromBytes returned %q", c.Kind, err.Error())})
	case wf && err == nil && !ocollide:
		for i, pth := range oorder {
			if i >= 40 || strings.ContainsAny(pth, "<") {
				break
			}
			var got []string
			if pm := c17Safe(func() { got = cf.GetDomainLine("/" + pth) }); pm != "" {
				fs = append(fs, Failure{Sig: "conf.getter/panic", Desc: fmt.Sprintf("GetDomainLine(%q) panicked: %s", "/"+pth, pm)})
				break
			}
			if fmt.Sprintf("%q", got) != fmt.Sprintf("%q", olines[pth]) {
				fs = append(fs, Failure{Sig: "conf.InitFromBytes/line-dropped", Desc: fmt.Sprintf("the document (%s) has the content lines %q directly inside %q, GetDomainLine returns %q", c.Kind, olines[pth], "/"+pth, got)})
				break
			}
		}
	}
	if err != nil {
		return fs
	}
	// query paths: the generating document's, extras, and whatever the implementation lists from the root
	seen := map[string]bool{}
	var paths []string
	add := func(p string) {
		if !seen[p] && len(paths) < 90 {
			seen[p] = true
			paths = append(paths, p)
		}
	}
	for _, d := range c.Expect {
		add(domPath(d.Path))
		for i, kv := range d.KV {
			if c17Addressable(kv[0]) && i < 12 {
				add(domPath(d.Path) + "<" + kv[0] + ">")
			}
		}
	}
	for _, e := range c.Extra {
		add(string(e))
	}
	for _, p := range []string{"", "/", "<", "/zz9", "/zz9<k>", "<zz9>", "//", "/<>", "a<b<c"} {
		add(p)
	}
	// breadth-first over the implementation's own listings
	queue := []string{""}
	for len(queue) > 0 && len(paths) < 90 {
		p := queue[0]
		queue = queue[1:]
		var subs, keys []string
		if pm := c17Safe(func() { subs = cf.GetDomain(p + "/"); keys = cf.GetDomainKey(p + "/") }); pm != "" {
			fs = append(fs, Failure{Sig: "conf.getter/panic", Desc: fmt.Sprintf("listing %q panicked: %s", p+"/", pm)})
			break
		}
		sort.Strings(subs)
		sort.Strings(keys)
		for _, s := range subs {
			if c17Addressable(s) {
				add(p + "/" + s)
				queue = append(queue, p+"/"+s)
			}
		}
		for i, k := range keys {
			if c17Addressable(k) && i < 6 {
				add(p + "<" + k + ">")
				add(p + "/" + k) // a key addressed as a domain
			}
		}
	}
	obs := map[string]*c17Query{}
	for _, p := range paths {
		q, pm := c17Battery(cf, p)
		if pm != "" {
			fs = append(fs, Failure{Sig: "conf.getter/panic", Desc: fmt.Sprintf("a getter panicked on path %q: %s", p, pm)})
			continue
		}
		c.Queries = append(c.Queries, q)
		obs[p] = &c.Queries[len(c.Queries)-1]
	}
	// L3: complete and exact against the generating document
	bad := func(sig, f string, a ...interface{}) {
		if len(fs) < 6 {
			fs = append(fs, Failure{Sig: sig, Desc: fmt.Sprintf(f, a...)})
		}
	}
	for _, d := range c.Expect {
		dp := domPath(d.Path)
		q := obs[dp]
		if q == nil {
			continue
		}
		subs := append([]string(nil), d.Subs...)
		sort.Strings(subs)
		if !eqB(q.Dom, subs) {
			bad("conf.GetDomain/listing-differs", "GetDomain(%q) = %q, the document has sub-domains %q", dp, q.Dom, subs)
		}
		var keys []string
		for _, kv := range d.KV {
			keys = append(keys, kv[0])
		}
		if !eqB(q.Keys, keys) {
			bad("conf.GetDomainKey/listing-differs", "GetDomainKey(%q) = %q, the document has keys %q", dp, q.Keys, keys)
		}
		if !eqB(q.Lines, d.Lines) {
			bad("conf.GetDomainLine/lines-differ", "GetDomainLine(%q) = %q, the document has lines %q", dp, q.Lines, d.Lines)
		}
		okm := len(q.Map) == len(d.KV)
		for i := 0; okm && i < len(d.KV); i++ {
			okm = string(q.Map[i][0]) == d.KV[i][0] && string(q.Map[i][1]) == d.KV[i][1]
		}
		if !okm {
			bad("conf.GetMap/differs", "GetMap(%q) = %q, the document has %q", dp, q.Map, d.KV)
		}
		for _, kv := range d.KV {
			kq := obs[dp+"<"+kv[0]+">"]
			if kq == nil || !c17Addressable(kv[0]) {
				continue
			}
			if string(kq.Str) != kv[1] {
				bad("conf.GetString/value-differs", "GetString(%q) = %q, written %q", string(kq.Path), string(kq.Str), kv[1])
			}
			if e := c17ExInt(kv[1], 64, c17DefInt); kq.Int != e {
				bad("conf.GetInt/typed-differs", "GetIntWithDef(%q, %d) = %d for value %q, expected %d", string(kq.Path), c17DefInt, kq.Int, kv[1], e)
			}
			if e := c17ExInt(kv[1], 32, c17DefInt32); int64(kq.Int32) != e {
				bad("conf.GetInt32/typed-differs", "GetInt32WithDef(%q, %d) = %d for value %q, expected %d", string(kq.Path), c17DefInt32, kq.Int32, kv[1], e)
			}
			if kq.BoolT != c17ExBool(kv[1], true) || kq.BoolF != c17ExBool(kv[1], false) {
				bad("conf.GetBool/typed-differs", "GetBoolWithDef(%q) = %v/%v (defaults true/false) for value %q", string(kq.Path), kq.BoolT, kq.BoolF, kv[1])
			}
		}
	}
	if cl := c.Collide; cl != nil {
		pp := domPath(cl.Parent)
		if len(cl.Parent) == 0 {
			pp = ""
		}
		var sub, val string
		var doms []string
		if pm := c17Safe(func() {
			sub = cf.GetStringWithDef(pp+"/"+cl.Name+"<"+cl.SubKey+">", c17DefStr)
			val = cf.GetStringWithDef(pp+"<"+cl.Name+">", c17DefStr)
			doms = cf.GetDomain(pp + "/")
		}); pm != "" {
			bad("conf.getter/panic", "a getter panicked on the colliding names: %s", pm)
		}
		listed := false
		for _, d := range doms {
			listed = listed || d == cl.Name
		}
		if sub != cl.SubVal || val != cl.Val || !listed {
			sig := "conf.name-collision/key-replaces-domain"
			if cl.KeyFirst {
				sig = "conf.name-collision/domain-hidden-by-key"
			}
			bad(sig, "domain %q contains the sub-domain %q (with %s=%s) and the key %s=%s: GetString(sub-domain key) = %q, GetString(key) = %q, GetDomain lists the sub-domain: %v",
				pp+"/", cl.Name, cl.SubKey, cl.SubVal, cl.Name, cl.Val, sub, val, listed)
		}
	}
	// the two documented spellings of a path: /A/B/C<data> and /A/B/C/<data>; /A/B/C and /A/B/C/
	for _, d := range c.Expect {
		dp := domPath(d.Path)
		if len(d.Path) == 0 {
			continue
		}
		pm := c17Safe(func() {
			a, b := sortedB(cf.GetDomainKey(dp)), sortedB(cf.GetDomainKey(dp+"/"))
			if fmt.Sprint(a) != fmt.Sprint(b) {
				bad("conf.path/spelling-differs", "GetDomainKey(%q) = %q but GetDomainKey(%q) = %q", dp, a, dp+"/", b)
			}
			for i, kv := range d.KV {
				if c17Addressable(kv[0]) && i < 4 {
					p1, p2 := dp+"<"+kv[0]+">", dp+"/<"+kv[0]+">"
					if v1, v2 := cf.GetStringWithDef(p1, c17DefStr), cf.GetStringWithDef(p2, c17DefStr); v1 != v2 {
						bad("conf.path/spelling-differs", "GetString(%q) = %q but GetString(%q) = %q", p1, v1, p2, v2)
					}
				}
			}
		})
		if pm != "" {
			bad("conf.getter/panic", "a getter panicked on a spelling of %q: %s", dp, pm)
		}
	}
	if c.Expect != nil {
		// absent key and absent domain: defaults and empty listings
		for _, p := range []string{"/zz9", "/zz9<k>", "<zz9>"} {
			q := obs[p]
			if q == nil {
				continue
			}
			if string(q.Str) != c17DefStr || q.Int != c17DefInt || q.Int32 != c17DefInt32 || !q.BoolT || q.BoolF || len(q.Dom)+len(q.Keys)+len(q.Lines)+len(q.Map) != 0 {
				bad("conf.getter/absent-not-default", "absent path %q: got %q %d %d %v %v %q %q %q", p, string(q.Str), q.Int, q.Int32, q.BoolT, q.BoolF, q.Dom, q.Keys, q.Lines)
			}
		}
	}
	return fs
}

// c17Rle writes a byte string as a Coq list of (count, bytes) runs: long runs of one byte stay small (a 64 KiB
// literal cannot be elaborated by coqc)
func c17Rle(b []byte) string {
	var parts []string
	lit := 0 // start of the pending literal chunk
	flush := func(end int) {
		for lit < end {
			e := lit + 2048
			if e > end {
				e = end
			}
			parts = append(parts, fmt.Sprintf("(1, %s)", hx(b[lit:e])))
			lit = e
		}
	}
	i := 0
	for i < len(b) {
		j := i
		for j < len(b) && b[j] == b[i] {
			j++
		}
		if j-i >= 256 {
			flush(i)
			parts = append(parts, fmt.Sprintf("(%d, %s)", j-i, hx(b[i:i+1])))
			lit = j
		}
		i = j
	}
	flush(len(b))
	return "[" + strings.Join(parts, "; ") + "]"
}

func c17Coq(c *c17Case) string {
	if c.PanicMsg != "" {
		return ""
	}
	var sb strings.Builder
	sb.WriteString("(([")
	for i, s := range c.Segs {
		if i > 0 {
			sb.WriteString("; ")
		}
		fmt.Fprintf(&sb, "(%d, %s)", s.N, hx(s.S))
	}
	fmt.Fprintf(&sb, "], %s, [", coqBool(c.Err))
	for i, q := range c.Queries {
		if i > 0 {
			sb.WriteString(";\n   ")
		}
		mp := make([]string, len(q.Map))
		for j, kv := range q.Map {
			mp[j] = fmt.Sprintf("(%s, %s)", hx(kv[0]), c17Rle(kv[1]))
		}
		ls := make([]string, len(q.Lines))
		for j, l := range q.Lines {
			ls[j] = c17Rle(l)
		}
		fmt.Fprintf(&sb, "(%s, %s, %s, %s, %s, %s, %s, %s, [%s], [%s])", hx(q.Path), c17Rle(q.Str), coqZ(q.Int), coqZ(int64(q.Int32)), coqBool(q.BoolT), coqBool(q.BoolF),
			hxB(q.Dom), hxB(q.Keys), strings.Join(ls, "; "), strings.Join(mp, "; "))
	}
	fmt.Fprintf(&sb, "]), %s)", coqBool(c.Sure))
	return sb.String()
}

// ------------------------------------------------------------------------------------------------
// generator: documents of the config grammar, rendered with arbitrary layout, together with their meaning

type c17Node struct {
	leaf     bool
	value    string
	children map[string]*c17Node
	lines    []string
}

func newC17Node() *c17Node { return &c17Node{children: map[string]*c17Node{}} }

type c17Cut struct {
	off   int
	depth int
}

type c17DocGen struct {
	rng      *rand.Rand
	sb       bytes.Buffer
	cuts     []c17Cut // positions after a complete tag or a terminated line, with the element depth there
	root     *c17Node
	maxDepth int
	maxItems int
	utf8     bool // values may contain multi-byte characters (outside the model's alphabet)
	attrs    bool // start tags may carry attributes (outside the alphabet)
	collide  bool // keys may reuse sub-domain names (no L3 expectation)
	escCR    bool // end of line may be written "&#13;&#10;"
	entities int  // percentage of characters written as entities
	lastRaw  byte
	lastK    string
	lastV    string
}

var c17Ints = []string{"0", "1", "-1", "+5", "007", "-0", "2147483647", "2147483648", "-2147483648", "-2147483649", "4294967296",
	"9223372036854775807", "9223372036854775808", "-9223372036854775808", "-9223372036854775809", "99999999999999999999", "12a", "1_000", "0x10", "1e3", "1.5", "-", "+", "--1", "+-1", "1 2", "٣"}
var c17Bools = []string{"1", "0", "t", "f", "T", "F", "true", "false", "True", "False", "TRUE", "FALSE", "tRUE", "yes", "no", "Y", "on", "tr", "truee", "2"}
var c17Words = []string{"tcp -h 127.0.0.1 -p 19386 -t 60000", "/usr/local/app/tars/app_log/", "a=b", "a = b=c", "==", "x#y", "# not a comment", "a<b", "a&b", "a&amp;b", "1 < 2 > 0", "]]", "]]>", "a]]>b",
	"\"q\"", "'s'", "a\tb", "a;b", "tars.tarsnode.ServerObj@tcp -h 10.0.0.1 -p 19386", "%d", "\\n", "<tag>", "</a>", "&#65;", "C:\\x", "a/b", "~", "\x7f"}
var c17Utf8 = []string{"héllo", "日本語", "ключ=значение", "a\u00a0b", "€", "\U0001F600", "\u2028x", "\u00a0v\u00a0", "\u3000x\u3000", "\u0085y", "z\u2003", "\ufeffq", "\ufffd"}
var c17DomNames = []string{"tars", "application", "server", "client", "a", "b", "A", "a1", "a.b", "a-b", "_x", "x_1.2-3", "Tars", "root", "Obj", "enableset"}
var c17KeyNames = []string{"k", "k1", "k2", "key", "locator", "node", "log", "K", "app", "server.name", "a b", "x-y", "x>y", "q\"", "p;", "e]", "k!", "t:1", "a&b", "100", "-", ".", "é"}

func (g *c17DocGen) pick(l []string) string { return l[g.rng.Intn(len(l))] }

func (g *c17DocGen) ws() string {
	switch g.rng.Intn(8) {
	case 0, 1, 2, 3:
		return ""
	case 4:
		return " "
	case 5:
		return "\t"
	case 6:
		return "  \t "
	}
	return strings.Repeat(" ", 1+g.rng.Intn(6))
}

// esc writes decoded text so that the tokenizer delivers exactly it
func (g *c17DocGen) esc(s string) {
	for i := 0; i < len(s); i++ {
		ch := s[i]
		mustEsc := ch == '<' || ch == '&' || (ch == '>' && g.lastRaw == ']') || ch == '\r'
		if ch >= 0x80 {
			g.sb.WriteByte(ch)
			g.lastRaw = ch
			continue
		}
		if mustEsc || g.rng.Intn(100) < g.entities {
			var e string
			switch {
			case ch == '<' && g.rng.Intn(2) == 0:
				e = "&lt;"
			case ch == '>' && g.rng.Intn(2) == 0:
				e = "&gt;"
			case ch == '&' && g.rng.Intn(2) == 0:
				e = "&amp;"
			case ch == '"' && g.rng.Intn(2) == 0:
				e = "&quot;"
			case ch == '\'' && g.rng.Intn(2) == 0:
				e = "&apos;"
			case g.rng.Intn(2) == 0:
				e = fmt.Sprintf("&#%d;", ch)
			case g.rng.Intn(2) == 0:
				e = fmt.Sprintf("&#x%x;", ch)
			default:
				e = fmt.Sprintf("&#x%04X;", ch)
			}
			g.sb.WriteString(e)
			g.lastRaw = ';'
			continue
		}
		g.sb.WriteByte(ch)
		g.lastRaw = ch
	}
}

func (g *c17DocGen) raw(s string) {
	g.sb.WriteString(s)
	if len(s) > 0 {
		g.lastRaw = s[len(s)-1]
	}
}

// eol writes an end of line; returns false when the line was left unterminated (only before a tag)
func (g *c17DocGen) eol(canSkip bool) bool {
	switch r := g.rng.Intn(40); {
	case r < 30:
		g.raw("\n")
	case r < 33:
		g.raw("\r\n")
	case r < 35:
		g.raw("\r")
	case r < 37:
		g.raw("&#10;")
	case r < 38 && g.escCR:
		g.raw("&#13;&#10;")
	case r < 39 && g.escCR:
		g.raw("&#xD;\n")
	case canSkip:
		return false
	default:
		g.raw("\n")
	}
	return true
}

func (g *c17DocGen) key() string {
	if g.utf8 && g.rng.Intn(6) == 0 {
		return g.pick(c17Utf8[:2])
	}
	if g.rng.Intn(5) == 0 {
		n := 1 + g.rng.Intn(10)
		b := make([]byte, n)
		for i := range b {
			b[i] = "abcXYZ019_.-"[g.rng.Intn(12)]
		}
		return string(b)
	}
	for {
		k := g.pick(c17KeyNames)
		if k[0] < 0x80 || g.utf8 {
			return k
		}
	}
}

func (g *c17DocGen) value() string {
	var v string
	if g.utf8 && g.rng.Intn(3) == 0 {
		return g.pick(c17Utf8)
	}
	switch r := g.rng.Intn(20); {
	case r < 5:
		v = g.pick(c17Ints)
	case r < 8:
		v = g.pick(c17Bools)
	case r < 13:
		v = g.pick(c17Words)
	case r < 14:
		v = ""
	case r < 15 && g.utf8:
		v = g.pick(c17Utf8)
	default:
		n := g.rng.Intn(24)
		b := make([]byte, n)
		for i := range b {
			b[i] = byte(0x20 + g.rng.Intn(0x5f))
		}
		v = strings.Trim(string(b), " \t\n")
	}
	if !g.utf8 {
		for i := 0; i < len(v); i++ {
			if v[i] >= 0x80 {
				return "42"
			}
		}
	}
	return v
}

func (g *c17DocGen) cut(depth int) { g.cuts = append(g.cuts, c17Cut{g.sb.Len(), depth}) }

func (g *c17DocGen) body(node *c17Node, depth int, nextIsTag bool) {
	n := g.rng.Intn(g.maxItems + 1)
	if g.rng.Intn(4) == 0 {
		n = g.rng.Intn(3)
	}
	for it := 0; it < n; it++ {
		last := it == n-1
		switch r := g.rng.Intn(100); {
		case r < 50: // key = value
			k, v := g.key(), g.value()
			if g.collide && g.rng.Intn(4) == 0 {
				k = g.pick(c17DomNames)
			}
			form := g.rng.Intn(12)
			if g.lastK != "" && g.rng.Intn(8) == 0 { // the same line again
				k, v, form = g.lastK, g.lastV, 2
			}
			g.lastK, g.lastV = k, v
			var line bytes.Buffer
			w1, w2 := g.ws(), g.ws()
			if form == 2 {
				w1, w2 = "", ""
			}
			switch form {
			case 0: // key only
				line.WriteString(k)
				v = ""
			case 1: // empty key: the line is recorded, no entry
				line.WriteString("=" + w2 + v)
				k = ""
			default:
				line.WriteString(k + w1 + "=" + w2 + v)
			}
			g.raw(g.ws())
			g.esc(line.String())
			g.raw(g.ws())
			term := g.eol(last && nextIsTag)
			node.lines = append(node.lines, strings.Trim(line.String(), " \t\n"))
			if k != "" {
				if old, ok := node.children[k]; ok && !old.leaf {
					// (collide) a key replaces a sub-domain of the same name
				}
				node.children[k] = &c17Node{leaf: true, value: v, children: map[string]*c17Node{}}
			}
			if term {
				g.cut(depth)
			}
		case r < 60: // comment
			g.raw(g.ws() + "#")
			g.esc(g.value())
			if g.eol(last && nextIsTag) {
				g.cut(depth)
			}
		case r < 68: // blank line
			g.raw(g.ws())
			if g.eol(false) {
				g.cut(depth)
			}
		default: // sub-domain
			if depth >= g.maxDepth {
				continue
			}
			name := g.pick(c17DomNames)
			child, ok := node.children[name]
			if !ok {
				child = newC17Node()
				node.children[name] = child
			}
			g.raw(g.ws())
			tagws := []string{"", "", "", " ", "\n", "\t ", "\r\n"}
			attr := ""
			if g.attrs && g.rng.Intn(2) == 0 {
				attr = []string{" x=\"1\"", " id='a b' y=\"&lt;\"", "\n\tname = \"v\""}[g.rng.Intn(3)]
			}
			if g.rng.Intn(8) == 0 {
				g.raw("<" + name + attr + g.pick(tagws) + "/>")
				g.cut(depth)
			} else {
				g.raw("<" + name + attr + g.pick(tagws) + ">")
				g.cut(depth + 1)
				if g.rng.Intn(3) > 0 {
					g.raw(g.ws())
					g.eol(false)
				}
				g.body(child, depth+1, true)
				g.raw("</" + name + g.pick(tagws) + ">")
				g.cut(depth)
			}
			if g.rng.Intn(4) > 0 {
				g.raw(g.ws())
				if g.eol(false) {
					g.cut(depth)
				}
			}
		}
	}
}

func (g *c17DocGen) expect() []c17ExDomain {
	var out []c17ExDomain
	var walk func(n *c17Node, path []string)
	walk = func(n *c17Node, path []string) {
		d := c17ExDomain{Path: append([]string{}, path...), Subs: []string{}, KV: [][2]string{}, Lines: append([]string{}, n.lines...)}
		var names []string
		for k := range n.children {
			names = append(names, k)
		}
		sort.Strings(names)
		for _, k := range names {
			if n.children[k].leaf {
				d.KV = append(d.KV, [2]string{k, n.children[k].value})
			} else {
				d.Subs = append(d.Subs, k)
			}
		}
		out = append(out, d)
		for _, k := range names {
			if !n.children[k].leaf && c17Addressable(k) && len(out) < 40 {
				walk(n.children[k], append(path, k))
			}
		}
	}
	walk(g.root, nil)
	return out
}

func newC17Gen(rng *rand.Rand, style int) *c17DocGen {
	g := &c17DocGen{rng: rng, root: newC17Node(), maxDepth: 1 + rng.Intn(5), maxItems: 2 + rng.Intn(8), entities: []int{0, 0, 5, 30}[rng.Intn(4)]}
	if rng.Intn(7) == 0 { // wide and shallow: many lines and keys (with repeats) in one domain
		g.maxDepth, g.maxItems = 1+rng.Intn(2), 18+rng.Intn(25)
	}
	switch style {
	case 1:
		g.utf8 = true
	case 2:
		g.attrs = true
	case 3:
		g.collide = true
		g.escCR = true
	}
	return g
}

// key/domain names are kept apart in the expectation-bearing styles: c17KeyNames and c17DomNames are disjoint
// except through the random keys, which never equal a domain name of the pool ... make sure of it:
func (g *c17DocGen) disjoint() bool {
	var chk func(n *c17Node) bool
	dom := map[string]bool{}
	for _, d := range c17DomNames {
		dom[d] = true
	}
	chk = func(n *c17Node) bool {
		for k, c := range n.children {
			if c.leaf && dom[k] {
				return false
			}
			if !c.leaf && !chk(c) {
				return false
			}
		}
		return true
	}
	return chk(g.root)
}

func segs1(b []byte) []c17Seg { return []c17Seg{{1, B(b)}} }

type c17Inj struct {
	name string
	frag string
}

var c17ErrInj = []c17Inj{
	{"amp-bare", "k9=a&b\n"}, {"amp-bare", "& \n"}, {"amp-bare", "&="}, {"amp-bare", "a&&amp;\n"},
	{"ent-unknown", "k9=&foo;\n"}, {"ent-unknown", "&nbsp;"}, {"ent-unknown", "&LT;"}, {"ent-unknown", "&a.b-c_d;"},
	{"ent-nosemi", "k9=&amp \n"}, {"ent-nosemi", "&lt\n"}, {"ent-nosemi", "&#65 \n"}, {"ent-nosemi", "&#x41\n"},
	{"ent-badnum", "&#xZZ;"}, {"ent-badnum", "&#;"}, {"ent-badnum", "&#x;"}, {"ent-badnum", "&#1114112;"}, {"ent-badnum", "&#X41;"}, {"ent-badnum", "&#6a;"},
	{"ent-badnum", "&#99999999999999999999999;"}, {"ent-badnum", "&#-5;"}, {"ent-badnum", "&#+5;"},
	{"ent-ctrl", "&#0;"}, {"ent-ctrl", "&#27;"}, {"ent-ctrl", "&#x1f;"}, {"ent-ctrl", "&#11;"}, {"ent-ctrl", "&#x0C;"}, {"ent-ctrl", "&#8;"},
	{"lt-stray", "k9=1 < 2\n"}, {"lt-stray", "< "}, {"lt-stray", "<="}, {"lt-stray", "< a>"}, {"lt-stray", "<1a>"}, {"lt-stray", "<>"}, {"lt-stray", "<-a>"}, {"lt-stray", "<.a>"}, {"lt-stray", "<\n"},
	{"tag-bad", "<a/ >"}, {"tag-bad", "</a b>"}, {"tag-bad", "</ a>"}, {"tag-bad", "<a<b>"}, {"tag-bad", "</>"}, {"tag-bad", "</1>"}, {"tag-bad", "<a#>"}, {"tag-bad", "</a/>"}, {"tag-bad", "<a /x>"},
	{"end-mismatch", "</zz9>"}, {"end-mismatch", "</zz9 >"}, {"end-mismatch", "<zz9></zz8>"}, {"end-mismatch", "<zz9><zz8></zz9></zz8>"}, {"end-mismatch", "<zz9/></zz9>"},
	{"unclosed", "<zz9>"}, {"unclosed", "<zz9 >\nk=v\n"}, {"unclosed", "<zz9><zz9></zz9>"},
	{"ctrl", "\x01"}, {"ctrl", "k9=a\x00b\n"}, {"ctrl", "\x1f"}, {"ctrl", "\x0b"}, {"ctrl", "\x0c"}, {"ctrl", "#\x08\n"}, {"ctrl", "\x1b[0m"}, {"ctrl", "\x0e"},
	{"cdata-end", "]]>"}, {"cdata-end", "k9=a]]>b\n"}, {"cdata-end", "#]]]>\n"}, {"cdata-end", "]\r]]>"},
}

// legal oddities that change nothing (comment lines) — in the alphabet
var c17OkInj = []string{"# a > b ]] \" ' ; &amp; &lt; \x7f ]]&gt; ] ]> ]&#93;>\n", "#\n", "\t # = \n", "#&#60;&#x3c;&#38;\n"}

// legal constructs that change nothing: comments, processing instructions, CDATA comment lines (modelled) and
// directives, the xml declaration (outside the model's alphabet)
var c17OkMarkup = []string{"<!-- k9=v9 -->", "<?pi k9=v9?>", "<![CDATA[# <k9=v9> & ]]>", "# caf\u00e9 \u65e5\n", "<!-- -->\n", "<!---->", "<!-- - -> \x01 \xff -->", "<?a:b.c-d ? > ?>", "<?x?>", "<![CDATA[]]>", "<![CDATA[#]]]]>", "<![CDATA[\n#\r\n]]>"}
var c17OkUnmod = []string{"<!DOCTYPE x>", "<?xml version=\"1.0\"?>", "<?xml version='1.0' encoding=\"UTF-8\"?>", "<!ENTITY a \"b\">"}

func c17GenDocs(rng *rand.Rand, n int, out *[]c17Case) {
	for it := 0; it < n; it++ {
		style := 0
		switch r := rng.Intn(20); {
		case r < 2:
			style = 1
		case r < 4:
			style = 2
		case r < 7:
			style = 3
		}
		g := newC17Gen(rng, style)
		g.cut(0)
		g.body(g.root, 0, true)
		doc := append([]byte(nil), g.sb.Bytes()...)
		ex := g.expect()
		if style == 3 || !g.disjoint() {
			ex = nil
		}
		kindOf := []string{"doc", "doc-utf8", "doc-attrs", "doc-collide"}[style]
		sure := style != 2 // attributes are outside the model's alphabet
		base := c17Case{Kind: kindOf, Segs: segs1(doc), Sure: sure, MustOk: true, Expect: ex,
			Class: fmt.Sprintf("%s/depth%d/items%d/ent%d/size%d", kindOf, g.maxDepth, g.maxItems, g.entities, len(doc)/256)}
		*out = append(*out, base)
		if style != 0 || len(g.cuts) == 0 {
			continue
		}
		ins := func(at int, frag string) []byte {
			return append(append(append([]byte{}, doc[:at]...), frag...), doc[at:]...)
		}
		// malformed variants: one definite token error at a position between two pieces
		for k := 0; k < 2; k++ {
			inj := c17ErrInj[rng.Intn(len(c17ErrInj))]
			ct := g.cuts[rng.Intn(len(g.cuts))]
			*out = append(*out, c17Case{Kind: "malformed", Inject: inj.name, Segs: segs1(ins(ct.off, inj.frag)), Sure: true, MustErr: true, Expect: ex,
				Class: fmt.Sprintf("malformed/%s/%q/depth%d", inj.name, inj.frag, ct.depth)})
		}
		// truncation at a piece boundary: well formed exactly at depth 0
		ct := g.cuts[rng.Intn(len(g.cuts))]
		if ct.depth > 0 {
			*out = append(*out, c17Case{Kind: "malformed", Inject: "truncated", Segs: segs1(doc[:ct.off]), Sure: true, MustErr: true, Expect: ex, Class: fmt.Sprintf("truncated/depth%d", ct.depth)})
		} else {
			*out = append(*out, c17Case{Kind: "truncated-ok", Segs: segs1(doc[:ct.off]), Sure: true, MustOk: true, Class: "truncated/depth0"})
		}
		// truncation anywhere
		if len(doc) > 0 {
			at := rng.Intn(len(doc))
			*out = append(*out, c17Case{Kind: "cut-anywhere", Segs: segs1(doc[:at]), Sure: true, Class: fmt.Sprintf("cut-anywhere/%d", at%7)})
		}
		// harmless insertions
		ct = g.cuts[rng.Intn(len(g.cuts))]
		okf := c17OkInj[rng.Intn(len(c17OkInj))]
		*out = append(*out, c17Case{Kind: "doc-odd-comment", Inject: okf, Segs: segs1(ins(ct.off, okf)), Sure: true, MustOk: true, Expect: ex, Class: fmt.Sprintf("odd-comment/%q", okf)})
		if rng.Intn(2) == 0 {
			okf = c17OkMarkup[rng.Intn(len(c17OkMarkup))]
			*out = append(*out, c17Case{Kind: "doc-markup", Inject: okf, Segs: segs1(ins(ct.off, okf)), Sure: true, MustOk: true, Expect: ex, Class: fmt.Sprintf("markup/%q", okf)})
		}
		if rng.Intn(4) == 0 {
			okf = c17OkUnmod[rng.Intn(len(c17OkUnmod))]
			*out = append(*out, c17Case{Kind: "doc-unmodelled", Inject: okf, Segs: segs1(ins(ct.off, okf)), Sure: false, MustOk: true, Expect: ex, Class: fmt.Sprintf("unmodelled/%q", okf)})
		}
		// one byte changed
		if len(doc) > 0 && rng.Intn(2) == 0 {
			m := append([]byte{}, doc...)
			m[rng.Intn(len(m))] = "<>&;/=#\n \x00a]"[rng.Intn(12)]
			*out = append(*out, c17Case{Kind: "byte-changed", Segs: segs1(m), Sure: false, Class: "byte-changed"})
		}
	}
}

var c17StrictSoup = []string{"<a>", "</a>", "<b>", "</b>", "<a/>", "<a >", "</a\n>", "<b />", "<a.b-c>", "</a.b-c>", "k=v", "k", "=", "#", "\n", "\n", " ", "\t", "\r", "\r\n",
	"&amp;", "&lt;", "&gt;", "&quot;", "&apos;", "&#65;", "&#x3c;", "&#10;", "&#13;", "&#9;", "&#32;", "&#61;", "&#35;", "&", "&a", "&#", "&#x", ";", ">", "]", "]]", "]]>", "\x01", "\x7f",
	"a", "b", "1", ".", "-", "_", "/", "\"", "'", "x=1", " = ", "v v", "#c"}
var c17WildSoup = []string{"<", "</", "/>", "<a", "<a ", "<!--", "-->", "<?", "?>", "<![CDATA[", "]]>", "<a b=\"c\">", "<a b='c'/>", "<a b>", "<a b=c>", "<n:a>", "</n:a>", "<:a>", "<a:>", ":", "\x80", "\xff", "é", "\xc3", "&#200;", "&#xD800;", "&#x10FFFF;", "&#x110000;",
	"<!DOCTYPE a>", "<!", "<?xml version=\"1.0\"?>", "<?xml version=\"2.0\"?>", "<?xml encoding=\"latin1\"?>", "\x00", "xmlns=\"u\"", "<a xmlns=\"u\">", "<a xmlns:n=\"u\">", "=\"", "'"}

// UTF-8 boundaries of the end-of-run check (utf8.DecodeRune's acceptance table, U+FFFE/U+FFFF) and numeric entities
var c17Utf8Soup = []string{"\x7f", "\x80", "\xbf", "\xc0", "\xc1", "\xc2", "\xdf", "\xe0", "\x9f", "\xa0", "\xe1", "\xec", "\xed", "\xee", "\xef", "\xbe", "\xbd", "\xf0", "\x8f", "\x90", "\xf1", "\xf3", "\xf4", "\xf5", "\xff",
	"\xc2\x80", "\xdf\xbf", "\xe0\xa0\x80", "\xe0\x9f\xbf", "\xed\x9f\xbf", "\xed\xa0\x80", "\xee\x80\x80", "\xef\xbf\xbd", "\xef\xbf\xbe", "\xef\xbf\xbf", "\xef\xbb\xbf", "\xf0\x90\x80\x80", "\xf0\x8f\xbf\xbf", "\xf4\x8f\xbf\xbf", "\xf4\x90\x80\x80",
	"é", "日", "\U0001F600", "k=", "=", "\n", " ", "#", "a", "<a>", "</a>", "<b/>", "&amp;",
	"&#127;", "&#128;", "&#xA9;", "&#2047;", "&#2048;", "&#xD7FF;", "&#xD800;", "&#xDFFF;", "&#xE000;", "&#xFFFD;", "&#xFFFE;", "&#xFFFF;", "&#65536;", "&#x10FFFF;", "&#x110000;", "&#1114111;", "&#1114112;"}

// comments, CDATA sections and processing instructions, whole and broken
var c17MarkupSoup = []string{"<!--", "-->", "--", "-", ">", "<!-", "<![CDATA[", "<![CDAT", "<![cdata[", "]]>", "]]", "]", "<?", "?>", "?", "<?x", "<?a:b", "<?1", "<? ", "<?xm", "<?xmlx", "<?Xml", "a", " ", "\n", "k=v", "#", "<a>", "</a>", "<b/>",
	"&", "&amp;", "&#65;", "\r", "\r\n", "\x01", "\t", "<", "=", "'", "\""}
var c17MarkupWild = []string{"<?xml", "<?xml ", "<?xml?>", "<?xml version=\"1.0\"?>", "<?xml version=\"1.1\"?>", "<?xml encoding='latin1'?>", "é", "\xff", "<!DOCTYPE", "<!D", "<!>", "<!ENTITY x \"<\">"}
var c17TextSoup = []string{"k=v", "k", "=", "#", "\n", "\n", " ", "\t", "\r", "\r\n", ";", ">", "]", "]]", "a", "b", "1", ".", "-", "_", "/", "\"", "'", "x=1", " = ", "v v", "#c", "\x7f", "k = v = w", "  ", "==", ">>", "] ]>", "]>"}

func c17Soup(rng *rand.Rand, words []string, extra []string, extraPct int, maxLen int) []byte {
	var sb bytes.Buffer
	l := rng.Intn(maxLen + 1)
	for j := 0; j < l; j++ {
		if extra != nil && rng.Intn(100) < extraPct {
			sb.WriteString(extra[rng.Intn(len(extra))])
		} else {
			sb.WriteString(words[rng.Intn(len(words))])
		}
	}
	return sb.Bytes()
}

// a balanced random tag skeleton with strict-soup text in between: mostly accepted, exercises merging and replacing
func c17Balanced(rng *rand.Rand, depth int, sb *bytes.Buffer) {
	n := rng.Intn(5)
	names := []string{"a", "b", "k", "a.b-c"}
	texts := []string{"k=v", "k=w", "a=1", "b", "k", "a", "=x", "#k=z", "\n", "\n", " ", "\t", "a = 2 ", "b==", "&#10;", "&#13;", "&#13;\n", "&#32;", "\r", "k=&#32;v&#9;", "&amp;=&lt;", "x/y=1", "x<y=2", "k=v&#13; ", "&#13;k=v", " &#13; ", "k=&#13;v&#13;", "k=v&#13;\t", "a&#13;=1"}
	for i := 0; i < n; i++ {
		if rng.Intn(3) == 0 && depth < 4 {
			nm := names[rng.Intn(len(names))]
			if rng.Intn(6) == 0 {
				sb.WriteString("<" + nm + "/>")
				continue
			}
			sb.WriteString("<" + nm + ">")
			c17Balanced(rng, depth+1, sb)
			sb.WriteString("</" + nm + ">")
		} else {
			t := texts[rng.Intn(len(texts))]
			if t == "x<y=2" {
				t = "x&lt;y=2"
			}
			sb.WriteString(t)
			if rng.Intn(2) == 0 {
				sb.WriteString("\n")
			}
		}
	}
}

func c17GenLong(tier string, rng *rand.Rand, out *[]c17Case) {
	// lines around bufio.MaxScanTokenSize: the scanner refuses a line of 65536 bytes or more
	lens := []int{65534, 65535, 65536, 65537}
	if tier == "thorough" {
		lens = append(lens, 65533, 65540, 70000, 131071, 131072, 200000, 4095, 4096, 4097, 8192)
	}
	for _, L := range lens {
		for form := 0; form < 3; form++ {
			if tier != "thorough" && form == 2 && L != 65536 {
				continue
			}
			var segs []c17Seg
			pre, post := "", ""
			var line string
			switch form {
			case 0: // terminated line in the middle of a domain
				pre, line, post = "<a>\nk1=v1\n", "k2=", "\nk3=v3\n</a>\n"
			case 1: // unterminated last line of a text run, blanks count
				pre, line, post = "<a>\nk1=v1\n", " \tk2 = ", "</a>"
			case 2: // first line at top level, terminated by CR LF
				pre, line, post = "", "k2=", "\r\nk3=v3\n"
			}
			fill := L - len(line)
			segs = []c17Seg{{1, B(pre + line)}, {fill, B("x")}, {1, B(post)}}
			val := strings.Repeat("x", fill)
			var ex []c17ExDomain
			key := [2]string{"k2", val}
			ltxt := strings.TrimLeft(line, " \t") + val
			switch form {
			case 0:
				ex = []c17ExDomain{{Path: []string{}, Subs: []string{"a"}, KV: [][2]string{}, Lines: []string{}},
					{Path: []string{"a"}, Subs: []string{}, KV: [][2]string{{"k1", "v1"}, key, {"k3", "v3"}}, Lines: []string{"k1=v1", ltxt, "k3=v3"}}}
			case 1:
				ex = []c17ExDomain{{Path: []string{}, Subs: []string{"a"}, KV: [][2]string{}, Lines: []string{}},
					{Path: []string{"a"}, Subs: []string{}, KV: [][2]string{{"k1", "v1"}, key}, Lines: []string{"k1=v1", ltxt}}}
			case 2:
				ex = []c17ExDomain{{Path: []string{}, Subs: []string{}, KV: [][2]string{key, {"k3", "v3"}}, Lines: []string{ltxt, "k3=v3"}}}
			}
			c := c17Case{Kind: "long-line", Inject: fmt.Sprintf("line-of-%d-bytes", L), Segs: segs, Sure: true, Expect: ex, Class: fmt.Sprintf("long-line/%d/form%d", L, form)}
			if L >= bufio.MaxScanTokenSize {
				c.MustErr = true
				c.Inject = "line-too-long"
			} else {
				c.MustOk = true
			}
			*out = append(*out, c)
		}
	}
}

var c17FixedPaths = []string{"/a<k>", "/a/<k>", "a<k>", "a/b", "/a/b/", "//a//b//", "/a<k", "/a<k>>", "/a<>k>", "/a<k><", "/a/k", "/a<b>", "<k>", "/<k>", "k", "/a<a>", "/a/a", "/a/a<a>", "/b<k>", "/a<x/y>", "/a/<>", "/a<>",
	"/a.b-c<k>", "/a/a.b-c", "/k", "/k<k>", "/k/k", "/ a", "/a ", "/a< k>", "/a<k >", "/a<&>", "/root", "root", "/root<k>", ">", "<>", "/a<>>>", "/a<k>/", "/a/<k>/x"}

func c17Gen(tier string, rng *rand.Rand) []c17Case {
	var cs []c17Case
	nd, ns := 140, 100
	if tier == "thorough" {
		nd, ns = 1200, 2500
	}
	c17GenDocs(rng, nd, &cs)
	fixed := make([]B, len(c17FixedPaths))
	for i, p := range c17FixedPaths {
		fixed[i] = B(p)
	}
	pickPaths := func() []B {
		var l []B
		for i := 0; i < 14; i++ {
			l = append(l, fixed[rng.Intn(len(fixed))])
		}
		return l
	}
	for it := 0; it < ns; it++ {
		b := c17Soup(rng, c17TextSoup, nil, 0, 30)
		cs = append(cs, c17Case{Kind: "text-soup", Segs: segs1(b), Sure: true, MustOk: !bytes.Contains(b, []byte("]]>")), Extra: pickPaths(), Class: fmt.Sprintf("text-soup/len%d", len(b)/8)})
		b = c17Soup(rng, c17StrictSoup, nil, 0, 24)
		cs = append(cs, c17Case{Kind: "strict-soup", Segs: segs1(b), Sure: true, Extra: pickPaths(), Class: fmt.Sprintf("strict-soup/len%d", len(b)/8)})
		b = c17Soup(rng, c17StrictSoup, c17WildSoup, 15, 20)
		cs = append(cs, c17Case{Kind: "wild-soup", Segs: segs1(b), Sure: false, Extra: pickPaths(), Class: fmt.Sprintf("wild-soup/len%d", len(b)/8)})
		b = c17Soup(rng, c17Utf8Soup, nil, 0, 12)
		cs = append(cs, c17Case{Kind: "utf8-soup", Segs: segs1(b), Sure: true, Extra: pickPaths(), Class: fmt.Sprintf("utf8-soup/len%d", len(b)/8)})
		b = c17Soup(rng, c17MarkupSoup, nil, 0, 14)
		cs = append(cs, c17Case{Kind: "markup-soup", Segs: segs1(b), Sure: true, Extra: pickPaths(), Class: fmt.Sprintf("markup-soup/len%d", len(b)/8)})
		if it%2 == 0 {
			b = c17Soup(rng, c17MarkupSoup, c17MarkupWild, 20, 12)
			cs = append(cs, c17Case{Kind: "markup-wild", Segs: segs1(b), Sure: false, Extra: pickPaths(), Class: fmt.Sprintf("markup-wild/len%d", len(b)/8)})
		}
		var sb bytes.Buffer
		c17Balanced(rng, 0, &sb)
		cs = append(cs, c17Case{Kind: "balanced-soup", Segs: segs1(sb.Bytes()), Sure: true, MustOk: true, Extra: pickPaths(), Class: fmt.Sprintf("balanced-soup/len%d", sb.Len()/8)})
		if it%4 == 0 {
			rb := make([]byte, rng.Intn(40))
			rng.Read(rb)
			cs = append(cs, c17Case{Kind: "random-bytes", Segs: segs1(rb), Sure: false, Class: "random-bytes"})
		}
	}
	nc := 12
	if tier == "thorough" {
		nc = 150
	}
	for it := 0; it < nc; it++ {
		cl := &c17Collide{Name: c17DomNames[rng.Intn(len(c17DomNames))], SubKey: []string{"c", "k", "endpoint"}[rng.Intn(3)], SubVal: []string{"2", "tcp -h 1.2.3.4", "x=y"}[rng.Intn(3)],
			Val: []string{"1", "", "v w"}[rng.Intn(3)], KeyFirst: rng.Intn(2) == 0}
		for d := rng.Intn(3); d > 0; d-- {
			cl.Parent = append(cl.Parent, c17DomNames[rng.Intn(len(c17DomNames))])
		}
		var sb bytes.Buffer
		for _, n := range cl.Parent {
			sb.WriteString("<" + n + ">\n")
		}
		dom := "<" + cl.Name + ">\n  " + cl.SubKey + " = " + cl.SubVal + "\n</" + cl.Name + ">\n"
		key := cl.Name + "=" + cl.Val + "\n"
		if cl.KeyFirst {
			sb.WriteString(key + dom)
		} else {
			sb.WriteString(dom + key)
		}
		for i := len(cl.Parent) - 1; i >= 0; i-- {
			sb.WriteString("</" + cl.Parent[i] + ">\n")
		}
		cs = append(cs, c17Case{Kind: "collision", Segs: segs1(sb.Bytes()), Sure: true, MustOk: true, Collide: cl, Class: fmt.Sprintf("collision/keyfirst=%v/depth%d", cl.KeyFirst, len(cl.Parent))})
	}
	c17GenLong(tier, rng, &cs)
	return cs
}

// fixed corpus: the documents of the defects repaired in the tree and the package's sample file shapes
func c17Corpus() []c17Case {
	mk := func(kind, inj, doc string, mustErr bool) c17Case {
		return c17Case{Kind: kind, Inject: inj, Segs: segs1([]byte(doc)), Sure: true, MustErr: mustErr, MustOk: !mustErr, Class: "corpus/" + kind + "/" + inj}
	}
	exA := []c17ExDomain{{Path: []string{}, Subs: []string{"a"}, KV: [][2]string{}, Lines: []string{}},
		{Path: []string{"a"}, Subs: []string{}, KV: [][2]string{{"k1", "v1"}, {"k2", "a&b"}, {"k3", "v3"}}, Lines: []string{"k1=v1", "k2=a&b", "k3=v3"}}}
	c1 := mk("corpus", "amp-bare", "<a>\nk1=v1\nk2=a&b\nk3=v3\n</a>", true)
	c1.Expect = exA
	c2 := mk("corpus", "end-mismatch", "<a>\nk1=v1\n</b>\nk3=v3\n", true)
	c3 := mk("corpus", "lt-stray", "<a>\nk1=v1\nk2=1 < 2\nk3=v3\n</a>", true)
	c4 := mk("corpus", "escaped", "<a>\nk1=v1\nk2=a&amp;b\nk3=v3\n</a>", false)
	c4.Expect = exA
	c5 := mk("corpus", "sample", "<tars>\n  <application>\n    enableset=n\n    setdivision=NULL\n    <server>\n       node=tars.tarsnode.ServerObj@tcp -h 10.0.0.1 -p 19386 -t 60000\n       app=MMGR\n       <MMGR.TestServer.TestObjAdapter>\n          allow\n          endpoint=tcp -h 10.0.0.1 -p 9989 -t 60000\n          maxconns=200000\n       </MMGR.TestServer.TestObjAdapter>\n    </server>\n    <client>\n       sync-invoke-timeout=3000\n       #a comment\n       modulename=MMGR.TestServer\n    </client>\n  </application>\n</tars>\n", false)
	c5.Expect = []c17ExDomain{{Path: []string{"tars", "application"}, Subs: []string{"client", "server"}, KV: [][2]string{{"enableset", "n"}, {"setdivision", "NULL"}}, Lines: []string{"enableset=n", "setdivision=NULL"}},
		{Path: []string{"tars", "application", "server", "MMGR.TestServer.TestObjAdapter"}, Subs: []string{}, KV: [][2]string{{"allow", ""}, {"endpoint", "tcp -h 10.0.0.1 -p 9989 -t 60000"}, {"maxconns", "200000"}},
			Lines: []string{"allow", "endpoint=tcp -h 10.0.0.1 -p 9989 -t 60000", "maxconns=200000"}},
		{Path: []string{"tars", "application", "client"}, Subs: []string{}, KV: [][2]string{{"modulename", "MMGR.TestServer"}, {"sync-invoke-timeout", "3000"}}, Lines: []string{"sync-invoke-timeout=3000", "modulename=MMGR.TestServer"}}}
	c6 := mk("corpus", "empty", "", false)
	c6.Expect = []c17ExDomain{{Path: []string{}, Subs: []string{}, KV: [][2]string{}, Lines: []string{}}}
	c7 := mk("corpus", "key-then-domain", "<a>b=1\n<b>c=2</b>\n</a>", false)
	c7.Collide = &c17Collide{Parent: []string{"a"}, Name: "b", SubKey: "c", SubVal: "2", Val: "1", KeyFirst: true}
	c8 := mk("corpus", "domain-then-key", "<a><b>c=2</b>\nb=1\n</a>", false)
	c8.Collide = &c17Collide{Parent: []string{"a"}, Name: "b", SubKey: "c", SubVal: "2", Val: "1", KeyFirst: false}
	c9 := mk("corpus", "key-domain-key", "<a>b=1\n<b>c=2</b>\n</a><a>b=3</a>", false)
	c9.Extra = []B{B("/a<b>"), B("/a/b<c>"), B("/a/b"), B("/a")}
	for _, c := range []*c17Case{&c7, &c8} {
		c.Extra = []B{B("/a<b>"), B("/a/b<c>"), B("/a/b"), B("/a")}
	}
	return []c17Case{c1, c2, c3, c4, c5, c6, c7, c8, c9}
}

// c17GoStrSelfTest: the meaning that coq/Conf/GoStr.v (target language of the source translation) gives to the
// functions of package strings is compared with the library itself on generated arguments
func c17GoStrSelfTest(a Args, tier string, rng *rand.Rand, res *Result) {
	n := 400
	if tier == "thorough" {
		n = 4000
	}
	words := []string{" ", "\t", "\n", "\r", "=", "#", "<", ">", "/", "a", "b", "ab", "==", "=>", "k", " = ", "", "x=y", ">>", "\v", "\f"}
	mk := func(max int) string {
		var sb strings.Builder
		for i, l := 0, rng.Intn(max+1); i < l; i++ {
			sb.WriteString(words[rng.Intn(len(words))])
		}
		return sb.String()
	}
	seps := []string{"=", "/", "<", ">", "==", "ab", " ", "=>", "a"}
	cuts := []string{" \n\t", ">", " ", "", "ab", " \n\t\r", "=#"}
	var terms []string
	off := len(res.Cases)
	add := func(term string, desc string) {
		terms = append(terms, term)
		b, _ := json.Marshal(map[string]string{"kind": "gostr-selftest", "case": desc})
		res.Cases = append(res.Cases, b)
	}
	h := func(s string) string { return hx([]byte(s)) }
	for i := 0; i < n; i++ {
		s := mk(8)
		switch rng.Intn(12) {
		case 0:
			c := cuts[rng.Intn(len(cuts))]
			add(fmt.Sprintf("GsStr 0 %s %s 0%%Z %s", h(s), h(c), h(strings.Trim(s, c))), fmt.Sprintf("Trim(%q,%q)", s, c))
		case 1:
			c := cuts[rng.Intn(len(cuts))]
			add(fmt.Sprintf("GsStr 1 %s %s 0%%Z %s", h(s), h(c), h(strings.TrimLeft(s, c))), fmt.Sprintf("TrimLeft(%q,%q)", s, c))
		case 2:
			c := cuts[rng.Intn(len(cuts))]
			add(fmt.Sprintf("GsStr 2 %s %s 0%%Z %s", h(s), h(c), h(strings.TrimRight(s, c))), fmt.Sprintf("TrimRight(%q,%q)", s, c))
		case 3:
			add(fmt.Sprintf("GsStr 3 %s %s 0%%Z %s", h(s), h(""), h(strings.TrimSpace(s))), fmt.Sprintf("TrimSpace(%q)", s))
		case 4:
			p := mk(2)
			add(fmt.Sprintf("GsStr 4 %s %s 0%%Z %s", h(s), h(p), h(strings.TrimPrefix(s, p))), fmt.Sprintf("TrimPrefix(%q,%q)", s, p))
		case 5:
			p := mk(2)
			add(fmt.Sprintf("GsStr 5 %s %s 0%%Z %s", h(s), h(p), h(strings.TrimSuffix(s, p))), fmt.Sprintf("TrimSuffix(%q,%q)", s, p))
		case 6, 7:
			sep := seps[rng.Intn(len(seps))]
			k := []int{-1, 0, 1, 2, 2, 2, 3, 5}[rng.Intn(8)]
			var l [][]byte
			for _, x := range strings.SplitN(s, sep, k) {
				l = append(l, []byte(x))
			}
			add(fmt.Sprintf("GsList 0 %s %s (%d)%%Z %s", h(s), h(sep), k, hxList(l)), fmt.Sprintf("SplitN(%q,%q,%d)", s, sep, k))
		case 8:
			sep := seps[rng.Intn(len(seps))]
			var l [][]byte
			for _, x := range strings.Split(s, sep) {
				l = append(l, []byte(x))
			}
			add(fmt.Sprintf("GsList 1 %s %s 0%%Z %s", h(s), h(sep), hxList(l)), fmt.Sprintf("Split(%q,%q)", s, sep))
		case 9:
			c := "=#/<> ab"[rng.Intn(8)]
			add(fmt.Sprintf("GsInt 0 %s %s (%d)%%Z", h(s), h(string(c)), strings.IndexByte(s, c)), fmt.Sprintf("IndexByte(%q,%q)", s, c))
		case 10:
			p := mk(2)
			add(fmt.Sprintf("GsBool 0 %s %s %s", h(s), h(p), coqBool(strings.Contains(s, p))), fmt.Sprintf("Contains(%q,%q)", s, p))
		default:
			p := mk(2)
			if rng.Intn(2) == 0 {
				add(fmt.Sprintf("GsBool 1 %s %s %s", h(s), h(p), coqBool(strings.HasPrefix(s, p))), fmt.Sprintf("HasPrefix(%q,%q)", s, p))
			} else {
				add(fmt.Sprintf("GsBool 2 %s %s %s", h(s), h(p), coqBool(strings.HasSuffix(s, p))), fmt.Sprintf("HasSuffix(%q,%q)", s, p))
			}
		}
	}
	name := filepath.Join(a.Out, "cases_C17_gostr.v")
	var sb strings.Builder
	sb.WriteString("From TarsV Require Import Base.Hex Conf.GoStr.\nFrom Coq Require Import List NArith ZArith.\nImport ListNotations.\nOpen Scope N_scope.\n")
	sb.WriteString("Definition cases : list gs_case := [\n" + strings.Join(terms, ";\n") + "\n].\n")
	fmt.Fprintf(&sb, "Definition M := Eval vm_compute in (gs_mismatch %d cases).\nPrint M.\nDefinition CNT := Eval vm_compute in (N.of_nat (length cases)).\nPrint CNT.\n", off)
	if err := os.WriteFile(name, []byte(sb.String()), 0o644); err != nil {
		fatal("write: %v", err)
	}
	res.CaseFiles = append(res.CaseFiles, name)
	res.Stats["gostr_selftest_cases"] = len(terms)
}

func init() {
	constGens = append(constGens, func() {
		fmt.Printf("Definition c_conf_max_scan_token := %d.\n", bufio.MaxScanTokenSize)
		ws := conf.VerifWhiteSpaceChars()
		parts := make([]string, len(ws))
		for i := 0; i < len(ws); i++ {
			parts[i] = fmt.Sprintf("%d%%N", ws[i])
		}
		fmt.Printf("Definition c_conf_blanks : list N := %s nil%s.\n", "(cons "+strings.Join(parts, " (cons "), strings.Repeat(")", len(parts)))
	})
	props["C17"] = func(a Args) {
		runProp(Prop[c17Case]{
			ID: "C17", Require: "From TarsV Require Import Base.Hex Conf.Conf.", CaseType: "c17_case * bool",
			Mismatch: "c17_mismatch", Corr: "Conf.c17_check (parse = InitFromBytes error/nil; then GetStringWithDef, GetIntWithDef, GetInt32WithDef, GetBoolWithDef x2, GetDomain, GetDomainKey, GetDomainLine, GetMap on every queried path)",
			Rule:  "documents of the config grammar (nesting <= 5, 0-10 items per domain: key=value in the forms k=v / k / =v with boundary-dense integer and boolean spellings, comments, blank lines, sub-domains incl. repeated names and <x/>; arbitrary indentation, blanks around '=', LF/CRLF/CR/&#10; line ends, 0-30% of the characters written as named or numeric entities; styles: plain, UTF-8 values, attributes, colliding key/domain names), one definite token error injected at a piece boundary (bare &, unknown/unterminated/invalid entities, stray <, malformed tags, mismatched or missing end tags, control characters, ]]>), truncations, harmless comment lines and comments/PIs/CDATA, one changed byte, text/tag/wild token soups, random bytes, lines of 65534..65537 bytes; queries: every domain and key of the generating document, the implementation's own listings breadth-first, absent and malformed paths; class = (kind, shape)",
			Shard: 60, Workers: 6,
			Corpus: c17Corpus, Gen: c17Gen, Run: c17Run, Coq: c17Coq,
			Class: func(c *c17Case) string { return c.Class },
			Extra: func(tier string, rng *rand.Rand, res *Result) {
				c17Stats.Lock()
				res.Stats["c17"] = c17Stats.m
				c17Stats.Unlock()
				c17GoStrSelfTest(a, tier, rng, res)
			},
		}, a)
	}
}
