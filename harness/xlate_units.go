package main

// xlate_units.go - which functions of the tree are translated (`harness gen-translated` -> coq/Gen/Translated.v),
// loading of their packages, and the output file. See design/XLATE.md.

import (
	"fmt"
	"go/ast"
	"go/build"
	"go/importer"
	"go/parser"
	"go/token"
	"go/types"
	"os"
	"path/filepath"
	"sort"
	"strings"
)

var codecWriter = &xWriter{
	Prims: map[string]xPrim{
		"b.buf.WriteByte":   {"go_emit_u8", []int{0}},
		"bWriteU8":          {"go_emit_u8", []int{1}},
		"bWriteU16":         {"go_emit_u16", []int{1}},
		"bWriteU32":         {"go_emit_u32", []int{1}},
		"bWriteU64":         {"go_emit_u64", []int{1}},
		"b.buf.WriteString": {"go_emit_bytes", []int{0}},
		"b.buf.Write":       {"go_emit_bytes", []int{0}},
	},
	Calls: map[string]string{"b.WriteHead": "tr_WriteHead", "b.WriteInt8": "tr_WriteInt8", "b.WriteInt16": "tr_WriteInt16",
		"b.WriteInt32": "tr_WriteInt32", "b.WriteInt64": "tr_WriteInt64"},
}

// codec.Reader: the bytes.Reader inside is abstracted to (underlying bytes, position), see GoSem.go_reader
// tup.UniAttribute.Encode writes through a *codec.Buffer parameter: its methods are the translated units
var tupWriter = &xWriter{
	Prims: map[string]xPrim{},
	Calls: map[string]string{"os.WriteHead": "tr_WriteHead", "os.WriteInt32": "tr_WriteInt32", "os.WriteString": "tr_WriteString", "os.WriteBytes": "tr_WriteBytes"},
}

// tup.UniAttribute.Decode reads through a *codec.Reader parameter: its methods are the translated units
var tupReader = &xStateSpec{
	Type:   "go_reader",
	Object: "is",
	Calls: map[string]string{"is.SkipTo": "tr_SkipTo", "is.ReadInt32": "tr_ReadInt32", "is.ReadString": "tr_ReadString",
		"is.SkipToNoCheck": "tr_SkipToNoCheck", "is.ReadBytes": "tr_ReadBytes"},
	Errs: map[string]bool{"fmt.Errorf": true},
}

var codecReader = &xStateSpec{
	Type:   "go_reader",
	Fields: map[string]xStField{"b.depth": {"rd_depth", "go_rd_set_depth"}, "b.ref": {"rd_ref", ""}},
	Pure:   map[string]string{"b.buf.Len": "go_rd_len"},
	Prims: map[string]xStPrim{
		"b.buf.ReadByte":   {Coq: "go_rd_readbyte", NRes: 2},
		"b.buf.UnreadByte": {Coq: "go_rd_unreadbyte", NRes: 1},
		"b.buf.Seek":       {Coq: "go_rd_seekcur", Args: []int{0}, Fixed: map[int]string{1: "io.SeekCurrent"}, NRes: 2},
		"bReadU8":          {Coq: "go_rd_u8", Outs: []int{1}, Fixed: map[int]string{0: "b.buf"}, NRes: 1},
		"bReadU16":         {Coq: "go_rd_u16", Outs: []int{1}, Fixed: map[int]string{0: "b.buf"}, NRes: 1},
		"bReadU32":         {Coq: "go_rd_u32", Outs: []int{1}, Fixed: map[int]string{0: "b.buf"}, NRes: 1},
		"bReadU64":         {Coq: "go_rd_u64", Outs: []int{1}, Fixed: map[int]string{0: "b.buf"}, NRes: 1},
		"io.ReadFull":      {Coq: "go_rd_readfull", Args: []int{1}, Outs: []int{1}, Fixed: map[int]string{0: "b.buf"}, NRes: 2},
		"b.buf.Read":       {Coq: "go_rd_read", Args: []int{0}, Outs: []int{0}, NRes: 2},
	},
	Errs: map[string]bool{"fmt.Errorf": true},
	Calls: map[string]string{"b.readHead": "tr_readHead", "b.unreadHead": "tr_unreadHead", "b.Skip": "tr_Skip", "b.Next": "tr_Next",
		"b.skipNested": "tr_skipNested", "b.skipFieldMap": "tr_skipFieldMap", "b.skipFieldList": "tr_skipFieldList",
		"b.skipFieldSimpleList": "tr_skipFieldSimpleList", "b.skipField": "tr_skipField", "b.SkipToStructEnd": "tr_SkipToStructEnd",
		"b.SkipToNoCheck": "tr_SkipToNoCheck", "b.ReadInt8": "tr_ReadInt8", "b.ReadInt16": "tr_ReadInt16", "b.ReadInt32": "tr_ReadInt32",
		"b.ReadInt64": "tr_ReadInt64"},
}

// the request id counter msgID (package tars): the state is the counter, the sync/atomic calls on it are primitives
var msgIDCounter = &xStateSpec{
	Type: "Z",
	Prims: map[string]xStPrim{
		"atomic.CompareAndSwapInt32": {Coq: "go_atomic_cas32", Args: []int{1, 2}, Fixed: map[int]string{0: "&msgID"}, NRes: 1},
		"atomic.AddInt32":            {Coq: "go_atomic_add32", Args: []int{1}, Fixed: map[int]string{0: "&msgID"}, NRes: 1},
	},
}

func rdUnit(name, fn string, fuel bool, group string) xUnit {
	return xUnit{Name: name, Dir: "tars/protocol/codec", Func: "Reader." + fn, State: codecReader, Fuel: fuel, Group: group}
}

// the translated units, callees before callers
var xUnits = []xUnit{
	{Name: "tr_TarsRequest", Dir: "tars/protocol", Func: "TarsRequest", Globals: []string{"maxPackageLength"}},
	{Name: "tr_WriteHead", Dir: "tars/protocol/codec", Func: "Buffer.WriteHead", Writer: codecWriter},
	{Name: "tr_WriteInt8", Dir: "tars/protocol/codec", Func: "Buffer.WriteInt8", Writer: codecWriter},
	{Name: "tr_WriteInt16", Dir: "tars/protocol/codec", Func: "Buffer.WriteInt16", Writer: codecWriter},
	{Name: "tr_WriteInt32", Dir: "tars/protocol/codec", Func: "Buffer.WriteInt32", Writer: codecWriter},
	{Name: "tr_WriteInt64", Dir: "tars/protocol/codec", Func: "Buffer.WriteInt64", Writer: codecWriter},
	{Name: "tr_WriteBool", Dir: "tars/protocol/codec", Func: "Buffer.WriteBool", Writer: codecWriter},
	{Name: "tr_WriteUint8", Dir: "tars/protocol/codec", Func: "Buffer.WriteUint8", Writer: codecWriter},
	{Name: "tr_WriteUint16", Dir: "tars/protocol/codec", Func: "Buffer.WriteUint16", Writer: codecWriter},
	{Name: "tr_WriteUint32", Dir: "tars/protocol/codec", Func: "Buffer.WriteUint32", Writer: codecWriter},
	{Name: "tr_WriteString", Dir: "tars/protocol/codec", Func: "Buffer.WriteString", Writer: codecWriter},
	{Name: "tr_WriteFloat32", Dir: "tars/protocol/codec", Func: "Buffer.WriteFloat32", Writer: codecWriter},
	{Name: "tr_WriteFloat64", Dir: "tars/protocol/codec", Func: "Buffer.WriteFloat64", Writer: codecWriter},
	{Name: "tr_WriteBytes", Dir: "tars/protocol/codec", Func: "Buffer.WriteBytes", Writer: codecWriter},
	// selector.BuildStaticWeightList up to the scaling range: static-weight check, min / max weight, guard, clamp
	{Name: "tr_BSWL_range", Dir: "tars/selector", Func: "BuildStaticWeightList", From: "^", To: "if minWeight > 0 {",
		Outs: []string{"maxRange", "totalWeight", "minWeight", "maxWeight"}},
	// codec.Reader: heads, the skipping functions (one recursive group), the field search, the integer/string readers
	rdUnit("tr_readHead", "readHead", false, ""), rdUnit("tr_unreadHead", "unreadHead", false, ""),
	rdUnit("tr_Next", "Next", false, ""), rdUnit("tr_Skip", "Skip", false, ""), rdUnit("tr_skipNested", "skipNested", false, ""),
	rdUnit("tr_skipFieldMap", "skipFieldMap", true, "skip"), rdUnit("tr_skipFieldList", "skipFieldList", true, "skip"),
	rdUnit("tr_skipFieldSimpleList", "skipFieldSimpleList", true, "skip"), rdUnit("tr_skipField", "skipField", true, "skip"),
	rdUnit("tr_SkipToStructEnd", "SkipToStructEnd", true, "skip"), rdUnit("tr_SkipToNoCheck", "SkipToNoCheck", true, "skip"),
	rdUnit("tr_ReadInt32", "ReadInt32", true, "skip"),
	rdUnit("tr_SkipTo", "SkipTo", true, ""), rdUnit("tr_ReadInt8", "ReadInt8", true, ""), rdUnit("tr_ReadInt16", "ReadInt16", true, ""),
	rdUnit("tr_ReadInt64", "ReadInt64", true, ""), rdUnit("tr_ReadUint8", "ReadUint8", true, ""), rdUnit("tr_ReadUint16", "ReadUint16", true, ""),
	rdUnit("tr_ReadUint32", "ReadUint32", true, ""), rdUnit("tr_ReadBool", "ReadBool", true, ""), rdUnit("tr_ReadString", "ReadString", true, ""),
	rdUnit("tr_ReadFloat32", "ReadFloat32", true, ""), rdUnit("tr_ReadFloat64", "ReadFloat64", true, ""),
	rdUnit("tr_ReadSliceUint8", "ReadSliceUint8", false, ""), rdUnit("tr_ReadBytes", "ReadBytes", false, ""),
	// ServantProxy.genRequestID: the compare-and-swap step, then the add loop (one sequential call is the two in a row)
	{Name: "tr_genRequestID_cas", Dir: "tars", Func: "ServantProxy.genRequestID", Globals: []string{"maxInt32"}, State: msgIDCounter,
		From: "^", To: "atomic.CompareAndSwapInt32(&msgID, maxInt32, 1)",
		After: []string{"for {\n\n\tif v := atomic.AddInt32(&msgID, 1); v != 0 {\n\t\treturn v\n\t}\n}"}},
	{Name: "tr_genRequestID_loop", Dir: "tars", Func: "ServantProxy.genRequestID", State: msgIDCounter, Fuel: true, Group: "reqid",
		From: "for {", To: "for {", After: []string{}},
	// the selectors' Select: cursor / hash / draw arithmetic and the table lookups (locks left out; hash code and random
	// draws are oracles); the consistent hash lookup with sort.Search
	{Name: "tr_rr_Select", Dir: "tars/selector/roundrobin", Func: "RoundRobin.Select", Recv: true,
		Ignore: []string{"r.RLock()", "defer r.RUnlock()"}, Errs: map[string]bool{"errors.New": true}},
	{Name: "tr_mh_Select", Dir: "tars/selector/modhash", Func: "ModHash.Select", Recv: true,
		Ignore: []string{"m.RLock()", "defer m.RUnlock()"}, Errs: map[string]bool{"errors.New": true},
		Oracles: map[string]xOracle{"msg.HashCode()": {"hashCode_", "Z"}}},
	{Name: "tr_rnd_Select", Dir: "tars/selector/random", Func: "Random.Select", Recv: true,
		Ignore: []string{"r.Lock()", "defer r.Unlock()"}, Errs: map[string]bool{"errors.New": true},
		Oracles: map[string]xOracle{"r.rand.Intn(len(r.staticWeightRouterCache))": {"draw_cache", "Z"}, "r.rand.Intn(len(r.endpoints))": {"draw_eps", "Z"}}},
	{Name: "tr_ch_FindInt32", Dir: "tars/selector/consistenthash", Func: "ConsistentHash.FindInt32", Recv: true,
		Ignore: []string{"c.RLock()", "defer c.RUnlock()"}},
	// rtimer.TimeWheel.After: the bound check and the slot computation (the slot's channel is taken after the translated statements)
	{Name: "tr_tw_After_pos", Dir: "tars/util/rtimer", Func: "TimeWheel.After", Recv: true,
		From: "^", To: "pos = (tw.currPos + pos) % len(tw.timeWheel)", Outs: []string{"pos"},
		After:  []string{"c := tw.timeWheel[pos]", "tw.lock.Unlock()", "return c"},
		Ignore: []string{"tw.lock.Lock()"}, Oracles: map[string]xOracle{"len(tw.timeWheel)": {"wheel_size", "Z"}}},
	// the receive loops: what happens to one chunk read from the connection - append it, then cut off and hand over
	// complete packages until the protocol says "less" or "error" (return = the connection is given up)
	{Name: "tr_srv_recv_chunk", Dir: "tars/transport", Func: "tcpHandler.recv", Deep: true, Fuel: true,
		From: "currBuffer = append(currBuffer, buffer[:n]...)", To: "for {", Outs: []string{"currBuffer"}, After: []string{}, Fresh: []string{"currBuffer"},
		Writer: &xWriter{Type: "list (list N)", Prims: map[string]xPrim{"t.handleConn": {"go_deliver", []int{1}}}},
		Funcs:  map[string]xOracle{"t.server.protocol.ParsePackage": {"parse_package", "list N -> Z * Z"}},
		Ignore: []string{`TLOG.Errorf("parse package error %s %v", conn.RemoteAddr(), err)`, "verifC12BeforeCount(connSt)"}}, // the inserted verif stub (empty without the tag)
	// C10: what Protocol.Invoke / InvokeTimeout put into the response (request echo, timeout and error answers)
	{Name: "tr_Error_Error", Dir: "tars", Func: "Error.Error", Recv: true},
	{Name: "tr_Invoke_rsp_init", Dir: "tars", Func: "Protocol.Invoke",
		From: "rspPackage := requestf.ResponsePacket{}", To: "rspPackage := requestf.ResponsePacket{}", Outs: []string{"rspPackage"}},
	{Name: "tr_InvokeTimeout_rsp_init", Dir: "tars", Func: "Protocol.InvokeTimeout",
		From: "^", To: "rspPackage := requestf.ResponsePacket{}", Outs: []string{"rspPackage"}},
	{Name: "tr_Invoke_identity", Dir: "tars", Func: "Protocol.Invoke",
		From: "rspPackage.IVersion = reqPackage.IVersion", To: "rspPackage.IRequestId = reqPackage.IRequestId", Outs: []string{"rspPackage"}},
	{Name: "tr_Invoke_queue_timeout", Dir: "tars", Func: "Protocol.Invoke", Deep: true,
		From: "rspPackage.IRet = basef.TARSSERVERQUEUETIMEOUT", To: `rspPackage.SResultDesc = "server invoke timeout"`, Outs: []string{"rspPackage"}},
	{Name: "tr_Invoke_error", Dir: "tars", Func: "Protocol.Invoke", Deep: true,
		From: "rspPackage.IRet = 1", To: "if tarsErr, ok := err.(*Error); ok {", Outs: []string{"rspPackage"}, After: []string{},
		Oracles: map[string]xOracle{"err.Error()": {"err_text", "list N"}, "err.(*Error)": {"err_is_tars", "bool"}, "tarsErr.Code": {"err_code", "Z"}}},
	{Name: "tr_Invoke_ptype", Dir: "tars", Func: "Protocol.Invoke",
		From: "rspPackage.CPacketType = reqPackage.CPacketType", To: "rspPackage.CPacketType = reqPackage.CPacketType", Outs: []string{"rspPackage"}},
	{Name: "tr_InvokeTimeout_fill", Dir: "tars", Func: "Protocol.InvokeTimeout",
		From: "if reqPackage.CPacketType == basef.TARSONEWAY {", To: `rspPackage.SResultDesc = "server invoke timeout"`, Outs: []string{"rspPackage"},
		After: []string{"return s.rsp2Byte(&rspPackage)"}},
	// C01: ServantProxy.doInvoke, what the caller gets for the reply that arrived (IRet / SResultDesc -> *tars.Error or plain error)
	{Name: "tr_GetErrorCode", Dir: "tars", Func: "GetErrorCode",
		Oracles: map[string]xOracle{"err.(*Error)": {"err_is_tars", "bool"}, "e.Code": {"err_code", "Z"}}},
	{Name: "tr_doInvoke_reply", Dir: "tars", Func: "ServantProxy.doInvoke", Deep: true, ErrVals: "Error",
		From: "if msg.Status != basef.TARSSERVERSUCCESS || msg.Resp.IRet != 0 {", To: "if msg.Status != basef.TARSSERVERSUCCESS || msg.Resp.IRet != 0 {",
		Outs: []string{}, After: []string{},
		Reads: map[string]xOracle{"msg.Status": {"msg_status", "Z"}, "msg.Resp.IRet": {"rsp_ret", "Z"}, "msg.Resp.SResultDesc": {"rsp_desc", "list N"}},
		Funcs: map[string]xOracle{"fmt.Sprintf": {"sprintf_", "list N -> Z -> list N"}}},
	// C05T: tup.UniAttribute.Encode: the map head with the count, and what is written per entry (the order of the entries is Go's map order)
	{Name: "tr_tup_Encode_head", Dir: "tars/protocol/tup", Func: "UniAttribute.Encode", Writer: tupWriter,
		From: "^", To: "err = os.WriteInt32(int32(len(u.data)), 0)", Outs: []string{"err"},
		Oracles: map[string]xOracle{"len(u.data)": {"count", "Z"}}},
	{Name: "tr_tup_Encode_entry", Dir: "tars/protocol/tup", Func: "UniAttribute.Encode", Writer: tupWriter, Deep: true,
		From: "err = os.WriteString(k, 0)", To: "err = os.WriteBytes(v)", Outs: []string{"err"}, After: []string{"if err != nil {\n\treturn err\n}"}},
	{Name: "tr_tup_Decode", Dir: "tars/protocol/tup", Func: "UniAttribute.Decode", State: tupReader, Recv: true, Fuel: true, StrMaps: true},
	// C07: the receive loops per read EVENT that is not data (conn.Read returned an error): return, or next round with the buffer
	{Name: "tr_srv_recv_event", Dir: "tars/transport", Func: "tcpHandler.recv", Deep: true, LoopBody: true, NilIsEmpty: []string{"currBuffer"},
		From: "if err != nil {", To: "if err != nil {", Outs: []string{"currBuffer"}, After: []string{"currBuffer = append(currBuffer, buffer[:n]...)", "for {"},
		Oracles: map[string]xOracle{"atomic.LoadInt32(&t.server.isClosed)": {"is_closed", "Z"}, "time.Now().Unix()": {"now_", "Z"},
			"isNoDataError(err)": {"no_data", "bool"}, "err == io.EOF": {"is_eof", "bool"}},
		Reads: map[string]xOracle{"connSt.numInvoke": {"num_invoke", "Z"}, "connSt.idleTime": {"idle_time", "Z"}, "cfg.IdleTimeout": {"idle_timeout", "Z"}},
		Ignore: []string{`TLOG.Debugf("%s closed: %d, read %d, nil buff: %d, err: %v", t.server.config.Address, atomic.LoadInt32(&t.server.isClosed), n, len(currBuffer), err)`,
			`TLOG.Debug("connection closed by remote:", conn.RemoteAddr())`, `TLOG.Error("read package error:", reflect.TypeOf(err), err)`}},
	{Name: "tr_cli_recv_event", Dir: "tars/transport", Func: "connection.recv", Deep: true, LoopBody: true,
		From: "if err != nil {", To: "if err != nil {", Outs: []string{"currBuffer"}, After: []string{"currBuffer = append(currBuffer, buffer[:n]...)", "for {"},
		Oracles: map[string]xOracle{"isNoDataError(err)": {"no_data", "bool"}, "err.(*net.OpError)": {"is_op_error", "bool"}, "err == io.EOF": {"is_eof", "bool"}},
		Ignore: []string{`TLOG.Errorf("net.OpError: %v, error: %v", conn.RemoteAddr(), err)`, `TLOG.Debugf("connection closed by remote: %v, error: %v", conn.RemoteAddr(), err)`,
			`TLOG.Errorf("read package error: %v", err)`, "c.close(conn)"}},
	// C08 / C01 / C09: ServantProxy.TarsInvoke, the request packet and the effective timeout
	{Name: "tr_TarsInvoke_req", Dir: "tars", Func: "ServantProxy.TarsInvoke", Recv: true, StrMaps: true,
		From: "req := requestf.RequestPacket{", To: "req := requestf.RequestPacket{", Outs: []string{"req"},
		Oracles: map[string]xOracle{"s.genRequestID()": {"gen_request_id", "Z"}, "tools.ByteToInt8(buf)": {"sbuffer", "list Z"}}},
	{Name: "tr_TarsInvoke_timeout", Dir: "tars", Func: "ServantProxy.TarsInvoke", Recv: true,
		Writer: &xWriter{Type: "list Z", Prims: map[string]xPrim{"context.WithTimeout": {"go_arm", []int{1}}}},
		From:   "timeout := time.Duration(s.timeout) * time.Millisecond", To: "if dl, ok := ctx.Deadline(); ok {", Outs: []string{"timeout", "req"},
		Funcs:   map[string]xOracle{"current.GetClientTimeout": {"client_timeout", "bool * Z * bool"}},
		Oracles: map[string]xOracle{"ctx.Deadline()": {"has_deadline", "bool"}, "time.Until(dl)": {"until_deadline", "Z"}},
		Ignore:  []string{"var cancel context.CancelFunc", "defer cancel()"}},
	// C08 / C09: AdapterProxy.Recv after the decoding: push, one-way drop, lookup by the packet's id, hand-over racing with the ReadTimeout timer
	{Name: "tr_adapter_Recv", Dir: "tars", Func: "AdapterProxy.Recv",
		From: "if packet.IRequestId == 0 {", To: "if ok {", After: []string{},
		Writer: &xWriter{Type: "list (Z * Z)", Prims: map[string]xPrim{"c.onPush": {"go_tag 1 0", []int{}}, "chan<-": {"go_tag 2 0", []int{}},
			"rtimer.After": {"go_tag 3", []int{0}}}},
		Oracles: map[string]xOracle{"packet.IRequestId": {"pkt_id", "Z"}, "packet.CPacketType": {"pkt_type", "Z"}, "c.conf.ReadTimeout": {"read_timeout", "Z"},
			"c.resp.Load(packet.IRequestId)": {"found", "bool"}, "select": {"select_", "Z"}},
		Ignore: []string{"ch := chIF.(chan *requestf.ResponsePacket)",
			"TLOG.Errorf(\"response timeout, write channel error, now time :%v, RequestId:%v\",\n\ttime.Now().UnixNano()/1e6, packet.IRequestId)",
			"TLOG.Errorf(\"response timeout, req has been drop, now time :%v, RequestId:%v\",\n\ttime.Now().UnixNano()/1e6, packet.IRequestId)"}},
	{Name: "tr_cli_recv_chunk", Dir: "tars/transport", Func: "connection.recv", Deep: true, Fuel: true,
		From: "currBuffer = append(currBuffer, buffer[:n]...)", To: "for {", Outs: []string{"currBuffer"}, After: []string{}, Fresh: []string{"currBuffer"},
		Writer: &xWriter{Type: "list (list N)", Prims: map[string]xPrim{"c.client.protocol.Recv": {"go_deliver", []int{0}}}},
		Funcs:  map[string]xOracle{"c.client.protocol.ParsePackage": {"parse_package", "list N -> Z * Z"}},
		Ignore: []string{`TLOG.Error("parse package error")`, "c.close(conn)", "atomic.AddInt32(&c.invokeNum, -1)"}},
	// the registry <-> endpoint conversions (Tars2endpoint without its cache key)
	{Name: "tr_Endpoint2tars", Dir: "tars/util/endpoint", Func: "Endpoint2tars"},
	{Name: "tr_Tars2endpoint_build", Dir: "tars/util/endpoint", Func: "Tars2endpoint", From: "^", To: "e := Endpoint{",
		Outs: []string{"e"}, After: []string{"e.Key = e.String()", "return e"}},
	// AdapterProxy.checkActive: the failover thresholds; the clock, the outcome of ReConnect and the float32 failure
	// ratio comparison are oracles
	{Name: "tr_checkActive", Dir: "tars", Func: "AdapterProxy.checkActive", Recv: true,
		Oracles: map[string]xOracle{"time.Now().Unix()": {"now_", "Z"}, "c.tarsClient.ReConnect()": {"reconnect_err", "bool"},
			"(float32(c.failCount) / float32(c.sendCount)) >= failRatio": {"ratio_ge", "bool"}}},
	// ... and its scaling loop: every static weight scaled to the range, positive ones summed and recorded
	{Name: "tr_BSWL_scale", Dir: "tars/selector", Func: "BuildStaticWeightList", From: "var weightToId []pair", To: "for idx, node := range endpoints {",
		Outs: []string{"totalWeight", "weightToId", "idToWeight", "staticWeightRouterCache"}},
	// ... and the smooth-weighted-round-robin rounds: sort by (current value, String()), take the last, re-weigh
	{Name: "tr_BSWL_rounds", Dir: "tars/selector", Func: "BuildStaticWeightList", From: "for i := 0; i < totalWeight; i++ {", To: "return staticWeightRouterCache",
		After: []string{}, Fresh: []string{"weightToId", "staticWeightRouterCache"},
		Methods: map[string]xOracle{"String": {"ep_string", "go_endpoint_Endpoint -> list N"}}},
	// the end of endpoint.Parse: from the flag variables to the Endpoint value (without its cache key)
	{Name: "tr_Parse_build", Dir: "tars/util/endpoint", Func: "Parse", From: "isTcp := int32(0)", To: "e := Endpoint{",
		Outs: []string{"e"}, After: []string{"e.Key = e.String()", "return e"}},
}

type xPkg struct {
	fset  *token.FileSet
	files []*ast.File
	info  *types.Info
	pkg   *types.Package
}

// checkRead: the read path r (identifiers and member selections only) keeps its value while the statements run, as far as
// the statements themselves are concerned: none assigns to r, to a prefix of r or to something reached through r, takes the
// address of r or of a prefix, passes a prefix of r to a call, or calls a method on a prefix (ignored statements included)
func (x *xl) checkRead(stmts []ast.Stmt, r string) {
	for _, part := range strings.Split(r, ".") {
		if !token.IsIdentifier(part) {
			x.fail(stmts[0], "read path %q: identifiers and member selections only", r)
		}
	}
	touches := func(s string) bool { return s == r || strings.HasPrefix(r, s+".") || strings.HasPrefix(s, r+".") }
	prefix := func(s string) bool { return strings.HasPrefix(r, s+".") }
	for _, st := range stmts {
		ast.Inspect(st, func(n ast.Node) bool {
			switch n := n.(type) {
			case *ast.AssignStmt:
				for _, l := range n.Lhs {
					if touches(x.src(l)) {
						x.fail(l, "assignment to %s, which the unit reads as the unchanging path %s", x.src(l), r)
					}
				}
			case *ast.IncDecStmt:
				if touches(x.src(n.X)) {
					x.fail(n, "%s changes the read path %s", x.src(n), r)
				}
			case *ast.UnaryExpr:
				if n.Op == token.AND && touches(x.src(n.X)) {
					x.fail(n, "address of %s, which the unit reads as the unchanging path %s", x.src(n.X), r)
				}
			case *ast.CallExpr:
				for _, a := range n.Args {
					if prefix(x.src(a)) {
						x.fail(a, "%s, a prefix of the read path %s, is handed to a call", x.src(a), r)
					}
				}
				if se, ok := n.Fun.(*ast.SelectorExpr); ok && (prefix(x.src(se.X)) || x.src(se.X) == r) {
					x.fail(n, "method call on %s, a prefix of the read path %s", x.src(se.X), r)
				}
			case *ast.FuncLit, *ast.GoStmt, *ast.DeferStmt:
				x.fail(n, "function literal / go / defer in statements with read paths")
			}
			return true
		})
	}
}

// xLoader type-checks packages of the tree from source. Imports: packages of the tree's own module are loaded the
// same way; the standard packages the subset knows are type-checked from GOROOT source; every other import is an
// empty package (uses of it have no type and cannot be translated). Type errors elsewhere in a package are
// tolerated: what a unit needs is checked on use.
type xLoader struct {
	root, mod string
	pkgs      map[string]*xPkg
	std       types.Importer
}

func newXLoader(root string) *xLoader {
	l := &xLoader{root: root, pkgs: map[string]*xPkg{}, std: importer.ForCompiler(token.NewFileSet(), "source", nil)}
	if b, err := os.ReadFile(filepath.Join(root, "go.mod")); err == nil {
		for _, line := range strings.Split(string(b), "\n") {
			if f := strings.Fields(line); len(f) == 2 && f[0] == "module" {
				l.mod = f[1]
			}
		}
	}
	return l
}

func (l *xLoader) Import(path string) (*types.Package, error) {
	if path == "encoding/binary" || path == "math" || path == "bytes" || path == "time" || path == "io" || path == "sync/atomic" || path == "sort" || path == "context" || path == "sync" {
		return l.std.Import(path)
	}
	if l.mod != "" && strings.HasPrefix(path, l.mod+"/") {
		if p, err := l.load(path[len(l.mod)+1:]); err == nil {
			return p.pkg, nil
		}
	}
	p := types.NewPackage(path, filepath.Base(path))
	p.MarkComplete()
	return p, nil
}

func (l *xLoader) load(dir string) (*xPkg, error) {
	if p, ok := l.pkgs[dir]; ok {
		if p == nil {
			return nil, fmt.Errorf("import cycle through %s", dir)
		}
		return p, nil
	}
	l.pkgs[dir] = nil
	full := filepath.Join(l.root, dir)
	bp, err := build.Default.ImportDir(full, 0) // the files of a default build (no verif tag)
	if err != nil {
		delete(l.pkgs, dir)
		return nil, err
	}
	p := &xPkg{fset: token.NewFileSet()}
	for _, f := range bp.GoFiles {
		af, err := parser.ParseFile(p.fset, filepath.Join(full, f), nil, 0)
		if err != nil {
			delete(l.pkgs, dir)
			return nil, err
		}
		p.files = append(p.files, af)
	}
	p.info = &types.Info{Types: map[ast.Expr]types.TypeAndValue{}, Uses: map[*ast.Ident]types.Object{}, Defs: map[*ast.Ident]types.Object{},
		Selections: map[*ast.SelectorExpr]*types.Selection{}}
	conf := types.Config{Importer: l, Error: func(error) {}}
	p.pkg, _ = conf.Check(l.mod+"/"+dir, p.fset, p.files, p.info)
	l.pkgs[dir] = p
	return p, nil
}

func (p *xPkg) findFunc(name string) *ast.FuncDecl {
	recv, fn := "", name
	if i := strings.Index(name, "."); i >= 0 {
		recv, fn = name[:i], name[i+1:]
	}
	for _, f := range p.files {
		for _, d := range f.Decls {
			fd, ok := d.(*ast.FuncDecl)
			if !ok || fd.Name.Name != fn || fd.Body == nil {
				continue
			}
			r := ""
			if fd.Recv != nil && len(fd.Recv.List) == 1 {
				t := fd.Recv.List[0].Type
				if s, ok := t.(*ast.StarExpr); ok {
					t = s.X
				}
				if id, ok := t.(*ast.Ident); ok {
					r = id.Name
				}
			}
			if r == recv {
				return fd
			}
		}
	}
	return nil
}

// xDef: the Gallina definition of one unit, in pieces (units of a group are assembled into one Fixpoint)
type xDef struct{ comment, name, params, typ, body string }

func (d xDef) text() string {
	return fmt.Sprintf("(* %s *)\nDefinition %s %s : %s :=\n  %s.\n", d.comment, d.name, d.params, d.typ, d.body)
}

// xlateUnit: the Gallina definition of one unit (panics with xErr outside the subset)
func xlateUnit(root string, u *xUnit, units []xUnit, ld *xLoader, records map[string]*types.Named, recOrd *[]string, consts map[string]string, constOrd *[]string) xDef {
	p, err := ld.load(u.Dir)
	if err != nil {
		panic(xErr{token.Position{Filename: filepath.Join(root, u.Dir)}, err.Error()})
	}
	fd := p.findFunc(u.Func)
	if fd == nil {
		panic(xErr{token.Position{Filename: filepath.Join(root, u.Dir)}, "function " + u.Func + " not found"})
	}
	x := &xl{xpkg: p, ld: ld, units: units, ptrParam: map[types.Object]bool{}, isParam: map[*types.Var]bool{}, oracleAt: map[string]ast.Node{}, fset: p.fset, info: p.info, pkg: p.pkg, unit: u, names: map[types.Object]string{}, used: map[string]bool{}, records: records, recOrd: recOrd, consts: consts, constOrd: constOrd}
	if fd.Type.TypeParams != nil {
		x.fail(fd, "generic functions are outside the subset")
	}
	var params []string
	for _, gname := range u.Globals {
		obj, ok := p.pkg.Scope().Lookup(gname).(*types.Var)
		if !ok {
			x.fail(fd, "declared global %s is not a package-level variable", gname)
		}
		params = append(params, "("+x.declare(obj)+" : "+x.coqType(fd, obj.Type())+")")
		x.paramNames = append(x.paramNames, x.names[obj])
		x.isParam[obj] = true
	}
	// results
	var rts []string
	opaqueRes := false
	if fd.Type.Results != nil {
		for _, f := range fd.Type.Results.List {
			// named results are accepted as long as the body never mentions them (they are not declared here, and a
			// return without values is rejected)
			if u.From != "" && !x.translatable(x.typeOf(f.Type)) { // a slice need not return: results outside the subset make any return fail
				opaqueRes = true
				continue
			}
			for i := 0; i < len(f.Names) || i < 1; i++ {
				rts = append(rts, x.coqType(f.Type, x.typeOf(f.Type)))
			}
			if u.State != nil { // state mode: named results are variables, a bare return yields them
				for _, id := range f.Names {
					x.namedRes = append(x.namedRes, x.info.ObjectOf(id).(*types.Var))
				}
			}
		}
	}
	x.nres = len(rts)
	if opaqueRes {
		x.nres = -1
	}
	if sig, ok := x.info.ObjectOf(fd.Name).Type().(*types.Signature); ok {
		for i := 0; i < sig.Results().Len(); i++ {
			x.resTypes = append(x.resTypes, sig.Results().At(i).Type())
		}
	}
	switch len(rts) {
	case 0:
		x.retType = "unit"
	case 1:
		x.retType = rts[0]
	default:
		x.retType = "(" + strings.Join(rts, " * ") + ")"
	}
	if u.Writer != nil {
		x.retType = "(" + u.Writer.typ() + " * " + x.retType + ")"
	}
	// receiver fields (receiver-fields mode) and oracles become parameters; scanned over the translated statements
	recvAndOracles := func(stmts []ast.Stmt, isSlice bool) {
		if u.Recv { // the receiver's fields read / assigned by the body (outside oracle expressions)
			if fd.Recv == nil || len(fd.Recv.List[0].Names) != 1 {
				x.fail(fd, "receiver-fields mode needs a named receiver")
			}
			x.recv = x.info.ObjectOf(fd.Recv.List[0].Names[0])
			read, written := map[*types.Var]bool{}, map[*types.Var]bool{}
			for _, scanned := range stmts {
				ast.Inspect(scanned, func(n ast.Node) bool {
					if st, isStmt := n.(ast.Stmt); isStmt {
						for _, ig := range u.Ignore {
							if x.src(st) == ig {
								return false
							}
						}
					}
					if e, ok := n.(ast.Expr); ok {
						if _, isOracle := u.Oracles[x.src(e)]; isOracle {
							return false
						}
						if f := x.field(e); f != nil {
							read[f] = true
						}
					}
					switch n := n.(type) {
					case *ast.CallExpr:
						if len(n.Args) == 2 {
							if f := x.atomicField(n); f != nil {
								written[f] = true
							}
						}
					case *ast.AssignStmt:
						for _, l := range n.Lhs {
							if f := x.field(l); f != nil {
								written[f] = true
							}
							if ie, isIdx := l.(*ast.IndexExpr); isIdx { // recv.m[k] = v sets the map field
								if f := x.field(ie.X); f != nil {
									written[f] = true
								}
							}
						}
					case *ast.IncDecStmt:
						if f := x.field(n.X); f != nil {
							written[f] = true
						}
					}
					return true
				})
			}
			var fs []*types.Var
			for f := range read {
				fs = append(fs, f)
			}
			sort.Slice(fs, func(i, j int) bool { return fs[i].Pos() < fs[j].Pos() })
			for _, f := range fs {
				params = append(params, "("+x.declare(f)+" : "+x.coqType(fd, f.Type())+")")
				if written[f] {
					if isSlice {
						x.fail(fd, "a statement slice in receiver-fields mode assigns the field %s", f.Name())
					}
					x.recvOut = append(x.recvOut, f)
					rts = append(rts, x.coqType(fd, f.Type()))
				}
			}
			if !isSlice {
				all := rts
				if u.State != nil { // state mode: the state comes first
					all = append([]string{u.State.Type}, rts...)
				}
				x.retType = "(" + strings.Join(all, " * ") + ")"
				if len(all) == 1 {
					x.retType = all[0]
				}
			}
		}
		var onames []string
		for n := range u.Oracles {
			onames = append(onames, n)
		}
		sort.Strings(onames)
		for _, n := range onames {
			params = append(params, "("+u.Oracles[n].Name+" : "+u.Oracles[n].Type+")")
		}
		var rnames []string
		for n := range u.Reads {
			rnames = append(rnames, n)
		}
		sort.Strings(rnames)
		for _, n := range rnames {
			params = append(params, "("+u.Reads[n].Name+" : "+u.Reads[n].Type+")")
			x.checkRead(stmts, n)
		}
		var mnames []string
		for n := range u.Methods {
			mnames = append(mnames, n)
		}
		sort.Strings(mnames)
		for _, n := range mnames {
			params = append(params, "("+u.Methods[n].Name+" : "+u.Methods[n].Type+")")
		}
		var fnames []string
		for n := range u.Funcs {
			fnames = append(fnames, n)
		}
		sort.Strings(fnames)
		for _, n := range fnames {
			params = append(params, "("+u.Funcs[n].Name+" : "+u.Funcs[n].Type+")")
		}
	}
	body := fd.Body.List
	var stateT, final string
	if u.From == "" { // whole function
		if fd.Recv != nil && u.Writer == nil && !u.Recv && u.State == nil {
			x.fail(fd, "methods are translated in writer, receiver-fields or state mode only")
		}
		var ptrTypes []string
		for _, f := range fd.Type.Params.List {
			for _, id := range f.Names {
				if id.Name == "_" { // never referenced
					continue
				}
				obj := x.info.ObjectOf(id)
				if u.Recv && !x.translatable(obj.Type()) { // e.g. an interface used in oracle expressions only: any other use fails
					continue
				}
				if u.State != nil {
					if x.src(f.Type) == "*bytes.Reader" || id.Name == u.State.Object { // the library object / the state itself
						continue
					}
					if pt, isPtr := obj.Type().(*types.Pointer); isPtr { // pointer parameter: an in/out value
						x.ptrParam[obj] = true
						x.ptrOrder = append(x.ptrOrder, obj.(*types.Var))
						ptrTypes = append(ptrTypes, x.coqType(id, pt.Elem()))
						params = append(params, "("+x.declare(obj)+" : "+x.coqType(id, pt.Elem())+")")
						x.paramNames = append(x.paramNames, x.names[obj])
						x.isParam[obj.(*types.Var)] = true
						continue
					}
					if sig, isFn := obj.Type().Underlying().(*types.Signature); isFn { // func() error run on the state
						if sig.Params().Len() != 0 || sig.Results().Len() != 1 || !xIsError(sig.Results().At(0).Type()) {
							x.fail(id, "function parameters other than func() error are outside the subset")
						}
						params = append(params, "("+x.declare(obj)+" : "+u.State.Type+" -> ctl unit ("+u.State.Type+" * bool))")
						x.paramNames = append(x.paramNames, x.names[obj])
						continue
					}
				}
				params = append(params, "("+x.declare(obj)+" : "+x.coqType(id, obj.Type())+")")
				x.paramNames = append(x.paramNames, x.names[obj])
				if v, ok := obj.(*types.Var); ok {
					x.isParam[v] = true
				}
			}
		}
		if u.State != nil {
			params = append(params, "(rd : "+u.State.Type+")")
			x.paramNames = append(x.paramNames, "rd")
			all := append(append([]string{u.State.Type}, ptrTypes...), rts...)
			x.retType = "(" + strings.Join(all, " * ") + ")"
			if len(all) == 1 {
				x.retType = all[0]
			}
		}
		if u.Fuel {
			params = append([]string{"(fuel : nat)"}, params...)
		}
		recvAndOracles(fd.Body.List, false)
		if u.Writer != nil {
			params = append(params, "(out : "+u.Writer.typ()+")")
			stateT, final = "("+u.Writer.typ()+")", "Next out"
		} else if u.State != nil {
			// reaching the end of the body is a return (functions without results, or with named ones)
			stateT, final = "unit", ""
		} else {
			stateT, final = "unit", "Next tt"
		}
	} else { // a run of top-level statements; its free variables are the parameters
		first, last := -1, -1
		if u.From == "^" { // from the first statement of the function
			first = 0
		}
		if u.Deep { // the statement list (anywhere in the function) that holds the statements From and To; it must be the only one
			var found [][]ast.Stmt
			ast.Inspect(fd.Body, func(n ast.Node) bool {
				var list []ast.Stmt
				switch n := n.(type) {
				case *ast.BlockStmt:
					list = n.List
				case *ast.CaseClause:
					list = n.Body
				case *ast.CommClause:
					list = n.Body
				}
				hasF, hasT := false, false
				for _, st := range list {
					line := strings.SplitN(x.src(st), "\n", 2)[0]
					hasF = hasF || line == u.From
					hasT = hasT || line == u.To
				}
				if hasF && hasT {
					found = append(found, list)
				}
				return true
			})
			if len(found) != 1 {
				x.fail(fd, "slice %q .. %q: %d statement lists of %s hold both anchors (exactly one is needed)", u.From, u.To, len(found), u.Func)
			}
			body = found[0]
		}
		for i, s := range body {
			line := strings.SplitN(x.src(s), "\n", 2)[0]
			if line == u.From {
				if first >= 0 {
					x.fail(s, "slice start %q matches more than one statement", u.From)
				}
				first = i
			}
			if line == u.To {
				if last >= 0 {
					x.fail(s, "slice end %q matches more than one statement", u.To)
				}
				last = i
			}
		}
		if first < 0 || last < first {
			x.fail(fd, "slice %q .. %q not found among the top-level statements of %s (the function changed: review the unit in harness/xlate_units.go)", u.From, u.To, u.Func)
		}
		after := body[last+1:]
		if u.After == nil { // the unit does not pin what follows
			after = nil
		}
		if len(after) != len(u.After) {
			x.fail(fd, "%d statements follow the slice, the unit expects %d", len(after), len(u.After))
		}
		for i, s := range after {
			got := x.src(s)
			if strings.HasSuffix(u.After[i], "{") { // a compound statement pinned by its header only (its body belongs to another unit)
				got = strings.SplitN(got, "\n", 2)[0]
			}
			if got != u.After[i] {
				x.fail(s, "statement after the slice changed: %q, the unit expects %q", x.src(s), u.After[i])
			}
		}
		body = body[first : last+1]
		lo, hi := body[0].Pos(), body[len(body)-1].End()
		var free []*types.Var
		var recvObj types.Object // receiver-fields mode: the receiver itself is not a parameter, its fields are
		if u.Recv && fd.Recv != nil && len(fd.Recv.List[0].Names) == 1 {
			recvObj = x.info.ObjectOf(fd.Recv.List[0].Names[0])
		}
		seen := map[*types.Var]bool{}
		for _, s := range body {
			ast.Inspect(s, func(n ast.Node) bool {
				if st, isStmt := n.(ast.Stmt); isStmt {
					for _, ig := range u.Ignore {
						if x.src(st) == ig {
							return false
						}
					}
				}
				if e, isExpr := n.(ast.Expr); isExpr { // an oracle expression / a read path is a parameter as a whole
					if _, isOracle := u.Oracles[x.src(e)]; isOracle {
						return false
					}
					if _, isRead := u.Reads[x.src(e)]; isRead {
						return false
					}
				}
				if id, ok := n.(*ast.Ident); ok {
					if v, ok := x.info.Uses[id].(*types.Var); ok && !v.IsField() && !seen[v] && types.Object(v) != recvObj && v.Parent() != p.pkg.Scope() && v.Parent() != types.Universe &&
						!(lo <= v.Pos() && v.Pos() < hi) && fd.Pos() <= v.Pos() && v.Pos() < fd.End() {
						seen[v] = true
						free = append(free, v)
					}
				}
				return true
			})
		}
		for _, o := range u.Outs { // a variable handed on that the statements do not mention is a parameter all the same
			for id, obj := range x.info.Defs {
				if v, ok := obj.(*types.Var); ok && id.Name == o && fd.Pos() <= v.Pos() && v.Pos() < lo && !seen[v] && !v.IsField() {
					seen[v] = true
					free = append(free, v)
				}
			}
		}
		sort.Slice(free, func(i, j int) bool { return free[i].Pos() < free[j].Pos() })
		for _, v := range free {
			if !x.translatable(v.Type()) { // used in ignored statements / untranslated callees only: any other use fails
				continue
			}
			params = append(params, "("+x.declare(v)+" : "+x.coqType(fd, v.Type())+")")
			x.paramNames = append(x.paramNames, x.names[v])
			x.isParam[v] = true
		}
		recvAndOracles(body, true)
		if u.Writer != nil {
			params = append(params, "(out : "+u.Writer.typ()+")")
			x.paramNames = append(x.paramNames, "out")
		}
		if u.State != nil { // state mode: the state is the last parameter and the first component of what is returned
			params = append(params, "(rd : "+u.State.Type+")")
			x.paramNames = append(x.paramNames, "rd")
			all := append([]string{u.State.Type}, rts...)
			x.retType = "(" + strings.Join(all, " * ") + ")"
			if len(all) == 1 {
				x.retType = all[0]
			}
		}
		if u.Fuel {
			params = append([]string{"(fuel : nat)"}, params...)
		}
		// the variables handed on: declared inside the slice or parameters of it
		var outs []*types.Var
		for _, o := range u.Outs {
			var found *types.Var
			for id, obj := range x.info.Defs {
				if v, ok := obj.(*types.Var); ok && id.Name == o && fd.Pos() <= v.Pos() && v.Pos() < hi {
					if found != nil && found != v {
						x.fail(fd, "slice output %s is ambiguous", o)
					}
					found = v
				}
			}
			if found == nil {
				x.fail(fd, "slice output %s not found", o)
			}
			outs = append(outs, found)
		}
		// nothing the statements set may be used further down in the function unless it is handed on
		handed := map[types.Object]bool{}
		for _, v := range outs {
			handed[v] = true
		}
		set := map[types.Object]bool{}
		for _, s := range body {
			ast.Inspect(s, func(n ast.Node) bool {
				switch n := n.(type) {
				case *ast.AssignStmt:
					for _, l := range n.Lhs {
						if id, ok := l.(*ast.Ident); ok {
							set[x.info.ObjectOf(id)] = true
						} else if ie, ok := l.(*ast.IndexExpr); ok {
							if id, ok := ie.X.(*ast.Ident); ok {
								set[x.info.ObjectOf(id)] = true
							}
						} else if sv, _ := x.structVar(l); sv != nil {
							set[sv] = true
						}
					}
				case *ast.IncDecStmt:
					if id, ok := n.X.(*ast.Ident); ok {
						set[x.info.ObjectOf(id)] = true
					}
				case *ast.ValueSpec:
					for _, id := range n.Names {
						set[x.info.ObjectOf(id)] = true
					}
				}
				return true
			})
		}
		ast.Inspect(fd.Body, func(n ast.Node) bool {
			if id, ok := n.(*ast.Ident); ok && id.Pos() >= hi {
				if o := x.info.Uses[id]; o != nil && set[o] && !handed[o] && x.translatable(o.Type()) { // (a variable outside the subset carries no value of the translation)
					x.fail(id, "%s is set by the translated statements and used after them, but is not among the unit's outputs", id.Name)
				}
			}
			return true
		})
		// names of the outputs are fixed before the body is translated
		for _, v := range outs {
			x.declare(v)
		}
		var term string
		term, stateT, _ = x.state(fd, outs)
		final = "Next " + term
		if u.LoopBody { // break / continue / return are told apart, as inside go_loop
			x.inLoop, x.loopCont, x.loopState = true, true, term
			x.retType = "((" + stateT + " + " + stateT + ") + " + x.retType + ")"
		}
	}
	x.fnBody = fd.Body.List
	x.body = body
	if len(body) > 0 {
		x.lo, x.hi = body[0].Pos(), body[len(body)-1].End()
	}
	if u.State != nil && u.From == "" {
		var vs []string
		for _, v := range x.namedRes {
			vs = append(vs, x.declare(v))
		}
		if len(x.namedRes) == 0 && x.nres > 0 {
			final = "Panic" // unreachable: the compiler demands a terminating statement
		} else {
			final = x.ret(vs)
		}
	}
	text := x.block(body, final, 2)
	for i := len(x.namedRes) - 1; i >= 0; i-- { // named results start at their zero values
		v := x.namedRes[i]
		text = "let " + x.names[v] + " : " + x.coqType(fd, v.Type()) + " := " + x.zero(fd, v.Type()) + " in\n    " + text
	}
	lines := strings.Split(text, "\n")
	for i := range lines {
		lines[i] = strings.TrimRight(lines[i], " ")
	}
	text = strings.Join(lines, "\n")
	pos := x.fset.Position(fd.Pos())
	rel, _ := filepath.Rel(root, pos.Filename)
	what := "func " + u.Func
	if u.From != "" {
		what += fmt.Sprintf(", statements %q .. %q", u.From, u.To)
	}
	return xDef{rel + ": " + what, u.Name, strings.Join(params, " "), "ctl " + stateT + " " + x.retType, text}
}

func xRecordDecl(name string, nm *types.Named, x *xl) string {
	st := nm.Underlying().(*types.Struct)
	var fs []string
	for _, f := range x.recFields(st) {
		fs = append(fs, name+"_"+f.Name()+" : "+x.memberType(nil, f.Type()))
	}
	return fmt.Sprintf("(* struct %s *)\nRecord %s := { %s }.\n", nm.String(), name, strings.Join(fs, ";\n  "))
}

func xlateAll(root string) (string, []string) {
	out, errs := xlateUnits(root, xUnits)
	head := "(* GENERATED from the Go source of the tree by `harness gen-translated` on every run - do not edit.\n" +
		"   Translator: harness/xlate.go; units: harness/xlate_units.go; target language: Xlate/GoSem.v; see design/XLATE.md *)\n" +
		"From Coq Require Import List NArith ZArith Bool.\nFrom TarsV Require Import Xlate.GoSem.\nImport ListNotations.\nOpen Scope Z_scope.\n\n"
	return head + strings.Join(out, "\n"), errs
}

// xlateUnits: the definitions (with the constants and records they use) of the units, and the errors of those that
// are outside the subset
func xlateUnits(root string, units []xUnit) (out, errs []string) {
	ld := newXLoader(root)
	records := map[string]*types.Named{}
	var recOrd, constOrd []string
	consts := map[string]string{}
	emitted, emittedC := 0, 0
	var group []xDef
	nerr := 0
	for i := 0; i < len(units); i++ {
		u := &units[i]
		func() {
			defer func() {
				if r := recover(); r != nil {
					e, ok := r.(xErr)
					if !ok {
						panic(r)
					}
					pos := e.pos.String()
					if rel, err := filepath.Rel(root, e.pos.Filename); err == nil {
						pos = fmt.Sprintf("%s:%d:%d", rel, e.pos.Line, e.pos.Column)
					}
					msg := fmt.Sprintf("%s: %s: %s", u.Name, pos, e.msg)
					errs = append(errs, msg)
					// no definition of the unit: its equivalence proof fails on the missing name
					out = append(out, fmt.Sprintf("(* NOT TRANSLATED %s *)\nDefinition %s_untranslatable : unit := tt.\n",
						strings.ReplaceAll(strings.ReplaceAll(msg, "(*", "( *"), "*)", "* )"), u.Name))
				}
			}()
			def := xlateUnit(root, u, units, ld, records, &recOrd, consts, &constOrd)
			for ; emittedC < len(constOrd); emittedC++ { // named constants first used by this unit
				out = append(out, fmt.Sprintf("Definition %s : Z := %s.", constOrd[emittedC], consts[constOrd[emittedC]]))
			}
			// records first used by this unit precede it
			for ; emitted < len(recOrd); emitted++ {
				x := &xl{records: records, recOrd: &recOrd}
				out = append(out, xRecordDecl(recOrd[emitted], records[recOrd[emitted]], x))
			}
			if u.Group == "" {
				out = append(out, def.text())
				return
			}
			// a group: one mutual Fixpoint on fuel, emitted with its last unit
			group = append(group, def)
			if i+1 < len(units) && units[i+1].Group == u.Group {
				return
			}
			var parts []string
			for k, d := range group {
				kw := "with"
				if k == 0 {
					kw = "Fixpoint"
				}
				parts = append(parts, fmt.Sprintf("(* %s *)\n%s %s %s {struct fuel} : %s :=\n  match fuel with O => Panic | S fuel =>\n  %s\n  end", d.comment, kw, d.name, d.params, d.typ, d.body))
			}
			out = append(out, strings.Join(parts, "\n")+".\n")
			group = nil
		}()
		if len(errs) > nerr && u.Group != "" { // a failed member: the group cannot be emitted; its other members are undefined too
			for _, d := range group {
				errs = append(errs, d.name+": not translated because "+u.Name+" of its group is outside the subset")
			}
			group = nil
			for i+1 < len(units) && units[i+1].Group == u.Group {
				i++
				errs = append(errs, units[i].Name+": not translated because "+u.Name+" of its group is outside the subset")
			}
		}
		nerr = len(errs)
	}
	return out, errs
}

func init() {
	props["gen-translated"] = func(a Args) {
		root := os.Getenv("VERIF_REPO")
		if root == "" {
			root = "/repo"
		}
		if build.Default.GOARCH != "amd64" && build.Default.GOARCH != "arm64" {
			fmt.Fprintln(os.Stderr, "gen-translated: int is taken to be 64 bits wide; GOARCH", build.Default.GOARCH, "is not supported")
			os.Exit(3)
		}
		text, errs := xlateAll(root)
		if len(errs) == 0 {
			fmt.Print(text)
			return
		}
		// fail loudly - and leave the failed units undefined in the generated file, so that the driver (which keeps the
		// previous file when a generator fails) cannot go on checking proofs about a stale translation
		for _, e := range errs {
			fmt.Fprintln(os.Stderr, "gen-translated: outside the supported subset:", e)
		}
		if hs := os.Getenv("VERIF_HARNESS_SRC"); hs != "" {
			target := filepath.Join(filepath.Dir(hs), "coq", "Gen", "Translated.v")
			if err := os.WriteFile(target, []byte(text), 0o644); err != nil {
				fmt.Fprintln(os.Stderr, "gen-translated:", err)
			}
		}
		os.Exit(3)
	}
}
