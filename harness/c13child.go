package main

// C13 / C14 child processes.
//   * c13-worker: runs selector cases sent as JSON lines under an address-space limit; a death (fatal out of
//     memory, runtime throw) or a hang is attributed by the parent to the case that was running.
//   * the race stress: a small program (harness/c13race) built from the tree with `go build -race` and run as a
//     child; a detector report with a frame inside tars/selector is a failure.

import (
	"bufio"
	"bytes"
	"encoding/json"
	"fmt"
	"io"
	"math/rand"
	"os"
	"os/exec"
	"path/filepath"
	"regexp"
	"runtime"
	"strings"
	"sync"
	"syscall"
	"time"
)

type c13Reply struct {
	Case     c13Case   `json:"case"`
	Failures []Failure `json:"failures"`
}

func c13Allocated(f func()) uint64 {
	var m0, m1 runtime.MemStats
	runtime.GC()
	runtime.ReadMemStats(&m0)
	f()
	runtime.ReadMemStats(&m1)
	return m1.TotalAlloc - m0.TotalAlloc
}

func c13WorkerMain(limitMB int) {
	if limitMB <= 0 {
		limitMB = 4096
	}
	lim := uint64(limitMB) << 20
	_ = syscall.Setrlimit(syscall.RLIMIT_AS, &syscall.Rlimit{Cur: lim, Max: lim})
	in := bufio.NewReaderSize(os.Stdin, 1<<20)
	out := bufio.NewWriter(os.Stdout)
	for {
		line, err := in.ReadString('\n')
		if line == "" && err != nil {
			return
		}
		var rp c13Reply
		if json.Unmarshal([]byte(line), &rp.Case) != nil {
			continue
		}
		fmt.Fprintf(out, "BEGIN\n")
		out.Flush()
		rp.Failures = c13Run(&rp.Case)
		b, _ := json.Marshal(rp)
		fmt.Fprintf(out, "END %s\n", b)
		out.Flush()
	}
}

type c13Worker struct {
	cmd    *exec.Cmd
	in     io.WriteCloser
	out    *bufio.Reader
	stderr *bytes.Buffer
}

func c13StartWorker(limitMB int) (*c13Worker, error) {
	cmd := exec.Command(os.Args[0], "c13-worker", fmt.Sprintf("limit=%d", limitMB))
	in, err := cmd.StdinPipe()
	if err != nil {
		return nil, err
	}
	op, err := cmd.StdoutPipe()
	if err != nil {
		return nil, err
	}
	w := &c13Worker{cmd: cmd, in: in, out: bufio.NewReaderSize(op, 1<<20), stderr: &bytes.Buffer{}}
	cmd.Stderr = w.stderr
	if err := cmd.Start(); err != nil {
		return nil, err
	}
	return w, nil
}

func (w *c13Worker) stop() {
	w.in.Close()
	w.cmd.Process.Kill()
	w.cmd.Wait()
}

// do runs one case; died != "" when the child did not answer (it is then dead and must be replaced)
func (w *c13Worker) do(c *c13Case, timeout time.Duration) (fs []Failure, died string) {
	b, _ := json.Marshal(c)
	if _, err := w.in.Write(append(b, '\n')); err != nil {
		return nil, "worker not writable: " + err.Error()
	}
	type ans struct {
		line string
		err  error
	}
	ch := make(chan ans, 1)
	go func() {
		for {
			l, err := w.out.ReadString('\n')
			if strings.HasPrefix(l, "END ") || err != nil {
				ch <- ans{l, err}
				return
			}
		}
	}()
	select {
	case a := <-ch:
		if a.err != nil || !strings.HasPrefix(a.line, "END ") {
			w.cmd.Wait()
			msg := w.stderr.String()
			if i := strings.Index(msg, "\n\n"); i > 0 {
				msg = msg[:i]
			}
			if len(msg) > 300 {
				msg = msg[:300]
			}
			return nil, "child process died: " + strings.TrimSpace(msg)
		}
		var rp c13Reply
		if err := json.Unmarshal([]byte(a.line[4:]), &rp); err != nil {
			return nil, "unparsable answer: " + err.Error()
		}
		*c = rp.Case
		return rp.Failures, ""
	case <-time.After(timeout):
		w.cmd.Process.Kill()
		<-ch
		w.cmd.Wait()
		return nil, fmt.Sprintf("no answer within %v (hang)", timeout)
	}
}

func c13DeathClass(msg string) string {
	switch {
	case strings.Contains(msg, "out of memory") || strings.Contains(msg, "cannot allocate memory"):
		return "out-of-memory"
	case strings.Contains(msg, "hang"):
		return "hang"
	case strings.Contains(msg, "stack overflow"):
		return "stack-overflow"
	}
	return "died"
}

// c13RunAll runs all cases in child workers (replaces the in-process worker loop of runProp)
func c13RunAll(cs []c13Case) [][]Failure {
	fails := make([][]Failure, len(cs))
	ch := make(chan int)
	var wg sync.WaitGroup
	for k := 0; k < 6; k++ {
		wg.Add(1)
		go func() {
			defer wg.Done()
			var w *c13Worker
			defer func() {
				if w != nil {
					w.stop()
				}
			}()
			for i := range ch {
				c := &cs[i]
				limit, worker := 4096, w
				if c.LimitMB > 0 { // alone in its own child
					limit, worker = c.LimitMB, nil
				}
				if worker == nil {
					nw, err := c13StartWorker(limit)
					if err != nil {
						fatal("c13 worker: %v", err)
					}
					worker = nw
					if c.LimitMB == 0 {
						w = nw
					}
				}
				fs, died := worker.do(c, 120*time.Second)
				if died != "" {
					c.Died = died
					fs = []Failure{{Sig: "selector/" + c.Kind + "/process-" + c13DeathClass(died), Desc: "the process running this case did not survive it: " + died}}
					if c.LimitMB == 0 {
						w = nil
					}
				}
				if c.LimitMB > 0 {
					worker.stop()
				}
				fails[i] = fs
			}
		}()
	}
	for i := range cs {
		ch <- i
	}
	close(ch)
	wg.Wait()
	return fails
}

// ---------- race stress ----------
var c13RaceBlock = regexp.MustCompile(`(?s)WARNING: DATA RACE.*?==================`)

// c13Extra: the "-race" clause of C13.  Builds harness/c13race from the current tree with the race detector
// and runs the 16-goroutine select/update stress for each selector.
func c13Extra(tier string, rng *rand.Rand, res *Result) { c13RaceStress(tier, rng, res, "all", "selector") }

// c13RaceStress builds and runs harness/c13race; mode "hash" runs only the hash-routing-concurrent-with-updates part (C14)
func c13RaceStress(tier string, rng *rand.Rand, res *Result, mode, sigRoot string) {
	src, modfile, build := os.Getenv("VERIF_HARNESS_SRC"), os.Getenv("VERIF_MODFILE"), os.Getenv("VERIF_BUILD")
	if src == "" || modfile == "" || build == "" {
		res.Stats["race_stress"] = "skipped: VERIF_HARNESS_SRC / VERIF_MODFILE / VERIF_BUILD not set (harness not started by ./check)"
		return
	}
	t0 := time.Now()
	bin := filepath.Join(build, "c13race")
	cmd := exec.Command("go", "build", "-race", "-modfile", modfile, "-tags", "verif", "-o", bin, "./c13race")
	cmd.Dir = src
	cmd.Env = append(os.Environ(), "CGO_ENABLED=1")
	if out, err := c13RunTimeout(cmd, 600*time.Second); err != nil {
		res.Failures = append(res.Failures, Failure{Sig: "selector/race-build", Desc: "the race-instrumented stress program does not build against the tree: " + err.Error() + "\n" + c13Tail(out, 1500), Replay: map[string]interface{}{"cmd": strings.Join(cmd.Args, " ")}})
		return
	}
	buildS := time.Since(t0).Seconds()
	iters := 3000
	if tier == "thorough" {
		iters = 40000
	}
	seed := rng.Int63()
	run := exec.Command(bin, fmt.Sprint(iters), fmt.Sprint(seed), mode)
	run.Env = append(os.Environ(), "GORACE=halt_on_error=0 exitcode=0 history_size=2")
	t1 := time.Now()
	out, err := c13RunTimeout(run, 900*time.Second)
	replay := map[string]interface{}{"cmd": "c13race " + fmt.Sprint(iters, " ", seed, " ", mode), "build": strings.Join(cmd.Args, " ")}
	reports, inSel := 0, 0
	for _, blk := range c13RaceBlock.FindAllString(out, -1) {
		reports++
		if strings.Contains(blk, "/tars/selector") {
			inSel++
			if inSel == 1 {
				kind := "unknown"
				for _, k := range []string{"roundrobin", "random", "modhash", "consistenthash"} {
					if strings.Contains(blk, "/tars/selector/"+k) {
						kind = k
						break
					}
				}
				replay["report"] = c13Tail(blk, 2500)
				res.Failures = append(res.Failures, Failure{Sig: sigRoot + "/" + kind + "/data-race", Desc: "the race detector reports a data race with a frame inside tars/selector while 16 goroutines select and update concurrently:\n" + c13Head(blk, 1800), Replay: replay})
			}
		}
	}
	var st struct {
		HashConc   int      `json:"hash_lookups_concurrent_with_updates"`
		Selections int      `json:"selections"`
		Updates    int      `json:"updates"`
		Problems   []string `json:"problems"`
	}
	if i := strings.LastIndex(out, "C13RACE "); i >= 0 {
		line := out[i+8:]
		if j := strings.IndexByte(line, '\n'); j >= 0 {
			line = line[:j]
		}
		_ = json.Unmarshal([]byte(line), &st)
	} else {
		res.Failures = append(res.Failures, Failure{Sig: sigRoot + "/concurrent/stress-died", Desc: fmt.Sprintf("the concurrent select/update stress did not finish (%v):\n%s", err, c13Tail(out, 2000)), Replay: replay})
	}
	for i, p := range st.Problems {
		if i < 3 {
			res.Failures = append(res.Failures, Failure{Sig: sigRoot + "/concurrent/" + strings.SplitN(p, ":", 2)[0], Desc: "under concurrent selections and updates: " + p, Replay: replay})
		}
	}
	res.Evaluations += st.Selections + st.Updates
	res.Traces += 8
	res.Stats["race_stress"] = map[string]interface{}{"mode": mode, "hash_lookups_concurrent_with_add_remove_refresh": st.HashConc, "goroutines": 16, "selectors": 8, "iterations_per_goroutine": iters, "selections": st.Selections, "updates": st.Updates,
		"detector_reports": reports, "reports_in_tars_selector": inSel, "build_s": buildS, "run_s": time.Since(t1).Seconds()}
}

func c13RunTimeout(cmd *exec.Cmd, d time.Duration) (string, error) {
	var buf bytes.Buffer
	cmd.Stdout, cmd.Stderr = &buf, &buf
	if err := cmd.Start(); err != nil {
		return "", err
	}
	done := make(chan error, 1)
	go func() { done <- cmd.Wait() }()
	select {
	case err := <-done:
		return buf.String(), err
	case <-time.After(d):
		cmd.Process.Kill()
		<-done
		return buf.String(), fmt.Errorf("timeout after %v", d)
	}
}

func c13Tail(s string, n int) string {
	if len(s) > n {
		return s[len(s)-n:]
	}
	return s
}
func c13Head(s string, n int) string {
	if len(s) > n {
		return s[:n]
	}
	return s
}

func init() {
	props["c13-worker"] = func(a Args) {
		lim := 0
		for _, s := range os.Args[2:] {
			fmt.Sscanf(s, "limit=%d", &lim)
		}
		c13WorkerMain(lim)
	}
}
