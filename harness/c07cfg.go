package main

// C07 — "a length prefix … larger than the CONFIGURED maximum packet length is a protocol error; a packet of exactly
// the maximum length is accepted": the configured value has to reach the framing functions. A child process loads a
// server configuration file with maxPackageLength = N through the application's own initialisation
// (tars.ServerConfigPath + tars.GetServerConfig) and reports what the two framing functions the endpoints use
// (tars.Protocol.ParsePackage, protocol.TarsProtocol.ParsePackage) say about packets of N and N+1 bytes.

import (
	"encoding/binary"
	"encoding/json"
	"fmt"
	"math/rand"
	"os"
	"os/exec"
	"path/filepath"
	"time"

	"github.com/TarsCloud/TarsGo/tars"
	"github.com/TarsCloud/TarsGo/tars/protocol"
)

type c07CfgObs struct {
	Max      int    `json:"max"`
	Reported int    `json:"reported"` // GetServerConfig().MaxPackageLength
	SrvFull  [2]int `json:"srv_full"` // server ParsePackage on a complete packet of Max bytes: (length, status)
	CliFull  [2]int `json:"cli_full"`
	SrvOver  [2]int `json:"srv_over"` // … on the 4-byte prefix Max+1 followed by 8 bytes
	CliOver  [2]int `json:"cli_over"`
}

func c07CfgChild(a Args) {
	max := int(a.Seed)
	dir := a.Out
	cfg := "<tars>\n<application>\n<server>\napp=VerifApp\nserver=C07Server\nlocalip=127.0.0.1\nlogpath=" + filepath.Join(dir, "applog") + "\ndatapath=" + dir +
		fmt.Sprintf("\nmaxPackageLength=%d\n", max) + "</server>\n<client>\n</client>\n</application>\n</tars>\n"
	path := filepath.Join(dir, "server.conf")
	if err := os.WriteFile(path, []byte(cfg), 0o644); err != nil {
		fatal("c07 config child: %v", err)
	}
	tars.ServerConfigPath = path
	sc := tars.GetServerConfig()
	o := c07CfgObs{Max: max}
	if sc != nil {
		o.Reported = sc.MaxPackageLength
	}
	full := make([]byte, max)
	binary.BigEndian.PutUint32(full, uint32(max))
	over := make([]byte, 12)
	binary.BigEndian.PutUint32(over, uint32(max+1))
	srv, cli := tars.VerifNewProtocol(nil, nil, false), &protocol.TarsProtocol{}
	l, st := srv.ParsePackage(full)
	o.SrvFull = [2]int{l, st}
	l, st = cli.ParsePackage(full)
	o.CliFull = [2]int{l, st}
	l, st = srv.ParsePackage(over)
	o.SrvOver = [2]int{l, st}
	l, st = cli.ParsePackage(over)
	o.CliOver = [2]int{l, st}
	b, _ := json.Marshal(o)
	fmt.Println("C07CFG " + string(b))
}

func init() {
	props["c07-config-child"] = c07CfgChild
}

// c07Config runs one child per configured maximum and judges its report
func c07Config(tier string, rng *rand.Rand, res *Result) {
	maxes := []int{64, 4096, 20 << 20} // below, far below and above the built-in default of 10 MiB
	if tier == "thorough" {
		maxes = append(maxes, 5, 300, 10485759, 10485761, 64<<20)
	}
	exe, _ := os.Executable()
	for _, m := range maxes {
		dir, err := os.MkdirTemp("", "c07cfg")
		if err != nil {
			continue
		}
		cmd := exec.Command(exe, "c07-config-child", "out="+dir, fmt.Sprintf("seed=%d", m))
		cmd.Dir = dir
		done := make(chan struct{})
		var out []byte
		go func() { out, err = cmd.CombinedOutput(); close(done) }()
		select {
		case <-done:
		case <-time.After(60 * time.Second):
			_ = cmd.Process.Kill()
			<-done
		}
		os.RemoveAll(dir)
		res.Evaluations++
		var o c07CfgObs
		ok := false
		for _, ln := range splitLines(string(out)) {
			if len(ln) > 7 && ln[:7] == "C07CFG " && json.Unmarshal([]byte(ln[7:]), &o) == nil {
				ok = true
			}
		}
		rep := map[string]interface{}{"c07_config": true, "max_package_length": m}
		if !ok {
			res.Failures = append(res.Failures, Failure{Sig: "framing/config/child-failed", Desc: fmt.Sprintf("the child that loads a server configuration with maxPackageLength=%d produced no report: %s", m, trunc([]byte(string(out)))), Replay: rep})
			continue
		}
		full, less, perr := protocol.PackageFull, protocol.PackageLess, protocol.PackageError
		_ = less
		if o.SrvFull != [2]int{m, full} || o.CliFull != [2]int{m, full} {
			res.Failures = append(res.Failures, Failure{Sig: "framing/config/exact-max-not-accepted", Desc: fmt.Sprintf("server configured with maxPackageLength=%d (reported %d): a complete packet of exactly %d bytes gives server %v, client %v, want (%d, %d)", m, o.Reported, m, o.SrvFull, o.CliFull, m, full), Replay: rep})
		}
		if o.SrvOver[1] != perr || o.CliOver[1] != perr {
			res.Failures = append(res.Failures, Failure{Sig: "framing/config/over-max-not-rejected", Desc: fmt.Sprintf("server configured with maxPackageLength=%d (reported %d): the length prefix %d gives server %v, client %v, want a protocol error (%d)", m, o.Reported, m+1, o.SrvOver, o.CliOver, perr), Replay: rep})
		}
	}
}

func splitLines(s string) []string {
	var out []string
	cur := ""
	for _, r := range s {
		if r == '\n' {
			out = append(out, cur)
			cur = ""
		} else {
			cur += string(r)
		}
	}
	return append(out, cur)
}
