package main

// C09 — transport level: TarsClient.Send is the part of a call that runs before the call starts to wait on its deadline,
// so it must itself be bounded: dial (DialTimeout) + enqueue (WriteTimeout). Scenario "transport-race": many clients with
// a send queue of length 1 against a peer that accepts and never reads; per client one large request keeps the send
// goroutine in conn.Write, then two (or more) callers call Send at the same instant while exactly one slot is free.

import (
	"sync"
	"time"

	"github.com/TarsCloud/TarsGo/tars/transport"
)

func c09TransportRace(c *c09Case, obs *c09Obs, port int) {
	addr := "127.0.0.1:" + itoa(port)
	clients := c.Proxies
	if clients < 1 {
		clients = 1
	}
	racers := c.Callers / clients
	if racers < 2 {
		racers = 2
	}
	big := make([]byte, c.ReqSize)
	big[0], big[1], big[2], big[3] = byte(len(big)>>24), byte(len(big)>>16), byte(len(big)>>8), byte(len(big))
	small := []byte{0, 0, 0, 8, 1, 2, 3, 4}
	n := clients * racers
	results := make([]c09CallObs, n)
	for i := range results {
		results[i] = c09CallObs{Call: i, Caller: i / racers, Out: "hang"}
	}
	var mu sync.Mutex
	var wg sync.WaitGroup
	t00 := time.Now()
	for ci := 0; ci < clients; ci++ {
		wg.Add(1)
		go func(ci int) {
			defer wg.Done()
			time.Sleep(time.Duration(ci*c.StaggerUs) * time.Microsecond) // the groups one after the other: a group really runs in parallel
			tc := transport.NewTarsClient(addr, &recProto{client: true}, &transport.TarsClientConf{
				Proto: "tcp", QueueLen: c.QueueLen, IdleTimeout: time.Minute,
				ReadTimeout:  time.Duration(c.ReadMs) * time.Millisecond,
				WriteTimeout: time.Duration(c.WriteMs) * time.Millisecond,
				DialTimeout:  time.Duration(c.DialMs) * time.Millisecond})
			if err := tc.Send(big); err != nil {
				// the set-up failed (the dial timed out on an overloaded machine): no race on this client, nothing to judge
				mu.Lock()
				for r := 0; r < racers; r++ {
					results[ci*racers+r] = c09CallObs{Call: ci*racers + r, Caller: ci, Out: "error", Err: "setup: " + err.Error()}
				}
				mu.Unlock()
				return
			}
			time.Sleep(20 * time.Millisecond) // the send goroutine has taken the request and sits in conn.Write
			at := time.Now().Add(2 * time.Millisecond)
			var rg sync.WaitGroup
			for r := 0; r < racers; r++ {
				rg.Add(1)
				go func(r int) {
					defer rg.Done()
					// sleep up to shortly before the instant, spin only the last stretch (spinning callers of many clients would
					// starve the process)
					if d := time.Until(at) - 600*time.Microsecond; d > 0 {
						time.Sleep(d)
					}
					for time.Now().Before(at) {
					}
					t0 := time.Now()
					err := tc.Send(small)
					d := time.Since(t0)
					out := "oneway"
					if err != nil {
						out = "error"
					}
					mu.Lock()
					results[ci*racers+r] = c09CallObs{Call: ci*racers + r, Caller: ci, StartMs: t0.Sub(t00).Milliseconds(), DurMs: d.Milliseconds(), Out: out}
					mu.Unlock()
				}(r)
			}
			rg.Wait()
		}(ci)
	}
	done := make(chan struct{})
	go func() { wg.Wait(); close(done) }()
	select {
	case <-done:
	case <-time.After(time.Duration(clients*c.StaggerUs/1000+c.DialMs+c.WriteMs+3000) * time.Millisecond):
	}
	mu.Lock()
	obs.Calls = append([]c09CallObs(nil), results...)
	mu.Unlock()
	obs.MaxRecv = -1
}

func itoa(v int) string {
	if v == 0 {
		return "0"
	}
	var b []byte
	for v > 0 {
		b = append([]byte{byte('0' + v%10)}, b...)
		v /= 10
	}
	return string(b)
}
