package main

// C03 second clause, on the implementation's bytes (independent of the model): a Go-side walker over every encoding
// the harness produces, alongside the Go type of the value: well-formed heads, every field under the tag of a member
// of the struct (elements: tag 0, map keys 0 / values 1), tags strictly ascending at every struct level, a wire type
// the member's type admits, every integer in the narrowest width that holds its value (zero as ZeroTag), strings of
// at most 255 bytes as STRING1, vector<byte> as SimpleList. Also: the canonical (ascending by tag) image of an
// encoding, and values with every integer position at one width boundary.

import (
	"encoding/binary"
	"fmt"
	"reflect"
	"sort"
)

type wireFault struct{ class, desc string }

func wireConform(top reflect.Type, bs []byte) []wireFault {
	spans, ok := walkTop(bs)
	if !ok {
		return []wireFault{{"malformed", "the encoding is not a sequence of well-formed fields"}}
	}
	var out []wireFault
	add := func(class, f string, a ...interface{}) {
		if len(out) < 8 {
			out = append(out, wireFault{class, fmt.Sprintf(f, a...)})
		}
	}
	intVal := func(s span) (int64, bool) {
		switch s.Ty {
		case 12:
			return 0, true
		case 0:
			return int64(int8(bs[s.BodyStart])), true
		case 1:
			return int64(int16(binary.BigEndian.Uint16(bs[s.BodyStart:]))), true
		case 2:
			return int64(int32(binary.BigEndian.Uint32(bs[s.BodyStart:]))), true
		case 3:
			return int64(binary.BigEndian.Uint64(bs[s.BodyStart:])), true
		}
		return 0, false
	}
	narrowest := func(v int64) byte {
		switch {
		case v == 0:
			return 12
		case v >= -128 && v <= 127:
			return 0
		case v >= -32768 && v <= 32767:
			return 1
		case v >= -2147483648 && v <= 2147483647:
			return 2
		}
		return 3
	}
	var field func(t reflect.Type, s span, where string)
	members := func(t reflect.Type, kids []span, where string) {
		prev := -1
		for _, k := range kids {
			if k.Tag <= prev {
				add("tags-not-ascending", "%s: field with tag %d after a field with tag %d", where, k.Tag, prev)
			}
			prev = k.Tag
			ft, _, ok := fieldTypeByTag(t, k.Tag)
			if !ok {
				add("unknown-tag", "%s: field with tag %d, which no member of %s has", where, k.Tag, t.Name())
				continue
			}
			field(ft, k, fmt.Sprintf("%s.%d", where, k.Tag))
		}
	}
	field = func(t reflect.Type, s span, where string) {
		if !admissible(t)[s.Ty] {
			add("inadmissible-wire-type", "%s: a %s written as wire type %d", where, t.String(), s.Ty)
			return
		}
		switch t.Kind() {
		case reflect.Bool, reflect.Int8, reflect.Int16, reflect.Int32, reflect.Int64, reflect.Uint8, reflect.Uint16, reflect.Uint32:
			if v, ok := intVal(s); ok && narrowest(v) != s.Ty {
				add("int-not-narrowest", "%s: the integer %d is written as wire type %d, the narrowest that holds it is %d", where, v, s.Ty, narrowest(v))
			}
		case reflect.String:
			if s.Ty == 7 && s.End-(s.LenAt+4) <= 255 {
				add("string-not-narrowest", "%s: a string of %d bytes is written as STRING4", where, s.End-(s.LenAt+4))
			}
		case reflect.Slice, reflect.Array:
			if t.Kind() == reflect.Slice && t.Elem().Kind() == reflect.Int8 {
				if s.Ty != 13 {
					add("bytes-not-simple-list", "%s: a vector<byte> is written as wire type %d", where, s.Ty)
				}
				return
			}
			if s.CountField != nil {
				if v, ok := intVal(*s.CountField); ok && (narrowest(v) != s.CountField.Ty || s.CountField.Tag != 0) {
					add("int-not-narrowest", "%s: the count %d is written as wire type %d under tag %d", where, v, s.CountField.Ty, s.CountField.Tag)
				}
			}
			for i, k := range s.Kids {
				if k.Tag != 0 {
					add("element-tag", "%s: element %d carries tag %d", where, i, k.Tag)
				}
				field(t.Elem(), k, fmt.Sprintf("%s[%d]", where, i))
			}
		case reflect.Map:
			if s.CountField != nil {
				if v, ok := intVal(*s.CountField); ok && (narrowest(v) != s.CountField.Ty || s.CountField.Tag != 0) {
					add("int-not-narrowest", "%s: the count %d is written as wire type %d under tag %d", where, v, s.CountField.Ty, s.CountField.Tag)
				}
			}
			for i, k := range s.Kids {
				if k.Tag != i%2 {
					add("element-tag", "%s: map key/value %d carries tag %d", where, i, k.Tag)
				}
				if i%2 == 0 {
					field(t.Key(), k, fmt.Sprintf("%s{key %d}", where, i/2))
				} else {
					field(t.Elem(), k, fmt.Sprintf("%s{value %d}", where, i/2))
				}
			}
		case reflect.Struct:
			members(t, s.Kids, where)
		}
	}
	members(top, spans, top.Name())
	return out
}

// canonBytes: the same fields with the members of every struct value (top level and nested, at any depth) in
// ascending tag order - what a conforming peer sends. The identity on a conforming encoding.
func canonBytes(bs []byte, spans []span) []byte {
	var fieldB func(s span) []byte
	membersB := func(kids []span) []byte {
		ks := append([]span(nil), kids...)
		sort.SliceStable(ks, func(i, j int) bool { return ks[i].Tag < ks[j].Tag })
		var out []byte
		for _, k := range ks {
			out = append(out, fieldB(k)...)
		}
		return out
	}
	fieldB = func(s span) []byte {
		switch s.Ty {
		case 10:
			out := append([]byte(nil), bs[s.Start:s.BodyStart]...)
			out = append(out, membersB(s.Kids)...)
			return append(out, bs[s.End-1:s.End]...)
		case 8, 9:
			out := append([]byte(nil), bs[s.Start:s.CountField.End]...)
			for _, k := range s.Kids {
				out = append(out, fieldB(k)...)
			}
			return out
		}
		return append([]byte(nil), bs[s.Start:s.End]...)
	}
	return membersB(spans)
}

// the width boundaries of the integer encodings
var widthBoundaries = []int64{-129, -128, -32769, -32768, -2147483649, -2147483648, 127, 128, 32767, 32768, 2147483647, 2147483648}

// fillConst: a value in which every integer position (members, vector/array elements, map keys and values, at any
// depth) holds x converted to the position's type; containers have one element, strings are short
func fillConst(v reflect.Value, x int64, depth int) {
	t := v.Type()
	switch t.Kind() {
	case reflect.Bool:
		v.SetBool(x&1 == 0)
	case reflect.Int8, reflect.Int16, reflect.Int32, reflect.Int64:
		v.SetInt(reflect.ValueOf(x).Convert(t).Int())
	case reflect.Uint8, reflect.Uint16, reflect.Uint32:
		v.SetUint(reflect.ValueOf(uint64(x)).Convert(t).Uint())
	case reflect.String:
		v.SetString("w")
	case reflect.Slice:
		if depth <= 0 {
			return
		}
		s := reflect.MakeSlice(t, 1, 1)
		fillConst(s.Index(0), x, depth-1)
		v.Set(s)
	case reflect.Array:
		for i := 0; i < v.Len(); i++ {
			fillConst(v.Index(i), x, depth-1)
		}
	case reflect.Map:
		if depth <= 0 {
			return
		}
		m := reflect.MakeMap(t)
		k := reflect.New(t.Key()).Elem()
		fillConst(k, x, depth-1)
		e := reflect.New(t.Elem()).Elem()
		fillConst(e, x, depth-1)
		m.SetMapIndex(k, e)
		v.Set(m)
	case reflect.Struct:
		for _, f := range fieldsOf(t) {
			fillConst(v.Field(f.Idx), x, depth-1)
		}
	}
}
