package main

// C09 — the real rtimer.TimeWheel against its model (coq/Conc/TimeWheel.v): when does the channel returned by
// After(timeout) close, and when does After panic.

import (
	"encoding/json"
	"fmt"
	"math/rand"
	"os"
	"path/filepath"
	"strings"
	"sync"
	"time"

	"github.com/TarsCloud/TarsGo/tars/util/rtimer"
)

type c09WheelCase struct {
	TMs       int   `json:"t_ms"`
	Size      int   `json:"size"`
	TimeoutMs int   `json:"timeout_ms"`
	Aligned   bool  `json:"aligned"` // After is called right after a tick of the wheel
	Panicked  bool  `json:"panicked"`
	ElapsedMs int64 `json:"elapsed_ms"`
	Tries     int   `json:"tries"`
}

func c09WheelRun(c *c09WheelCase) {
	for try := 0; try < 4; try++ {
		c.Tries = try + 1
		c.Panicked, c.ElapsedMs = false, 0
		func() {
			tw := rtimer.NewTimeWheel(time.Duration(c.TMs)*time.Millisecond, c.Size)
			defer tw.Stop()
			if c.Aligned {
				<-tw.After(0)
			}
			defer func() {
				if r := recover(); r != nil {
					c.Panicked = true
				}
			}()
			t0 := time.Now()
			ch := tw.After(time.Duration(c.TimeoutMs) * time.Millisecond)
			select {
			case <-ch:
				c.ElapsedMs = time.Since(t0).Milliseconds()
			case <-time.After(time.Duration(c.TimeoutMs+c.TMs+3000) * time.Millisecond):
				c.ElapsedMs = 1 << 30
			}
		}()
		if c.Panicked {
			return
		}
		// timing retry rule: late beyond the nominal window -> run again (early is never retried)
		pos := c.TimeoutMs / c.TMs
		if pos > 0 {
			pos--
		}
		if c.ElapsedMs <= int64((pos+1)*c.TMs+60) {
			return
		}
	}
}

func c09WheelCases(tier string, rng *rand.Rand) []c09WheelCase {
	var cs []c09WheelCase
	t := []int{100, 150}[rng.Intn(2)]
	size := 5 + rng.Intn(3)
	for _, k := range []int{0, 1, 2, 3, size - 1} {
		cs = append(cs, c09WheelCase{TMs: t, Size: size, TimeoutMs: k * t, Aligned: true})
	}
	cs = append(cs, c09WheelCase{TMs: t, Size: size, TimeoutMs: 2*t + t/2, Aligned: true})
	cs = append(cs, c09WheelCase{TMs: t, Size: size, TimeoutMs: t - 1, Aligned: true})
	cs = append(cs, c09WheelCase{TMs: t, Size: size, TimeoutMs: size*t - 1, Aligned: false})
	cs = append(cs, c09WheelCase{TMs: t, Size: size, TimeoutMs: size * t, Aligned: false})    // panics: timeout >= maxT
	cs = append(cs, c09WheelCase{TMs: t, Size: size, TimeoutMs: size*t + 17, Aligned: false}) // panics
	cs = append(cs, c09WheelCase{TMs: 20, Size: 21, TimeoutMs: 400, Aligned: true})           // the shape rtimer.After(400ms) builds
	cs = append(cs, c09WheelCase{TMs: 20, Size: 21, TimeoutMs: 400, Aligned: false})
	if tier == "thorough" {
		for i := 0; i < 12; i++ {
			cs = append(cs, c09WheelCase{TMs: t, Size: size, TimeoutMs: rng.Intn(size*t + 50), Aligned: rng.Intn(2) == 0})
		}
	}
	return cs
}

// c09WheelExtra runs the wheel cases and writes their Coq file
func c09WheelExtra(out, tier string, rng *rand.Rand, res *Result) {
	c09WheelEval(out, c09WheelCases(tier, rng), res)
}

// c09WheelReplay re-runs the time wheel case of a replay file (returns false if the replay is a scenario)
func c09WheelReplay(a Args) bool {
	b, err := os.ReadFile(a.Replay)
	if err != nil {
		return false
	}
	var rf struct {
		Case struct {
			W *c09WheelCase `json:"time_wheel"`
		} `json:"case"`
	}
	if json.Unmarshal(b, &rf) != nil || rf.Case.W == nil {
		return false
	}
	res := &Result{Property: "C09", Tier: a.Tier, Seed: a.Seed, Stats: map[string]interface{}{}, Failures: []Failure{}, Corr: "corr_C09_time_wheel"}
	c := *rf.Case.W
	c.Panicked, c.ElapsedMs, c.Tries = false, 0, 0
	c09WheelEval(a.Out, []c09WheelCase{c}, res)
	res.Evaluations = 1
	writeResult(a, res)
	return true
}

func c09WheelEval(out string, cs []c09WheelCase, res *Result) {
	var wg sync.WaitGroup
	for i := range cs {
		wg.Add(1)
		go func(i int) { defer wg.Done(); c09WheelRun(&cs[i]) }(i)
	}
	wg.Wait()
	var terms []string
	for _, c := range cs {
		terms = append(terms, fmt.Sprintf("(%d, %d%%nat, %d, %s, %d, %s)", c.TMs, c.Size, c.TimeoutMs, coqBool(c.Panicked), c.ElapsedMs, coqBool(c.Aligned)))
	}
	var sb strings.Builder
	sb.WriteString("From TarsV Require Import Conc.TimeWheel.\nFrom Coq Require Import List NArith.\nImport ListNotations.\nOpen Scope N_scope.\n")
	sb.WriteString("Definition cases : list wheel_case := [\n" + strings.Join(terms, ";\n") + "\n].\n")
	// rtimer.After as a whole: a panicking After must not leave the table of wheels locked
	var lterms []string
	for _, ns := range []int{0, 7, 19, 50000000, 400000000} {
		panicked, blocked := c09AfterLock(time.Duration(ns))
		lterms = append(lterms, fmt.Sprintf("(%d, %s, %s)", ns, coqBool(panicked), coqBool(blocked)))
	}
	sb.WriteString("Definition lcases : list lock_case := [\n" + strings.Join(lterms, ";\n") + "\n].\n")
	// indices continue after the scenario cases so that a mismatch is attributed to the right replay entry
	fmt.Fprintf(&sb, "Definition M := Eval vm_compute in (wheel_mismatches %d cases ++ lock_failing %d lcases).\nPrint M.\n", len(res.Cases), len(res.Cases)+len(cs))
	sb.WriteString("Definition CNT := Eval vm_compute in (N.of_nat (length cases + length lcases)).\nPrint CNT.\n")
	name := filepath.Join(out, "cases_C09_wheel.v")
	if err := os.WriteFile(name, []byte(sb.String()), 0o644); err != nil {
		fatal("write: %v", err)
	}
	res.CaseFiles = append(res.CaseFiles, name)
	for _, c := range cs {
		res.Cases = append(res.Cases, mustJSONc09(map[string]interface{}{"time_wheel": c}))
	}
	for _, t := range lterms {
		res.Cases = append(res.Cases, mustJSONc09(map[string]interface{}{"rtimer_after_then_after": t}))
	}
	res.Stats["time_wheel_cases"] = len(cs)
}

func mustJSONc09(v interface{}) []byte {
	b, err := json.Marshal(v)
	if err != nil {
		return []byte("null")
	}
	return b
}

// c09AfterLock calls rtimer.After(d) (recovering its panic) and then, in another goroutine, rtimer.After(50 ms):
// whether the first panicked and whether the second failed to return within two seconds.
func c09AfterLock(d time.Duration) (panicked, blocked bool) {
	first := make(chan bool, 1)
	go func() {
		defer func() { first <- recover() != nil }()
		rtimer.After(d)
	}()
	select {
	case panicked = <-first:
	case <-time.After(2 * time.Second):
		return false, true // the table was already locked
	}
	done := make(chan struct{})
	go func() { rtimer.After(50 * time.Millisecond); close(done) }()
	select {
	case <-done:
	case <-time.After(2 * time.Second):
		blocked = true
	}
	return
}
