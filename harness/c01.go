package main

// C01 — end-to-end call transparency through the generated proxy and dispatcher.
//
// Parent (`harness C01 ...`): generates cases, groups them by filter configuration, runs one child process per
// configuration (the filter registries are process-global), merges observations, renders the L2 case files.
// Child (`harness c01-child <in> <out>`, c01child.go): registers the recording pass-through filters of its
// configuration, starts an in-process server through the public API, calls through the generated proxy over
// loopback TCP (through a byte-forwarding relay that counts frames per request id), evaluates the L3 monitors.

import (
	"encoding/json"
	"fmt"
	"math/rand"
	"os"
	"os/exec"
	"path/filepath"
	"sort"
	"strings"
	"sync"
	"time"

	"github.com/TarsCloud/TarsGo/tars"
	"github.com/TarsCloud/TarsGo/tars/protocol/res/basef"
)

func init() {
	constGens = append(constGens, func() {
		fmt.Printf("Definition c_c01_TARSVERSION := (%d)%%Z.\n", basef.TARSVERSION)
		fmt.Printf("Definition c_c01_TARSNORMAL := (%d)%%Z.\n", basef.TARSNORMAL)
		fmt.Printf("Definition c_c01_TARSONEWAY := (%d)%%Z.\n", basef.TARSONEWAY)
		fmt.Printf("Definition c_c01_TARSSERVERSUCCESS := (%d)%%Z.\n", basef.TARSSERVERSUCCESS)
		fmt.Printf("Definition c_c01_MaxPackageLength := %d.\n", tars.MaxPackageLength)
	})
}

// c01Side is the filter registration of one side: legacy single filter, k middlewares, i pre and j post filters.
type c01Side struct {
	Legacy bool `json:"legacy"`
	LGen   int  `json:"lgen,omitempty"` // how many times the legacy single filter has been registered beyond the first (the last one counts)
	Mws    int  `json:"mws"`
	Pres   int  `json:"pres"`
	Posts  int  `json:"posts"`
}

func (s c01Side) String() string {
	var p []string
	if s.Legacy {
		if s.LGen > 0 {
			p = append(p, fmt.Sprintf("legacy#%d", s.LGen+1))
		} else {
			p = append(p, "legacy")
		}
	}
	if s.Mws > 0 {
		p = append(p, fmt.Sprintf("mw%d", s.Mws))
	}
	if s.Pres > 0 {
		p = append(p, fmt.Sprintf("pre%d", s.Pres))
	}
	if s.Posts > 0 {
		p = append(p, fmt.Sprintf("post%d", s.Posts))
	}
	if len(p) == 0 {
		return "none"
	}
	return strings.Join(p, "+")
}
func (s c01Side) coq() string {
	return fmt.Sprintf("{| c_legacy := %s; c_mws := %d; c_pres := %d; c_posts := %d |}", coqBool(s.Legacy), s.Mws, s.Pres, s.Posts)
}

type c01Cfg struct {
	C c01Side `json:"c"`
	S c01Side `json:"s"`
}

func (c c01Cfg) String() string { return "C:" + c.C.String() + "/S:" + c.S.String() }

// c01Call is one call through the proxy. Every value is derived from Seed, so the case is its own replay.
type c01Call struct {
	Fn      string `json:"fn"`
	Seed    int64  `json:"seed"`
	NOpts   int    `json:"nopts"`    // 0: no maps, 1: context, 2: context and status
	CtxKind int    `json:"ctx_kind"` // 0 nil map, 1 empty, 2 one entry, 3 several entries
	StKind  int    `json:"st_kind"`
	RCtx    int    `json:"rctx"` // response context set by the servant: 0 not set, 1 empty, 2 one entry, 3 several
	RSt     int    `json:"rst"`
	ErrKind int    `json:"err_kind"` // 0 success, 1 *tars.Error, 2 plain error, 3 *tars.Error with an empty message
	ErrCode int32  `json:"err_code"`
	ErrMsg  B      `json:"err_msg"`
	OneWay  bool   `json:"oneway"`
	Prior   bool   `json:"prior"` // the caller's out variables hold earlier values
	// the implementation sets every out parameter to the zero value of its type (empty vectors, maps, strings): with
	// Prior this is where content of a used out variable could survive (ResetDefault, ReadSliceInt8/Uint8)
	EmptyOuts bool `json:"empty_outs,omitempty"`
	// Big > 0: string and byte vector arguments / results are about that many bytes (packets beyond the read buffers)
	Big     int  `json:"big,omitempty"`
	NoModel bool `json:"no_model,omitempty"`
	// Slow > 0: the implementation takes that many ms; Timeout > 0: the caller's proxy waits that many ms for this call.
	// Slow > Timeout: the call must end with a client-side timeout (a step of a call history; monitors only)
	Slow    int `json:"slow_ms,omitempty"`
	Timeout int `json:"timeout_ms,omitempty"`
	// DeepPrior > 0: out variables of type Node hold a chain nested that many structs deep (2n-1 levels on the wire)
	DeepPrior int `json:"deep_prior,omitempty"`
	// observations, filled in by the child
	Sig    string   `json:"sig,omitempty"`    // Coq fsig
	Args   string   `json:"args,omitempty"`   // Coq list val (all arguments as passed; out positions: the caller's prior value)
	Opts   string   `json:"opts,omitempty"`   // Coq list (option smap)
	Plan   string   `json:"plan,omitempty"`   // Coq impl_res: what the implementation does for these inputs
	Ins    string   `json:"ins,omitempty"`    // Coq list val: the in arguments
	Res    string   `json:"res,omitempty"`    // Coq call_res observed at the call site
	Events string   `json:"events,omitempty"` // Coq option (list ev): observed filter/implementation events (sequential calls)
	Note   string   `json:"note,omitempty"`
	Ms     float64  `json:"ms,omitempty"`
	Fails  []string `json:"fails,omitempty"`
}

// c01Case is a batch of calls on one proxy: one call, or several concurrent callers.
// c01Burst: G goroutines x N small calls with unique payloads on one proxy (request-id allocation and reply routing
// under contention); L3 only
type c01Burst struct {
	G     int      `json:"g"`
	N     int      `json:"n"`
	Ms    float64  `json:"ms,omitempty"`
	Fails []string `json:"fails,omitempty"`
}

type c01Case struct {
	Cfg   c01Cfg    `json:"cfg"`
	Calls []c01Call `json:"calls"`
	Burst *c01Burst `json:"burst,omitempty"`
	// Stage: cases of one stage run in ONE child in order; the child registers the filters a case has beyond its
	// predecessor's just before running it (filters registered between calls)
	Stage string `json:"stage,omitempty"`
	// ObjQueueMax > 0: client setting objqueuemax of the child that runs this stage (calls of one proxy not yet settled)
	ObjQueueMax int `json:"objqueuemax,omitempty"`
	// Seg: re-segmentation mode of the relay while this case runs (see c01Seg)
	Seg int `json:"seg,omitempty"`
	Died  string    `json:"died,omitempty"`
}

type c01ChildOut struct {
	Cases    []c01Case `json:"cases"`
	Failures []Failure `json:"failures"`
	Stats    map[string]int
}

var c01QuickCfgs = []c01Cfg{
	{c01Side{}, c01Side{}},
	{c01Side{Legacy: true}, c01Side{Legacy: true}},
	{c01Side{Mws: 3}, c01Side{Mws: 2}},
	{c01Side{Pres: 2, Posts: 2}, c01Side{Pres: 1, Posts: 3}},
	{c01Side{Legacy: true, Mws: 2, Pres: 1, Posts: 1}, c01Side{Mws: 1, Pres: 1, Posts: 1}},
	{c01Side{}, c01Side{Posts: 1}},
	{c01Side{Pres: 3}, c01Side{Pres: 2}},
	{c01Side{Mws: 1}, c01Side{Legacy: true, Posts: 2}},
}

var c01ErrCodes = []int32{78, 1, 2, -1, -6, -7, 127, 128, -128, -129, 255, 256, 32767, 32768, -32768, -32769, 65535, 65536, 2147483647, 2147483646, -2147483648, -2147483647, 10000}

func c01RandCall(rng *rand.Rand, fn string) c01Call {
	c := c01Call{Fn: fn, Seed: rng.Int63()}
	c.NOpts = []int{0, 1, 2, 2}[rng.Intn(4)]
	c.CtxKind = 1 + rng.Intn(3)
	c.StKind = 1 + rng.Intn(3)
	// by default the caller's out variables already hold values (of every kind: scalars, strings, vectors, byte vectors,
	// maps, structs with optional members and fixed arrays), and now and then the implementation empties every out parameter
	c.Prior = rng.Intn(4) != 0
	c.EmptyOuts = rng.Intn(4) == 0
	if rng.Intn(3) > 0 {
		c.RCtx = rng.Intn(4)
		c.RSt = rng.Intn(4)
	}
	switch rng.Intn(7) {
	case 0:
		c.ErrKind = 1
	case 1:
		c.ErrKind = 2
	}
	if c.ErrKind != 0 {
		c.ErrCode = c01ErrCodes[rng.Intn(len(c01ErrCodes))]
		if rng.Intn(4) == 0 {
			c.ErrCode = int32(rng.Uint32())
			if c.ErrCode == 0 {
				c.ErrCode = 3
			}
		}
		c.ErrMsg = B(randString(rng))
		if len(c.ErrMsg) == 0 {
			c.ErrMsg = B("failed: \x00\xff é")
		}
	}
	return c
}

func c01Gen(tier string, rng *rand.Rand) []c01Case {
	c01InitFns()
	var out []c01Case
	cfgs := append([]c01Cfg(nil), c01QuickCfgs...)
	per := 2
	if tier == "thorough" {
		per = 10
		for i := 0; i < 14; i++ {
			side := func() c01Side {
				return c01Side{Legacy: rng.Intn(4) == 0, Mws: []int{0, 0, 1, 2, 5}[rng.Intn(5)], Pres: rng.Intn(4), Posts: rng.Intn(4)}
			}
			cfgs = append(cfgs, c01Cfg{side(), side()})
		}
	}
	for ci, cfg := range cfgs {
		one := func(c c01Call) { out = append(out, c01Case{Cfg: cfg, Calls: []c01Call{c}}) }
		// every function, `per` random calls each (values, maps, errors)
		for _, f := range c01Fns {
			for k := 0; k < per; k++ {
				one(c01RandCall(rng, f.Name))
			}
		}
		// the design-time defects and their neighbourhood, in every configuration
		e := c01RandCall(rng, "fInt")
		e.ErrKind, e.ErrCode, e.ErrMsg = 3, 78, nil
		one(e)
		e = c01RandCall(rng, "fString")
		e.ErrKind, e.ErrCode, e.ErrMsg = 1, 78, B("x")
		one(e)
		e = c01RandCall(rng, "ping")
		e.ErrKind, e.ErrCode, e.ErrMsg = 2, 1, B("plain failure")
		one(e)
		for _, nk := range [][4]int{{1, 0, 1, 2}, {1, 0, 1, 0}, {2, 0, 0, 3}, {2, 1, 0, 2}, {2, 2, 0, 1}, {2, 0, 0, 0}} {
			n := c01RandCall(rng, []string{"fInt", "note", "fMapSS"}[rng.Intn(3)])
			n.ErrKind = 0
			n.NOpts, n.CtxKind, n.StKind, n.RCtx = nk[0], nk[1], nk[2], nk[3]
			n.RSt = rng.Intn(4)
			if nk[0] == 2 && nk[2] == 0 && nk[1] != 0 {
				n.RCtx = rng.Intn(4)
			}
			one(n)
		}
		// a tars.Error whose code is 0, the protocol's success marker (known findings e2e/error-code-zero/...)
		if ci == 0 || ci == 3 || tier == "thorough" {
			for _, fn := range []string{"ping", "note", "fInt", "outsOnly", "fItem"} {
				z := c01RandCall(rng, fn)
				z.ErrKind, z.ErrCode, z.ErrMsg, z.OneWay = 1, 0, B("failed with code zero"), false
				one(z)
			}
		}
		// out variables that already hold values
		for k := 0; k < 3*per; k++ {
			p := c01RandCall(rng, []string{"fBytes", "fItem", "fBig", "fVecInt", "fMapSS", "mixed", "many", "fString", "outsOnly", "fUBytes", "fMapItem"}[rng.Intn(11)])
			p.Prior, p.ErrKind = true, 0
			one(p)
		}
		// ... and the implementation empties every out parameter (byte vectors, vectors, maps, struct members)
		for _, fn := range []string{"fBytes", "fUBytes", "fBig", "fItem", "mixed", "fVecInt", "fMapSS", "outsOnly"} {
			p := c01RandCall(rng, fn)
			p.Prior, p.ErrKind, p.EmptyOuts = true, 0, true
			one(p)
		}
		// an out variable in front of an in argument that holds a deeply nested value: the dispatcher has to pass over it;
		// around the skip depth limit (2n-1 levels against 512: 256 passes, 257 does not)
		if ci == 0 || tier == "thorough" {
			for _, n := range []int{1, 100, 255, 256, 257, 258, 300} {
				d := c01RandCall(rng, "deep")
				d.ErrKind, d.OneWay, d.Prior, d.DeepPrior = 0, false, true, n
				one(d)
			}
		}
		// one-way calls
		for _, fn := range []string{"note", "ping", "fItem", "many"} {
			for k := 0; k < per; k++ {
				w := c01RandCall(rng, fn)
				w.OneWay, w.ErrKind = true, 0
				if k%2 == 1 {
					w.ErrKind, w.ErrCode, w.ErrMsg = 1, 5, B("one-way failure")
				}
				one(w)
			}
		}
		// packets around and beyond the transports' read buffers (4096-byte client buffer, server buffer), alone and pipelined
		if ci%4 == 0 || tier == "thorough" {
			for _, n := range []int{4000, 4070, 4090, 4096, 4100, 8192, 12000, 66000} {
				b := c01RandCall(rng, []string{"fString", "fBytes", "fUBytes"}[rng.Intn(3)])
				b.ErrKind, b.OneWay, b.Big, b.EmptyOuts = 0, false, n+rng.Intn(9)-4, false
				b.NoModel = n > 4200 || ci != 0 // the model evaluation of large payloads is slow: elsewhere monitors only
				one(b)
			}
			m := c01RandCall(rng, "fBytes")
			m.ErrKind, m.OneWay, m.Big, m.EmptyOuts, m.NoModel = 0, false, 1<<20, false, true
			one(m)
			cs := c01Case{Cfg: cfg}
			for k := 0; k < 24; k++ {
				b := c01RandCall(rng, []string{"fString", "fBytes", "fUBytes"}[rng.Intn(3)])
				b.ErrKind, b.OneWay, b.Big, b.EmptyOuts = 0, false, 300+rng.Intn(3000), false
				if b.NOpts >= 1 && b.CtxKind == 0 {
					b.CtxKind = 1
				}
				b.NoModel = k >= 4 || ci != 0
				cs.Calls = append(cs.Calls, b)
			}
			out = append(out, cs)
		}
		// pipelined concurrent callers through the re-segmenting relay: every write ends 0..5 bytes into the next
		// frame's length header, single bytes, everything coalesced (both directions)
		if ci == 0 || ci == 4 || tier == "thorough" {
			for seg := 1; seg <= 8; seg++ {
				reps := 1
				if tier == "thorough" && seg != 7 {
					reps = 2
				}
				if tier != "thorough" && ci != 0 && (seg < 2 || seg > 4) { // quick: the second configuration only gets the cuts 1..3 bytes into the header
					continue
				}
				for r := 0; r < reps; r++ {
					cs := c01Case{Cfg: cfg, Seg: seg}
					for k := 0; k < 12; k++ {
						c := c01RandCall(rng, []string{"fInt", "fBool", "fLong", "fShort", "note", "fEnum", "fString"}[rng.Intn(7)])
						c.ErrKind = 0
						if c.NOpts >= 1 && c.CtxKind == 0 {
							c.CtxKind = 1
						}
						c.NOpts = []int{0, 0, 1}[rng.Intn(3)]
						c.OneWay = c.Fn == "note" && rng.Intn(2) == 0
						cs.Calls = append(cs.Calls, c)
					}
					out = append(out, cs)
				}
			}
		}
		// high-contention burst (one configuration in the quick tier, every configuration in the thorough tier)
		if ci == 0 || tier == "thorough" {
			out = append(out, c01Case{Cfg: cfg, Burst: &c01Burst{G: 64, N: 300}})
		}
		// concurrent callers on one proxy, unique payloads
		sizes := []int{2, 7, 64}
		if ci%2 == 1 {
			sizes = []int{1, 16, 33}
		}
		if tier == "thorough" {
			sizes = append(sizes, 3, 5, 64, 48)
		}
		for _, n := range sizes {
			cs := c01Case{Cfg: cfg}
			for k := 0; k < n; k++ {
				f := c01Fns[rng.Intn(len(c01Fns))]
				c := c01RandCall(rng, f.Name)
				if c.NOpts >= 1 && c.CtxKind == 0 {
					c.CtxKind = 1
				}
				if rng.Intn(8) == 0 {
					c.OneWay = true
				}
				cs.Calls = append(cs.Calls, c)
			}
			out = append(out, cs)
		}
	}
	out = append(out, c01StagedCases(tier, rng)...)
	out = append(out, c01HistoryCases(tier, rng)...)
	return out
}

// c01HistoryCases: call HISTORIES on one proxy under a small objqueuemax. Transparency is stated per call; what ties it
// to the proxy's state (queueLen, the pending table, the connection) is that after ANY history of settled calls -
// timed out on the client (T), failed in the implementation (E), one-way (W), successful (S) - and a drain wait, an
// ordinary call is still transparent: it reaches the implementation once and returns its results. One child per history.
func c01HistoryCases(tier string, rng *rand.Rand) []c01Case {
	histories := []string{"TTTTTSSWSES", "STETWTSTTSWES"}
	if tier == "thorough" {
		histories = append(histories, "TTTTTTTTTTTTSSS", "WTWTWTWTWTSES", "ETETETETETSWS", "SSSSTSSSSTSSSSTSSSSTSSSSTSS")
	}
	var out []c01Case
	for hi, h := range histories {
		name := fmt.Sprintf("history-%d-%s", hi, h)
		for _, st := range h {
			c := c01RandCall(rng, []string{"fInt", "fString", "fItem", "noArgs", "fMapSS"}[rng.Intn(5)])
			c.ErrKind, c.OneWay = 0, false
			if c.NOpts >= 1 && c.CtxKind == 0 {
				c.CtxKind = 1
			}
			switch st {
			case 'T':
				c.Slow, c.Timeout, c.NoModel = 500, 120, true
			case 'E':
				c.ErrKind, c.ErrCode, c.ErrMsg = 1, 78, B("history step failed")
			case 'W':
				c = c01RandCall(rng, "note")
				c.OneWay, c.ErrKind = true, 0
			}
			out = append(out, c01Case{Cfg: c01Cfg{}, Stage: name, ObjQueueMax: 3, Calls: []c01Call{c}})
		}
	}
	return out
}

// c01StagedCases: filters registered BETWEEN calls, on both sides, in every registration style. After each registration
// the very next calls (a normal one, a failing one, a one-way one, a few concurrent ones) must run through exactly the
// currently registered pass-through filters, in order, once each.
func c01StagedCases(tier string, rng *rand.Rand) []c01Case {
	type step func(c *c01Cfg)
	stages := map[string][]step{
		"server-middlewares": {func(c *c01Cfg) {}, func(c *c01Cfg) { c.S.Mws++ }, func(c *c01Cfg) { c.S.Mws++ }, func(c *c01Cfg) { c.S.Mws++ }},
		"client-middlewares": {func(c *c01Cfg) {}, func(c *c01Cfg) { c.C.Mws++ }, func(c *c01Cfg) { c.C.Mws++ }, func(c *c01Cfg) { c.C.Mws++ }},
		"pre-post-lists": {func(c *c01Cfg) {}, func(c *c01Cfg) { c.S.Pres++ }, func(c *c01Cfg) { c.S.Posts++ }, func(c *c01Cfg) { c.C.Pres++ },
			func(c *c01Cfg) { c.C.Posts++ }, func(c *c01Cfg) { c.S.Pres++; c.C.Posts++ }, func(c *c01Cfg) { c.S.Posts++; c.C.Pres++ }},
		"legacy-replaced": {func(c *c01Cfg) {}, func(c *c01Cfg) { c.S.Legacy = true }, func(c *c01Cfg) { c.S.LGen++ }, func(c *c01Cfg) { c.C.Legacy = true },
			func(c *c01Cfg) { c.C.LGen++ }, func(c *c01Cfg) { c.S.LGen++; c.C.LGen++ }},
		"lists-then-chain-then-legacy": {func(c *c01Cfg) { c.S.Pres, c.C.Posts = 1, 1 }, func(c *c01Cfg) { c.S.Mws++ }, func(c *c01Cfg) { c.C.Mws++ },
			func(c *c01Cfg) { c.S.Posts++; c.S.Mws++ }, func(c *c01Cfg) { c.S.Legacy = true }, func(c *c01Cfg) { c.C.Legacy = true }},
	}
	names := []string{"server-middlewares", "client-middlewares", "pre-post-lists", "legacy-replaced", "lists-then-chain-then-legacy"}
	var out []c01Case
	for _, name := range names {
		var cfg c01Cfg
		for _, st := range stages[name] {
			st(&cfg)
			mk := func(fn string) c01Call {
				c := c01RandCall(rng, fn)
				c.ErrKind, c.OneWay = 0, false
				if c.NOpts >= 1 && c.CtxKind == 0 {
					c.CtxKind = 1
				}
				return c
			}
			a := mk([]string{"fInt", "fString", "noArgs", "fItem"}[rng.Intn(4)])
			out = append(out, c01Case{Cfg: cfg, Stage: name, Calls: []c01Call{a}})
			b := mk("fBool")
			b.ErrKind, b.ErrCode, b.ErrMsg = 1, 78, B("staged failure")
			out = append(out, c01Case{Cfg: cfg, Stage: name, Calls: []c01Call{b}})
			w := mk("note")
			w.OneWay = true
			out = append(out, c01Case{Cfg: cfg, Stage: name, Calls: []c01Call{w}})
			if tier == "thorough" {
				cs := c01Case{Cfg: cfg, Stage: name}
				for k := 0; k < 5; k++ {
					cs.Calls = append(cs.Calls, mk([]string{"fInt", "fLong", "fString"}[rng.Intn(3)]))
				}
				out = append(out, cs)
			}
		}
	}
	return out
}

// c01RunAll groups the cases by configuration and runs one child process per configuration.
func c01RunAll(outDir string, cs []c01Case) [][]Failure {
	fails := make([][]Failure, len(cs))
	groups := map[string][]int{}
	var order []string
	for i := range cs {
		k := cs[i].Cfg.String()
		if cs[i].Stage != "" {
			k = "stage:" + cs[i].Stage
		}
		if _, ok := groups[k]; !ok {
			order = append(order, k)
		}
		groups[k] = append(groups[k], i)
	}
	var wg sync.WaitGroup
	var mu sync.Mutex
	sem := make(chan struct{}, 4)
	for gi, k := range order {
		idx := groups[k]
		wg.Add(1)
		go func(gi int, idx []int) {
			defer wg.Done()
			sem <- struct{}{}
			defer func() { <-sem }()
			todo := idx
			startupRetries := 0
			for attempt := 0; len(todo) > 0 && attempt < 4+startupRetries; attempt++ {
				batch := make([]c01Case, len(todo))
				for j, i := range todo {
					batch[j] = cs[i]
				}
				dir := filepath.Join(outDir, fmt.Sprintf("c01-g%d-a%d", gi, attempt))
				os.MkdirAll(dir, 0o755)
				res, done, diag := c01RunChild(dir, batch)
				if done < 0 { // the child could not bring up its server (port taken, ...): no case was run; start another
					if startupRetries < 5 {
						startupRetries++
						continue
					}
					done = 0
				}
				mu.Lock()
				for j := 0; j < done && j < len(res.Cases); j++ {
					cs[todo[j]] = res.Cases[j]
				}
				for _, f := range res.Failures {
					// failures carry the index of their case within the batch in Replay (int) when they belong to one
					ci := 0
					if m, ok := f.Replay.(map[string]interface{}); ok {
						if v, ok := m["case_index"].(float64); ok {
							ci = int(v)
						}
					}
					if ci >= 0 && ci < len(todo) {
						f.Replay = nil
						fails[todo[ci]] = append(fails[todo[ci]], f)
					}
				}
				if done < len(todo) {
					// the child died (or hung) while running case `done`
					i := todo[done]
					cs[i].Died = diag
					fails[i] = append(fails[i], Failure{Sig: "e2e/process-death/" + cs[i].Cfg.String(), Desc: "the process running server and client died or hung during this case: " + diag})
					todo = todo[done+1:]
				} else {
					todo = nil
				}
				mu.Unlock()
			}
		}(gi, idx)
	}
	wg.Wait()
	return fails
}

func c01RunChild(dir string, batch []c01Case) (res c01ChildOut, done int, diag string) {
	in := filepath.Join(dir, "in.json")
	out := filepath.Join(dir, "out.json")
	b, _ := json.Marshal(batch)
	os.WriteFile(in, b, 0o644)
	cmd := exec.Command(os.Args[0], "c01-child", in, out)
	cmd.Dir = dir
	cmd.Env = append(os.Environ(), "GOTRACEBACK=single")
	sb := &strings.Builder{}
	cmd.Stderr = &capWriter{sb: sb}
	if err := cmd.Start(); err != nil {
		fatal("c01 child: %v", err)
	}
	ch := make(chan error, 1)
	go func() { ch <- cmd.Wait() }()
	limit := time.Duration(120+2*len(batch)) * time.Second
	var werr error
	select {
	case werr = <-ch:
	case <-time.After(limit):
		cmd.Process.Kill()
		<-ch
		werr = fmt.Errorf("no result after %v", limit)
	}
	if ob, err := os.ReadFile(out); err == nil && json.Unmarshal(ob, &res) == nil && werr == nil {
		return res, len(batch), ""
	}
	if sb, err := os.ReadFile(out + ".startup"); err == nil {
		return res, -1, "server startup failed: " + string(sb)
	}
	// partial progress: cases completed before the death
	if pb, err := os.ReadFile(out + ".partial"); err == nil {
		json.Unmarshal(pb, &res)
	}
	done = len(res.Cases)
	se := sb.String()
	if len(se) > 1500 {
		se = se[len(se)-1500:]
	}
	return res, done, fmt.Sprintf("%v; stderr: %s", werr, se)
}

func c01Coq(c *c01Case) []string {
	var out []string
	for i := range c.Calls {
		k := &c.Calls[i]
		if k.Sig == "" || k.Res == "" {
			continue
		}
		out = append(out, fmt.Sprintf("{| k_cc := %s; k_sc := %s; k_sig := %s; k_args := %s; k_opts := %s; k_oneway := %s; k_ins := %s; k_plan := %s; k_res := %s; k_events := %s |}",
			c.Cfg.C.coq(), c.Cfg.S.coq(), k.Sig, k.Args, k.Opts, coqBool(k.OneWay), k.Ins, k.Plan, k.Res, k.Events))
	}
	return out
}

func c01Class(c *c01Case) string {
	if c.Burst != nil {
		return fmt.Sprintf("%s/burst%dx%d", c.Cfg, c.Burst.G, c.Burst.N)
	}
	if c.Stage != "" {
		return fmt.Sprintf("stage:%s/%s/calls%d", c.Stage, c.Cfg, len(c.Calls))
	}
	if c.Seg != 0 {
		return fmt.Sprintf("%s/seg%d/concurrent%d", c.Cfg, c.Seg, len(c.Calls))
	}
	if len(c.Calls) == 1 {
		k := c.Calls[0]
		return fmt.Sprintf("%s/%s/opts%d/err%d/ow%v/prior%v/rctx%d", c.Cfg, k.Fn, k.NOpts, k.ErrKind, k.OneWay, k.Prior, k.RCtx)
	}
	return fmt.Sprintf("%s/concurrent%d", c.Cfg, len(c.Calls))
}

func init() {
	props["C01"] = func(a Args) {
		rng := rand.New(rand.NewSource(a.Seed))
		res := &Result{Property: "C01", Tier: a.Tier, Seed: a.Seed, Stats: map[string]interface{}{}, Failures: []Failure{},
			Corr: "EndToEndCorr.c01_check (model call = observed result at the call site, observed filter/implementation event sequence, per call)",
			Rule: "one case = one batch of calls through the generated proxy of harness/idl/e2e.tars (every IDL type constructor in argument, out and return position) against an in-process server over loopback TCP, under one of the client/server filter configurations {none, legacy, k middlewares, i pre + j post, all registered}; calls vary values (boundary-dense), caller context/status maps (absent, nil, empty, one, several), response context/status, implementation errors (codes/messages), one-way, pre-filled out variables, 1-64 concurrent callers; class = (configuration, function, opts, error kind, one-way, prior, response context kind) or (configuration, number of concurrent callers)"}
		var cases []c01Case
		if a.Replay != "" {
			b, err := os.ReadFile(a.Replay)
			if err != nil {
				fatal("replay: %v", err)
			}
			var rf replayFile
			if err := json.Unmarshal(b, &rf); err != nil {
				fatal("replay: %v", err)
			}
			var c c01Case
			if err := json.Unmarshal(rf.Case, &c); err != nil {
				fatal("replay case: %v", err)
			}
			for i := range c.Calls { // observations are re-made
				k := &c.Calls[i]
				k.Sig, k.Args, k.Opts, k.Plan, k.Ins, k.Res, k.Events, k.Fails, k.Note = "", "", "", "", "", "", "", nil, ""
			}
			c.Died = ""
			cases = []c01Case{c}
		} else {
			cases = c01Gen(a.Tier, rng)
		}
		fails := c01RunAll(a.Out, cases)
		classes := map[string]int{}
		var terms []string
		ncalls, nconc := 0, 0
		for i := range cases {
			for _, f := range fails[i] {
				if f.Replay == nil {
					f.Replay = cases[i]
				}
				res.Failures = append(res.Failures, f)
			}
			classes[c01Class(&cases[i])]++
			ncalls += len(cases[i].Calls)
			if cases[i].Burst != nil {
				ncalls += cases[i].Burst.G * cases[i].Burst.N
			}
			if len(cases[i].Calls) > 1 {
				nconc++
			}
			for _, t := range c01Coq(&cases[i]) {
				terms = append(terms, t)
				b, _ := json.Marshal(cases[i])
				res.Cases = append(res.Cases, b)
			}
		}
		res.Evaluations = ncalls
		res.Distinct = len(classes)
		res.Stats["batches"] = len(cases)
		res.Stats["concurrent_batches"] = nconc
		res.Stats["class_histogram"] = topClasses(classes, 30)
		keys := make([]string, 0, len(classes))
		for k := range classes {
			keys = append(keys, k)
		}
		sort.Strings(keys)
		for i := 0; i < len(cases) && i < 3; i++ {
			res.Samples = append(res.Samples, cases[(i*7919)%len(cases)])
		}
		// shards of at most 150 cases and about 220 KB of case text (large payloads evaluate slowly; the driver runs the shards in parallel)
		for off, nsh := 0, 0; off < len(terms); nsh++ {
			end, size := off, 0
			for end < len(terms) && end-off < 150 && (end == off || size+len(terms[end]) <= 220000) {
				size += len(terms[end])
				end++
			}
			name := filepath.Join(a.Out, fmt.Sprintf("cases_C01_%d.v", nsh))
			var sb strings.Builder
			sb.WriteString("From TarsV Require Import Base.Hex Codec.GenCodec Codec.Corr Gen.Schemas Rpc.Filters Rpc.EndToEnd Rpc.EndToEndCorr.\nFrom Coq Require Import List NArith ZArith.\nImport ListNotations.\nOpen Scope N_scope.\n")
			sb.WriteString("Definition cases : list c01_case := [\n")
			sb.WriteString(strings.Join(terms[off:end], ";\n"))
			sb.WriteString("\n].\n")
			fmt.Fprintf(&sb, "Definition M := Eval vm_compute in (failing_from c01_check0 %d cases).\nPrint M.\n", off)
			sb.WriteString("Definition CNT := Eval vm_compute in (N.of_nat (length cases)).\nPrint CNT.\n")
			if err := os.WriteFile(name, []byte(sb.String()), 0o644); err != nil {
				fatal("write: %v", err)
			}
			res.CaseFiles = append(res.CaseFiles, name)
			off = end
		}
		writeResult(a, res)
	}
}
