package main

// C19 — the pool where the framework uses it: a real transport.TarsServer (tcp, MaxInvoke = W, QueueCap = Q) on a loopback
// port; every received packet becomes a job on the handler's pool (tcphandler.go: handleConn -> pool.JobQueue <- handler),
// the pool is built by tcpHandler.Listen and released by tcpHandler.Handle on shutdown. The protocol's Invoke logs
// start / end; the clients log the call before they write a packet; release-call is logged before Shutdown and
// release-return when Serve has returned. Same trace format, same monitors and the same Coq validator as the direct scenarios.

import (
	"context"
	"encoding/binary"
	"fmt"
	"io"
	"math/rand"
	"net"
	"runtime"
	"sync"
	"sync/atomic"
	"time"

	"github.com/TarsCloud/TarsGo/tars/protocol"
	"github.com/TarsCloud/TarsGo/tars/transport"
	"github.com/TarsCloud/TarsGo/tars/util/current"
	"github.com/TarsCloud/TarsGo/tars/util/rogger"
)

type c19Proto struct {
	lg      *c19Log
	running int32
	high    int32
	gate    chan struct{}
	gated   bool
	durOf   []int
	count   []int32 // invocations per job id
	ended   int32
	noReply bool // UDP: no response datagram
	gateA   chan struct{} // tcp-shutdown: the requests with id <= nA (they occupy the workers) wait on this gate, the others on gate
	nA      int
	parsed  int32 // complete packets the receive loops have cut out of their streams (each is handed to the pool right away)
}

func (p *c19Proto) Invoke(ctx context.Context, pkg []byte) []byte {
	current.SetPacketTypeFromContext(ctx, 0)
	id := 0
	if len(pkg) >= 8 {
		id = int(binary.BigEndian.Uint32(pkg[4:8]))
	}
	p.lg.add(c19KStart, id)
	if id < len(p.count) {
		atomic.AddInt32(&p.count[id], 1)
	}
	cur := atomic.AddInt32(&p.running, 1)
	for {
		h := atomic.LoadInt32(&p.high)
		if cur <= h || atomic.CompareAndSwapInt32(&p.high, h, cur) {
			break
		}
	}
	d := 0
	if id < len(p.durOf) {
		d = p.durOf[id]
	}
	switch d {
	case 1:
		runtime.Gosched()
	case 2:
		t0 := time.Now()
		for time.Since(t0) < 50*time.Microsecond {
			runtime.Gosched()
		}
	case 3:
		time.Sleep(2 * time.Millisecond)
	}
	if p.gated {
		if p.gateA != nil && id <= p.nA {
			<-p.gateA
		} else {
			<-p.gate
		}
	}
	atomic.AddInt32(&p.running, -1)
	p.lg.add(c19KEnd, id)
	atomic.AddInt32(&p.ended, 1)
	if p.noReply {
		return nil
	}
	return []byte{0, 0, 0, 4}
}
func (p *c19Proto) ParsePackage(b []byte) (int, int) {
	n, st := protocol.TarsRequest(b)
	if st == protocol.PackageFull {
		atomic.AddInt32(&p.parsed, 1)
		if n >= 8 && len(b) >= 8 {
			p.lg.add(c19KRead, int(binary.BigEndian.Uint32(b[4:8]))) // the receive loop has cut this request out of its stream
		}
	}
	return n, st
}
func (p *c19Proto) InvokeTimeout(pkg []byte) []byte    { return []byte{0, 0, 0, 4} }
func (p *c19Proto) GetCloseMsg() []byte                { return []byte{0, 0, 0, 4} }
func (p *c19Proto) DoClose(ctx context.Context)        {}

func c19RunTCP(sc c19Scenario) c19ChildOut {
	rogger.SetLevel(rogger.OFF)
	var out c19ChildOut
	var mu sync.Mutex
	fail := func(sig, desc string) {
		mu.Lock()
		out.Fails = append(out.Fails, Failure{Sig: sig, Desc: desc})
		mu.Unlock()
	}
	gated := sc.Mode == "tcp-saturated"
	if gated {
		sc.Jobs = (sc.W+1+sc.Q)/sc.Subs + 3 // more than workers + dispatcher + queue + one blocked receive loop per connection can absorb
	}
	if sc.Mode == "tcp-shutdown" {
		return c19RunTCPShutdown(sc)
	}
	if sc.Mode == "tcp-late-accept" {
		return c19RunTCPLateAccept(sc)
	}
	if sc.Mode == "tcp-two-servers" {
		return c19RunTCPTwoServers(sc)
	}
	total := sc.Subs * sc.Jobs
	lg := &c19Log{ev: make([]int64, 4*total+64)}
	rng := rand.New(rand.NewSource(sc.Seed))
	p := &c19Proto{lg: lg, gate: make(chan struct{}), gated: gated, durOf: make([]int, total+1), count: make([]int32, total+1)}
	for i := range p.durOf {
		d := sc.Dur
		if d == 4 {
			d = rng.Intn(4)
		}
		if gated && d == 3 {
			d = 2
		}
		p.durOf[i] = d
	}
	var phase atomic.Value
	phase.Store("listen")
	done := make(chan struct{})
	go func() {
		defer close(done)
		var ts *transport.TarsServer
		var addr string
		for try := 0; ; try++ {
			l, err := net.Listen("tcp", "127.0.0.1:0")
			if err != nil {
				out.Note = "skipped: no loopback listener: " + err.Error()
				return
			}
			addr = l.Addr().String()
			l.Close()
			ts = transport.NewTarsServer(p, &transport.TarsServerConf{Proto: "tcp", Address: addr, MaxInvoke: int32(sc.W), QueueCap: sc.Q,
				AcceptTimeout: 50 * time.Millisecond, ReadTimeout: 100 * time.Millisecond, IdleTimeout: time.Hour})
			if err := ts.Listen(); err == nil {
				break
			} else if try >= 5 {
				out.Note = "skipped: cannot listen: " + err.Error()
				return
			}
		}
		served := make(chan struct{})
		go func() { ts.Serve(); close(served) }()
		// clients
		phase.Store("send")
		conns := make([]net.Conn, 0, sc.Subs)
		defer func() {
			for _, c := range conns {
				c.Close()
			}
		}()
		var sendWG sync.WaitGroup
		for k := 0; k < sc.Subs; k++ {
			c, err := net.DialTimeout("tcp", addr, c19Slack)
			if err != nil {
				fail("C19/hang/tcp-dial", "cannot connect to the server: "+err.Error())
				return
			}
			conns = append(conns, c)
			go io.Copy(io.Discard, c)
			sendWG.Add(1)
			go func(k int, c net.Conn) {
				defer sendWG.Done()
				for i := 0; i < sc.Jobs; i++ {
					id := k*sc.Jobs + i + 1
					pkt := make([]byte, 12)
					binary.BigEndian.PutUint32(pkt[0:4], 12)
					binary.BigEndian.PutUint32(pkt[4:8], uint32(id))
					lg.add(c19KSubCall, id)
					c.SetWriteDeadline(time.Now().Add(4 * c19Slack))
					if _, err := c.Write(pkt); err != nil {
						fail("C19/hang/tcp-write", "writing a request failed: "+err.Error())
						return
					}
				}
			}(k, c)
		}
		wait := func(cond func() bool) bool {
			t0 := time.Now()
			for !cond() {
				if time.Since(t0) > c19Slack {
					return false
				}
				time.Sleep(200 * time.Microsecond)
			}
			return true
		}
		if gated {
			phase.Store("saturate")
			if !wait(func() bool { return atomic.LoadInt32(&p.running) >= int32(sc.W) }) {
				fail("C19/hang/saturate", fmt.Sprintf("only %d of W=%d workers picked up a request within %v", atomic.LoadInt32(&p.running), sc.W, c19Slack))
				close(p.gate)
				return
			}
			time.Sleep(20 * time.Millisecond) // room for a surplus invocation to show up
			close(p.gate)
		}
		phase.Store("jobs")
		sd := make(chan struct{})
		go func() { sendWG.Wait(); close(sd) }()
		select {
		case <-sd:
		case <-time.After(c19Slack):
			fail("C19/hang/tcp-send", fmt.Sprintf("the clients could not write their %d requests within %v", total, c19Slack))
			return
		}
		if !wait(func() bool { return atomic.LoadInt32(&p.ended) >= int32(total) }) {
			out.Complete = true
			fail("C19/hang/all-jobs-finished", fmt.Sprintf("only %d of %d received requests were handled within %v (W=%d Q=%d mode=%s)", atomic.LoadInt32(&p.ended), total, c19Slack, sc.W, sc.Q, sc.Mode))
			return
		}
		out.Complete = true
		// shutdown: Handle leaves its accept loop and releases the pool
		phase.Store("release")
		lg.add(c19KRelCall, 0)
		ctx, cancel := context.WithTimeout(context.Background(), 20*time.Millisecond)
		ts.Shutdown(ctx)
		cancel()
		select {
		case <-served:
		case <-time.After(c19Slack):
			fail("C19/hang/release-return-on-idle-pool", fmt.Sprintf("Serve did not return (pool not released) within %v after Shutdown (W=%d Q=%d)", c19Slack, sc.W, sc.Q))
			return
		}
		r := atomic.LoadInt32(&p.running)
		lg.add(c19KRelRet, 0)
		if r != 0 {
			fail("C19/release-returned-while-running", fmt.Sprintf("the pool was released while %d request(s) were being handled", r))
		}
		phase.Store("workers-stopped")
		if !wait(func() bool { return c19PoolGoroutines() == 0 }) {
			fail("C19/hang/worker-not-stopped", fmt.Sprintf("%d goroutine(s) of the pool still exist %v after the server released it (W=%d Q=%d mode=%s)", c19PoolGoroutines(), c19Slack, sc.W, sc.Q, sc.Mode))
		}
		time.Sleep(3 * time.Millisecond)
	}()
	select {
	case <-done:
	case <-time.After(5 * c19Slack):
		fail("C19/hang/scenario", fmt.Sprintf("scenario stuck in phase %v", phase.Load()))
	}
	out.Trace = lg.snapshot()
	out.HighWater = int(atomic.LoadInt32(&p.high))
	if out.Note == "" {
		out.Note = fmt.Sprint(phase.Load())
	}
	out.Fails = append(out.Fails, c19Monitor(sc, out.Trace, out.Complete, out.HighWater)...)
	if out.Complete {
		for id := 1; id <= total; id++ {
			if n := atomic.LoadInt32(&p.count[id]); n != 1 {
				fail("C19/job-not-run-exactly-once", fmt.Sprintf("request %d was handled %d times (W=%d Q=%d mode=%s)", id, n, sc.W, sc.Q, sc.Mode))
				break
			}
		}
	}
	return out
}

// c19RunTCPShutdown: graceful shutdown of a loaded server. Connection A's W requests occupy all workers (gate A), the
// connections B, C, ... have handed further requests to the pool, which wait in its JobQueue (QueueCap is large enough for
// all of them). Shutdown is called directly with a long context; gate A opens, later gate B. Every request that a receive
// loop handed to the pool before the shutdown has to be executed exactly once before the pool's goroutines are gone
// (Handle releases the pool only after every receive loop has returned, and a receive loop returns only when its requests
// have been handled).
func c19RunTCPShutdown(sc c19Scenario) c19ChildOut {
	var out c19ChildOut
	var mu sync.Mutex
	fail := func(sig, desc string) {
		mu.Lock()
		out.Fails = append(out.Fails, Failure{Sig: sig, Desc: desc})
		mu.Unlock()
	}
	nB := sc.Subs // connections with queued requests
	if nB < 1 {
		nB = 1
	}
	per := sc.Jobs
	if per < 5 {
		per = 5
	}
	total := sc.W + nB*per
	if sc.Q < nB*per { // everything handed over must fit: dispatcher's hand + queue
		sc.Q = nB * per
	}
	lg := &c19Log{ev: make([]int64, 4*total+64)}
	p := &c19Proto{lg: lg, gate: make(chan struct{}), gateA: make(chan struct{}), nA: sc.W, gated: true, durOf: make([]int, total+1), count: make([]int32, total+1)}
	var phase atomic.Value
	phase.Store("listen")
	done := make(chan struct{})
	go func() {
		defer close(done)
		var once sync.Once
		openAll := func() { once.Do(func() { close(p.gateA); close(p.gate) }) }
		defer openAll()
		var ts *transport.TarsServer
		var addr string
		for try := 0; ; try++ {
			l, err := net.Listen("tcp", "127.0.0.1:0")
			if err != nil {
				out.Note = "skipped: no loopback listener: " + err.Error()
				return
			}
			addr = l.Addr().String()
			l.Close()
			ts = transport.NewTarsServer(p, &transport.TarsServerConf{Proto: "tcp", Address: addr, MaxInvoke: int32(sc.W), QueueCap: sc.Q,
				AcceptTimeout: 50 * time.Millisecond, ReadTimeout: 100 * time.Millisecond, IdleTimeout: time.Hour})
			if err := ts.Listen(); err == nil {
				break
			} else if try >= 5 {
				out.Note = "skipped: cannot listen: " + err.Error()
				return
			}
		}
		served := make(chan struct{})
		go func() { ts.Serve(); close(served) }()
		wait := func(cond func() bool) bool {
			t0 := time.Now()
			for !cond() {
				if time.Since(t0) > c19Slack {
					return false
				}
				time.Sleep(200 * time.Microsecond)
			}
			return true
		}
		send := func(c net.Conn, from, n int) bool {
			for i := 0; i < n; i++ {
				id := from + i
				pkt := make([]byte, 12)
				binary.BigEndian.PutUint32(pkt[0:4], 12)
				binary.BigEndian.PutUint32(pkt[4:8], uint32(id))
				lg.add(c19KSubCall, id)
				c.SetWriteDeadline(time.Now().Add(c19Slack))
				if _, err := c.Write(pkt); err != nil {
					fail("C19/hang/tcp-write", "writing a request failed: "+err.Error())
					return false
				}
			}
			return true
		}
		dial := func() net.Conn {
			c, err := net.DialTimeout("tcp", addr, c19Slack)
			if err != nil {
				fail("C19/hang/tcp-dial", "cannot connect to the server: "+err.Error())
				return nil
			}
			go io.Copy(io.Discard, c)
			return c
		}
		// connection A: its W requests occupy every worker
		phase.Store("occupy")
		ca := dial()
		if ca == nil {
			return
		}
		defer ca.Close()
		if !send(ca, 1, sc.W) {
			return
		}
		if !wait(func() bool { return atomic.LoadInt32(&p.running) >= int32(sc.W) }) {
			fail("C19/hang/saturate", fmt.Sprintf("only %d of W=%d workers picked up a request within %v", atomic.LoadInt32(&p.running), sc.W, c19Slack))
			return
		}
		// connections B, C, ...: their requests are handed to the pool and wait there
		phase.Store("queue")
		for k := 0; k < nB; k++ {
			c := dial()
			if c == nil {
				return
			}
			defer c.Close()
			if !send(c, sc.W+1+k*per, per) {
				return
			}
		}
		if !wait(func() bool { return atomic.LoadInt32(&p.parsed) >= int32(total) }) {
			fail("C19/hang/tcp-send", fmt.Sprintf("the server read only %d of %d requests within %v", atomic.LoadInt32(&p.parsed), total, c19Slack))
			return
		}
		time.Sleep(20 * time.Millisecond) // the send into the (roomy) JobQueue follows the parse immediately
		out.Complete = true               // from here on every one of the [total] requests is in the pool
		// graceful shutdown
		phase.Store("shutdown")
		lg.add(c19KRelCall, 0)
		sctx, cancel := context.WithTimeout(context.Background(), 6*c19Slack)
		defer cancel()
		go ts.Shutdown(sctx)
		// the receive loops see the shutdown within 100 ms and then poll their in-flight counter every 500 ms: give the loops of
		// B, C, ... a full poll while all their requests are still queued, then let A's requests finish and give A's loop a poll
		// while the first queued request occupies the worker again (gate B still closed)
		time.Sleep(900 * time.Millisecond)
		close(p.gateA)
		time.Sleep(800 * time.Millisecond)
		phase.Store("drain")
		once.Do(func() { close(p.gate) }) // the queued requests may run now
		select {
		case <-served:
		case <-time.After(c19Slack):
			fail("C19/hang/release-return-on-idle-pool", fmt.Sprintf("Serve did not return within %v after Shutdown although every request could finish (W=%d Q=%d, %d connections)", c19Slack, sc.W, sc.Q, nB+1))
			return
		}
		r := atomic.LoadInt32(&p.running)
		lg.add(c19KRelRet, 0)
		if r != 0 {
			fail("C19/release-returned-while-running", fmt.Sprintf("the pool was released while %d request(s) were being handled", r))
		}
		phase.Store("workers-stopped")
		if !wait(func() bool { return c19PoolGoroutines() == 0 }) {
			fail("C19/hang/worker-not-stopped", fmt.Sprintf("%d goroutine(s) of the pool still exist %v after the server released it (W=%d Q=%d mode=%s)", c19PoolGoroutines(), c19Slack, sc.W, sc.Q, sc.Mode))
		}
		// the pool is gone: whatever was handed to it and has not run never will
		if e := atomic.LoadInt32(&p.ended); e < int32(total) {
			fail("C19/submitted-job-never-run", fmt.Sprintf("graceful shutdown: %d of the %d requests handed to the pool before Shutdown were never executed — the pool was released while they were queued (W=%d Q=%d, %d connections with %d queued requests each)", int32(total)-e, total, sc.W, sc.Q, nB, per))
		}
		time.Sleep(3 * time.Millisecond)
	}()
	select {
	case <-done:
	case <-time.After(8 * c19Slack):
		fail("C19/hang/scenario", fmt.Sprintf("scenario stuck in phase %v", phase.Load()))
	}
	out.Trace = lg.snapshot()
	out.HighWater = int(atomic.LoadInt32(&p.high))
	if out.Note == "" {
		out.Note = fmt.Sprint(phase.Load())
	}
	out.Fails = append(out.Fails, c19Monitor(sc, out.Trace, out.Complete, out.HighWater)...)
	return out
}

// c19RunTCPLateAccept: a connection accepted at the very moment of shutdown. The accept loop sits in Accept (no accept
// time-out configured); isClosed is stored (first statement of Shutdown, hook VerifC12StoreClosed), then a client connects
// and sends its requests at once: the accept loop takes this one connection, sees the flag and goes to its shutdown tail
// while the new connection goroutine is only just starting (with GOMAXPROCS = 1 it has not run at all). Then the real
// Shutdown is called. Every request the server has READ must be executed exactly once before the pool's goroutines are
// gone — the receive loop of that last connection has to be registered with recvDone before the accept loop can leave.
func c19RunTCPLateAccept(sc c19Scenario) c19ChildOut {
	var out c19ChildOut
	var mu sync.Mutex
	fail := func(sig, desc string) {
		mu.Lock()
		out.Fails = append(out.Fails, Failure{Sig: sig, Desc: desc})
		mu.Unlock()
	}
	nLate := sc.Jobs
	if nLate < 1 {
		nLate = 1
	}
	total := nLate
	lg := &c19Log{ev: make([]int64, 4*total+64)}
	p := &c19Proto{lg: lg, gate: make(chan struct{}), durOf: make([]int, total+1), count: make([]int32, total+1)}
	for i := range p.durOf {
		p.durOf[i] = sc.Dur
	}
	var phase atomic.Value
	phase.Store("listen")
	done := make(chan struct{})
	go func() {
		defer close(done)
		var ts *transport.TarsServer
		var addr string
		for try := 0; ; try++ {
			l, err := net.Listen("tcp", "127.0.0.1:0")
			if err != nil {
				out.Note = "skipped: no loopback listener: " + err.Error()
				return
			}
			addr = l.Addr().String()
			l.Close()
			ts = transport.NewTarsServer(p, &transport.TarsServerConf{Proto: "tcp", Address: addr, MaxInvoke: int32(sc.W), QueueCap: sc.Q,
				ReadTimeout: 100 * time.Millisecond, IdleTimeout: time.Hour})
			if err := ts.Listen(); err == nil {
				break
			} else if try >= 5 {
				out.Note = "skipped: cannot listen: " + err.Error()
				return
			}
		}
		served := make(chan struct{})
		go func() { ts.Serve(); close(served) }()
		wait := func(cond func() bool) bool {
			t0 := time.Now()
			for !cond() {
				if time.Since(t0) > c19Slack {
					return false
				}
				time.Sleep(200 * time.Microsecond)
			}
			return true
		}
		pkt := func(id int) []byte {
			b := make([]byte, 12)
			binary.BigEndian.PutUint32(b[0:4], 12)
			binary.BigEndian.PutUint32(b[4:8], uint32(id))
			return b
		}
		// no connection yet (a registered receive loop would keep recvDone above zero and hide the order of Add and go):
		// give the accept loop time to block in Accept
		phase.Store("warm-up")
		time.Sleep(100 * time.Millisecond)
		// the moment of shutdown
		phase.Store("late-accept")
		lg.add(c19KRelCall, 0)
		transport.VerifC12StoreClosed(ts)
		cb, err := net.DialTimeout("tcp", addr, c19Slack)
		if err != nil {
			fail("C19/hang/tcp-dial", "cannot connect to the server at the moment of shutdown: "+err.Error())
			return
		}
		defer cb.Close()
		go io.Copy(io.Discard, cb)
		burst := []byte{}
		for i := 0; i < nLate; i++ {
			lg.add(c19KSubCall, 1+i)
			burst = append(burst, pkt(1+i)...)
		}
		cb.Write(burst)
		sctx, cancel := context.WithTimeout(context.Background(), 6*c19Slack)
		defer cancel()
		go ts.Shutdown(sctx)
		phase.Store("drain")
		select {
		case <-served:
		case <-time.After(c19Slack):
			fail("C19/hang/release-return-on-idle-pool", fmt.Sprintf("Serve did not return within %v after the shutdown (W=%d Q=%d GOMAXPROCS=%d)", c19Slack, sc.W, sc.Q, sc.Procs))
			return
		}
		r := atomic.LoadInt32(&p.running)
		lg.add(c19KRelRet, 0)
		if r != 0 {
			fail("C19/release-returned-while-running", fmt.Sprintf("the pool was released while %d request(s) were being handled", r))
		}
		phase.Store("workers-stopped")
		if !wait(func() bool { return c19PoolGoroutines() == 0 }) {
			fail("C19/hang/worker-not-stopped", fmt.Sprintf("%d goroutine(s) of the pool still exist %v after the server released it (W=%d Q=%d mode=%s)", c19PoolGoroutines(), c19Slack, sc.W, sc.Q, sc.Mode))
		}
		// a receive loop that is still alive would read within its 100 ms window: give it that, then every request READ must have run
		time.Sleep(250 * time.Millisecond)
		read, ran := atomic.LoadInt32(&p.parsed), atomic.LoadInt32(&p.ended)
		out.Note = fmt.Sprintf("read %d of %d, executed %d", read, total, ran)
		if ran < read {
			fail("C19/submitted-job-never-run", fmt.Sprintf("a connection accepted at the moment of shutdown: the server read %d request(s) and executed only %d — the pool was released before that connection's receive loop had registered (W=%d Q=%d GOMAXPROCS=%d, %d request(s) on the late connection)", read, ran, sc.W, sc.Q, sc.Procs, nLate))
		}
		for id := 1; id <= total; id++ {
			if n := atomic.LoadInt32(&p.count[id]); n > 1 {
				fail("C19/job-started-twice", fmt.Sprintf("request %d was handled %d times", id, n))
			}
		}
	}()
	select {
	case <-done:
	case <-time.After(8 * c19Slack):
		fail("C19/hang/scenario", fmt.Sprintf("scenario stuck in phase %v", phase.Load()))
	}
	out.Trace = lg.snapshot()
	out.HighWater = int(atomic.LoadInt32(&p.high))
	if out.Note == "" {
		out.Note = fmt.Sprint(phase.Load())
	}
	out.Fails = append(out.Fails, c19Monitor(sc, out.Trace, false, out.HighWater)...)
	return out
}

// c19RunTCPTwoServers: two pooled TCP servers in ONE process with different MaxInvoke (W and W2). Each has its own pool:
// under a burst against a gated Invoke each server has exactly its own MaxInvoke handlers inside Invoke; after the first
// server has been shut down (its pool released) the second one still executes every request exactly once, and its own
// shutdown returns. One trace for both (job numbers are disjoint); release events are not part of it (there are two pools).
func c19RunTCPTwoServers(sc c19Scenario) c19ChildOut {
	var out c19ChildOut
	var mu sync.Mutex
	fail := func(sig, desc string) {
		mu.Lock()
		out.Fails = append(out.Fails, Failure{Sig: sig, Desc: desc})
		mu.Unlock()
	}
	ws := [2]int{sc.W, sc.W2}
	if ws[1] < 1 {
		ws[1] = 1
	}
	burst := [2]int{ws[0] + 1 + sc.Q + 3, ws[1] + 1 + sc.Q + 3}
	const after = 4 // requests to the second server after the first one is gone
	total := burst[0] + burst[1] + after
	lg := &c19Log{ev: make([]int64, 4*total+64)}
	var ps [2]*c19Proto
	for i := range ps {
		ps[i] = &c19Proto{lg: lg, gate: make(chan struct{}), gated: true, durOf: make([]int, total+1), count: make([]int32, total+1)}
		for k := range ps[i].durOf {
			ps[i].durOf[k] = sc.Dur % 3
		}
	}
	var phase atomic.Value
	phase.Store("listen")
	done := make(chan struct{})
	go func() {
		defer close(done)
		var once [2]sync.Once
		open := func(i int) { once[i].Do(func() { close(ps[i].gate) }) }
		defer open(0)
		defer open(1)
		var tss [2]*transport.TarsServer
		var addrs [2]string
		var served [2]chan struct{}
		for i := 0; i < 2; i++ {
			for try := 0; ; try++ {
				l, err := net.Listen("tcp", "127.0.0.1:0")
				if err != nil {
					out.Note = "skipped: no loopback listener: " + err.Error()
					return
				}
				addrs[i] = l.Addr().String()
				l.Close()
				tss[i] = transport.NewTarsServer(ps[i], &transport.TarsServerConf{Proto: "tcp", Address: addrs[i], MaxInvoke: int32(ws[i]), QueueCap: sc.Q,
					AcceptTimeout: 50 * time.Millisecond, ReadTimeout: 100 * time.Millisecond, IdleTimeout: time.Hour})
				if err := tss[i].Listen(); err == nil {
					break
				} else if try >= 5 {
					out.Note = "skipped: cannot listen: " + err.Error()
					return
				}
			}
			served[i] = make(chan struct{})
			go func(i int) { tss[i].Serve(); close(served[i]) }(i)
		}
		wait := func(cond func() bool) bool {
			t0 := time.Now()
			for !cond() {
				if time.Since(t0) > c19Slack {
					return false
				}
				time.Sleep(200 * time.Microsecond)
			}
			return true
		}
		var conns [2]net.Conn
		send := func(i, from, n int) bool {
			for k := 0; k < n; k++ {
				id := from + k
				pkt := make([]byte, 12)
				binary.BigEndian.PutUint32(pkt[0:4], 12)
				binary.BigEndian.PutUint32(pkt[4:8], uint32(id))
				lg.add(c19KSubCall, id)
				conns[i].SetWriteDeadline(time.Now().Add(c19Slack))
				if _, err := conns[i].Write(pkt); err != nil {
					fail("C19/hang/tcp-write", "writing a request failed: "+err.Error())
					return false
				}
			}
			return true
		}
		phase.Store("saturate")
		for i := 0; i < 2; i++ {
			c, err := net.DialTimeout("tcp", addrs[i], c19Slack)
			if err != nil {
				fail("C19/hang/tcp-dial", "cannot connect to a server: "+err.Error())
				return
			}
			defer c.Close()
			go io.Copy(io.Discard, c)
			conns[i] = c
		}
		if !send(0, 1, burst[0]) || !send(1, burst[0]+1, burst[1]) {
			return
		}
		for i := 0; i < 2; i++ {
			i := i
			if !wait(func() bool { return atomic.LoadInt32(&ps[i].running) >= int32(ws[i]) }) {
				fail("C19/hang/saturate", fmt.Sprintf("two pooled servers in one process: only %d handlers of server %d (MaxInvoke=%d, the other server has %d) are inside Invoke within %v under a burst of %d requests", atomic.LoadInt32(&ps[i].running), i+1, ws[i], ws[1-i], c19Slack, burst[i]))
				return
			}
		}
		time.Sleep(30 * time.Millisecond)
		for i := 0; i < 2; i++ {
			if r := atomic.LoadInt32(&ps[i].running); r > int32(ws[i]) {
				fail("C19/parallelism-exceeded", fmt.Sprintf("two pooled servers in one process: %d handlers of server %d are inside Invoke at the same time, its MaxInvoke is %d (the other server's is %d)", r, i+1, ws[i], ws[1-i]))
			}
		}
		open(0)
		open(1)
		phase.Store("jobs")
		if !wait(func() bool {
			return atomic.LoadInt32(&ps[0].ended) >= int32(burst[0]) && atomic.LoadInt32(&ps[1].ended) >= int32(burst[1])
		}) {
			out.Complete = true
			fail("C19/hang/all-jobs-finished", fmt.Sprintf("only %d+%d of %d+%d requests were handled within %v", atomic.LoadInt32(&ps[0].ended), atomic.LoadInt32(&ps[1].ended), burst[0], burst[1], c19Slack))
			return
		}
		// the first server goes away
		phase.Store("shutdown-1")
		ctx, cancel := context.WithTimeout(context.Background(), 20*time.Millisecond)
		tss[0].Shutdown(ctx)
		cancel()
		select {
		case <-served[0]:
		case <-time.After(c19Slack):
			fail("C19/hang/release-return-on-idle-pool", fmt.Sprintf("Serve of the first server did not return within %v after Shutdown", c19Slack))
			return
		}
		// the second one goes on
		phase.Store("second-goes-on")
		out.Complete = true
		if !send(1, burst[0]+burst[1]+1, after) {
			return
		}
		if !wait(func() bool { return atomic.LoadInt32(&ps[1].ended) >= int32(burst[1]+after) }) {
			fail("C19/hang/all-jobs-finished", fmt.Sprintf("two pooled servers in one process: after the first server was shut down only %d of %d requests sent to the second one were executed within %v (MaxInvoke %d and %d, QueueCap %d) — its pool does not run them", atomic.LoadInt32(&ps[1].ended)-int32(burst[1]), after, c19Slack, ws[0], ws[1], sc.Q))
			return
		}
		phase.Store("shutdown-2")
		ctx2, cancel2 := context.WithTimeout(context.Background(), 20*time.Millisecond)
		tss[1].Shutdown(ctx2)
		cancel2()
		select {
		case <-served[1]:
		case <-time.After(c19Slack):
			fail("C19/hang/release-return-on-idle-pool", fmt.Sprintf("Serve of the second server did not return within %v after Shutdown (its Release does not return)", c19Slack))
			return
		}
		phase.Store("workers-stopped")
		if !wait(func() bool { return c19PoolGoroutines() == 0 }) {
			fail("C19/hang/worker-not-stopped", fmt.Sprintf("%d goroutine(s) of a pool still exist %v after both servers released theirs", c19PoolGoroutines(), c19Slack))
		}
		time.Sleep(3 * time.Millisecond)
	}()
	select {
	case <-done:
	case <-time.After(8 * c19Slack):
		fail("C19/hang/scenario", fmt.Sprintf("scenario stuck in phase %v", phase.Load()))
	}
	out.Trace = lg.snapshot()
	out.HighWater = int(atomic.LoadInt32(&ps[0].high) + atomic.LoadInt32(&ps[1].high))
	for i := 0; i < 2; i++ {
		if h := int(atomic.LoadInt32(&ps[i].high)); h > ws[i] {
			fail("C19/parallelism-exceeded", fmt.Sprintf("two pooled servers in one process: server %d had %d handlers inside Invoke at the same time, its MaxInvoke is %d", i+1, h, ws[i]))
		}
	}
	if out.Note == "" {
		out.Note = fmt.Sprint(phase.Load())
	}
	both := sc
	both.W = ws[0] + ws[1]
	out.Fails = append(out.Fails, c19Monitor(both, out.Trace, out.Complete, out.HighWater)...)
	if out.Complete && fmt.Sprint(phase.Load()) == "workers-stopped" {
		for id := 1; id <= total; id++ {
			if n := atomic.LoadInt32(&ps[0].count[id]) + atomic.LoadInt32(&ps[1].count[id]); n != 1 {
				fail("C19/job-not-run-exactly-once", fmt.Sprintf("request %d was handled %d times (two servers, MaxInvoke %d and %d)", id, n, ws[0], ws[1]))
				break
			}
		}
	}
	return out
}
