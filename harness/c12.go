package main

// C12 — graceful shutdown answers every request already received; close notification; Shutdown returns when
// drained or when its context expires. Parent side: scenarios, one child process per scenario (c12child.go),
// L3 monitors on the recorded observations, and the observations rendered as a trace for the Coq model's `accepts`.

import (
	"bytes"
	"encoding/json"
	"fmt"
	"math/rand"
	"os"
	"os/exec"
	"path/filepath"
	"sort"
	"strings"
	"sync/atomic"
	"time"
)

type c12Case struct {
	Scn     c12Scn   `json:"scn"`
	Obs     *c12Obs  `json:"obs,omitempty"`
	Retries []string `json:"retries,omitempty"` // timing monitors: what the immediate re-runs showed
}

const (
	c12SlackMs   = 2000 // scheduling slack on every duration bound
	c12PollMs    = 500  // Shutdown's and recv's ticker period (fixed in the code)
	c12DrainTail = 2 * c12PollMs
)

var c12Dir string
var c12Seq int32

func c12RunChild(scn c12Scn) *c12Obs {
	for attempt := 0; attempt < 3; attempt++ {
		d := filepath.Join(c12Dir, fmt.Sprintf("c12-%d", atomic.AddInt32(&c12Seq, 1)))
		os.MkdirAll(d, 0o755)
		b, _ := json.Marshal(scn)
		sp := filepath.Join(d, "scn.json")
		os.WriteFile(sp, b, 0o644)
		cmd := exec.Command(os.Args[0], "c12-child", "out="+d, "replay="+sp)
		var errb bytes.Buffer
		cmd.Stdout, cmd.Stderr = nil, &errb
		if err := cmd.Start(); err != nil {
			continue
		}
		done := make(chan error, 1)
		go func() { done <- cmd.Wait() }()
		how := ""
		select {
		case werr := <-done:
			how = fmt.Sprintf("exited: %v", werr)
		case <-time.After(time.Duration(scn.GraceMs)*time.Millisecond + 40*time.Second):
			cmd.Process.Kill()
			<-done
			how = "killed after its time limit"
		}
		var o c12Obs
		ob, err := os.ReadFile(filepath.Join(d, "obs.json"))
		os.RemoveAll(d)
		if err != nil || json.Unmarshal(ob, &o) != nil {
			tail := errb.String()
			if len(tail) > 600 {
				tail = tail[len(tail)-600:]
			}
			o = c12Obs{Scn: scn, Err: "child produced no observations (" + how + "); stderr tail: " + tail, ReturnedT: -1}
			return &o // not retried: a server that dies or hangs in its shutdown is a finding
		}
		if o.Err == "" {
			return &o
		}
		if attempt == 2 {
			return &o
		}
	}
	return &c12Obs{Scn: scn, Err: "child could not be started", ReturnedT: -1}
}

type c12Key struct{ c, r int }

// c12Monitor judges one recorded shutdown; timing lists the signatures that depend on wall-clock bounds.
func c12Monitor(o *c12Obs) (fails []Failure, timing map[string]bool) {
	timing = map[string]bool{}
	scn := o.Scn
	add := func(sig, desc string, isTiming bool) {
		fails = append(fails, Failure{Sig: sig, Desc: desc})
		if isTiming {
			timing[sig] = true
		}
	}
	if strings.HasPrefix(o.Err, "stalled:") {
		return // three attempts, each frozen for a second or more: skipped (counted in stats), not judged
	}
	if o.StoppedEarly != "" {
		add("shutdown/accept-loop-stopped-before-shutdown", "after one transient Accept error (EMFILE while a client was connecting, RLIMIT_NOFILE lowered for 40 ms) the server no longer took connections / tars.Run returned although no shutdown had been requested: "+o.StoppedEarly, false)
		return
	}
	if o.Err != "" {
		add("shutdown/scenario-did-not-run", "the scenario could not be run: "+o.Err, false)
		return
	}
	pos := map[string]int{}
	first := func(k string, c, r int) int {
		if p, ok := pos[fmt.Sprintf("%s/%d/%d", k, c, r)]; ok {
			return p
		}
		return -1
	}
	count := map[string]int{}
	readN := map[int]int{}
	evT := map[string]int64{}
	for i, e := range o.Events {
		key := fmt.Sprintf("%s/%d/%d", e.K, e.C, e.R)
		if e.K == "readall" {
			readN[e.C] = e.R
			continue
		}
		if _, ok := pos[key]; !ok {
			pos[key] = i
			evT[key] = e.T
		}
		count[key]++
	}
	if o.ReturnedT < 0 {
		what := "tars.Run (shutdown by signal)"
		if scn.Signal == "DIRECT" || scn.Signal == "EARLY" {
			what = "TarsServer.Shutdown(ctx)"
		}
		add("shutdown/never-returns", fmt.Sprintf("%s had not returned %d ms after the end of its grace period / context of %d ms", what, 6000, scn.GraceMs), false)
		return
	}
	dur := o.ReturnedT - o.TriggerT
	drained := dur < int64(scn.GraceMs)-150
	posRet := first("returned", 0, 0)
	late := len(scn.Conns)
	expectCtx := false
	running := 0 // handlers running when Shutdown returned
	for _, e := range o.Events[:posRet] {
		if e.K == "start" {
			running++
		} else if e.K == "end" {
			running--
		}
	}
	var lastResp int64 = o.TriggerT
	for ci, cs := range scn.Conns {
		if cs.Half {
			expectCtx = true
		}
		if cs.Abort {
			continue // the client reset this connection itself: it observes nothing of the server any more
		}
		if cs.ReadDelayMs < 0 {
			// a client that never reads: its bulk response blocks in Write, the connection never drains and the
			// client observes nothing
			expectCtx = true
			continue
		}
		all := append(append([]int{}, cs.Pre...), cs.Post...)
		if scn.Race != "" && ci == 0 {
			all = append(all, 0) // the request sent into the forced window
		}
		for r, d := range all {
			if d < 0 || d >= scn.GraceMs {
				expectCtx = true
			}
			started := first("start", ci, r) >= 0
			known := r < readN[ci] || started
			pr := first("resp", ci, r)
			if pr >= 0 && evT[fmt.Sprintf("resp/%d/%d", ci, r)] > lastResp {
				lastResp = evT[fmt.Sprintf("resp/%d/%d", ci, r)]
			}
			if count[fmt.Sprintf("resp/%d/%d", ci, r)] > 1 {
				add("shutdown/duplicate-response", fmt.Sprintf("request %d of connection %d was answered %d times", r, ci, count[fmt.Sprintf("resp/%d/%d", ci, r)]), false)
			}
			if !known || pr >= 0 {
				continue
			}
			ended := first("end", ci, r) >= 0
			if !drained && started && !ended {
				continue // its handler was still running when the grace period ended
			}
			if !drained && !started && scn.Pool > 0 && running >= scn.Pool {
				continue // every worker was still busy when the grace period ended
			}
			how := "the connection stayed open"
			if first("eof", ci, 0) >= 0 {
				how = "the server closed the connection"
			}
			if scn.Race != "" && ci == 0 && r == len(cs.Pre) {
				add("shutdown/race/"+scn.Race+"/request-lost", fmt.Sprintf("pool %d: request %d of connection 0 was read by the server (conn.Read returned it, the receive loop was held before numInvoke++); the shutdown poller then saw numInvoke = 0, wrote the close message and closed the connection; the handler ran afterwards (started: %v, returned: %v) and its response was lost; %s; Shutdown returned after %d ms",
					scn.Pool, r, started, ended, how, dur), false)
			} else if scn.Pool > 0 && !started {
				add("shutdown/pool>0/queued-jobs-dropped", fmt.Sprintf("pool %d: request %d of connection %d had been read by the server (its bytes had left the socket) but its handler was never started and no response came; %s; shutdown took %d ms of a %d ms grace period",
					scn.Pool, r, ci, how, dur, scn.GraceMs), false)
			} else {
				add("shutdown/read-request-unanswered", fmt.Sprintf("pool %d: request %d of connection %d was read by the server (handler started: %v, returned: %v) but no response arrived; %s; shutdown took %d ms (grace %d ms)",
					scn.Pool, r, ci, started, ended, how, dur, scn.GraceMs), false)
			}
		}
		if first("notify", ci, 0) < 0 {
			add("shutdown/close-notification-missing", fmt.Sprintf("connection %d was open when the listener went down but never received the close notification (request id 0, _reconnect_); eof seen: %v", ci, first("eof", ci, 0) >= 0), true)
		}
		if first("garbage", ci, 0) >= 0 {
			add("shutdown/garbage-on-connection", fmt.Sprintf("connection %d received a packet that is neither a response nor the close notification", ci), false)
		}
		if drained && ci < len(o.FinalInvk) && o.FinalInvk[ci] > 0 {
			add("shutdown/returned-with-requests-outstanding", fmt.Sprintf("Shutdown returned after %d ms (grace %d ms) although connection %d still had numInvoke = %d", dur, scn.GraceMs, ci, o.FinalInvk[ci]), false)
		}
		if drained && first("eof", ci, 0) < 0 {
			add("shutdown/returned-with-open-connection", fmt.Sprintf("Shutdown returned after %d ms (grace %d ms) although connection %d was never closed", dur, scn.GraceMs, ci), false)
		}
	}
	if drained && running > 0 {
		var who []string
		open := map[c12Key]bool{}
		for _, e := range o.Events[:posRet] {
			if e.K == "start" {
				open[c12Key{e.C, e.R}] = true
			} else if e.K == "end" {
				delete(open, c12Key{e.C, e.R})
			}
		}
		for k := range open {
			who = append(who, fmt.Sprintf("request %d of connection %d", k.r, k.c))
		}
		sort.Strings(who)
		add("shutdown/returned-with-requests-outstanding", fmt.Sprintf("Shutdown returned after %d ms (grace %d ms, context not expired) while %d handler(s) were still executing: %s", dur, scn.GraceMs, running, strings.Join(who, ", ")), false)
	}
	if first("start", late, 0) >= 0 || first("resp", late, 0) >= 0 {
		add("shutdown/accepted-after-listen-closed", "a connection opened after isListenClosed >= 1 was served", false)
	}
	if expectCtx {
		if dur > int64(scn.GraceMs+c12SlackMs) {
			add("shutdown/ignores-context", fmt.Sprintf("Shutdown took %d ms with a grace timeout of %d ms (slack %d ms)", dur, scn.GraceMs, c12SlackMs), true)
		}
	} else {
		need := lastResp - o.TriggerT
		if need < c12PollMs {
			need = c12PollMs
		}
		bound := need + c12DrainTail + c12SlackMs
		if !drained || dur > bound {
			add("shutdown/returns-late", fmt.Sprintf("every handler finishes and the last response arrived %d ms after the trigger, yet Shutdown took %d ms (bound: %d ms = drain + two %d ms ticks + %d ms slack; grace %d ms)",
				lastResp-o.TriggerT, dur, bound, c12PollMs, c12SlackMs, scn.GraceMs), true)
		}
	}
	return
}

var c12Stalled int32

func c12RunCase(c *c12Case) []Failure {
	c.Obs = c12RunChild(c.Scn)
	if strings.HasPrefix(c.Obs.Err, "stalled:") {
		atomic.AddInt32(&c12Stalled, 1)
	}
	fails, timing := c12Monitor(c.Obs)
	if len(timing) == 0 {
		return fails
	}
	// timing failures count only if they reproduce in three immediate re-runs of the same script
	still := map[string]bool{}
	for s := range timing {
		still[s] = true
	}
	for k := 0; k < 3 && len(still) > 0; k++ {
		o2 := c12RunChild(c.Scn)
		f2, _ := c12Monitor(o2)
		seen := map[string]bool{}
		for _, f := range f2 {
			seen[f.Sig] = true
		}
		var got []string
		for s := range still {
			if !seen[s] {
				delete(still, s)
			} else {
				got = append(got, s)
			}
		}
		c.Retries = append(c.Retries, fmt.Sprintf("re-run %d: %v", k+1, got))
	}
	var out []Failure
	for _, f := range fails {
		if timing[f.Sig] && !still[f.Sig] {
			continue
		}
		out = append(out, f)
	}
	return out
}

func c12Coq(c *c12Case) string {
	o := c.Obs
	if o == nil || o.Err != "" || o.Scn.Race != "" {
		return "" // (a forced race is outside what accepts explains: it never inserts the racing steps)
	}
	dur := o.ReturnedT - o.TriggerT
	drained := dur < int64(o.Scn.GraceMs)-150
	var ev []string
	for _, e := range o.Events {
		if e.C < 0 || e.R < 0 || e.C > 3999 || e.R > 3999 {
			e.C, e.R = 3999, 3999 // a request nobody sent: the model rejects it
		}
		switch e.K {
		case "connect":
			ev = append(ev, fmt.Sprintf("OConnect %d%%nat", e.C))
		case "send":
			ev = append(ev, fmt.Sprintf("OSend %d%%nat %d%%nat", e.C, e.R))
		case "readall":
			ev = append(ev, fmt.Sprintf("OReadAll %d%%nat %d%%nat", e.C, e.R))
		case "start":
			ev = append(ev, fmt.Sprintf("OStart %d%%nat %d%%nat", e.C, e.R))
		case "end":
			ev = append(ev, fmt.Sprintf("OEnd %d%%nat %d%%nat", e.C, e.R))
		case "resp":
			ev = append(ev, fmt.Sprintf("OResp %d%%nat %d%%nat", e.C, e.R))
		case "notify":
			ev = append(ev, fmt.Sprintf("ONotify %d%%nat", e.C))
		case "eof":
			ev = append(ev, fmt.Sprintf("OEof %d%%nat", e.C))
		case "trigger":
			ev = append(ev, "OTrigger")
		case "listendown":
			ev = append(ev, "OListenDown")
		case "returned":
			ev = append(ev, "OReturned "+coqBool(drained))
		case "exit":
			ev = append(ev, "OExit")
		}
	}
	// the capacity of JobQueue is not validated here (which blocked sender gets the next free slot is not observable,
	// and the dispatcher's hand is one more slot): the trace is replayed with the framework's default capacity
	cp := 10000000
	return fmt.Sprintf("(%d%%nat, %d%%N, [%s])", o.Scn.Pool, cp, strings.Join(ev, "; "))
}

func c12Class(c *c12Case) string {
	s := c.Scn
	pre, post, half, never, long, slow, abort := 0, 0, 0, 0, 0, 0, 0
	for _, cs := range s.Conns {
		pre += len(cs.Pre)
		post += len(cs.Post)
		if cs.Half {
			half++
		}
		for _, d := range append(append([]int{}, cs.Pre...), cs.Post...) {
			if d < 0 {
				never++
			}
			if d >= 2000 {
				long++
			}
		}
		if cs.ReadDelayMs != 0 {
			slow++
		}
		if cs.Abort {
			abort++
		}
	}
	b := func(n int) string {
		switch {
		case n == 0:
			return "0"
		case n <= 2:
			return "1-2"
		}
		return "3+"
	}
	return fmt.Sprintf("pool=%d conns=%s pre=%s post=%s half=%d never=%d long=%d slow=%d abort=%d quiet=%v race=%s ht=%v phase=%s sig=%s cap=%v", s.Pool, b(len(s.Conns)), b(pre), b(post), half, never, long, slow, abort, s.QuietMs > 0, s.Race, s.HandleTimeoutMs > 0, s.Phase, s.Signal, s.QueueCap > 0)
}

func c12Gen(tier string, rng *rand.Rand) []c12Case {
	var out []c12Case
	add := func(s c12Scn) {
		if s.GraceMs == 0 {
			s.GraceMs = 6000
		}
		if s.Signal == "" {
			s.Signal = "TERM"
		}
		if s.Phase == "" {
			s.Phase = "read"
		}
		s.Name = fmt.Sprintf("%02d", len(out))
		out = append(out, c12Case{Scn: s})
	}
	sigs := []string{"TERM", "INT", "USR2"}
	// many connected clients, some of which have reset their connection (RST) with a call still running or already
	// finished: the server's close message to those fails; every healthy client must still get it before EOF
	crowd := func(pool, healthy, aborted int, sig string) c12Scn {
		var cs []c12ConnScn
		for i := 0; i < healthy; i++ {
			switch rng.Intn(3) {
			case 0:
				cs = append(cs, c12ConnScn{})
			case 1:
				cs = append(cs, c12ConnScn{Pre: []int{[]int{0, 50}[rng.Intn(2)]}})
			default:
				cs = append(cs, c12ConnScn{Pre: []int{50, 300}, Pipelined: rng.Intn(2) == 0})
			}
		}
		for i := 0; i < aborted; i++ {
			d := 1000 + 100*rng.Intn(8) // still running at the first poller tick
			if i%3 == 2 {
				d = 0 // already finished
			}
			cs = append(cs, c12ConnScn{Pre: []int{d}, Abort: true})
		}
		rng.Shuffle(len(cs), func(a, b int) { cs[a], cs[b] = cs[b], cs[a] })
		return c12Scn{Pool: pool, GraceMs: 4500, Signal: sig, Conns: cs}
	}
	for pi, pool := range []int{0, 1, 4} {
		// four slow requests read on one connection, then the signal (the schedule of the design's finding)
		add(c12Scn{Pool: pool, Late: true, Conns: []c12ConnScn{{Pre: []int{300, 300, 300, 300}, Pipelined: true}}})
		// mixed: requests before and after the signal, an idle connection
		add(c12Scn{Pool: pool, Late: true, Signal: sigs[pi], Conns: []c12ConnScn{
			{Pre: []int{50, 0, 300}, Post: []int{50, 0}, PostDelayMs: 100}, {}, {Pre: []int{0}, Post: []int{0}, PostDelayMs: 300}}})
		// signal while requests are still on the wire
		add(c12Scn{Pool: pool, Phase: "sent", Conns: []c12ConnScn{{Pre: []int{0, 50, 0, 50, 0, 50}, Pipelined: true}, {Pre: []int{300}}}})
		// a handler that never returns: Shutdown must end by its context, everything else is answered
		add(c12Scn{Pool: pool, GraceMs: 2500, Conns: []c12ConnScn{{Pre: []int{-1}}, {Pre: []int{50, 50}}}})
		// half a request on the wire: that connection never drains
		add(c12Scn{Pool: pool, GraceMs: 2500, Conns: []c12ConnScn{{Half: true}, {Pre: []int{50}}}})
		// nothing connected / only idle connections
		if pool != 4 {
			add(c12Scn{Pool: pool, Signal: sigs[(pi+1)%3]})
		}
		add(c12Scn{Pool: pool, Late: true, Conns: []c12ConnScn{{}, {}}})
		if pool != 4 {
			// a handler that outlives the poller's idle threshold (2 s): its connection stays open until it is answered
			add(c12Scn{Pool: pool, GraceMs: 8000, Conns: []c12ConnScn{{Pre: []int{2600}}, {Pre: []int{0}}}})
			// a slow reader: the 4 MB response blocks in Write (64 KB send buffer) until the client reads, 1.5 s after the trigger
			add(c12Scn{Pool: pool, SmallBuf: true, Conns: []c12ConnScn{{Pre: []int{0}, Bulk: 4 << 20, ReadDelayMs: 1500}}})
			// TarsServer.Shutdown called directly with a context: ended by the context (handler that never returns; half a
			// request), or drained
			add(c12Scn{Pool: pool, Signal: "DIRECT", GraceMs: 2500, Conns: []c12ConnScn{{Pre: []int{-1}}, {Pre: []int{50}}}})
			add(c12Scn{Pool: pool, Signal: "DIRECT", GraceMs: 2500, Conns: []c12ConnScn{{Half: true}}})
			// ... and a client that never reads its 4 MB response: the close message blocks behind it
			add(c12Scn{Pool: pool, Signal: "DIRECT", GraceMs: 2500, SmallBuf: true, Conns: []c12ConnScn{{Pre: []int{0}, Bulk: 4 << 20, ReadDelayMs: -1}}})
			add(c12Scn{Pool: pool, Signal: "DIRECT", Conns: []c12ConnScn{{Pre: []int{50, 300}, Post: []int{0}, PostDelayMs: 50}, {}}})
		}
		if pool > 0 {
			// every worker busy with a long request, and requests of OTHER connections read but only queued (in the
			// dispatcher's hand / in JobQueue) at the moment of shutdown: they are in flight (numInvoke), their
			// connections must stay open until they are answered
			busy := func(extra ...c12ConnScn) []c12ConnScn {
				var cs []c12ConnScn
				for w := 0; w < pool; w++ {
					cs = append(cs, c12ConnScn{Pre: []int{2500 - 200*w}})
				}
				return append(cs, extra...)
			}
			add(c12Scn{Pool: pool, GraceMs: 9000, Conns: busy(c12ConnScn{Pre: []int{0}})})
			add(c12Scn{Pool: pool, GraceMs: 9000, Signal: "DIRECT", Conns: busy(c12ConnScn{Pre: []int{50, 0, 300}, Pipelined: true}, c12ConnScn{Pre: []int{300}}, c12ConnScn{})})
			// tiny job queue: the receive loop blocks in handleConn
			add(c12Scn{Pool: pool, QueueCap: 1, Phase: "sent", Conns: []c12ConnScn{{Pre: []int{100, 100, 100, 100, 100, 100}, Pipelined: true}}})
			// ... and the same with the trigger only after the server has read everything (the receive loop sits in
			// handleConn with the rest of the requests in its buffer): nothing that was read may be dropped
			add(c12Scn{Pool: pool, QueueCap: 2, Conns: []c12ConnScn{{Pre: []int{100, 100, 100, 100, 100, 100, 100, 100}, Pipelined: true}, {Pre: []int{50, 50, 50}, Pipelined: true}}})
			// many queued jobs on several connections
			add(c12Scn{Pool: pool, Conns: []c12ConnScn{{Pre: []int{50, 50, 50, 50, 50}, Pipelined: true}, {Pre: []int{50, 50, 50}}, {Pre: []int{300}, Post: []int{0, 0, 0}, PostDelayMs: 50}}})
		}
	}
	// a connection accepted at the very start of shutdown (after isClosed = 1, before the accept loop leaves), no other
	// connection open: its requests are read and must be executed and answered, with and without a pool
	for _, pool := range []int{0, 1, 2, 4} {
		add(c12Scn{Pool: pool, Signal: "EARLY", Conns: []c12ConnScn{{Pre: []int{[]int{300, 50, 0, 300}[pool%4]}}}})
	}
	add(c12Scn{Pool: 2, Signal: "EARLY", Conns: []c12ConnScn{{Pre: []int{50, 300, 0}, Pipelined: true}}})
	// connections quiet for longer than the poller's idle threshold (2 s) when shutdown starts, mixed with fresh ones:
	// the first poller round closes the quiet ones at once — after it has written the close message to them
	quiet := func(pool, quietMs, rto int, sig string) c12Scn {
		return c12Scn{Pool: pool, QuietMs: quietMs, ReadTimeoutMs: rto, Signal: sig, Conns: []c12ConnScn{
			{}, {Pre: []int{0}}, {Pre: []int{50, 0}, Pipelined: true}, {},
			{Fresh: true}, {Fresh: true, Pre: []int{50}}, {Fresh: true, Pre: []int{300}, Post: []int{0}, PostDelayMs: 100}}}
	}
	// one busy connection among many connections idle for longer than the idle threshold: whatever order the poller
	// visits them in, Shutdown must not return before the busy request is answered
	busyAmongIdle := func(pool, idle, quietMs int, sig string) c12Scn {
		var cs []c12ConnScn
		for i := 0; i < idle; i++ {
			cs = append(cs, c12ConnScn{Pre: []int{0}})
		}
		cs = append(cs, c12ConnScn{Fresh: true, Pre: []int{2400 + 100*rng.Intn(4)}})
		rng.Shuffle(len(cs), func(a, b int) { cs[a], cs[b] = cs[b], cs[a] })
		return c12Scn{Pool: pool, QuietMs: quietMs, GraceMs: 9000, Signal: sig, Conns: cs}
	}
	add(busyAmongIdle(0, 30, 2300, "DIRECT"))
	add(busyAmongIdle(4, 24, 2600, "TERM"))
	// a transient Accept error (EMFILE) while clients are connected, then new connections, then a graceful shutdown: the
	// server keeps accepting, every client is notified and answered
	acceptFault := func(pool int, sig string) c12Scn {
		return c12Scn{Pool: pool, Signal: sig, Conns: []c12ConnScn{
			{Pre: []int{0}}, {}, {Fresh: true, Faulted: true, Pre: []int{300}}, {Fresh: true, Pre: []int{50}, Post: []int{0}, PostDelayMs: 100}}}
	}
	add(acceptFault(0, "TERM"))
	add(acceptFault(2, "DIRECT"))
	// the two-instruction window between Read and numInvoke++, forced with the yield hook (Props/C12.v
	// C12_answered_before_close_refuted, first witness): known finding shutdown/race/read-then-count/request-lost
	add(c12Scn{Pool: 0, QuietMs: 2300, Signal: "DIRECT", Race: "read-then-count", Conns: []c12ConnScn{{Pre: []int{0}}}})
	add(c12Scn{Pool: 2, QuietMs: 2300, Signal: "DIRECT", Race: "read-then-count", Conns: []c12ConnScn{{Pre: []int{0}}}})
	// the same window on a connection used a moment ago, held for one poller round: the idle threshold protects it
	// (not the known finding: a request lost here is reported under its own signature)
	add(c12Scn{Pool: 0, Signal: "DIRECT", Race: "read-then-count-fresh", Conns: []c12ConnScn{{Pre: []int{0}}}})
	add(c12Scn{Pool: 2, Signal: "DIRECT", Race: "read-then-count-fresh", Conns: []c12ConnScn{{Pre: []int{50}}}})
	// a handle timeout (bounds a handler's RUN time) and a pooled backlog whose queue time + run time exceeds it while
	// every handler stays below it: every request read is still answered before its connection is closed
	add(c12Scn{Pool: 1, HandleTimeoutMs: 1000, GraceMs: 9000, Conns: []c12ConnScn{{Pre: []int{700, 700, 700, 700}, Pipelined: true}}})
	add(c12Scn{Pool: 2, HandleTimeoutMs: 1500, GraceMs: 9000, Signal: "DIRECT", Conns: []c12ConnScn{{Pre: []int{600, 600, 600}, Pipelined: true}, {Pre: []int{600, 600, 600}}, {}}})
	add(c12Scn{Pool: 0, HandleTimeoutMs: 800, Conns: []c12ConnScn{{Pre: []int{300, 300, 300}, Pipelined: true}, {Pre: []int{0}}}})
	add(quiet(0, 2500, 0, "TERM"))
	add(quiet(4, 3500, 60000, "DIRECT"))
	add(quiet(1, 3000, 0, "INT"))
	add(crowd(0, 21, 3, "TERM"))
	add(crowd(0, 10, 2, "DIRECT"))
	add(crowd(8, 14, 4, "INT"))
	nrand := 6
	if tier == "thorough" {
		nrand = 240
	}
	durs := []int{0, 0, 50, 50, 300}
	delays := []int{0, 50, 100, 300, 450, 600, 1200}
	for i := 0; i < nrand; i++ {
		s := c12Scn{Pool: []int{0, 1, 4, 2}[rng.Intn(4)], Late: rng.Intn(2) == 0, Signal: []string{"TERM", "INT", "USR2", "DIRECT"}[rng.Intn(4)]}
		if rng.Intn(4) == 0 {
			s.Phase = "sent"
		}
		if s.Pool > 0 && rng.Intn(4) == 0 {
			s.QueueCap = 1 + rng.Intn(2)
		}
		if rng.Intn(12) == 0 {
			// one slow reader, alone (a stalled client delays the close message of the other connections: see design/C12.md)
			s.SmallBuf = true
			s.Conns = []c12ConnScn{{Pre: []int{durs[rng.Intn(len(durs))]}, Bulk: 4 << 20, ReadDelayMs: []int{300, 1200}[rng.Intn(2)]}}
			add(s)
			continue
		}
		if rng.Intn(14) == 0 {
			// handle timeout with a pooled backlog longer than it (handlers below it)
			ht := 800 + 100*rng.Intn(8)
			var cs []c12ConnScn
			for k := 1 + rng.Intn(2); k > 0; k-- {
				var pre []int
				for j := 3 + rng.Intn(3); j > 0; j-- {
					pre = append(pre, ht/2+50*rng.Intn(4))
				}
				cs = append(cs, c12ConnScn{Pre: pre, Pipelined: rng.Intn(2) == 0})
			}
			add(c12Scn{Pool: 1 + rng.Intn(2), HandleTimeoutMs: ht, GraceMs: 12000, Signal: s.Signal, Conns: cs})
			continue
		}
		if rng.Intn(14) == 0 {
			add(busyAmongIdle(rng.Intn(5), 8+rng.Intn(33), 2200+100*rng.Intn(8), s.Signal))
			continue
		}
		if rng.Intn(14) == 0 {
			add(acceptFault(rng.Intn(5), s.Signal))
			continue
		}
		if rng.Intn(12) == 0 {
			q := quiet(rng.Intn(5), 2500+100*rng.Intn(11), []int{0, 0, 10000, 60000}[rng.Intn(4)], s.Signal)
			q.Late = s.Late
			add(q)
			continue
		}
		if rng.Intn(12) == 0 {
			// one connection accepted at the very start of shutdown, nothing else open
			var pre []int
			for j := 1 + rng.Intn(4); j > 0; j-- {
				pre = append(pre, durs[rng.Intn(len(durs))])
			}
			add(c12Scn{Pool: rng.Intn(5), Signal: "EARLY", Conns: []c12ConnScn{{Pre: pre, Pipelined: rng.Intn(2) == 0}}})
			continue
		}
		if rng.Intn(10) == 0 {
			c := crowd([]int{0, 0, 8, 16}[rng.Intn(4)], 4+rng.Intn(21), 1+rng.Intn(4), s.Signal)
			c.Late = s.Late
			add(c)
			continue
		}
		if s.Pool > 0 && rng.Intn(8) == 0 {
			// all workers busy with long requests, queued requests on other connections
			s.GraceMs = 9000
			for w := 0; w < s.Pool; w++ {
				s.Conns = append(s.Conns, c12ConnScn{Pre: []int{1200 + 300*rng.Intn(6)}})
			}
		}
		n := 1 + rng.Intn(4)
		for k := 0; k < n; k++ {
			var cs c12ConnScn
			for j := rng.Intn(6); j > 0; j-- {
				cs.Pre = append(cs.Pre, durs[rng.Intn(len(durs))])
			}
			for j := rng.Intn(3); j > 0; j-- {
				cs.Post = append(cs.Post, durs[rng.Intn(len(durs))])
			}
			cs.Pipelined = rng.Intn(2) == 0
			cs.PostDelayMs = delays[rng.Intn(len(delays))]
			switch rng.Intn(16) {
			case 0:
				cs.Half = true // the half request is the last thing on this connection: nothing may follow it
				cs.Post = nil
				s.GraceMs = 2500
			case 1:
				if len(cs.Pre) > 0 {
					cs.Pre[rng.Intn(len(cs.Pre))] = -1
					s.GraceMs = 2500
				}
			case 2:
				if len(cs.Pre) > 0 {
					cs.Pre[rng.Intn(len(cs.Pre))] = 2100 + 100*rng.Intn(6)
					s.GraceMs = 9000
				}
			}
			s.Conns = append(s.Conns, cs)
		}
		if s.Pool > 0 && s.QueueCap > 0 {
			for _, cs := range s.Conns {
				for _, d := range cs.Pre {
					if d < 0 {
						// a stuck worker and a tiny queue: the server cannot read everything, do not wait for it
						s.Phase = "sent"
					}
				}
			}
		}
		add(s)
	}
	return out
}

func init() {
	props["C12"] = func(a Args) {
		c12Dir = a.Out
		runProp(Prop[c12Case]{
			ID:       "C12",
			Require:  "From TarsV Require Import Conc.Shutdown.",
			CaseType: "trace_case",
			Mismatch: "Mismatch",
			Corr:     "Conc.Shutdown.accepts (every recorded shutdown is a trace of the model)",
			Rule:     "distinct (pool size, connection/request-count buckets, requests after the signal, half request, never-returning handler, trigger phase, signal, tiny queue) classes",
			Shard:    200,
			Workers:  6,
			Gen:      c12Gen,
			Run:      c12RunCase,
			Coq:      c12Coq,
			Class:    c12Class,
			Extra: func(tier string, rng *rand.Rand, res *Result) {
				res.Traces = len(res.Cases)
				res.Stats["slack_ms"] = c12SlackMs
				res.Stats["skipped_frozen_process"] = atomic.LoadInt32(&c12Stalled)
			},
		}, a)
	}
}
