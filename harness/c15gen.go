package main

// C15 — generators: boundary-dense histories built from scenario segments, plus a fixed corpus.

import (
	"fmt"
	"sort"
	"math/rand"
	"path/filepath"
)

type c15B struct {
	rng  *rand.Rand
	ops  []c15Op
	reg  []int
	name string
	ow   float64 // real-call histories: probability that a call is one-way
	hp   float64 // probability that a call written as plain is hashed instead
	hk   int     // its kind: 1 mod-hash, 2 consistent-hash, 0 either
}

func (b *c15B) adv(d int64)          { b.ops = append(b.ops, c15Op{K: "adv", D: d}) }
func (b *c15B) out(e int, ok bool)   { b.ops = append(b.ops, c15Op{K: "out", E: e, Ok: ok}) }
func (b *c15B) net(e int, ok bool)   { b.ops = append(b.ops, c15Op{K: "net", E: e, Ok: ok}) }
func (b *c15B) up(e int, ok bool)    { b.ops = append(b.ops, c15Op{K: "up", E: e, Ok: ok}) }
func (b *c15B) check()               { b.ops = append(b.ops, c15Op{K: "check"}) }
func (b *c15B) reinst()              { b.ops = append(b.ops, c15Op{K: "reinst"}) }
func (b *c15B) refresh(l []int)      { b.refreshI(l, nil) }
func (b *c15B) refreshI(l, in []int) {
	b.ops = append(b.ops, c15Op{K: "refresh", L: append([]int(nil), l...), I: append([]int(nil), in...)})
	if len(l) > 0 {
		b.reg = append([]int(nil), l...)
		sort.Ints(b.reg)
	}
}
func (b *c15B) call(h int, c uint32, d bool) {
	if h == 0 && b.hp > 0 && b.coin(b.hp) {
		h = b.hk
		if h == 0 {
			h = 1 + b.rng.Intn(2)
		}
		c = uint32(b.rng.Intn(12))
		if b.coin(0.3) {
			c = b.rng.Uint32()
		}
	}
	b.ops = append(b.ops, c15Op{K: "call", Hash: h, Code: c, Defer: d, OneWay: b.ow > 0 && b.coin(b.ow)})
}
func (b *c15B) outs(e, n int, ok bool) {
	for i := 0; i < n; i++ {
		b.out(e, ok)
	}
}
func (b *c15B) pick(v ...int64) int64 { return v[b.rng.Intn(len(v))] }
func (b *c15B) ep() int {
	if len(b.reg) == 0 {
		return b.rng.Intn(c15Universe)
	}
	return b.reg[b.rng.Intn(len(b.reg))]
}
func (b *c15B) coin(p float64) bool { return b.rng.Float64() < p }
func (b *c15B) anyCall() {
	h := 0
	if b.coin(0.35) {
		h = 1 + b.rng.Intn(2)
	}
	code := uint32(b.rng.Intn(12))
	if b.coin(0.3) {
		code = b.rng.Uint32()
	}
	b.call(h, code, b.coin(0.25))
}

// consecutive-failure rule: 4/5/6 failures, 4/5/6 s since the last success
func (b *c15B) segStreak() {
	e := b.ep()
	if b.coin(0.7) {
		b.out(e, true)
	}
	n := int(b.pick(4, 5, 5, 6, 7))
	if b.coin(0.2) { // a success arriving between failures
		k := b.rng.Intn(n + 1)
		b.outs(e, k, false)
		b.out(e, true)
		b.outs(e, n-k, false)
	} else {
		b.outs(e, n, false)
	}
	if d := b.pick(0, 4, 5, 5, 6); d > 0 {
		b.adv(d)
	}
	b.check()
	b.name += fmt.Sprintf("streak(%d,%d) ", e, n)
}

// ratio rule: failCount 1/2/3, sendCount around 2*failCount, 59/60/61 s since the last reset
func (b *c15B) segRatio() {
	e := b.ep()
	f := int(b.pick(1, 2, 2, 3))
	s := 2*f + int(b.pick(-1, 0, 0, 1))
	if s < f {
		s = f
	}
	fails, succ := f, s-f
	for fails > 0 || succ > 0 {
		if succ > 0 && (fails == 0 || b.coin(0.5)) {
			b.out(e, true)
			succ--
		} else {
			b.out(e, false)
			fails--
		}
	}
	if d := b.pick(0, 59, 60, 60, 61); d > 0 {
		b.adv(d)
	}
	b.check()
	b.name += fmt.Sprintf("ratio(%d,%d/%d) ", e, f, s)
}

// blocked endpoint: probe interval 29/30/31 s, reachable or not, probe answered or not, reinstatement now or later,
// then light traffic without failures and the 60 s check
func (b *c15B) segProbe() {
	e := b.ep()
	if b.coin(0.6) {
		b.outs(e, int(b.pick(5, 6)), false)
		b.adv(b.pick(5, 6))
		b.check()
	}
	rounds := 1 + b.rng.Intn(3)
	for i := 0; i < rounds; i++ {
		if b.coin(0.3) {
			b.net(e, b.coin(0.5))
		}
		b.adv(b.pick(1, 29, 30, 30, 31, 35))
		b.check()
		if b.coin(0.15) {
			b.check()
		}
		b.up(e, b.coin(0.6))
		b.anyCall()
		if b.coin(0.3) {
			b.anyCall()
		}
		if b.coin(0.5) {
			b.reinst()
		}
	}
	b.net(e, true)
	b.reinst()
	b.outs(e, b.rng.Intn(5), true)
	b.adv(b.pick(59, 60, 61))
	b.check()
	b.name += fmt.Sprintf("probe(%d) ", e)
}

// every endpoint blocked: calls must still be attempted; then recovery through probes
func (b *c15B) segAllBlocked() {
	for _, e := range b.reg {
		b.up(e, false)
		b.outs(e, int(b.pick(5, 6)), false)
	}
	b.adv(b.pick(5, 6))
	b.check()
	for i := 0; i < 3; i++ {
		b.anyCall()
	}
	b.adv(b.pick(29, 30, 31))
	b.check()
	for _, e := range b.reg {
		b.up(e, b.coin(0.7))
	}
	for i := 0; i < len(b.reg)+1; i++ {
		b.anyCall()
	}
	b.name += "allblocked "
}

func (b *c15B) segRefresh() {
	var l []int
	switch b.rng.Intn(6) {
	case 0: // unchanged
		l = append(l, b.reg...)
	case 1: // empty answer
	case 2, 3: // drop one
		if len(b.reg) > 0 {
			k := b.rng.Intn(len(b.reg))
			for i, e := range b.reg {
				if i != k {
					l = append(l, e)
				}
			}
		}
	default: // add one / random subset
		for e := 0; e < c15Universe; e++ {
			in := false
			for _, x := range b.reg {
				in = in || x == e
			}
			if in && b.coin(0.85) || !in && b.coin(0.3) {
				l = append(l, e)
			}
		}
	}
	var in []int
	for _, e := range b.reg { // endpoints leaving the active list: some the registry still knows as inactive
		gone := true
		for _, x := range l {
			gone = gone && x != e
		}
		if gone && b.coin(0.5) {
			in = append(in, e)
		}
	}
	b.refreshI(l, in)
	b.name += "refresh "
}

func (b *c15B) segTraffic() {
	for _, e := range b.reg {
		if b.coin(0.3) {
			b.up(e, b.coin(0.5))
		}
	}
	n := 2 + b.rng.Intn(10)
	for i := 0; i < n; i++ {
		b.anyCall()
	}
	b.name += "traffic "
}

func (b *c15B) segRandom() {
	n := 5 + b.rng.Intn(12)
	for i := 0; i < n; i++ {
		switch b.rng.Intn(10) {
		case 0, 1:
			b.out(b.ep(), b.coin(0.4))
		case 2:
			b.adv(b.pick(1, 4, 5, 6, 29, 30, 31, 59, 60, 61))
		case 3, 4:
			b.check()
		case 5, 6:
			b.anyCall()
		case 7:
			b.up(b.ep(), b.coin(0.5))
		case 8:
			b.reinst()
		case 9:
			b.net(b.ep(), b.coin(0.5))
		}
	}
	b.name += "random "
}

func c15GenOne(rng *rand.Rand) c15Case {
	b := &c15B{rng: rng}
	switch rng.Intn(8) { // routing of the calls the segments write as plain: as written / all hashed / half hashed
	case 0:
		b.hp, b.hk = 1, 1+rng.Intn(2)
		b.name = "hashed-only "
	case 1:
		b.hp, b.hk = 0.5, 0
		b.name = "mixed-hash "
	}
	n := 1 + rng.Intn(4)
	perm := rng.Perm(c15Universe)
	b.refresh(perm[:n])
	if b.coin(0.1) {
		b.ops = nil
		b.refresh(nil) // first answer of the registry is empty
		b.anyCall()
		b.check()
		b.refresh(perm[:n])
	}
	warm := 2 * n
	if b.coin(0.2) {
		warm = rng.Intn(2*n + 1)
	}
	for i := 0; i < warm; i++ {
		b.call(0, 0, false)
	}
	segs := 2 + rng.Intn(4)
	for i := 0; i < segs; i++ {
		switch rng.Intn(11) {
		case 10:
			b.segFlap(false)
		case 0, 1:
			b.segStreak()
		case 2, 3:
			b.segRatio()
		case 4, 5:
			b.segProbe()
		case 6:
			b.segAllBlocked()
		case 7:
			b.segRefresh()
		case 8:
			b.segTraffic()
		default:
			b.segRandom()
		}
	}
	if b.coin(0.5) {
		b.check()
	}
	up := make([]bool, c15Universe)
	for i := range up {
		up[i] = true
	}
	return c15Case{Name: b.name, Ops: b.ops, Up: up}
}

func c15Gen(tier string, rng *rand.Rand) []c15Case {
	n := 140
	if tier == "thorough" {
		n = 4000
	}
	out := make([]c15Case, 0, n)
	for i := 0; i < n; i++ {
		out = append(out, c15GenOne(rng))
	}
	m := 24
	if tier == "thorough" {
		m = 300
	}
	for i := 0; i < m; i++ {
		out = append(out, c15E2EGenOne(rng, i))
	}
	return out
}

func c15AllUp() []bool { return []bool{true, true, true, true, true, true} }

// fixed histories that run first on every run
func c15Corpus() []c15Case {
	var out []c15Case
	mk := func(name string, f func(b *c15B)) {
		b := &c15B{rng: rand.New(rand.NewSource(1))}
		f(b)
		out = append(out, c15Case{Name: name, Ops: b.ops, Up: c15AllUp()})
	}
	// blocked by streak, probed after 30 s, reinstated, light traffic without failures, 60 s check
	for _, k := range []int{0, 2, 4} {
		k := k
		mk(fmt.Sprintf("reinstated-then-60s-check(%d)", k), func(b *c15B) {
			b.refresh([]int{0, 1})
			for i := 0; i < 4; i++ {
				b.call(0, 0, false)
			}
			b.check()
			b.up(0, false)
			for i := 0; i < 10; i++ {
				b.call(0, 0, false)
			}
			b.adv(6)
			b.check()
			b.up(0, true)
			b.adv(31)
			b.check()
			b.call(0, 0, false)
			b.outs(0, k, true)
			b.adv(61)
			b.check()
			b.call(0, 0, false)
			b.call(0, 0, false)
		})
	}
	// every endpoint blocked: calls are still attempted, probes bring them back
	for _, n := range []int{1, 2, 3} {
		n := n
		mk(fmt.Sprintf("all-blocked(%d)", n), func(b *c15B) {
			var l []int
			for i := 0; i < n; i++ {
				l = append(l, i)
			}
			b.refresh(l)
			for i := 0; i < 2*n; i++ {
				b.call(0, 0, false)
			}
			for _, e := range l {
				b.up(e, false)
			}
			for i := 0; i < 5*n; i++ {
				b.call(0, 0, false)
			}
			b.adv(5)
			b.check()
			for i := 0; i < 4; i++ {
				b.call(0, 0, false)
			}
			for _, e := range l {
				b.up(e, true)
			}
			b.adv(30)
			b.check()
			for i := 0; i < n+1; i++ {
				b.call(0, 0, false)
			}
			b.check()
		})
	}
	// boundaries of the streak rule, one by one
	for _, n := range []int{4, 5, 6} {
		for _, d := range []int64{4, 5, 6} {
			n, d := n, d
			mk(fmt.Sprintf("streak-boundary(%d,%ds)", n, d), func(b *c15B) {
				b.refresh([]int{1, 3})
				for i := 0; i < 4; i++ {
					b.call(0, 0, false)
				}
				b.out(3, true)
				b.outs(3, n, false)
				b.adv(d)
				b.check()
				b.call(0, 0, false)
				b.call(0, 0, false)
			})
		}
	}
	// probe interval 29/30/31, reachable or not
	for _, d := range []int64{29, 30, 31} {
		for _, reach := range []bool{true, false} {
			d, reach := d, reach
			mk(fmt.Sprintf("probe-interval(%ds,reach=%v)", d, reach), func(b *c15B) {
				b.refresh([]int{0, 2, 4})
				for i := 0; i < 6; i++ {
					b.call(0, 0, false)
				}
				b.outs(2, 5, false)
				b.adv(5)
				b.check()
				b.net(2, reach)
				b.adv(d)
				b.check()
				b.check()
				b.call(0, 0, false)
				b.net(2, true)
				b.adv(29)
				b.check()
				b.adv(1)
				b.check()
				b.call(0, 0, true)
				b.adv(30)
				b.check()
				b.reinst()
				b.check()
			})
		}
	}
	// hashed traffic only around the probe steps: the due probe is carried by the next call of any routing kind
	for _, kind := range []int{1, 2} {
		kind := kind
		mk(fmt.Sprintf("hashed-only-probe(kind=%d)", kind), func(b *c15B) {
			b.hp, b.hk = 1, kind
			b.refresh([]int{0, 2, 4})
			for i := 0; i < 12; i++ {
				b.call(0, 0, false)
			}
			b.outs(2, 5, false)
			b.adv(5)
			b.check()
			for i := 0; i < 4; i++ {
				b.call(0, 0, false)
			}
			b.adv(30)
			b.check()
			b.call(0, 0, false) // hashed: carries the probe, answered, reinstated
			b.call(0, 0, false)
			b.check()
			b.outs(2, 5, false)
			b.adv(5)
			b.check()
			b.adv(30)
			b.check()
			b.up(2, false)
			b.call(0, 0, false) // hashed probe, fails: stays blocked, can be requested again
			b.adv(30)
			b.check()
			b.up(2, true)
			b.call(0, 0, true)
			b.reinst()
			b.check()
		})
	}
	// the registry moves a blocked endpoint to its inactive list and back (and a healthy one): the health record
	// survives, re-entry only after an answered probe
	for _, blocked := range []bool{true, false} {
		blocked := blocked
		mk(fmt.Sprintf("endpoint-flap(blocked=%v)", blocked), func(b *c15B) {
			b.refresh([]int{0, 1, 3})
			for i := 0; i < 6; i++ {
				b.call(0, 0, false)
			}
			if blocked {
				b.outs(1, 5, false)
				b.adv(5)
				b.check()
			}
			b.refreshI([]int{0, 3}, []int{1})
			b.call(0, 0, false)
			b.call(0, 0, false)
			b.check()
			b.refreshI([]int{0, 3, 4}, []int{1}) // another change while it is inactive
			b.call(0, 0, false)
			b.refreshI([]int{0, 1, 3, 4}, nil)
			b.check()
			for i := 0; i < 8; i++ {
				b.call(0, 0, false)
			}
			b.adv(31)
			b.check()
			for i := 0; i < 5; i++ {
				b.call(0, 0, false)
			}
			b.check()
		})
	}
	// a registry refresh drops and re-adds an endpoint whose stale adapter is still queued for a probe: the model's
	// refutation witness (Props/C15.v, C15_blocked_after_streak_any_refresh_refuted) replayed on the implementation
	mk("stale-probe-after-readd", func(b *c15B) {
		b.refresh([]int{0, 1})
		b.call(0, 0, false)
		b.call(0, 0, false)
		b.outs(0, 5, false)
		b.adv(5)
		b.check()
		b.adv(30)
		b.check()
		b.refresh([]int{1})
		b.refresh([]int{0, 1})
		b.call(0, 0, true) // the stale adapter as probe, answered; reinstatement later
		for i := 0; i < 4; i++ {
			b.call(0, 0, false) // endpoint 0 gets a new adapter
		}
		b.outs(0, 5, false)
		b.adv(5)
		b.check() // the new adapter is blocked
		b.reinst() // the stale adapter's reinstatement puts endpoint 0 back
		b.check()
		b.call(0, 0, false)
		b.call(0, 0, false)
	})
	// answered probe with the reinstatement still pending, a second request queued meanwhile, the reinstatement, then
	// the second probe fails on the (now active) adapter: nothing is wrong (regression: monitor false alarm)
	mk("requeued-probe-fails-after-reinstatement", func(b *c15B) {
		b.refresh([]int{0, 2})
		for i := 0; i < 4; i++ {
			b.call(0, 0, false)
		}
		b.outs(2, 5, false)
		b.adv(6)
		b.check()
		b.adv(30)
		b.check()
		b.call(0, 0, true) // probe of endpoint 2, answered, reinstatement deferred
		b.adv(31)
		b.check() // still blocked: requested again
		b.reinst()
		b.up(2, false)
		b.call(0, 0, false) // the queued probe, on an active adapter, fails
		b.check()
		b.call(0, 0, false)
	})
	out = append(out, c14ctxCases()...)
	out = append(out, c15E2ECorpus()...)
	return out
}

// ---------- C14's manager-level clause, exposed for the owner of C14 ----------

// c14ctxCases: hash-routed calls through SelectAdapterProxy, without and with a pending failover probe.
func c14ctxCases() []c15Case {
	var out []c15Case
	for _, h := range []int{1, 2} {
		for _, pending := range []bool{false, true} {
			b := &c15B{rng: rand.New(rand.NewSource(int64(h)))}
			b.refresh([]int{0, 1, 2})
			for i := 0; i < 6; i++ {
				b.call(0, 0, false)
			}
			for c := uint32(0); c < 6; c++ {
				b.call(h, c*0x2aaaaaab+c, false)
			}
			b.outs(1, 5, false)
			b.adv(5)
			b.check() // endpoint 1 blocked
			for c := uint32(0); c < 6; c++ {
				b.call(h, c*0x2aaaaaab+c, false)
			}
			b.adv(30)
			if pending {
				b.check() // endpoint 1 queued for its probe
			}
			for c := uint32(0); c < 6; c++ {
				b.call(h, c*0x2aaaaaab+c, false)
			}
			b.check()
			for c := uint32(0); c < 6; c++ {
				b.call(h, c*0x2aaaaaab+c, false)
			}
			out = append(out, c15Case{Name: fmt.Sprintf("c14ctx(hash=%d,probe-pending=%v)", h, pending), Ops: b.ops, Up: c15AllUp()})
		}
	}
	return out
}

// c14ctxFailures runs the hash-routing histories on the real manager and returns the failures of C14's clause
// "a call made with a hash code in its context is routed by these rules" at the manager level:
//   sig hash-routing/call-diverted-as-failover-probe  (known finding, known_findings.d/C14-ctx.json)
//   sig hash-routing/ctx-not-routed-by-hash           (no probe pending, yet not the selector's endpoint)
// evaluations = number of hash-routed calls observed.
func c14ctxFailures(tier string, rng *rand.Rand) (fails []Failure, evaluations int, cases []c15Case) {
	cases = c14ctxCases()
	n := 20
	if tier == "thorough" {
		n = 400
	}
	for i := 0; i < n; i++ {
		cases = append(cases, c15GenOne(rng))
	}
	for i := range cases {
		c15RunCase(&cases[i])
		for _, f := range cases[i].c14 {
			f.Replay = cases[i]
			fails = append(fails, f)
		}
		for _, o := range cases[i].Ops {
			if o.K == "call" && o.Hash != 0 {
				evaluations++
			}
		}
	}
	return
}

func c14ctxMain(a Args) {
	rng := rand.New(rand.NewSource(a.Seed))
	fails, n, cases := c14ctxFailures(a.Tier, rng)
	res := &Result{Property: "C14ctx", Tier: a.Tier, Seed: a.Seed, Evaluations: n, Distinct: len(cases), Failures: fails,
		Rule: "hash-routed calls through endpointManager.SelectAdapterProxy", Stats: map[string]interface{}{}}
	if fails == nil {
		res.Failures = []Failure{}
	}
	_ = filepath.Join
	writeResult(a, res)
	for _, f := range fails {
		fmt.Println(f.Sig, "—", f.Desc)
	}
}
