package main

// C14 at manager level: routing by hash is a function of (hash type, code, current endpoint set) also through
// endpointManager — whatever the registry told the client earlier.  A child process drives real endpoint
// managers (tars.VerifC15NewManager over a fake registry.Registrar; doFresh called directly) through HISTORIES
// of registry answers — all-static, all-loop and mixed weight types, shrinking and growing sets, changing
// weights, empty and repeated answers — and compares, for both hash types and boundary-dense codes,
//   (a) the long-lived manager with a manager created fresh on the final answer (history independence), and
//   (b) both with fresh mod-hash / consistent-hash selectors holding the final list the way updateActiveEp
//       installs it (sorted by crc32 of Key; weights enabled iff all endpoints share the static weight type).
// Model: Select/Manager.v (mgr_refresh recomputes list and weight mode from the answer alone); theorem
// C14_manager_history_independent.  The model's weight mode is also compared with the selectors the manager
// really installed (observed through the routing).

import (
	"context"
	"encoding/json"
	"fmt"
	"hash/crc32"
	"math/rand"
	"os"
	"os/exec"
	"sort"
	"strings"
	"time"

	"github.com/TarsCloud/TarsGo/tars"
	"github.com/TarsCloud/TarsGo/tars/protocol/res/endpointf"
	tarsreg "github.com/TarsCloud/TarsGo/tars/registry"
	"github.com/TarsCloud/TarsGo/tars/selector/consistenthash"
	"github.com/TarsCloud/TarsGo/tars/selector/modhash"
	"github.com/TarsCloud/TarsGo/tars/util/endpoint"
)

type c14MgrEp struct {
	Host   string `json:"host"`
	Weight int32  `json:"w"`
	WType  int32  `json:"wt"`
}

func (e c14MgrEp) epf() endpointf.EndpointF {
	return endpointf.EndpointF{Host: e.Host, Port: 10000, Timeout: 3000, Istcp: 1, Weight: e.Weight, WeightType: e.WType}
}

type c14MgrFailure struct {
	Sig     string       `json:"sig"`
	Desc    string       `json:"desc"`
	History [][]c14MgrEp `json:"history"`
	Kind    string       `json:"kind"`
	Code    uint32       `json:"code"`
}

type c14MgrReport struct {
	Histories int             `json:"histories"`
	Probes    int             `json:"probes"`
	Shapes    map[string]int  `json:"shapes"`
	Failures  []c14MgrFailure `json:"failures"`
}

type c14MgrRegistrar struct{ active []endpointf.EndpointF }

func (r *c14MgrRegistrar) Registry(context.Context, *tarsreg.ServantInstance) error   { return nil }
func (r *c14MgrRegistrar) Deregister(context.Context, *tarsreg.ServantInstance) error { return nil }
func (r *c14MgrRegistrar) QueryServant(context.Context, string) ([]tarsreg.Endpoint, []tarsreg.Endpoint, error) {
	return append([]endpointf.EndpointF(nil), r.active...), nil, nil
}
func (r *c14MgrRegistrar) QueryServantBySet(ctx context.Context, id, set string) ([]tarsreg.Endpoint, []tarsreg.Endpoint, error) {
	return r.QueryServant(ctx, id)
}

var c14MgrSeq int

// a manager refreshed through the given registry answers, in order
func c14MgrDrive(answers [][]c14MgrEp) *tars.VerifC15Mgr {
	c14MgrSeq++
	reg := &c14MgrRegistrar{}
	comm := tars.NewCommunicator(tars.Registrar(reg))
	m := tars.VerifC15NewManager(fmt.Sprintf("VerifC14.Mgr%d.Obj", c14MgrSeq), comm)
	for _, a := range answers {
		reg.active = nil
		for _, e := range a {
			reg.active = append(reg.active, e.epf())
		}
		_ = m.Refresh()
	}
	return m
}

func c14MgrAnswer(rng *rand.Rand, universe []string, mode string) []c14MgrEp {
	n := 1 + rng.Intn(len(universe))
	var a []c14MgrEp
	for _, p := range rng.Perm(len(universe))[:n] {
		e := c14MgrEp{Host: universe[p]}
		switch mode {
		case "static":
			e.WType, e.Weight = 1, []int32{1, 3, 4, 5, 8, 40, 100, 100, 400}[rng.Intn(9)]
		case "loop":
			e.WType, e.Weight = 0, []int32{0, 0, 100, 7}[rng.Intn(4)]
		default: // mixed: static-weighted nodes next to nodes without a static weight (weight 0)
			if rng.Intn(2) == 0 {
				e.WType, e.Weight = 1, []int32{4, 40, 100, 400}[rng.Intn(4)]
			} else {
				e.WType, e.Weight = 0, []int32{0, 0, 100}[rng.Intn(3)]
			}
		}
		a = append(a, e)
	}
	if mode == "mixed" && len(a) >= 2 { // really mixed
		a[0].WType, a[0].Weight = 1, 100
		a[1].WType, a[1].Weight = 0, 0
	}
	return a
}

func c14MgrChild(seed int64, n int) {
	rng := rand.New(rand.NewSource(seed))
	rep := c14MgrReport{Shapes: map[string]int{}}
	defer func() {
		b, _ := json.Marshal(rep)
		fmt.Printf("C14MGR %s\n", b)
	}()
	modes := []string{"static", "loop", "mixed"}
	for it := 0; it < n; it++ {
		var universe []string
		for i := 0; i < 3+rng.Intn(5); i++ {
			universe = append(universe, fmt.Sprintf("10.8.%d.%d", it%200, i+1))
		}
		var hist [][]c14MgrEp
		var shape []string
		steps := 1 + rng.Intn(4)
		if it%3 == 0 { // the transitions between weight modes, each of them
			shape = []string{modes[(it/3)%3], modes[(it/9)%3]}
			steps = 2
		}
		for s := 0; s < steps; s++ {
			mode := modes[rng.Intn(3)]
			if s < len(shape) {
				mode = shape[s]
			} else {
				shape = append(shape, mode)
			}
			switch r := rng.Intn(12); {
			case r == 0 && s < steps-1:
				hist = append(hist, nil) // an empty answer is ignored by the manager
				shape[s] = "empty"
			case r == 1 && s > 0 && len(hist[s-1]) > 0:
				hist = append(hist, append([]c14MgrEp(nil), hist[s-1]...)) // the same answer again
				shape[s] = shape[s-1]
			default:
				hist = append(hist, c14MgrAnswer(rng, universe, mode))
			}
		}
		final := hist[len(hist)-1]
		if len(final) == 0 {
			continue
		}
		rep.Histories++
		rep.Shapes[strings.Join(shape, "/")]++
		old := c14MgrDrive(hist)
		fresh := c14MgrDrive(hist[len(hist)-1:])

		// reference selectors: the final list as refreshEndpoints/updateActiveEp install it
		eps := make([]endpoint.Endpoint, 0, len(final))
		sameType := true
		for _, e := range final {
			eps = append(eps, endpoint.Tars2endpoint(e.epf()))
			if e.WType != final[0].WType {
				sameType = false
			}
		}
		enableWeight := sameType && final[0].WType == int32(endpoint.EStaticWeight)
		sort.Slice(eps, func(i, j int) bool { return eps[i].Host < eps[j].Host })
		sort.SliceStable(eps, func(i, j int) bool {
			return crc32.ChecksumIEEE([]byte(eps[i].Key)) < crc32.ChecksumIEEE([]byte(eps[j].Key))
		})
		refCon := consistenthash.New(enableWeight, consistenthash.KetamaHash)
		refCon.Refresh(eps)
		refMod := modhash.New(enableWeight)
		refMod.Refresh(eps)
		keys, _ := refCon.VerifRing()
		codes := c14Probe(rng, keys)
		if len(codes) > 160 {
			codes = append(codes[:80:80], codes[len(codes)-80:]...)
		}
		member := map[string]bool{}
		for _, e := range final {
			member[e.Host] = true
		}
		reported := map[string]bool{}
		fail := func(sig, desc, kind string, code uint32) {
			if !reported[sig] && len(rep.Failures) < 12 {
				reported[sig] = true
				rep.Failures = append(rep.Failures, c14MgrFailure{Sig: sig, Desc: desc, History: hist, Kind: kind, Code: code})
			}
		}
		for _, code := range codes {
			for _, kind := range []string{"conhash", "modhash"} {
				ht, want := tars.ConsistentHash, ""
				if kind == "conhash" {
					if e, err := refCon.Select(c13Msg{code}); err == nil {
						want = e.Host
					}
				} else {
					ht = tars.ModHash
					if e, err := refMod.Select(c13Msg{code}); err == nil {
						want = e.Host
					}
				}
				if want == "" {
					continue // no endpoint eligible: the manager falls back to a random member
				}
				rep.Probes++
				a, _ := old.Select(true, ht, code)
				b, _ := fresh.Select(true, ht, code)
				if a == nil || b == nil {
					fail("hash-routing/manager/no-adapter", fmt.Sprintf("SelectAdapterProxy returned no adapter for %s code %d over a non-empty set", kind, code), kind, code)
					continue
				}
				ha, hb := a.GetPoint().Host, b.GetPoint().Host
				switch {
				case !member[ha] || !member[hb]:
					fail("hash-routing/manager/non-member", fmt.Sprintf("%s code %d routed to %s / %s, not both in the current set %v", kind, code, ha, hb, final), kind, code)
				case ha != hb:
					fail("hash-routing/manager/"+kind+"/history-dependent", fmt.Sprintf("two clients holding the same endpoint set %v route %s code %d differently: the long-lived one (registry history of %d answers) to %s, the fresh one to %s", final, kind, code, len(hist), ha, hb), kind, code)
				case hb != want:
					fail("hash-routing/manager/"+kind+"/differs-from-selector", fmt.Sprintf("%s code %d: the manager routes to %s; a %s selector (weights enabled=%v) holding the same list selects %s (set %v)", kind, code, hb, kind, enableWeight, want, final), kind, code)
				}
			}
		}
	}
}

// ---------- manager cases for the correspondence (L2): Hist.mgr_check ----------
func (e c14MgrEp) coq() string {
	x := endpoint.Tars2endpoint(e.epf())
	return fmt.Sprintf("(mk %s %s %s %s)", hx([]byte(e.Host)), hx([]byte(x.String())), coqZ(int64(e.Weight)), coqZ(int64(e.WType)))
}

func c14MgrWeightMode(a []c14MgrEp) bool {
	for _, e := range a {
		if e.WType != a[0].WType {
			return false
		}
	}
	return len(a) > 0 && a[0].WType == int32(endpoint.EStaticWeight)
}

func c14MgrGenCases(tier string, rng *rand.Rand) []c13Case {
	n := 30
	if tier == "thorough" {
		n = 400
	}
	modes := []string{"static", "loop", "mixed"}
	var cs []c13Case
	for it := 0; it < n; it++ {
		var universe []string
		for i := 0; i < 2+rng.Intn(5); i++ {
			universe = append(universe, fmt.Sprintf("10.7.%d.%d", it%200, i+1))
		}
		first, last := modes[(it/2)%3], modes[(it/6)%3] // every transition between weight modes
		var hist [][]c14MgrEp
		hist = append(hist, c14MgrAnswer(rng, universe, first))
		for s := rng.Intn(3); s > 0; s-- {
			switch rng.Intn(5) {
			case 0:
				hist = append(hist, nil)
			case 1:
				hist = append(hist, append([]c14MgrEp(nil), hist[len(hist)-1]...))
			default:
				hist = append(hist, c14MgrAnswer(rng, universe, modes[rng.Intn(3)]))
			}
		}
		hist = append(hist, c14MgrAnswer(rng, universe, last))
		if rng.Intn(6) == 0 {
			hist = append(hist, nil) // a trailing empty answer keeps the previous one
		}
		final := hist[len(hist)-1]
		if len(final) == 0 {
			final = hist[len(hist)-2]
		}
		kind := []string{"mgr-conhash", "mgr-modhash"}[it%2]
		w := c14MgrWeightMode(final)
		var keys []uint32
		if kind == "mgr-conhash" {
			for _, e := range final {
				keys = append(keys, c13PointsOf("conhash-ketama", w, c13Ep{Host: e.Host, Port: 10000, Weight: e.Weight, WType: e.WType})...)
			}
			sort.Slice(keys, func(a, b int) bool { return keys[a] < keys[b] })
		}
		codes := []uint32{0, 1, 0x7fffffff, 0x80000000, 0xffffffff}
		for i := 0; i < len(keys); i += 1 + len(keys)/8 {
			codes = append(codes, keys[i], keys[i]-1, keys[i]+1)
		}
		for i := 0; i < 12; i++ {
			codes = append(codes, rng.Uint32())
		}
		cs = append(cs, c13Case{Kind: kind, Answers: hist, Ops: []c13Op{{Op: "select", Codes: codes}},
			Class: fmt.Sprintf("%s/%s-to-%s/%d-answers", kind, first, last, len(hist))})
	}
	return cs
}

// runs in the child worker: the real manager over the answers, observations into the case
func c14MgrRunCase(c *c13Case) (fs []Failure) {
	m := c14MgrDrive(c.Answers)
	c.Installed = m.ActiveEp()
	ht := tars.ConsistentHash
	if c.Kind == "mgr-modhash" {
		ht = tars.ModHash
	}
	o := &c.Ops[0]
	o.Obs = nil
	for _, code := range o.Codes {
		h := ""
		if adp, _ := m.Select(true, ht, code); adp != nil {
			h = adp.GetPoint().Host
		}
		o.Obs = append(o.Obs, h)
	}
	return nil
}

func c14MgrCoq(c *c13Case) string {
	kind, sk := "ConHash", "conhash-ketama"
	if c.Kind == "mgr-modhash" {
		kind, sk = "ModHash", ""
	}
	var answers, table []string
	seen := map[string]bool{}
	for _, a := range c.Answers {
		p := make([]string, len(a))
		for i, e := range a {
			p[i] = e.coq()
			if sk == "" {
				continue
			}
			for _, w := range []bool{false, true} { // the model decides the weight mode: give it the points of both
				x := c13Ep{Host: e.Host, Port: 10000, Weight: e.Weight, WType: e.WType}
				k := c13ChRounds(w, e.Weight)
				key := fmt.Sprintf("%s|%d", e.Host, k)
				if seen[key] {
					continue
				}
				seen[key] = true
				keys := c13PointsOf(sk, w, x)
				ks := make([]string, len(keys))
				for j, v := range keys {
					ks[j] = fmt.Sprint(v)
				}
				table = append(table, fmt.Sprintf("(%s, %d%%nat, [%s])", hx([]byte(e.Host)), k, strings.Join(ks, "; ")))
			}
		}
		answers = append(answers, "["+strings.Join(p, "; ")+"]")
	}
	inst := make([]string, len(c.Installed))
	for i, h := range c.Installed {
		inst[i] = hx([]byte(h))
	}
	o := c.Ops[0]
	cs, os := make([]string, len(o.Codes)), make([]string, len(o.Obs))
	for i := range o.Codes {
		cs[i] = fmt.Sprint(o.Codes[i])
	}
	for i, h := range o.Obs {
		if h == "" {
			os[i] = "None"
		} else {
			os[i] = "Some " + hx([]byte(h))
		}
	}
	return fmt.Sprintf("inr (%s, [%s], [%s], [%s], [%s], [%s])", kind, strings.Join(table, "; "), strings.Join(answers, ";\n   "), strings.Join(inst, "; "), strings.Join(cs, "; "), strings.Join(os, "; "))
}

// ---------- manager histories with HEALTH events (kinds mgrh-modhash / mgrh-conhash) ----------
// ops: refresh (one registry answer), remove (the endpoint fails five times and checkStatus deactivates it),
// add (the probe is answered: reset + addAliveEp), select (SelectAdapterProxy with the hash type of the kind).
// The same selector-level history is the model's (Hist.hist_check: Refresh of the installed order, Remove, Add),
// and a fresh selector of the harness driven through it on slices nobody else holds is the L3 reference.
func (e c13Ep) epf() endpointf.EndpointF {
	return endpointf.EndpointF{Host: e.Host, Port: e.Port, Timeout: 3000, Istcp: 1, Weight: e.Weight, WeightType: e.WType}
}

func c14MgrInstalledOrder(l []c13Ep) []c13Ep {
	out := append([]c13Ep(nil), l...)
	sort.Slice(out, func(i, j int) bool { return out[i].Host < out[j].Host })
	key := func(e c13Ep) uint32 { return crc32.ChecksumIEEE([]byte(endpoint.Tars2endpoint(e.epf()).Key)) }
	sort.SliceStable(out, func(i, j int) bool { return key(out[i]) < key(out[j]) })
	return out
}

func c14MgrHealthGen(tier string, rng *rand.Rand) []c13Case {
	n := 18
	if tier == "thorough" {
		n = 300
	}
	var cs []c13Case
	for it := 0; it < n; it++ {
		k := 3 + rng.Intn(4)
		var f []c13Ep
		static := it%2 == 0
		for i := 0; i < k; i++ {
			e := c13Ep{Host: fmt.Sprintf("10.6.%d.%d", it%200, i+1), Port: 10000}
			if static {
				e.WType, e.Weight = 1, []int32{1, 3, 4, 8, 40, 100, 100}[rng.Intn(7)]
			} else if it%6 == 1 && i == 0 {
				e.WType, e.Weight = 1, 100 // mixed types: unweighted
			}
			f = append(f, e)
		}
		rng.Shuffle(len(f), func(i, j int) { f[i], f[j] = f[j], f[i] })
		inst := c14MgrInstalledOrder(f)
		kind := []string{"mgrh-modhash", "mgrh-conhash"}[(it/2)%2]
		c := c13Case{Kind: kind, Weighted: static, Class: fmt.Sprintf("%s/static=%v", kind, static)}
		sel := func(cur []c13Ep) {
			codes := []uint32{0, 1, 0x7fffffff, 0x80000000, 0xffffffff}
			if kind == "mgrh-modhash" {
				for h := uint32(0); h < uint32(2*len(inst)+3); h++ {
					codes = append(codes, h, 0xfffffff0+h)
				}
			} else {
				var keys []uint32
				for _, e := range cur {
					keys = append(keys, c13PointsOf("conhash-ketama", static, e)...)
				}
				sort.Slice(keys, func(a, b int) bool { return keys[a] < keys[b] })
				for i := 0; i < len(keys); i += 1 + len(keys)/6 {
					codes = append(codes, keys[i], keys[i]-1, keys[i]+1)
				}
			}
			for i := 0; i < 8; i++ {
				codes = append(codes, rng.Uint32())
			}
			c.Ops = append(c.Ops, c13Op{Op: "select", Codes: codes})
		}
		c.Ops = append(c.Ops, c13Op{Op: "refresh", Eps: f})
		sel(inst)
		// victims by position in the installed order: first / middle / last, one or two of them
		pos := []int{0, len(inst) / 2, len(inst) - 1}
		v := []int{pos[it%3]}
		if rng.Intn(2) == 0 && pos[(it+1)%3] != v[0] {
			v = append(v, pos[(it+1)%3])
		}
		cur := append([]c13Ep(nil), inst...)
		without := func(l []c13Ep, h string) []c13Ep {
			var o []c13Ep
			for _, e := range l {
				if e.Host != h {
					o = append(o, e)
				}
			}
			return o
		}
		listed := append([]c13Ep(nil), f...) // what the registry currently answers
		down := map[string]bool{}
		for vi, p := range v {
			c.Ops = append(c.Ops, c13Op{Op: "remove", Eps: []c13Ep{inst[p]}})
			cur = without(cur, inst[p].Host)
			down[inst[p].Host] = true
			sel(cur)
			if (it+vi)%2 == 0 {
				// while the endpoint is out and still listed, the registry answers with a CHANGED list: a newcomer, one
				// healthy endpoint gone, or a changed weight; what is installed is the answer minus the endpoints that are out
				victim := map[string]bool{}
				for _, q := range v {
					victim[inst[q].Host] = true
				}
				var spare []int // healthy endpoints that are not going to be taken out later
				for j, e := range listed {
					if !victim[e.Host] {
						spare = append(spare, j)
					}
				}
				how := rng.Intn(3)
				if how == 1 && len(spare) < 2 {
					how = 0 // always keep one endpoint that stays healthy
				}
				switch how {
				case 0:
					e := c13Ep{Host: fmt.Sprintf("10.6.%d.%d", it%200, 50+vi), Port: 10000, WType: f[0].WType, Weight: f[0].Weight}
					listed = append(listed, e)
				case 1:
					j := spare[rng.Intn(len(spare))]
					listed = append(listed[:j:j], listed[j+1:]...)
				default:
					j := rng.Intn(len(listed))
					for down[listed[j].Host] { // (a reinstated endpoint comes back with the weight its adapter was created with)
						j = (j + 1) % len(listed)
					}
					if static {
						listed[j].Weight = listed[j].Weight%100 + 4
					} else {
						listed[j].Weight += 1
					}
				}
				rng.Shuffle(len(listed), func(i, j int) { listed[i], listed[j] = listed[j], listed[i] })
				c.Ops = append(c.Ops, c13Op{Op: "refresh", Eps: append([]c13Ep(nil), listed...)})
				cur = nil
				for _, e := range c14MgrInstalledOrder(listed) {
					if !down[e.Host] {
						cur = append(cur, e)
					}
				}
				sel(cur)
				c.Class += "/refresh-while-down"
			}
		}
		c.Class += fmt.Sprintf("/down-%d-of-%d", len(v), len(inst))
		for j := range inst { // reinstated endpoints come back as the registry lists them now
			for _, e := range listed {
				if e.Host == inst[j].Host {
					inst[j] = e
				}
			}
		}
		for _, p := range v {
			c.Ops = append(c.Ops, c13Op{Op: "add", Eps: []c13Ep{inst[p]}})
			cur = append(cur, inst[p])
			sel(cur)
		}
		cs = append(cs, c)
	}
	return cs
}

func c14MgrHealthRun(c *c13Case) (fs []Failure) {
	selKind, ht := "modhash", tars.ModHash
	if c.Kind == "mgrh-conhash" {
		selKind, ht = "conhash-ketama", tars.ConsistentHash
	}
	c14MgrSeq++
	reg := &c14MgrRegistrar{}
	m := tars.VerifC15NewManager(fmt.Sprintf("VerifC14.Health%d.Obj", c14MgrSeq), tars.NewCommunicator(tars.Registrar(reg)))
	ref := c13NewSelector(selKind, c.Weighted)
	abs := &c13AbsSet{}
	mep := func(e c13Ep) endpoint.Endpoint { return endpoint.Tars2endpoint(e.epf()) }
	byHost := map[string]c13Ep{}
	down := map[string]bool{} // deactivated by the health check and not yet reinstated
	active := func() string { return strings.Join(m.ActiveEp(), ",") }
	reported := map[string]bool{}
	fail := func(sig, desc string) {
		if !reported[sig] {
			reported[sig] = true
			fs = append(fs, Failure{Sig: sig, Desc: desc})
		}
	}
	createdWith := map[string]c13Ep{} // host -> the registry record listed when its present adapter first appeared
	note := func() {
		cur := m.Adapters()
		for h := range createdWith {
			if cur[h] == nil {
				delete(createdWith, h)
			}
		}
		for h := range cur {
			if _, ok := createdWith[h]; !ok {
				createdWith[h] = byHost[h]
			}
		}
	}
	adapterOf := func(h string) *tars.AdapterProxy {
		for i := 0; i < 4000; i++ {
			if a := m.Adapters()[h]; a != nil {
				return a
			}
			m.Select(false, ht, 0) // plain calls rotate over the members and create their adapters
		}
		return nil
	}
	for i := range c.Ops {
		o := &c.Ops[i]
		switch o.Op {
		case "refresh":
			note() // adapters created so far were created under the previous listing
			reg.active = nil
			for _, e := range o.Eps {
				reg.active = append(reg.active, e.epf())
				byHost[e.Host] = e
			}
			_ = m.Refresh()
			note() // the refresh closes the adapters of endpoints that are no longer listed
			var inst []c13Ep // the model and the reference take the list in the order the manager installed it
			want := map[string]bool{}
			for _, e := range o.Eps {
				if !down[e.Host] {
					want[e.Host] = true
				}
			}
			for _, h := range m.ActiveEp() {
				if !want[h] {
					fail("hash-routing/manager/installed-set-differs", fmt.Sprintf("after the refresh %s is installed; the registry answer minus the endpoints that are out does not contain it (active: %s)", h, active()))
					continue
				}
				delete(want, h)
				inst = append(inst, byHost[h])
			}
			if len(want) > 0 {
				fail("hash-routing/manager/installed-set-differs", fmt.Sprintf("after the refresh %d listed healthy endpoints are not installed (active: %s)", len(want), active()))
			}
			o.Eps, o.Ok = inst, true
			l := make([]endpoint.Endpoint, len(inst))
			for j, e := range inst {
				l[j] = mep(e)
			}
			ref.Refresh(l)
			abs.refresh(inst)
		case "remove":
			adp := adapterOf(o.Eps[0].Host)
			note()
			if adp == nil {
				fail("hash-routing/manager/no-adapter", "no adapter was ever handed out for "+o.Eps[0].Host)
				return fs
			}
			for j := 0; j < 6; j++ {
				adp.VerifC15FailAdd()
			}
			m.CheckStatus()
			o.Ok = !strings.Contains(","+active()+",", ","+o.Eps[0].Host+",")
			_ = ref.Remove(mep(o.Eps[0]))
			if o.Ok {
				down[o.Eps[0].Host] = true
			}
			if want := abs.remove(o.Eps[0]); want != o.Ok {
				fail("hash-routing/manager/endpoint-not-deactivated", fmt.Sprintf("after six failures and a status check %s is still active (%s)", o.Eps[0].Host, active()))
			}
		case "add":
			adp := m.Adapters()[o.Eps[0].Host]
			if adp == nil {
				return fs
			}
			// the endpoint comes back as the registry listed it when its adapter was created (a later refresh may have changed
			// its weight: the adapter keeps the old record).  The expectation is that registry record - NOT what the adapter
			// returns now, which has been through Endpoint2tars / Tars2endpoint, the conversions under test
			note()
			if rec, ok := createdWith[o.Eps[0].Host]; ok {
				o.Eps[0] = rec
			}
			m.Reinstate(adp)
			delete(down, o.Eps[0].Host)
			o.Ok = strings.Contains(","+active()+",", ","+o.Eps[0].Host+",")
			_ = ref.Add(mep(o.Eps[0]))
			if want := abs.add(o.Eps[0]); want != o.Ok {
				fail("hash-routing/manager/endpoint-not-reinstated", fmt.Sprintf("after the reinstatement %s is not active (%s)", o.Eps[0].Host, active()))
			}
		case "select":
			o.Obs = nil
			for _, code := range o.Codes {
				h := ""
				if adp, _ := m.Select(true, ht, code); adp != nil {
					h = adp.GetPoint().Host
				}
				o.Obs = append(o.Obs, h)
				note()
				e, err := ref.Select(c13Msg{code})
				switch {
				case h != "" && !abs.has(h):
					fail("hash-routing/manager/non-member", fmt.Sprintf("%s code %d routed to %s which is not active (active: %s, op %d)", selKind, code, h, active(), i))
				case err == nil && e.Host != h:
					fail("hash-routing/manager/"+selKind+"/after-health-change-differs", fmt.Sprintf("%s code %d: the manager routes to %q; a %s selector of its own driven through the same refresh / deactivate / reinstate history selects %s (active endpoints as the manager reports them: %s; %d active, op %d)", selKind, code, h, selKind, e.Host, active(), len(abs.eps), i))
				}
			}
		}
	}
	return fs
}

func c14MgrHealthCoq(c *c13Case) string {
	cc := *c
	cc.Kind = "modhash"
	if c.Kind == "mgrh-conhash" {
		cc.Kind = "conhash-ketama"
	}
	return c13Coq(&cc)
}

// c14MgrHistories runs the scenario in a child process and judges the report
func c14MgrHistories(tier string, rng *rand.Rand, res *Result) {
	n := 120
	if tier == "thorough" {
		n = 2500
	}
	seed := rng.Int63()
	cmd := exec.Command(os.Args[0], "c14-mgr", fmt.Sprintf("seed=%d", seed), fmt.Sprintf("n=%d", n))
	out, err := c13RunTimeout(cmd, 600*time.Second)
	replay := map[string]interface{}{"cmd": fmt.Sprintf("harness c14-mgr seed=%d n=%d", seed, n)}
	i := strings.LastIndex(out, "C14MGR ")
	if i < 0 {
		res.Failures = append(res.Failures, Failure{Sig: "hash-routing/manager/scenario-died", Desc: fmt.Sprintf("the manager-history scenario did not finish (%v):\n%s", err, c13Tail(out, 1500)), Replay: replay})
		return
	}
	line := out[i+7:]
	if j := strings.IndexByte(line, '\n'); j >= 0 {
		line = line[:j]
	}
	var rep c14MgrReport
	if json.Unmarshal([]byte(line), &rep) != nil {
		res.Failures = append(res.Failures, Failure{Sig: "hash-routing/manager/scenario-died", Desc: "unparsable report: " + c13Head(line, 300), Replay: replay})
		return
	}
	for _, f := range rep.Failures {
		res.Failures = append(res.Failures, Failure{Sig: f.Sig, Desc: f.Desc, Replay: map[string]interface{}{"cmd": replay["cmd"], "registry_answers": f.History, "hash_type": f.Kind, "code": f.Code}})
	}
	res.Evaluations += rep.Probes
	res.Stats["manager_refresh_histories"] = map[string]interface{}{"histories": rep.Histories, "probes": rep.Probes, "weight_mode_sequences": rep.Shapes}
}

func init() {
	props["c14-mgr"] = func(a Args) {
		seed, n := int64(1), 100
		for _, s := range os.Args[2:] {
			fmt.Sscanf(s, "seed=%d", &seed)
			fmt.Sscanf(s, "n=%d", &n)
		}
		c14MgrChild(seed, n)
	}
}
