// C16 translation-validation driver. This file is NOT part of the harness binary: harness/c16tv.go embeds its
// text, writes it next to a generated reg.go (imports of the packages tars2go just generated from random IDL
// programs, registrations of their struct types, enum constants, constants, interface proxies and servant
// implementations) and compiles both against the tree. The driver then exercises the generated code:
//   - reflects every struct type into a schema (tags, require flags, Go types, declared defaults),
//   - encodes random values with the generated WriteTo, decodes with the generated ReadFrom (round trip), decodes
//     truncations of the encodings,
//   - calls every interface function through the generated proxy wired straight to the generated dispatcher
//     (loop-back model.Servant) and compares what the servant implementation received / returned with what the
//     caller sent / got.
// Output: one JSON document on stdout.
package main

import (
	"context"
	"encoding/hex"
	"encoding/json"
	"errors"
	"fmt"
	"math"
	"math/rand"
	"os"
	"reflect"
	"sort"
	"strconv"
	"strings"

	"github.com/TarsCloud/TarsGo/tars/model"
	"github.com/TarsCloud/TarsGo/tars/protocol/codec"
	"github.com/TarsCloud/TarsGo/tars/protocol/res/basef"
	"github.com/TarsCloud/TarsGo/tars/protocol/res/requestf"
	"github.com/TarsCloud/TarsGo/tars/util/endpoint"
	"github.com/TarsCloud/TarsGo/tars/util/tools"
)

type tarsStruct interface {
	ReadFrom(*codec.Reader) error
	WriteTo(*codec.Buffer) error
	ResetDefault()
}

type structReg struct {
	Prog int
	Name string // IDL name
	Mk   func() tarsStruct
}
type enumReg struct {
	Prog int
	Name string
	Keys []string
	Vals []int32
}
type constReg struct {
	Prog int
	Name string
	Val  interface{}
}
type funcReg struct {
	Go     string // Go method name
	Wire   string // function name on the wire (IDL name)
	Outs   []bool
	HasRet bool
}
type dispatcher interface {
	SetServant(model.Servant)
	Dispatch(context.Context, interface{}, *requestf.RequestPacket, *requestf.ResponsePacket, bool) error
}
type ifaceReg struct {
	Prog    int
	Name    string
	Mk      func() dispatcher
	Impl    func(h *handler) interface{} // XxxServant
	ImplCtx func(h *handler) interface{} // XxxServantWithContext
	Funcs   []funcReg
}

var (
	structs []structReg
	enums   []enumReg
	consts  []constReg
	ifaces  []ifaceReg
)

// ---------- output ----------
type caseOut struct {
	Kind  string `json:"kind"` // enc | dec
	Sid   int    `json:"sid"`
	Name  string `json:"name"`
	Bytes string `json:"bytes"`
	Obs   string `json:"obs"`
	Note  string `json:"note,omitempty"`
}
type failOut struct {
	Sig  string `json:"sig"`
	Desc string `json:"desc"`
}
type progOut struct {
	Prog     int       `json:"prog"`
	Schemas  []string  `json:"schemas"`  // Coq [schema] per struct, declaration order
	Descs    []string  `json:"descs"`    // plain descriptor per struct (compared by the harness with the IDL)
	Enums    []string  `json:"enums"`    // Name{KEY=val;...}
	Consts   []string  `json:"consts"`   // Name:gotype=value
	Cases    []caseOut `json:"cases"`
	Failures []failOut `json:"failures"`
	Calls    int       `json:"calls"`
	Values   int       `json:"values"`
}

// ---------- reflection helpers (same conventions as harness/schema.go) ----------
type fieldInfo struct {
	Name   string
	Origin string
	Json   string
	Tag    int
	Req    bool
	Idx    int
}

func fieldsOf(t reflect.Type) []fieldInfo {
	var out []fieldInfo
	for i := 0; i < t.NumField(); i++ {
		tg := t.Field(i).Tag.Get("tars")
		if tg == "" {
			continue
		}
		fi := fieldInfo{Name: t.Field(i).Name, Idx: i, Json: t.Field(i).Tag.Get("json"), Tag: -1}
		for k, p := range strings.Split(tg, ",") {
			if k == 0 {
				fi.Origin = p
			}
			if strings.HasPrefix(p, "tag:") {
				fi.Tag, _ = strconv.Atoi(p[4:])
			}
			if strings.HasPrefix(p, "require:") {
				fi.Req = p[8:] == "true"
			}
		}
		out = append(out, fi)
	}
	return out
}

func hx(b []byte) string { return "\"" + hex.EncodeToString(b) + "\"%hex" }
func coqBool(b bool) string {
	if b {
		return "true"
	}
	return "false"
}
func coqZ(v int64) string { return fmt.Sprintf("(%d)%%Z", v) }

type ctx struct {
	sid map[reflect.Type]int
}

func (c *ctx) coqTy(t reflect.Type) string {
	switch t.Kind() {
	case reflect.Bool:
		return "TBool"
	case reflect.Int8:
		return "TI8"
	case reflect.Uint8:
		return "TU8"
	case reflect.Int16:
		return "TI16"
	case reflect.Uint16:
		return "TU16"
	case reflect.Int32:
		if t.Name() != "int32" {
			return "TEnum"
		}
		return "TI32"
	case reflect.Uint32:
		return "TU32"
	case reflect.Int64:
		return "TI64"
	case reflect.Float32:
		return "TF32"
	case reflect.Float64:
		return "TF64"
	case reflect.String:
		return "TStr"
	case reflect.Slice:
		return "(TVec " + c.coqTy(t.Elem()) + ")"
	case reflect.Array:
		return fmt.Sprintf("(TArr %d %s)", t.Len(), c.coqTy(t.Elem()))
	case reflect.Map:
		return "(TMap " + c.coqTy(t.Key()) + " " + c.coqTy(t.Elem()) + ")"
	case reflect.Struct:
		sid, ok := c.sid[t]
		if !ok {
			return "(TStruct 9999)"
		}
		return fmt.Sprintf("(TStruct %d)", sid)
	}
	return "(TStruct 9998)"
}

func f32bits(v reflect.Value) uint32 {
	if f, ok := v.Interface().(float32); ok {
		return math.Float32bits(f)
	}
	return math.Float32bits(float32(v.Float()))
}

// dumpVal renders a Go value as a Coq [val] term in canonical form (nil = empty; maps sorted by key text)
func dumpVal(v reflect.Value) string {
	t := v.Type()
	switch t.Kind() {
	case reflect.Bool:
		return "(VBool " + coqBool(v.Bool()) + ")"
	case reflect.Int8, reflect.Int16, reflect.Int32, reflect.Int64:
		return "(VInt " + coqZ(v.Int()) + ")"
	case reflect.Uint8, reflect.Uint16, reflect.Uint32:
		return "(VInt " + coqZ(int64(v.Uint())) + ")"
	case reflect.Float32:
		return fmt.Sprintf("(VFlt %d)", f32bits(v))
	case reflect.Float64:
		return fmt.Sprintf("(VFlt %d)", math.Float64bits(v.Float()))
	case reflect.String:
		return "(vstr " + hx([]byte(v.String())) + ")"
	case reflect.Slice, reflect.Array:
		if t.Kind() == reflect.Slice && t.Elem().Kind() == reflect.Int8 {
			b := make([]byte, v.Len())
			for i := range b {
				b[i] = byte(v.Index(i).Int())
			}
			return "(vbytes " + hx(b) + ")"
		}
		parts := make([]string, v.Len())
		for i := range parts {
			parts[i] = dumpVal(v.Index(i))
		}
		return "(VList [" + strings.Join(parts, "; ") + "])"
	case reflect.Map:
		var parts []string
		for _, k := range v.MapKeys() {
			parts = append(parts, "("+dumpVal(k)+", "+dumpVal(v.MapIndex(k))+")")
		}
		sort.Strings(parts)
		return "(VMap [" + strings.Join(parts, "; ") + "])"
	case reflect.Struct:
		var parts []string
		for _, f := range fieldsOf(t) {
			parts = append(parts, dumpVal(v.Field(f.Idx)))
		}
		return "(VStruct [" + strings.Join(parts, "; ") + "])"
	}
	return "(VInt 0%Z)"
}

// plain rendering of a scalar (descriptor of declared defaults, enum values, constants)
func plain(v reflect.Value) string {
	switch v.Kind() {
	case reflect.Bool:
		return coqBool(v.Bool())
	case reflect.Int8, reflect.Int16, reflect.Int32, reflect.Int64:
		return strconv.FormatInt(v.Int(), 10)
	case reflect.Uint8, reflect.Uint16, reflect.Uint32, reflect.Uint64:
		return strconv.FormatUint(v.Uint(), 10)
	case reflect.Float32:
		return fmt.Sprintf("f%d", f32bits(v))
	case reflect.Float64:
		return fmt.Sprintf("f%d", math.Float64bits(v.Float()))
	case reflect.String:
		return "s" + hex.EncodeToString([]byte(v.String()))
	}
	return "?"
}

func setJunk(fv reflect.Value, k int) {
	switch fv.Kind() {
	case reflect.Bool:
		fv.SetBool(k == 0)
	case reflect.Int8, reflect.Int16, reflect.Int32, reflect.Int64:
		fv.SetInt(int64(99 - k))
	case reflect.Uint8, reflect.Uint16, reflect.Uint32:
		fv.SetUint(uint64(99 - k))
	case reflect.Float32, reflect.Float64:
		fv.SetFloat(99.5 - float64(k))
	case reflect.String:
		fv.SetString("\x01junk" + strconv.Itoa(k))
	}
}

// declared defaults: the members that ResetDefault overwrites when they hold junk (two different junk values, so
// that a default equal to one of them is still found)
func declaredDefaults(mk func() tarsStruct, t reflect.Type) map[int]reflect.Value {
	out := map[int]reflect.Value{}
	fs := fieldsOf(t)
	var after [2]reflect.Value
	var before [2][]string
	for k := 0; k < 2; k++ {
		j := mk()
		jv := reflect.ValueOf(j).Elem()
		for _, f := range fs {
			setJunk(jv.Field(f.Idx), k)
		}
		for _, f := range fs {
			before[k] = append(before[k], dumpVal(jv.Field(f.Idx)))
		}
		j.ResetDefault()
		after[k] = jv
	}
	for i, f := range fs {
		k := after[0].Field(f.Idx).Kind()
		if k == reflect.Struct || k == reflect.Slice || k == reflect.Map || k == reflect.Array {
			continue
		}
		a, b := dumpVal(after[0].Field(f.Idx)), dumpVal(after[1].Field(f.Idx))
		// the repaired ResetDefault assigns every member (declared default, else the zero value): a default equal
		// to the zero value cannot be told from none - and behaves the same - and is reported as none
		if (a != before[0][i] || b != before[1][i]) && a != dumpVal(reflect.Zero(after[0].Field(f.Idx).Type())) {
			out[f.Idx] = after[0].Field(f.Idx)
		}
	}
	return out
}

// ---------- value generation ----------
var genInts = []int64{0, 1, -1, 2, 127, 128, -128, -129, 255, 256, 32767, 32768, -32768, -32769, 65535, 65536, 2147483647, 2147483648, -2147483648, -2147483649,
	4294967295, math.MaxInt64, math.MinInt64, 100000, -5000000000, 7, -3, 5, 15, 100}

func randInt(rng *rand.Rand) int64 {
	if rng.Intn(3) == 0 {
		return int64(rng.Uint64())
	}
	return genInts[rng.Intn(len(genInts))]
}

func randString(rng *rand.Rand) string {
	switch rng.Intn(8) {
	case 0:
		return ""
	case 1:
		b := make([]byte, 250+rng.Intn(12)) // around the STRING1/STRING4 boundary
		rng.Read(b)
		return string(b)
	case 2:
		return "x y"
	case 3:
		return "dflt"
	}
	b := make([]byte, rng.Intn(12))
	rng.Read(b)
	return string(b)
}

func fillRandom(rng *rand.Rand, v reflect.Value, depth int) {
	t := v.Type()
	switch t.Kind() {
	case reflect.Bool:
		v.SetBool(rng.Intn(2) == 0)
	case reflect.Int8, reflect.Int16, reflect.Int32, reflect.Int64:
		x := randInt(rng)
		if t.Kind() == reflect.Int32 && t.Name() != "int32" && rng.Intn(2) == 0 {
			x = int64(rng.Intn(8))
		}
		v.SetInt(reflect.ValueOf(x).Convert(t).Int())
	case reflect.Uint8, reflect.Uint16, reflect.Uint32:
		v.SetUint(reflect.ValueOf(uint64(randInt(rng))).Convert(t).Uint())
	case reflect.Float32:
		bits := []uint32{0, 0x80000000, 0x3fc00000, 0x7f800000, 0x7fc00000, 0x7fa00001, 1, rng.Uint32(), 0xc0100000, 0x42c84000}[rng.Intn(10)]
		f := math.Float32frombits(bits)
		v.Set(reflect.ValueOf(f).Convert(t))
	case reflect.Float64:
		bits := []uint64{0, 0x8000000000000000, 0x3ff8000000000000, 0x7ff0000000000000, 0x7ff8000000000001, 1, rng.Uint64(), 0xc002000000000000}[rng.Intn(8)]
		v.Set(reflect.ValueOf(math.Float64frombits(bits)).Convert(t))
	case reflect.String:
		v.SetString(randString(rng))
	case reflect.Slice:
		n := []int{0, 0, 1, 2, 3, 5}[rng.Intn(6)]
		if depth <= 0 {
			n = 0
		}
		if t.Elem().Kind() == reflect.Int8 || t.Elem().Kind() == reflect.Uint8 {
			n = []int{0, 1, 5, 127, 128, 300}[rng.Intn(6)]
		}
		if n == 0 && rng.Intn(2) == 0 {
			v.Set(reflect.Zero(t)) // nil
			return
		}
		s := reflect.MakeSlice(t, n, n)
		for i := 0; i < n; i++ {
			fillRandom(rng, s.Index(i), depth-1)
		}
		v.Set(s)
	case reflect.Array:
		for i := 0; i < v.Len(); i++ {
			fillRandom(rng, v.Index(i), depth-1)
		}
	case reflect.Map:
		n := []int{0, 0, 1, 2, 4}[rng.Intn(5)]
		if depth <= 0 {
			n = 0
		}
		if n == 0 && rng.Intn(2) == 0 {
			v.Set(reflect.Zero(t))
			return
		}
		m := reflect.MakeMap(t)
		for i := 0; i < n; i++ {
			k := reflect.New(t.Key()).Elem()
			fillRandom(rng, k, depth-1)
			if k.Kind() == reflect.Float32 || k.Kind() == reflect.Float64 {
				if k.Float() != k.Float() {
					continue // NaN keys are never equal to themselves
				}
			}
			x := reflect.New(t.Elem()).Elem()
			fillRandom(rng, x, depth-1)
			m.SetMapIndex(k, x)
		}
		v.Set(m)
	case reflect.Struct:
		// start from the reset value so that optional members sit at their declared default about half the time
		if p, ok := v.Addr().Interface().(tarsStruct); ok {
			p.ResetDefault()
		}
		for _, f := range fieldsOf(t) {
			fv := v.Field(f.Idx)
			k := fv.Kind()
			scalar := k != reflect.Struct && k != reflect.Slice && k != reflect.Map && k != reflect.Array
			if scalar && !f.Req && rng.Intn(2) == 0 {
				continue
			}
			fillRandom(rng, fv, depth-1)
		}
	}
}

// valuesEqual compares the input with the decoded value: nil = empty; floats by bit pattern except that an
// optional float that compares equal (==) to its default may come back as the default (signed zero)
func valuesEqual(a, b reflect.Value, optDefault *reflect.Value) bool {
	t := a.Type()
	switch t.Kind() {
	case reflect.Float32, reflect.Float64:
		if t.Kind() == reflect.Float32 {
			if f32bits(a) == f32bits(b) {
				return true
			}
		} else if math.Float64bits(a.Float()) == math.Float64bits(b.Float()) {
			return true
		}
		if optDefault != nil && a.Float() == optDefault.Float() { // omitted on the wire, decoded as the default
			return valuesEqual(*optDefault, b, nil)
		}
		return false
	case reflect.Slice, reflect.Array:
		if a.Len() != b.Len() {
			return false
		}
		for i := 0; i < a.Len(); i++ {
			if !valuesEqual(a.Index(i), b.Index(i), nil) {
				return false
			}
		}
		return true
	case reflect.Map:
		if a.Len() != b.Len() {
			return false
		}
		for _, k := range a.MapKeys() {
			bv := b.MapIndex(k)
			if !bv.IsValid() || !valuesEqual(a.MapIndex(k), bv, nil) {
				return false
			}
		}
		return true
	case reflect.Struct:
		var def reflect.Value
		if p, ok := reflect.New(t).Interface().(tarsStruct); ok {
			p.ResetDefault()
			def = reflect.ValueOf(p).Elem()
		}
		for _, f := range fieldsOf(t) {
			var od *reflect.Value
			if !f.Req && def.IsValid() {
				d := def.Field(f.Idx)
				od = &d
			}
			if !valuesEqual(a.Field(f.Idx), b.Field(f.Idx), od) {
				return false
			}
		}
		return true
	}
	return a.Interface() == b.Interface()
}

func trunc(s string, n int) string {
	if len(s) > n {
		return s[:n] + "..."
	}
	return s
}

// ---------- struct codecs ----------
func encode(s tarsStruct) (bs []byte, err error) {
	defer func() {
		if r := recover(); r != nil {
			err = fmt.Errorf("panic: %v", r)
		}
	}()
	buf := codec.NewBuffer()
	if err := s.WriteTo(buf); err != nil {
		return nil, err
	}
	return append([]byte(nil), buf.ToBytes()...), nil
}

func decodeInto(target tarsStruct, bs []byte) (obs string, errMsg string) {
	defer func() {
		if r := recover(); r != nil {
			obs, errMsg = "OPanic", fmt.Sprint(r)
		}
	}()
	err := target.ReadFrom(codec.NewReader(append([]byte(nil), bs...)))
	if err != nil {
		return "OErr", err.Error()
	}
	return "OVal " + dumpVal(reflect.ValueOf(target).Elem()), ""
}

func runStructs(rng *rand.Rand, prog int, per int, out *progOut) {
	var mine []structReg
	for _, s := range structs {
		if s.Prog == prog {
			mine = append(mine, s)
		}
	}
	c := &ctx{sid: map[reflect.Type]int{}}
	for i, s := range mine {
		c.sid[reflect.TypeOf(s.Mk()).Elem()] = i
	}
	for sid, s := range mine {
		t := reflect.TypeOf(s.Mk()).Elem()
		defs := declaredDefaults(s.Mk, t)
		var parts, dparts []string
		for _, f := range fieldsOf(t) {
			d, pd := "None", "-"
			if v, ok := defs[f.Idx]; ok {
				d = "(Some " + dumpVal(v) + ")"
				pd = plain(v)
			}
			parts = append(parts, fmt.Sprintf("{| ftag := %d; freq := %s; fty := %s; fdef := %s |}", f.Tag, coqBool(f.Req), c.coqTy(t.Field(f.Idx).Type), d))
			dparts = append(dparts, fmt.Sprintf("%d:%s:%s:%s:%s:%s=%s", f.Tag, coqBool(f.Req), f.Name, f.Origin, f.Json, t.Field(f.Idx).Type.String(), pd))
		}
		out.Schemas = append(out.Schemas, "["+strings.Join(parts, "; ")+"]")
		out.Descs = append(out.Descs, t.Name()+"{"+strings.Join(dparts, ";")+"}")
		for i := 0; i < per; i++ {
			v := s.Mk()
			fillRandom(rng, reflect.ValueOf(v).Elem(), 3)
			out.Values++
			note := dumpVal(reflect.ValueOf(v).Elem())
			bs, err := encode(v)
			if err != nil {
				out.Failures = append(out.Failures, failOut{"tars2go/gen/encode-error", fmt.Sprintf("struct %s: WriteTo failed: %v; value %s", s.Name, err, trunc(note, 400))})
				continue
			}
			fresh := s.Mk()
			obs, em := decodeInto(fresh, bs)
			out.Cases = append(out.Cases, caseOut{Kind: "enc", Sid: sid, Name: s.Name, Bytes: hex.EncodeToString(bs), Obs: obs, Note: trunc(note, 300)})
			if obs == "OErr" || obs == "OPanic" {
				out.Failures = append(out.Failures, failOut{"tars2go/gen/roundtrip-decode-fails", fmt.Sprintf("struct %s: decoding the encoding of a value failed: %s %s; value %s", s.Name, obs, em, trunc(note, 400))})
				continue
			}
			if !valuesEqual(reflect.ValueOf(v).Elem(), reflect.ValueOf(fresh).Elem(), nil) {
				out.Failures = append(out.Failures, failOut{"tars2go/gen/roundtrip-value-differs", fmt.Sprintf("struct %s: encode/decode changed the value: in %s out %s", s.Name, trunc(note, 400), trunc(obs, 400))})
			}
			// truncations of the encoding (counts cannot grow, so nothing here allocates beyond the input)
			if len(bs) > 0 && i%2 == 0 {
				cut := bs[:rng.Intn(len(bs))]
				obs2, _ := decodeInto(s.Mk(), cut)
				out.Cases = append(out.Cases, caseOut{Kind: "dec", Sid: sid, Name: s.Name, Bytes: hex.EncodeToString(cut), Obs: obs2})
			}
		}
	}
}

// ---------- interfaces: proxy -> loop-back servant -> dispatcher -> implementation ----------
type handler struct {
	rng     *rand.Rand
	outs    []bool
	gotIn   []reflect.Value // per argument: the value received (in arguments)
	sentOut []reflect.Value // per argument: the value written (out arguments)
	sentRet reflect.Value
	called  string
	fail    bool
	withCtx bool
	sawCtx  bool
}

var errImpl = errors.New("c16 servant implementation error")

// call is what every generated servant method delegates to
func (h *handler) call(name string, hasCtx bool, args []interface{}, ret interface{}) error {
	h.called = name
	h.sawCtx = hasCtx
	h.gotIn = make([]reflect.Value, len(args))
	h.sentOut = make([]reflect.Value, len(args))
	for i, a := range args {
		v := reflect.ValueOf(a)
		isOut := i < len(h.outs) && h.outs[i]
		if isOut {
			fillRandom(h.rng, v.Elem(), 2)
			c := reflect.New(v.Type().Elem()).Elem()
			c.Set(v.Elem())
			h.sentOut[i] = c
			continue
		}
		if v.Kind() == reflect.Ptr {
			v = v.Elem()
		}
		c := reflect.New(v.Type()).Elem()
		c.Set(v)
		h.gotIn[i] = c
	}
	if ret != nil {
		rv := reflect.ValueOf(ret).Elem()
		fillRandom(h.rng, rv, 2)
		c := reflect.New(rv.Type()).Elem()
		c.Set(rv)
		h.sentRet = c
	}
	if h.fail {
		return errImpl
	}
	return nil
}

type loopback struct {
	disp    dispatcher
	impl    interface{}
	withCtx bool
	version int16
	sawFunc string
	sawType byte
}

func (l *loopback) Name() string { return "c16.loopback" }
func (l *loopback) TarsInvoke(ctx context.Context, cType byte, sFuncName string, buf []byte, status map[string]string, reqContext map[string]string, resp *requestf.ResponsePacket) error {
	l.sawFunc, l.sawType = sFuncName, cType
	req := requestf.RequestPacket{IVersion: l.version, CPacketType: int8(cType), IRequestId: 7, SServantName: "c16.loopback", SFuncName: sFuncName,
		SBuffer: tools.ByteToInt8(buf), Status: status, Context: reqContext}
	return l.disp.Dispatch(ctx, l.impl, &req, resp, l.withCtx)
}
func (l *loopback) TarsSetTimeout(t int)                 {}
func (l *loopback) TarsSetProtocol(model.Protocol)       {}
func (l *loopback) Endpoints() []*endpoint.Endpoint      { return nil }
func (l *loopback) SetPushCallback(callback func([]byte)) {}

func runIfaces(rng *rand.Rand, prog int, per int, out *progOut) {
	for _, it := range ifaces {
		if it.Prog != prog {
			continue
		}
		for _, fn := range it.Funcs {
			for k := 0; k < per; k++ {
				func() {
					defer func() {
						if r := recover(); r != nil {
							out.Failures = append(out.Failures, failOut{"tars2go/gen/call-panics", fmt.Sprintf("interface %s function %s: panic in the generated proxy/dispatcher: %v", it.Name, fn.Wire, r)})
						}
					}()
					h := &handler{rng: rng, outs: fn.Outs, fail: k%5 == 4, withCtx: k%2 == 1}
					px := it.Mk()
					var impl interface{}
					if h.withCtx {
						impl = it.ImplCtx(h)
					} else {
						impl = it.Impl(h)
					}
					lb := &loopback{disp: it.Mk(), impl: impl, withCtx: h.withCtx, version: basef.TARSVERSION}
					px.SetServant(lb)
					m := reflect.ValueOf(px).MethodByName(fn.Go)
					if !m.IsValid() {
						out.Failures = append(out.Failures, failOut{"tars2go/gen/proxy-method-missing", fmt.Sprintf("interface %s: the generated proxy has no method %s", it.Name, fn.Go)})
						return
					}
					mt := m.Type()
					nargs := mt.NumIn() - 1 // the variadic opts
					if nargs != len(fn.Outs) {
						out.Failures = append(out.Failures, failOut{"tars2go/gen/proxy-signature", fmt.Sprintf("interface %s function %s: %d parameters generated, %d declared", it.Name, fn.Wire, nargs, len(fn.Outs))})
						return
					}
					args := make([]reflect.Value, nargs)
					sent := make([]reflect.Value, nargs)
					for i := 0; i < nargs; i++ {
						pt := mt.In(i)
						if pt.Kind() == reflect.Ptr {
							p := reflect.New(pt.Elem())
							if !fn.Outs[i] { // an out parameter starts as the zero value (a used one meets C04's stale-member finding)
								fillRandom(rng, p.Elem(), 2)
							}
							args[i] = p
							c := reflect.New(pt.Elem()).Elem()
							c.Set(p.Elem())
							sent[i] = c
						} else {
							v := reflect.New(pt).Elem()
							fillRandom(rng, v, 2)
							args[i] = v
							sent[i] = v
						}
						if fn.Outs[i] && pt.Kind() != reflect.Ptr {
							out.Failures = append(out.Failures, failOut{"tars2go/gen/proxy-signature", fmt.Sprintf("interface %s function %s: out parameter %d is not a pointer", it.Name, fn.Wire, i)})
							return
						}
					}
					res := m.Call(args)
					out.Calls++
					var err error
					if e := res[len(res)-1]; !e.IsNil() {
						err = e.Interface().(error)
					}
					where := fmt.Sprintf("interface %s function %s (withContext=%v)", it.Name, fn.Wire, h.withCtx)
					if lb.sawFunc != fn.Wire {
						out.Failures = append(out.Failures, failOut{"tars2go/gen/call-wrong-function", fmt.Sprintf("%s: the proxy invoked %q", where, lb.sawFunc)})
						return
					}
					if h.called == "" && err != nil {
						out.Failures = append(out.Failures, failOut{"tars2go/gen/call-fails", fmt.Sprintf("%s: %v", where, err)})
						return
					}
					if h.called != fn.Wire {
						out.Failures = append(out.Failures, failOut{"tars2go/gen/call-wrong-function", fmt.Sprintf("%s: the dispatcher called implementation method %q (error %v)", where, h.called, err)})
						return
					}
					if h.sawCtx != h.withCtx {
						out.Failures = append(out.Failures, failOut{"tars2go/gen/call-wrong-function", fmt.Sprintf("%s: wrong servant flavour called", where)})
					}
					// the implementation received what the caller sent
					for i := 0; i < nargs; i++ {
						if fn.Outs[i] {
							continue
						}
						if !h.gotIn[i].IsValid() || !valuesEqual(sent[i], h.gotIn[i], nil) {
							out.Failures = append(out.Failures, failOut{"tars2go/gen/call-argument-differs", fmt.Sprintf("%s: in parameter %d sent %s received %s", where, i, trunc(dumpVal(sent[i]), 300), trunc(dumpVal(h.gotIn[i]), 300))})
						}
					}
					if h.fail {
						if err == nil {
							out.Failures = append(out.Failures, failOut{"tars2go/gen/call-error-lost", fmt.Sprintf("%s: the implementation's error did not reach the caller", where)})
						}
						return
					}
					if err != nil {
						out.Failures = append(out.Failures, failOut{"tars2go/gen/call-fails", fmt.Sprintf("%s: %v", where, err)})
						return
					}
					// the caller got what the implementation returned
					if fn.HasRet {
						if len(res) != 2 || !valuesEqual(h.sentRet, res[0], nil) {
							out.Failures = append(out.Failures, failOut{"tars2go/gen/call-result-differs", fmt.Sprintf("%s: returned %s, caller got %s", where, trunc(dumpVal(h.sentRet), 300), trunc(dumpVal(res[0]), 300))})
						}
					}
					for i := 0; i < nargs; i++ {
						if !fn.Outs[i] {
							continue
						}
						if !valuesEqual(h.sentOut[i], args[i].Elem(), nil) {
							out.Failures = append(out.Failures, failOut{"tars2go/gen/call-result-differs", fmt.Sprintf("%s: out parameter %d set to %s, caller got %s", where, i, trunc(dumpVal(h.sentOut[i]), 300), trunc(dumpVal(args[i].Elem()), 300))})
						}
					}
				}()
			}
		}
	}
}

// one-way flavour of every function: packet type 1, same function, the implementation receives the in-arguments
func runOneWay(rng *rand.Rand, prog int, out *progOut) {
	for _, it := range ifaces {
		if it.Prog != prog {
			continue
		}
		for _, fn := range it.Funcs {
			func() {
				defer func() {
					if r := recover(); r != nil {
						out.Failures = append(out.Failures, failOut{"tars2go/gen/call-panics", fmt.Sprintf("interface %s function %s (one-way): panic in the generated proxy/dispatcher: %v", it.Name, fn.Wire, r)})
					}
				}()
				h := &handler{rng: rng, outs: fn.Outs}
				px := it.Mk()
				lb := &loopback{disp: it.Mk(), impl: it.Impl(h), version: basef.TARSVERSION}
				px.SetServant(lb)
				m := reflect.ValueOf(px).MethodByName(fn.Go + "OneWayWithContext")
				where := fmt.Sprintf("interface %s function %s (one-way)", it.Name, fn.Wire)
				if !m.IsValid() {
					out.Failures = append(out.Failures, failOut{"tars2go/gen/proxy-method-missing", where + ": no OneWayWithContext method"})
					return
				}
				mt := m.Type()
				nargs := mt.NumIn() - 2 // context first, variadic opts last
				if nargs != len(fn.Outs) {
					out.Failures = append(out.Failures, failOut{"tars2go/gen/proxy-signature", fmt.Sprintf("%s: %d parameters generated, %d declared", where, nargs, len(fn.Outs))})
					return
				}
				args := []reflect.Value{reflect.ValueOf(context.Background())}
				sent := make([]reflect.Value, nargs)
				for i := 0; i < nargs; i++ {
					pt := mt.In(i + 1)
					if pt.Kind() == reflect.Ptr {
						p := reflect.New(pt.Elem())
						if !fn.Outs[i] {
							fillRandom(rng, p.Elem(), 2)
						}
						args = append(args, p)
						c := reflect.New(pt.Elem()).Elem()
						c.Set(p.Elem())
						sent[i] = c
					} else {
						v := reflect.New(pt).Elem()
						fillRandom(rng, v, 2)
						args = append(args, v)
						sent[i] = v
					}
				}
				res := m.Call(args)
				out.Calls++
				if e := res[len(res)-1]; !e.IsNil() {
					out.Failures = append(out.Failures, failOut{"tars2go/gen/call-fails", fmt.Sprintf("%s: %v", where, e.Interface())})
					return
				}
				if lb.sawType != 1 || lb.sawFunc != fn.Wire || h.called != fn.Wire {
					out.Failures = append(out.Failures, failOut{"tars2go/gen/call-wrong-function", fmt.Sprintf("%s: packet type %d, invoked %q, implementation method %q", where, lb.sawType, lb.sawFunc, h.called)})
					return
				}
				for i := 0; i < nargs; i++ {
					if fn.Outs[i] {
						continue
					}
					if !h.gotIn[i].IsValid() || !valuesEqual(sent[i], h.gotIn[i], nil) {
						out.Failures = append(out.Failures, failOut{"tars2go/gen/call-argument-differs", fmt.Sprintf("%s: in parameter %d sent %s received %s", where, i, trunc(dumpVal(sent[i]), 300), trunc(dumpVal(h.gotIn[i]), 300))})
					}
				}
			}()
		}
	}
}

func main() {
	var seed int64 = 1
	per, calls, nprog := 6, 4, 0
	for _, a := range os.Args[1:] {
		kv := strings.SplitN(a, "=", 2)
		if len(kv) != 2 {
			continue
		}
		switch kv[0] {
		case "seed":
			seed, _ = strconv.ParseInt(kv[1], 10, 64)
		case "per":
			per, _ = strconv.Atoi(kv[1])
		case "calls":
			calls, _ = strconv.Atoi(kv[1])
		case "progs":
			nprog, _ = strconv.Atoi(kv[1])
		}
	}
	var outs []progOut
	for p := 0; p < nprog; p++ {
		rng := rand.New(rand.NewSource(seed*1000003 + int64(p)))
		o := progOut{Prog: p, Schemas: []string{}, Descs: []string{}, Enums: []string{}, Consts: []string{}, Cases: []caseOut{}, Failures: []failOut{}}
		for _, e := range enums {
			if e.Prog != p {
				continue
			}
			var parts []string
			for i := range e.Keys {
				parts = append(parts, fmt.Sprintf("%s=%d", e.Keys[i], e.Vals[i]))
			}
			o.Enums = append(o.Enums, e.Name+"{"+strings.Join(parts, ";")+"}")
		}
		for _, c := range consts {
			if c.Prog != p {
				continue
			}
			v := reflect.ValueOf(c.Val)
			o.Consts = append(o.Consts, c.Name+":"+v.Type().String()+"="+plain(v))
		}
		runStructs(rng, p, per, &o)
		runIfaces(rng, p, calls, &o)
		runOneWay(rng, p, &o)
		outs = append(outs, o)
	}
	b, _ := json.Marshal(outs)
	os.Stdout.Write(b)
}
