package main

// C09 — TLS material for the "ssl" endpoint scenarios: a throw-away CA, a server certificate for 127.0.0.1 signed by
// it, and a second server certificate the client does not trust.

import (
	"crypto/ecdsa"
	"crypto/elliptic"
	"crypto/rand"
	"crypto/tls"
	"crypto/x509"
	"crypto/x509/pkix"
	"math/big"
	"net"
	"time"
)

type c09TLS struct {
	server    *tls.Config // certificate signed by the CA the client trusts
	untrusted *tls.Config // self-signed certificate the client does not know
	client    *tls.Config
}

func c09NewTLS() (*c09TLS, error) {
	mk := func(cn string, isCA bool, parent *x509.Certificate, parentKey *ecdsa.PrivateKey) (*x509.Certificate, *ecdsa.PrivateKey, []byte, error) {
		key, err := ecdsa.GenerateKey(elliptic.P256(), rand.Reader)
		if err != nil {
			return nil, nil, nil, err
		}
		serial, _ := rand.Int(rand.Reader, big.NewInt(1<<62))
		tmpl := &x509.Certificate{
			SerialNumber: serial, Subject: pkix.Name{CommonName: cn},
			NotBefore: time.Now().Add(-time.Hour), NotAfter: time.Now().Add(24 * time.Hour),
			KeyUsage: x509.KeyUsageDigitalSignature, ExtKeyUsage: []x509.ExtKeyUsage{x509.ExtKeyUsageServerAuth},
			IPAddresses: []net.IP{net.IPv4(127, 0, 0, 1)}, BasicConstraintsValid: true,
		}
		if isCA {
			tmpl.IsCA = true
			tmpl.KeyUsage |= x509.KeyUsageCertSign
		}
		p, pk := parent, parentKey
		if p == nil {
			p, pk = tmpl, key
		}
		der, err := x509.CreateCertificate(rand.Reader, tmpl, p, &key.PublicKey, pk)
		if err != nil {
			return nil, nil, nil, err
		}
		cert, err := x509.ParseCertificate(der)
		return cert, key, der, err
	}
	ca, caKey, _, err := mk("c09 test ca", true, nil, nil)
	if err != nil {
		return nil, err
	}
	_, srvKey, srvDer, err := mk("127.0.0.1", false, ca, caKey)
	if err != nil {
		return nil, err
	}
	_, otherKey, otherDer, err := mk("127.0.0.1", false, nil, nil)
	if err != nil {
		return nil, err
	}
	pool := x509.NewCertPool()
	pool.AddCert(ca)
	return &c09TLS{
		server:    &tls.Config{Certificates: []tls.Certificate{{Certificate: [][]byte{srvDer}, PrivateKey: srvKey}}},
		untrusted: &tls.Config{Certificates: []tls.Certificate{{Certificate: [][]byte{otherDer}, PrivateKey: otherKey}}},
		client:    &tls.Config{RootCAs: pool},
	}, nil
}
