package main

// C10 — `harness gen-c10probe` -> coq/Gen/C10Probe.v: a table regenerated from the tree on every run. Each row is one
// call of the real tars.Protocol.Invoke (no transport: the bytes it returns, also for one-way requests) on a context
// whose receive time was stamped [queued] ms in the past, with the scripted servant of harness/idl/c10.tars:
//   (request packet, queued ms, what the dispatcher was scripted to do, the bytes Invoke returned, servant entries).
// Rpc/InvokeTimeProofs.v proves (vm_compute) that the model's invoke agrees with every row, so an edit of
// Protocol.Invoke / rsp2Byte / req2Byte / the generated dispatcher that changes one of these answers breaks the proof
// build (L1). Rows keep clear of the millisecond boundary of the queue-timeout decision (expired rows are >= 50 ms
// past it, live rows >= 2 s before it or without timeout), so the table does not depend on how fast this process runs.

import (
	"context"
	"fmt"
	"strings"
	"time"

	"github.com/TarsCloud/TarsGo/tars"
	"github.com/TarsCloud/TarsGo/tars/util/current"
	"github.com/TarsCloud/TarsGo/tars/util/rogger"
	c10idl "verifharness/idlgen/VerifC10"
)

type c10ProbeRow struct {
	q      c10Req
	queued int64
}

func c10ProbeRows() []c10ProbeRow {
	var rows []c10ProbeRow
	id := int32(100)
	add := func(q c10Req, queued int64) {
		id += 7
		q.ID = id * 65537 % 2000003 // varied, deterministic
		if id%5 == 0 {
			q.ID = -q.ID
		}
		q.Token = id
		q.Servant = "VerifApp.C10Server.ProbeObj"
		c10Encode(&q)
		rows = append(rows, c10ProbeRow{q, queued})
	}
	boom := B("boom")
	vers := []int16{c10VerTars, c10VerTup, c10VerJSON}
	// every shape x version x outcome, two-way and one-way, no timeout
	for _, ver := range vers {
		for k, fn := range c10ShapeNames {
			for _, kind := range []int32{c10KOk, c10KTarsErr, c10KPlain} {
				if ver == c10VerTup && kind == c10KOk && c10Shapes[fn].Ret {
					continue // a TUP payload with more than one entry is written in Go's map order: not a fixed row
				}
				if ver == c10VerTup && kind == c10KOk && fn == "fetch" {
					continue
				}
				add(c10Req{Ver: ver, PType: int8(k % 3), Func: fn, Kind: kind, Code: int32(78 + k), Msg: boom}, 0)
			}
		}
		// ping, near-misses of its name, unknown function, void function
		for _, fn := range []string{"tars_ping", "tars_pin", "TARS_PING", "tars_ping ", "nosuch", "", "nop"} {
			add(c10Req{Ver: ver, Func: fn}, 0)
		}
		// the queue-timeout decision: timeout off (<= 0) however long queued; live; expired (also for a ping)
		for _, tq := range [][2]int64{{0, 90000}, {-1, 90000}, {-2147483648, 5000}, {60000, 0}, {60000, 30000}, {2147483647, 100000},
			{1, 60}, {2, 70}, {100, 150}, {100, 30000}, {30000, 30050}, {2147483647, 2147483700}} {
			add(c10Req{Ver: ver, Func: "notify", Code: 5, Msg: boom, Timeout: int32(tq[0])}, tq[1])
			add(c10Req{Ver: ver, PType: c10OneWay, Func: "tars_ping", Timeout: int32(tq[0])}, tq[1])
		}
	}
	// versions the dispatcher refuses, packet types, message types, ids at the int32 bounds
	for _, ver := range []int16{0, 2, 4, -1, 32767, -32768} {
		add(c10Req{Ver: ver, Func: "act", PType: 7}, 0)
		add(c10Req{Ver: ver, Func: "nop", PType: -128}, 0)
	}
	for _, pt := range []int8{0, 1, 2, -1, 127, -128} {
		add(c10Req{Ver: c10VerTars, PType: pt, MType: 0x10, Func: "notify", Kind: c10KTarsErr, Code: -6, Msg: boom}, 0)
	}
	return rows
}

func init() {
	props["gen-c10probe"] = func(a Args) {
		rogger.SetLevel(rogger.OFF)
		imp := &c10Imp{started: map[int32]int{}, finished: map[int32]int{}}
		proto := tars.VerifNewProtocol(new(c10idl.Srv), imp, true)
		var sb strings.Builder
		sb.WriteString("(* GENERATED from /repo by `harness gen-c10probe` on every run - do not edit.\n")
		sb.WriteString("   One row per call of the real tars.Protocol.Invoke with the scripted servant of harness/idl/c10.tars:\n")
		sb.WriteString("   (request packet, ms since the stamped receive time, (script kind 0 done / 1 *tars.Error / 2 plain error / 3 dispatcher refuses,\n")
		sb.WriteString("    code, message, expected payload), bytes returned by Invoke, whether the servant logs entries of this function, entries logged). *)\n")
		sb.WriteString("From Coq Require Import List NArith ZArith.\nFrom TarsV Require Import Base.Hex.\nImport ListNotations.\nOpen Scope N_scope.\n")
		sb.WriteString("Definition c10_probe : list (hexs * N * (N * Z * hexs * hexs) * hexs * bool * N) := [\n")
		rows := c10ProbeRows()
		for i, row := range rows {
			q := row.q
			ctx := current.ContextWithTarsCurrent(context.Background())
			current.SetRecvPkgTsFromContext(ctx, time.Now().UnixNano()/1e6-row.queued)
			rsp := proto.Invoke(ctx, q.Pkg)
			imp.mu.Lock()
			calls := imp.started[q.Token]
			imp.mu.Unlock()
			run := c10Script(&q)
			kind, code := 0, int64(0)
			switch {
			case run.Class == "impl-error" && run.Plain:
				kind = 2
			case run.Class == "impl-error":
				kind, code = 1, int64(run.Code)
			case run.Class == "disp-error":
				kind = 3
			}
			sep := ";"
			if i == len(rows)-1 {
				sep = ""
			}
			counted := c10Scripted(q.Func) && c10IsKnownVer(q.Ver) // the servant logs the entries of these per request
			fmt.Fprintf(&sb, "  (%s, %d, (%d, %s, %s, %s), %s, %s, %d)%s\n", hx(q.Pkg), row.queued, kind, coqZ(code), hx(run.Msg), hx(run.Buf), hx(rsp), coqBool(counted), calls, sep)
		}
		sb.WriteString("].\n")
		fmt.Print(sb.String())
	}
}
