package main

// C05 — decoder totality on hostile input: mutated valid encodings, hostile counts and lengths, deep
// nesting, random bytes; through every generated ReadFrom, the TUP attribute decoder and the client's
// response unpacking. Every decode runs in a child process with an address-space limit.

import (
	"bytes"
	"encoding/json"
	"fmt"
	"math/rand"
	"strings"

	"github.com/TarsCloud/TarsGo/tars/protocol"
	"github.com/TarsCloud/TarsGo/tars/protocol/codec"
	"github.com/TarsCloud/TarsGo/tars/protocol/tup"
)

func init() {
	entryDecode = func(entry string, bs []byte) (obs string, errMsg string) {
		defer func() {
			if r := recover(); r != nil {
				obs, errMsg = "OPanic", fmt.Sprint(r)
			}
		}()
		switch entry {
		case "slice-int8", "slice-uint8":
			// bs = 4-byte big-endian length argument + the reader's content; the target slice holds other content
			n := int32(uint32(bs[0])<<24 | uint32(bs[1])<<16 | uint32(bs[2])<<8 | uint32(bs[3]))
			r := codec.NewReader(append([]byte(nil), bs[4:]...))
			var got []byte
			var err error
			if entry == "slice-int8" {
				t := []int8{-7, 7, -7, 7, -7}
				err = r.ReadSliceInt8(&t, n, true)
				for _, x := range t {
					got = append(got, byte(x))
				}
			} else {
				t := []uint8{7, 249, 7, 249, 7}
				err = r.ReadSliceUint8(&t, n, true)
				got = append(got, t...)
			}
			if err != nil {
				return "SlErr", err.Error()
			}
			return fmt.Sprintf("(SlVal %s %d)", hx(got), r.VerifRemaining()), ""
		case "tup":
			u := tup.NewUniAttribute()
			if err := u.Decode(codec.NewReader(bs)); err != nil {
				return "OErr", err.Error()
			}
			return "OVal (VInt 0%Z)", ""
		case "response-unpack":
			p := &protocol.TarsProtocol{}
			if _, st := p.ParsePackage(bs); st != 1 { // the receive loop only hands over complete packets
				return "OErr", "not a full package"
			}
			if _, err := p.ResponseUnpack(bs); err != nil {
				return "OErr", err.Error()
			}
			return "OVal (VInt 0%Z)", ""
		}
		return "OErr", "unknown entry"
	}
}

func hostileCounts(remaining int) [][]byte {
	i32 := func(v uint32) []byte { return []byte{0x02, byte(v >> 24), byte(v >> 16), byte(v >> 8), byte(v)} }
	out := [][]byte{{0x00, 0xff}, {0x00, 0x80}, {0x01, 0x80, 0x00}, {0x01, 0xff, 0xff}, i32(0x7fffffff), i32(0x40000000), i32(0x80000000), i32(0xffffffff),
		i32(0x00010000), {0x01, 0x7f, 0xff}, {0x0c}, {0x03, 0, 0, 0, 0, 0, 0, 0, 5}, {0x10, 0x05}}
	for _, k := range []int{1, 2, 3, 4, 5, 6, 7, 9, 17, 33} { // small counts: above a fixed array's size yet below the bytes left
		out = append(out, mkCount(k))
	}
	if remaining > 1 {
		out = append(out, mkCount(remaining-1))
	}
	out = append(out, mkCount(remaining+1), mkCount(remaining))
	return out
}

// hasRagged: some LIST/MAP with at least two elements has a FIRST element (first value, for a map) that is itself a
// LIST/MAP with at least two elements and a different count
func hasRagged(l []span) bool {
	cnt := func(s span) int {
		if s.Ty == 8 {
			return len(s.Kids) / 2
		}
		return len(s.Kids)
	}
	for _, s := range allSpans(l) {
		if (s.Ty == 9 || s.Ty == 8) && cnt(s) >= 2 {
			k := s.Kids[0]
			if s.Ty == 8 {
				k = s.Kids[1]
			}
			if (k.Ty == 9 || k.Ty == 8) && cnt(k) >= 2 && cnt(k) != cnt(s) {
				return true
			}
		}
	}
	return false
}

func c05Gen(tier string, rng *rand.Rand) []mCase {
	initRegistry()
	per, maxLen, nrand := 2, 400, 150
	if tier == "thorough" {
		per, maxLen, nrand = 14, 3000, 3000
	}
	var cs []mCase
	mkS := func(b base, kind, note string, bs []byte) mCase {
		c := mCase{g: gCase{Kind: "dec", Struct: b.e.name, Sid: b.sid, Bytes: bs, Note: note, Class: kind + "/" + b.e.name}, expect: "safe"}
		if len(bs) > 700 {
			c.g.NoCoq = true
		}
		return c
	}
	var bases []base
	for _, b := range mkBases(rng, per, maxLen) {
		bases = append(bases, b)
	}
	// extra bases with directly nested containers of differing sizes (an outer list/map with >= 2 elements one of which is a
	// list/map with another count), so that the near-count mutations below meet inner counts that differ from outer ones
	for sid, e := range registry {
		kept := 0
		for i := 0; i < 80 && kept < 2; i++ {
			v := gRandomValue(rng, e)
			if bs, err := gEncode(v); err == nil && len(bs) <= 4*maxLen {
				if sp, ok := walkTop(bs); ok && hasRagged(sp) {
					bases = append(bases, base{e, sid, v, bs, sp})
					kept++
				}
			}
		}
	}
	// extra bases for the two packet types every process decodes from the network
	for sid, e := range registry {
		if e.name == "requestf.RequestPacket" || e.name == "requestf.ResponsePacket" {
			for i := 0; i < 6*per; i++ {
				v := gRandomValue(rng, e)
				if bs, err := gEncode(v); err == nil && len(bs) <= maxLen {
					if sp, ok := walkTop(bs); ok {
						bases = append(bases, base{e, sid, v, bs, sp})
					}
				}
			}
		}
	}
	for _, b := range bases {
		cs = append(cs, mkS(b, "valid", "", b.bytes))
		for i := 0; i < 4; i++ { // bit flips / byte replacement
			nb := append([]byte(nil), b.bytes...)
			for k := 0; k <= rng.Intn(3) && len(nb) > 0; k++ {
				p := rng.Intn(len(nb))
				if rng.Intn(2) == 0 {
					nb[p] ^= 1 << uint(rng.Intn(8))
				} else {
					nb[p] = byte(rng.Intn(256))
				}
			}
			cs = append(cs, mkS(b, "flip", "", nb))
		}
		if len(b.bytes) > 2 { // truncate + junk
			cut := rng.Intn(len(b.bytes))
			junk := make([]byte, rng.Intn(6))
			rng.Read(junk)
			cs = append(cs, mkS(b, "trunc-junk", "", append(append([]byte(nil), b.bytes[:cut]...), junk...)))
		}
		for _, s := range allSpans(b.spans) { // hostile counts and lengths
			if s.CountField != nil {
				cf := *s.CountField
				hc := hostileCounts(len(b.bytes) - cf.End)
				for _, k := range rng.Perm(len(hc))[:7] {
					nb := append(append(append([]byte(nil), b.bytes[:cf.Start]...), hc[k]...), b.bytes[cf.End:]...)
					cs = append(cs, mkS(b, "hostile-count", fmt.Sprintf("count of wire type %d at %d := % x", s.Ty, cf.Start, hc[k]), nb))
				}
				// counts that disagree with the elements actually present by a little: understated (further element heads
				// follow the announced ones - with nested containers the inner counts then differ from the outer one) and
				// overstated by one; always, not sampled
				if s.Ty == 9 || s.Ty == 8 {
					n := len(s.Kids)
					if s.Ty == 8 {
						n /= 2
					}
					seen := map[int]bool{n: true}
					for _, k := range []int{n - 1, 1, n / 2, n + 1} {
						if k < 0 || seen[k] {
							continue
						}
						seen[k] = true
						nb := append(append(append([]byte(nil), b.bytes[:cf.Start]...), mkCount(k)...), b.bytes[cf.End:]...)
						cs = append(cs, mkS(b, "near-count", fmt.Sprintf("count of wire type %d at %d := %d (elements present: %d)", s.Ty, cf.Start, k, n), nb))
					}
				}
			}
			if s.LenAt >= 0 && s.LenSize == 4 {
				for _, v := range []uint32{0xffffffff, 0x80000000, 0x7fffffff, 0x00100000} {
					nb := append([]byte(nil), b.bytes...)
					nb[s.LenAt], nb[s.LenAt+1], nb[s.LenAt+2], nb[s.LenAt+3] = byte(v>>24), byte(v>>16), byte(v>>8), byte(v)
					cs = append(cs, mkS(b, "hostile-strlen", fmt.Sprintf("STRING4 length := %#x", v), nb))
				}
			}
			if s.LenAt >= 0 && s.LenSize == 1 {
				nb := append([]byte(nil), b.bytes...)
				nb[s.LenAt] = 0xff
				cs = append(cs, mkS(b, "hostile-strlen", "STRING1 length := 255", nb))
			}
		}
	}
	// a RECURSIVE struct type (the test IDL's Rec { 0 require int id; 1 optional vector<Rec> kids; ... }): every nesting
	// level announces as many elements as bytes are left at that level - each count passes the generated check, together
	// they add up quadratically (known finding decode/over-allocation/recursive-type)
	for _, b := range bases {
		if b.e.name != "verifidl.Rec" {
			continue
		}
		const L = 4000
		var bs []byte
		for len(bs)+8 <= L { // 0c: id = 0; 19: kids LIST; 02 nnnnnnnn: count; 0a: first element StructBegin
			rem := L - len(bs) - 7
			bs = append(bs, 0x0c, 0x19, 0x02, byte(rem>>24), byte(rem>>16), byte(rem>>8), byte(rem), 0x0a)
		}
		c := mkS(b, "nested-counts", fmt.Sprintf("%d levels of (id = 0; kids: LIST of as many elements as bytes are left; first element ...)", L/8), bs)
		c.sigHint = "recursive-type"
		cs = append(cs, c)
		break
	}
	// nesting bombs and random bytes, through a few struct types
	var pkt []base
	for _, b := range bases {
		if b.e.name == "requestf.RequestPacket" || b.e.name == "requestf.ResponsePacket" || b.e.name == "verifidl.Rec" || b.e.name == "verifidl.Containers" {
			pkt = append(pkt, b)
		}
	}
	depths := []int{100, 511, 512, 513, 600}
	big := []int{100000, 10485752}
	if tier == "thorough" {
		depths = append(depths, 50, 514, 520, 640)
	}
	seenT := map[string]bool{}
	for _, b := range pkt {
		if seenT[b.e.name] {
			continue
		}
		seenT[b.e.name] = true
		pats := map[string][]byte{"struct": {0x0a}, "list": {0x09, 0x00, 0x01}, "map": {0x08, 0x00, 0x01}, "mixed": {0x0a, 0x09, 0x00, 0x01}}
		for name, pat := range pats {
			for _, d := range depths {
				cs = append(cs, mkS(b, "nest-"+name, fmt.Sprintf("%d x % x (unknown field at tag 0)", d, pat), bytes.Repeat(pat, d)))
			}
			for _, d := range big {
				c := mkS(b, "nest-big-"+name, fmt.Sprintf("%d x % x", d, pat), bytes.Repeat(pat, d/len(pat)))
				c.g.NoCoq = true
				cs = append(cs, c)
			}
		}
		for _, bm := range skipBombs() {
			cs = append(cs, mkS(b, "skip-bomb", bm.note, bm.bs))
		}
		// nesting up to the limit, then two-element lists whose first element is again a list: a skipper that ignores
		// element errors must still be stopped by the limit at every further level (no drift of the depth counter)
		for _, k := range []int{100, 2000, 2600000} {
			for _, lim := range []int{511, 512} {
				if k > 100000 && (lim != 512 || b.e.name != "requestf.RequestPacket") {
					continue // the packet-limit sized instance once
				}
				bs := append(bytes.Repeat([]byte{0x09, 0x00, 0x02}, lim), bytes.Repeat([]byte{0x09, 0x09, 0x00, 0x02}, k)...)
				c := mkS(b, "nest-drift", fmt.Sprintf("%d x 09 00 02 then %d x 09 09 00 02", lim, k), bs)
				if k > 150 {
					c.g.NoCoq = true
				}
				cs = append(cs, c)
			}
		}
		for i := 0; i < nrand; i++ {
			bs := make([]byte, rng.Intn(40))
			rng.Read(bs)
			if len(bs) > 0 && rng.Intn(2) == 0 {
				bs[0] = byte(rng.Intn(3)<<4) | byte(rng.Intn(14))
			}
			cs = append(cs, mkS(b, "random", "", bs))
		}
	}
	return cs
}

// TUP attribute sets and client response unpacking (implementation only; not modelled)
func c05Entries(tier string, rng *rand.Rand, res *Result) {
	var reqs []decReq
	var notes []string
	add := func(entry, note string, bs []byte) {
		reqs = append(reqs, decReq{ID: len(reqs), Entry: entry, Bytes: bs})
		notes = append(notes, entry+": "+note)
	}
	n := 60
	if tier == "thorough" {
		n = 1500
	}
	for i := 0; i < n; i++ {
		u := tup.NewUniAttribute()
		for k := 0; k < rng.Intn(4); k++ {
			b := make([]byte, rng.Intn(20))
			rng.Read(b)
			u.PutBuffer(fmt.Sprintf("k%d", k), b)
		}
		buf := codec.NewBuffer()
		u.Encode(buf)
		bs := append([]byte(nil), buf.ToBytes()...)
		add("tup", "valid", bs)
		if sp, ok := walkTop(bs); ok {
			for _, s := range allSpans(sp) {
				if s.CountField != nil {
					cf := *s.CountField
					for _, h := range hostileCounts(len(bs) - cf.End) {
						add("tup", fmt.Sprintf("count at %d := % x", cf.Start, h), append(append(append([]byte(nil), bs[:cf.Start]...), h...), bs[cf.End:]...))
					}
				}
			}
		}
		nb := append([]byte(nil), bs...)
		if len(nb) > 0 {
			nb[rng.Intn(len(nb))] ^= byte(1 << uint(rng.Intn(8)))
		}
		add("tup", "flip", nb)
	}
	add("tup", "map head + count 2^31-1, nothing else", []byte{0x08, 0x02, 0x7f, 0xff, 0xff, 0xff})
	add("tup", "map head + count 2^27", []byte{0x08, 0x02, 0x08, 0x00, 0x00, 0x00})
	for _, bm := range skipBombs() {
		add("tup", "skip bomb: "+bm.note, bm.bs)
		add("response-unpack", "skip bomb: "+bm.note, c05Frame(bm.bs))
	}
	for l := 0; l <= 5; l++ { // framing boundary: a length prefix below the header size must never reach the unpacker
		pk := make([]byte, 4+l)
		pk[3] = byte(l)
		add("response-unpack", fmt.Sprintf("length prefix %d", l), pk)
	}
	// response packets as the client receive path sees them: 4-byte length + body
	initRegistry()
	for sid, e := range registry {
		if e.name != "requestf.ResponsePacket" {
			continue
		}
		_ = sid
		for i := 0; i < n; i++ {
			v := gRandomValue(rng, e)
			body, _ := gEncode(v)
			if rng.Intn(2) == 0 && len(body) > 0 {
				body[rng.Intn(len(body))] = byte(rng.Intn(256))
			}
			pk := make([]byte, 4+len(body))
			pk[0], pk[1], pk[2], pk[3] = byte(len(pk)>>24), byte(len(pk)>>16), byte(len(pk)>>8), byte(len(pk))
			copy(pk[4:], body)
			add("response-unpack", "mutated response", pk)
		}
		add("response-unpack", "header only", []byte{0, 0, 0, 4})
	}
	resp := decodeMany(reqs, 12, 20000)
	cnt := map[string]int{}
	for i, r := range resp {
		sig := ""
		switch {
		case r.Died != "":
			sig = "decode/process-death/" + reqs[i].Entry
		case r.Obs == "OPanic":
			sig = "decode/panic/" + reqs[i].Entry + "/" + classifyPanic(r.Err)
		case r.Alloc > 256*uint64(len(reqs[i].Bytes))+(1<<20):
			sig = "decode/over-allocation/" + reqs[i].Entry
		case r.Us > slowLimitUs(len(reqs[i].Bytes)) && stillSlow(reqs[i]):
			sig = "decode/slow/" + reqs[i].Entry
		}
		cnt[reqs[i].Entry+"/"+map[bool]string{true: "ok", false: "notok"}[r.Obs != "OErr" && r.Died == "" && r.Obs != "OPanic"]]++
		if sig != "" {
			res.Failures = append(res.Failures, Failure{Sig: sig, Desc: fmt.Sprintf("%s: obs=%s err=%s died=%s alloc=%d us=%d", notes[i], r.Obs, r.Err, r.Died, r.Alloc, r.Us), Replay: reqs[i]})
		}
	}
	res.Evaluations += len(reqs)
	res.Stats["entry_point_cases"] = cnt
}

func init() {
	props["C05"] = func(a Args) {
		var stats map[string]interface{}
		var ms []mCase
		p := Prop[gCase]{
			ID: "C05", Require: gRequireT, CaseType: "gcase", Mismatch: "failing_from (gcase_check_t env0)",
			Corr:  "Corr.dec_check (decode = generated ReadFrom on hostile input: same outcome class ok / error / panic, same value)",
			Rule:  "valid encodings of every generated struct type (RequestPacket/ResponsePacket over-weighted), mutated: bit flips and byte replacement, truncation + junk, every list/map/simple-list count replaced by hostile values (-1, -128, -32768, 2^31-1, 2^30, -2^31, 65536, remaining-1/+0/+1, LONG, wrong tag), STRING4/STRING1 lengths by 2^32-1, 2^31, 255; nesting bombs of 100/511/512/513/600 (and 10^5, 10 MiB; implementation only) struct / list / map / mixed heads as an unknown member; random bytes; plus TUP attribute sets and client response unpacking (implementation only). Every decode in a child process (6 GiB address-space limit, wall-clock cap); monitors: no panic, no process death, allocation <= 256 x input + 1 MiB, decode time; class = (mutation kind, struct type)",
			Shard: 150,
			Gen: func(tier string, rng *rand.Rand) []gCase {
				ms = c05Gen(tier, rng)
				out := make([]gCase, len(ms))
				for i := range ms {
					out[i] = ms[i].g
				}
				return out
			},
			RunAll: func(cs []gCase) [][]Failure {
				if len(ms) != len(cs) {
					ms = make([]mCase, len(cs))
					for i := range cs {
						ms[i] = mCase{g: cs[i], expect: "safe"}
					}
				}
				gs, fails, st := runM("C05", ms, 15000)
				copy(cs, gs)
				stats = st
				return fails
			},
			Coq:   gCoq,
			Class: func(c *gCase) string { return c.Class },
			ReplayExtra: func(raw json.RawMessage, res *Result) bool {
				var rq decReq
				if json.Unmarshal(raw, &rq) != nil || rq.Entry == "" {
					return false
				}
				r := decodeMany([]decReq{rq}, 1, 30000)[0]
				sig := ""
				net := strings.HasPrefix(rq.Entry, "net-")
				switch {
				case r.Died != "" && net:
					sig = "network/process-death/" + rq.Entry
				case r.Obs == "OPanic" && net:
					sig = "network/panic-or-dead-server/" + rq.Entry
				case r.Died != "":
					sig = "decode/process-death/" + rq.Entry
				case r.Obs == "OPanic":
					sig = "decode/panic/" + rq.Entry + "/" + classifyPanic(r.Err)
				case !net && r.Alloc > 256*uint64(len(rq.Bytes))+(1<<20):
					sig = "decode/over-allocation/" + rq.Entry
				case !net && r.Us > slowLimitUs(len(rq.Bytes)):
					sig = "decode/slow/" + rq.Entry
				}
				res.Evaluations++
				if sig != "" {
					res.Failures = append(res.Failures, Failure{Sig: sig, Desc: fmt.Sprintf("replay %s: obs=%s err=%s died=%s alloc=%d us=%d", rq.Entry, r.Obs, r.Err, r.Died, r.Alloc, r.Us), Replay: rq})
				}
				return true
			},
			Extra: func(tier string, rng *rand.Rand, res *Result) {
				for k, v := range stats {
					res.Stats[k] = v
				}
				c05Entries(tier, rng, res)
				c05Net(tier, rng, res)
				c05Client(tier, rng, res)
			},
		}
		runProp(p, a)
	}
}
