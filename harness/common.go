package main

import (
	"encoding/hex"
	"encoding/json"
	"fmt"
	"math/rand"
	"os"
	"path/filepath"
	"sort"
	"strings"
	"sync"
)

// Failure is a violation of the property observed directly on the implementation (layer L3).
type Failure struct {
	Sig    string      `json:"sig"`    // narrow signature: entry point / defect site / outcome class
	Desc   string      `json:"desc"`   // what was expected and what was observed
	Replay interface{} `json:"replay"` // the concrete input / history / trace
}

// Result is what one harness run hands to the driver.
type Result struct {
	Property    string                 `json:"property"`
	Tier        string                 `json:"tier"`
	Seed        int64                  `json:"seed"`
	Evaluations int                    `json:"evaluations"`
	Distinct    int                    `json:"distinct_nontrivial"`
	Rule        string                 `json:"rule"`
	Samples     []interface{}          `json:"samples"`
	Failures    []Failure              `json:"failures"`
	Corr        string                 `json:"corr"`       // name of the correspondence definition evaluated by coqc
	CaseFiles   []string               `json:"case_files"` // Coq files to evaluate
	Cases       []json.RawMessage      `json:"cases"`      // per L2 case index: the case (for replay of a mismatch)
	Stats       map[string]interface{} `json:"stats"`
	Traces      int                    `json:"traces_validated"`
}

// Prop describes one property's correspondence + monitor run over cases of type C.
type Prop[C any] struct {
	ID       string
	Require  string // Coq Require line(s) of the case file
	CaseType string // Coq type of a case
	Mismatch string // Coq function : N -> list case -> list N (indices of mismatching cases, starting at the offset)
	Corr     string
	Rule     string
	Shard    int // max cases per Coq file
	Workers  int // parallel Run workers (1 = sequential)
	Corpus   func() []C
	Gen      func(tier string, rng *rand.Rand) []C
	RunAll   func(cs []C) [][]Failure // optional: own scheduling of all cases (replaces the worker loop)
	Run      func(c *C) []Failure     // runs the implementation on c, records observations in c, returns monitor failures
	Coq      func(c *C) string        // Coq term of the case including the observations; "" = not sent to the model
	Class    func(c *C) string        // equivalence class for distinct_nontrivial; "" = trivial
	Extra    func(tier string, rng *rand.Rand, res *Result)
	ReplayExtra func(raw json.RawMessage, res *Result) bool // replay of a case produced by Extra; false: not such a case
}

type Args struct {
	Out    string
	Tier   string
	Seed   int64
	Replay string
}

func parseArgs(argv []string) Args {
	a := Args{Out: ".", Tier: "quick", Seed: 1}
	for _, s := range argv {
		kv := strings.SplitN(s, "=", 2)
		if len(kv) != 2 {
			continue
		}
		switch kv[0] {
		case "out":
			a.Out = kv[1]
		case "tier":
			a.Tier = kv[1]
		case "seed":
			fmt.Sscan(kv[1], &a.Seed)
		case "replay":
			a.Replay = kv[1]
		}
	}
	return a
}

type replayFile struct {
	Property string          `json:"property"`
	Kind     string          `json:"kind"`
	Case     json.RawMessage `json:"case"`
}

func runProp[C any](p Prop[C], a Args) {
	rng := rand.New(rand.NewSource(a.Seed))
	res := &Result{Property: p.ID, Tier: a.Tier, Seed: a.Seed, Rule: p.Rule, Corr: p.Corr, Stats: map[string]interface{}{}, Failures: []Failure{}}
	var cases []C
	if a.Replay != "" {
		b, err := os.ReadFile(a.Replay)
		if err != nil {
			fatal("replay: %v", err)
		}
		var rf replayFile
		if err := json.Unmarshal(b, &rf); err != nil {
			fatal("replay: %v", err)
		}
		var c C
		if len(rf.Case) > 0 && p.ReplayExtra != nil && p.ReplayExtra(rf.Case, res) {
			// a case of the property's extra (implementation-only) streams: judged by ReplayExtra
		} else if len(rf.Case) > 0 {
			if err := json.Unmarshal(rf.Case, &c); err != nil {
				fatal("replay case: %v", err)
			}
			cases = append(cases, c)
		}
	} else {
		if p.Corpus != nil {
			cases = append(cases, p.Corpus()...)
		}
		cases = append(cases, p.Gen(a.Tier, rng)...)
	}
	fails := make([][]Failure, len(cases))
	w := p.Workers
	if w < 1 {
		w = 1
	}
	var wg sync.WaitGroup
	ch := make(chan int)
	if p.RunAll != nil {
		fails = p.RunAll(cases)
		w = 0
	}
	for k := 0; k < w; k++ {
		wg.Add(1)
		go func() {
			defer wg.Done()
			for i := range ch {
				fails[i] = p.Run(&cases[i])
			}
		}()
	}
	if w > 0 {
		for i := range cases {
			ch <- i
		}
	}
	close(ch)
	wg.Wait()
	classes := map[string]int{}
	var terms []string
	for i := range cases {
		for _, f := range fails[i] {
			if f.Replay == nil {
				f.Replay = cases[i]
			}
			res.Failures = append(res.Failures, f)
		}
		if p.Class != nil {
			if k := p.Class(&cases[i]); k != "" {
				classes[k]++
			}
		}
		if p.Coq != nil {
			if t := p.Coq(&cases[i]); t != "" {
				terms = append(terms, t)
				b, _ := json.Marshal(cases[i])
				res.Cases = append(res.Cases, b)
			}
		}
	}
	res.Evaluations = len(cases)
	res.Distinct = len(classes)
	res.Stats["class_histogram"] = topClasses(classes, 40)
	for i := 0; i < len(cases) && i < 3; i++ {
		res.Samples = append(res.Samples, cases[(i*7919)%len(cases)])
	}
	shard := p.Shard
	if shard <= 0 {
		shard = 400
	}
	for off := 0; off < len(terms); off += shard {
		end := off + shard
		if end > len(terms) {
			end = len(terms)
		}
		name := filepath.Join(a.Out, fmt.Sprintf("cases_%s_%d.v", p.ID, off/shard))
		var sb strings.Builder
		sb.WriteString(p.Require + "\nFrom Coq Require Import List NArith ZArith.\nImport ListNotations.\nOpen Scope N_scope.\n")
		fmt.Fprintf(&sb, "Definition cases : list (%s) := [\n", p.CaseType)
		sb.WriteString(strings.Join(terms[off:end], ";\n"))
		sb.WriteString("\n].\n")
		fmt.Fprintf(&sb, "Definition M := Eval vm_compute in (%s %d cases).\nPrint M.\n", p.Mismatch, off)
		fmt.Fprintf(&sb, "Definition CNT := Eval vm_compute in (N.of_nat (length cases)).\nPrint CNT.\n")
		if err := os.WriteFile(name, []byte(sb.String()), 0o644); err != nil {
			fatal("write: %v", err)
		}
		res.CaseFiles = append(res.CaseFiles, name)
	}
	if p.Extra != nil && a.Replay == "" {
		p.Extra(a.Tier, rng, res)
	}
	writeResult(a, res)
}

func writeResult(a Args, res *Result) {
	b, _ := json.Marshal(res)
	if err := os.WriteFile(filepath.Join(a.Out, "result.json"), b, 0o644); err != nil {
		fatal("write result: %v", err)
	}
}

func topClasses(m map[string]int, n int) map[string]int {
	type kv struct {
		k string
		v int
	}
	var l []kv
	for k, v := range m {
		l = append(l, kv{k, v})
	}
	sort.Slice(l, func(i, j int) bool { return l[i].v > l[j].v || (l[i].v == l[j].v && l[i].k < l[j].k) })
	out := map[string]int{}
	for i := 0; i < len(l) && i < n; i++ {
		out[l[i].k] = l[i].v
	}
	return out
}

func fatal(f string, a ...interface{}) {
	fmt.Fprintf(os.Stderr, "harness: "+f+"\n", a...)
	os.Exit(3)
}

func hx(b []byte) string { return "\"" + hex.EncodeToString(b) + "\"%hex" }

func hxList(l [][]byte) string {
	s := make([]string, len(l))
	for i, b := range l {
		s[i] = hx(b)
	}
	return "[" + strings.Join(s, "; ") + "]"
}

func coqBool(b bool) string {
	if b {
		return "true"
	}
	return "false"
}

// coqZ renders an integer as a Z literal
func coqZ(v int64) string { return fmt.Sprintf("(%d)%%Z", v) }

// B is a byte string that is written as hex text in JSON (replays, samples).
type B []byte

func (b B) MarshalJSON() ([]byte, error) { return json.Marshal(hex.EncodeToString(b)) }
func (b *B) UnmarshalJSON(d []byte) error {
	var s string
	if err := json.Unmarshal(d, &s); err != nil {
		return err
	}
	x, err := hex.DecodeString(s)
	*b = x
	return err
}
func hxB(l []B) string {
	s := make([]string, len(l))
	for i, b := range l {
		s[i] = hx(b)
	}
	return "[" + strings.Join(s, "; ") + "]"
}
func toB(l [][]byte) []B {
	o := make([]B, len(l))
	for i := range l {
		o[i] = B(l[i])
	}
	return o
}
func fromB(l []B) [][]byte {
	o := make([][]byte, len(l))
	for i := range l {
		o[i] = []byte(l[i])
	}
	return o
}

// trunc shortens a byte string for descriptions.
func trunc(b []byte) []byte {
	if len(b) > 24 {
		return b[:24]
	}
	return b
}
