package main

// gen-selrebuild: coq/Gen/SelRebuild.v is regenerated on every run from the CURRENT source of the reBuildLocked
// methods of the three selectors with a weight table (round-robin, random, mod-hash) - the step that runs under the
// write lock after every Refresh / Add / Remove.  (The general translator harness/xlate*.go does not take them: they
// assign nil to a receiver field and round-robin draws from math/rand.)  This generator knows exactly the statement
// shapes below and emits, statement by statement, a Gallina function over the record rb = (weight table, cursor, table
// cursor); coq/Select/RebuildEquiv.v proves that function equal to the hand-written Selectors.rebuild.  Any other shape
// is not translated: the definition is then missing and the proof - hence L1 of C13 - breaks.
//
//   X.staticWeightRouterCache = nil                                              table := []
//   X.staticWeightRouterCache = selector.BuildStaticWeightList(X.endpoints)      table := bswl        (a parameter)
//   X.lastPosition, X.lastStaticWeightPosition = 0, 0                            both cursors := 0
//   X.<cursor> = uint64(rd.Intn(n))                                              cursor := draw k n   (k = 0, 1, ... in source order)
//   rd := rand.New(rand.NewSource(time.Now().UnixNano()))                        (the source of the draws; left out)
//   if X.enableWeight { ... }            if n := len(X.endpoints); n > 0 { ... }        if n := len(X.staticWeightRouterCache); n > 0 { ... }

import (
	"bytes"
	"fmt"
	"go/ast"
	"go/parser"
	"go/printer"
	"go/token"
	"os"
	"path/filepath"
	"strings"
)

type rbGen struct {
	fset  *token.FileSet
	recv  string
	draws int
	err   string
}

func (g *rbGen) src(n ast.Node) string {
	var b bytes.Buffer
	printer.Fprint(&b, g.fset, n)
	return strings.Join(strings.Fields(b.String()), " ")
}

func (g *rbGen) fail(n ast.Node, why string) string {
	if g.err == "" {
		g.err = why + ": " + g.src(n)
	}
	return "s"
}

var rbFields = map[string]string{"staticWeightRouterCache": "rb_cache", "lastPosition": "rb_pos", "lastStaticWeightPosition": "rb_wpos"}

func rbSet(field, val string) string {
	parts := []string{}
	for _, f := range []string{"rb_cache", "rb_pos", "rb_wpos"} {
		v := f + " s"
		if f == field {
			v = val
		}
		parts = append(parts, f+" := "+v)
	}
	return "{| " + strings.Join(parts, "; ") + " |}"
}

// field name of X.f where X is the receiver
func (g *rbGen) field(e ast.Expr) string {
	if se, ok := e.(*ast.SelectorExpr); ok {
		if id, ok := se.X.(*ast.Ident); ok && id.Name == g.recv {
			return se.Sel.Name
		}
	}
	return ""
}

// the value of a right-hand side, given the bound length variable (name -> Gallina term)
func (g *rbGen) value(e ast.Expr, lhs string, lens map[string]string) string {
	s := g.src(e)
	switch {
	case s == "nil" && lhs == "rb_cache":
		return "[]"
	case s == "0" && lhs != "rb_cache":
		return "0%N"
	case s == "selector.BuildStaticWeightList("+g.recv+".endpoints)" && lhs == "rb_cache":
		return "bswl"
	}
	if lhs != "rb_cache" { // uint64(rd.Intn(n))
		if c, ok := e.(*ast.CallExpr); ok && g.src(c.Fun) == "uint64" && len(c.Args) == 1 {
			if d, ok := c.Args[0].(*ast.CallExpr); ok && g.src(d.Fun) == "rd.Intn" && len(d.Args) == 1 {
				if n, ok := lens[g.src(d.Args[0])]; ok {
					k := g.draws
					g.draws++
					return fmt.Sprintf("draw %d%%nat (%s)", k, n)
				}
			}
		}
	}
	g.fail(e, "value outside the known shapes")
	return "s"
}

// stmts -> Gallina term of type rb with the current state named s
func (g *rbGen) block(l []ast.Stmt, lens map[string]string, ind string) string {
	if len(l) == 0 {
		return "s"
	}
	rest := func() string { return g.block(l[1:], lens, ind) }
	switch st := l[0].(type) {
	case *ast.AssignStmt:
		if g.src(st) == "rd := rand.New(rand.NewSource(time.Now().UnixNano()))" {
			return rest()
		}
		if st.Tok != token.ASSIGN || len(st.Lhs) != len(st.Rhs) {
			return g.fail(st, "assignment outside the known shapes")
		}
		// all right-hand sides first (they do not read the state here), then the fields in order
		out := ""
		for i := range st.Lhs {
			f, ok := rbFields[g.field(st.Lhs[i])]
			if !ok {
				return g.fail(st, "assignment to something else than the table and the cursors")
			}
			out += fmt.Sprintf("let s := %s in\n%s", rbSet(f, g.value(st.Rhs[i], f, lens)), ind)
		}
		return out + rest()
	case *ast.IfStmt:
		if st.Else != nil {
			return g.fail(st, "if with else")
		}
		cond, inner := "", map[string]string{}
		for k, v := range lens {
			inner[k] = v
		}
		if st.Init == nil && g.src(st.Cond) == g.recv+".enableWeight" {
			cond = "enableWeight"
		} else if a, ok := st.Init.(*ast.AssignStmt); ok && a.Tok == token.DEFINE && len(a.Lhs) == 1 && len(a.Rhs) == 1 {
			n := g.src(a.Lhs[0])
			switch g.src(a.Rhs[0]) {
			case "len(" + g.recv + ".endpoints)":
				inner[n] = "N.of_nat n_eps"
			case "len(" + g.recv + ".staticWeightRouterCache)":
				inner[n] = "N.of_nat (length (rb_cache s))"
			default:
				return g.fail(st, "if init outside the known shapes")
			}
			if g.src(st.Cond) != n+" > 0" {
				return g.fail(st, "condition outside the known shapes")
			}
			cond = "N.ltb 0 (" + inner[n] + ")"
		} else {
			return g.fail(st, "condition outside the known shapes")
		}
		body := g.block(st.Body.List, inner, ind+"  ")
		return fmt.Sprintf("let s := (if %s then\n%s  %s\n%s  else s) in\n%s", cond, ind, body, ind, ind) + rest()
	}
	return g.fail(l[0], "statement outside the known shapes")
}

func rbGenerate(root, dir, typ, name string) string {
	g := &rbGen{fset: token.NewFileSet()}
	files, _ := filepath.Glob(filepath.Join(root, dir, "*.go"))
	for _, f := range files {
		if strings.HasSuffix(f, "_test.go") || strings.Contains(filepath.Base(f), "verif_") {
			continue
		}
		af, err := parser.ParseFile(g.fset, f, nil, 0)
		if err != nil {
			continue
		}
		for _, d := range af.Decls {
			fd, ok := d.(*ast.FuncDecl)
			if !ok || fd.Name.Name != "reBuildLocked" || fd.Recv == nil || len(fd.Recv.List) != 1 || fd.Body == nil {
				continue
			}
			if !strings.HasSuffix(g.src(fd.Recv.List[0].Type), typ) || len(fd.Recv.List[0].Names) != 1 {
				continue
			}
			g.recv = fd.Recv.List[0].Names[0].Name
			body := g.block(fd.Body.List, map[string]string{}, "  ")
			if g.err != "" {
				return fmt.Sprintf("(* %s/%s.reBuildLocked is NOT translated: %s *)\nDefinition %s_untranslated : unit := tt.\n", dir, typ, strings.ReplaceAll(g.err, "*)", "* )"), name)
			}
			return fmt.Sprintf("(* %s: func (%s *%s) reBuildLocked() *)\nDefinition %s (enableWeight : bool) (n_eps : nat) (bswl : list nat) (draw : nat -> N -> N) (s : rb) : rb :=\n  %s.\n", dir, g.recv, typ, name, body)
		}
	}
	return fmt.Sprintf("(* %s/%s.reBuildLocked not found *)\nDefinition %s_untranslated : unit := tt.\n", dir, typ, name)
}

// the name of the i-th round of virtual nodes of a consistent-hash member, as ConsistentHash.addLocked builds it: the
// statement `virtualHost := fmt.Sprintf(<format>, <args>)` - its format string and argument texts become Gallina constants
// (Select/NamingProofs.v interprets the format and proves the names of different (host, i) different)
func rbNaming(root string) string {
	fset := token.NewFileSet()
	af, err := parser.ParseFile(fset, filepath.Join(root, "tars/selector/consistenthash/consistenthash_new.go"), nil, 0)
	bytesOf := func(s string) string {
		p := make([]string, len(s))
		for i := 0; i < len(s); i++ {
			p[i] = fmt.Sprint(s[i])
		}
		return "[" + strings.Join(p, "; ") + "]%N"
	}
	found, why := "", "ConsistentHash.addLocked not found"
	if err == nil {
		g := &rbGen{fset: fset}
		for _, d := range af.Decls {
			fd, ok := d.(*ast.FuncDecl)
			if !ok || fd.Name.Name != "addLocked" || fd.Body == nil {
				continue
			}
			why = "no statement `virtualHost := fmt.Sprintf(\"...\", ...)` in addLocked"
			n := 0
			ast.Inspect(fd.Body, func(x ast.Node) bool {
				as, ok := x.(*ast.AssignStmt)
				if !ok || len(as.Lhs) != 1 || len(as.Rhs) != 1 || g.src(as.Lhs[0]) != "virtualHost" {
					return true
				}
				n++
				c, ok := as.Rhs[0].(*ast.CallExpr)
				if !ok || g.src(c.Fun) != "fmt.Sprintf" || len(c.Args) < 1 {
					why = "virtualHost is not built by fmt.Sprintf: " + g.src(as)
					return true
				}
				lit, ok := c.Args[0].(*ast.BasicLit)
				if !ok || lit.Kind != token.STRING || !strings.HasPrefix(lit.Value, "\"") || strings.Contains(lit.Value, "\\") {
					why = "format is not a plain string literal: " + g.src(as)
					return true
				}
				var args []string
				for _, a := range c.Args[1:] {
					args = append(args, bytesOf(g.src(a)))
				}
				found = fmt.Sprintf("(* consistenthash addLocked: %s *)\nDefinition gen_vnode_format : list N := %s.\nDefinition gen_vnode_args : list (list N) := [%s].\n",
					g.src(as), bytesOf(lit.Value[1:len(lit.Value)-1]), strings.Join(args, "; "))
				return true
			})
			if n != 1 {
				found, why = "", fmt.Sprintf("%d assignments to virtualHost in addLocked", n)
			}
		}
	}
	if found == "" {
		return fmt.Sprintf("(* the virtual-node naming is NOT extracted: %s *)\nDefinition gen_vnode_untranslated : unit := tt.\n", strings.ReplaceAll(why, "*)", "* )"))
	}
	return found
}

func init() {
	props["gen-selrebuild"] = func(a Args) {
		root := os.Getenv("VERIF_REPO")
		if root == "" {
			root = "/repo"
		}
		fmt.Println("(* GENERATED from the source of the selectors' reBuildLocked methods by `harness gen-selrebuild` on every run - do not edit *)")
		fmt.Println("From Coq Require Import List NArith.\nImport ListNotations.")
		fmt.Println("Record rb := { rb_cache : list nat; rb_pos : N; rb_wpos : N }.")
		fmt.Print(rbGenerate(root, "tars/selector/modhash", "ModHash", "gen_mh_reBuild"))
		fmt.Print(rbGenerate(root, "tars/selector/random", "Random", "gen_rnd_reBuild"))
		fmt.Print(rbGenerate(root, "tars/selector/roundrobin", "RoundRobin", "gen_rr_reBuild"))
		fmt.Print(rbNaming(root))
	}
}
