package main

// xlate_state.go - "state mode" of the translator (design/XLATE.md): methods of a type that wraps a mutable library
// object (codec.Reader around bytes.Reader). The receiver is abstracted to a state value `rd` of a GoSem record type
// that is threaded through the code; declared library calls are primitives of the target language with stated
// semantics; pointer parameters are in/out values; functions that recurse take a fuel argument.

import (
	"go/ast"
	"go/token"
	"go/types"
	"strings"
)

type xStateSpec struct {
	Type   string              // GoSem type of the state
	Fields map[string]xStField // receiver fields kept in the state, by printed text ("b.depth")
	Pure   map[string]string   // calls that only read the state: callee text -> GoSem function (args then rd)
	Prims  map[string]xStPrim  // library calls: callee text -> primitive
	Calls  map[string]string   // methods / helpers translated as units: callee text -> unit name
	Errs   map[string]bool     // calls that yield a non-nil error whatever their arguments (fmt.Errorf)
	Object string              // the state is this parameter (a pointer to the wrapping type) instead of the receiver
}
type xStField struct{ Get, Set string }

// xStPrim: the GoSem function takes the selected arguments and rd and returns (rd, outs.., results..).
// Outs are argument positions that must be &v or *p: v / *p receives a value. Fixed pins the text of other arguments.
type xStPrim struct {
	Coq   string
	Args  []int
	Outs  []int
	Fixed map[int]string
	NRes  int
}

// stInv: a recognised state call
type stInv struct {
	term string     // GoSem term: a tuple for a primitive, a ctl for a unit
	unit bool       // call of a translated unit
	outs []ast.Expr // the places that receive the out values
	nres int        // number of Go results
}

func (x *xl) stSpec() *xStateSpec { return x.unit.State }

// ptrTarget: e is &v (v a variable) or *p / p (p a pointer parameter): the variable that stands for the pointee
func (x *xl) ptrTarget(e ast.Expr) ast.Expr {
	switch e := e.(type) {
	case *ast.UnaryExpr:
		if e.Op == token.AND {
			if id, ok := e.X.(*ast.Ident); ok {
				return id
			}
		}
	case *ast.StarExpr:
		if id, ok := e.X.(*ast.Ident); ok && x.ptrParam[x.info.ObjectOf(id)] {
			return e
		}
	case *ast.Ident:
		if x.ptrParam[x.info.ObjectOf(e)] {
			return &ast.StarExpr{X: e}
		}
	}
	x.fail(e, "argument %s: a pointer argument must be &v or a pointer parameter", x.src(e))
	return nil
}

// stCall: is e a call on the state (primitive or unit)?
func (x *xl) stCall(e ast.Expr, g *xGuards) *stInv {
	c, ok := e.(*ast.CallExpr)
	sp := x.stSpec()
	if !ok || sp == nil {
		return nil
	}
	f := x.src(c.Fun)
	if id, isId := c.Fun.(*ast.Ident); isId { // a parameter of function type: skip func() error
		if v, isVar := x.info.ObjectOf(id).(*types.Var); isVar {
			if sig, isSig := v.Type().Underlying().(*types.Signature); isSig && x.names[v] != "" {
				if sig.Params().Len() != 0 || len(c.Args) != 0 {
					x.fail(c, "call of the function parameter %s with arguments", id.Name)
				}
				return &stInv{term: "(" + x.names[v] + " rd)", unit: true, nres: sig.Results().Len()}
			}
		}
	}
	if p, found := sp.Prims[f]; found {
		inv := &stInv{nres: p.NRes}
		as := []string{p.Coq}
		for i, want := range p.Fixed {
			if i >= len(c.Args) || x.src(c.Args[i]) != want {
				x.fail(c, "%s: argument %d must be %s", f, i, want)
			}
		}
		for _, i := range p.Outs {
			inv.outs = append(inv.outs, x.ptrTarget(c.Args[i]))
		}
		for _, i := range p.Args {
			isOut := false
			for _, o := range p.Outs {
				isOut = isOut || o == i
			}
			if isOut { // the current content of the place is an input as well
				as = append(as, x.expr(x.ptrTarget(c.Args[i]), g))
			} else {
				as = append(as, x.expr(c.Args[i], g))
			}
		}
		inv.term = "(" + strings.Join(as, " ") + " rd)"
		return inv
	}
	if u, found := sp.Calls[f]; found {
		fd := x.xpkg.findFunc(x.unitFunc(u))
		if dir := x.unitDir(u); fd == nil && dir != "" && x.ld != nil { // a unit of another package
			if p, err := x.ld.load(dir); err == nil {
				fd = p.findFunc(x.unitFunc(u))
			}
		}
		if fd == nil {
			x.fail(c, "unit %s: function not found", u)
		}
		inv := &stInv{unit: true}
		if fd.Type.Results != nil {
			for _, r := range fd.Type.Results.List {
				if len(r.Names) == 0 {
					inv.nres++
				}
				inv.nres += len(r.Names)
			}
		}
		as := []string{u}
		if x.unitFuel(u) {
			as = append(as, "fuel")
		}
		i := 0
		for _, pf := range fd.Type.Params.List {
			for range pf.Names {
				if i >= len(c.Args) {
					x.fail(c, "%s: too few arguments", f)
				}
				a := c.Args[i]
				if _, isPtr := pf.Type.(*ast.StarExpr); isPtr {
					if x.src(pf.Type) == "*bytes.Reader" { // the library object itself: part of the state
						i++
						continue
					}
					t := x.ptrTarget(a)
					inv.outs = append(inv.outs, t)
					as = append(as, x.expr(t, g))
				} else if _, isFn := pf.Type.(*ast.FuncType); isFn { // a method value of a translated unit
					cu, ok := sp.Calls[x.src(a)]
					if !ok {
						x.fail(a, "function argument %s is not a declared unit", x.src(a))
					}
					if x.unitFuel(cu) {
						as = append(as, "("+cu+" fuel)")
					} else {
						as = append(as, cu)
					}
				} else {
					as = append(as, x.expr(a, g))
				}
				i++
			}
		}
		inv.term = "(" + strings.Join(as, " ") + " rd)"
		return inv
	}
	return nil
}

// unitFunc / unitFuel: the Go function and the fuel flag of a unit of the table
func (x *xl) unitFunc(name string) string {
	for i := range x.units {
		if x.units[i].Name == name {
			return x.units[i].Func
		}
	}
	return ""
}
func (x *xl) unitDir(name string) string {
	for i := range x.units {
		if x.units[i].Name == name {
			return x.units[i].Dir
		}
	}
	return ""
}
func (x *xl) unitFuel(name string) bool {
	for i := range x.units {
		if x.units[i].Name == name {
			return x.units[i].Fuel
		}
	}
	return false
}

// stBind: the call inv whose Go results go to lhs (nil: dropped), followed by the continuation
func (x *xl) stBind(n ast.Node, inv *stInv, lhs []ast.Expr, define bool, g xGuards, rest func() string, d int) string {
	if lhs != nil && len(lhs) != inv.nres {
		x.fail(n, "%d values from a call with %d results", len(lhs), inv.nres)
	}
	pat := []string{"rd"}
	var after []string // map elements / state fields cannot be bound by a pattern
	bind := func(e ast.Expr, def bool) {
		if e == nil || x.src(e) == "_" {
			pat = append(pat, "_")
			return
		}
		lv := x.lvalue(e)
		if lv == nil {
			pat = append(pat, "_")
			return
		}
		if def {
			pat = append(pat, x.declare(lv))
		} else if nm, ok := x.names[lv]; ok {
			pat = append(pat, nm)
		} else {
			x.fail(e, "%s is not a variable of the translated code", x.src(e))
		}
	}
	for _, o := range inv.outs {
		bind(o, false)
	}
	for i := 0; i < inv.nres; i++ {
		if lhs == nil {
			pat = append(pat, "_")
		} else {
			bind(lhs[i], define)
		}
	}
	_ = after
	p := pat[0]
	if len(pat) > 1 {
		p = "'(" + strings.Join(pat, ", ") + ")"
	}
	if inv.unit {
		if len(pat) > 1 {
			return xGuarded(g, "go_call "+inv.term+" (fun r__ => let "+p+" := r__ in"+xInd(d)+rest()+")")
		}
		return xGuarded(g, "go_call "+inv.term+" (fun rd =>"+xInd(d)+rest()+")")
	}
	return xGuarded(g, "let "+p+" := "+inv.term+" in"+xInd(d)+rest())
}

// stField: e is a receiver field kept in the state
func (x *xl) stField(e ast.Expr) (xStField, bool) {
	if sp := x.stSpec(); sp != nil {
		if _, ok := e.(*ast.SelectorExpr); ok {
			f, found := sp.Fields[x.src(e)]
			return f, found
		}
	}
	return xStField{}, false
}

// loopStmt: `for { body }` as the first statement of a unit with fuel: the unit calls itself (with the fuel left)
// for the next iteration; break leaves to the statements after the loop.
func (x *xl) loopStmt(s *ast.ForStmt, rest func() string, d int) string {
	if x.unit.Fuel && x.unit.Group == "" && !x.inLoop { // anywhere in a unit with fuel: go_loop, at most fuel rounds
		return x.genLoop(s, rest, d)
	}
	if !x.unit.Fuel || x.unit.Group == "" || len(x.body) == 0 || x.body[0] != ast.Stmt(s) || x.inLoop {
		x.fail(s, "`for { }` is in the subset only in a unit with fuel (as the first statement when the unit belongs to a group)")
	}
	ast.Inspect(s.Body, func(n ast.Node) bool {
		if b, ok := n.(*ast.BranchStmt); ok && (b.Tok != token.BREAK || b.Label != nil) {
			x.fail(b, "%s in a `for { }` loop is outside the subset", b.Tok)
		}
		switch n.(type) {
		case *ast.ForStmt, *ast.RangeStmt, *ast.SwitchStmt:
			if n != ast.Node(s) {
				ast.Inspect(n, func(m ast.Node) bool {
					if b, ok := m.(*ast.BranchStmt); ok {
						x.fail(b, "break inside a nested statement is outside the subset")
					}
					return true
				})
			}
		}
		return true
	})
	vs := x.assigned(s.Body.List)
	for _, v := range vs {
		if !x.isParam[v] {
			x.fail(s, "the loop assigns %s, which is not a parameter of the unit", v.Name())
		}
	}
	term, _, bind := x.state(s, vs)
	x.inLoop, x.loopState = true, term
	body := x.block(s.Body.List, "Next "+term, d+1)
	x.inLoop = false
	again := []string{x.unit.Name, "fuel"}
	again = append(again, x.paramNames...)
	return "go_iter (" + body + ")" + xInd(d) + "(" + bind + xInd(d) + rest() + ")" + xInd(d) + "(" + bind + strings.Join(again, " ") + ")"
}

// genLoop: `for { body }` with break / continue / return, run for at most fuel rounds (GoSem.go_loop): the body falls
// through or continues (Next state: next round), breaks (Return (inl state)) or returns (Return (inr results)).
func (x *xl) genLoop(s *ast.ForStmt, rest func() string, d int) string {
	ast.Inspect(s.Body, func(n ast.Node) bool {
		if b, ok := n.(*ast.BranchStmt); ok && ((b.Tok != token.BREAK && b.Tok != token.CONTINUE) || b.Label != nil) {
			x.fail(b, "%s in a `for { }` loop is outside the subset", b.Tok)
		}
		switch n.(type) {
		case *ast.ForStmt, *ast.RangeStmt, *ast.SwitchStmt, *ast.SelectStmt:
			if n != ast.Node(s) {
				ast.Inspect(n, func(m ast.Node) bool {
					if b, ok := m.(*ast.BranchStmt); ok {
						x.fail(b, "break / continue inside a nested statement is outside the subset")
					}
					return true
				})
			}
		}
		return true
	})
	vs := x.assigned(s.Body.List)
	term, _, bind := x.state(s, vs)
	x.inLoop, x.loopCont, x.loopState = true, true, term
	body := x.block(s.Body.List, "Next "+term, d+1)
	x.inLoop, x.loopCont = false, false
	return "bindc (go_loop fuel (" + bind + xInd(d+1) + body + ") " + term + ")" + xInd(d) + "(" + bind + xInd(d) + rest() + ")"
}
