package main

// C16 — tars2go front end: parse.NewParse of the tree against the model Idl/Lexer.v + Idl/Parser.v on
// generated programs, token-level mutations, truncations at every token boundary and random bytes
// (each real parse in a child process with a timeout: the property is about hanging), plus the
// translation-validation and bindings monitors of c16tv.go.
// Every new top-level identifier of this file is prefixed c16.

import (
	"bufio"
	"encoding/hex"
	"encoding/json"
	"fmt"
	"log"
	"math/rand"
	"os"
	"os/exec"
	"path/filepath"
	"runtime"
	"sort"
	"strconv"
	"strings"
	"sync"
	"time"

	"github.com/TarsCloud/TarsGo/tars/tools/tars2go/ast"
	"github.com/TarsCloud/TarsGo/tars/tools/tars2go/options"
	"github.com/TarsCloud/TarsGo/tars/tools/tars2go/parse"
	"github.com/TarsCloud/TarsGo/tars/tools/tars2go/token"
)

// ---------- canonical serialisation of ast.TarsFile (mirrors Idl/Corr.v ser_module) ----------
type c16Ser struct{ strings.Builder }

func (s *c16Ser) str(x string)  { s.WriteString(strconv.Itoa(len(x))); s.WriteByte(':'); s.WriteString(x) }
func (s *c16Ser) num(v int64)   { s.WriteString(strconv.FormatInt(v, 10)); s.WriteByte(';') }
func (s *c16Ser) boolean(b bool) {
	if b {
		s.WriteByte('T')
	} else {
		s.WriteByte('F')
	}
}

var c16BtyCode = map[token.Type]byte{token.TInt: 'i', token.TBool: 'o', token.TShort: 's', token.TByte: 'y', token.TLong: 'l', token.TFloat: 'f',
	token.TDouble: 'd', token.TString: 'g'}

func (s *c16Ser) ty(t *ast.VarType) {
	if t == nil {
		s.WriteByte('?')
		return
	}
	switch t.Type {
	case token.Name:
		s.WriteByte('n')
		s.str(t.TypeSt)
		switch t.CType {
		case token.Enum:
			s.WriteByte('E')
		case token.Struct:
			s.WriteByte('S')
		default:
			s.WriteByte('-')
		}
	case token.TVector:
		s.WriteByte('v')
		s.ty(t.TypeK)
	case token.TMap:
		s.WriteByte('m')
		s.ty(t.TypeK)
		s.ty(t.TypeV)
	case token.TArray:
		s.WriteByte('a')
		s.ty(t.TypeK)
		s.num(t.TypeL)
	default:
		c, ok := c16BtyCode[t.Type]
		if !ok {
			c = '?'
		}
		s.WriteByte('b')
		s.WriteByte(c)
		s.boolean(t.Unsigned)
	}
}

var c16DefCode = map[token.Type]byte{token.Eof: '-', token.Integer: 'i', token.Float: 'f', token.String: 's', token.True: 't', token.False: 'u', token.Name: 'n'}

func c16SerModule(m *ast.Module) string {
	s := &c16Ser{}
	s.str(m.Name)
	s.WriteByte('[')
	for _, st := range m.Struct {
		s.str(st.Name)
		s.WriteByte('[')
		for _, mb := range st.Mb {
			s.num(int64(mb.Tag))
			s.boolean(mb.Require)
			s.ty(mb.Type)
			s.str(mb.Key)
			s.str(mb.Default)
			c, ok := c16DefCode[mb.DefType]
			if !ok {
				c = '?'
			}
			s.WriteByte(c)
		}
		s.WriteByte(']')
	}
	s.WriteString("][")
	for _, h := range m.HashKey {
		s.str(h.Name)
		s.WriteByte('[')
		for _, x := range h.Member {
			s.str(x)
		}
		s.WriteByte(']')
	}
	s.WriteString("][")
	for _, e := range m.Enum {
		s.str(e.Name)
		s.WriteByte('[')
		for _, mb := range e.Mb {
			s.str(mb.Key)
			s.num(int64(mb.Type))
			s.num(int64(mb.Value))
			s.str(mb.Name)
		}
		s.WriteByte(']')
	}
	s.WriteString("][")
	for _, c := range m.Const {
		s.ty(c.Type)
		s.str(c.Name)
		s.str(c.Value)
	}
	s.WriteString("][")
	for _, it := range m.Interface {
		s.str(it.Name)
		s.WriteByte('[')
		for _, f := range it.Funcs {
			s.str(f.Name)
			if f.HasRet {
				s.WriteByte('+')
				s.ty(f.RetType)
			} else {
				s.WriteByte('-')
			}
			s.WriteByte('[')
			for _, a := range f.Args {
				s.str(a.Name)
				s.boolean(a.IsOut)
				s.ty(a.Type)
			}
			s.WriteByte(']')
		}
		s.WriteByte(']')
	}
	s.WriteByte(']')
	return s.String()
}

// ---------- child worker: one parse.NewParse per request ----------
type c16Req struct {
	ID       int          `json:"id"`
	Input    B            `json:"input"`
	Files    map[string]B `json:"files,omitempty"`    // further files of the scenario, relative to in.tars' directory
	Includes []string     `json:"includes,omitempty"` // search path (-include), relative to that directory
}
type c16Resp struct {
	ID    int    `json:"id"`
	Class string `json:"class"` // ok | multi | err | rtpanic ; set by the parent: fatal | hang | crash
	Ast   B      `json:"ast,omitempty"`
	Msg   string `json:"msg,omitempty"`
	Us    int64  `json:"us"`
	Wf    string `json:"wf,omitempty"` // a well-formedness defect of an accepted AST
	Deps  [][]string `json:"deps,omitempty"` // DependModule of every struct, then of every interface (sorted): the generated imports
}

// the modules checkDepTName recorded for the imports of each struct's / interface's generated file
func c16Deps(m *ast.Module) [][]string {
	out := [][]string{}
	set := func(d map[string]bool) []string {
		l := []string{}
		for k := range d {
			l = append(l, k)
		}
		sort.Strings(l)
		return l
	}
	for _, st := range m.Struct {
		out = append(out, set(st.DependModule))
	}
	for _, it := range m.Interface {
		out = append(out, set(it.DependModule))
	}
	return out
}

// what every accepted program must satisfy whatever the model says: struct tags strictly ascending (checkTag + sortTag)
func c16AstDefect(m *ast.Module) string {
	for _, st := range m.Struct {
		for i := 1; i < len(st.Mb); i++ {
			if st.Mb[i-1].Tag >= st.Mb[i].Tag {
				return fmt.Sprintf("struct %s: tags %d, %d are not strictly ascending", st.Name, st.Mb[i-1].Tag, st.Mb[i].Tag)
			}
		}
	}
	// checkDepTName: no user type is left unresolved at any depth (the generator picks enum or struct code by CType)
	var unresolved func(t *ast.VarType) string
	unresolved = func(t *ast.VarType) string {
		if t == nil {
			return ""
		}
		switch t.Type {
		case token.Name:
			if t.CType != token.Enum && t.CType != token.Struct {
				return t.TypeSt
			}
		case token.TVector, token.TArray:
			return unresolved(t.TypeK)
		case token.TMap:
			if s := unresolved(t.TypeK); s != "" {
				return s
			}
			return unresolved(t.TypeV)
		}
		return ""
	}
	// every module a struct's / interface's generated file names (Mod::T -> Mod.T) is recorded for its imports
	var named func(t *ast.VarType, acc map[string]bool)
	named = func(t *ast.VarType, acc map[string]bool) {
		if t == nil {
			return
		}
		switch t.Type {
		case token.Name:
			if i := strings.Index(t.TypeSt, "::"); i >= 0 {
				acc[t.TypeSt[:i]] = true
			}
		case token.TVector, token.TArray:
			named(t.TypeK, acc)
		case token.TMap:
			named(t.TypeK, acc)
			named(t.TypeV, acc)
		}
	}
	missing := func(acc map[string]bool, dep map[string]bool) string {
		var l []string
		for k := range acc {
			if !dep[k] {
				l = append(l, k)
			}
		}
		sort.Strings(l)
		return strings.Join(l, ",")
	}
	for _, st := range m.Struct {
		acc := map[string]bool{}
		for _, mb := range st.Mb {
			named(mb.Type, acc)
		}
		if s := missing(acc, st.DependModule); s != "" {
			return fmt.Sprintf("struct %s names types of module %s, which is not recorded for the imports of its generated file (recorded: %v)", st.Name, s, c16Deps(&ast.Module{Struct: []ast.Struct{st}}))
		}
	}
	for _, it := range m.Interface {
		acc := map[string]bool{}
		for _, f := range it.Funcs {
			for _, a := range f.Args {
				named(a.Type, acc)
			}
			if f.HasRet {
				named(f.RetType, acc)
			}
		}
		if s := missing(acc, it.DependModule); s != "" {
			return fmt.Sprintf("interface %s names types of module %s, which is not recorded for the imports of its generated file", it.Name, s)
		}
	}
	for _, st := range m.Struct {
		for _, mb := range st.Mb {
			if s := unresolved(mb.Type); s != "" {
				return fmt.Sprintf("struct %s member %s: user type %s is not resolved to an enum or a struct", st.Name, mb.Key, s)
			}
		}
	}
	for _, it := range m.Interface {
		for _, f := range it.Funcs {
			for _, a := range f.Args {
				if s := unresolved(a.Type); s != "" {
					return fmt.Sprintf("interface %s function %s: user type %s of a parameter is not resolved", it.Name, f.Name, s)
				}
			}
			if f.HasRet {
				if s := unresolved(f.RetType); s != "" {
					return fmt.Sprintf("interface %s function %s: user type %s of the result is not resolved", it.Name, f.Name, s)
				}
			}
		}
	}
	return ""
}

func c16ParseOnce(dir string, rq c16Req) (rs c16Resp) {
	input := []byte(rq.Input)
	file := filepath.Join(dir, "in.tars")
	if err := os.WriteFile(file, input, 0o644); err != nil {
		return c16Resp{Class: "ioerr", Msg: err.Error()}
	}
	var extra []string
	defer func() {
		for _, f := range extra {
			os.Remove(f)
		}
	}()
	for name, b := range rq.Files {
		f := filepath.Join(dir, name)
		os.MkdirAll(filepath.Dir(f), 0o755)
		if err := os.WriteFile(f, b, 0o644); err != nil {
			return c16Resp{Class: "ioerr", Msg: err.Error()}
		}
		extra = append(extra, f)
	}
	opt := &options.Options{}
	for _, inc := range rq.Includes {
		opt.Includes = append(opt.Includes, filepath.Join(dir, inc))
	}
	defer func() {
		if r := recover(); r != nil {
			if re, ok := r.(runtime.Error); ok {
				rs = c16Resp{Class: "rtpanic", Msg: re.Error()}
			} else {
				rs = c16Resp{Class: "err", Msg: fmt.Sprint(r)}
			}
		}
	}()
	// parse.VerifParse = NewParse, but the file node is handed back on a diagnostic as well (the graph of included
	// files the parser has built is inspected on accepted and on rejected input)
	tf, diag := parse.VerifParse(opt, file)
	cyc := ""
	if tf != nil {
		cyc = c16GraphCycle(tf)
	}
	if diag != "" {
		return c16Resp{Class: "err", Msg: diag, Wf: cyc}
	}
	wf := c16AstDefect(&tf.Module)
	if cyc != "" {
		wf = cyc
	}
	if cyc == "" && c16HasSeveralModules(tf) {
		return c16Resp{Class: "multi", Ast: B(c16SerModule(&tf.Module)), Wf: wf}
	}
	if cyc != "" {
		return c16Resp{Class: "multi", Ast: B(c16SerModule(&tf.Module)), Wf: wf}
	}
	return c16Resp{Class: "ok", Ast: B(c16SerModule(&tf.Module)), Wf: wf, Deps: c16Deps(&tf.Module)}
}

// c16GraphCycle: the graph of file nodes (TarsFile.IncTarsFile: included files, and the further modules of a file
// with the snapshot of the first module each of them sees) must be acyclic: FindTNameType / FindEnumName walk it
// recursively and stop only on a hit. Depth-first search with an on-path mark.
func c16GraphCycle(root *ast.TarsFile) string {
	const onPath, done = 1, 2
	mark := map[*ast.TarsFile]int{}
	var walk func(n *ast.TarsFile) string
	walk = func(n *ast.TarsFile) string {
		switch mark[n] {
		case onPath:
			return fmt.Sprintf("the include graph has a cycle through the node of module %q (%s)", n.Module.Name, filepath.Base(n.Source))
		case done:
			return ""
		}
		mark[n] = onPath
		for _, c := range n.IncTarsFile {
			if c == nil {
				continue
			}
			if s := walk(c); s != "" {
				return s
			}
		}
		mark[n] = done
		return ""
	}
	if s := walk(root); s != "" {
		return s
	}
	return c16GraphShape(root)
}

// c16GraphShape: the graph of one file with several (differently named) modules is the one of Idl/IncGraph.v
// [children false]: the j-th further module's node N_j has as first child a node S_j that is not the file's own node
// but carries the first module, with children N_1 .. N_{j-1}; then the included files; the file's node has N_1 .. N_k
// and then the included files.
func c16GraphShape(root *ast.TarsFile) string {
	var further []*ast.TarsFile
	names := map[string]bool{root.Module.Name: true}
	for _, c := range root.IncTarsFile {
		if c != nil && c.Source == root.Source {
			if names[c.Module.Name] {
				return "" // same module name again: merged into the earlier node, another shape
			}
			names[c.Module.Name] = true
			further = append(further, c)
		}
	}
	for j, n := range further {
		if root.IncTarsFile[j] != n {
			return fmt.Sprintf("include graph: the further modules are not the first children of the file's node (module %q)", n.Module.Name)
		}
		if len(n.IncTarsFile) == 0 {
			return fmt.Sprintf("include graph: the node of module %q does not see the first module", n.Module.Name)
		}
		s := n.IncTarsFile[0]
		if s == root {
			return fmt.Sprintf("include graph: the node of module %q holds the file's live node instead of a copy of it", n.Module.Name)
		}
		if s.Module.Name != root.Module.Name || s.Source != root.Source {
			return fmt.Sprintf("include graph: the first child of the node of module %q is not the first module", n.Module.Name)
		}
		if len(s.IncTarsFile) != j {
			return fmt.Sprintf("include graph: the copy seen by module %q has %d children, %d further modules were recorded before it", n.Module.Name, len(s.IncTarsFile), j)
		}
		for i := 0; i < j; i++ {
			if s.IncTarsFile[i] != further[i] {
				return fmt.Sprintf("include graph: the copy seen by module %q does not list the further modules recorded before it", n.Module.Name)
			}
		}
	}
	return ""
}

// a further module of the same file is recorded like an included file, with the file's own source name
func c16HasSeveralModules(tf *ast.TarsFile) bool {
	for _, inc := range tf.IncTarsFile {
		if inc.Source == tf.Source || c16HasSeveralModules(inc) {
			return true
		}
	}
	return false
}

func c16WorkerMain() {
	dir, err := os.MkdirTemp("", "c16w")
	if err != nil {
		fatal("c16 worker: %v", err)
	}
	defer os.RemoveAll(dir)
	log.SetFlags(0)
	log.SetOutput(&c16FatalOnly{})
	in := bufio.NewReaderSize(os.Stdin, 1<<20)
	out := bufio.NewWriter(os.Stdout)
	for {
		line, err := in.ReadString('\n')
		if line == "" && err != nil {
			return
		}
		var rq c16Req
		if json.Unmarshal([]byte(line), &rq) != nil {
			continue
		}
		fmt.Fprintf(out, "BEGIN %d\n", rq.ID)
		out.Flush()
		t0 := time.Now()
		rs := c16ParseOnce(dir, rq)
		rs.ID = rq.ID
		rs.Us = time.Since(t0).Microseconds()
		b, _ := json.Marshal(rs)
		fmt.Fprintf(out, "END %s\n", b)
		out.Flush()
	}
}

// the parser logs every file it opens; only the message of log.Fatalln (file read error) is kept, on stderr
type c16FatalOnly struct{}

func (c16FatalOnly) Write(p []byte) (int, error) {
	if strings.Contains(string(p), "file read error") {
		os.Stderr.Write(p)
	}
	return len(p), nil
}

type c16Worker struct {
	cmd    *exec.Cmd
	stdin  *bufio.Writer
	stdout *bufio.Reader
	stderr *capWriter
	dir    string
}

func c16StartWorker(base string) *c16Worker {
	dir, _ := os.MkdirTemp(base, "w")
	cmd := exec.Command(os.Args[0], "c16-parse-worker")
	cmd.Env = append(os.Environ(), "GOTRACEBACK=single", "TMPDIR="+dir)
	cmd.Dir = dir
	ip, _ := cmd.StdinPipe()
	op, _ := cmd.StdoutPipe()
	cw := &capWriter{sb: &strings.Builder{}}
	cmd.Stderr = cw
	if err := cmd.Start(); err != nil {
		fatal("c16 worker start: %v", err)
	}
	return &c16Worker{cmd: cmd, stdin: bufio.NewWriter(ip), stdout: bufio.NewReaderSize(op, 1<<20), stderr: cw, dir: dir}
}

func (w *c16Worker) stop() {
	w.stdin.Flush()
	w.cmd.Process.Kill()
	w.cmd.Wait()
	os.RemoveAll(w.dir)
}

// one request on worker w with a wall-clock cap; a dead or hung worker is replaced
func c16Ask(w **c16Worker, base string, rq c16Req, capMs int) c16Resp {
	b, _ := json.Marshal(rq)
	(*w).stdin.Write(b)
	(*w).stdin.WriteByte('\n')
	(*w).stdin.Flush()
	done := make(chan c16Resp, 1)
	go func(w *c16Worker) {
		for {
			line, err := w.stdout.ReadString('\n')
			if strings.HasPrefix(line, "END ") {
				var rs c16Resp
				json.Unmarshal([]byte(line[4:]), &rs)
				done <- rs
				return
			}
			if err != nil {
				done <- c16Resp{ID: rq.ID, Class: "dead"}
				return
			}
		}
	}(*w)
	var rs c16Resp
	select {
	case rs = <-done:
	case <-time.After(time.Duration(capMs) * time.Millisecond):
		(*w).cmd.Process.Kill()
		<-done
		rs = c16Resp{ID: rq.ID, Class: "hang", Msg: fmt.Sprintf("no result after %d ms", capMs)}
	}
	if rs.Class == "dead" || rs.Class == "hang" {
		err := (*w).cmd.Wait()
		(*w).stderr.mu.Lock()
		se := (*w).stderr.sb.String()
		(*w).stderr.mu.Unlock()
		if rs.Class == "dead" {
			code := -1
			if ee, ok := err.(*exec.ExitError); ok {
				code = ee.ExitCode()
			}
			if code == 1 && strings.Contains(se, "file read error") {
				rs.Class, rs.Msg = "fatal", "log.Fatalln: "+strings.TrimSpace(se)
			} else {
				rs.Class = "crash"
				if j := strings.Index(se, "fatal error:"); j >= 0 {
					se = se[j:]
				}
				if len(se) > 300 {
					se = se[:300]
				}
				rs.Msg = fmt.Sprintf("worker exit %d: %s", code, se)
			}
		}
		os.RemoveAll((*w).dir)
		*w = c16StartWorker(base)
	}
	return rs
}

// c16ParseMany runs all inputs over nw child workers. A hang only counts if it reproduces in two further runs
// (fresh worker, longer cap): the machine is shared.
func c16ParseMany(base string, inputs [][]byte, nw int, capMs int) []c16Resp {
	rqs := make([]c16Req, len(inputs))
	for i := range inputs {
		rqs[i] = c16Req{Input: inputs[i]}
	}
	return c16ParseReqs(base, rqs, nw, capMs)
}

func c16ParseReqs(base string, rqs []c16Req, nw int, capMs int) []c16Resp {
	inputs := rqs
	out := make([]c16Resp, len(inputs))
	var wg sync.WaitGroup
	ch := make(chan int)
	var hmu sync.Mutex
	confirmed := 0
	for k := 0; k < nw; k++ {
		wg.Add(1)
		go func() {
			defer wg.Done()
			w := c16StartWorker(base)
			defer func() { w.stop() }()
			for i := range ch {
				rq := inputs[i]
				rq.ID = i
				rs := c16Ask(&w, base, rq, capMs)
				if rs.Class == "hang" {
					hmu.Lock()
					skip := confirmed >= 2 // enough confirmed hangs: the rest are reported as observed, unconfirmed ones would only cost time
					hmu.Unlock()
					if !skip {
						for r := 0; r < 2 && rs.Class == "hang"; r++ {
							rs = c16Ask(&w, base, rq, capMs*3)
						}
						if rs.Class == "hang" {
							hmu.Lock()
							confirmed++
							hmu.Unlock()
							rs.Msg += " (reproduced 3 times)"
						}
					}
				}
				out[i] = rs
			}
		}()
	}
	for i := range inputs {
		ch <- i
	}
	close(ch)
	wg.Wait()
	return out
}

// ---------- cases ----------
type c16Case struct {
	Kind  string `json:"kind"` // valid | spaced | mutated | truncated | corner | number | random | enum-eof
	Input B      `json:"input"`
	Class string `json:"class"`          // observed: ok | multi | err | hang | crash | rtpanic
	Ast   B      `json:"ast,omitempty"`  // observed canonical AST
	Msg   string `json:"msg,omitempty"`  // diagnostic text (not compared)
	T2G   string `json:"tars2go,omitempty"` // exit status of the tars2go binary on the same input (sampled)
	Text  string `json:"text,omitempty"` // the input as text when printable
	Mod   *c16Module `json:"mod,omitempty"` // kind tv: the program's structure (replay re-derives the expectations from it)
	Files map[string]B `json:"files,omitempty"` // the files beside in.tars (include cases)
	Deps  [][]string   `json:"deps,omitempty"`  // observed: modules recorded for the imports, per struct then per interface
}

func c16Printable(b []byte) bool {
	for _, c := range b {
		if (c < 32 && c != '\n' && c != '\t' && c != '\r') || c >= 127 {
			return false
		}
	}
	return true
}

func c16GenCases(tier string, rng *rand.Rand) []c16Case {
	var cs []c16Case
	add := func(kind string, s string) { cs = append(cs, c16Case{Kind: kind, Input: B(s)}) }
	for _, s := range c16Corners {
		add("corner", s)
	}
	for _, s := range c16NumberCorners() {
		add("number", s)
	}
	nprog, nmut, nrand := 10, 14, 60
	if tier == "thorough" {
		nprog, nmut, nrand = 150, 40, 1500
	}
	for p := 0; p < nprog; p++ {
		m := c16GenModule(rng, fmt.Sprintf("Mod%d", p), c16GenOpt{Gaps: p%3 == 0, Small: true}, true)
		toks := m.toks()
		add("valid", c16Join(toks, rng, 0))
		add("spaced", c16Join(toks, rng, 1))
		// truncation at every token boundary (quick: of every other program) and inside a random token
		if tier == "thorough" || p%2 == 0 {
			for i := 1; i < len(toks); i++ {
				add("truncated", c16Join(toks[:i], rng, 0))
			}
		}
		full := c16Join(toks, rng, 1)
		for k := 0; k < 4; k++ {
			add("truncated", full[:rng.Intn(len(full)+1)])
		}
		for k := 0; k < nmut; k++ {
			add("mutated", c16Join(c16Mutate(toks, rng, 1+rng.Intn(3)), rng, rng.Intn(2)))
		}
		// several modules in one file, and an include line
		if p%4 == 1 {
			m2 := c16GenModule(rng, fmt.Sprintf("Sec%d", p), c16GenOpt{Small: true}, false)
			add("valid", c16Join(append(append([]string{}, toks...), m2.toks()...), rng, 0))
			add("valid", c16Join(append([]string{"#include", `"other.tars"`}, toks...), rng, 0))
		}
	}
	// random token soup and random bytes
	for k := 0; k < nrand; k++ {
		n := 1 + rng.Intn(14)
		var toks []string
		for i := 0; i < n; i++ {
			toks = append(toks, c16Vocab[rng.Intn(len(c16Vocab))])
		}
		add("random", c16Join(toks, rng, rng.Intn(2)))
	}
	for k := 0; k < nrand/2; k++ {
		b := make([]byte, rng.Intn(40))
		rng.Read(b)
		if rng.Intn(2) == 0 { // printable-biased
			for i := range b {
				b[i] = " \n{};=<>,()[]\"#/*:-._0123456789abcdefxXmoduleint"[int(b[i])%48]
			}
		}
		add("random", string(b))
	}
	cs = append(cs, c16GenFileCases(tier, rng)...)
	return cs
}

// last declaration keyword before the end of the input: the construct left open when the tool hangs at end of file
func c16OpenConstruct(in []byte) string {
	s := string(in)
	best, bi := "top", -1
	for _, k := range []string{"enum", "struct", "interface", "const", "key", "module"} {
		if i := strings.LastIndex(s, k); i > bi {
			best, bi = k, i
		}
	}
	return best
}

func c16CoqCase(c *c16Case) string {
	var obs string
	switch c.Class {
	case "ok":
		obs = "COk " + hx(c.Ast)
	case "multi":
		obs = "CMulti"
	case "err", "fatal":
		obs = "CErr"
	case "hang":
		obs = "CHang"
	default:
		return "" // crash / runtime panic: monitor failure, nothing to compare
	}
	if c.Files != nil {
		var names []string
		for n := range c.Files {
			names = append(names, n)
		}
		sort.Strings(names)
		var fl []string
		for _, n := range names {
			fl = append(fl, fmt.Sprintf("(%s, %s)", hx([]byte(n)), hx(c.Files[n])))
		}
		var dl []string
		for _, d := range c.Deps {
			var hs []string
			for _, x := range d {
				hs = append(hs, hx([]byte(x)))
			}
			dl = append(dl, "["+strings.Join(hs, "; ")+"]")
		}
		return fmt.Sprintf("(%s, [%s], %s, [%s])", hx(c.Input), strings.Join(fl, "; "), obs, strings.Join(dl, "; "))
	}
	return fmt.Sprintf("(%s, %s)", hx(c.Input), obs)
}

func c16Class(c *c16Case) string {
	n := len(c.Input)
	return fmt.Sprintf("%s/%s/len%d", c.Kind, c.Class, bucket(n))
}

const c16Require = "From TarsV Require Import Base.Hex Idl.Lexer Idl.Parser Idl.Corr."

func c16Main(a Args) {
	rng := rand.New(rand.NewSource(a.Seed))
	res := &Result{Property: "C16", Tier: a.Tier, Seed: a.Seed, Stats: map[string]interface{}{}, Failures: []Failure{},
		Corr: "Idl.Corr.c16_check (parse_bytes input = observed parse.NewParse outcome: canonical AST / several modules / diagnostic / no termination)",
		Rule: "front end: hand-written corner inputs for every parser state and lexer class, number-lexer boundaries (int64 range, octal/hex prefixes, float overflow at 2^1024-2^970), generated programs over every declaration and type constructor printed plainly and with arbitrary blanks/comments, their truncation at every token boundary and at random bytes, 1-3 token-level edits from a 90-entry vocabulary, random token soup and random bytes; class = (kind, observed outcome, log2 length). back end: see stats.translation_validation / stats.bindings"}
	var cases []c16Case
	if a.Replay != "" {
		b, err := os.ReadFile(a.Replay)
		if err != nil {
			fatal("replay: %v", err)
		}
		var rf replayFile
		json.Unmarshal(b, &rf)
		var c c16Case
		if len(rf.Case) > 0 && json.Unmarshal(rf.Case, &c) == nil && (len(c.Input) > 0 || c.Kind != "") {
			c.Class, c.Ast, c.Msg, c.Deps = "", nil, "", nil
			cases = append(cases, c)
		}
	} else {
		cases = c16GenCases(a.Tier, rng)
	}
	base, err := os.MkdirTemp(a.Out, "c16p")
	if err != nil {
		fatal("c16: %v", err)
	}
	defer os.RemoveAll(base)
	rqs := make([]c16Req, len(cases))
	for i := range cases {
		rqs[i] = c16Req{Input: cases[i].Input, Files: cases[i].Files}
	}
	t0 := time.Now()
	rs := c16ParseReqs(base, rqs, 6, 4000)
	res.Stats["parse_wall_s"] = time.Since(t0).Seconds()
	classes := map[string]int{}
	outcomes := map[string]int{}
	var terms, termsFs []string
	var casesFs []json.RawMessage
	for i := range cases {
		c := &cases[i]
		c.Class, c.Ast, c.Msg, c.Deps = rs[i].Class, rs[i].Ast, rs[i].Msg, rs[i].Deps
		if c.Class == "fatal" {
			c.Class = "err"
		}
		if c16Printable(c.Input) {
			c.Text = string(c.Input)
		}
		outcomes[c.Kind+"/"+c.Class]++
		if rs[i].Wf != "" {
			sig := "tars2go/parse/accepts-struct-with-unordered-tags"
			if strings.Contains(rs[i].Wf, "resolved") {
				sig = "tars2go/parse/accepts-unresolved-type"
			}
			if strings.Contains(rs[i].Wf, "imports") {
				sig = "tars2go/parse/defining-module-not-imported"
			}
			if strings.Contains(rs[i].Wf, "include graph has a cycle") {
				sig = "tars2go/parse/include-graph-cyclic"
			} else if strings.HasPrefix(rs[i].Wf, "include graph:") {
				sig = "tars2go/parse/include-graph-shape"
			}
			res.Failures = append(res.Failures, Failure{Sig: sig, Desc: fmt.Sprintf("parse.NewParse (outcome %s) on %q: %s", c.Class, c16Trunc(string(c.Input), 200), rs[i].Wf), Replay: *c})
		}
		switch c.Class {
		case "hang":
			res.Failures = append(res.Failures, Failure{Sig: "tars2go/parse/hang/" + c16OpenConstruct(c.Input) + "-open-at-eof",
				Desc: fmt.Sprintf("parse.NewParse does not terminate on a %d-byte input (%s): %q", len(c.Input), c.Msg, c16Trunc(string(c.Input), 200)), Replay: *c})
		case "crash":
			res.Failures = append(res.Failures, Failure{Sig: "tars2go/parse/crash", Desc: fmt.Sprintf("the process died instead of reporting a diagnostic: %s; input %q", c.Msg, c16Trunc(string(c.Input), 200)), Replay: *c})
		case "rtpanic":
			res.Failures = append(res.Failures, Failure{Sig: "tars2go/parse/runtime-panic", Desc: fmt.Sprintf("Go runtime panic instead of a diagnostic: %s; input %q", c.Msg, c16Trunc(string(c.Input), 200)), Replay: *c})
		case "ioerr", "":
			fatal("c16: harness I/O problem on case %d: %s", i, c.Msg)
		}
		classes[c16Class(c)]++
		if t := c16CoqCase(c); t != "" {
			b, _ := json.Marshal(c)
			if c.Files != nil {
				termsFs = append(termsFs, t)
				casesFs = append(casesFs, b)
			} else {
				terms = append(terms, t)
				res.Cases = append(res.Cases, b)
			}
		}
	}
	res.Cases = append(res.Cases, casesFs...)
	res.Evaluations = len(cases)
	res.Distinct = len(classes)
	res.Stats["outcomes"] = outcomes
	for i := 0; i < len(cases) && i < 3; i++ {
		res.Samples = append(res.Samples, cases[(i*7919+200)%len(cases)])
	}
	// L2 case files
	shard := 150
	for off := 0; off < len(terms); off += shard {
		end := off + shard
		if end > len(terms) {
			end = len(terms)
		}
		name := filepath.Join(a.Out, fmt.Sprintf("cases_C16_%d.v", off/shard))
		var sb strings.Builder
		sb.WriteString(c16Require + "\nFrom Coq Require Import List NArith ZArith.\nImport ListNotations.\nOpen Scope N_scope.\n")
		sb.WriteString("Definition cases : list c16case := [\n" + strings.Join(terms[off:end], ";\n") + "\n].\n")
		fmt.Fprintf(&sb, "Definition M := Eval vm_compute in (failing_from c16_check %d cases).\nPrint M.\n", off)
		sb.WriteString("Definition CNT := Eval vm_compute in (N.of_nat (length cases)).\nPrint CNT.\n")
		if err := os.WriteFile(name, []byte(sb.String()), 0o644); err != nil {
			fatal("write: %v", err)
		}
		res.CaseFiles = append(res.CaseFiles, name)
	}
	for off := 0; off < len(termsFs); off += shard {
		end := off + shard
		if end > len(termsFs) {
			end = len(termsFs)
		}
		name := filepath.Join(a.Out, fmt.Sprintf("cases_C16_fs_%d.v", off/shard))
		var sb strings.Builder
		sb.WriteString(c16Require + "\nFrom Coq Require Import List NArith ZArith.\nImport ListNotations.\nOpen Scope N_scope.\n")
		sb.WriteString("Definition cases : list c16fcase := [\n" + strings.Join(termsFs[off:end], ";\n") + "\n].\n")
		fmt.Fprintf(&sb, "Definition M := Eval vm_compute in (failing_from c16_check_fs %d cases).\nPrint M.\n", len(terms)+off)
		sb.WriteString("Definition CNT := Eval vm_compute in (N.of_nat (length cases)).\nPrint CNT.\n")
		if err := os.WriteFile(name, []byte(sb.String()), 0o644); err != nil {
			fatal("write: %v", err)
		}
		res.CaseFiles = append(res.CaseFiles, name)
	}
	if a.Replay == "" {
		c16Scenarios(base, res)
		c16BackEnd(a, rng, res, cases, nil)
	} else if len(cases) > 0 {
		c16BackEnd(a, rng, res, cases, &cases[0])
	}
	writeResult(a, res)
}

func c16Trunc(s string, n int) string {
	if len(s) > n {
		return s[:n] + "..."
	}
	return s
}

func c16Hex(b []byte) string { return hex.EncodeToString(b) }

func init() {
	props["C16"] = c16Main
	props["c16-parse-worker"] = func(a Args) { c16WorkerMain() }
}

// ---------- several files: includes, search path, circular references, several modules in one file ----------
// Hand-written scenarios with the outcome each must have (the model covers one file; these are direct monitors).
type c16Scenario struct {
	Name     string
	Main     string
	Files    map[string]string
	Includes []string
	Class    string   // ok | multi | err
	Has      []string // fragments the canonical AST of the file's own module must contain
}

var c16ScenarioList = []c16Scenario{
	{Name: "circular-include", Main: `#include "b.tars" module A { struct S { 0 require int x; }; };`, Files: map[string]string{"b.tars": `#include "in.tars" module B { };`}, Class: "err"},
	{Name: "self-include", Main: `#include "in.tars" module A { };`, Class: "err"},
	{Name: "circular-include-of-three", Main: `#include "b.tars" module A { };`, Files: map[string]string{"b.tars": `#include "c.tars" module B { };`, "c.tars": `#include "b.tars" module C { };`}, Class: "err"},
	{Name: "missing-include", Main: `#include "nope.tars" module A { };`, Class: "err"},
	{Name: "include-same-directory", Main: `#include "dep.tars" module M { struct S { 0 require D::T t; 1 optional D::E e = B; 2 optional vector<D::T> v; 3 optional D::E ea[2]; }; interface I { D::T f(D::E e, out D::T o); }; };`,
		Files: map[string]string{"dep.tars": `module D { enum E { A, B }; struct T { 0 require int x; }; };`}, Class: "ok",
		Has: []string{"n4:D::TS", "n4:D::EE", "5:D.E_B", "vn4:D::TS", "an4:D::EE2;"}},
	{Name: "include-through-search-path", Main: `#include "dep.tars" module M { struct S { 0 require D::T t; }; };`,
		Files: map[string]string{"inc/dep.tars": `module D { struct T { 0 require int x; }; };`}, Includes: []string{"other", "inc"}, Class: "ok", Has: []string{"n4:D::TS"}},
	{Name: "include-not-on-search-path", Main: `#include "dep.tars" module M { struct S { 0 require D::T t; }; };`,
		Files: map[string]string{"inc/dep.tars": `module D { struct T { 0 require int x; }; };`}, Includes: []string{"other"}, Class: "err"},
	{Name: "diamond-include", Main: `#include "b.tars" #include "c.tars" module M { struct S { 0 require D::T t; 1 require B::U u; }; };`,
		Files: map[string]string{"b.tars": `#include "d.tars" module B { struct U { 0 require D::T t; }; };`, "c.tars": `#include "d.tars" module C { };`, "d.tars": `module D { struct T { 0 require int x; }; };`},
		Class: "ok", Has: []string{"n4:D::TS", "n4:B::US"}},
	{Name: "type-of-included-file-undefined", Main: `#include "dep.tars" module M { struct S { 0 require D::Nope t; }; };`, Files: map[string]string{"dep.tars": `module D { struct T { 0 require int x; }; };`}, Class: "err"},
	{Name: "enum-default-conflict-in-included-file", Main: `#include "dep.tars" module M { struct S { 0 optional D::E e = A; }; };`, Files: map[string]string{"dep.tars": `module D { enum E { A }; enum F { A }; };`}, Class: "err"},
	{Name: "second-module-uses-first", Main: `module A { struct S { 0 require int x; }; }; module B { struct T { 0 require A::S s; }; };`, Class: "multi", Has: []string{"1:A[1:S["}},
	{Name: "second-module-undefined-type", Main: `module A { }; module B { struct T { 0 require Nope s; }; };`, Class: "err"},
	{Name: "second-module-redefinition", Main: `module A { }; module B { struct T { 0 require int a; }; struct T { 0 require int b; }; };`, Class: "err"},
	{Name: "same-module-three-times", Main: `module A { struct S { 0 require int x; }; }; module A { struct T { 0 require int y; }; }; module A { struct U { 0 require T t; }; };`, Class: "multi", Has: []string{"1:A[1:S["}},
	{Name: "first-of-two-modules-uses-included-type", Main: `#include "dep.tars" module A { struct SA { 0 require D::T p; 1 optional D::E e = B; }; }; module B { struct SB { 0 require A::SA a; }; };`,
		Files: map[string]string{"dep.tars": `module D { enum E { A, B }; struct T { 0 require int x; }; };`}, Class: "multi", Has: []string{"n4:D::TS", "5:D.E_B"}},
	{Name: "first-of-two-modules-undefined-type", Main: `module A { struct SA { 0 require Nope p; }; }; module B { struct SB { 0 require int x; }; };`, Class: "err"},
	{Name: "first-of-two-modules-undefined-default", Main: `module A { enum E { X }; struct SA { 0 optional E e = NOPE; }; }; module B { };`, Class: "err"},
	{Name: "first-of-three-modules-uses-third", Main: `module A { struct SA { 0 require C::T p; }; }; module B { }; module C { struct T { 0 require int x; }; };`, Class: "multi", Has: []string{"n4:C::TS"}},
	{Name: "second-of-three-modules-undefined-type", Main: `module A { }; module B { struct SB { 0 require A::Nope p; }; }; module C { };`, Class: "err"},
	{Name: "third-module-undefined-type-after-include", Main: `#include "dep.tars" module A { }; module B { }; module C { struct SC { 0 require D::Nope p; }; };`, Files: map[string]string{"dep.tars": `module D { };`}, Class: "err"},
	{Name: "include-in-the-middle", Main: `module A { struct S { 0 require int x; }; }; #include "dep.tars"`, Files: map[string]string{"dep.tars": `module D { };`}, Class: "ok"},
}

func c16Scenarios(base string, res *Result) {
	rqs := make([]c16Req, len(c16ScenarioList))
	for i, sc := range c16ScenarioList {
		rqs[i] = c16Req{Input: B(sc.Main), Includes: sc.Includes}
		if len(sc.Files) > 0 {
			rqs[i].Files = map[string]B{}
			for k, v := range sc.Files {
				rqs[i].Files[k] = B(v)
			}
		}
	}
	rs := c16ParseReqs(base, rqs, 3, 4000)
	hist := map[string]int{}
	for i, sc := range c16ScenarioList {
		got := rs[i].Class
		if got == "fatal" {
			got = "err"
		}
		hist[got]++
		rep := c16Case{Kind: "scenario:" + sc.Name, Input: B(sc.Main), Text: sc.Main, Class: got, Msg: rs[i].Msg}
		if strings.Contains(rs[i].Wf, "include graph has a cycle") {
			res.Failures = append(res.Failures, Failure{Sig: "tars2go/parse/include-graph-cyclic", Desc: fmt.Sprintf("files %q (+ %d more): %s", sc.Main, len(sc.Files), rs[i].Wf), Replay: rep})
		}
		if got != sc.Class {
			res.Failures = append(res.Failures, Failure{Sig: "tars2go/parse/scenario/" + sc.Name, Desc: fmt.Sprintf("files %q (+ %d more): expected outcome %s, observed %s %s", sc.Main, len(sc.Files), sc.Class, got, c16Trunc(rs[i].Msg, 200)), Replay: rep})
			continue
		}
		for _, h := range sc.Has {
			if !strings.Contains(string(rs[i].Ast), h) {
				res.Failures = append(res.Failures, Failure{Sig: "tars2go/parse/scenario/" + sc.Name, Desc: fmt.Sprintf("files %q (+ %d more): the analysed AST %q lacks %q", sc.Main, len(sc.Files), c16Trunc(string(rs[i].Ast), 400), h), Replay: rep})
				break
			}
		}
	}
	res.Stats["scenarios"] = hist
	res.Evaluations += len(c16ScenarioList)
}
