package main

// C01 child process: one filter configuration, one in-process server, one proxy; see c01.go.

import (
	"context"
	"encoding/binary"
	"encoding/json"
	"errors"
	"fmt"
	"hash/fnv"
	"io"
	"math/rand"
	"net"
	"os"
	"reflect"
	"runtime"
	"sort"
	"strconv"
	"strings"
	"sync"
	"sync/atomic"
	"time"

	"github.com/TarsCloud/TarsGo/tars"
	"github.com/TarsCloud/TarsGo/tars/protocol/codec"
	"github.com/TarsCloud/TarsGo/tars/protocol/res/requestf"
	"github.com/TarsCloud/TarsGo/tars/util/current"
	"github.com/TarsCloud/TarsGo/tars/util/rogger"
	e2e "verifharness/idlgen/VerifE2E"
)

// ---------- function table (must agree with harness/idl/e2e.tars: the servant below implements the generated interface) ----------
type c01Fn struct {
	Name string // IDL name = name on the wire
	Go   string // generated method name
	Dirs string // per argument: i = in, o = out
	argT []reflect.Type
	retT reflect.Type
}

var c01Fns = []*c01Fn{
	{Name: "ping", Dirs: ""}, {Name: "noArgs", Dirs: ""}, {Name: "note", Dirs: "ii"}, {Name: "outsOnly", Dirs: "oo"},
	{Name: "fBool", Dirs: "io"}, {Name: "fByte", Dirs: "io"}, {Name: "fUByte", Dirs: "io"}, {Name: "fShort", Dirs: "io"},
	{Name: "fUShort", Dirs: "io"}, {Name: "fInt", Dirs: "io"}, {Name: "fUInt", Dirs: "io"}, {Name: "fLong", Dirs: "io"},
	{Name: "fFloat", Dirs: "io"}, {Name: "fDouble", Dirs: "io"}, {Name: "fString", Dirs: "io"}, {Name: "fEnum", Dirs: "io"},
	{Name: "fBytes", Dirs: "io"}, {Name: "fUBytes", Dirs: "io"}, {Name: "fVecInt", Dirs: "io"}, {Name: "fVecStr", Dirs: "io"},
	{Name: "fVecVec", Dirs: "io"}, {Name: "fMapSS", Dirs: "io"}, {Name: "fMapIV", Dirs: "io"}, {Name: "fItem", Dirs: "io"},
	{Name: "fBig", Dirs: "io"}, {Name: "fVecItem", Dirs: "io"}, {Name: "fMapItem", Dirs: "io"},
	{Name: "deep", Dirs: "oi"}, {Name: "mixed", Dirs: "ioioioioi"}, {Name: "many", Dirs: "iiiiiiiiiiiiiiiioooooo"},
}
var c01FnByName = map[string]*c01Fn{}
var c01FnsInit bool

func c01InitFns() {
	if c01FnsInit {
		return
	}
	c01FnsInit = true
	initRegistry()
	pt := reflect.TypeOf(&e2e.E2E{})
	for _, f := range c01Fns {
		f.Go = strings.ToUpper(f.Name[:1]) + f.Name[1:]
		m, ok := pt.MethodByName(f.Go + "WithContext")
		if !ok {
			fatal("c01: generated proxy has no method %sWithContext", f.Go)
		}
		mt := m.Type // receiver, ctx, args..., opts
		n := mt.NumIn() - 3
		if n != len(f.Dirs) {
			fatal("c01: %s has %d parameters, table says %d", f.Name, n, len(f.Dirs))
		}
		for i := 0; i < n; i++ {
			t := mt.In(2 + i)
			if t.Kind() == reflect.Ptr {
				t = t.Elem()
			} else if f.Dirs[i] == 'o' {
				fatal("c01: %s parameter %d is not a pointer but the table says out", f.Name, i)
			}
			f.argT = append(f.argT, t)
		}
		if mt.NumOut() == 2 {
			f.retT = mt.Out(0)
		}
		c01FnByName[f.Name] = f
	}
}

func (f *c01Fn) coqSig() string {
	ret := "None"
	if f.retT != nil {
		ret = "(Some " + coqTy(f.retT) + ")"
	}
	var as []string
	for i, t := range f.argT {
		as = append(as, fmt.Sprintf("(%s, %s)", coqTy(t), coqBool(f.Dirs[i] == 'o')))
	}
	return fmt.Sprintf("{| fs_name := %s; fs_ret := %s; fs_args := [%s] |}", c01Str(f.Name), ret, strings.Join(as, "; "))
}

func c01Str(s string) string { return "(unhex " + hx([]byte(s)) + ")" }

func c01Map(m map[string]string) string {
	ks := make([]string, 0, len(m))
	for k := range m {
		ks = append(ks, k)
	}
	sort.Strings(ks)
	ps := make([]string, len(ks))
	for i, k := range ks {
		ps[i] = "(" + c01Str(k) + ", " + c01Str(m[k]) + ")"
	}
	return "[" + strings.Join(ps, "; ") + "]"
}

func c01Vals(vs []reflect.Value) string {
	ps := make([]string, len(vs))
	for i, v := range vs {
		ps[i] = dumpVal(v)
	}
	return "[" + strings.Join(ps, "; ") + "]"
}

// ---------- what the implementation does: a pure function of (function, in arguments, context, status) ----------
type c01Ctl struct {
	RCtx, RSt, ErrKind int
	ErrCode            int32
	ErrMsg             string
	EmptyOuts          bool
	Big                int
	SleepMs            int // the implementation takes this long (the call may time out on the client)
}

// c01Inflate gives a string / byte vector value exactly n bytes (packets larger than the transports' read buffers)
func c01Inflate(rng *rand.Rand, v reflect.Value, n int) {
	b := make([]byte, n)
	rng.Read(b)
	switch {
	case v.Kind() == reflect.String:
		v.SetString(string(b))
	case v.Kind() == reflect.Slice && v.Type().Elem().Kind() == reflect.Uint8:
		v.SetBytes(b)
	case v.Kind() == reflect.Slice && v.Type().Elem().Kind() == reflect.Int8:
		x := make([]int8, n)
		for i := range b {
			x[i] = int8(b[i])
		}
		v.Set(reflect.ValueOf(x))
	}
}

type c01Plan struct {
	ret     reflect.Value // invalid = void
	outs    []reflect.Value
	rctx    map[string]string // nil = not set
	rstatus map[string]string
	err     error
}

func c01Key(fn string, ins []reflect.Value, ctx, st map[string]string) string {
	return fn + "|" + c01Vals(ins) + "|" + c01Map(ctx) + "|" + c01Map(st)
}

func c01RandMap(rng *rand.Rand, kind int) map[string]string {
	switch kind {
	case 0:
		return nil
	case 1:
		return map[string]string{}
	case 2:
		return map[string]string{randString(rng): randString(rng)}
	}
	m := map[string]string{}
	n := 2 + rng.Intn(4)
	for i := 0; i < n; i++ {
		m[fmt.Sprintf("k%d-%s", i, randString(rng))] = randString(rng)
	}
	if rng.Intn(2) == 0 {
		m[""] = "empty key"
	}
	return m
}

func c01MakePlan(f *c01Fn, key string, ctl c01Ctl) c01Plan {
	h := fnv.New64a()
	h.Write([]byte(key))
	rng := rand.New(rand.NewSource(int64(h.Sum64())))
	var p c01Plan
	if f.retT != nil {
		p.ret = reflect.New(f.retT).Elem()
		fillRandom(rng, p.ret, 3)
		if ctl.Big > 0 {
			c01Inflate(rng, p.ret, ctl.Big)
		}
	}
	for i, t := range f.argT {
		if f.Dirs[i] == 'o' {
			v := reflect.New(t).Elem()
			if !ctl.EmptyOuts {
				fillRandom(rng, v, 3)
				if ctl.Big > 0 {
					c01Inflate(rng, v, ctl.Big+1)
				}
			}
			p.outs = append(p.outs, v)
		}
	}
	if ctl.RCtx > 0 {
		p.rctx = c01RandMap(rng, ctl.RCtx)
	}
	if ctl.RSt > 0 {
		p.rstatus = c01RandMap(rng, ctl.RSt)
	}
	switch ctl.ErrKind {
	case 1, 3:
		p.err = &tars.Error{Code: ctl.ErrCode, Message: ctl.ErrMsg}
	case 2:
		p.err = errors.New(ctl.ErrMsg)
	}
	return p
}

func (p c01Plan) coq(f *c01Fn) string {
	if p.err != nil {
		return fmt.Sprintf("(IFail %s %s)", coqZ(int64(tars.GetErrorCode(p.err))), c01Str(p.err.Error()))
	}
	ret := "None"
	if p.ret.IsValid() {
		ret = "(Some " + dumpVal(p.ret) + ")"
	}
	return fmt.Sprintf("(IOk %s %s %s %s)", ret, c01Vals(p.outs), c01Map(p.rctx), c01Map(p.rstatus))
}

// ---------- event log ----------
type c01Event struct {
	ReqID int32
	Coq   string
}

var (
	c01Mu       sync.Mutex
	c01Log      []c01Event
	c01Ctls     = map[string]c01Ctl{}
	c01Seen     = map[string]int{}
	c01Unknown  []string // implementation invoked with inputs no caller passed
	c01ImplRuns int64
)

func c01Emit(id int32, s string) {
	c01Mu.Lock()
	c01Log = append(c01Log, c01Event{id, s})
	c01Mu.Unlock()
}

// ---------- the implementation of the generated servant interface ----------
type c01Imp struct{}

// ---------- high-contention burst: many goroutines, many small calls, unique payloads, one proxy ----------
const c01BurstBase = int32(1 << 24)
const c01BurstKey = int32(0x5a5a5a5a)

var (
	c01BurstOn     int32
	c01BurstCounts []int32 // invocations of the implementation per payload
)

func c01Serve(ctx context.Context, fn string, ins []interface{}, outs []interface{}, ret interface{}) error {
	atomic.AddInt64(&c01ImplRuns, 1)
	if atomic.LoadInt32(&c01BurstOn) != 0 && fn == "fInt" {
		if a, ok := ins[0].(int32); ok && a >= c01BurstBase && int(a-c01BurstBase) < len(c01BurstCounts) {
			atomic.AddInt32(&c01BurstCounts[a-c01BurstBase], 1)
			*(outs[0].(*int32)) = ^a
			*(ret.(*int32)) = a ^ c01BurstKey
			return nil
		}
	}
	if atomic.LoadInt32(&c01BurstOn) != 0 && fn == "fString" {
		if a, ok := ins[0].(string); ok && len(a) >= 10 && a[:2] == "B!" {
			if idx, err := strconv.Atoi(a[2:10]); err == nil && idx < len(c01BurstCounts) {
				atomic.AddInt32(&c01BurstCounts[idx], 1)
				*(outs[0].(*string)) = c01Reverse(a)
				*(ret.(*string)) = a + "|" + a
				return nil
			}
		}
	}
	f := c01FnByName[fn]
	vs := make([]reflect.Value, len(ins))
	for i, x := range ins {
		vs[i] = reflect.ValueOf(x)
		if vs[i].Kind() == reflect.Ptr {
			vs[i] = vs[i].Elem()
		}
	}
	rc, _ := current.GetRequestContext(ctx)
	rs, _ := current.GetRequestStatus(ctx)
	key := c01Key(fn, vs, rc, rs)
	c01Mu.Lock()
	ctl, ok := c01Ctls[key]
	c01Seen[key]++
	if !ok {
		c01Unknown = append(c01Unknown, key)
	}
	c01Log = append(c01Log, c01Event{0, fmt.Sprintf("EImpl %s %s %s %s", c01Str(fn), c01Vals(vs), c01Map(rc), c01Map(rs))})
	c01Mu.Unlock()
	if !ok {
		return &tars.Error{Code: 9999, Message: "c01: the implementation was called with inputs no caller passed"}
	}
	p := c01MakePlan(f, key, ctl)
	if ctl.SleepMs > 0 {
		time.Sleep(time.Duration(ctl.SleepMs) * time.Millisecond)
	}
	if p.err != nil {
		return p.err
	}
	for i, o := range outs {
		reflect.ValueOf(o).Elem().Set(p.outs[i])
	}
	if p.ret.IsValid() {
		reflect.ValueOf(ret).Elem().Set(p.ret)
	}
	if p.rctx != nil {
		current.SetResponseContext(ctx, p.rctx)
	}
	if p.rstatus != nil {
		current.SetResponseStatus(ctx, p.rstatus)
	}
	return nil
}

type ifs = []interface{}

func (c01Imp) Ping(ctx context.Context) error { return c01Serve(ctx, "ping", nil, nil, nil) }
func (c01Imp) NoArgs(ctx context.Context) (r string, err error) {
	err = c01Serve(ctx, "noArgs", nil, nil, &r)
	return
}
func (c01Imp) Note(ctx context.Context, s string, n int32) error {
	return c01Serve(ctx, "note", ifs{s, n}, nil, nil)
}
func (c01Imp) OutsOnly(ctx context.Context, a *int32, b *string) error {
	return c01Serve(ctx, "outsOnly", nil, ifs{a, b}, nil)
}
func (c01Imp) FBool(ctx context.Context, a bool, o *bool) (r bool, err error) {
	err = c01Serve(ctx, "fBool", ifs{a}, ifs{o}, &r)
	return
}
func (c01Imp) FByte(ctx context.Context, a int8, o *int8) (r int8, err error) {
	err = c01Serve(ctx, "fByte", ifs{a}, ifs{o}, &r)
	return
}
func (c01Imp) FUByte(ctx context.Context, a uint8, o *uint8) (r uint8, err error) {
	err = c01Serve(ctx, "fUByte", ifs{a}, ifs{o}, &r)
	return
}
func (c01Imp) FShort(ctx context.Context, a int16, o *int16) (r int16, err error) {
	err = c01Serve(ctx, "fShort", ifs{a}, ifs{o}, &r)
	return
}
func (c01Imp) FUShort(ctx context.Context, a uint16, o *uint16) (r uint16, err error) {
	err = c01Serve(ctx, "fUShort", ifs{a}, ifs{o}, &r)
	return
}
func (c01Imp) FInt(ctx context.Context, a int32, o *int32) (r int32, err error) {
	err = c01Serve(ctx, "fInt", ifs{a}, ifs{o}, &r)
	return
}
func (c01Imp) FUInt(ctx context.Context, a uint32, o *uint32) (r uint32, err error) {
	err = c01Serve(ctx, "fUInt", ifs{a}, ifs{o}, &r)
	return
}
func (c01Imp) FLong(ctx context.Context, a int64, o *int64) (r int64, err error) {
	err = c01Serve(ctx, "fLong", ifs{a}, ifs{o}, &r)
	return
}
func (c01Imp) FFloat(ctx context.Context, a float32, o *float32) (r float32, err error) {
	err = c01Serve(ctx, "fFloat", ifs{a}, ifs{o}, &r)
	return
}
func (c01Imp) FDouble(ctx context.Context, a float64, o *float64) (r float64, err error) {
	err = c01Serve(ctx, "fDouble", ifs{a}, ifs{o}, &r)
	return
}
func (c01Imp) FString(ctx context.Context, a string, o *string) (r string, err error) {
	err = c01Serve(ctx, "fString", ifs{a}, ifs{o}, &r)
	return
}
func (c01Imp) FEnum(ctx context.Context, a e2e.Kind, o *e2e.Kind) (r e2e.Kind, err error) {
	err = c01Serve(ctx, "fEnum", ifs{a}, ifs{o}, &r)
	return
}
func (c01Imp) FBytes(ctx context.Context, a []int8, o *[]int8) (r []int8, err error) {
	err = c01Serve(ctx, "fBytes", ifs{a}, ifs{o}, &r)
	return
}
func (c01Imp) FUBytes(ctx context.Context, a []uint8, o *[]uint8) (r []uint8, err error) {
	err = c01Serve(ctx, "fUBytes", ifs{a}, ifs{o}, &r)
	return
}
func (c01Imp) FVecInt(ctx context.Context, a []int32, o *[]int32) (r []int32, err error) {
	err = c01Serve(ctx, "fVecInt", ifs{a}, ifs{o}, &r)
	return
}
func (c01Imp) FVecStr(ctx context.Context, a []string, o *[]string) (r []string, err error) {
	err = c01Serve(ctx, "fVecStr", ifs{a}, ifs{o}, &r)
	return
}
func (c01Imp) FVecVec(ctx context.Context, a [][]int32, o *[][]int32) (r [][]int32, err error) {
	err = c01Serve(ctx, "fVecVec", ifs{a}, ifs{o}, &r)
	return
}
func (c01Imp) FMapSS(ctx context.Context, a map[string]string, o *map[string]string) (r map[string]string, err error) {
	err = c01Serve(ctx, "fMapSS", ifs{a}, ifs{o}, &r)
	return
}
func (c01Imp) FMapIV(ctx context.Context, a map[int32][]string, o *map[int32][]string) (r map[int32][]string, err error) {
	err = c01Serve(ctx, "fMapIV", ifs{a}, ifs{o}, &r)
	return
}
func (c01Imp) FItem(ctx context.Context, a *e2e.Item, o *e2e.Item) (r e2e.Item, err error) {
	err = c01Serve(ctx, "fItem", ifs{a}, ifs{o}, &r)
	return
}
func (c01Imp) FBig(ctx context.Context, a *e2e.Big, o *e2e.Big) (r e2e.Big, err error) {
	err = c01Serve(ctx, "fBig", ifs{a}, ifs{o}, &r)
	return
}
func (c01Imp) FVecItem(ctx context.Context, a []e2e.Item, o *[]e2e.Item) (r []e2e.Item, err error) {
	err = c01Serve(ctx, "fVecItem", ifs{a}, ifs{o}, &r)
	return
}
func (c01Imp) FMapItem(ctx context.Context, a map[string]e2e.Item, o *map[string]e2e.Item) (r map[string]e2e.Item, err error) {
	err = c01Serve(ctx, "fMapItem", ifs{a}, ifs{o}, &r)
	return
}
func (c01Imp) Deep(ctx context.Context, o *e2e.Node, a int32) (r int32, err error) {
	err = c01Serve(ctx, "deep", ifs{a}, ifs{o}, &r)
	return
}
func (c01Imp) Mixed(ctx context.Context, a int32, o1 *string, b string, o2 *[]int32, c int64, o3 *e2e.Item, d *e2e.Item, o4 *map[string]string, e bool) (r int32, err error) {
	err = c01Serve(ctx, "mixed", ifs{a, b, c, d, e}, ifs{o1, o2, o3, o4}, &r)
	return
}
func (c01Imp) Many(ctx context.Context, p1 bool, p2 int8, p3 int16, p4 int32, p5 int64, p6 float32, p7 float64, p8 string, p9 uint8, p10 uint16, p11 uint32,
	p12 e2e.Kind, p13 []int8, p14 []string, p15 map[string]string, p16 *e2e.Item,
	q1 *bool, q2 *int64, q3 *string, q4 *[]int64, q5 *e2e.Big, q6 *e2e.Kind) (r int64, err error) {
	err = c01Serve(ctx, "many", ifs{p1, p2, p3, p4, p5, p6, p7, p8, p9, p10, p11, p12, p13, p14, p15, p16}, ifs{q1, q2, q3, q4, q5, q6}, &r)
	return
}

var _ e2e.E2EServantWithContext = c01Imp{}

// ---------- recording pass-through filters ----------
type c01LegacyRun struct {
	Client bool
	Gen    int
}

var c01LegacyRuns []c01LegacyRun // which generation of the (replaceable) legacy single filter ran

func c01Register(cfg c01Cfg) { c01RegisterDelta(c01Cfg{}, cfg) }

// c01RegisterDelta registers what `to` has beyond `from` (filters can only be added; the legacy single filter is
// replaced when its generation grows). Used at start-up and between calls.
func c01RegisterDelta(from, to c01Cfg) {
	fe := func(side, io, kind string, i int) string { return fmt.Sprintf("EF %s (F%s K%s %d)", side, io, kind, i) }
	legacyRan := func(client bool, gen int) {
		c01Mu.Lock()
		c01LegacyRuns = append(c01LegacyRuns, c01LegacyRun{client, gen})
		c01Mu.Unlock()
	}
	c, s := to.C, to.S
	if c.Legacy && (!from.C.Legacy || c.LGen > from.C.LGen) {
		gen := c.LGen
		tars.RegisterClientFilter(func(ctx context.Context, msg *tars.Message, invoke tars.Invoke, timeout time.Duration) error {
			legacyRan(true, gen)
			c01Emit(msg.Req.IRequestId, fe("Client", "In", "Legacy", 0))
			err := invoke(ctx, msg, timeout)
			c01Emit(msg.Req.IRequestId, fe("Client", "Out", "Legacy", 0))
			return err
		})
	}
	for i := from.C.Mws; i < c.Mws; i++ {
		i := i
		tars.UseClientFilterMiddleware(func(next tars.ClientFilter) tars.ClientFilter {
			return func(ctx context.Context, msg *tars.Message, invoke tars.Invoke, timeout time.Duration) error {
				c01Emit(msg.Req.IRequestId, fe("Client", "In", "Mw", i))
				err := next(ctx, msg, invoke, timeout)
				c01Emit(msg.Req.IRequestId, fe("Client", "Out", "Mw", i))
				return err
			}
		})
	}
	for i := from.C.Pres; i < c.Pres; i++ {
		i := i
		tars.RegisterPreClientFilter(func(ctx context.Context, msg *tars.Message, invoke tars.Invoke, timeout time.Duration) error {
			c01Emit(msg.Req.IRequestId, fe("Client", "In", "Pre", i))
			return nil
		})
	}
	for i := from.C.Posts; i < c.Posts; i++ {
		i := i
		tars.RegisterPostClientFilter(func(ctx context.Context, msg *tars.Message, invoke tars.Invoke, timeout time.Duration) error {
			c01Emit(msg.Req.IRequestId, fe("Client", "In", "Post", i))
			return nil
		})
	}
	if s.Legacy && (!from.S.Legacy || s.LGen > from.S.LGen) {
		gen := s.LGen
		tars.RegisterServerFilter(func(ctx context.Context, d tars.Dispatch, f interface{}, req *requestf.RequestPacket, resp *requestf.ResponsePacket, withContext bool) error {
			legacyRan(false, gen)
			c01Emit(req.IRequestId, fe("Server", "In", "Legacy", 0))
			err := d(ctx, f, req, resp, withContext)
			c01Emit(req.IRequestId, fe("Server", "Out", "Legacy", 0))
			return err
		})
	}
	for i := from.S.Mws; i < s.Mws; i++ {
		i := i
		tars.UseServerFilterMiddleware(func(next tars.ServerFilter) tars.ServerFilter {
			return func(ctx context.Context, d tars.Dispatch, f interface{}, req *requestf.RequestPacket, resp *requestf.ResponsePacket, withContext bool) error {
				c01Emit(req.IRequestId, fe("Server", "In", "Mw", i))
				err := next(ctx, d, f, req, resp, withContext)
				c01Emit(req.IRequestId, fe("Server", "Out", "Mw", i))
				return err
			}
		})
	}
	for i := from.S.Pres; i < s.Pres; i++ {
		i := i
		tars.RegisterPreServerFilter(func(ctx context.Context, d tars.Dispatch, f interface{}, req *requestf.RequestPacket, resp *requestf.ResponsePacket, withContext bool) error {
			c01Emit(req.IRequestId, fe("Server", "In", "Pre", i))
			return nil
		})
	}
	for i := from.S.Posts; i < s.Posts; i++ {
		i := i
		tars.RegisterPostServerFilter(func(ctx context.Context, d tars.Dispatch, f interface{}, req *requestf.RequestPacket, resp *requestf.ResponsePacket, withContext bool) error {
			c01Emit(req.IRequestId, fe("Server", "In", "Post", i))
			return nil
		})
	}
}

// expected filter events of one call under a configuration (model-independent statement of the property:
// the selected filters, each once, in registration order; middleware unwinding in reverse)
func c01ExpectedFilterEvents(cfg c01Cfg, implRuns bool) []string {
	side := func(name string, s c01Side) (in, out []string) {
		switch {
		case s.Legacy:
			return []string{fmt.Sprintf("EF %s (FIn KLegacy 0)", name)}, []string{fmt.Sprintf("EF %s (FOut KLegacy 0)", name)}
		case s.Mws > 0:
			for i := 0; i < s.Mws; i++ {
				in = append(in, fmt.Sprintf("EF %s (FIn KMw %d)", name, i))
				out = append([]string{fmt.Sprintf("EF %s (FOut KMw %d)", name, i)}, out...)
			}
			return
		}
		for i := 0; i < s.Pres; i++ {
			in = append(in, fmt.Sprintf("EF %s (FIn KPre %d)", name, i))
		}
		for i := 0; i < s.Posts; i++ {
			out = append(out, fmt.Sprintf("EF %s (FIn KPost %d)", name, i))
		}
		return
	}
	ci, co := side("Client", cfg.C)
	si, so := side("Server", cfg.S)
	var all []string
	all = append(all, ci...)
	all = append(all, si...)
	if implRuns {
		all = append(all, "EImpl")
	}
	all = append(all, so...)
	all = append(all, co...)
	return all
}

func c01SideEvents(l []string, client bool) []string {
	var out []string
	for _, e := range l {
		if strings.HasPrefix(e, "EF Client") == client {
			out = append(out, e)
		}
	}
	return out
}

// ---------- relay between client and server: counts frames per request id ----------
type c01Frame struct {
	ID    int32
	PType int8
	Func  string
}

var (
	c01RelayMu sync.Mutex
	c01ReqFr   []c01Frame
	c01RspIDs  = map[int32]int{}
)

// re-segmentation mode of the relay (both directions): 0 forward as read; 1..6 complete frames are forwarded so that
// each write ends k = mode-1 bytes into the next frame's length header; 7 single bytes; 8 everything in hand in one write
var c01Seg int32

func c01Pump(dst, src net.Conn, isReq bool) {
	defer dst.Close()
	defer src.Close()
	var buf []byte  // not yet accounted (incomplete frame at the end)
	var hold []byte // not yet forwarded (re-segmentation modes)
	tmp := make([]byte, 65536)
	account := func(b []byte) {
		buf = append(buf, b...)
		for len(buf) >= 4 {
			l := int(binary.BigEndian.Uint32(buf))
			if l < 4 || l > 100<<20 || len(buf) < l {
				break
			}
			body := buf[4:l]
			if isReq {
				var q requestf.RequestPacket
				if q.ReadFrom(codec.NewReader(append([]byte(nil), body...))) == nil {
					c01RelayMu.Lock()
					c01ReqFr = append(c01ReqFr, c01Frame{q.IRequestId, q.CPacketType, q.SFuncName})
					c01RelayMu.Unlock()
				}
			} else {
				var p requestf.ResponsePacket
				if p.ReadFrom(codec.NewReader(append([]byte(nil), body...))) == nil {
					c01RelayMu.Lock()
					c01RspIDs[p.IRequestId]++
					c01RelayMu.Unlock()
				}
			}
			buf = buf[l:]
		}
	}
	for {
		n, err := src.Read(tmp)
		if n > 0 {
			account(tmp[:n])
			mode := atomic.LoadInt32(&c01Seg)
			if mode == 0 && len(hold) == 0 {
				if _, werr := dst.Write(tmp[:n]); werr != nil {
					return
				}
			} else {
				hold = append(hold, tmp[:n]...)
				// gather what the pipelining callers send within a moment, so that several frames are in hand
				for tries := 0; tries < 40 && err == nil; tries++ {
					src.SetReadDeadline(time.Now().Add(400 * time.Microsecond))
					m, e := src.Read(tmp)
					if m > 0 {
						account(tmp[:m])
						hold = append(hold, tmp[:m]...)
					}
					if e != nil {
						if ne, ok := e.(net.Error); ok && ne.Timeout() {
							break
						}
						err = e
					}
				}
				src.SetReadDeadline(time.Time{})
				var werr error
				hold, werr = c01WriteSegmented(dst, hold, mode)
				if werr != nil {
					return
				}
			}
		}
		if err != nil {
			if len(hold) > 0 {
				dst.Write(hold)
			}
			return
		}
	}
}

// c01WriteSegmented forwards the complete frames at the front of data cut as the mode says and returns the incomplete
// rest (its sender writes the remainder without waiting for anything, so holding it back cannot block the exchange).
func c01WriteSegmented(dst net.Conn, data []byte, mode int32) ([]byte, error) {
	var ends []int // end offsets of the complete frames
	for off := 0; len(data)-off >= 4; {
		l := int(binary.BigEndian.Uint32(data[off:]))
		if l < 4 || l > 100<<20 {
			_, err := dst.Write(data) // not a frame stream: pass on
			return nil, err
		}
		if len(data)-off < l {
			break
		}
		off += l
		ends = append(ends, off)
	}
	if len(ends) == 0 {
		return data, nil
	}
	total := ends[len(ends)-1]
	out := data[:total]
	pause := func() { time.Sleep(300 * time.Microsecond) }
	switch {
	case mode >= 1 && mode <= 6:
		k := int(mode - 1)
		start := 0
		for i, e := range ends {
			cut := e
			if i < len(ends)-1 && e+k <= total {
				cut = e + k
			}
			if cut > start {
				if _, err := dst.Write(out[start:cut]); err != nil {
					return nil, err
				}
				start = cut
				if i < len(ends)-1 {
					pause()
				}
			}
		}
	case mode == 7 && total <= 8192:
		for i := 0; i < total; i++ {
			if _, err := dst.Write(out[i : i+1]); err != nil {
				return nil, err
			}
			if i%16 == 15 {
				time.Sleep(20 * time.Microsecond)
			}
		}
	default: // 8, or anything else: one write
		if _, err := dst.Write(out); err != nil {
			return nil, err
		}
	}
	return append([]byte(nil), data[total:]...), nil
}

func c01StartRelay(serverAddr string) (string, error) {
	ln, err := net.Listen("tcp", "127.0.0.1:0")
	if err != nil {
		return "", err
	}
	go func() {
		for {
			c, err := ln.Accept()
			if err != nil {
				return
			}
			s, err := net.Dial("tcp", serverAddr)
			if err != nil {
				c.Close()
				continue
			}
			go c01Pump(s, c, true)
			go c01Pump(c, s, false)
		}
	}()
	return ln.Addr().String(), nil
}

// ---------- server start ----------
func c01FreePort() int {
	ln, err := net.Listen("tcp", "127.0.0.1:0")
	if err != nil {
		fatal("c01: no free port: %v", err)
	}
	p := ln.Addr().(*net.TCPAddr).Port
	ln.Close()
	return p
}

func c01StartServer(dir string, objQueueMax int) (proxy *e2e.E2E, err error) {
	queueLine := ""
	if objQueueMax > 0 {
		queueLine = fmt.Sprintf("objqueuemax=%d", objQueueMax)
	}
	for attempt := 0; attempt < 1; attempt++ {
		port := c01FreePort()
		conf := fmt.Sprintf(`<tars>
  <application>
    <server>
      app=VerifApp
      server=E2EServer
      localip=127.0.0.1
      logLevel=ERROR
      maxroutine=0
      <VerifApp.E2EServer.E2EObjAdapter>
        allow
        endpoint=tcp -h 127.0.0.1 -p %d -t 60000
        handlegroup=VerifApp.E2EServer.E2EObjAdapter
        maxconns=1000
        protocol=tars
        queuecap=10000
        queuetimeout=60000
        servant=VerifApp.E2EServer.E2EObj
        threads=5
      </VerifApp.E2EServer.E2EObjAdapter>
    </server>
    <client>
      async-invoke-timeout=20000
      sync-invoke-timeout=20000
      %s
    </client>
  </application>
</tars>
`, port, queueLine)
		path := dir + "/e2e.conf"
		if err := os.WriteFile(path, []byte(conf), 0o644); err != nil {
			return nil, err
		}
		tars.ServerConfigPath = path
		_ = tars.GetServerConfig()
		rogger.SetLevel(rogger.OFF)
		tars.AddServantWithContext(new(e2e.E2E), c01Imp{}, "VerifApp.E2EServer.E2EObj")
		go tars.Run()
		addr := fmt.Sprintf("127.0.0.1:%d", port)
		ok := false
		for i := 0; i < 200; i++ {
			c, err := net.DialTimeout("tcp", addr, 200*time.Millisecond)
			if err == nil {
				c.Close()
				ok = true
				break
			}
			time.Sleep(25 * time.Millisecond)
		}
		if !ok {
			return nil, fmt.Errorf("server did not start listening on %s", addr)
		}
		rogger.SetLevel(rogger.OFF)
		raddr, err := c01StartRelay(addr)
		if err != nil {
			return nil, err
		}
		host, rport, _ := net.SplitHostPort(raddr)
		comm := tars.NewCommunicator()
		proxy = new(e2e.E2E)
		comm.StringToProxy(fmt.Sprintf("VerifApp.E2EServer.E2EObj@tcp -h %s -p %s -t 60000", host, rport), proxy)
		proxy.TarsSetTimeout(20000)
		return proxy, nil
	}
	return nil, errors.New("unreachable")
}

// c01Chain is a Node nested n structs deep: on the wire struct > list > struct > ... = 2n-1 nesting levels.
func c01Chain(n int) e2e.Node {
	nd := e2e.Node{V: int32(n)}
	for i := n - 1; i >= 1; i-- {
		nd = e2e.Node{V: int32(i), Kids: []e2e.Node{nd}}
	}
	return nd
}

// c01WireDepth is the nesting depth of the encoding of v as a required member (what skipField has to descend):
// structs, non-empty vectors and maps count one level each; members the encoder omits do not count.
func c01WireDepth(v reflect.Value) int {
	switch v.Kind() {
	case reflect.Struct:
		d := 0
		for _, f := range fieldsOf(v.Type()) {
			fv := v.Field(f.Idx)
			if !f.Req && (fv.Kind() == reflect.Slice || fv.Kind() == reflect.Map) && fv.Len() == 0 {
				continue
			}
			if x := c01WireDepth(fv); x > d {
				d = x
			}
		}
		return 1 + d
	case reflect.Slice, reflect.Array:
		if k := v.Type().Elem().Kind(); k == reflect.Int8 || k == reflect.Uint8 {
			return 0
		}
		d := 0
		for i := 0; i < v.Len(); i++ {
			if x := c01WireDepth(v.Index(i)); x > d {
				d = x
			}
		}
		return 1 + d
	case reflect.Map:
		d := 0
		for _, mk := range v.MapKeys() {
			if x := c01WireDepth(mk); x > d {
				d = x
			}
			if x := c01WireDepth(v.MapIndex(mk)); x > d {
				d = x
			}
		}
		return 1 + d
	}
	return 0
}

// c01Unskippable: the dispatcher cannot pass over one of the caller's out variables (known finding; the call fails
// before the implementation is reached)
func c01Unskippable(p *c01Prepared) bool {
	for i := range p.f.argT {
		if p.f.Dirs[i] == 'o' && strings.ContainsRune(p.f.Dirs[i:], 'i') && c01WireDepth(p.vals[i]) > codec.VerifMaxSkipDepth() {
			return true
		}
	}
	return false
}

// ---------- one call ----------
type c01Prepared struct {
	f      *c01Fn
	argv   []reflect.Value // per argument: the value (in) or a pointer to the variable (out / struct in)
	vals   []reflect.Value // per argument: the value as passed (out: the prior value)
	ins    []reflect.Value
	opts   []map[string]string
	ctxMap map[string]string
	stMap  map[string]string
	key    string
	plan   c01Plan
	method reflect.Value
	proxy  *e2e.E2E
	tmoMs  int // > 0: the proxy's timeout for this call
}

func c01Prepare(proxy *e2e.E2E, k *c01Call) *c01Prepared {
	f := c01FnByName[k.Fn]
	if f == nil {
		fatal("c01: unknown function %q", k.Fn)
	}
	rng := rand.New(rand.NewSource(k.Seed))
	p := &c01Prepared{f: f, proxy: proxy, tmoMs: k.Timeout}
	for i, t := range f.argT {
		v := reflect.New(t) // pointer to a fresh variable
		if f.Dirs[i] == 'i' || k.Prior {
			fillRandom(rng, v.Elem(), 3)
			if f.Dirs[i] == 'i' && k.Big > 0 {
				c01Inflate(rng, v.Elem(), k.Big+2)
			}
		}
		if f.Dirs[i] == 'o' && k.DeepPrior > 0 && t == reflect.TypeOf(e2e.Node{}) {
			v.Elem().Set(reflect.ValueOf(c01Chain(k.DeepPrior)))
		}
		cp := reflect.New(t)
		cp.Elem().Set(v.Elem())
		p.vals = append(p.vals, cp.Elem())
		if f.Dirs[i] == 'i' {
			p.ins = append(p.ins, cp.Elem())
		}
		if f.Dirs[i] == 'o' || t.Kind() == reflect.Struct {
			p.argv = append(p.argv, v)
		} else {
			p.argv = append(p.argv, v.Elem())
		}
	}
	if k.NOpts >= 1 {
		p.ctxMap = c01RandMap(rng, k.CtxKind)
		p.opts = append(p.opts, p.ctxMap)
	}
	if k.NOpts >= 2 {
		p.stMap = c01RandMap(rng, k.StKind)
		p.opts = append(p.opts, p.stMap)
	}
	p.key = c01Key(f.Name, p.ins, p.ctxMap, p.stMap)
	ctl := c01Ctl{RCtx: k.RCtx, RSt: k.RSt, ErrKind: k.ErrKind, ErrCode: k.ErrCode, ErrMsg: string(k.ErrMsg), EmptyOuts: k.EmptyOuts, Big: k.Big, SleepMs: k.Slow}
	c01Mu.Lock()
	if old, ok := c01Ctls[p.key]; ok {
		ctl = old // two callers passing identical inputs get the identical behaviour
	} else {
		c01Ctls[p.key] = ctl
	}
	c01Mu.Unlock()
	p.plan = c01MakePlan(f, p.key, ctl)
	name := f.Go + "WithContext"
	if k.OneWay {
		name = f.Go + "OneWayWithContext"
	}
	p.method = reflect.ValueOf(proxy).MethodByName(name)
	// Coq rendering of the inputs
	k.Sig = f.coqSig()
	k.Args = c01Vals(p.vals)
	k.Ins = c01Vals(p.ins)
	var os []string
	for _, m := range p.opts {
		if m == nil {
			os = append(os, "None")
		} else {
			os = append(os, "(Some "+c01Map(m)+")")
		}
	}
	k.Opts = "[" + strings.Join(os, "; ") + "]"
	k.Plan = p.plan.coq(f)
	return p
}

type c01Outcome struct {
	panicked string
	timedOut bool
	ret      reflect.Value
	err      error
}

func c01Invoke(p *c01Prepared) (o c01Outcome) {
	if p.tmoMs > 0 {
		p.proxy.TarsSetTimeout(p.tmoMs)
		defer p.proxy.TarsSetTimeout(c01CallTimeout)
	}
	args := []reflect.Value{reflect.ValueOf(context.Background())}
	args = append(args, p.argv...)
	for _, m := range p.opts {
		args = append(args, reflect.ValueOf(m))
	}
	done := make(chan struct{})
	go func() {
		defer close(done)
		defer func() {
			if r := recover(); r != nil {
				o.panicked = fmt.Sprint(r)
			}
		}()
		rs := p.method.Call(args)
		if len(rs) == 2 {
			o.ret = rs[0]
		}
		if e, ok := rs[len(rs)-1].Interface().(error); ok {
			o.err = e
		}
	}()
	select {
	case <-done:
	case <-time.After(60 * time.Second):
		return c01Outcome{timedOut: true}
	}
	return o
}

func c01MapsEqual(a, b map[string]string) bool {
	if len(a) != len(b) {
		return false
	}
	for k, v := range a {
		if w, ok := b[k]; !ok || w != v {
			return false
		}
	}
	return true
}

// c01Judge evaluates the call-site monitors (model-independent) and renders the observed result.
func c01Judge(cfg c01Cfg, k *c01Call, p *c01Prepared, o c01Outcome) {
	fail := func(site, class, format string, a ...interface{}) {
		k.Fails = append(k.Fails, "e2e/"+site+"/"+class+"\x00"+fmt.Sprintf(format, a...))
	}
	nilMapClass := func() string {
		// a nil map passed for a position in which the servant sets a non-empty response map
		if (k.NOpts >= 1 && p.ctxMap == nil && len(p.plan.rctx) > 0) || (k.NOpts >= 2 && p.stMap == nil && len(p.plan.rstatus) > 0) {
			return "nil-map-passed+response-map-set"
		}
		return "other"
	}
	switch {
	case o.timedOut:
		k.Res = "CLost"
		fail("no-result", "call-did-not-return", "%s did not return within 60 s", k.Fn)
		return
	case o.panicked != "":
		k.Res = "CPanic"
		fail("panic", nilMapClass(), "the generated proxy method %s panicked: %s (opts passed: %s, response context %d entries, response status %d entries)", k.Fn, o.panicked, k.Opts, len(p.plan.rctx), len(p.plan.rstatus))
		return
	}
	if k.OneWay {
		if o.err != nil {
			k.Res = fmt.Sprintf("(CErr %s %s false)", coqZ(int64(tars.GetErrorCode(o.err))), c01Str(o.err.Error()))
			fail("oneway", "send-error", "one-way %s returned an error: %v", k.Fn, o.err)
		} else {
			k.Res = "CSent"
		}
		return
	}
	if o.err != nil {
		code := tars.GetErrorCode(o.err)
		k.Res = fmt.Sprintf("(CErr %s %s false)", coqZ(int64(code)), c01Str(o.err.Error()))
		if k.Timeout > 0 && k.Slow > k.Timeout {
			// a step of a call history: the implementation takes longer than the caller waits; the caller must get a timeout
			if !strings.Contains(o.err.Error(), "timeout") {
				fail("history", "slow-call-failed-otherwise", "%s: the implementation takes %d ms, the caller waits %d ms and got %q instead of a timeout", k.Fn, k.Slow, k.Timeout, o.err.Error())
			}
			return
		}
		if p.plan.err == nil {
			// the request carries the caller's out variables; the dispatcher passes over those in front of an in argument
			// with skipField, which refuses nesting deeper than maxSkipDepth
			for i := range p.f.argT {
				if p.f.Dirs[i] == 'o' && strings.ContainsRune(p.f.Dirs[i:], 'i') && c01WireDepth(p.vals[i]) > codec.VerifMaxSkipDepth() {
					fail("spurious-error", "prefilled-out-argument-deeper-than-skip-limit", "%s: the implementation would succeed but the caller got error code %d %q: out variable %d holds a value nested %d levels deep (skip limit %d) and is encoded in front of an in argument", k.Fn, code, o.err.Error(), i, c01WireDepth(p.vals[i]), codec.VerifMaxSkipDepth())
					return
				}
			}
			fail("spurious-error", cfg.String(), "%s: the implementation succeeded but the caller got error code %d %q", k.Fn, code, o.err.Error())
			return
		}
		wc, wm := tars.GetErrorCode(p.plan.err), p.plan.err.Error()
		if te, ok := p.plan.err.(*tars.Error); ok && te.Code == 0 {
			// code 0 is the protocol's success marker: the reply says "success" with an empty buffer and the proxy fails to decode the results
			fail("error-code-zero", "reported-as-decode-error", "%s: the implementation failed with a tars.Error of code 0 (%q); the caller got code %d %q", k.Fn, wm, code, o.err.Error())
			return
		}
		if wm == "" {
			if code != wc {
				fail("error-code", "empty-message", "%s: the implementation failed with code %d and an empty message; the caller got code %d %q", k.Fn, wc, code, o.err.Error())
			}
			return
		}
		if code != wc {
			fail("error-code", "differs", "%s: the implementation failed with code %d; the caller got code %d (%q)", k.Fn, wc, code, o.err.Error())
		}
		if o.err.Error() != wm {
			fail("error-message", "differs", "%s: the implementation failed with message %q; the caller got %q", k.Fn, wm, o.err.Error())
		}
		return
	}
	// success at the call site
	ret := "None"
	if o.ret.IsValid() {
		ret = "(Some " + dumpVal(o.ret) + ")"
	}
	var outs []reflect.Value
	for i := range p.f.argT {
		if p.f.Dirs[i] == 'o' {
			outs = append(outs, p.argv[i].Elem())
		}
	}
	var ms []string
	for _, m := range p.opts {
		ms = append(ms, c01Map(m))
	}
	k.Res = fmt.Sprintf("(COk %s %s [%s])", ret, c01Vals(outs), strings.Join(ms, "; "))
	if te, ok := p.plan.err.(*tars.Error); ok && te.Code == 0 {
		fail("error-code-zero", "reported-as-success", "%s: the implementation failed with a tars.Error of code 0 (%q) but the caller got success", k.Fn, te.Message)
		return
	}
	if p.plan.err != nil {
		fail("error-lost", cfg.String(), "%s: the implementation failed with code %d %q but the caller got success", k.Fn, tars.GetErrorCode(p.plan.err), p.plan.err.Error())
		return
	}
	priorClass := "fresh-out-variable"
	if k.Prior {
		priorClass = "prefilled-out-variable"
	}
	if p.plan.ret.IsValid() && !valuesEqual(p.plan.ret, o.ret, nil) {
		fail("return", "value-differs", "%s: returned %s, the implementation returned %s", k.Fn, trunc200(dumpVal(o.ret)), trunc200(dumpVal(p.plan.ret)))
	}
	oi := 0
	for i := range p.f.argT {
		if p.f.Dirs[i] != 'o' {
			continue
		}
		ov, want := outs[oi], p.plan.outs[oi]
		if !valuesEqual(want, ov, nil) {
			class := priorClass + "/value-differs"
			// the known defects of decoding into a variable that holds a value: exactly the members the implementation
			// left empty keep the caller's earlier content (see c01StaleMerge)
			if k.Prior {
				switch {
				case valuesEqual(c01StaleMerge(p.vals[i], want, true, false), ov, nil):
					class = priorClass + "/stale-optional-member"
				case valuesEqual(c01StaleMerge(p.vals[i], want, false, true), ov, nil):
					class = priorClass + "/stale-empty-byte-vector"
				case valuesEqual(c01StaleMerge(p.vals[i], want, true, true), ov, nil):
					class = priorClass + "/stale-optional-member+empty-byte-vector"
				}
			}
			fail("out", class, "%s: out parameter %d is %s, the implementation set %s (the caller's variable held %s before the call)", k.Fn, oi, trunc200(dumpVal(ov)), trunc200(dumpVal(want)), trunc200(dumpVal(p.vals[i])))
		}
		oi++
	}
	// a map the caller passed holds exactly the response map afterwards; a nil map cannot receive anything and stays nil
	if k.NOpts >= 1 && p.ctxMap != nil && !c01MapsEqual(p.ctxMap, p.plan.rctx) {
		fail("response-context", "differs", "%s: the caller's context map is %s after the call, the implementation set %s", k.Fn, c01Map(p.ctxMap), c01Map(p.plan.rctx))
	}
	if k.NOpts >= 2 && p.stMap != nil && !c01MapsEqual(p.stMap, p.plan.rstatus) {
		fail("response-status", "differs", "%s: the caller's status map is %s after the call, the implementation set %s", k.Fn, c01Map(p.stMap), c01Map(p.plan.rstatus))
	}
}

// c01StaleMerge returns what an out variable holding `prior` contains after the generated proxy has decoded `set`
// into it, given two known defects of decoding into a target that already holds a value:
//   optMember (C04, generated ResetDefault): an optional vector/map member of a struct that `set` leaves empty is not
//     on the wire and ResetDefault does not clear it, so the prior content stays;
//   emptyBytes (codec.ReadSliceInt8/ReadSliceUint8 return at once for length 0): an empty vector<byte> /
//     vector<unsigned byte> does not replace the prior content.
// Directly nested structs are decoded in place (same effects); elements of vectors and maps are decoded into fresh
// values (no effect).
func c01StaleMerge(prior, set reflect.Value, optMember, emptyBytes bool) reflect.Value {
	t := set.Type()
	isBytes := func(t reflect.Type) bool {
		return t.Kind() == reflect.Slice && (t.Elem().Kind() == reflect.Int8 || t.Elem().Kind() == reflect.Uint8)
	}
	if emptyBytes && isBytes(t) && set.Len() == 0 && prior.Len() > 0 {
		return prior
	}
	if t.Kind() != reflect.Struct {
		return set
	}
	out := reflect.New(t).Elem()
	out.Set(set)
	for _, f := range fieldsOf(t) {
		pf, sf := prior.Field(f.Idx), set.Field(f.Idx)
		switch sf.Kind() {
		case reflect.Slice, reflect.Map:
			if sf.Len() == 0 && pf.Len() > 0 && ((optMember && !f.Req) || (emptyBytes && f.Req && isBytes(sf.Type()))) {
				out.Field(f.Idx).Set(pf)
			}
		case reflect.Struct:
			out.Field(f.Idx).Set(c01StaleMerge(pf, sf, optMember, emptyBytes))
		}
	}
	return out
}

func c01SeenCount(key string) int {
	c01Mu.Lock()
	defer c01Mu.Unlock()
	return c01Seen[key]
}

// waits until the implementation has been invoked `want` times with this key (one-way calls return at once)
func c01AwaitSeen(key string, want int) bool {
	dl := time.Now().Add(c01WaitLimit)
	for time.Now().Before(dl) {
		if c01SeenCount(key) >= want {
			return true
		}
		time.Sleep(2 * time.Millisecond)
	}
	c01WaitLimit = 2 * time.Second // once something did not arrive within 20 s the later waits need not be as patient
	return false
}

// how long the child waits for the server side of a call to show up after the call has returned
var c01WaitLimit = 20 * time.Second

var c01CaseStart int64

// timeout of the proxy in ms; lowered once a call has run into it (see the case loop)
var c01CallTimeout = 20000

// c01Watchdog writes all goroutine stacks to stderr (kept by the parent) once when a case takes longer than 30 s.
func c01Watchdog() {
	for {
		time.Sleep(time.Second)
		if t := atomic.LoadInt64(&c01CaseStart); t != 0 && time.Now().UnixNano()-t > int64(30*time.Second) {
			buf := make([]byte, 1<<20)
			n := runtime.Stack(buf, true)
			fmt.Fprintf(os.Stderr, "c01 child: a case has been running for more than 30 s; goroutines:\n%s\n", buf[:n])
			return
		}
	}
}

// c01Probe makes sure that the process listening on the chosen port is this process's server (another process may
// have taken the port between c01FreePort and tars.Run) before any case runs: one call of ping() must reach c01Imp.
func c01Probe(proxy *e2e.E2E) error {
	key := c01Key("ping", nil, nil, nil)
	c01Mu.Lock()
	c01Ctls[key] = c01Ctl{}
	c01Mu.Unlock()
	proxy.TarsSetTimeout(3000)
	var err error
	for i := 0; i < 3; i++ {
		if err = proxy.PingWithContext(context.Background()); err == nil {
			break
		}
	}
	proxy.TarsSetTimeout(20000)
	if err != nil {
		return fmt.Errorf("probe call ping() failed: %v", err)
	}
	if c01SeenCount(key) == 0 {
		return errors.New("probe call ping() returned without reaching this process's servant")
	}
	time.Sleep(20 * time.Millisecond)
	c01Mu.Lock()
	c01Seen = map[string]int{}
	c01Unknown = nil
	c01Mu.Unlock()
	c01RelayMu.Lock()
	c01ReqFr = nil
	c01RspIDs = map[int32]int{}
	c01RelayMu.Unlock()
	return nil
}

func c01Reverse(s string) string {
	b := []byte(s)
	for i, j := 0, len(b)-1; i < j; i, j = i+1, j-1 {
		b[i], b[j] = b[j], b[i]
	}
	return string(b)
}

// c01BurstText is the payload of string call idx: a tag carrying idx and 0..1500 bytes derived from idx (replies of
// many different sizes share the server's and the client's buffers)
func c01BurstText(idx int) string {
	n := (idx * 37) % 1500
	b := make([]byte, n)
	x := uint32(idx)*2654435761 + 12345
	for i := range b {
		x = x*1664525 + 1013904223
		b[i] = byte(x >> 24)
	}
	return fmt.Sprintf("B!%08d", idx) + string(b)
}

// c01RunBurst: g goroutines make n calls each of fInt(a, out o) with a payload no other call uses; every caller must
// get the answer to its own payload (a reply routed to another caller, a lost reply, an implementation invoked twice
// or never all show up), and the relay must have seen every request id once.
func c01RunBurst(proxy *e2e.E2E, g, n int) (fails []string) {
	if runtime.GOMAXPROCS(0) < 4 {
		runtime.GOMAXPROCS(4)
	}
	c01BurstCounts = make([]int32, g*n)
	atomic.StoreInt32(&c01BurstOn, 1)
	defer atomic.StoreInt32(&c01BurstOn, 0)
	proxy.TarsSetTimeout(2000)
	defer func() { proxy.TarsSetTimeout(c01CallTimeout) }()
	var mu sync.Mutex
	var wrong, lost, failed int
	first := ""
	note := func(kind *int, format string, a ...interface{}) {
		mu.Lock()
		*kind++
		if first == "" {
			first = fmt.Sprintf(format, a...)
		}
		mu.Unlock()
	}
	var wg sync.WaitGroup
	start := make(chan struct{})
	for gi := 0; gi < g; gi++ {
		wg.Add(1)
		go func(gi int) {
			defer wg.Done()
			<-start
			for i := 0; i < n; i++ {
				if gi%2 == 1 { // every other caller: strings of varying length, compared byte for byte
					idx := gi*n + i
					a := c01BurstText(idx)
					var o string
					r, err := proxy.FStringWithContext(context.Background(), a, &o)
					switch {
					case err != nil && strings.Contains(err.Error(), "timeout"):
						note(&lost, "caller %d call %d (string payload %d): no reply: %v", gi, i, idx, err)
					case err != nil:
						note(&failed, "caller %d call %d (string payload %d): error %v", gi, i, idx, err)
					case r != a+"|"+a || o != c01Reverse(a):
						note(&wrong, "caller %d call %d (string payload %d, %d bytes): the %d+%d bytes returned are not the answer to this payload (return starts %q)", gi, i, idx, len(a), len(r), len(o), trunc200(r[:min(len(r), 12)]))
					}
					continue
				}
				a := c01BurstBase + int32(gi*n+i)
				var o int32
				r, err := proxy.FIntWithContext(context.Background(), a, &o)
				switch {
				case err != nil && strings.Contains(err.Error(), "timeout"):
					note(&lost, "caller %d call %d (payload %d): no reply: %v", gi, i, a, err)
				case err != nil:
					note(&failed, "caller %d call %d (payload %d): error %v", gi, i, a, err)
				case r != a^c01BurstKey || o != ^a:
					note(&wrong, "caller %d call %d (payload %d): got return %d out %d, the answer to payload %d", gi, i, a, r, o, r^c01BurstKey)
				}
			}
		}(gi)
	}
	close(start)
	wg.Wait()
	time.Sleep(20 * time.Millisecond)
	if wrong > 0 {
		fails = append(fails, fmt.Sprintf("e2e/concurrent-burst/reply-of-another-call\x00%d of %d calls (%d callers x %d) returned the answer to another caller's payload; first: %s", wrong, g*n, g, n, first))
	}
	if lost > 0 {
		fails = append(fails, fmt.Sprintf("e2e/concurrent-burst/call-lost\x00%d of %d calls (%d callers x %d) got no reply; first: %s", lost, g*n, g, n, first))
	}
	if failed > 0 {
		fails = append(fails, fmt.Sprintf("e2e/concurrent-burst/spurious-error\x00%d of %d calls (%d callers x %d) failed; first: %s", failed, g*n, g, n, first))
	}
	twice, never := 0, 0
	for i := range c01BurstCounts {
		switch c := atomic.LoadInt32(&c01BurstCounts[i]); {
		case c == 0:
			never++
		case c > 1:
			twice++
		}
	}
	if twice > 0 || (never > 0 && lost == 0 && failed == 0) {
		fails = append(fails, fmt.Sprintf("e2e/concurrent-burst/invocations\x00the implementation ran more than once for %d payloads and never for %d of %d", twice, never, g*n))
	}
	return fails
}

func c01ChildMain(inPath, outPath string) {
	c01InitFns()
	b, err := os.ReadFile(inPath)
	if err != nil {
		fatal("c01 child: %v", err)
	}
	var cases []c01Case
	if err := json.Unmarshal(b, &cases); err != nil {
		fatal("c01 child: %v", err)
	}
	if len(cases) == 0 {
		os.WriteFile(outPath, []byte(`{"cases":[],"failures":[]}`), 0o644)
		return
	}
	cfg := cases[0].Cfg
	c01Register(cfg)
	registered := cfg
	dir := "."
	if i := strings.LastIndexByte(outPath, '/'); i >= 0 {
		dir = outPath[:i]
	}
	proxy, err := c01StartServer(dir, cases[0].ObjQueueMax)
	if err == nil {
		err = c01Probe(proxy)
	}
	if err != nil {
		// not a verdict about any case: the parent starts a fresh child for the same batch
		os.WriteFile(outPath+".startup", []byte(err.Error()), 0o644)
		fmt.Fprintf(os.Stderr, "c01 child: startup failed: %v\n", err)
		os.Exit(3)
	}
	go c01Watchdog()
	out := c01ChildOut{Failures: []Failure{}, Stats: map[string]int{}}
	expectSeen := map[string]int{}
	burstCalls := 0
	slowSeen := false
	addFail := func(ci int, sig, desc string) {
		out.Failures = append(out.Failures, Failure{Sig: sig, Desc: desc, Replay: map[string]interface{}{"case_index": ci}})
	}
	for ci := range cases {
		cs := &cases[ci]
		atomic.StoreInt64(&c01CaseStart, time.Now().UnixNano())
		if cs.Cfg != registered { // filters registered between calls: the very next call must run through them
			c01RegisterDelta(registered, cs.Cfg)
			registered = cs.Cfg
		}
		cfg = cs.Cfg
		atomic.StoreInt32(&c01Seg, int32(cs.Seg))
		c01Mu.Lock()
		legacyStart := len(c01LegacyRuns)
		c01Mu.Unlock()
		if cs.Burst != nil {
			t0 := time.Now()
			for _, f := range c01RunBurst(proxy, cs.Burst.G, cs.Burst.N) {
				parts := strings.SplitN(f, "\x00", 2)
				addFail(ci, parts[0], parts[1])
				cs.Burst.Fails = append(cs.Burst.Fails, parts[0]+": "+parts[1])
			}
			cs.Burst.Ms = float64(time.Since(t0).Milliseconds())
			burstCalls += cs.Burst.G * cs.Burst.N
			out.Cases = append(out.Cases, *cs)
			continue
		}
		c01Mu.Lock()
		c01Ctls = map[string]c01Ctl{} // the server is quiescent between batches
		c01Mu.Unlock()
		preps := make([]*c01Prepared, len(cs.Calls))
		for i := range cs.Calls {
			preps[i] = c01Prepare(proxy, &cs.Calls[i])
		}
		c01Mu.Lock()
		logStart := len(c01Log)
		unknownStart := len(c01Unknown)
		before := map[string]int{}
		for _, p := range preps {
			before[p.key] = c01Seen[p.key]
		}
		c01Mu.Unlock()
		outs := make([]c01Outcome, len(preps))
		if len(preps) == 1 {
			t0 := time.Now()
			outs[0] = c01Invoke(preps[0])
			cs.Calls[0].Ms = float64(time.Since(t0).Microseconds()) / 1000
		} else {
			var wg sync.WaitGroup
			start := make(chan struct{})
			for i := range preps {
				wg.Add(1)
				go func(i int) {
					defer wg.Done()
					<-start
					outs[i] = c01Invoke(preps[i])
				}(i)
			}
			close(start)
			wg.Wait()
		}
		// a slow call that timed out on the client is still running in the server: wait until nothing is in flight
		drain := 0
		for i := range cs.Calls {
			if d := cs.Calls[i].Slow - cs.Calls[i].Timeout + 150; cs.Calls[i].Slow > 0 && d > drain {
				drain = d
			}
		}
		if drain > 0 {
			time.Sleep(time.Duration(drain) * time.Millisecond)
		}
		// expected implementation invocations of this batch, per key
		want := map[string]int{}
		wantOneWay := map[string]bool{}
		for i, p := range preps {
			if c01Unskippable(p) {
				continue
			}
			want[p.key]++
			if cs.Calls[i].OneWay {
				wantOneWay[p.key] = true
			}
		}
		for key, n := range want {
			expectSeen[key] += n
			if c01SeenCount(key) >= before[key]+n {
				continue
			}
			if !wantOneWay[key] || !c01AwaitSeen(key, before[key]+n) { // a normal call returns after the implementation ran
				addFail(ci, "e2e/invocations/missing", fmt.Sprintf("the implementation was invoked %d times with the inputs of %d call(s) of this batch: %s", c01SeenCount(key)-before[key], n, trunc200(key)))
			}
		}
		hasOneWay := false
		for i := range cs.Calls {
			if cs.Calls[i].OneWay {
				hasOneWay = true
			}
		}
		if hasOneWay {
			// a one-way call returns before the server has run: wait for the server side to finish (all expected
			// events logged), then a little longer so that a (wrong) second delivery or reply would show up
			wantEv := len(preps) * len(c01ExpectedFilterEvents(cfg, true))
			dl := time.Now().Add(c01WaitLimit)
			arrived := false
			for time.Now().Before(dl) {
				c01Mu.Lock()
				n := len(c01Log) - logStart
				c01Mu.Unlock()
				if n >= wantEv {
					arrived = true
					break
				}
				time.Sleep(2 * time.Millisecond)
			}
			if !arrived {
				c01WaitLimit = 2 * time.Second
			}
			time.Sleep(15 * time.Millisecond)
		}
		for key, n := range want {
			if got := c01SeenCount(key) - before[key]; got > n {
				addFail(ci, "e2e/invocations/duplicate", fmt.Sprintf("the implementation was invoked %d times with the inputs of %d call(s): %s", got, n, trunc200(key)))
			}
		}
		c01Mu.Lock()
		evs := append([]c01Event(nil), c01Log[logStart:]...)
		unknown := append([]string(nil), c01Unknown[unknownStart:]...)
		c01Mu.Unlock()
		for _, u := range unknown {
			exp := ""
			if len(preps) == 1 {
				exp = "; the caller passed " + trunc200(preps[0].key)
			}
			addFail(ci, "e2e/servant-inputs/differ", "the implementation received inputs that no caller of this batch passed: "+trunc200(u)+exp)
		}
		for i := range cs.Calls {
			k := &cs.Calls[i]
			if !slowSeen && !(k.Timeout > 0 && k.Slow > k.Timeout) && outs[i].err != nil && strings.Contains(outs[i].err.Error(), "request timeout") {
				// a call ran into the 20 s timeout: something is broken; later calls need not wait that long to say so
				slowSeen = true
				c01CallTimeout = 3000
				proxy.TarsSetTimeout(c01CallTimeout)
			}
			c01Judge(cfg, k, preps[i], outs[i])
			for _, f := range k.Fails {
				parts := strings.SplitN(f, "\x00", 2)
				addFail(ci, parts[0], parts[1])
			}
			for j := range k.Fails {
				k.Fails[j] = strings.Replace(k.Fails[j], "\x00", ": ", 1)
			}
			if k.NoModel { // too large for the model evaluation: monitors only
				k.Sig, k.Args, k.Ins, k.Plan, k.Res = "", "", "", "", ""
			}
		}
		// filter / implementation event order
		if len(preps) == 1 {
			k := &cs.Calls[0]
			var got, gotCoq []string
			for _, e := range evs {
				gotCoq = append(gotCoq, e.Coq)
				if strings.HasPrefix(e.Coq, "EImpl") {
					got = append(got, "EImpl")
				} else {
					got = append(got, e.Coq)
				}
			}
			k.Events = "(Some [" + strings.Join(gotCoq, "; ") + "])"
			exp := c01ExpectedFilterEvents(cfg, !c01Unskippable(preps[0]))
			if k.OneWay {
				// a one-way call returns without waiting for the server: only the order within each side is determined
				got = append(c01SideEvents(got, true), c01SideEvents(got, false)...)
				exp = append(c01SideEvents(exp, true), c01SideEvents(exp, false)...)
			}
			if strings.Join(got, ";") != strings.Join(exp, ";") {
				addFail(ci, "e2e/filter-order/"+cfg.String(), fmt.Sprintf("%s: filter and implementation events of the call were [%s]; registered pass-through filters must see the call once each, in registration order: [%s]", k.Fn, strings.Join(got, "; "), strings.Join(exp, "; ")))
			}
		} else {
			exp := strings.Join(c01ExpectedFilterEvents(cfg, false), ";")
			per := map[int32][]string{}
			for _, e := range evs {
				if !strings.HasPrefix(e.Coq, "EImpl") {
					per[e.ReqID] = append(per[e.ReqID], e.Coq)
				}
			}
			if exp != "" && len(per) != len(preps) {
				addFail(ci, "e2e/filter-order/"+cfg.String(), fmt.Sprintf("%d concurrent calls but the filters saw %d distinct request ids", len(preps), len(per)))
			}
			oneWayID := map[int32]bool{}
			c01RelayMu.Lock()
			for _, fr := range c01ReqFr {
				if fr.PType == 1 {
					oneWayID[fr.ID] = true
				}
			}
			c01RelayMu.Unlock()
			expOW := strings.Join(append(c01SideEvents(c01ExpectedFilterEvents(cfg, false), true), c01SideEvents(c01ExpectedFilterEvents(cfg, false), false)...), ";")
			for id, l := range per {
				if oneWayID[id] { // only the order within each side is determined
					if strings.Join(append(c01SideEvents(l, true), c01SideEvents(l, false)...), ";") == expOW {
						continue
					}
				}
				if strings.Join(l, ";") != exp {
					addFail(ci, "e2e/filter-order/"+cfg.String(), fmt.Sprintf("concurrent call with request id %d: filter events [%s], expected [%s]", id, strings.Join(l, "; "), strings.ReplaceAll(exp, ";", "; ")))
					break
				}
			}
			for i := range cs.Calls {
				cs.Calls[i].Events = "None"
			}
		}
		atomic.StoreInt32(&c01Seg, 0)
		c01Mu.Lock()
		for _, lr := range c01LegacyRuns[legacyStart:] {
			want := cfg.S.LGen
			side := "server"
			if lr.Client {
				want, side = cfg.C.LGen, "client"
			}
			if lr.Gen != want {
				addFail(ci, "e2e/filter-order/replaced-legacy-filter", fmt.Sprintf("the %s legacy filter registered as number %d ran although number %d replaced it", side, lr.Gen, want))
				break
			}
		}
		c01Mu.Unlock()
		out.Cases = append(out.Cases, *cs)
		if ci%20 == 19 || len(cs.Calls) > 1 || time.Now().UnixNano()-atomic.LoadInt64(&c01CaseStart) > int64(time.Second) {
			pb, _ := json.Marshal(out)
			os.WriteFile(outPath+".partial.tmp", pb, 0o644)
			os.Rename(outPath+".partial.tmp", outPath+".partial")
		}
	}
	// end of run: the wire (relay) and the implementation counters, over the whole run
	time.Sleep(50 * time.Millisecond)
	c01Mu.Lock()
	for key, n := range c01Seen {
		if w := expectSeen[key]; n != w && w > 0 {
			addFail(len(cases)-1, "e2e/invocations/final-count", fmt.Sprintf("over the whole run the implementation was invoked %d times for %d call(s) with inputs %s", n, w, trunc200(key)))
		}
	}
	c01Mu.Unlock()
	c01RelayMu.Lock()
	seenReq := map[int32]int{}
	for _, fr := range c01ReqFr {
		seenReq[fr.ID]++
		n := c01RspIDs[fr.ID]
		if fr.PType == 1 && n != 0 {
			addFail(len(cases)-1, "e2e/oneway/reply-on-the-wire", fmt.Sprintf("one-way request %d (%s) was answered with %d response packet(s)", fr.ID, fr.Func, n))
		}
		if fr.PType == 0 && n != 1 {
			addFail(len(cases)-1, "e2e/reply-count/normal-call", fmt.Sprintf("request %d (%s) was answered with %d response packets", fr.ID, fr.Func, n))
		}
	}
	for id, n := range seenReq {
		if n != 1 {
			addFail(len(cases)-1, "e2e/request-id/reused", fmt.Sprintf("request id %d was used by %d requests of this run", id, n))
		}
	}
	total := burstCalls
	for _, c := range cases {
		total += len(c.Calls)
	}
	if len(c01ReqFr) != total {
		addFail(len(cases)-1, "e2e/request-count/differs", fmt.Sprintf("%d calls were made but %d request packets crossed the wire", total, len(c01ReqFr)))
	}
	out.Stats["requests_on_wire"] = len(c01ReqFr)
	out.Stats["responses_on_wire"] = len(c01RspIDs)
	c01RelayMu.Unlock()
	ob, _ := json.Marshal(out)
	if err := os.WriteFile(outPath, ob, 0o644); err != nil {
		fatal("c01 child: %v", err)
	}
	io.WriteString(os.Stdout, "c01 child done\n")
	os.Exit(0)
}

func init() {
	props["c01-child"] = func(a Args) {
		if len(os.Args) < 4 {
			fatal("usage: harness c01-child <in.json> <out.json>")
		}
		c01ChildMain(os.Args[2], os.Args[3])
	}
}
