// c13race — the concurrency clause of C13: for each selector, 12 goroutines select while 4 goroutines
// refresh / add / remove, under the race detector (built with `go build -race` by the C13 check).
// Invariants checked here: no panic; every selected host belongs to the universe; because two hosts are in
// every Refresh and are never removed, the set is never empty and Select never fails.
// usage: c13race <iterations per goroutine> <seed>
package main

import (
	"encoding/json"
	"fmt"
	"math/rand"
	"os"
	"sync"
	"sync/atomic"

	"context"
	"hash/crc32"
	"sort"

	"github.com/TarsCloud/TarsGo/tars"
	"github.com/TarsCloud/TarsGo/tars/protocol/res/endpointf"
	tarsreg "github.com/TarsCloud/TarsGo/tars/registry"
	"github.com/TarsCloud/TarsGo/tars/selector"
	"github.com/TarsCloud/TarsGo/tars/selector/consistenthash"
	"github.com/TarsCloud/TarsGo/tars/selector/modhash"
	"github.com/TarsCloud/TarsGo/tars/selector/random"
	"github.com/TarsCloud/TarsGo/tars/selector/roundrobin"
	"github.com/TarsCloud/TarsGo/tars/util/endpoint"
)

type msg uint32

func (m msg) HashCode() uint32            { return uint32(m) }
func (m msg) HashType() selector.HashType { return selector.ConsistentHash }
func (m msg) IsHash() bool                { return true }

func ep(i int, w int32) endpoint.Endpoint {
	e := endpoint.Endpoint{Host: fmt.Sprintf("10.9.0.%d", i), Port: int32(10000 + i), Timeout: 3000, Istcp: 1, Weight: w, WeightType: 1, Proto: "tcp"}
	e.Key = e.String()
	return e
}

func main() {
	iters, seed := 2000, int64(1)
	if len(os.Args) > 1 {
		fmt.Sscan(os.Args[1], &iters)
	}
	if len(os.Args) > 2 {
		fmt.Sscan(os.Args[2], &seed)
	}
	mode := "all"
	if len(os.Args) > 3 {
		mode = os.Args[3]
	}
	var selections, updates int64
	var mu sync.Mutex
	var problems []string
	problem := func(s string) {
		mu.Lock()
		if len(problems) < 20 {
			problems = append(problems, s)
		}
		mu.Unlock()
	}
	weights := []int32{4, 8, 10, 20, 40, 100, 7, 1}
	universe := map[string]bool{}
	for i := 0; i < 8; i++ {
		universe[ep(i, 1).Host] = true
	}
	type mkSel struct {
		name string
		mk   func() selector.Selector
	}
	var sels []mkSel
	for _, w := range []bool{false, true} {
		w := w
		sels = append(sels,
			mkSel{fmt.Sprintf("roundrobin/w=%v", w), func() selector.Selector { return roundrobin.New(w) }},
			mkSel{fmt.Sprintf("random/w=%v", w), func() selector.Selector { return random.New(w) }},
			mkSel{fmt.Sprintf("modhash/w=%v", w), func() selector.Selector { return modhash.New(w) }},
			mkSel{fmt.Sprintf("consistenthash/w=%v", w), func() selector.Selector { return consistenthash.New(w, consistenthash.KetamaHash) }})
	}
	if mode == "hash" {
		sels = nil
	}
	for si, ms := range sels {
		s := ms.mk()
		s.Refresh([]endpoint.Endpoint{ep(0, weights[0]), ep(1, weights[1]), ep(2, weights[2])})
		var wg sync.WaitGroup
		for g := 0; g < 16; g++ {
			wg.Add(1)
			go func(g int) {
				defer wg.Done()
				defer func() {
					if r := recover(); r != nil {
						problem(fmt.Sprintf("panic: %s: %v", ms.name, r))
					}
				}()
				rng := rand.New(rand.NewSource(seed + int64(si*100+g)))
				if g < 12 {
					for i := 0; i < iters; i++ {
						e, err := s.Select(msg(rng.Uint32()))
						atomic.AddInt64(&selections, 1)
						if err != nil {
							problem(fmt.Sprintf("select-error-on-nonempty-set: %s: %v", ms.name, err))
							return
						}
						if !universe[e.Host] {
							problem(fmt.Sprintf("non-member-selected: %s: %q", ms.name, e.Host))
							return
						}
					}
					return
				}
				for i := 0; i < iters/8+1; i++ {
					atomic.AddInt64(&updates, 1)
					switch rng.Intn(4) {
					case 0: // hosts 0 and 1 are in every refresh and never removed
						l := []endpoint.Endpoint{ep(0, weights[0]), ep(1, weights[1])}
						for j := 2; j < 8; j++ {
							if rng.Intn(2) == 0 {
								l = append(l, ep(j, weights[rng.Intn(len(weights))]))
							}
						}
						rng.Shuffle(len(l), func(a, b int) { l[a], l[b] = l[b], l[a] })
						s.Refresh(l)
					case 1, 2:
						_ = s.Add(ep(2+rng.Intn(6), weights[rng.Intn(len(weights))]))
					default:
						_ = s.Remove(ep(2+rng.Intn(6), weights[rng.Intn(len(weights))]))
					}
				}
			}(g)
		}
		wg.Wait()
	}
	hs, hu := hashConc(iters, seed, problem)
	ms, mu2 := managerConc(iters, seed, problem)
	hs += ms
	selections += hs
	updates += hu + mu2
	b, _ := json.Marshal(map[string]interface{}{"selections": selections, "updates": updates, "problems": problems, "hash_lookups_concurrent_with_updates": hs})
	fmt.Printf("C13RACE %s\n", b)
}

// hashConc - hash routing CONCURRENT with membership changes (C14): for mod-hash and consistent hash (weighted and
// not), six readers look codes up while one updater alternates between the endpoint sets B and B+X - by Add / Remove
// and by Refresh.  Every answer must be the endpoint the code has in B or in B+X (for mod-hash: the slot of the list
// before or after; X is appended and removed again, so the list is always B or B++[X]): never a third endpoint,
// never an error, never a panic.  The expectations come from selectors of this program's own that nobody updates.
func hashConc(iters int, seed int64, problem func(string)) (lookups, updates int64) {
	type mk struct {
		name string
		f    func() selector.Selector
	}
	var kinds []mk
	for _, w := range []bool{false, true} {
		w := w
		kinds = append(kinds,
			mk{fmt.Sprintf("modhash/w=%v", w), func() selector.Selector { return modhash.New(w) }},
			mk{fmt.Sprintf("consistenthash/w=%v", w), func() selector.Selector { return consistenthash.New(w, consistenthash.KetamaHash) }})
	}
	hep := func(i int) endpoint.Endpoint {
		e := endpoint.Endpoint{Host: fmt.Sprintf("10.9.%d.%d", 1+i/200, i%200), Port: 10000, Timeout: 3000, Istcp: 1, Weight: int32(4 + 4*(i%5)), WeightType: 1, Proto: "tcp"}
		e.Key = e.String()
		return e
	}
	for ki, k := range kinds {
		for _, how := range []string{"add-remove", "refresh"} {
			rng := rand.New(rand.NewSource(seed + int64(ki)))
			n := 16 + rng.Intn(25)
			var base []endpoint.Endpoint
			for i := 0; i < n; i++ {
				base = append(base, hep(i))
			}
			x := hep(500 + rng.Intn(100))
			with := append(append([]endpoint.Endpoint(nil), base...), x)
			before, after := k.f(), k.f()
			before.Refresh(append([]endpoint.Endpoint(nil), base...))
			after.Refresh(append([]endpoint.Endpoint(nil), with...))
			codes := make([]uint32, 400)
			okHosts := make([][2]string, len(codes))
			for i := range codes {
				codes[i] = rng.Uint32()
				if i < 2*n+4 {
					codes[i] = uint32(i)
				}
				a, _ := before.Select(msg(codes[i]))
				b, _ := after.Select(msg(codes[i]))
				okHosts[i] = [2]string{a.Host, b.Host}
			}
			s := k.f()
			s.Refresh(append([]endpoint.Endpoint(nil), base...))
			var stop int32
			var wg sync.WaitGroup
			for g := 0; g < 6; g++ {
				wg.Add(1)
				go func(g int) {
					defer wg.Done()
					defer func() {
						if r := recover(); r != nil {
							problem(fmt.Sprintf("panic: %s lookups concurrent with %s: %v", k.name, how, r))
						}
					}()
					for j := g; atomic.LoadInt32(&stop) == 0; j++ {
						i := j % len(codes)
						e, err := s.Select(msg(codes[i]))
						atomic.AddInt64(&lookups, 1)
						if err != nil {
							problem(fmt.Sprintf("select-error-on-nonempty-set: %s concurrent with %s: %v", k.name, how, err))
							return
						}
						if e.Host != okHosts[i][0] && e.Host != okHosts[i][1] {
							problem(fmt.Sprintf("third-endpoint: %s: code %d answered with %s while the set alternates (%s of %s) between %d endpoints, where the code belongs to %s, and those plus %s, where it belongs to %s", k.name, codes[i], e.Host, how, x.Host, n, okHosts[i][0], x.Host, okHosts[i][1]))
							return
						}
					}
				}(g)
			}
			cycles := iters/250 + 3
			for c := 0; c < cycles; c++ {
				atomic.AddInt64(&updates, 2)
				if how == "add-remove" {
					_ = s.Add(x)
					_ = s.Remove(x)
				} else {
					s.Refresh(append([]endpoint.Endpoint(nil), with...))
					s.Refresh(append([]endpoint.Endpoint(nil), base...))
				}
			}
			atomic.StoreInt32(&stop, 1)
			wg.Wait()
		}
	}
	return lookups, updates
}

// managerConc - the same through the endpoint manager: calls with a hash code select their adapter while the health
// check takes an endpoint out (checkStatus after six failures) and an answered probe brings it back (reset +
// addAliveEp), again and again.  Every call must get the endpoint its code has with or without that endpoint
// (mod-hash: in the manager's list without it, or with it appended - the order the selector has after the first
// reinstatement), never a third one, never none.
type raceRegistrar struct{ active []endpointf.EndpointF }

func (r *raceRegistrar) Registry(context.Context, *tarsreg.ServantInstance) error   { return nil }
func (r *raceRegistrar) Deregister(context.Context, *tarsreg.ServantInstance) error { return nil }
func (r *raceRegistrar) QueryServant(context.Context, string) ([]tarsreg.Endpoint, []tarsreg.Endpoint, error) {
	return append([]endpointf.EndpointF(nil), r.active...), nil, nil
}
func (r *raceRegistrar) QueryServantBySet(ctx context.Context, id, set string) ([]tarsreg.Endpoint, []tarsreg.Endpoint, error) {
	return r.QueryServant(ctx, id)
}

func managerConc(iters int, seed int64, problem func(string)) (lookups, updates int64) {
	rng := rand.New(rand.NewSource(seed + 77))
	n := 8 + rng.Intn(9)
	reg := &raceRegistrar{}
	byHost := map[string]endpoint.Endpoint{}
	for i := 0; i < n; i++ {
		f := endpointf.EndpointF{Host: fmt.Sprintf("10.5.0.%d", i+1), Port: 10000, Timeout: 3000, Istcp: 1}
		reg.active = append(reg.active, f)
		byHost[f.Host] = endpoint.Tars2endpoint(f)
	}
	m := tars.VerifC15NewManager("VerifC14.Conc.Obj", tars.NewCommunicator(tars.Registrar(reg)))
	if err := m.Refresh(); err != nil {
		problem("manager-setup: refresh failed: " + err.Error())
		return
	}
	order := m.ActiveEp()
	sorted := append([]string(nil), order...)
	sort.SliceStable(sorted, func(i, j int) bool {
		return crc32.ChecksumIEEE([]byte(byHost[sorted[i]].Key)) < crc32.ChecksumIEEE([]byte(byHost[sorted[j]].Key))
	})
	victim := order[rng.Intn(len(order))]
	var adp *tars.AdapterProxy
	for i := 0; i < 4000 && adp == nil; i++ {
		m.Select(false, tars.ModHash, 0)
		adp = m.Adapters()[victim]
	}
	if adp == nil || len(order) != n {
		problem(fmt.Sprintf("manager-setup: %d of %d endpoints active, adapter of %s: %v", len(order), n, victim, adp != nil))
		return
	}
	cycle := func() {
		for j := 0; j < 6; j++ {
			adp.VerifC15FailAdd()
		}
		m.CheckStatus()
		m.Reinstate(adp)
	}
	cycle() // from now on the selectors' own lists alternate between `without` and `without ++ [victim]`
	var without, with []endpoint.Endpoint
	for _, h := range order {
		if h != victim {
			without = append(without, byHost[h])
		}
	}
	with = append(append([]endpoint.Endpoint(nil), without...), byHost[victim])
	type ref struct{ a, b selector.Selector }
	refs := map[tars.HashType]ref{
		tars.ModHash:        {modhash.New(false), modhash.New(false)},
		tars.ConsistentHash: {consistenthash.New(false, consistenthash.KetamaHash), consistenthash.New(false, consistenthash.KetamaHash)},
	}
	for _, r := range refs {
		r.a.Refresh(append([]endpoint.Endpoint(nil), without...))
		r.b.Refresh(append([]endpoint.Endpoint(nil), with...))
	}
	codes := make([]uint32, 300)
	for i := range codes {
		codes[i] = rng.Uint32()
		if i < 3*n {
			codes[i] = uint32(i)
		}
	}
	var stop int32
	var wg sync.WaitGroup
	for g := 0; g < 6; g++ {
		wg.Add(1)
		go func(g int) {
			defer wg.Done()
			defer func() {
				if r := recover(); r != nil {
					problem(fmt.Sprintf("panic: SelectAdapterProxy concurrent with the health check: %v", r))
				}
			}()
			ht := []tars.HashType{tars.ModHash, tars.ConsistentHash}[g%2]
			for j := g; atomic.LoadInt32(&stop) == 0; j++ {
				code := codes[j%len(codes)]
				a, _ := m.Select(true, ht, code)
				atomic.AddInt64(&lookups, 1)
				if a == nil {
					problem(fmt.Sprintf("no-adapter-through-manager: hash type %d code %d", ht, code))
					return
				}
				ea, _ := refs[ht].a.Select(msg(code))
				eb, _ := refs[ht].b.Select(msg(code))
				if h := a.GetPoint().Host; h != ea.Host && h != eb.Host {
					problem(fmt.Sprintf("third-endpoint-through-manager: hash type %d code %d sent to %s while the health check takes %s out and brings it back; without it the code belongs to %s, with it to %s", ht, code, h, victim, ea.Host, eb.Host))
					return
				}
			}
		}(g)
	}
	for c := 0; c < iters/100+10; c++ {
		atomic.AddInt64(&updates, 2)
		cycle()
	}
	atomic.StoreInt32(&stop, 1)
	wg.Wait()
	_ = sorted
	return lookups, updates
}
