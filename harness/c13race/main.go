// c13race — the concurrency clause of C13: for each selector, 12 goroutines select while 4 goroutines
// refresh / add / remove, under the race detector (built with `go build -race` by the C13 check).
// Invariants checked here: no panic; every selected host belongs to the universe; because two hosts are in
// every Refresh and are never removed, the set is never empty and Select never fails.
// usage: c13race <iterations per goroutine> <seed>
package main

import (
	"encoding/json"
	"fmt"
	"math/rand"
	"os"
	"sync"
	"sync/atomic"

	"github.com/TarsCloud/TarsGo/tars/selector"
	"github.com/TarsCloud/TarsGo/tars/selector/consistenthash"
	"github.com/TarsCloud/TarsGo/tars/selector/modhash"
	"github.com/TarsCloud/TarsGo/tars/selector/random"
	"github.com/TarsCloud/TarsGo/tars/selector/roundrobin"
	"github.com/TarsCloud/TarsGo/tars/util/endpoint"
)

type msg uint32

func (m msg) HashCode() uint32            { return uint32(m) }
func (m msg) HashType() selector.HashType { return selector.ConsistentHash }
func (m msg) IsHash() bool                { return true }

func ep(i int, w int32) endpoint.Endpoint {
	e := endpoint.Endpoint{Host: fmt.Sprintf("10.9.0.%d", i), Port: int32(10000 + i), Timeout: 3000, Istcp: 1, Weight: w, WeightType: 1, Proto: "tcp"}
	e.Key = e.String()
	return e
}

func main() {
	iters, seed := 2000, int64(1)
	if len(os.Args) > 1 {
		fmt.Sscan(os.Args[1], &iters)
	}
	if len(os.Args) > 2 {
		fmt.Sscan(os.Args[2], &seed)
	}
	var selections, updates int64
	var mu sync.Mutex
	var problems []string
	problem := func(s string) {
		mu.Lock()
		if len(problems) < 20 {
			problems = append(problems, s)
		}
		mu.Unlock()
	}
	weights := []int32{4, 8, 10, 20, 40, 100, 7, 1}
	universe := map[string]bool{}
	for i := 0; i < 8; i++ {
		universe[ep(i, 1).Host] = true
	}
	type mkSel struct {
		name string
		mk   func() selector.Selector
	}
	var sels []mkSel
	for _, w := range []bool{false, true} {
		w := w
		sels = append(sels,
			mkSel{fmt.Sprintf("roundrobin/w=%v", w), func() selector.Selector { return roundrobin.New(w) }},
			mkSel{fmt.Sprintf("random/w=%v", w), func() selector.Selector { return random.New(w) }},
			mkSel{fmt.Sprintf("modhash/w=%v", w), func() selector.Selector { return modhash.New(w) }},
			mkSel{fmt.Sprintf("consistenthash/w=%v", w), func() selector.Selector { return consistenthash.New(w, consistenthash.KetamaHash) }})
	}
	for si, ms := range sels {
		s := ms.mk()
		s.Refresh([]endpoint.Endpoint{ep(0, weights[0]), ep(1, weights[1]), ep(2, weights[2])})
		var wg sync.WaitGroup
		for g := 0; g < 16; g++ {
			wg.Add(1)
			go func(g int) {
				defer wg.Done()
				defer func() {
					if r := recover(); r != nil {
						problem(fmt.Sprintf("panic: %s: %v", ms.name, r))
					}
				}()
				rng := rand.New(rand.NewSource(seed + int64(si*100+g)))
				if g < 12 {
					for i := 0; i < iters; i++ {
						e, err := s.Select(msg(rng.Uint32()))
						atomic.AddInt64(&selections, 1)
						if err != nil {
							problem(fmt.Sprintf("select-error-on-nonempty-set: %s: %v", ms.name, err))
							return
						}
						if !universe[e.Host] {
							problem(fmt.Sprintf("non-member-selected: %s: %q", ms.name, e.Host))
							return
						}
					}
					return
				}
				for i := 0; i < iters/8+1; i++ {
					atomic.AddInt64(&updates, 1)
					switch rng.Intn(4) {
					case 0: // hosts 0 and 1 are in every refresh and never removed
						l := []endpoint.Endpoint{ep(0, weights[0]), ep(1, weights[1])}
						for j := 2; j < 8; j++ {
							if rng.Intn(2) == 0 {
								l = append(l, ep(j, weights[rng.Intn(len(weights))]))
							}
						}
						rng.Shuffle(len(l), func(a, b int) { l[a], l[b] = l[b], l[a] })
						s.Refresh(l)
					case 1, 2:
						_ = s.Add(ep(2+rng.Intn(6), weights[rng.Intn(len(weights))]))
					default:
						_ = s.Remove(ep(2+rng.Intn(6), weights[rng.Intn(len(weights))]))
					}
				}
			}(g)
		}
		wg.Wait()
	}
	b, _ := json.Marshal(map[string]interface{}{"selections": selections, "updates": updates, "problems": problems})
	fmt.Printf("C13RACE %s\n", b)
}
