package main

// C13 / C14 — selector histories against Select/Selectors.v + Select/Hist.v, with direct monitors
// (membership, error iff empty, strict rotation, weight-proportional cycle, determinism, history
// independence, minimal disruption).

import (
	"fmt"
	"math/rand"
	"sort"
	"strings"

	"github.com/TarsCloud/TarsGo/tars/selector"
	"github.com/TarsCloud/TarsGo/tars/selector/consistenthash"
	"github.com/TarsCloud/TarsGo/tars/selector/modhash"
	"github.com/TarsCloud/TarsGo/tars/selector/random"
	"github.com/TarsCloud/TarsGo/tars/selector/roundrobin"
	"github.com/TarsCloud/TarsGo/tars/util/endpoint"
)

type c13Msg struct{ code uint32 }

func (m c13Msg) HashCode() uint32            { return m.code }
func (m c13Msg) HashType() selector.HashType { return selector.ConsistentHash }
func (m c13Msg) IsHash() bool                { return true }

type c13Ep struct {
	Host   string `json:"host"`
	Port   int32  `json:"port"`
	Weight int32  `json:"w"`
	WType  int32  `json:"wt"`
}

func (e c13Ep) ep() endpoint.Endpoint {
	x := endpoint.Endpoint{Host: e.Host, Port: e.Port, Timeout: 3000, Istcp: 1, Weight: e.Weight, WeightType: e.WType, Proto: "tcp"}
	x.Key = x.String()
	return x
}
func (e c13Ep) coq() string {
	return fmt.Sprintf("(mk %s %s %s %s)", hx([]byte(e.Host)), hx([]byte(e.ep().String())), coqZ(int64(e.Weight)), coqZ(int64(e.WType)))
}

type c13Op struct {
	Op    string   `json:"op"` // refresh add remove select
	Eps   []c13Ep    `json:"eps,omitempty"`
	Ok    bool     `json:"ok"`
	Codes []uint32 `json:"codes,omitempty"`
	Obs   []string `json:"obs,omitempty"` // selected host, "" = error
}

type c13Case struct {
	Kind     string `json:"kind"` // rr random modhash conhash-ketama conhash-default | bswl
	Weighted bool   `json:"weighted"`
	Ops      []c13Op  `json:"ops"`
	Bswl     []c13Ep  `json:"bswl,omitempty"`
	BswlObs  []int  `json:"bswl_obs,omitempty"`
	PanicMsg string `json:"panic,omitempty"`
	Points   string `json:"-"`
	Class    string `json:"class"`
}

func c13NewSelector(kind string, weighted bool) selector.Selector {
	switch kind {
	case "rr":
		return roundrobin.New(weighted)
	case "random":
		return random.New(weighted)
	case "modhash":
		return modhash.New(weighted)
	case "conhash-ketama":
		return consistenthash.New(weighted, consistenthash.KetamaHash)
	}
	return consistenthash.New(weighted, consistenthash.DefaultHash)
}

func c13ChRounds(weighted bool, w int32) int {
	x := 100
	if weighted {
		x = int(w)
	}
	if x > 0 {
		x /= 4
		if x == 0 {
			x = 1
		}
		return x
	}
	return 0
}

// the abstract set the property speaks about: hosts, first occurrence wins
type c13AbsSet struct{ eps []c13Ep }

func (a *c13AbsSet) has(h string) bool {
	for _, e := range a.eps {
		if e.Host == h {
			return true
		}
	}
	return false
}
func (a *c13AbsSet) refresh(l []c13Ep) {
	a.eps = nil
	for _, e := range l {
		if !a.has(e.Host) {
			a.eps = append(a.eps, e)
		}
	}
}
func (a *c13AbsSet) add(e c13Ep) bool {
	if a.has(e.Host) {
		return false
	}
	a.eps = append(a.eps, e)
	return true
}
func (a *c13AbsSet) remove(e c13Ep) bool {
	for i, x := range a.eps {
		if x.Host == e.Host {
			a.eps = append(a.eps[:i:i], a.eps[i+1:]...)
			return true
		}
	}
	return false
}

func c13ExpectedCounts(eps []c13Ep) (map[string]int, bool) {
	if len(eps) == 0 {
		return nil, false
	}
	minw, maxw := int64(1<<40), int64(-1<<40)
	for _, e := range eps {
		if e.WType != 1 || e.Weight <= 0 {
			return nil, false
		}
		if int64(e.Weight) < minw {
			minw = int64(e.Weight)
		}
		if int64(e.Weight) > maxw {
			maxw = int64(e.Weight)
		}
	}
	r := maxw / minw
	if r < 10 {
		r = 10
	}
	if r > 100 {
		r = 100
	}
	out := map[string]int{}
	for _, e := range eps {
		c := int(int64(e.Weight) * r / maxw)
		if c < 1 {
			c = 1
		}
		out[e.Host] = c
	}
	return out, true
}

func c13Run(c *c13Case) (fs []Failure) {
	defer func() {
		if r := recover(); r != nil {
			c.PanicMsg = fmt.Sprint(r)
			fs = append(fs, Failure{Sig: "selector/" + c.Kind + "/panic/" + classifyPanic(c.PanicMsg), Desc: "selector operation panicked: " + c.PanicMsg})
		}
	}()
	if c.Kind == "bswl" {
		var l []endpoint.Endpoint
		for _, e := range c.Bswl {
			l = append(l, e.ep())
		}
		c.BswlObs = selector.BuildStaticWeightList(l)
		if cnt, ok := c13ExpectedCounts(c.Bswl); ok {
			got := map[string]int{}
			for _, i := range c.BswlObs {
				got[c.Bswl[i].Host]++
			}
			dup := map[string]bool{}
			for _, e := range c.Bswl {
				if dup[e.Host] {
					return fs // duplicate hosts: counts per host are not defined by the property
				}
				dup[e.Host] = true
			}
			for h, n := range cnt {
				if got[h] != n {
					fs = append(fs, Failure{Sig: "selector/weight-cycle/count-differs", Desc: fmt.Sprintf("static weights %v: endpoint %s occurs %d times in the cycle, max(1, W*R/Wmax) = %d", c.Bswl, h, got[h], n)})
					break
				}
			}
		}
		return fs
	}
	s := c13NewSelector(c.Kind, c.Weighted)
	abs := &c13AbsSet{}
	for i := range c.Ops {
		o := &c.Ops[i]
		switch o.Op {
		case "refresh":
			var l []endpoint.Endpoint
			for _, e := range o.Eps {
				l = append(l, e.ep())
			}
			s.Refresh(l)
			abs.refresh(o.Eps)
			o.Ok = true
		case "add":
			o.Ok = s.Add(o.Eps[0].ep()) == nil
			if want := abs.add(o.Eps[0]); want != o.Ok {
				fs = append(fs, Failure{Sig: "selector/" + c.Kind + "/add-result", Desc: fmt.Sprintf("Add(%s) ok=%v, the set says %v", o.Eps[0].Host, o.Ok, want)})
			}
		case "remove":
			o.Ok = s.Remove(o.Eps[0].ep()) == nil
			if want := abs.remove(o.Eps[0]); want != o.Ok {
				fs = append(fs, Failure{Sig: "selector/" + c.Kind + "/remove-result", Desc: fmt.Sprintf("Remove(%s) ok=%v, the set says %v", o.Eps[0].Host, o.Ok, want)})
			}
		case "select":
			o.Obs = nil
			eligible := len(abs.eps) > 0
			if strings.HasPrefix(c.Kind, "conhash") && c.Weighted {
				eligible = false
				for _, e := range abs.eps {
					if e.Weight > 0 {
						eligible = true
					}
				}
			}
			for _, code := range o.Codes {
				e, err := s.Select(c13Msg{code})
				h := e.Host
				if err != nil {
					h = ""
				}
				o.Obs = append(o.Obs, h)
				if err == nil && !abs.has(h) {
					fs = append(fs, Failure{Sig: "selector/" + c.Kind + "/non-member-selected", Desc: fmt.Sprintf("Select returned %q which is not in the current set %v (op %d)", h, abs.eps, i)})
				}
				if (err != nil) == eligible {
					fs = append(fs, Failure{Sig: "selector/" + c.Kind + "/error-iff-none-eligible", Desc: fmt.Sprintf("Select error=%v with eligible endpoints=%v, set %v (op %d)", err, eligible, abs.eps, i)})
				}
				if c.Kind != "rr" && c.Kind != "random" && err == nil { // hash routing is a function of (code, set)
					e2, _ := s.Select(c13Msg{code})
					if e2.Host != h {
						fs = append(fs, Failure{Sig: "selector/" + c.Kind + "/not-deterministic", Desc: fmt.Sprintf("code %d routed to %s then %s with the set unchanged", code, h, e2.Host)})
					}
				}
			}
			n := len(abs.eps)
			if c.Kind == "rr" && n > 0 {
				if cnt, ok := c13ExpectedCounts(abs.eps); ok && c.Weighted {
					total := 0
					for _, v := range cnt {
						total += v
					}
					for st := 0; st+total <= len(o.Obs); st += total { // every full cycle has exactly the prescribed counts
						got := map[string]int{}
						for _, h := range o.Obs[st : st+total] {
							got[h]++
						}
						for h, v := range cnt {
							if got[h] != v {
								fs = append(fs, Failure{Sig: "selector/rr/weighted-cycle-counts", Desc: fmt.Sprintf("a full weighted cycle of %d selections hit %s %d times, prescribed %d (set %v)", total, h, got[h], v, abs.eps)})
								st = len(o.Obs)
								break
							}
						}
					}
				} else if !c.Weighted || !c13AllStatic(abs.eps) {
					for st := 0; st+n <= len(o.Obs); st++ { // any n consecutive selections hit each endpoint exactly once
						seen := map[string]bool{}
						for _, h := range o.Obs[st : st+n] {
							seen[h] = true
						}
						if len(seen) != n {
							fs = append(fs, Failure{Sig: "selector/rr/rotation", Desc: fmt.Sprintf("%d consecutive selections over %d endpoints hit only %d distinct ones: %v", n, n, len(seen), o.Obs[st:st+n])})
							break
						}
					}
				}
			}
		}
	}
	return fs
}

func c13AllStatic(l []c13Ep) bool {
	for _, e := range l {
		if e.WType != 1 {
			return false
		}
	}
	return len(l) > 0
}

// virtual-node table for the model: read from the implementation's ring after Refresh([e])
func c13PointsTable(c *c13Case) string {
	if !strings.HasPrefix(c.Kind, "conhash") {
		return "[]"
	}
	type hk struct {
		h string
		k int
	}
	seen := map[hk]bool{}
	var parts []string
	for _, o := range c.Ops {
		for _, e := range o.Eps {
			k := hk{e.Host, c13ChRounds(c.Weighted, e.Weight)}
			if seen[k] {
				continue
			}
			seen[k] = true
			s := c13NewSelector(c.Kind, c.Weighted).(*consistenthash.ConsistentHash)
			s.Refresh([]endpoint.Endpoint{e.ep()})
			keys, _ := s.VerifRing()
			ks := make([]string, len(keys))
			for i, x := range keys {
				ks[i] = fmt.Sprint(x)
			}
			parts = append(parts, fmt.Sprintf("(%s, %d%%nat, [%s])", hx([]byte(e.Host)), k.k, strings.Join(ks, "; ")))
		}
	}
	return "[" + strings.Join(parts, "; ") + "]"
}

var c13KindCoq = map[string]string{"rr": "RoundRobin", "random": "Random", "modhash": "ModHash", "conhash-ketama": "ConHash", "conhash-default": "ConHash"}

func c13Coq(c *c13Case) string {
	if c.PanicMsg != "" {
		return ""
	}
	coqEps := func(l []c13Ep) string {
		p := make([]string, len(l))
		for i, e := range l {
			p[i] = e.coq()
		}
		return "[" + strings.Join(p, "; ") + "]"
	}
	if c.Kind == "bswl" {
		p := make([]string, len(c.BswlObs))
		for i, x := range c.BswlObs {
			p[i] = fmt.Sprint(x)
		}
		return fmt.Sprintf("inr (%s, [%s])", coqEps(c.Bswl), strings.Join(p, "; "))
	}
	var ops []string
	for _, o := range c.Ops {
		switch o.Op {
		case "refresh":
			ops = append(ops, "ORefresh "+coqEps(o.Eps))
		case "add":
			ops = append(ops, fmt.Sprintf("OAdd %s %s", o.Eps[0].coq(), coqBool(o.Ok)))
		case "remove":
			ops = append(ops, fmt.Sprintf("ORemove %s %s", o.Eps[0].coq(), coqBool(o.Ok)))
		case "select":
			cs := make([]string, len(o.Codes))
			os := make([]string, len(o.Obs))
			for i := range o.Codes {
				cs[i] = fmt.Sprint(o.Codes[i])
			}
			for i, h := range o.Obs {
				if h == "" {
					os[i] = "None"
				} else {
					os[i] = "Some " + hx([]byte(h))
				}
			}
			ops = append(ops, fmt.Sprintf("OSelRun [%s] [%s]", strings.Join(cs, "; "), strings.Join(os, "; ")))
		}
	}
	return fmt.Sprintf("inl (%s, %s, %s, [%s])", c13KindCoq[c.Kind], coqBool(c.Weighted), c13PointsTable(c), strings.Join(ops, ";\n   "))
}

var c13HostPool = []string{"10.0.0.1", "10.0.0.2", "10.0.0.3", "10.0.0.4", "10.0.0.5", "10.0.0.6", "10.0.0.7", "10.0.0.8", "a", "ab", "b", "host-9", "host-10", "z.example"}
var c13WeightPool = []int32{1, 1, 2, 3, 5, 10, 11, 50, 99, 100, 101, 200, 1000, 1001, 7, 7, 100, 100}
var c13HostileWeights = []int32{0, 0, -1, -200, -2147483648, 2147483647, 2147483646, 65536, 1 << 30}

func c13RandEp(rng *rand.Rand, hosts int, mode string) c13Ep {
	e := c13Ep{Host: c13HostPool[rng.Intn(hosts)], Port: int32(10000 + rng.Intn(3)), WType: 1, Weight: c13WeightPool[rng.Intn(len(c13WeightPool))]}
	switch mode {
	case "hostile":
		if rng.Intn(2) == 0 {
			e.Weight = c13HostileWeights[rng.Intn(len(c13HostileWeights))]
		}
	case "mixed":
		e.WType = int32(rng.Intn(2))
		if rng.Intn(4) == 0 {
			e.Weight = c13HostileWeights[rng.Intn(len(c13HostileWeights))]
		}
	case "conhash":
		e.Weight = []int32{0, -5, 1, 3, 4, 5, 8, 40, 100, 101, 400}[rng.Intn(11)]
	}
	return e
}

func c13GenHistory(rng *rand.Rand, kind string, weighted bool, mode string, hashOnly bool) c13Case {
	c := c13Case{Kind: kind, Weighted: weighted, Class: fmt.Sprintf("%s/w=%v/%s", kind, weighted, mode)}
	hosts := 2 + rng.Intn(len(c13HostPool)-2)
	if rng.Intn(4) == 0 {
		hosts = 1 + rng.Intn(3)
	}
	nops := 3 + rng.Intn(9)
	size := 0
	for i := 0; i < nops; i++ {
		switch r := rng.Intn(10); {
		case i == 0 && rng.Intn(4) != 0 || r == 0:
			n := rng.Intn(hosts + 2)
			var l []c13Ep
			for j := 0; j < n; j++ {
				l = append(l, c13RandEp(rng, hosts, mode))
			}
			c.Ops = append(c.Ops, c13Op{Op: "refresh", Eps: l})
			size = n
		case r <= 2:
			c.Ops = append(c.Ops, c13Op{Op: "add", Eps: []c13Ep{c13RandEp(rng, hosts, mode)}})
			size++
		case r <= 4:
			c.Ops = append(c.Ops, c13Op{Op: "remove", Eps: []c13Ep{c13RandEp(rng, hosts, mode)}})
		default:
			m := 1 + rng.Intn(2*size+4)
			if kind == "rr" && weighted && rng.Intn(2) == 0 {
				m = 120 + rng.Intn(200) // long enough to contain full weighted cycles
			}
			codes := make([]uint32, m)
			for j := range codes {
				switch rng.Intn(5) {
				case 0:
					codes[j] = []uint32{0, 1, 0xffffffff, 0x80000000, 0x7fffffff, 0xfffffffe}[rng.Intn(6)]
				default:
					codes[j] = rng.Uint32()
				}
			}
			c.Ops = append(c.Ops, c13Op{Op: "select", Codes: codes})
		}
	}
	// always end with a selection run
	codes := make([]uint32, 3+rng.Intn(6))
	for j := range codes {
		codes[j] = rng.Uint32()
	}
	c.Ops = append(c.Ops, c13Op{Op: "select", Codes: codes})
	return c
}

// for consistent hashing add the ring points, their predecessors and successors to the probed codes
func c13AddRingCodes(c *c13Case) {
	s := c13NewSelector(c.Kind, c.Weighted)
	abs := &c13AbsSet{}
	for i := range c.Ops {
		o := &c.Ops[i]
		switch o.Op {
		case "refresh":
			var l []endpoint.Endpoint
			for _, e := range o.Eps {
				l = append(l, e.ep())
			}
			s.Refresh(l)
			abs.refresh(o.Eps)
		case "add":
			s.Add(o.Eps[0].ep())
		case "remove":
			s.Remove(o.Eps[0].ep())
		case "select":
			if ch, ok := s.(*consistenthash.ConsistentHash); ok {
				keys, _ := ch.VerifRing()
				for k := 0; k < len(keys) && k < 400; k += 1 + len(keys)/12 {
					o.Codes = append(o.Codes, keys[k], keys[k]-1, keys[k]+1)
				}
				if len(keys) > 0 {
					o.Codes = append(o.Codes, keys[0], keys[0]-1, keys[len(keys)-1], keys[len(keys)-1]+1)
				}
			}
		}
	}
}

func c13Gen(tier string, rng *rand.Rand) []c13Case {
	n := 14
	if tier == "thorough" {
		n = 250
	}
	var cs []c13Case
	for i := 0; i < n; i++ {
		for _, k := range []string{"rr", "random", "modhash"} {
			for _, w := range []bool{false, true} {
				mode := []string{"plain", "hostile", "mixed"}[i%3]
				cs = append(cs, c13GenHistory(rng, k, w, mode, false))
			}
		}
		for _, k := range []string{"conhash-ketama", "conhash-default"} {
			for _, w := range []bool{false, true} {
				c := c13GenHistory(rng, k, w, "conhash", false)
				c13AddRingCodes(&c)
				cs = append(cs, c)
			}
		}
	}
	// BuildStaticWeightList directly
	for i := 0; i < 6*n; i++ {
		m := rng.Intn(9)
		var l []c13Ep
		mode := []string{"plain", "plain", "hostile", "mixed"}[i%4]
		for j := 0; j < m; j++ {
			e := c13RandEp(rng, len(c13HostPool), mode)
			if i%2 == 0 { // distinct hosts: the prescribed counts are per endpoint
				e.Host = c13HostPool[j]
			}
			l = append(l, e)
		}
		cs = append(cs, c13Case{Kind: "bswl", Bswl: l, Class: fmt.Sprintf("bswl/%s/n%d", mode, m)})
	}
	fixed := [][]c13Ep{{{"a", 1, 0, 1}, {"b", 1, 0, 1}}, {{"a", 1, -200, 1}}, {{"a", 1, 2147483647, 1}, {"b", 1, 2147483647, 1}, {"c", 1, 2147483647, 1}, {"d", 1, 2147483647, 1}, {"e", 1, 2147483647, 1}, {"f", 1, 2147483647, 1}, {"g", 1, 2147483647, 1}, {"h", 1, 2147483647, 1}},
		{{"a", 1, 1, 1}, {"b", 1, 1000, 1}}, {{"a", 1, 5, 1}, {"b", 1, 5, 1}, {"ab", 1, 5, 1}}, {{"a", 1, -1, 1}, {"b", 1, 3, 1}}, {}}
	for _, l := range fixed {
		cs = append(cs, c13Case{Kind: "bswl", Bswl: l, Class: "bswl/fixed"})
	}
	return cs
}

// ---------- C14 specific monitors (implementation side): history independence, minimal disruption ----------
func c14Extra(tier string, rng *rand.Rand, res *Result) {
	n := 40
	if tier == "thorough" {
		n = 600
	}
	count := 0
	for it := 0; it < n; it++ {
		kind := []string{"conhash-ketama", "conhash-default"}[it%2]
		weighted := it%4 >= 2
		k := 2 + rng.Intn(9)
		perm := rng.Perm(len(c13HostPool))[:k]
		var set []c13Ep
		for _, p := range perm {
			w := int32(100)
			if weighted {
				w = []int32{4, 8, 40, 100, 400}[rng.Intn(5)]
			}
			set = append(set, c13Ep{Host: c13HostPool[p], Port: 1, Weight: w, WType: 1})
		}
		// history A: refresh with the set; history B: adds in another order, with detours (add + remove of others, refresh of a subset first)
		a := c13NewSelector(kind, weighted)
		var l []endpoint.Endpoint
		for _, e := range set {
			l = append(l, e.ep())
		}
		a.Refresh(l)
		b := c13NewSelector(kind, weighted)
		if rng.Intn(2) == 0 {
			b.Refresh(l[:len(l)/2])
		}
		for _, p := range rng.Perm(len(set)) {
			if rng.Intn(3) == 0 {
				other := c13Ep{Host: "detour-" + fmt.Sprint(rng.Intn(3)), Port: 1, Weight: set[p].Weight, WType: 1}
				b.Add(other.ep())
				b.Add(set[p].ep())
				b.Remove(other.ep())
			} else {
				b.Add(set[p].ep())
			}
		}
		// remove one / add one
		victim := set[rng.Intn(len(set))]
		ar := c13NewSelector(kind, weighted)
		ar.Refresh(l)
		ar.Remove(victim.ep())
		newcomer := c13Ep{Host: "newcomer", Port: 1, Weight: victim.Weight, WType: 1}
		aa := c13NewSelector(kind, weighted)
		aa.Refresh(l)
		aa.Add(newcomer.ep())
		keys, _ := a.(*consistenthash.ConsistentHash).VerifRing()
		codes := []uint32{0, 0xffffffff}
		for i := 0; i < len(keys); i += 1 + len(keys)/60 {
			codes = append(codes, keys[i], keys[i]-1, keys[i]+1)
		}
		for i := 0; i < 300; i++ {
			codes = append(codes, rng.Uint32())
		}
		for _, code := range codes {
			count++
			ea, _ := a.Select(c13Msg{code})
			eb, _ := b.Select(c13Msg{code})
			if ea.Host != eb.Host {
				res.Failures = append(res.Failures, Failure{Sig: "hash-routing/" + kind + "/history-dependent", Desc: fmt.Sprintf("two selectors holding the same set %v route code %d to %s and %s", set, code, ea.Host, eb.Host), Replay: map[string]interface{}{"set": set, "code": code}})
				break
			}
			er, _ := ar.Select(c13Msg{code})
			if er.Host != ea.Host && ea.Host != victim.Host {
				res.Failures = append(res.Failures, Failure{Sig: "hash-routing/" + kind + "/remove-not-minimal", Desc: fmt.Sprintf("removing %s re-routed code %d from %s to %s", victim.Host, code, ea.Host, er.Host), Replay: map[string]interface{}{"set": set, "code": code, "removed": victim}})
				break
			}
			en, _ := aa.Select(c13Msg{code})
			if en.Host != ea.Host && en.Host != newcomer.Host {
				res.Failures = append(res.Failures, Failure{Sig: "hash-routing/" + kind + "/add-not-minimal", Desc: fmt.Sprintf("adding %s moved code %d from %s to %s", newcomer.Host, code, ea.Host, en.Host), Replay: map[string]interface{}{"set": set, "code": code}})
				break
			}
		}
	}
	res.Evaluations += count
	res.Stats["history_independence_and_disruption_probes"] = count
}

func c14Gen(tier string, rng *rand.Rand) []c13Case {
	n := 20
	if tier == "thorough" {
		n = 300
	}
	var cs []c13Case
	for i := 0; i < n; i++ {
		for _, k := range []string{"conhash-ketama", "conhash-default", "modhash"} {
			for _, w := range []bool{false, true} {
				mode := "conhash"
				if k == "modhash" {
					mode = []string{"plain", "mixed"}[i%2]
				}
				c := c13GenHistory(rng, k, w, mode, true)
				c13AddRingCodes(&c)
				cs = append(cs, c)
			}
		}
	}
	return cs
}

func init() {
	constGens = append(constGens, func() {
		lo, hi := selector.VerifStaticWeightLimits()
		fmt.Printf("Definition c_minStaticWeightLimit := %d.\n", lo)
		fmt.Printf("Definition c_maxStaticWeightLimit := %d.\n", hi)
		fmt.Printf("Definition c_ConHashVirtualNodes := %d.\n", selector.ConHashVirtualNodes)
	})
	mk := func(id, rule string, gen func(string, *rand.Rand) []c13Case, extra func(string, *rand.Rand, *Result)) {
		props[id] = func(a Args) {
			runProp(Prop[c13Case]{
				ID: id, Require: "From TarsV Require Import Base.Hex Select.Selectors Select.Hist.", CaseType: "sel_case",
				Mismatch: "failing_from sel_check", Corr: "Hist.sel_check (model selectors replayed over the observed history: results of Add/Remove, every selection; BuildStaticWeightList index list)",
				Rule: rule, Shard: 40, Workers: 8, Gen: gen, Run: c13Run, Coq: c13Coq,
				Class: func(c *c13Case) string { return c.Class }, Extra: extra,
			}, a)
		}
	}
	mk("C13", "random histories of Refresh/Add/Remove/Select-runs (3-12 ops) over 1-14 hosts incl. duplicate hosts and prefix-related names, for round-robin / random / mod-hash (weighted and not) and consistent hash (Ketama/default, weighted and not); weights plain, hostile (0, negative, int32 min/max, 2^30) and mixed weight types; BuildStaticWeightList on random and fixed weight vectors (all-zero, negative, 8 x 2^31-1, 1 vs 1000, ties); class = (selector, weighted, weight mode)", c13Gen, nil)
	mk("C14", "random histories for consistent hash (Ketama/default x weighted or not) and mod-hash with probes at ring points, their predecessors and successors, 0, 2^32-1 and random codes; plus implementation-side pairs of different histories reaching the same set, and before/after pairs for remove and add; class = (selector, weighted, weight mode)", c14Gen, c14Extra)
	_ = sort.Strings
}
