package main

// C13 / C14 — selector histories against Select/Selectors.v + Select/Hist.v, with direct monitors
// (membership, error iff none eligible, strict rotation, weight-proportional cycle, determinism, mod-hash
// slot, consistent-hash reference lookup).  Every case runs in a child process (c13child.go): a crash,
// a fatal out-of-memory or a hang is attributed to the case that was running.

import (
	"fmt"
	"math/rand"
	"sort"
	"strings"
	"sync"

	"github.com/TarsCloud/TarsGo/tars/selector"
	"github.com/TarsCloud/TarsGo/tars/selector/consistenthash"
	"github.com/TarsCloud/TarsGo/tars/selector/modhash"
	"github.com/TarsCloud/TarsGo/tars/selector/random"
	"github.com/TarsCloud/TarsGo/tars/selector/roundrobin"
	"github.com/TarsCloud/TarsGo/tars/util/endpoint"
)

type c13Msg struct{ code uint32 }

func (m c13Msg) HashCode() uint32            { return m.code }
func (m c13Msg) HashType() selector.HashType { return selector.ConsistentHash }
func (m c13Msg) IsHash() bool                { return true }

type c13Ep struct {
	Host   string `json:"host"`
	Port   int32  `json:"port"`
	Weight int32  `json:"w"`
	WType  int32  `json:"wt"`
}

func (e c13Ep) ep() endpoint.Endpoint {
	x := endpoint.Endpoint{Host: e.Host, Port: e.Port, Timeout: 3000, Istcp: 1, Weight: e.Weight, WeightType: e.WType, Proto: "tcp"}
	x.Key = x.String()
	return x
}
func (e c13Ep) coq() string {
	return fmt.Sprintf("(mk %s %s %s %s)", hx([]byte(e.Host)), hx([]byte(e.ep().String())), coqZ(int64(e.Weight)), coqZ(int64(e.WType)))
}
func c13Eps(l []c13Ep) []endpoint.Endpoint {
	out := make([]endpoint.Endpoint, 0, len(l))
	for _, e := range l {
		out = append(out, e.ep())
	}
	return out
}

type c13Op struct {
	Op    string   `json:"op"` // refresh add remove select
	Eps   []c13Ep  `json:"eps,omitempty"`
	Ok    bool     `json:"ok"`
	Codes []uint32 `json:"codes,omitempty"`
	Obs   []string `json:"obs,omitempty"` // selected host, "" = error
}

type c13Case struct {
	Kind     string  `json:"kind"` // rr random modhash conhash-ketama conhash-default | bswl
	Weighted bool    `json:"weighted"`
	Ops      []c13Op `json:"ops,omitempty"`
	Bswl     []c13Ep `json:"bswl,omitempty"`
	BswlObs  []int   `json:"bswl_obs,omitempty"`
	PanicMsg string  `json:"panic,omitempty"`
	Died     string  `json:"died,omitempty"`     // set by the parent when the child died / hung on this case
	Alloc    uint64  `json:"alloc,omitempty"`    // bytes allocated by BuildStaticWeightList (bswl cases)
	LimitMB  int     `json:"limit_mb,omitempty"` // run alone in a child with this address-space limit
	Class    string  `json:"class"`
	// manager cases (kind mgr-conhash / mgr-modhash): registry answers in order; Ops[0] is the selection run
	Answers   [][]c14MgrEp `json:"answers,omitempty"`
	Installed []string     `json:"installed,omitempty"` // hosts of activeEp after the last refresh, in order
}

func c13NewSelector(kind string, weighted bool) selector.Selector {
	switch kind {
	case "rr":
		return roundrobin.New(weighted)
	case "random":
		return random.New(weighted)
	case "modhash":
		return modhash.New(weighted)
	case "conhash-ketama":
		return consistenthash.New(weighted, consistenthash.KetamaHash)
	}
	return consistenthash.New(weighted, consistenthash.DefaultHash)
}

// number of virtual-node rounds of a consistent-hash member (the model's ch_rounds; key of the points table)
func c13ChRounds(weighted bool, w int32) int {
	x := selector.ConHashVirtualNodes
	if weighted {
		x = int(w)
	}
	if x > 0 {
		x /= 4
		if x == 0 {
			x = 1
		}
		return x
	}
	return 0
}

// ring points of one endpoint, read from the implementation itself (ring dump after Refresh([e]))
var c13PointsCache sync.Map

func c13PointsOf(kind string, weighted bool, e c13Ep) []uint32 {
	key := fmt.Sprintf("%s|%s|%d", kind, e.Host, c13ChRounds(weighted, e.Weight))
	if v, ok := c13PointsCache.Load(key); ok {
		return v.([]uint32)
	}
	s := c13NewSelector(kind, weighted).(*consistenthash.ConsistentHash)
	s.Refresh([]endpoint.Endpoint{e.ep()})
	keys, _ := s.VerifRing()
	c13PointsCache.Store(key, keys)
	return keys
}

// the abstract set the property speaks about: hosts, first occurrence wins
type c13AbsSet struct{ eps []c13Ep }

func (a *c13AbsSet) has(h string) bool {
	for _, e := range a.eps {
		if e.Host == h {
			return true
		}
	}
	return false
}
func (a *c13AbsSet) refresh(l []c13Ep) {
	a.eps = nil
	for _, e := range l {
		if !a.has(e.Host) {
			a.eps = append(a.eps, e)
		}
	}
}
func (a *c13AbsSet) add(e c13Ep) bool {
	if a.has(e.Host) {
		return false
	}
	a.eps = append(a.eps, e)
	return true
}
func (a *c13AbsSet) remove(e c13Ep) bool {
	for i, x := range a.eps {
		if x.Host == e.Host {
			a.eps = append(a.eps[:i:i], a.eps[i+1:]...)
			return true
		}
	}
	return false
}

// max(1, floor(W*R/Wmax)) per host, R = min(100, max(10, floor(Wmax/Wmin))); only when all weights are static and > 0
func c13ExpectedCounts(eps []c13Ep) (map[string]int, bool) {
	if len(eps) == 0 {
		return nil, false
	}
	minw, maxw := int64(1<<40), int64(-1<<40)
	for _, e := range eps {
		if e.WType != 1 || e.Weight <= 0 {
			return nil, false
		}
		if int64(e.Weight) < minw {
			minw = int64(e.Weight)
		}
		if int64(e.Weight) > maxw {
			maxw = int64(e.Weight)
		}
	}
	r := maxw / minw
	if r < 10 {
		r = 10
	}
	if r > 100 {
		r = 100
	}
	out := map[string]int{}
	for _, e := range eps {
		c := int(int64(e.Weight) * r / maxw)
		if c < 1 {
			c = 1
		}
		out[e.Host] = c
	}
	return out, true
}

func c13DistinctHosts(l []c13Ep) bool {
	seen := map[string]bool{}
	for _, e := range l {
		if seen[e.Host] {
			return false
		}
		seen[e.Host] = true
	}
	return true
}

// reference for consistent hashing: owner of the least point >= code among the points of the members
// (each member's points read from a fresh single-member ring), wrapping; ok=false when a colliding point decides
func c14RefLookup(kind string, weighted bool, set []c13Ep, code uint32) (string, bool) {
	bestGE, bestAll := uint64(1<<40), uint64(1<<40)
	ownGE, ownAll := "", ""
	dupGE, dupAll := false, false
	for _, e := range set {
		for _, k := range c13PointsOf(kind, weighted, e) {
			kk := uint64(k)
			if kk == bestAll && ownAll != e.Host {
				dupAll = true
			}
			if kk < bestAll {
				bestAll, ownAll, dupAll = kk, e.Host, false
			}
			if k >= code {
				if kk == bestGE && ownGE != e.Host {
					dupGE = true
				}
				if kk < bestGE {
					bestGE, ownGE, dupGE = kk, e.Host, false
				}
			}
		}
	}
	if ownGE != "" {
		return ownGE, !dupGE
	}
	return ownAll, !dupAll
}

// c13Run executes one case on the implementation (in the child process), records the observations in
// the case and returns the monitor failures.
func c13Run(c *c13Case) (fs []Failure) {
	defer func() {
		if r := recover(); r != nil {
			c.PanicMsg = fmt.Sprint(r)
			fs = append(fs, Failure{Sig: "selector/" + c.Kind + "/panic/" + classifyPanic(c.PanicMsg), Desc: "selector operation panicked: " + c.PanicMsg})
		}
	}()
	if c.Kind == "bswl" {
		return c13RunBswl(c)
	}
	if strings.HasPrefix(c.Kind, "mgr-") {
		return c14MgrRunCase(c)
	}
	if strings.HasPrefix(c.Kind, "mgrh-") {
		return c14MgrHealthRun(c)
	}
	s := c13NewSelector(c.Kind, c.Weighted)
	abs := &c13AbsSet{}
	isCon := strings.HasPrefix(c.Kind, "conhash")
	for i := range c.Ops {
		o := &c.Ops[i]
		switch o.Op {
		case "refresh":
			l := c13Eps(o.Eps)
			s.Refresh(l)
			c13Scribble(l) // the selector owns its list: what the caller does with its slice afterwards must not matter
			abs.refresh(o.Eps)
			o.Ok = true
		case "add":
			o.Ok = s.Add(o.Eps[0].ep()) == nil
			if want := abs.add(o.Eps[0]); want != o.Ok {
				fs = append(fs, Failure{Sig: "selector/" + c.Kind + "/add-result", Desc: fmt.Sprintf("Add(%s) ok=%v, the set says %v", o.Eps[0].Host, o.Ok, want)})
			}
		case "remove":
			o.Ok = s.Remove(o.Eps[0].ep()) == nil
			if want := abs.remove(o.Eps[0]); want != o.Ok {
				fs = append(fs, Failure{Sig: "selector/" + c.Kind + "/remove-result", Desc: fmt.Sprintf("Remove(%s) ok=%v, the set says %v", o.Eps[0].Host, o.Ok, want)})
			}
		case "select":
			o.Obs = nil
			eligible := len(abs.eps) > 0
			if isCon && c.Weighted {
				eligible = false
				for _, e := range abs.eps {
					if e.Weight > 0 {
						eligible = true
					}
				}
			}
			var cycle []int // mod-hash: the weighted cycle of the installed list, from the implementation's own builder
			if c.Kind == "modhash" && c.Weighted {
				cycle = selector.BuildStaticWeightList(c13Eps(abs.eps))
			}
			for _, code := range o.Codes {
				e, err := s.Select(c13Msg{code})
				h := e.Host
				if err != nil {
					h = ""
				}
				o.Obs = append(o.Obs, h)
				if err == nil && !abs.has(h) {
					fs = append(fs, Failure{Sig: "selector/" + c.Kind + "/non-member-selected", Desc: fmt.Sprintf("Select returned %q which is not in the current set %v (op %d)", h, abs.eps, i)})
				}
				if (err != nil) == eligible {
					fs = append(fs, Failure{Sig: "selector/" + c.Kind + "/error-iff-none-eligible", Desc: fmt.Sprintf("Select error=%v with eligible endpoints=%v, set %v (op %d)", err, eligible, abs.eps, i)})
				}
				if err != nil {
					continue
				}
				if c.Kind != "rr" && c.Kind != "random" { // hash routing is a function of (code, set)
					e2, _ := s.Select(c13Msg{code})
					if e2.Host != h {
						fs = append(fs, Failure{Sig: "hash-routing/" + c.Kind + "/not-deterministic", Desc: fmt.Sprintf("code %d routed to %s then %s with the set unchanged", code, h, e2.Host)})
					}
				}
				if c.Kind == "modhash" && len(abs.eps) > 0 {
					want := abs.eps[int(code%uint32(len(abs.eps)))].Host
					slot := fmt.Sprintf("slot %d of %d endpoints", code%uint32(len(abs.eps)), len(abs.eps))
					if len(cycle) > 0 {
						want = abs.eps[cycle[int(code%uint32(len(cycle)))]].Host
						slot = fmt.Sprintf("slot %d of the weighted cycle of length %d", code%uint32(len(cycle)), len(cycle))
					}
					if h != want {
						fs = append(fs, Failure{Sig: "hash-routing/modhash/slot", Desc: fmt.Sprintf("code %d routed to %s; %s is %s (set %v)", code, h, slot, want, abs.eps)})
					}
				}
				if isCon {
					if want, ok := c14RefLookup(c.Kind, c.Weighted, abs.eps, code); ok && want != h {
						fs = append(fs, Failure{Sig: "hash-routing/" + c.Kind + "/not-a-function-of-the-set", Desc: fmt.Sprintf("code %d routed to %s; the ring of the current set %v sends it to %s (op %d)", code, h, abs.eps, want, i)})
					}
				}
			}
			n := len(abs.eps)
			if c.Kind == "rr" && n > 0 {
				if cnt, ok := c13ExpectedCounts(abs.eps); ok && c.Weighted {
					total := 0
					for _, v := range cnt {
						total += v
					}
					for st := 0; st+total <= len(o.Obs); st += total { // every full cycle has exactly the prescribed counts
						got := map[string]int{}
						for _, h := range o.Obs[st : st+total] {
							got[h]++
						}
						for h, v := range cnt {
							if got[h] != v {
								fs = append(fs, Failure{Sig: "selector/rr/weighted-cycle-counts", Desc: fmt.Sprintf("a full weighted cycle of %d selections hit %s %d times, prescribed %d (set %v)", total, h, got[h], v, abs.eps)})
								st = len(o.Obs)
								break
							}
						}
					}
				} else if !c.Weighted || !c13AllStatic(abs.eps) {
					for st := 0; st+n <= len(o.Obs); st++ { // any n consecutive selections hit each endpoint exactly once
						seen := map[string]bool{}
						for _, h := range o.Obs[st : st+n] {
							seen[h] = true
						}
						if len(seen) != n {
							fs = append(fs, Failure{Sig: "selector/rr/rotation", Desc: fmt.Sprintf("%d consecutive selections over %d endpoints hit only %d distinct ones: %v", n, n, len(seen), o.Obs[st:st+n])})
							break
						}
					}
				}
			}
		}
	}
	return fs
}

// c13Scribble edits in place the slice that was passed to Refresh, the way a caller that keeps using its own slice
// does (endpointManager shifts and re-sorts the slice it installed): shift left by one, then overwrite everything.
func c13Scribble(l []endpoint.Endpoint) {
	if len(l) > 1 {
		copy(l, l[1:])
	}
	for i := range l {
		l[i] = endpoint.Endpoint{Host: "alias-bogus", Port: int32(1 + i), Istcp: 1, Proto: "tcp", Weight: 1000, WeightType: 1}
		l[i].Key = l[i].String()
	}
	_ = append(l[:0], endpoint.Endpoint{Host: "alias-bogus-2"})
}

func c13RunBswl(c *c13Case) (fs []Failure) {
	l := c13Eps(c.Bswl)
	c.Alloc = c13Allocated(func() { c.BswlObs = selector.BuildStaticWeightList(l) })
	n := len(c.Bswl)
	for _, i := range c.BswlObs {
		if i < 0 || i >= n {
			fs = append(fs, Failure{Sig: "selector/weight-cycle/index-out-of-range", Desc: fmt.Sprintf("static weights %v: the cycle contains index %d, there are %d endpoints", c.Bswl, i, n)})
			return fs
		}
	}
	if len(c.BswlObs) > 101*n+100 {
		fs = append(fs, Failure{Sig: "selector/weight-cycle/too-long", Desc: fmt.Sprintf("static weights %v: cycle of %d slots for %d endpoints (at most 100 per endpoint are ever needed)", c.Bswl, len(c.BswlObs), n)})
	}
	if lim := uint64(1<<20 + 4096*n*n); c.Alloc > lim {
		fs = append(fs, Failure{Sig: "selector/weight-cycle/over-allocation", Desc: fmt.Sprintf("static weights %v: BuildStaticWeightList allocated %d bytes for %d endpoints (bound %d: the cycle has at most 101n+100 slots)", c.Bswl, c.Alloc, n, lim)})
	}
	if cnt, ok := c13ExpectedCounts(c.Bswl); ok && c13DistinctHosts(c.Bswl) {
		got := map[string]int{}
		for _, i := range c.BswlObs {
			got[c.Bswl[i].Host]++
		}
		for _, e := range c.Bswl {
			if got[e.Host] != cnt[e.Host] {
				fs = append(fs, Failure{Sig: "selector/weight-cycle/count-differs", Desc: fmt.Sprintf("static weights %v: endpoint %s occurs %d times in the cycle, max(1, W*R/Wmax) = %d", c.Bswl, e.Host, got[e.Host], cnt[e.Host])})
				break
			}
		}
	}
	return fs
}

func c13AllStatic(l []c13Ep) bool {
	for _, e := range l {
		if e.WType != 1 {
			return false
		}
	}
	return len(l) > 0
}

// virtual-node table for the model: read from the implementation's ring after Refresh([e])
func c13PointsTable(c *c13Case) string {
	if !strings.HasPrefix(c.Kind, "conhash") {
		return "[]"
	}
	seen := map[string]bool{}
	var parts []string
	for _, o := range c.Ops {
		for _, e := range o.Eps {
			k := c13ChRounds(c.Weighted, e.Weight)
			key := fmt.Sprintf("%s|%d", e.Host, k)
			if seen[key] {
				continue
			}
			seen[key] = true
			keys := c13PointsOf(c.Kind, c.Weighted, e)
			ks := make([]string, len(keys))
			for i, x := range keys {
				ks[i] = fmt.Sprint(x)
			}
			parts = append(parts, fmt.Sprintf("(%s, %d%%nat, [%s])", hx([]byte(e.Host)), k, strings.Join(ks, "; ")))
		}
	}
	return "[" + strings.Join(parts, "; ") + "]"
}

var c13KindCoq = map[string]string{"rr": "RoundRobin", "random": "Random", "modhash": "ModHash", "conhash-ketama": "ConHash", "conhash-default": "ConHash"}

func c13Coq(c *c13Case) string {
	if c.PanicMsg != "" || c.Died != "" {
		return ""
	}
	coqEps := func(l []c13Ep) string {
		p := make([]string, len(l))
		for i, e := range l {
			p[i] = e.coq()
		}
		return "[" + strings.Join(p, "; ") + "]"
	}
	if c.Kind == "bswl" {
		p := make([]string, len(c.BswlObs))
		for i, x := range c.BswlObs {
			p[i] = fmt.Sprint(x)
		}
		return fmt.Sprintf("inl (inr (%s, [%s]))", coqEps(c.Bswl), strings.Join(p, "; "))
	}
	if strings.HasPrefix(c.Kind, "mgr-") {
		return c14MgrCoq(c)
	}
	if strings.HasPrefix(c.Kind, "mgrh-") {
		return c14MgrHealthCoq(c)
	}
	var ops []string
	for _, o := range c.Ops {
		switch o.Op {
		case "refresh":
			ops = append(ops, "ORefresh "+coqEps(o.Eps))
		case "add":
			ops = append(ops, fmt.Sprintf("OAdd %s %s", o.Eps[0].coq(), coqBool(o.Ok)))
		case "remove":
			ops = append(ops, fmt.Sprintf("ORemove %s %s", o.Eps[0].coq(), coqBool(o.Ok)))
		case "select":
			cs := make([]string, len(o.Codes))
			os := make([]string, len(o.Obs))
			for i := range o.Codes {
				cs[i] = fmt.Sprint(o.Codes[i])
			}
			for i, h := range o.Obs {
				if h == "" {
					os[i] = "None"
				} else {
					os[i] = "Some " + hx([]byte(h))
				}
			}
			ops = append(ops, fmt.Sprintf("OSelRun [%s] [%s]", strings.Join(cs, "; "), strings.Join(os, "; ")))
		}
	}
	return fmt.Sprintf("inl (inl (%s, %s, %s, [%s]))", c13KindCoq[c.Kind], coqBool(c.Weighted), c13PointsTable(c), strings.Join(ops, ";\n   "))
}

// ---------- generators ----------
// host names: among them families in which one name is a prefix of another that continues with digits (10.0.0.1 /
// 10.0.0.11 / 10.0.0.110 / 10.0.0.12, a / a1 / a12, host-9 / host-91): the virtual-node names "<host>_<i>" of different
// hosts must stay different
var c13HostPool = []string{"10.0.0.1", "10.0.0.11", "10.0.0.2", "10.0.0.110", "10.0.0.3", "10.0.0.12", "10.0.0.4", "10.0.0.5", "10.0.0.6", "10.0.0.7", "10.0.0.8",
	"a", "a1", "ab", "a12", "b", "host-9", "host-91", "host-10", "z.example", "10.0.0.124", "10.0.0.21"}
var c13WeightPool = []int32{1, 1, 2, 3, 5, 9, 10, 11, 50, 99, 100, 101, 200, 999, 1000, 1001, 7, 7, 100, 100}
var c13HostileWeights = []int32{0, 0, -1, -200, -2147483648, 2147483647, 2147483646, 65536, 1 << 30}
var c13ConWeights = []int32{0, -5, 1, 3, 4, 5, 7, 8, 40, 100, 101, 400}

func c13RandEp(rng *rand.Rand, hosts int, mode string) c13Ep {
	h := rng.Intn(hosts)
	// the port is a function of the host: Endpoint.String() (the tie-break of the weight cycle) is then distinct for distinct hosts
	e := c13Ep{Host: c13HostPool[h], Port: int32(10000 + h%3), WType: 1, Weight: c13WeightPool[rng.Intn(len(c13WeightPool))]}
	switch mode {
	case "hostile":
		if rng.Intn(2) == 0 {
			e.Weight = c13HostileWeights[rng.Intn(len(c13HostileWeights))]
		}
	case "mixed":
		e.WType = int32(rng.Intn(2))
		if rng.Intn(4) == 0 {
			e.Weight = c13HostileWeights[rng.Intn(len(c13HostileWeights))]
		}
	case "conhash":
		e.Weight = c13ConWeights[rng.Intn(len(c13ConWeights))]
	case "ratio": // weight ratios around the clamp limits 10 and 100
		e.Weight = []int32{1, 9, 10, 11, 99, 100, 101, 990, 1000, 1010, 3, 30, 31, 299, 300, 301}[rng.Intn(16)]
	}
	return e
}

func c13Codes(rng *rand.Rand, m int) []uint32 {
	codes := make([]uint32, m)
	for j := range codes {
		switch rng.Intn(5) {
		case 0:
			codes[j] = []uint32{0, 1, 0xffffffff, 0x80000000, 0x7fffffff, 0xfffffffe, 0x80000001}[rng.Intn(7)]
		case 1:
			codes[j] = 0x80000000 | rng.Uint32()
		default:
			codes[j] = rng.Uint32()
		}
	}
	return codes
}

func c13SelOp(rng *rand.Rand, kind string, weighted bool, size int) c13Op {
	m := 1 + rng.Intn(2*size+4)
	if kind == "rr" && weighted && rng.Intn(2) == 0 {
		m = 120 + rng.Intn(200) // long enough to contain full weighted cycles
	}
	return c13Op{Op: "select", Codes: c13Codes(rng, m)}
}

func c13GenHistory(rng *rand.Rand, kind string, weighted bool, mode string) c13Case {
	c := c13Case{Kind: kind, Weighted: weighted, Class: fmt.Sprintf("%s/w=%v/%s/random", kind, weighted, mode)}
	hosts := 2 + rng.Intn(len(c13HostPool)-2)
	if rng.Intn(4) == 0 {
		hosts = 1 + rng.Intn(3)
	}
	nops := 3 + rng.Intn(9)
	size := 0
	for i := 0; i < nops; i++ {
		switch r := rng.Intn(10); {
		case i == 0 && rng.Intn(4) != 0 || r == 0:
			n := rng.Intn(hosts + 2)
			var l []c13Ep
			for j := 0; j < n; j++ {
				l = append(l, c13RandEp(rng, hosts, mode))
			}
			c.Ops = append(c.Ops, c13Op{Op: "refresh", Eps: l})
			size = n
		case r <= 2:
			c.Ops = append(c.Ops, c13Op{Op: "add", Eps: []c13Ep{c13RandEp(rng, hosts, mode)}})
			size++
		case r <= 4:
			c.Ops = append(c.Ops, c13Op{Op: "remove", Eps: []c13Ep{c13RandEp(rng, hosts, mode)}})
		default:
			c.Ops = append(c.Ops, c13SelOp(rng, kind, weighted, size))
		}
	}
	c.Ops = append(c.Ops, c13Op{Op: "select", Codes: c13Codes(rng, 3+rng.Intn(6))}) // always end with a selection run
	return c
}

// scripted histories: the update patterns a manager produces (and the ones it does not), each followed by a selection run
func c13GenScenario(rng *rand.Rand, kind string, weighted bool, mode string, which int) c13Case {
	names := []string{"shrinking-refresh-then-remove", "add-all-remove-some-readd", "remove-with-other-weight", "refresh-with-duplicates", "drain-to-empty", "weight-table-transitions"}
	which %= len(names)
	c := c13Case{Kind: kind, Weighted: weighted, Class: fmt.Sprintf("%s/w=%v/%s/%s", kind, weighted, mode, names[which])}
	k := 2 + rng.Intn(7)
	perm := rng.Perm(len(c13HostPool))
	var u []c13Ep
	for _, p := range perm[:k] {
		e := c13RandEp(rng, len(c13HostPool), mode)
		e.Host, e.Port = c13HostPool[p], int32(10000+p%3)
		u = append(u, e)
	}
	sel := func() { c.Ops = append(c.Ops, c13SelOp(rng, kind, weighted, k)) }
	other := func(e c13Ep) c13Ep { // same host, another weight
		x := c13RandEp(rng, len(c13HostPool), mode)
		x.Host, x.Port = e.Host, e.Port
		return x
	}
	switch which {
	case 0:
		c.Ops = append(c.Ops, c13Op{Op: "refresh", Eps: u})
		sel()
		cut := 1 + rng.Intn(k-1)
		c.Ops = append(c.Ops, c13Op{Op: "refresh", Eps: append([]c13Ep(nil), u[:cut]...)})
		sel()
		c.Ops = append(c.Ops, c13Op{Op: "remove", Eps: []c13Ep{u[rng.Intn(cut)]}})
		sel()
		c.Ops = append(c.Ops, c13Op{Op: "add", Eps: []c13Ep{u[cut+rng.Intn(k-cut)]}})
		sel()
	case 1:
		for _, e := range u {
			c.Ops = append(c.Ops, c13Op{Op: "add", Eps: []c13Ep{e}})
		}
		sel()
		for _, p := range rng.Perm(k)[:1+rng.Intn(k)] {
			c.Ops = append(c.Ops, c13Op{Op: "remove", Eps: []c13Ep{u[p]}})
			if rng.Intn(2) == 0 {
				sel()
			}
		}
		sel()
		for _, p := range rng.Perm(k)[:1+rng.Intn(k)] {
			c.Ops = append(c.Ops, c13Op{Op: "add", Eps: []c13Ep{other(u[p])}})
		}
		sel()
	case 2:
		c.Ops = append(c.Ops, c13Op{Op: "refresh", Eps: u})
		for _, p := range rng.Perm(k)[:1+rng.Intn(k)] {
			c.Ops = append(c.Ops, c13Op{Op: "remove", Eps: []c13Ep{other(u[p])}})
			sel()
		}
	case 3:
		l := append([]c13Ep(nil), u...)
		for i := 0; i < 1+rng.Intn(4); i++ {
			l = append(l, other(u[rng.Intn(k)]))
		}
		rng.Shuffle(len(l), func(i, j int) { l[i], l[j] = l[j], l[i] })
		c.Ops = append(c.Ops, c13Op{Op: "refresh", Eps: l})
		sel()
		c.Ops = append(c.Ops, c13Op{Op: "add", Eps: []c13Ep{other(u[rng.Intn(k)])}})
		sel()
	case 4:
		c.Ops = append(c.Ops, c13Op{Op: "refresh", Eps: u})
		for _, p := range rng.Perm(k) {
			c.Ops = append(c.Ops, c13Op{Op: "remove", Eps: []c13Ep{u[p]}})
		}
		sel()
		c.Ops = append(c.Ops, c13Op{Op: "remove", Eps: []c13Ep{u[0]}})
		c.Ops = append(c.Ops, c13Op{Op: "add", Eps: []c13Ep{u[rng.Intn(k)]}})
		sel()
		c.Ops = append(c.Ops, c13Op{Op: "refresh", Eps: nil})
		sel()
	case 5:
		// a set WITH a weight table (all static, positive) -> sets for which BuildStaticWeightList returns nil, smaller than
		// the old table's indices, and back: the table must be recomputed (dropped) on every rebuild
		for j := range u {
			u[j].WType, u[j].Weight = 1, []int32{1, 2, 5, 10, 50, 100, 100}[rng.Intn(7)]
		}
		if k < 3 {
			u = append(u, c13Ep{Host: "table-3", Port: 10001, WType: 1, Weight: 100})
			k = len(u)
		}
		with := func() {
			c.Ops = append(c.Ops, c13Op{Op: "refresh", Eps: append([]c13Ep(nil), u...)})
			sel()
		}
		alter := func(n int, f func(j int, e *c13Ep)) []c13Ep {
			l := append([]c13Ep(nil), u[:n]...)
			for j := range l {
				f(j, &l[j])
			}
			return l
		}
		small := 1 + rng.Intn(k-1)
		with()
		c.Ops = append(c.Ops, c13Op{Op: "refresh", Eps: alter(small, func(_ int, e *c13Ep) { e.WType, e.Weight = 0, 0 })}) // loop mode
		sel()
		with()
		c.Ops = append(c.Ops, c13Op{Op: "refresh", Eps: alter(small, func(j int, e *c13Ep) { e.Weight = []int32{0, -1, -200, 0}[j%4] })}) // no positive weight
		sel()
		with()
		c.Ops = append(c.Ops, c13Op{Op: "refresh", Eps: nil}) // through the empty set, then a weight-0 endpoint
		zero := u[rng.Intn(k)]
		zero.Weight = 0
		c.Ops = append(c.Ops, c13Op{Op: "add", Eps: []c13Ep{zero}})
		sel()
		with()
		c.Ops = append(c.Ops, c13Op{Op: "refresh", Eps: alter(1+rng.Intn(k-1), func(j int, e *c13Ep) { e.WType = int32(j % 2) })}) // mixed types
		sel()
		with()
		// via Add / Remove: a loop-mode endpoint joins (table gone), then the set shrinks below the old table's indices
		loop := c13Ep{Host: "loop-mode", Port: 10002, WType: 0, Weight: 0}
		c.Ops = append(c.Ops, c13Op{Op: "add", Eps: []c13Ep{loop}})
		sel()
		for _, p := range rng.Perm(k)[:k-rng.Intn(2)] {
			c.Ops = append(c.Ops, c13Op{Op: "remove", Eps: []c13Ep{u[p]}})
		}
		sel()
		c.Ops = append(c.Ops, c13Op{Op: "remove", Eps: []c13Ep{loop}}) // ... and back
		c.Ops = append(c.Ops, c13Op{Op: "add", Eps: []c13Ep{u[0]}})
		c.Ops = append(c.Ops, c13Op{Op: "add", Eps: []c13Ep{u[1]}})
		sel()
	}
	return c
}

// for consistent hashing add the ring points, their predecessors and successors to the probed codes
func c13AddRingCodes(c *c13Case) {
	if !strings.HasPrefix(c.Kind, "conhash") {
		return
	}
	abs := &c13AbsSet{}
	for i := range c.Ops {
		o := &c.Ops[i]
		switch o.Op {
		case "refresh":
			abs.refresh(o.Eps)
		case "add":
			abs.add(o.Eps[0])
		case "remove":
			abs.remove(o.Eps[0])
		case "select":
			var keys []uint32
			for _, e := range abs.eps {
				keys = append(keys, c13PointsOf(c.Kind, c.Weighted, e)...)
			}
			sort.Slice(keys, func(a, b int) bool { return keys[a] < keys[b] })
			for k := 0; k < len(keys) && k < 400; k += 1 + len(keys)/12 {
				o.Codes = append(o.Codes, keys[k], keys[k]-1, keys[k]+1)
			}
			if len(keys) > 0 {
				o.Codes = append(o.Codes, keys[0], keys[0]-1, keys[len(keys)-1], keys[len(keys)-1]+1, 0, 0xffffffff)
			}
		}
	}
}

func c13Gen(tier string, rng *rand.Rand) []c13Case {
	n := 12
	if tier == "thorough" {
		n = 250
	}
	var cs []c13Case
	for i := 0; i < n; i++ {
		for _, k := range []string{"rr", "random", "modhash"} {
			for _, w := range []bool{false, true} {
				mode := []string{"plain", "hostile", "mixed", "ratio"}[(i+i/6)%4] // not in step with the scripted history i%6
				cs = append(cs, c13GenHistory(rng, k, w, mode))
				cs = append(cs, c13GenScenario(rng, k, w, mode, i))
			}
		}
		for _, k := range []string{"conhash-ketama", "conhash-default"} {
			for _, w := range []bool{false, true} {
				c := c13GenHistory(rng, k, w, "conhash")
				c13AddRingCodes(&c)
				cs = append(cs, c)
				c = c13GenScenario(rng, k, w, "conhash", i)
				c13AddRingCodes(&c)
				cs = append(cs, c)
			}
		}
	}
	// BuildStaticWeightList directly (distinct hosts: Endpoint.String() is the tie-break, the prescribed counts are per endpoint)
	for i := 0; i < 8*n; i++ {
		m := rng.Intn(9)
		if i%16 == 0 {
			m = 9 + rng.Intn(4)
		}
		var l []c13Ep
		mode := []string{"plain", "ratio", "hostile", "mixed"}[i%4]
		for j, p := range rng.Perm(len(c13HostPool))[:m] {
			e := c13RandEp(rng, len(c13HostPool), mode)
			e.Host, e.Port = c13HostPool[p], int32(10000+j)
			l = append(l, e)
		}
		cs = append(cs, c13Case{Kind: "bswl", Bswl: l, Class: fmt.Sprintf("bswl/%s/n%d", mode, m)})
	}
	big := int32(2147483647)
	fixed := [][]c13Ep{{{"a", 1, 0, 1}, {"b", 1, 0, 1}}, {{"a", 1, -200, 1}}, {{"a", 1, big, 1}, {"b", 1, big, 1}, {"c", 1, big, 1}, {"d", 1, big, 1}, {"e", 1, big, 1}, {"f", 1, big, 1}, {"g", 1, big, 1}, {"h", 1, big, 1}},
		{{"a", 1, 1, 1}, {"b", 1, 1000, 1}}, {{"a", 1, 5, 1}, {"b", 1, 5, 1}, {"ab", 1, 5, 1}}, {{"a", 1, -1, 1}, {"b", 1, 3, 1}}, {}, {{"a", 1, 0, 1}, {"b", 1, 7, 1}, {"c", 1, 7, 1}},
		{{"a", 1, 1, 1}, {"b", 1, big, 1}}, {{"a", 1, -2147483648, 1}, {"b", 1, big, 1}}, {{"a", 1, 10, 1}, {"b", 1, 100, 1}, {"c", 1, 99, 1}, {"d", 1, 101, 1}}}
	for _, l := range fixed {
		cs = append(cs, c13Case{Kind: "bswl", Bswl: l, Class: "bswl/fixed"})
	}
	return cs
}

func init() {
	constGens = append(constGens, func() {
		lo, hi := selector.VerifStaticWeightLimits()
		fmt.Printf("Definition c_minStaticWeightLimit := %d.\n", lo)
		fmt.Printf("Definition c_maxStaticWeightLimit := %d.\n", hi)
		fmt.Printf("Definition c_ConHashVirtualNodes := %d.\n", selector.ConHashVirtualNodes)
	})
	mk := func(id, rule string, gen func(string, *rand.Rand) []c13Case, extra func(string, *rand.Rand, *Result)) {
		props[id] = func(a Args) {
			runProp(Prop[c13Case]{
				ID: id, Require: "From TarsV Require Import Base.Hex Select.Selectors Select.Hist.", CaseType: "sel_case",
				Mismatch: "failing_from sel_check", Corr: "Hist.sel_check (the model's step replayed over the observed history: results of Add/Remove, every selection, unobservable draws existentially quantified; BuildStaticWeightList index list)",
				Rule: rule, Shard: 40, Gen: gen, RunAll: c13RunAll, Coq: c13Coq,
				Class: func(c *c13Case) string { return c.Class }, Extra: extra,
			}, a)
		}
	}
	mk("C13", "random and scripted histories of Refresh/Add/Remove/Select-runs over 1-14 hosts incl. duplicate hosts, prefix-related names and removal through an endpoint value with another weight, for round-robin / random / mod-hash (weighted and not) and consistent hash (Ketama/default, weighted and not); weights plain, around the clamp ratios 10 and 100, hostile (0, negative, int32 min/max, 2^30) and mixed weight types; BuildStaticWeightList on random and fixed weight vectors (all-zero, negative, 8 x 2^31-1, 1 vs 1000, ties); plus a 16-goroutine select/update stress per selector under the race detector; class = (selector, weighted, weight mode, history shape)", c13Gen, c13Extra)
	mk("C14", "random and scripted histories for consistent hash (Ketama/default x weighted or not) and mod-hash (weighted cycle or not) with probes at ring points, their predecessors and successors, 0, 2^31-1, 2^31, 2^32-1 and random codes (half of them with the top bit set); plus implementation-side pairs of different histories reaching the same set, before/after pairs for remove and add, and a search for a real virtual-node collision; class = (selector, weighted, weight mode, history shape)", c14Gen, c14Extra)
}
