package main

// C16 — targets of the source-to-model translator (harness/xlate*.go, unchanged) inside tars2go: the lexer's
// character classes and the token package's type predicates. `harness gen-c16-translated` -> coq/Gen/C16Translated.v;
// coq/Idl/XlateEquiv.v proves each equal to the hand-written definition of Idl/Lexer.v / Idl/Parser.v for every byte /
// token code, so an edit of these functions that changes their meaning breaks L1 of C16.

import (
	"fmt"
	"os"
	"strings"
)

var c16XUnits = []xUnit{
	{Name: "tr_c16_isNewLine", Dir: "tars/tools/tars2go/lexer", Func: "isNewLine"},
	{Name: "tr_c16_isNumber", Dir: "tars/tools/tars2go/lexer", Func: "isNumber"},
	{Name: "tr_c16_isHexNumber", Dir: "tars/tools/tars2go/lexer", Func: "isHexNumber"},
	{Name: "tr_c16_isLetter", Dir: "tars/tools/tars2go/lexer", Func: "isLetter"},
	{Name: "tr_c16_IsType", Dir: "tars/tools/tars2go/token", Func: "IsType"},
	{Name: "tr_c16_IsNumberType", Dir: "tars/tools/tars2go/token", Func: "IsNumberType"},
}

func init() {
	props["gen-c16-translated"] = func(a Args) {
		root := os.Getenv("VERIF_REPO")
		if root == "" {
			root = "/repo"
		}
		out, errs := xlateUnits(root, c16XUnits)
		fmt.Print("(* GENERATED from the Go source of tars/tools/tars2go by `harness gen-c16-translated` on every run - do not edit.\n" +
			"   Translator: harness/xlate.go (unchanged); units: harness/c16xlate.go; target language: Xlate/GoSem.v *)\n" +
			"From Coq Require Import List NArith ZArith Bool.\nFrom TarsV Require Import Xlate.GoSem.\nImport ListNotations.\nOpen Scope Z_scope.\n\n")
		fmt.Print(strings.Join(out, "\n"))
		if len(errs) > 0 {
			for _, e := range errs {
				fmt.Fprintln(os.Stderr, "gen-c16-translated: outside the supported subset:", e)
			}
			os.Exit(3)
		}
	}
}
