package xlatesample

// Samples for the state mode of the translator (design/XLATE.md): a small reader over bytes.Reader in the shape of
// codec.Reader. The self-test runs these methods as compiled and compares position, depth, out-parameters and
// results with the translation, so the stated semantics of the bytes.Reader / io.ReadFull primitives (GoSem.go_rd_*)
// are checked against the library on every run.

import (
	"bytes"
	"encoding/binary"
	"fmt"
	"io"
)

type R struct {
	ref   []byte
	buf   *bytes.Reader
	depth int
}

// NewR: a reader over ref at position pos (possibly beyond the end) with the given depth
func NewR(ref []byte, pos int64, depth int) *R {
	r := &R{ref: ref, buf: bytes.NewReader(ref), depth: depth}
	_, _ = r.buf.Seek(pos, io.SeekStart)
	return r
}

// State: position and depth
func (b *R) State() (int64, int) {
	p, _ := b.buf.Seek(0, io.SeekCurrent)
	return p, b.depth
}

func bReadU8(r *bytes.Reader, data *uint8) error {
	var err error
	*data, err = r.ReadByte()
	return err
}
func bReadU16(r *bytes.Reader, data *uint16) error {
	var (
		b  [2]byte
		bs []byte
	)
	bs = b[:]
	_, err := io.ReadFull(r, bs)
	*data = binary.BigEndian.Uint16(bs)
	return err
}
func bReadU32(r *bytes.Reader, data *uint32) error {
	var (
		b  [4]byte
		bs []byte
	)
	bs = b[:]
	_, err := io.ReadFull(r, bs)
	*data = binary.BigEndian.Uint32(bs)
	return err
}
func bReadU64(r *bytes.Reader, data *uint64) error {
	var (
		b  [8]byte
		bs []byte
	)
	bs = b[:]
	_, err := io.ReadFull(r, bs)
	*data = binary.BigEndian.Uint64(bs)
	return err
}

func (b *R) Head() (ty, tag byte, err error) {
	data, err := b.buf.ReadByte()
	if err != nil {
		return
	}
	ty = data & 0x0f
	tag = (data & 0xf0) >> 4
	if tag == 15 {
		data, err = b.buf.ReadByte()
		if err != nil {
			return
		}
		tag = data
	}
	return
}
func (b *R) Unread(n uint8) {
	_ = b.buf.UnreadByte()
	if n >= 2 {
		_ = b.buf.UnreadByte()
	}
}
func (b *R) Jump(n int32) (int64, bool) {
	p, err := b.buf.Seek(int64(n), io.SeekCurrent)
	return p, err != nil
}
func (b *R) Left() (int, int) { return b.buf.Len(), len(b.ref) - b.buf.Len() }
func (b *R) U8(x *uint8) error {
	err := bReadU8(b.buf, x)
	return err
}
func (b *R) U16(x *uint16) error {
	err := bReadU16(b.buf, x)
	return err
}
func (b *R) U32(x *uint32) error {
	err := bReadU32(b.buf, x)
	return err
}
func (b *R) U64(x *uint64) error {
	err := bReadU64(b.buf, x)
	return err
}
func (b *R) Full(data *[]byte, n int8) (int, error) {
	*data = make([]byte, n)
	k, err := io.ReadFull(b.buf, *data)
	return k, err
}
func (b *R) Read(data *[]byte, n int8) (int, error) {
	*data = make([]byte, n)
	k, err := b.buf.Read(*data)
	return k, err
}
func (b *R) Nest(skip func() error) error {
	if b.depth >= 3 {
		return fmt.Errorf("nested too deep")
	}
	b.depth++
	err := skip()
	b.depth--
	return err
}

// Walk: 0 ends the walk; 1 walks one level deeper; 2 k skips k bytes; 3 hh reads a 16-bit count and adds it;
// anything else is an error. The loop runs until a 0.
func (b *R) Walk(sum *int32) error {
	for {
		c, err := b.buf.ReadByte()
		if err != nil {
			return err
		}
		if c == 0 {
			break
		}
		switch c {
		case 1:
			err = b.Nest(b.Deeper)
			if err != nil {
				return err
			}
		case 2:
			k, _ := b.buf.ReadByte()
			_, _ = b.buf.Seek(int64(k), io.SeekCurrent)
		case 3:
			var v uint16
			_ = bReadU16(b.buf, &v)
			*sum += int32(v)
		default:
			return fmt.Errorf("bad code")
		}
	}
	*sum++
	return nil
}
func (b *R) Deeper() error {
	var s int32
	err := b.Walk(&s)
	return err
}
