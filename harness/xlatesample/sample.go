// Package xlatesample holds small functions that together use every construct of the translator's Go subset
// (harness/xlate.go, design/XLATE.md). `harness gen-xlate-selftest` translates them to Gallina AND runs the
// compiled functions on boundary inputs; the generated coq/Gen/TranslatedSelfTest.v states, input by input,
// that the translation evaluates (vm_compute) to what the Go compiler's code returned, panics included.
// This checks the translator and the target language Xlate/GoSem.v against the Go implementation on every run.
package xlatesample

import (
	"encoding/binary"
	"errors"
	"math"
	"sort"
)

const (
	KA = iota + 3
	KB
	KC int16 = -7
)

type Pt struct {
	X int32
	Y uint8
	S string
}

func Arith8(a, b int8) int8    { return a*b + a - b }
func ArithU8(a, b uint8) uint8 { return a*b + a - b }
func Arith16(a, b int16) int16 { return -a + b*KC }
func ArithU16(a, b uint16) uint16 {
	a++
	b--
	a += b
	a *= 3
	return a - b
}
func Arith32(a, b int32) int32    { return a*b - (a + b) + ^a }
func ArithU32(a, b uint32) uint32 { return a*b - (a + b) + ^a + -b }
func Arith64(a, b int64) int64    { return a*b + a - b }
func ArithU64(a, b uint64) uint64 { return a*b + a - b }
func Div32(a, b int32) int32      { return a / b }
func Rem32(a, b int32) int32      { return a % b }
func Div64(a, b int64) (int64, int64) {
	q := a / b
	return q, a % b
}
func DivU8(a, b uint8) (uint8, uint8) { return a / b, a % b }
func Bits(a, b int32) (int32, int32, int32, int32) {
	return a & b, a | b, a ^ b, a &^ b
}
func BitsU(a, b uint16) (uint16, uint16, uint16, uint16) { return a & b, a | b, a ^ b, a &^ b }
func Shl32(a int32, n uint8) int32                       { return a << n }
func Shr32(a int32, n uint8) int32                       { return a >> n }
func ShlU16(a uint16, n uint8) uint16                    { return a<<n | a>>(n&3) }
func ShiftSigned(a int64, n int8) (int64, int64)         { return a << n, a >> n }
func ConstShift(tag, ty uint8) uint8                     { return tag<<4 | ty | 1<<7 }
func Conv(a int64) (int8, uint8, int16, uint16, int32, uint32, uint64, int) {
	return int8(a), uint8(a), int16(a), uint16(a), int32(a), uint32(a), uint64(a), int(int8(uint8(a)))
}
func ConvU(a uint64) (int64, int32, uint8) { return int64(a), int32(a), uint8(a) }
func Cmp(a, b int32) (bool, bool, bool, bool, bool, bool) {
	return a < b, a <= b, a == b, a != b, a > b, a >= b
}
func CmpU(a, b uint8) (bool, bool, bool) { return a < b, a == b, math.MaxUint8-a >= b }
func Logic(a, b int8) bool               { return (a > 0 && b/a > 1) || !(b < 0 || 10/b > 2) }
func Index(b []byte, i int) byte         { return b[i] }
func Guarded(b []byte, i int) int {
	if i >= 0 && i < len(b) && b[i] == 7 {
		return 1
	}
	return 0
}
func Slice(b []byte, i, j int) (int, []byte) {
	s := b[i:j]
	return len(s), s
}
func SliceOpen(b []byte, i int) ([]byte, []byte) { return b[i:], b[:i] }
func BE(b []byte) (uint16, uint32, uint64) {
	return binary.BigEndian.Uint16(b), binary.BigEndian.Uint32(b[1:]), binary.BigEndian.Uint64(b[2:10])
}
func Str(s string) int {
	if s == "tcp" {
		return 1
	} else if s != "" && s[0] == 's' {
		return len(s)
	}
	return KB
}
func Switch(x int16) int {
	r := 0
	switch x {
	case 1, 2:
		r = 10
	case KC:
		r = 20
		r++
	default:
		r = -1
	}
	return r
}
func SwitchRet(x uint8) uint8 {
	switch y := x & 3; y {
	case 0:
		return 9
	case 3:
		x += 200
	}
	return x
}
func IfMerge(a, b int) (int, int) {
	var lo, hi int
	if a < b {
		lo, hi = a, b
	} else if a == b {
		return a, -1
	} else {
		lo = b
		hi = a
	}
	if d := hi - lo; d > 100 {
		hi = lo + 100
	}
	return lo, hi
}
func Swap(a, b int8) (int8, int8) {
	a, b = b, a+b
	return a, b
}
func RangeSum(l []int32) int32 {
	var s int32
	for i, v := range l {
		if v < 0 {
			return int32(i)
		}
		s += v
	}
	return s
}
func RangeMinMax(l []int16) (int, int, int) {
	mn, mx, n := math.MaxInt16, math.MinInt16, 0
	for _, v := range l {
		w := int(v)
		if w < mn {
			mn = w
		}
		if w > mx {
			mx = w
		}
		n++
	}
	return mn, mx, n
}
func Count(a, n int8) int16 {
	var s int16
	for i := a; i < n; i++ {
		s += int16(i) * int16(i)
	}
	return s
}
func CountRet(n uint8, l []byte) (uint16, int) {
	s := uint16(1)
	for i := uint8(1); i < n; i++ {
		if i == 200 {
			return 0, -1
		}
		s = s*uint16(i) + uint16(l[i%4])
	}
	return s, len(l)
}
func Struct(x int32, y uint8) (int32, uint8, int, Pt) {
	p := Pt{X: x, Y: y}
	q := Pt{x + 1, y + 1, "ab"}
	return p.X + q.X, p.Y + q.Y, len(q.S) + len(p.S), q
}
func Ret0(b []byte) (bool, []byte) {
	if len(b) == 0 {
		return true, nil
	}
	return false, b
}
func Collect(l []int32, k int16) ([]int, []byte, int, int, int) {
	var pos []int
	bs := make([]byte, 2, 8)
	m := map[int]int{7: 1}
	total := 0
	for i, v := range l {
		if v > 0 {
			pos = append(pos, i, int(v))
			m[i] = int(v) * 2
			total += m[i]
		} else {
			bs = append(bs, byte(v))
			m[7] += i
		}
	}
	return pos, bs, total, m[int(k)], m[7]
}
func Make(n, c int8) ([]int16, int) {
	s := make([]int16, n, c)
	t := make([]int16, c)
	return s, len(t)
}
func Search(l []int32, k int32) (int, int) {
	i := sort.Search(len(l), func(x int) bool { return l[x] >= k })
	j := sort.Search(len(l)+1, func(x int) bool { return l[x] >= k }) // the predicate can panic at x = len(l)
	return i, j
}
func Widen(b uint32, c uint64) (uint64, uint32, uint64, float32) {
	f := math.Float32frombits(b)
	var z float32
	z = 0
	return math.Float64bits(float64(f)), math.Float32bits(f), math.Float64bits(math.Float64frombits(c)), z
}
func SortDesc(l []int32) ([]int32, int32) {
	var v []int32
	for _, x := range l {
		v = append(v, x)
	}
	sort.Slice(v, func(i, j int) bool { return v[i] > v[j] })
	s := int32(0)
	for k := len(v) - 1; k >= 0; k-- {
		s = s*3 + v[k]
	}
	return v, s
}
func StrOrder(a, b string) (bool, bool, bool, bool) { return a < b, a <= b, a > b, a >= b }
func LoopCut(src []byte, n int8) ([]byte, int, int) {
	var cur []byte
	cur = append(cur, src...)
	total, rounds := 0, 0
	for {
		rounds++
		if len(cur) < 2 {
			break
		}
		k := int(cur[0])
		if k == 0 {
			return cur, total, -1
		}
		if k > len(cur) {
			break
		}
		pkg := make([]byte, k+1)
		copy(pkg, cur[:k])
		cur = cur[k:]
		total += int(pkg[k-1]) + len(pkg)
		if len(cur) > int(n) {
			continue
		}
		cur = nil
		break
	}
	return cur, total, rounds
}

// a struct with a member outside the subset (left out of the generated record) and assignments to single members
type Pkt struct {
	Ver  int16
	Id   int32
	Tags chan int
	Ret  int32
	Desc string
}

func FillPkt(ver int16, code int32, bad bool) Pkt {
	p := Pkt{}
	p.Ver = ver
	p.Id = code + 1
	if bad {
		p.Ret = 1
		p.Desc = "bad"
		if code > 1 {
			p.Ret = code
		}
	}
	p.Ver = p.Ver + int16(p.Ret)
	return p
}

// error values: nil, errors.New(text), a pointer to the package's error struct (unit option ErrVals)
type E struct {
	Code int32
	Msg  string
}

func (e *E) Error() string { return e.Msg }

func MapErr(ret int32, desc string) error {
	if ret != 0 {
		if desc == "" {
			desc = "none"
		}
		if ret != 0 && ret != 1 {
			return &E{Code: ret, Msg: desc}
		}
		return errors.New(desc)
	}
	return nil
}

// a counted loop whose bound is a second variable of the init statement
func SumTo(n int8, from int8) int {
	t := 0
	for i, e := from, n; i < e; i++ {
		t += int(i) * 3
	}
	return t
}

// the translator's normalisations (design/XLATE.md section 8): negated and flipped comparisons, constants on the left,
// inverted ifs, chains of pure conditions (emitted in a canonical order), loop headers written with > and += 1
func NormCmp(a, b int8) (bool, bool, bool, bool, int) {
	r := 0
	if !(a < b) {
		r += 1
	} else {
		r += 2
	}
	if 3 == a {
		r += 4
	}
	if !(a != b) {
		r += 8
	}
	for i := int8(0); b > i; i += 1 {
		r += 16
	}
	return !(a <= b), !(a == b), b > a && a > -5 && 7 != b, !!(a >= b), r
}

// a chain with an operand that can panic keeps its order and its laziness
func GuardOrder(s []byte, i int8) (bool, bool) {
	return int(i) < len(s) && i >= 0 && s[i] == 7, i >= 0 && int(i) < len(s) && s[i] == 7
}
func GuardPanic(s []byte, i int8) bool { return s[i] == 7 && int(i) < len(s) }
