package main

// C07 — real sockets, real read deadlines: the server's receive loop runs with a non-zero ReadTimeout and the peer
// pauses INSIDE a packet for longer than that timeout (and between packets); every packet sent must still reach the
// protocol layer, once and in order. The scripted net.Conn of c07.go ignores deadlines, so deadline handling (when
// the deadline is armed, what a fired deadline does to a half-received packet) is only visible here.

import (
	"context"
	"fmt"
	"math/rand"
	"net"
	"time"

	"github.com/TarsCloud/TarsGo/tars/protocol"
	"github.com/TarsCloud/TarsGo/tars/transport"
)

func c07Pauses(tier string, rng *rand.Rand, res *Result) {
	n := 3
	if tier == "thorough" {
		n = 20
	}
	protocol.SetMaxPackageLength(10485760)
	for it := 0; it < n; it++ {
		pool := int32(it % 2)
		rt := time.Duration(120+rng.Intn(80)) * time.Millisecond
		rec := &recProto{}
		var ts *transport.TarsServer
		addr := ""
		for try := 0; try < 5; try++ {
			addr = c05FreeAddr("tcp")
			ts = transport.NewTarsServer(rec, &transport.TarsServerConf{Proto: "tcp", Address: addr, MaxInvoke: pool, QueueCap: 100,
				AcceptTimeout: 50 * time.Millisecond, ReadTimeout: rt, IdleTimeout: time.Hour})
			if err := ts.Listen(); err == nil {
				break
			}
			ts = nil
		}
		if ts == nil {
			continue
		}
		go ts.Serve()
		conn, err := net.DialTimeout("tcp", addr, 2*time.Second)
		if err != nil {
			ctx, cancel := context.WithTimeout(context.Background(), time.Second)
			ts.Shutdown(ctx)
			cancel()
			continue
		}
		// packets; pauses of 2.5-4 read timeouts inside the first and the third packet (after 1..len-1 bytes) and one between packets
		var sent [][]byte
		var script []string
		for k := 0; k < 4; k++ {
			p := mkPacket(rng, 12+rng.Intn(60), k)
			sent = append(sent, p)
			pause := time.Duration(float64(rt) * (2.5 + 1.5*rng.Float64()))
			switch k {
			case 0, 2:
				cut := 1 + rng.Intn(len(p)-1)
				if k == 0 && it%3 == 0 {
					cut = 1 + rng.Intn(3) // inside the length prefix
				}
				conn.Write(p[:cut])
				time.Sleep(pause)
				conn.Write(p[cut:])
				script = append(script, fmt.Sprintf("packet %d (%d bytes): %d bytes, pause %v, rest", k, len(p), cut, pause))
			case 1:
				conn.Write(p)
				time.Sleep(pause)
				script = append(script, fmt.Sprintf("packet %d (%d bytes) whole, then pause %v", k, len(p), pause))
			default:
				conn.Write(p)
				script = append(script, fmt.Sprintf("packet %d (%d bytes) whole", k, len(p)))
			}
		}
		for w := 0; w < 300; w++ {
			rec.mu.Lock()
			got := len(rec.pkgs)
			rec.mu.Unlock()
			if got >= len(sent) {
				break
			}
			time.Sleep(10 * time.Millisecond)
		}
		time.Sleep(20 * time.Millisecond)
		rec.mu.Lock()
		got := append([][]byte(nil), rec.pkgs...)
		rec.mu.Unlock()
		if pool == 0 {
			got = reorderLike(got, sent)
		}
		conn.Close()
		ctx, cancel := context.WithTimeout(context.Background(), 2*time.Second)
		ts.Shutdown(ctx)
		cancel()
		res.Evaluations++
		if !eqPackets(got, sent) {
			res.Failures = append(res.Failures, Failure{Sig: "framing/server-real-socket/pause-longer-than-read-timeout/delivered-differs",
				Desc:   fmt.Sprintf("real TCP server, ReadTimeout %v, pool %d: %d of %d packets reached the protocol layer (script: %v)", rt, pool, len(got), len(sent), script),
				Replay: map[string]interface{}{"c07_pauses": true, "read_timeout_ms": rt.Milliseconds(), "pool": pool, "script": script}})
		}
	}
}
