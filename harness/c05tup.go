package main

// C05T — the TUP attribute codec (tars/protocol/tup: UniAttribute Encode/Decode, PutBuffer/GetBuffer) and the
// packet-level pack/unpack functions (protocol.TarsProtocol RequestPack/ResponseUnpack/ParsePackage, the server's
// rsp2Byte/req2Byte) against their Coq models (coq/Codec/Tup.v, Packet.v; correspondence TupCorr.tcase_check),
// plus direct monitors on the implementation. Everything that decodes hostile bytes runs in the child workers.

import (
	"bytes"
	"encoding/binary"
	"encoding/json"
	"fmt"
	"math/rand"
	"reflect"
	"runtime"
	"sort"
	"strings"
	"time"

	"github.com/TarsCloud/TarsGo/tars"
	"github.com/TarsCloud/TarsGo/tars/protocol"
	"github.com/TarsCloud/TarsGo/tars/protocol/codec"
	"github.com/TarsCloud/TarsGo/tars/protocol/res/basef"
	"github.com/TarsCloud/TarsGo/tars/protocol/res/requestf"
	"github.com/TarsCloud/TarsGo/tars/protocol/tup"
)

type tKV struct {
	K B `json:"k"`
	V B `json:"v"`
}

type tProbe struct {
	K     B    `json:"k"`
	Found bool `json:"found"`
	V     B    `json:"v"`
}

// tCase is one case of any kind; it is its own replay.
type tCase struct {
	Kind   string   `json:"kind"` // tdec | tenc | preq | psrv | prsp | pparse | ptmo
	Note   string   `json:"note"`
	Class  string   `json:"class"`
	Expect string   `json:"expect,omitempty"` // tdec: "roundtrip" | "err" | ""
	Set    []tKV    `json:"set,omitempty"`    // tdec: the set the bytes were derived from; tenc: the set encoded
	Prior  []tKV    `json:"prior,omitempty"`
	Bytes  B        `json:"bytes"`
	Probes []tProbe `json:"probes,omitempty"`
	Seed   int64    `json:"seed,omitempty"`    // preq / psrv: the packet value is regenerated from this seed
	Version int     `json:"version,omitempty"` // psrv: forced IVersion (0 = as generated)
	// observations
	St        int    `json:"st"`
	Remaining int    `json:"remaining"`
	Final     []tKV  `json:"final,omitempty"`
	Val       string `json:"val,omitempty"` // Coq term: preq decoded value / psrv input value
	Obs       string `json:"obs,omitempty"` // prsp: OVal .. | OErr | OPanic
	N         int    `json:"n"`
	Status    int    `json:"status"`
	Err       string `json:"err,omitempty"`
	Alloc     uint64 `json:"alloc,omitempty"`
	Us        int64  `json:"us,omitempty"`
	NoCoq     bool   `json:"no_coq,omitempty"`
}

// what travels to the worker inside decReq.Bytes / back inside decResp.Obs
type tWorkReq struct {
	Kind   string   `json:"kind"`
	Prior  []tKV    `json:"prior"`
	Bytes  B        `json:"bytes"`
	Probes []tProbe `json:"probes"`
}
type tWorkResp struct {
	St        int      `json:"st"`
	Remaining int      `json:"remaining"`
	Final     []tKV    `json:"final"`
	Probes    []tProbe `json:"probes"`
	Obs       string   `json:"obs"`
	N         int      `json:"n"`
	Status    int      `json:"status"`
	Err       string   `json:"err"`
	Alloc     uint64   `json:"alloc"`
	Us        int64    `json:"us"`
}

func init() {
	constGens = append(constGens, func() {
		fmt.Printf("Definition c_TUPVERSION := (%d)%%Z.\n", basef.TUPVERSION)
		fmt.Printf("Definition c_TARSONEWAY := (%d)%%Z.\n", basef.TARSONEWAY)
		fmt.Printf("Definition c_PackageLess := %d.\n", protocol.PackageLess)
		fmt.Printf("Definition c_PackageFull := %d.\n", protocol.PackageFull)
		fmt.Printf("Definition c_PackageError := %d.\n", protocol.PackageError)
		fmt.Printf("Definition c_maxPackageLength := %d.\n", protocol.VerifMaxPackageLength())
	})
	// the worker's entry point table: this file's init runs after c05net.go's (file name order); the entry
	// "tupx" is served here, everything else goes to the previous handler
	prev := entryDecodeNet
	entryDecodeNet = func(entry string, bs []byte) (string, string, bool) {
		if entry == "tupx" {
			return tWorker(bs), "", true
		}
		if prev != nil {
			return prev(entry, bs)
		}
		return "", "", false
	}
	props["C05T"] = c05tMain
}

func sortedSet(m map[string][]byte) []tKV {
	out := make([]tKV, 0, len(m))
	for k, v := range m {
		out = append(out, tKV{B(k), B(append([]byte{}, v...))})
	}
	sort.Slice(out, func(i, j int) bool { return bytes.Compare(out[i].K, out[j].K) < 0 })
	return out
}

func attrOf(set []tKV) *tup.UniAttribute {
	u := tup.NewUniAttribute()
	for _, kv := range set {
		u.PutBuffer(string(kv.K), kv.V)
	}
	return u
}

// tWorker runs one hostile-input request inside the child worker.
func tWorker(raw []byte) string {
	var rq tWorkReq
	var rs tWorkResp
	if err := json.Unmarshal(raw, &rq); err != nil {
		rs.Err = "harness: bad request"
		b, _ := json.Marshal(rs)
		return string(b)
	}
	in := append([]byte(nil), rq.Bytes...)
	var m0, m1 runtime.MemStats
	switch rq.Kind {
	case "tdec":
		u := attrOf(rq.Prior)
		is := codec.NewReader(in)
		runtime.ReadMemStats(&m0)
		t0 := time.Now()
		func() {
			defer func() {
				if r := recover(); r != nil {
					rs.St, rs.Err = 2, fmt.Sprint(r)
				}
			}()
			if err := u.Decode(is); err != nil {
				rs.St, rs.Err = 1, err.Error()
			}
		}()
		rs.Us = time.Since(t0).Microseconds()
		runtime.ReadMemStats(&m1)
		rs.Alloc = m1.TotalAlloc - m0.TotalAlloc
		rs.Remaining = is.VerifRemaining()
		rs.Final = sortedSet(u.VerifData())
		for _, p := range rq.Probes {
			var b []byte
			err := u.GetBuffer(string(p.K), &b)
			rs.Probes = append(rs.Probes, tProbe{K: p.K, Found: err == nil, V: B(append([]byte{}, b...))})
		}
	case "prsp":
		p := &protocol.TarsProtocol{}
		runtime.ReadMemStats(&m0)
		t0 := time.Now()
		func() {
			defer func() {
				if r := recover(); r != nil {
					rs.Obs, rs.Err = "OPanic", fmt.Sprint(r)
				}
			}()
			pk, err := p.ResponseUnpack(in)
			if err != nil {
				rs.Obs, rs.Err = "OErr", err.Error()
				return
			}
			rs.Obs = "OVal " + dumpVal(reflect.ValueOf(pk).Elem())
		}()
		rs.Us = time.Since(t0).Microseconds()
		runtime.ReadMemStats(&m1)
		rs.Alloc = m1.TotalAlloc - m0.TotalAlloc
		rs.N, rs.Status = p.ParsePackage(in)
	case "ptmo":
		runtime.ReadMemStats(&m0)
		t0 := time.Now()
		func() {
			defer func() {
				if r := recover(); r != nil {
					rs.Obs, rs.Err = "OPanic", fmt.Sprint(r)
				}
			}()
			rs.Obs = "reply " + hexOf((&tars.Protocol{}).InvokeTimeout(in))
		}()
		rs.Us = time.Since(t0).Microseconds()
		runtime.ReadMemStats(&m1)
		rs.Alloc = m1.TotalAlloc - m0.TotalAlloc
	case "pparse":
		p := &protocol.TarsProtocol{}
		func() {
			defer func() {
				if r := recover(); r != nil {
					rs.Status, rs.Err = -1, fmt.Sprint(r)
				}
			}()
			rs.N, rs.Status = p.ParsePackage(in)
			n2, s2 := (&tars.Protocol{}).ParsePackage(in)
			if n2 != rs.N || s2 != rs.Status {
				rs.Status, rs.Err = -2, fmt.Sprintf("server ParsePackage differs: (%d,%d) vs (%d,%d)", n2, s2, rs.N, rs.Status)
			}
		}()
	}
	b, _ := json.Marshal(rs)
	return string(b)
}

// ---------- generators ----------

var tBufLens = []int{0, 0, 1, 2, 5, 20, 127, 128, 129, 255, 256, 300}

func tRandKey(rng *rand.Rand, i int) []byte {
	switch rng.Intn(9) {
	case 0:
		return []byte{}
	case 1:
		return []byte{0xff, 0x00, 0xc3, 0x28, byte(i)} // not UTF-8, with a NUL
	case 2:
		b := make([]byte, []int{254, 255, 256, 257}[rng.Intn(4)]) // STRING1 / STRING4 boundary
		rng.Read(b)
		return b
	case 3:
		return []byte(fmt.Sprintf("k%d", i))
	case 4:
		return []byte("é漢" + fmt.Sprint(i))
	}
	b := make([]byte, 1+rng.Intn(10))
	rng.Read(b)
	return b
}

func tRandSet(rng *rand.Rand, n int, small bool) []tKV {
	m := map[string][]byte{}
	for i := 0; i < n; i++ {
		l := tBufLens[rng.Intn(len(tBufLens))]
		if small {
			l = rng.Intn(4)
		}
		v := make([]byte, l)
		rng.Read(v)
		k := tRandKey(rng, i)
		if small && len(k) > 12 {
			k = k[:3]
		}
		m[string(k)] = v
	}
	return sortedSet(m)
}

func tEncode(set []tKV) []byte {
	buf := codec.NewBuffer()
	if err := attrOf(set).Encode(buf); err != nil {
		return nil
	}
	return append([]byte(nil), buf.ToBytes()...)
}

// countValue: the int32 an encoded count field announces; ok=false: not an int32 at tag 0 (mistyped)
func countValue(h []byte) (int64, bool) {
	if len(h) == 0 || h[0]>>4 != 0 {
		return 0, false
	}
	switch h[0] & 0x0f {
	case 12:
		return 0, true
	case 0:
		if len(h) >= 2 {
			return int64(int8(h[1])), true
		}
	case 1:
		if len(h) >= 3 {
			return int64(int16(binary.BigEndian.Uint16(h[1:]))), true
		}
	case 2:
		if len(h) >= 5 {
			return int64(int32(binary.BigEndian.Uint32(h[1:]))), true
		}
	}
	return 0, false
}

func tProbesFor(rng *rand.Rand, sets ...[]tKV) []tProbe {
	ps := []tProbe{{K: B("no-such-key")}, {K: B{}}}
	for _, s := range sets {
		for _, kv := range s {
			if rng.Intn(2) == 0 {
				ps = append(ps, tProbe{K: kv.K})
			}
		}
	}
	return ps
}

func cat(parts ...[]byte) []byte {
	var out []byte
	for _, p := range parts {
		out = append(out, p...)
	}
	return out
}

func c05tGen(tier string, rng *rand.Rand) []tCase {
	initRegistry()
	nsets, nrand, npk, allCut := 26, 120, 40, 160
	if tier == "thorough" {
		nsets, nrand, npk, allCut = 300, 4000, 500, 300
	}
	var cs []tCase
	main := rng
	dec := func(class, note, expect string, set, prior []tKV, bs []byte) {
		cs = append(cs, tCase{Kind: "tdec", Class: "tdec/" + class, Note: note, Expect: expect, Set: set, Prior: prior, Bytes: bs, Probes: tProbesFor(rng, set, prior)})
	}
	// --- attribute sets: valid, into prior sets, every count / length made hostile, truncations, flips ---
	for i := 0; i < nsets; i++ {
		n := i % 9
		small := i%3 == 0
		set := tRandSet(main, n, small)
		bs := tEncode(set)
		// Encode writes the entries in Go's map iteration order, which differs from run to run: everything that is
		// drawn per position of these bytes comes from a sub-generator, so that the main stream stays reproducible
		rng = rand.New(rand.NewSource(main.Int63()))
		cs = append(cs, tCase{Kind: "tenc", Class: fmt.Sprintf("tenc/n%d/len%d", len(set), bucket(len(bs))), Set: set, Bytes: bs})
		dec(fmt.Sprintf("valid/n%d/len%d", len(set), bucket(len(bs))), "valid", "roundtrip", set, nil, bs)
		if i%2 == 0 { // into a set that already holds entries, some under the same keys
			prior := tRandSet(rng, 1+rng.Intn(3), true)
			for _, kv := range set {
				if rng.Intn(3) == 0 {
					prior = append(prior, tKV{kv.K, B("old")})
				}
			}
			pm := map[string][]byte{}
			for _, kv := range prior {
				pm[string(kv.K)] = kv.V
			}
			dec("valid-into-prior", "valid, decoded into a non-empty set", "", set, sortedSet(pm), bs)
		}
		dec("valid-trailing", "valid followed by other bytes", "", set, nil, cat(bs, []byte{0x1c, 0x2c, 0x99}))
		sp, ok := walkTop(bs)
		if !ok {
			cs = append(cs, tCase{Kind: "tenc", Class: "tenc/not-wellformed", Note: "independent walker rejects the encoding", Set: set, Bytes: bs, Err: "walker"})
			continue
		}
		for _, s := range allSpans(sp) {
			if s.CountField != nil {
				cf := *s.CountField
				what := "map count"
				if s.Ty == 13 {
					what = "buffer length"
				}
				for _, h := range hostileCounts(len(bs) - cf.End) {
					nb := cat(bs[:cf.Start], h, bs[cf.End:])
					expect := ""
					v, typed := countValue(h)
					left := int64(len(bs) - cf.End)
					if !typed || v > left || (s.Ty == 13 && v < 0) {
						expect = "err"
					}
					if small || rng.Intn(3) == 0 {
						dec("hostile-"+strings.ReplaceAll(what, " ", "-"), fmt.Sprintf("%s at %d := % x", what, cf.Start, h), expect, set, nil, nb)
					}
				}
				// one entry more / fewer than present
				if s.Ty == 8 {
					dec("count-plus-1", "map count := n+1", "err", set, nil, cat(bs[:cf.Start], mkCount(len(set)+1), bs[cf.End:]))
					if len(set) > 0 {
						dec("count-minus-1", "map count := n-1", "", set, nil, cat(bs[:cf.Start], mkCount(len(set)-1), bs[cf.End:]))
					}
				}
			}
			if s.LenAt >= 0 && s.LenSize == 1 {
				nb := append([]byte(nil), bs...)
				nb[s.LenAt] = 0xff
				exp := ""
				if len(bs)-s.LenAt-1 < 255 {
					exp = "err"
				}
				dec("hostile-keylen", "STRING1 key length := 255", exp, set, nil, nb)
			}
			if s.LenAt >= 0 && s.LenSize == 4 {
				for _, v := range []uint32{0xffffffff, 0x80000000, 0x7fffffff, 0x00100000} {
					nb := append([]byte(nil), bs...)
					binary.BigEndian.PutUint32(nb[s.LenAt:], v)
					dec("hostile-keylen", fmt.Sprintf("STRING4 key length := %#x", v), "err", set, nil, nb)
				}
			}
		}
		// truncation: every position for small encodings, a sample (plus the last bytes) otherwise
		var cuts []int
		if len(bs) <= allCut {
			for p := 0; p < len(bs); p++ {
				cuts = append(cuts, p)
			}
		} else {
			for k := 0; k < 10; k++ {
				cuts = append(cuts, rng.Intn(len(bs)))
			}
			cuts = append(cuts, len(bs)-1, len(bs)-2, 0, 1, 2, 3)
		}
		for _, p := range cuts {
			dec("truncated", fmt.Sprintf("valid encoding of %d entries cut at %d of %d", len(set), p, len(bs)), "err", set, nil, bs[:p])
		}
		for k := 0; k < 3 && len(bs) > 0; k++ {
			nb := append([]byte(nil), bs...)
			p := rng.Intn(len(nb))
			if rng.Intn(2) == 0 {
				nb[p] ^= 1 << uint(rng.Intn(8))
			} else {
				nb[p] = byte(rng.Intn(256))
			}
			dec("flip", fmt.Sprintf("byte %d changed", p), "", set, nil, nb)
		}
	}
	rng = main
	// --- hand-made encodings around every decision of Decode ---
	str := func(s string) []byte { return cat([]byte{0x06, byte(len(s))}, []byte(s)) }
	val := func(v []byte) []byte { return cat([]byte{0x1d, 0x00}, mkCount(len(v)), v) }
	hd := func(n int) []byte { return cat([]byte{0x08}, mkCount(n)) }
	hand := []struct {
		note string
		bs   []byte
		exp  string
	}{
		{"empty input", []byte{}, ""},
		{"map head only", []byte{0x08}, ""},
		{"count 0", hd(0), ""},
		{"count 0, trailing bytes", cat(hd(0), []byte{1, 2, 3}), ""},
		{"count -1, one entry follows", cat([]byte{0x08, 0x00, 0xff}, str("a"), val([]byte("x"))), ""},
		{"duplicate key: the later entry wins", cat(hd(3), str("a"), val([]byte("1")), str("b"), val([]byte("2")), str("a"), val([]byte("3"))), ""},
		{"entry without a value at the end", cat(hd(1), str("a")), ""},
		{"entry without a value, next key follows", cat(hd(2), str("a"), str("b"), val([]byte("2"))), ""},
		{"value at tag 2 instead of 1", cat(hd(1), str("a"), []byte{0x2d, 0x00, 0x00, 0x01, 0x78}), ""},
		{"tag-0 fields between key and value are skipped", cat(hd(1), str("a"), []byte{0x00, 0x07, 0x06, 0x02, 0x41, 0x42, 0x0c}, val([]byte("x"))), ""},
		{"tag-0 struct between key and value", cat(hd(1), str("a"), []byte{0x0a, 0x00, 0x01, 0x0b}, val([]byte("x"))), ""},
		{"tag-0 unterminated struct between key and value", cat(hd(1), str("a"), []byte{0x0a, 0x00, 0x01}, val([]byte("x"))), ""},
		{"value is a LIST", cat(hd(1), str("a"), []byte{0x19, 0x00, 0x01, 0x00, 0x78}), ""},
		{"value is a string", cat(hd(1), str("a"), []byte{0x16, 0x01, 0x78}), ""},
		{"SimpleList element head is SHORT", cat(hd(1), str("a"), []byte{0x1d, 0x01, 0x00, 0x01, 0x78}), ""},
		{"SimpleList element head at tag 1", cat(hd(1), str("a"), []byte{0x1d, 0x10, 0x00, 0x01, 0x78}), ""},
		{"SimpleList element head: two-byte head with tag 2 (an optional lookup would re-read the tag byte as an INT head)", cat(hd(1), str("a"), []byte{0x1d, 0xf0, 0x02, 0x00, 0x00, 0x00, 0x01, 0x78}), ""},
		{"value head: two-byte head with tag 13 after the key (an optional lookup would re-read the tag byte)", cat(hd(1), str("a"), []byte{0xf0, 0x0d, 0x00, 0x00, 0x01, 0x78}), ""},
		{"key head: two-byte head with tag 6 (an optional lookup would re-read the tag byte as a STRING1 head)", cat(hd(1), []byte{0xf0, 0x06, 0x01, 0x61}, val([]byte("x"))), ""},
		{"buffer length as ZeroTag at the end of the input", cat(hd(1), str("a"), []byte{0x1d, 0x00, 0x0c}), ""},
		{"buffer length 0 written as BYTE 0", cat(hd(1), str("a"), []byte{0x1d, 0x00, 0x00, 0x00}), ""},
		{"buffer length as SHORT", cat(hd(1), str("a"), []byte{0x1d, 0x00, 0x01, 0x00, 0x02, 0x78, 0x79}), ""},
		{"buffer length as INT", cat(hd(1), str("a"), []byte{0x1d, 0x00, 0x02, 0x00, 0x00, 0x00, 0x02, 0x78, 0x79}), ""},
		{"buffer length as LONG", cat(hd(1), str("a"), []byte{0x1d, 0x00, 0x03, 0, 0, 0, 0, 0, 0, 0, 0x02, 0x78, 0x79}), ""},
		{"buffer length -1", cat(hd(1), str("a"), []byte{0x1d, 0x00, 0x00, 0xff, 0x78}), ""},
		{"buffer length one more than left", cat(hd(1), str("a"), []byte{0x1d, 0x00, 0x00, 0x03, 0x78, 0x79}), ""},
		{"buffer length exactly what is left", cat(hd(1), str("a"), []byte{0x1d, 0x00, 0x00, 0x02, 0x78, 0x79}), ""},
		{"key as STRING4", cat(hd(1), []byte{0x07, 0, 0, 0, 1, 0x61}, val([]byte("x"))), ""},
		{"key STRING4 length 2^32-1", cat(hd(1), []byte{0x07, 0xff, 0xff, 0xff, 0xff, 0x61}, val([]byte("x"))), ""},
		{"key is an int", cat(hd(1), []byte{0x00, 0x61}, val([]byte("x"))), ""},
		{"key at tag 1", cat(hd(1), []byte{0x16, 0x01, 0x61}, val([]byte("x"))), ""},
		{"key with a two-byte head for tag 0", cat(hd(1), []byte{0xf6, 0x00, 0x01, 0x61}, val([]byte("x"))), ""},
		{"value with a two-byte head for tag 1", cat(hd(1), str("a"), []byte{0xfd, 0x01, 0x00, 0x00, 0x01, 0x78}), ""},
		{"first head is a LIST at tag 0", cat([]byte{0x09, 0x00, 0x01}, str("a"), val([]byte("x"))), ""},
		{"first head at tag 1: not found, the count is read from the same bytes", []byte{0x18, 0x00, 0x01}, ""},
		{"first head StructEnd", []byte{0x0b, 0x00, 0x01}, ""},
		{"two-byte head tag 2 (non-canonical): unread steps back one byte", cat([]byte{0xf8, 0x02, 0x00, 0x00, 0x00, 0x01}, str("a"), val([]byte("x"))), ""},
		{"two-byte head tag 12 (non-canonical): the tag byte is re-read as ZeroTag", cat([]byte{0xf8, 0x0c}, str("a")), ""},
		{"two-byte head for tag 0 on the map", cat([]byte{0xf8, 0x00, 0x00, 0x01}, str("a"), val([]byte("x"))), ""},
		{"map head, count as LONG", []byte{0x08, 0x03, 0, 0, 0, 0, 0, 0, 0, 1}, ""},
		{"map head, count at tag 1", []byte{0x08, 0x10, 0x01}, ""},
		{"map head + count 2^31-1, nothing else", []byte{0x08, 0x02, 0x7f, 0xff, 0xff, 0xff}, ""},
		{"map head + count 2^27, nothing else", []byte{0x08, 0x02, 0x08, 0x00, 0x00, 0x00}, ""},
		{"count 2^31-1, then keys without values", cat([]byte{0x08, 0x02, 0x7f, 0xff, 0xff, 0xff}, bytes.Repeat(str(""), 40)), ""},
		{"map count as SHORT cut after its first byte (a zero-padded read would give 0)", []byte{0x08, 0x01, 0x00}, "err"},
		{"map count as INT cut after two bytes", []byte{0x08, 0x02, 0x00, 0x00}, "err"},
		{"map count as INT cut after one byte", []byte{0x08, 0x02, 0x00}, "err"},
		{"buffer length as SHORT cut after its first byte", cat(hd(1), str("a"), []byte{0x1d, 0x00, 0x01, 0x00}), "err"},
		{"buffer length as INT cut after three bytes", cat(hd(1), str("a"), []byte{0x1d, 0x00, 0x02, 0x00, 0x00, 0x00}), "err"},
		{"key STRING4 length cut after two bytes", cat(hd(1), []byte{0x07, 0x00, 0x00}), "err"},
		{"key STRING1 announcing 3 bytes, 2 left", cat(hd(1), []byte{0x06, 0x03, 0x61, 0x62}), "err"},
		{"key STRING4 announcing 2^31+1 bytes", cat(hd(1), []byte{0x07, 0x80, 0x00, 0x00, 0x01, 0x61, 0x62}), "err"},
		{"count 32767 over 3 entries", cat([]byte{0x08, 0x01, 0x7f, 0xff}, str("a"), val(nil), str("b"), val(nil), str("c"), val(nil)), ""},
	}
	for _, h := range hand {
		dec("hand", h.note, h.exp, nil, nil, h.bs)
		dec("hand-into-prior", h.note, "", nil, []tKV{{B("a"), B("old")}, {B("z"), B{}}}, h.bs)
	}
	// --- multi-entry sets: the key / value / element head / buffer length of EVERY position (first, middle, last)
	// replaced by each inadmissible wire type, also by well-formed fields that leave the reader in sync (ZeroTag,
	// BYTE, SHORT ...): a mistyped or inflated entry anywhere must make Decode fail, whatever follows it ---
	sizes := []int{2, 3, 4}
	if tier == "thorough" {
		sizes = []int{2, 3, 4, 5, 6, 2, 3, 4, 5, 6}
	}
	wireTypes := []byte{0, 1, 2, 3, 4, 5, 6, 7, 8, 9, 10, 12, 13}
	for _, n := range sizes {
		type ent struct{ k, v []byte }
		ents := make([]ent, n)
		var set []tKV
		for i := range ents {
			v := make([]byte, rng.Intn(4))
			rng.Read(v)
			ents[i] = ent{[]byte(fmt.Sprintf("%c%d", 'a'+i, rng.Intn(10))), v}
			set = append(set, tKV{B(ents[i].k), B(v)})
		}
		sort.Slice(set, func(i, j int) bool { return bytes.Compare(set[i].K, set[j].K) < 0 })
		build := func(pos int, repl func(e ent) []byte) []byte {
			out := hd(n)
			for i, e := range ents {
				if i == pos {
					out = append(out, repl(e)...)
				} else {
					out = append(out, cat(str(string(e.k)), val(e.v))...)
				}
			}
			return out
		}
		dec("multi/valid", fmt.Sprintf("%d entries, hand-encoded", n), "roundtrip", set, nil, build(-1, nil))
		for pos := 0; pos < n; pos++ {
			where := fmt.Sprintf("entry %d of %d", pos+1, n)
			for _, ty := range wireTypes {
				ty := ty
				if ty != 6 && ty != 7 { // the key: a well-formed field of another type at tag 0
					dec("multi/mistyped-key", fmt.Sprintf("%s: key replaced by a field of wire type %d", where, ty), "err", set, nil,
						build(pos, func(e ent) []byte { return cat(randFieldOf(rng, ty, 0, 1), val(e.v)) }))
				}
				if ty != 13 { // the value: a well-formed field of another type at tag 1 (the reader stays in sync)
					dec("multi/mistyped-value", fmt.Sprintf("%s: value replaced by a field of wire type %d at tag 1", where, ty), "err", set, nil,
						build(pos, func(e ent) []byte { return cat(str(string(e.k)), randFieldOf(rng, ty, 1, 1)) }))
				}
				if ty != 0 { // the element head of the SimpleList
					dec("multi/mistyped-elem", fmt.Sprintf("%s: SimpleList element head of wire type %d", where, ty), "err", set, nil,
						build(pos, func(e ent) []byte { return cat(str(string(e.k)), []byte{0x1d, ty}, mkCount(len(e.v)), e.v) }))
				}
			}
			dec("multi/value-struct-end", where+": StructEnd at tag 1 instead of the value", "err", set, nil,
				build(pos, func(e ent) []byte { return cat(str(string(e.k)), []byte{0x1b}) }))
			dec("multi/value-missing", where+": no value, the next key follows", "err", set, nil,
				build(pos, func(e ent) []byte { return str(string(e.k)) }))
			dec("multi/value-tag2", where+": value at tag 2", "err", set, nil,
				build(pos, func(e ent) []byte { return cat(str(string(e.k)), []byte{0x2d, 0x00}, mkCount(len(e.v)), e.v) }))
			// buffer length inflated beyond everything that follows / negative / mistyped; key length inflated
			full := build(-1, nil)
			for _, h := range [][]byte{mkCount(len(full) + 1), {0x02, 0x7f, 0xff, 0xff, 0xff}, {0x00, 0xff}, {0x01, 0x80, 0x00}, {0x03, 0, 0, 0, 0, 0, 0, 0, 1}, {0x10, 0x01}} {
				h := h
				dec("multi/inflated-buffer", fmt.Sprintf("%s: buffer length := % x", where, h), "err", set, nil,
					build(pos, func(e ent) []byte { return cat(str(string(e.k)), []byte{0x1d, 0x00}, h, e.v) }))
			}
			dec("multi/inflated-key", where+": STRING1 key length := 255", "err", set, nil,
				build(pos, func(e ent) []byte { return cat([]byte{0x06, 0xff}, e.k, val(e.v)) }))
			dec("multi/inflated-key", where+": STRING4 key length := 2^31", "err", set, nil,
				build(pos, func(e ent) []byte { return cat([]byte{0x07, 0x80, 0, 0, 0}, e.k, val(e.v)) }))
		}
		// truncation at every position of the hand-encoded set (inside every entry)
		full := build(-1, nil)
		for p := 0; p < len(full); p++ {
			dec("multi/truncated", fmt.Sprintf("%d entries cut at %d of %d", n, p, len(full)), "err", set, nil, full[:p])
		}
	}
	for _, bm := range skipBombs() {
		dec("skip-bomb", "top level: "+bm.note, "", nil, nil, bm.bs)
		dec("skip-bomb", "between key and value: "+bm.note, "", nil, nil, cat(hd(1), str("a"), bm.bs, val([]byte("x"))))
	}
	for _, d := range []int{100, 511, 512, 513, 600} {
		for name, pat := range map[string][]byte{"struct": {0x0a}, "list": {0x09, 0x00, 0x01}, "map": {0x08, 0x00, 0x01}} {
			dec("nest-"+name, fmt.Sprintf("%d nested %s heads at tag 0 between key and value", d, name), "", nil, nil, cat(hd(1), str("a"), bytes.Repeat(pat, d)))
		}
	}
	for i := 0; i < nrand; i++ {
		bs := make([]byte, rng.Intn(40))
		rng.Read(bs)
		switch rng.Intn(3) {
		case 0:
			bs = cat([]byte{0x08}, mkCount(rng.Intn(4)), bs)
		case 1:
			if len(bs) > 3 {
				bs = cat(hd(1+rng.Intn(2)), str(string(bs[:2])), []byte{0x1d, 0x00}, bs[2:])
			}
		}
		dec("random", "", "", nil, nil, bs)
	}
	// --- packets ---
	for i := 0; i < npk; i++ {
		cs = append(cs, tCase{Kind: "preq", Class: "preq", Seed: 1 + rng.Int63n(1<<40)})
		cs = append(cs, tCase{Kind: "psrv", Class: fmt.Sprintf("psrv/v%d", []int{0, 1, 3, 3, 2}[i%5]), Seed: 1 + rng.Int63n(1<<40), Version: []int{0, 1, 3, 3, 2}[i%5]})
	}
	unp := func(class, note string, bs []byte) {
		cs = append(cs, tCase{Kind: "prsp", Class: "prsp/" + class, Note: note, Bytes: bs})
	}
	rspEntry := registry[sidOf[reflect.TypeOf(requestf.ResponsePacket{})]]
	for i := 0; i < npk; i++ {
		v := gRandomValue(rng, rspEntry)
		body, err := gEncode(v)
		if err != nil || len(body) > 1500 {
			continue
		}
		pk := c05Frame(body)
		unp("valid", "valid response", pk)
		nb := append([]byte(nil), pk...)
		p := 4 + rng.Intn(len(nb)-4)
		nb[p] = byte(rng.Intn(256))
		unp("mutated", fmt.Sprintf("byte %d changed", p), nb)
		unp("truncated", "body cut (header not adjusted)", pk[:4+rng.Intn(len(body))])
		for _, tag := range []int{10, 15, 16, 200} { // unknown members after the known ones (tags ascending)
			if rng.Intn(2) == 0 {
				unp("extra-field", fmt.Sprintf("valid response followed by an unknown member at tag %d", tag), c05Frame(cat(body, randField(rng, tag, 2))))
			}
		}
		if sp, ok := walkTop(body); ok {
			al := allSpans(sp)
			for _, s := range al {
				if s.LenAt >= 0 && s.LenSize == 4 {
					for _, v := range []uint32{0xffffffff, 0x80000001, 0x7fffffff} {
						nb := append([]byte(nil), body...)
						binary.BigEndian.PutUint32(nb[s.LenAt:], v)
						unp("hostile-strlen", fmt.Sprintf("STRING4 length at %d := %#x", s.LenAt, v), c05Frame(nb))
					}
				}
				if s.LenAt >= 0 && s.LenSize == 1 && rng.Intn(4) == 0 {
					nb := append([]byte(nil), body...)
					nb[s.LenAt] = 0xff
					unp("hostile-strlen", fmt.Sprintf("STRING1 length at %d := 255", s.LenAt), c05Frame(nb))
				}
			}
			for _, k := range rng.Perm(len(al)) {
				if s := al[k]; s.CountField != nil {
					cf := *s.CountField
					hc := hostileCounts(len(body) - cf.End)
					unp("hostile-count", fmt.Sprintf("count at %d", cf.Start), c05Frame(cat(body[:cf.Start], hc[rng.Intn(len(hc))], body[cf.End:])))
					break
				}
			}
		}
	}
	// the byte vector member written as a LIST (admissible on the wire) with hostile counts: the generated LIST branch
	// allocates the announced count (known finding of C05, listed for this stream too)
	{
		v := rspEntry.mk().(*requestf.ResponsePacket)
		v.IVersion, v.IRequestId, v.SBuffer = 1, 7, []int8{}
		body, _ := gEncode(v)
		if sp, ok := walkTop(body); ok {
			for _, s := range sp {
				if s.Ty == 13 && s.Tag == 6 {
					for _, h := range [][]byte{{0x00, 0xff}, {0x02, 0x7f, 0xff, 0xff, 0xff}, {0x02, 0x00, 0x01, 0x00, 0x00}, {0x00, 0x02, 0x00, 0x01, 0x00, 0x02}, {0x00, 0x03, 0x0c}} {
						unp("list-coded-bytes", fmt.Sprintf("sBuffer as LIST, count % x", h), c05Frame(cat(body[:s.Start], []byte{0x69}, h, body[s.End:])))
					}
				}
			}
		}
	}
	for l := 0; l <= 6; l++ { // shorter than the header: pkg[4:] must not be reached through ParsePackage
		pk := make([]byte, l)
		for k := range pk {
			pk[k] = byte(rng.Intn(256))
		}
		unp("short", fmt.Sprintf("%d bytes", l), pk)
		pk2 := make([]byte, 4+l)
		pk2[3] = byte(l)
		unp("short-header", fmt.Sprintf("length prefix %d over %d bytes", l, 4+l), pk2)
	}
	for _, bm := range skipBombs() {
		unp("skip-bomb", bm.note, c05Frame(bm.bs))
	}
	for i := 0; i < nrand/3; i++ {
		bs := make([]byte, rng.Intn(30))
		rng.Read(bs)
		unp("random", "", c05Frame(bs))
	}
	// InvokeTimeout (server side: pkg[4:], ReadFrom, rsp2Byte): packed requests of every version, mutated, cut, short
	tmo := func(class, note string, bs []byte) {
		cs = append(cs, tCase{Kind: "ptmo", Class: "ptmo/" + class, Note: note, Bytes: bs})
	}
	reqEntry := registry[sidOf[reflect.TypeOf(requestf.RequestPacket{})]]
	for i := 0; i < npk; i++ {
		v := gRandomValue(rng, reqEntry).(*requestf.RequestPacket)
		if k := i % 4; k > 0 {
			v.IVersion = int16(k) // 1 = TARS, 2, 3 = TUP
		}
		v.CPacketType = []int8{basef.TARSNORMAL, basef.TARSONEWAY, basef.TARSNORMAL, 2, v.CPacketType}[(i/4)%5]
		pk, err := (&protocol.TarsProtocol{}).RequestPack(v)
		if err != nil || len(pk) > 1500 {
			continue
		}
		pk = append([]byte(nil), pk...)
		tmo(fmt.Sprintf("valid/v%d/t%d", i%4, (i/4)%5), fmt.Sprintf("packed request, packet type %d", v.CPacketType), pk)
		nb := append([]byte(nil), pk...)
		p := 4 + rng.Intn(len(nb)-4)
		nb[p] = byte(rng.Intn(256))
		tmo("mutated", fmt.Sprintf("byte %d changed", p), nb)
		tmo("truncated", "body cut", pk[:4+rng.Intn(len(pk)-4)])
	}
	for l := 0; l <= 5; l++ {
		tmo("short", fmt.Sprintf("%d bytes", l), make([]byte, l))
	}
	{
		v := reqEntry.mk().(*requestf.RequestPacket)
		v.IVersion, v.IRequestId, v.SBuffer = 3, 9, []int8{}
		body, _ := gEncode(v)
		if sp, ok := walkTop(body); ok {
			for _, s := range sp {
				if s.Ty == 13 && s.Tag == 7 {
					for _, h := range [][]byte{{0x00, 0xff}, {0x02, 0x7f, 0xff, 0xff, 0xff}, {0x00, 0x02, 0x00, 0x01, 0x00, 0x02}} {
						tmo("list-coded-bytes", fmt.Sprintf("sBuffer as LIST, count % x", h), c05Frame(cat(body[:s.Start], []byte{0x79}, h, body[s.End:])))
					}
				}
			}
		}
	}
	// ParsePackage: lengths around 0..8, header values around 4, the buffer length and the limit
	max := protocol.VerifMaxPackageLength()
	pp := func(note string, bs []byte) {
		cs = append(cs, tCase{Kind: "pparse", Class: "pparse/" + note, Note: note, Bytes: bs})
	}
	for l := 0; l <= 9; l++ {
		for _, h := range []int{0, 1, 3, 4, 5, l - 1, l, l + 1, 8, 256, 65536, max - 1, max, max + 1, 1 << 24, 0x7fffffff, 0x80000000, 0xffffffff} {
			if h < 0 {
				continue
			}
			bs := make([]byte, l)
			hb := []byte{byte(h >> 24), byte(h >> 16), byte(h >> 8), byte(h)}
			copy(bs, hb)
			pp(fmt.Sprintf("len%d", l), bs)
		}
	}
	for i := 0; i < nrand/2; i++ {
		l := rng.Intn(300)
		bs := make([]byte, l)
		rng.Read(bs)
		if l >= 4 && rng.Intn(4) != 0 {
			binary.BigEndian.PutUint32(bs, uint32(l+rng.Intn(5)-2))
		}
		pp("random", bs)
	}
	return cs
}

// ---------- running ----------

func c05tRunAll(cs []tCase) [][]Failure {
	initRegistry()
	fails := make([][]Failure, len(cs))
	var reqs []decReq
	var idx []int
	for i := range cs {
		c := &cs[i]
		switch c.Kind {
		case "tdec", "prsp", "pparse", "ptmo":
			b, _ := json.Marshal(tWorkReq{Kind: c.Kind, Prior: c.Prior, Bytes: c.Bytes, Probes: c.Probes})
			reqs = append(reqs, decReq{ID: len(reqs), Entry: "tupx", Bytes: b})
			idx = append(idx, i)
		case "tenc":
			fails[i] = tRunEnc(c)
		case "preq":
			fails[i] = tRunReq(c)
		case "psrv":
			fails[i] = tRunSrv(c)
		}
	}
	resp := decodeMany(reqs, 8, 20000)
	for k, r := range resp {
		i := idx[k]
		c := &cs[i]
		ent := map[string]string{"tdec": "tup/decode", "prsp": "packet/response-unpack", "pparse": "packet/parse-package", "ptmo": "packet/invoke-timeout"}[c.Kind]
		if r.Died != "" {
			c.NoCoq = true
			fails[i] = append(fails[i], Failure{Sig: ent + "/process-death/" + tDeathClass(r.Died), Desc: fmt.Sprintf("%s %s: the worker died or hung: %s (input % x)", c.Class, c.Note, r.Died, trunc(c.Bytes))})
			continue
		}
		var rs tWorkResp
		if err := json.Unmarshal([]byte(r.Obs), &rs); err != nil {
			c.NoCoq = true
			fails[i] = append(fails[i], Failure{Sig: "harness/worker-protocol", Desc: "unexpected worker answer: " + r.Obs + " " + r.Err})
			continue
		}
		c.St, c.Remaining, c.Final, c.Obs, c.N, c.Status, c.Err, c.Alloc, c.Us = rs.St, rs.Remaining, rs.Final, rs.Obs, rs.N, rs.Status, rs.Err, rs.Alloc, rs.Us
		if len(rs.Probes) == len(c.Probes) {
			c.Probes = rs.Probes
		}
		if rs.Alloc > 256*uint64(len(c.Bytes))+(1<<20) {
			fails[i] = append(fails[i], Failure{Sig: ent + "/over-allocation", Desc: fmt.Sprintf("%s %s: %d bytes allocated for %d bytes of input", c.Class, c.Note, rs.Alloc, len(c.Bytes))})
		}
		if rs.Us > slowLimitUs(len(c.Bytes)) && stillSlow(reqs[k]) {
			fails[i] = append(fails[i], Failure{Sig: ent + "/slow", Desc: fmt.Sprintf("%s %s: %d us for %d bytes of input, repeatedly", c.Class, c.Note, rs.Us, len(c.Bytes))})
		}
		switch c.Kind {
		case "tdec":
			fails[i] = append(fails[i], tJudgeDec(c)...)
		case "prsp":
			full := rs.Status == protocol.PackageFull && rs.N == len(c.Bytes)
			if rs.Obs == "OPanic" && full {
				fails[i] = append(fails[i], Failure{Sig: "packet/response-unpack/panic/" + classifyPanic(rs.Err), Desc: fmt.Sprintf("%s: ResponseUnpack panics on a packet that ParsePackage accepts: %s", c.Note, rs.Err)})
			}
			if rs.Obs == "OPanic" && len(c.Bytes) >= 4 && !full {
				fails[i] = append(fails[i], Failure{Sig: "packet/response-unpack/panic/" + classifyPanic(rs.Err), Desc: fmt.Sprintf("%s: ResponseUnpack panics: %s", c.Note, rs.Err)})
			}
		case "ptmo":
			fails[i] = append(fails[i], tJudgeTmo(c)...)
		case "pparse":
			if rs.Status < 0 {
				fails[i] = append(fails[i], Failure{Sig: "packet/parse-package/panic-or-differs", Desc: c.Note + ": " + rs.Err})
			}
			if rs.Status == protocol.PackageFull && (rs.N < 4 || rs.N > len(c.Bytes)) {
				fails[i] = append(fails[i], Failure{Sig: "packet/parse-package/full-out-of-range", Desc: fmt.Sprintf("%s: PackageFull with length %d over a buffer of %d bytes", c.Note, rs.N, len(c.Bytes))})
			}
		}
	}
	return fails
}

// tDeathClass: why the worker was lost (narrow signatures: a hang is never confused with an allocation failure)
func tDeathClass(died string) string {
	switch {
	case strings.Contains(died, "timeout"):
		return "timeout"
	case strings.Contains(died, "out of memory") || strings.Contains(died, "cannot allocate"):
		return "out-of-memory"
	}
	return "other"
}

func sameSet(a, b []tKV) bool {
	if len(a) != len(b) {
		return false
	}
	for i := range a {
		if !bytes.Equal(a[i].K, b[i].K) || !bytes.Equal(a[i].V, b[i].V) {
			return false
		}
	}
	return true
}

// tJudgeDec: the property monitors on UniAttribute.Decode (independent of the model)
func tJudgeDec(c *tCase) []Failure {
	var fs []Failure
	if c.St == 2 {
		fs = append(fs, Failure{Sig: "tup/decode/panic/" + classifyPanic(c.Err), Desc: fmt.Sprintf("%s %s: Decode panics: %s (input % x)", c.Class, c.Note, c.Err, trunc(c.Bytes))})
	}
	if c.St == 0 { // success only on an input whose first field is a MAP at tag 0 (the attribute map is mandatory)
		if ty, tag, _, ok := readHeadAt(c.Bytes, 0); !ok || ty != codec.MAP || tag != 0 {
			fs = append(fs, Failure{Sig: "tup/malformed-accepted/no-map-at-tag-0", Desc: fmt.Sprintf("%s: Decode reports success (%d entries) on an input that does not start with a MAP at tag 0: % x", c.Note, len(c.Final), trunc(c.Bytes))})
		}
	}
	switch c.Expect {
	case "roundtrip":
		if c.St != 0 {
			fs = append(fs, Failure{Sig: "tup/roundtrip-decode-fails", Desc: fmt.Sprintf("decoding the encoding of a set of %d entries fails: %s", len(c.Set), c.Err)})
		} else if !sameSet(c.Set, c.Final) || c.Remaining != 0 {
			fs = append(fs, Failure{Sig: "tup/roundtrip-value-differs", Desc: fmt.Sprintf("encode/decode changed a set of %d entries (decoded %d, %d bytes left unread)", len(c.Set), len(c.Final), c.Remaining)})
		}
	case "err":
		if c.St == 0 {
			fs = append(fs, Failure{Sig: "tup/malformed-accepted/" + strings.TrimPrefix(c.Class, "tdec/"), Desc: fmt.Sprintf("%s: Decode reports success (%d entries decoded, %d bytes left; input % x)", c.Note, len(c.Final), c.Remaining, trunc(c.Bytes))})
		}
	}
	// whatever happened: only complete entries of the input may have been added, and the prior ones kept or overwritten
	if c.Expect != "" && len(c.Prior) == 0 && c.Class != "tdec/flip" {
		in := map[string]string{}
		for _, kv := range c.Set {
			in[string(kv.K)] = string(kv.V)
		}
		if strings.HasPrefix(c.Class, "tdec/truncated") || c.Class == "tdec/count-plus-1" || c.Class == "tdec/valid" || (strings.HasPrefix(c.Class, "tdec/multi/") && c.Class != "tdec/multi/value-missing") {
			// (value-missing: the next key is skipped as a tag-0 field and the next value is taken - input bytes, not made up)
			for _, kv := range c.Final {
				if v, ok := in[string(kv.K)]; !ok || v != string(kv.V) {
					fs = append(fs, Failure{Sig: "tup/made-up-entry", Desc: fmt.Sprintf("%s: decoded entry %q=% x is not an entry of the encoded set", c.Note, string(kv.K), trunc(kv.V))})
					break
				}
			}
		}
	}
	return fs
}

// tJudgeTmo: InvokeTimeout on a packet of at least header size never panics, and its reply is a packet that the
// client side accepts: header = length, and it carries the request's id when the request decodes; a one-way request
// gets no reply at all (empty), a two-way request that decodes always gets one
func tJudgeTmo(c *tCase) []Failure {
	if c.Obs == "OPanic" {
		if len(c.Bytes) < 4 {
			return nil // req[4:]: the receive paths never hand over less than a header (ParsePackage)
		}
		return []Failure{{Sig: "packet/invoke-timeout/panic/" + classifyPanic(c.Err), Desc: fmt.Sprintf("%s: InvokeTimeout panics: %s (input % x)", c.Note, c.Err, trunc(c.Bytes))}}
	}
	var reply B
	if err := json.Unmarshal([]byte("\""+strings.TrimPrefix(c.Obs, "reply ")+"\""), &reply); err != nil {
		return []Failure{{Sig: "harness/worker-protocol", Desc: "unexpected worker answer: " + c.Obs}}
	}
	var fs []Failure
	probe := new(requestf.RequestPacket)
	decodes := probe.ReadFrom(codec.NewReader(c.Bytes[4:])) == nil
	if len(reply) == 0 { // no reply: right for a one-way request (and possible when the request does not decode)
		if decodes && probe.CPacketType != basef.TARSONEWAY {
			return []Failure{{Sig: "packet/invoke-timeout/no-reply-to-two-way", Desc: fmt.Sprintf("%s: a two-way request (packet type %d, id %d) that timed out gets no reply", c.Note, probe.CPacketType, probe.IRequestId)}}
		}
		return nil
	}
	if decodes && probe.CPacketType == basef.TARSONEWAY {
		return []Failure{{Sig: "packet/invoke-timeout/reply-to-one-way", Desc: fmt.Sprintf("%s: a one-way request gets a %d-byte timeout reply", c.Note, len(reply))}}
	}
	if !tHeaderOK(reply) {
		return []Failure{{Sig: "packet/invoke-timeout/header-length", Desc: fmt.Sprintf("%s: reply header % x over %d bytes", c.Note, trunc(reply), len(reply))}}
	}
	if n, st := (&protocol.TarsProtocol{}).ParsePackage(reply); st != protocol.PackageFull || n != len(reply) {
		fs = append(fs, Failure{Sig: "packet/invoke-timeout/reply-not-a-full-package", Desc: fmt.Sprintf("%s: ParsePackage of the reply: (%d, %d), length %d", c.Note, n, st, len(reply))})
	}
	req := new(requestf.RequestPacket)
	if err := req.ReadFrom(codec.NewReader(c.Bytes[4:])); err == nil {
		var ver int16
		var id int32
		var ret int32 = 1
		if req.IVersion == basef.TUPVERSION {
			back := new(requestf.RequestPacket)
			if err := back.ReadFrom(codec.NewReader(reply[4:])); err != nil {
				return append(fs, Failure{Sig: "packet/invoke-timeout/reply-undecodable", Desc: c.Note + ": " + err.Error()})
			}
			ver, id = back.IVersion, back.IRequestId
		} else {
			back, err := (&protocol.TarsProtocol{}).ResponseUnpack(reply)
			if err != nil {
				return append(fs, Failure{Sig: "packet/invoke-timeout/reply-undecodable", Desc: c.Note + ": " + err.Error()})
			}
			ver, id, ret = back.IVersion, back.IRequestId, back.IRet
		}
		if ver != req.IVersion || id != req.IRequestId || ret != 1 {
			fs = append(fs, Failure{Sig: "packet/invoke-timeout/reply-differs", Desc: fmt.Sprintf("%s: request version %d id %d; reply version %d id %d ret %d", c.Note, req.IVersion, req.IRequestId, ver, id, ret)})
		}
	}
	return fs
}

func tRunEnc(c *tCase) (fs []Failure) {
	defer func() {
		if r := recover(); r != nil {
			c.NoCoq = true
			fs = append(fs, Failure{Sig: "tup/encode/panic", Desc: fmt.Sprint(r)})
		}
	}()
	if c.Err == "walker" {
		c.NoCoq = true
		return []Failure{{Sig: "tup/encode/not-wellformed", Desc: fmt.Sprintf("an independent walker cannot parse Encode's output for %d entries: % x", len(c.Set), trunc(c.Bytes))}}
	}
	c.Bytes = tEncode(c.Set) // (replay: recomputed; map order may differ, the check is order-insensitive)
	if c.Bytes == nil {
		c.NoCoq = true
		return []Failure{{Sig: "tup/encode/error", Desc: "Encode returned an error"}}
	}
	// PutBuffer copies: changing the caller's slice afterwards must not change the set
	u := tup.NewUniAttribute()
	src := []byte{1, 2, 3}
	u.PutBuffer("k", src)
	src[0] = 9
	var got []byte
	if err := u.GetBuffer("k", &got); err != nil || !bytes.Equal(got, []byte{1, 2, 3}) {
		fs = append(fs, Failure{Sig: "tup/putbuffer-aliases", Desc: fmt.Sprintf("PutBuffer does not copy: % x, %v", got, err)})
	}
	if err := u.GetBuffer("absent", &got); err == nil {
		fs = append(fs, Failure{Sig: "tup/getbuffer-absent-ok", Desc: "GetBuffer of an absent key returns no error"})
	}
	return fs
}

func tPacketValue(seed int64, name string) tarsStruct {
	for _, e := range registry {
		if e.name == name {
			return gRandomValue(rand.New(rand.NewSource(seed)), e)
		}
	}
	return nil
}

func tHeaderOK(pk []byte) bool {
	return len(pk) >= 4 && int(binary.BigEndian.Uint32(pk)) == len(pk)
}

func tRunReq(c *tCase) (fs []Failure) {
	defer func() {
		if r := recover(); r != nil {
			c.NoCoq = true
			fs = append(fs, Failure{Sig: "packet/request-pack/panic", Desc: fmt.Sprint(r)})
		}
	}()
	req := tPacketValue(c.Seed, "requestf.RequestPacket").(*requestf.RequestPacket)
	p := &protocol.TarsProtocol{}
	pk, err := p.RequestPack(req)
	if err != nil {
		c.NoCoq = true
		return []Failure{{Sig: "packet/request-pack/error", Desc: err.Error()}}
	}
	c.Bytes = append([]byte(nil), pk...)
	if !tHeaderOK(pk) {
		fs = append(fs, Failure{Sig: "packet/request-pack/header-length", Desc: fmt.Sprintf("header % x over a packet of %d bytes", trunc(pk), len(pk))})
	}
	if n, st := p.ParsePackage(pk); st != protocol.PackageFull || n != len(pk) {
		fs = append(fs, Failure{Sig: "packet/request-pack/not-a-full-package", Desc: fmt.Sprintf("ParsePackage of RequestPack's output: (%d, %d), length %d", n, st, len(pk))})
	}
	back := new(requestf.RequestPacket)
	if len(pk) >= 4 {
		if err := back.ReadFrom(codec.NewReader(pk[4:])); err != nil {
			fs = append(fs, Failure{Sig: "packet/request-pack/roundtrip-decode-fails", Desc: err.Error()})
		} else if !valuesEqual(reflect.ValueOf(req).Elem(), reflect.ValueOf(back).Elem(), nil) {
			fs = append(fs, Failure{Sig: "packet/request-pack/roundtrip-value-differs", Desc: trunc200(dumpVal(reflect.ValueOf(req).Elem())) + " -> " + trunc200(dumpVal(reflect.ValueOf(back).Elem()))})
		}
	}
	c.Val = dumpVal(reflect.ValueOf(back).Elem())
	return fs
}

func tRunSrv(c *tCase) (fs []Failure) {
	defer func() {
		if r := recover(); r != nil {
			c.NoCoq = true
			fs = append(fs, Failure{Sig: "packet/rsp2byte/panic", Desc: fmt.Sprint(r)})
		}
	}()
	rsp := tPacketValue(c.Seed, "requestf.ResponsePacket").(*requestf.ResponsePacket)
	if c.Version != 0 {
		rsp.IVersion = int16(c.Version)
	}
	c.Val = dumpVal(reflect.ValueOf(rsp).Elem())
	pk := tars.VerifRsp2Byte(rsp)
	c.Bytes = append([]byte(nil), pk...)
	if !tHeaderOK(pk) {
		return append(fs, Failure{Sig: "packet/rsp2byte/header-length", Desc: fmt.Sprintf("header % x over a packet of %d bytes", trunc(pk), len(pk))})
	}
	if rsp.IVersion == basef.TUPVERSION {
		back := new(requestf.RequestPacket)
		if err := back.ReadFrom(codec.NewReader(pk[4:])); err != nil {
			return append(fs, Failure{Sig: "packet/rsp2byte/tup-reply-not-a-request-packet", Desc: err.Error()})
		}
		want := &requestf.RequestPacket{IVersion: rsp.IVersion, CPacketType: rsp.CPacketType, IMessageType: rsp.IMessageType, IRequestId: rsp.IRequestId,
			SBuffer: rsp.SBuffer, Context: rsp.Context, Status: rsp.Status}
		if !valuesEqual(reflect.ValueOf(want).Elem(), reflect.ValueOf(back).Elem(), nil) {
			fs = append(fs, Failure{Sig: "packet/rsp2byte/tup-reply-differs", Desc: trunc200(dumpVal(reflect.ValueOf(want).Elem())) + " -> " + trunc200(dumpVal(reflect.ValueOf(back).Elem()))})
		}
		if !bytes.Equal(pk, tars.VerifReq2Byte(rsp)) && len(rsp.Context) < 2 && len(rsp.Status) < 2 {
			fs = append(fs, Failure{Sig: "packet/rsp2byte/tup-reply-not-req2byte", Desc: "rsp2Byte of a TUP reply differs from req2Byte"})
		}
	} else {
		back, err := (&protocol.TarsProtocol{}).ResponseUnpack(pk)
		if err != nil {
			return append(fs, Failure{Sig: "packet/rsp2byte/roundtrip-decode-fails", Desc: err.Error()})
		}
		if !valuesEqual(reflect.ValueOf(rsp).Elem(), reflect.ValueOf(back).Elem(), nil) {
			fs = append(fs, Failure{Sig: "packet/rsp2byte/roundtrip-value-differs", Desc: trunc200(c.Val) + " -> " + trunc200(dumpVal(reflect.ValueOf(back).Elem()))})
		}
	}
	return fs
}

// ---------- Coq rendering ----------

func coqKVs(l []tKV) string {
	s := make([]string, len(l))
	for i, kv := range l {
		s[i] = "(" + hx(kv.K) + ", " + hx(kv.V) + ")"
	}
	return "[" + strings.Join(s, "; ") + "]"
}

func c05tCoq(c *tCase) string {
	if c.NoCoq {
		return ""
	}
	switch c.Kind {
	case "tdec":
		if len(c.Bytes) > 4000 {
			return ""
		}
		ps := make([]string, len(c.Probes))
		for i, p := range c.Probes {
			v := "None"
			if p.Found {
				v = "(Some " + hx(p.V) + ")"
			}
			ps[i] = "(" + hx(p.K) + ", " + v + ")"
		}
		return fmt.Sprintf("TDec %s %s %d %d %s [%s]", coqKVs(c.Prior), hx(c.Bytes), c.St, c.Remaining, coqKVs(c.Final), strings.Join(ps, "; "))
	case "tenc":
		return fmt.Sprintf("TEnc %s %s", coqKVs(c.Set), hx(c.Bytes))
	case "preq":
		return fmt.Sprintf("PReq %s %s", hx(c.Bytes), c.Val)
	case "psrv":
		return fmt.Sprintf("PSrv %s %s", c.Val, hx(c.Bytes))
	case "prsp":
		if c.Obs == "" {
			return ""
		}
		return fmt.Sprintf("PRsp %s (%s)", hx(c.Bytes), c.Obs)
	case "ptmo":
		if c.Obs == "OPanic" {
			return fmt.Sprintf("PTmo %s None", hx(c.Bytes))
		}
		if !strings.HasPrefix(c.Obs, "reply ") {
			return ""
		}
		return fmt.Sprintf("PTmo %s (Some \"%s\"%%hex)", hx(c.Bytes), strings.TrimPrefix(c.Obs, "reply "))
	case "pparse":
		if c.Status < 0 {
			return ""
		}
		return fmt.Sprintf("PParse %s %d %d", hx(c.Bytes), c.N, c.Status)
	}
	return ""
}

func c05tMain(a Args) {
	runProp(Prop[tCase]{
		ID: "C05T", Require: "From TarsV Require Import Base.Hex Codec.GenCodec Codec.Corr Codec.Tup Codec.Packet Codec.TupCorr Gen.Schemas.",
		CaseType: "tcase", Mismatch: "tcase_mismatches",
		Corr: "TupCorr.tcase_check (UniAttribute.Decode: same status, same reader position, same set afterwards incl. prior entries and GetBuffer probes; Encode: bytes = model encoding of the decoded entry order; RequestPack / rsp2Byte: header = length, body decodes to the value and re-encodes byte-exact; ResponseUnpack: same outcome class and value, incl. the slice panic below 4 bytes; ParsePackage: same (length, status))",
		Rule: "attribute sets of 0..8 entries (buffers of 0,1,2,5,20,127..129,255,256,300 bytes; keys empty, non-UTF-8 with NUL, 254..257 bytes, multi-byte), encoded by the implementation, decoded fresh / into non-empty sets with overlapping keys / followed by other bytes; every count and length field replaced by each hostile value (-1, -128, -32768, 2^31-1, 2^30, -2^31, 65536, remaining-1/+0/+1, LONG, wrong tag), map count n+1 / n-1, key lengths 255 / 2^32-1 / 2^31; truncation at every position (<= 160 bytes; sampled above); byte flips; ~45 hand-made encodings around each decision of Decode (ignored `have`, non-canonical two-byte heads, duplicate keys, missing value, tag-0 junk between key and value, mistyped value / element head / length, empty buffer at the end); skip bombs and 100..600 nested heads between key and value; random bytes; random RequestPacket / ResponsePacket values through RequestPack, rsp2Byte (versions 1, 2, 3 = TUP reply as RequestPacket) and framed valid / mutated / truncated / hostile-count / short / random packets through ResponseUnpack; ParsePackage over buffer lengths 0..9 x header values around 4, the buffer length and the limit. Hostile decodes run in child workers (address-space limit, 20 s cap); monitors: no panic, no process death, allocation <= 256 x input + 1 MiB, time, round trip, truncated / inflated input rejected, no made-up entry, header = length; class = (kind, mutation, size bucket)",
		Shard: 120, Gen: c05tGen, RunAll: c05tRunAll, Coq: c05tCoq,
		Class: func(c *tCase) string { return c.Class },
	}, a)
}
