package main

// C19 — the real gpool.Pool (no hooks) run under many configurations; every scenario runs in its own child
// process with a watchdog, records a totally ordered event trace (global atomic sequence number), checks the
// property directly on it (L3) and hands the trace to the Coq specification machine (`accepts`, L2).

import (
	"encoding/json"
	"fmt"
	"math/rand"
	"os"
	"os/exec"
	"runtime"
	"sort"
	"strings"
	"sync"
	"sync/atomic"
	"time"

	"github.com/TarsCloud/TarsGo/tars/util/gpool"
)

const (
	c19KSubCall = 0
	c19KSubRet  = 1
	c19KStart   = 2
	c19KEnd     = 3
	c19KRelCall = 4
	c19KRelRet  = 5
	c19KRead    = 6 // server scenarios: the receive loop has read request j (it hands it to the pool right away)
)

// c19Scenario is one configuration of the pool and of its environment.
type c19Scenario struct {
	W     int    `json:"w"`
	Q     int    `json:"q"`
	Subs  int    `json:"subs"`
	Jobs  int    `json:"jobs"`  // jobs per submitter
	Dur   int    `json:"dur"`   // 0 none, 1 Gosched, 2 50us, 3 2ms, 4 mixed
	Procs int    `json:"procs"` // GOMAXPROCS of the child
	Mode  string `json:"mode"`  // drain | race | saturated | idle | tcp-drain | tcp-saturated | tcp-shutdown | tcp-late-accept | tcp-two-servers | udp-drain | stall | udp-saturated (pool inside a real transport.TarsServer)
	Seed  int64  `json:"seed"`
	W2    int    `json:"w2,omitempty"`      // tcp-two-servers: MaxInvoke of the second server in the process
	Hold  int    `json:"hold_ms,omitempty"` // saturated: how long the started jobs keep running after Release was called (default 25 ms)
}

// c19Case is a scenario plus what was observed (its own replay).
type c19Case struct {
	Sc        c19Scenario `json:"scenario"`
	Trace     [][2]int    `json:"trace"` // (kind, job) in sequence order
	Complete  bool        `json:"complete"`
	HighWater int         `json:"high_water"`
	Note      string      `json:"note"`
	Retries   int         `json:"retries"`
}

type c19ChildOut struct {
	Trace     [][2]int  `json:"trace"`
	Complete  bool      `json:"complete"`
	HighWater int       `json:"high_water"`
	Fails     []Failure `json:"fails"`
	Note      string    `json:"note"`
}

// ---------- child: one scenario ----------

type c19Log struct {
	seq int64
	ev  []int64 // slot i: 1 + kind + 8*job (0 = not yet written)
}

func (l *c19Log) add(kind, job int) {
	i := atomic.AddInt64(&l.seq, 1) - 1
	if int(i) < len(l.ev) {
		atomic.StoreInt64(&l.ev[i], int64(1+kind+8*job))
	}
}

func (l *c19Log) snapshot() [][2]int {
	n := int(atomic.LoadInt64(&l.seq))
	if n > len(l.ev) {
		n = len(l.ev)
	}
	out := make([][2]int, 0, n)
	for i := 0; i < n; i++ {
		v := atomic.LoadInt64(&l.ev[i])
		if v == 0 { // the writer took the number and has not stored yet (only in a snapshot of a hung run)
			break
		}
		v--
		out = append(out, [2]int{int(v % 8), int(v / 8)})
	}
	return out
}

const c19Slack = 10 * time.Second // every wait of a scenario that normally takes micro- to milliseconds

func c19RunScenario(sc c19Scenario) c19ChildOut {
	if strings.HasPrefix(sc.Mode, "tcp-") {
		return c19RunTCP(sc)
	}
	if strings.HasPrefix(sc.Mode, "udp-") {
		return c19RunUDP(sc)
	}
	if sc.Mode == "stall" { // one long job, then 3W short ones
		sc.Subs, sc.Jobs = 1, 1+3*sc.W
	}
	total := sc.Subs * sc.Jobs
	lg := &c19Log{ev: make([]int64, 4*total+64)}
	var out c19ChildOut
	var mu sync.Mutex
	fail := func(sig, desc string) {
		mu.Lock()
		out.Fails = append(out.Fails, Failure{Sig: sig, Desc: desc})
		mu.Unlock()
	}
	var phase atomic.Value
	phase.Store("start")
	var running, high int32
	rng := rand.New(rand.NewSource(sc.Seed))
	durOf := make([]int, total+4) // three more for the late submitter of the race scenarios
	for i := range durOf {
		d := sc.Dur
		if d == 4 {
			d = rng.Intn(4)
		}
		durOf[i] = d
	}
	gate := make(chan struct{})
	gated := sc.Mode == "saturated"
	var ended sync.WaitGroup
	mkJob := func(id int) gpool.Job {
		return func() {
			lg.add(c19KStart, id)
			cur := atomic.AddInt32(&running, 1)
			for {
				h := atomic.LoadInt32(&high)
				if cur <= h || atomic.CompareAndSwapInt32(&high, h, cur) {
					break
				}
			}
			switch durOf[id] {
			case 1:
				runtime.Gosched()
			case 2:
				t0 := time.Now()
				for time.Since(t0) < 50*time.Microsecond {
					runtime.Gosched()
				}
			case 3:
				time.Sleep(2 * time.Millisecond)
			}
			if gated || (sc.Mode == "stall" && id == 1) { // stall: only the first job is long
				<-gate
			}
			atomic.AddInt32(&running, -1)
			lg.add(c19KEnd, id)
			ended.Done()
		}
	}
	done := make(chan struct{})
	go func() {
		defer close(done)
		pool := gpool.NewPool(sc.W, sc.Q)
		if cap(pool.JobQueue) != sc.Q || cap(pool.WorkerQueue) != sc.W {
			fail("C19/queue-capacity", fmt.Sprintf("NewPool(%d, %d) made a JobQueue of capacity %d and a WorkerQueue of capacity %d", sc.W, sc.Q, cap(pool.JobQueue), cap(pool.WorkerQueue)))
		}
		quit := make(chan struct{})
		var subWG sync.WaitGroup
		var submitted int32
		submitter := func(k, n int) {
			defer subWG.Done()
			for i := 0; i < n; i++ {
				id := k*sc.Jobs + i + 1
				job := mkJob(id)
				ended.Add(1)
				lg.add(c19KSubCall, id)
				select {
				case pool.JobQueue <- job:
					lg.add(c19KSubRet, id)
					atomic.AddInt32(&submitted, 1)
				case <-quit:
					ended.Done()
					return
				}
			}
		}
		waitCh := func(ch chan struct{}, what string) bool {
			select {
			case <-ch:
				return true
			case <-time.After(c19Slack):
				fail("C19/hang/"+what, fmt.Sprintf("%s did not happen within %v (W=%d Q=%d mode=%s)", what, c19Slack, sc.W, sc.Q, sc.Mode))
				return false
			}
		}
		release := func() chan struct{} {
			ch := make(chan struct{})
			go func() {
				lg.add(c19KRelCall, 0)
				pool.Release()
				r := atomic.LoadInt32(&running)
				lg.add(c19KRelRet, 0)
				if r != 0 {
					fail("C19/release-returned-while-running", fmt.Sprintf("Release returned while %d job(s) were running (W=%d Q=%d mode=%s)", r, sc.W, sc.Q, sc.Mode))
				}
				close(ch)
			}()
			return ch
		}
		switch sc.Mode {
		case "stall":
			// one long job occupies one of W >= 2 workers; the short jobs submitted afterwards have idle workers and must all finish
			// while the long one is still running (a job handed to the busy worker would wait behind it)
			phase.Store("long-job")
			sc.Subs = 1
			sc.Jobs = 1 + 3*sc.W
			var endedCnt int32
			origMk := mkJob
			mkJob = func(id int) gpool.Job {
				j := origMk(id)
				return func() { j(); atomic.AddInt32(&endedCnt, 1) }
			}
			subWG.Add(1)
			go submitter(0, sc.Jobs) // job 1 is the long one, jobs 2.. are short; the submitter blocks only while the queue is full
			t0 := time.Now()
			for atomic.LoadInt32(&endedCnt) < int32(sc.Jobs-1) && time.Since(t0) < c19Slack {
				time.Sleep(200 * time.Microsecond)
			}
			if e := atomic.LoadInt32(&endedCnt); e < int32(sc.Jobs-1) {
				fail("C19/hang/job-stalls-with-idle-worker", fmt.Sprintf("one long job occupies one of W=%d workers; only %d of the %d short jobs submitted afterwards ran within %v although workers are idle (Q=%d)", sc.W, e, sc.Jobs-1, c19Slack, sc.Q))
				close(gate)
				return
			}
			if r := atomic.LoadInt32(&running); r != 1 {
				fail("C19/long-job-not-running", fmt.Sprintf("the long job should be the only one running, %d are", r))
			}
			close(gate)
			sd := make(chan struct{})
			go func() { subWG.Wait(); close(sd) }()
			if !waitCh(sd, "submit-return") {
				return
			}
			ed := make(chan struct{})
			go func() { ended.Wait(); close(ed) }()
			out.Complete = true
			if !waitCh(ed, "all-jobs-finished") {
				return
			}
			phase.Store("release")
			if !waitCh(release(), "release-return-on-idle-pool") {
				return
			}
		case "drain", "idle":
			// submit everything, wait until every job has finished, release the idle pool
			phase.Store("submit")
			for k := 0; k < sc.Subs; k++ {
				subWG.Add(1)
				go submitter(k, sc.Jobs)
			}
			sd := make(chan struct{})
			go func() { subWG.Wait(); close(sd) }()
			if !waitCh(sd, "submit-return") {
				return
			}
			phase.Store("jobs")
			ed := make(chan struct{})
			go func() { ended.Wait(); close(ed) }()
			out.Complete = true // every send has returned and nothing was released: every job has to run (a time-out here is confirmed three times)
			if !waitCh(ed, "all-jobs-finished") {
				return
			}
			phase.Store("release")
			if !waitCh(release(), "release-return-on-idle-pool") {
				return
			}
		case "race":
			// Release at a random point while submitters and jobs are active
			phase.Store("submit")
			for k := 0; k < sc.Subs; k++ {
				subWG.Add(1)
				go submitter(k, sc.Jobs)
			}
			switch rng.Intn(4) {
			case 0:
			case 1:
				runtime.Gosched()
			case 2:
				time.Sleep(time.Duration(rng.Intn(300)) * time.Microsecond)
			case 3:
				thr := int32(rng.Intn(total/2 + 1))
				t0 := time.Now()
				for atomic.LoadInt32(&submitted) < thr && time.Since(t0) < time.Second {
					runtime.Gosched()
				}
			}
			phase.Store("release")
			lateSubmits := rng.Intn(2) == 0
			lateFor := time.Duration(500+rng.Intn(2500)) * time.Microsecond
			if !waitCh(release(), "release-return") {
				return
			}
			if lateSubmits { // submitters go on sending into the released pool for a while, and a new one arrives: none of these jobs may ever start
				subWG.Add(1)
				go submitter(sc.Subs, 3)
				time.Sleep(lateFor)
			}
			close(quit)
			sd := make(chan struct{})
			go func() { subWG.Wait(); close(sd) }()
			if !waitCh(sd, "submitters-exit") {
				return
			}
		case "saturated":
			// W jobs blocked on a gate, one more in the dispatcher's hand, Q in the queue: all W+1+Q sends must complete;
			// Release is called now and must not return before the gate opens
			phase.Store("submit")
			n := sc.W + 1 + sc.Q
			if sc.Hold > 0 { // exactly the workers: the dispatcher is idle in its select and takes the stop request at once
				n = sc.W
			}
			sc.Jobs = n
			subWG.Add(1)
			go submitter(0, n)
			sd := make(chan struct{})
			go func() { subWG.Wait(); close(sd) }()
			select {
			case <-sd:
			case <-time.After(c19Slack):
				fail("C19/submit-blocked-with-room", fmt.Sprintf("only %d of %d sends returned within %v although W=%d workers + the dispatcher + a queue of Q=%d have room for all of them",
					atomic.LoadInt32(&submitted), n, c19Slack, sc.W, sc.Q))
				close(gate)
				return
			}
			phase.Store("saturate")
			t0 := time.Now()
			for atomic.LoadInt32(&running) < int32(sc.W) && time.Since(t0) < c19Slack {
				time.Sleep(200 * time.Microsecond)
			}
			if r := atomic.LoadInt32(&running); r < int32(sc.W) {
				fail("C19/hang/saturate", fmt.Sprintf("only %d of W=%d workers picked up a job within %v", r, sc.W, c19Slack))
				close(gate)
				return
			}
			time.Sleep(15 * time.Millisecond) // room for a surplus worker to show up
			phase.Store("release")
			hold := 25 * time.Millisecond
			if sc.Hold > 0 { // long jobs: Release has to wait for them however long they run (no internal grace period)
				hold = time.Duration(sc.Hold) * time.Millisecond
			}
			tRel := time.Now()
			rel := release()
			select {
			case <-rel: // already reported by release() through the running counter; make sure it is
				fail("C19/release-returned-while-running", fmt.Sprintf("Release returned while the pool was saturated with blocked jobs, %v into a hold of %v (W=%d Q=%d)", time.Since(tRel).Round(time.Millisecond), hold, sc.W, sc.Q))
			case <-time.After(hold):
			}
			close(gate)
			if !waitCh(rel, "release-return-after-jobs-finished") {
				return
			}
		}
		// Release has returned: every worker and the dispatcher must be gone (they return right after their last hand-shake)
		phase.Store("workers-stopped")
		t1 := time.Now()
		left := c19PoolGoroutines()
		gslack := c19Slack
		mu.Lock()
		if len(out.Fails) > 0 { // already a violation: do not spend the full slack on this one
			gslack = 300 * time.Millisecond
		}
		mu.Unlock()
		for left > 0 && time.Since(t1) < gslack {
			time.Sleep(time.Millisecond)
			left = c19PoolGoroutines()
		}
		if left > 0 {
			fail("C19/hang/worker-not-stopped", fmt.Sprintf("%d goroutine(s) of the pool (workers / dispatcher) still exist %v after Release returned (W=%d Q=%d mode=%s)", left, gslack, sc.W, sc.Q, sc.Mode))
		}
		// anything that starts after Release returned shows up behind release-return in the trace
		phase.Store("settle")
		time.Sleep(3 * time.Millisecond)
		for i := 0; i < 20; i++ {
			runtime.Gosched()
		}
	}()
	select {
	case <-done:
	case <-time.After(4 * c19Slack):
		fail("C19/hang/scenario", fmt.Sprintf("scenario stuck in phase %v", phase.Load()))
	}
	out.Trace = lg.snapshot()
	out.HighWater = int(atomic.LoadInt32(&high))
	out.Note = fmt.Sprint(phase.Load())
	out.Fails = append(out.Fails, c19Monitor(sc, out.Trace, out.Complete, out.HighWater)...)
	if len(out.Trace) > c19MaxCoqTrace { // large configuration: the trace is checked by the monitor only (the validator is quadratic)
		out.Note += fmt.Sprintf("; trace of %d events checked by the monitor only", len(out.Trace))
		out.Trace = nil
	}
	return out
}

const c19MaxCoqTrace = 8000

// c19PoolGoroutines counts the goroutines that are inside the pool's worker loop or its dispatcher.
func c19PoolGoroutines() int {
	buf := make([]byte, 1<<20)
	for {
		n := runtime.Stack(buf, true)
		if n < len(buf) {
			buf = buf[:n]
			break
		}
		buf = make([]byte, 2*len(buf))
	}
	cnt := 0
	for _, g := range strings.Split(string(buf), "\n\n") {
		if strings.Contains(g, "gpool.(*Worker).Start.func1") || strings.Contains(g, "gpool.(*Pool).dispatch") {
			cnt++
		}
	}
	return cnt
}

// c19Monitor checks the property directly on a recorded trace (L3).
func c19Monitor(sc c19Scenario, tr [][2]int, complete bool, high int) []Failure {
	var fs []Failure
	seen := map[string]bool{}
	add := func(sig, desc string) {
		if !seen[sig] {
			seen[sig] = true
			fs = append(fs, Failure{Sig: sig, Desc: desc})
		}
	}
	called := map[int]bool{}
	started := map[int]int{}
	endedN := map[int]int{}
	run := 0
	maxRun := 0
	released := false
	for _, e := range tr {
		k, j := e[0], e[1]
		switch k {
		case c19KSubCall:
			called[j] = true
		case c19KStart:
			if !called[j] {
				add("C19/start-without-submit", fmt.Sprintf("job %d started without having been submitted", j))
			}
			started[j]++
			if started[j] > 1 {
				add("C19/job-started-twice", fmt.Sprintf("job %d started %d times (W=%d Q=%d mode=%s)", j, started[j], sc.W, sc.Q, sc.Mode))
			}
			if released {
				add("C19/start-after-release", fmt.Sprintf("job %d started after Release had returned (W=%d Q=%d mode=%s)", j, sc.W, sc.Q, sc.Mode))
			}
			run++
			if run > maxRun {
				maxRun = run
			}
		case c19KEnd:
			endedN[j]++
			if endedN[j] > started[j] {
				add("C19/end-without-start", fmt.Sprintf("job %d ended more often than it started", j))
			}
			run--
		case c19KRelRet:
			if run != 0 {
				add("C19/release-returned-while-running", fmt.Sprintf("Release returned while %d job(s) were between start and end (W=%d Q=%d mode=%s)", run, sc.W, sc.Q, sc.Mode))
			}
			released = true
		}
	}
	if maxRun > sc.W || high > sc.W {
		h := maxRun
		if high > h {
			h = high
		}
		add("C19/parallelism-exceeded", fmt.Sprintf("%d jobs ran at the same time in a pool of W=%d workers (Q=%d mode=%s)", h, sc.W, sc.Q, sc.Mode))
	}
	if complete {
		miss := 0
		first := 0
		for j := range called {
			if started[j] != 1 || endedN[j] != 1 {
				miss++
				if first == 0 || j < first {
					first = j
				}
			}
		}
		if miss > 0 {
			add("C19/job-not-run-exactly-once", fmt.Sprintf("%d submitted job(s) did not run exactly once before Release on a drained pool (first: job %d ran %d times; W=%d Q=%d)", miss, first, started[first], sc.W, sc.Q))
		}
	}
	return fs
}

func c19WorkerMain() {
	var sc c19Scenario
	if err := json.NewDecoder(os.Stdin).Decode(&sc); err != nil {
		fatal("c19-worker: %v", err)
	}
	if sc.Procs > 0 {
		runtime.GOMAXPROCS(sc.Procs)
	}
	out := c19RunScenario(sc)
	b, _ := json.Marshal(out)
	os.Stdout.Write([]byte("\n" + c19Marker))
	os.Stdout.Write(b)
}

// the child's result follows this marker on stdout (anything the framework logs before it is ignored)
const c19Marker = "C19RESULT "

// ---------- parent ----------

func c19Child(sc c19Scenario) (c19ChildOut, string) {
	cmd := exec.Command(os.Args[0], "c19-worker")
	b, _ := json.Marshal(sc)
	cmd.Stdin = strings.NewReader(string(b))
	cmd.Env = append(os.Environ(), fmt.Sprintf("GOMAXPROCS=%d", sc.Procs), "GOTRACEBACK=single")
	var so, se strings.Builder
	cmd.Stdout = &so
	cmd.Stderr = &capWriter{sb: &se}
	if err := cmd.Start(); err != nil {
		return c19ChildOut{}, "start: " + err.Error()
	}
	ch := make(chan error, 1)
	go func() { ch <- cmd.Wait() }()
	select {
	case err := <-ch:
		if err != nil {
			return c19ChildOut{}, "child failed: " + err.Error() + ": " + se.String()
		}
	case <-time.After(6 * c19Slack):
		cmd.Process.Kill()
		<-ch
		return c19ChildOut{}, "child killed after timeout"
	}
	var out c19ChildOut
	txt := so.String()
	if i := strings.LastIndex(txt, c19Marker); i >= 0 {
		txt = txt[i+len(c19Marker):]
	}
	if err := json.Unmarshal([]byte(txt), &out); err != nil {
		return c19ChildOut{}, "child output: " + err.Error()
	}
	return out, ""
}

var c19ConfirmedHangs int32

func c19IsTiming(sig string) bool {
	if sig == "C19/hang/job-stalls-with-idle-worker" {
		return true
	}
	return strings.HasPrefix(sig, "C19/hang/") || sig == "C19/submit-blocked-with-room" || sig == "C19/child"
}

// c19Run runs one scenario; a failure that depends on a time limit counts only when it reproduces three times in a row.
func c19Run(c *c19Case) []Failure {
	if atomic.LoadInt32(&c19ConfirmedHangs) >= 3 {
		c.Note = "not run: three scenarios already hang reproducibly (the verdict is a violation anyway)"
		return nil
	}
	for attempt := 0; ; attempt++ {
		out, cerr := c19Child(c.Sc)
		if cerr != "" {
			out.Fails = append(out.Fails, Failure{Sig: "C19/child", Desc: cerr})
		}
		timing := false
		for _, f := range out.Fails {
			if c19IsTiming(f.Sig) {
				timing = true
			}
		}
		functional := false
		for _, f := range out.Fails {
			if !c19IsTiming(f.Sig) {
				functional = true
			}
		}
		if timing && !functional && attempt < 2 {
			c.Retries++
			continue
		}
		c.Trace, c.Complete, c.HighWater, c.Note = out.Trace, out.Complete, out.HighWater, out.Note
		if timing {
			atomic.AddInt32(&c19ConfirmedHangs, 1)
		}
		return out.Fails
	}
}

func c19Gen(tier string, rng *rand.Rand) []c19Case {
	var cs []c19Case
	ws := []int{1, 2, 3, 8, 64}
	qs := []int{0, 1, 2, 16, 1000}
	procs := []int{1, 2, 16}
	modes := []string{"drain", "race", "saturated", "idle"}
	mk := func(w, q int, mode string) c19Case {
		sc := c19Scenario{W: w, Q: q, Mode: mode, Seed: rng.Int63(), Procs: procs[rng.Intn(3)], Dur: rng.Intn(5)}
		sc.Subs = 1 + rng.Intn(16)
		switch mode {
		case "udp-drain", "udp-saturated":
			sc.Subs = 1 + rng.Intn(3)
			sc.Jobs = (20+rng.Intn(40))/sc.Subs + 1
		case "tcp-shutdown":
			sc.Subs = 1 + rng.Intn(3) // connections with queued requests (besides the one that occupies the workers)
			sc.Jobs = 5 + rng.Intn(8)
			sc.Dur = rng.Intn(3)
		case "tcp-drain", "tcp-saturated":
			sc.Subs = 1 + rng.Intn(4)
			sc.Jobs = (30+rng.Intn(60))/sc.Subs + 1
		case "idle":
			sc.Subs = 1 + rng.Intn(2)
			sc.Jobs = rng.Intn(3)
		case "saturated":
			sc.Subs = 1
			sc.Dur = rng.Intn(3)
			sc.Jobs = w + 1 + q
		default:
			budget := 40 + rng.Intn(120)
			if sc.Dur >= 3 { // 2 ms jobs: keep the scenario short
				budget = 4*w + 8
				if budget > 80 {
					budget = 80
				}
			}
			sc.Jobs = budget/sc.Subs + 1
		}
		return c19Case{Sc: sc}
	}
	for _, w := range ws {
		for _, q := range qs {
			for _, m := range modes {
				if m == "saturated" && q == 1000 && tier == "quick" && w != 2 {
					continue // 1000 queued jobs: one configuration is enough in the quick tier
				}
				cs = append(cs, mk(w, q, m))
			}
		}
	}
	// the pool inside a real TCP server
	tws, tqs := []int{1, 2, 8}, []int{0, 2, 16}
	for _, w := range tws {
		for _, q := range tqs {
			cs = append(cs, mk(w, q, "tcp-drain"))
			if tier == "thorough" || q != 2 {
				cs = append(cs, mk(w, q, "tcp-saturated"))
			}
		}
	}
	if tier == "thorough" { // the sizes of the repository's own TestNewPool and beyond the grid; monitor only
		for _, b := range [][4]int{{1000, 10000, 8, 5000}, {1000, 10000, 16, 1500}, {256, 0, 32, 600}, {3, 5000, 4, 4000}, {5000, 100, 4, 5000}} {
			for _, m := range []string{"drain", "race"} {
				cs = append(cs, c19Case{Sc: c19Scenario{W: b[0], Q: b[1], Subs: b[2], Jobs: b[3], Dur: []int{0, 1, 4}[rng.Intn(3)], Procs: procs[rng.Intn(3)], Mode: m, Seed: rng.Int63()}})
			}
		}
	}
	// one long job and short jobs behind it: idle workers must take them (W >= 2)
	for _, w := range []int{2, 2, 3, 8} {
		cs = append(cs, c19Case{Sc: c19Scenario{W: w, Q: []int{0, 1, 2, 16}[rng.Intn(4)], Subs: 1, Dur: rng.Intn(3), Procs: procs[rng.Intn(3)], Mode: "stall", Seed: rng.Int63()}})
	}
	// two pooled TCP servers in one process with different MaxInvoke: bound per server; one shut down, the other goes on
	for _, p := range [][2]int{{3, 1}, {1, 2}} {
		cs = append(cs, c19Case{Sc: c19Scenario{W: p[0], W2: p[1], Q: rng.Intn(3), Subs: 1, Dur: rng.Intn(3), Procs: procs[rng.Intn(3)], Mode: "tcp-two-servers", Seed: rng.Int63()}})
	}
	if tier == "thorough" {
		for i := 0; i < 12; i++ {
			cs = append(cs, c19Case{Sc: c19Scenario{W: 1 + rng.Intn(4), W2: 1 + rng.Intn(4), Q: rng.Intn(4), Subs: 1, Dur: rng.Intn(3), Procs: procs[rng.Intn(3)], Mode: "tcp-two-servers", Seed: rng.Int63()}})
			cs = append(cs, c19Case{Sc: c19Scenario{W: 2 + rng.Intn(7), Q: []int{0, 1, 2, 16}[rng.Intn(4)], Subs: 1, Dur: rng.Intn(3), Procs: procs[rng.Intn(3)], Mode: "stall", Seed: rng.Int63()}})
		}
	}
	// long jobs: Release is called while jobs that run for seconds occupy the workers
	cs = append(cs, c19Case{Sc: c19Scenario{W: 2, Q: 1, Subs: 1, Jobs: 4, Dur: 0, Procs: procs[rng.Intn(3)], Mode: "saturated", Seed: rng.Int63(), Hold: 2600}})
	if tier == "thorough" {
		for _, h := range []int{4000, 6500, 11000} {
			cs = append(cs, c19Case{Sc: c19Scenario{W: 1 + rng.Intn(3), Q: rng.Intn(3), Subs: 1, Dur: 0, Procs: procs[rng.Intn(3)], Mode: "saturated", Seed: rng.Int63(), Hold: h}})
		}
	}
	// a connection accepted at the very moment of shutdown (pooled TCP server), one P and several
	for _, p := range []int{1, 1, 2} {
		cs = append(cs, c19Case{Sc: c19Scenario{W: 1, Q: 1 + rng.Intn(4), Subs: 1, Jobs: 1 + rng.Intn(3), Dur: rng.Intn(3), Procs: p, Mode: "tcp-late-accept", Seed: rng.Int63()}})
	}
	if tier == "thorough" {
		for i := 0; i < 24; i++ {
			cs = append(cs, c19Case{Sc: c19Scenario{W: 1 + rng.Intn(2), Q: rng.Intn(5), Subs: 1, Jobs: 1 + rng.Intn(3), Dur: rng.Intn(3), Procs: []int{1, 1, 2, 16}[i%4], Mode: "tcp-late-accept", Seed: rng.Int63()}})
		}
	}
	// graceful shutdown of a loaded TCP server: requests of other connections wait in the pool while Shutdown is called
	for _, w := range []int{1, 2} {
		cs = append(cs, mk(w, 0, "tcp-shutdown"), mk(w, 0, "tcp-shutdown"))
	}
	if tier == "thorough" {
		for i := 0; i < 12; i++ {
			cs = append(cs, mk([]int{1, 1, 2, 4}[i%4], 0, "tcp-shutdown"))
		}
	}
	// the pool behind the UDP handler: MaxInvoke in {1,2,4}, small queues, bursts larger than W+1+Q
	for _, w := range []int{1, 2, 4} {
		for _, q := range []int{0, 1, 3} {
			cs = append(cs, mk(w, q, "udp-saturated"))
			if tier == "thorough" || q != 1 {
				cs = append(cs, mk(w, q, "udp-drain"))
			}
		}
	}
	extra := 200
	if tier == "thorough" {
		extra = 4000
	}
	for i := 0; i < extra; i++ {
		if i%16 == 15 {
			cs = append(cs, mk(ws[rng.Intn(5)], qs[rng.Intn(4)], []string{"tcp-drain", "tcp-saturated"}[rng.Intn(2)]))
			continue
		}
		if i%16 == 7 {
			cs = append(cs, mk([]int{1, 2, 4, 8}[rng.Intn(4)], []int{0, 1, 3, 8}[rng.Intn(4)], []string{"udp-drain", "udp-saturated"}[rng.Intn(2)]))
			continue
		}
		cs = append(cs, mk(ws[rng.Intn(5)], qs[rng.Intn(5)], modes[rng.Intn(3)]))
	}
	return cs
}

func c19Coq(c *c19Case) string {
	if len(c.Trace) == 0 {
		return ""
	}
	var sb strings.Builder
	for _, e := range c.Trace {
		fmt.Fprintf(&sb, "%02x%04x", e[0], e[1]&0xffff)
	}
	// FIFO check (one worker: start order = hand-over order = send order); cubic in the number of jobs, so short traces only
	calls := 0
	for _, e := range c.Trace {
		if e[0] == c19KSubCall {
			calls++
		}
	}
	fifo := c.Sc.W == 1 && calls <= 200
	w := c.Sc.W
	if c.Sc.Mode == "tcp-two-servers" { // one trace of two pools: together at most W + W2 handlers run
		w += c.Sc.W2
	}
	server := strings.HasPrefix(c.Sc.Mode, "tcp-") // carries "request read" events: also validated against the model of the pool's use
	return fmt.Sprintf("mkcase %d %s %s %s (unhex \"%s\"%%hex)", w, coqBool(c.Complete), coqBool(fifo), coqBool(server), sb.String())
}

func init() {
	props["c19-worker"] = func(a Args) { c19WorkerMain() }
	props["C19"] = func(a Args) {
		runProp(Prop[c19Case]{
			ID:       "C19",
			Require:  "From TarsV Require Import Base.Hex Conc.Gpool Conc.C19Case.",
			CaseType: "tcase",
			Mismatch: "c19_mismatch",
			Corr:     "Gpool.accepts / accepts_complete (specification machine of the pool) on the recorded event trace; with one worker also Gpool.fifo1_ok (start order respects send order); for the TCP server scenarios also PoolUse.puse_ok (read / start / end / Handle returned)",
			Rule:     "distinct (W, Q, mode, job duration class, GOMAXPROCS, submitters bucket) configurations whose trace contains at least one job start and a Release",
			Shard:    12,
			Gen:      c19Gen,
			RunAll: func(cs []c19Case) [][]Failure {
				fails := make([][]Failure, len(cs))
				var wg sync.WaitGroup
				ch := make(chan int)
				for k := 0; k < 4; k++ {
					wg.Add(1)
					go func() {
						defer wg.Done()
						for i := range ch {
							fails[i] = c19Run(&cs[i])
						}
					}()
				}
				for i := range cs {
					ch <- i
				}
				close(ch)
				wg.Wait()
				return fails
			},
			Run: c19Run,
			Coq: c19Coq,
			Class: func(c *c19Case) string {
				st := false
				for _, e := range c.Trace {
					if e[0] == c19KStart {
						st = true
					}
				}
				if !st && c.Sc.Mode != "idle" {
					return ""
				}
				return fmt.Sprintf("W%d/Q%d/%s/d%d/p%d/s%d", c.Sc.W, c.Sc.Q, c.Sc.Mode, c.Sc.Dur, c.Sc.Procs, c.Sc.Subs/4)
			},
			Extra: func(tier string, rng *rand.Rand, res *Result) {
				res.Traces = len(res.Cases)
				// what the recorded traces exercise (distribution of the correspondence inputs)
				modes, ws, qs, shapes := map[string]int{}, map[string]int{}, map[string]int{}, map[string]int{}
				for _, raw := range res.Cases {
					var c c19Case
					if json.Unmarshal(raw, &c) != nil {
						continue
					}
					modes[c.Sc.Mode]++
					ws[fmt.Sprintf("W%d", c.Sc.W)]++
					qs[fmt.Sprintf("Q%d", c.Sc.Q)]++
					calls, starts, relCall, relRet := 0, 0, -1, -1
					startsAfterRelCall, callsAfterRelCall, callsAfterRelRet := 0, 0, 0
					for i, e := range c.Trace {
						switch e[0] {
						case c19KSubCall:
							calls++
							if relCall >= 0 {
								callsAfterRelCall++
							}
							if relRet >= 0 {
								callsAfterRelRet++
							}
						case c19KStart:
							starts++
							if relCall >= 0 {
								startsAfterRelCall++
							}
						case c19KRelCall:
							relCall = i
						case c19KRelRet:
							relRet = i
						}
					}
					if c.Sc.Mode == "race" {
						switch {
						case starts == 0:
							shapes["race: released before any job started"]++
						case starts < calls:
							shapes["race: released with submitted jobs never started"]++
						default:
							shapes["race: every called job started"]++
						}
						if startsAfterRelCall > 0 {
							shapes["race: jobs started between release-call and release-return"]++
						}
						if callsAfterRelCall > 0 {
							shapes["race: submit calls after release-call"]++
						}
						if callsAfterRelRet > 0 {
							shapes["race: submit calls after release-return"]++
						}
					}
					if c.Sc.Q == 0 && starts > 0 {
						shapes["Q=0: every send a hand-over to the dispatcher"]++
					}
				}
				res.Stats["traces_by_mode"] = modes
				res.Stats["traces_by_W"] = ws
				res.Stats["traces_by_Q"] = qs
				res.Stats["trace_shapes"] = shapes
			},
		}, a)
	}
}

var _ = sort.Ints
