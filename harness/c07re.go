package main

// C07, connections of one client in sequence: what a receive loop has buffered belongs to ITS connection. A real
// transport.TarsClient talks to a scripted TCP server: connection k delivers some complete packets and possibly a
// proper prefix of another one and is then closed by the server; the next Send re-dials; every connection's complete
// packets must be delivered exactly as sent and nothing else (no bytes carried over from a lost connection).

import (
	"bytes"
	"fmt"
	"math/rand"
	"net"
	"sync"
	"time"

	"github.com/TarsCloud/TarsGo/tars/protocol"
	"github.com/TarsCloud/TarsGo/tars/transport"
)

type c07ReCase struct {
	Kind  string `json:"kind"`
	Conns []struct {
		Packets []B `json:"packets"`
		Tail    B   `json:"tail"`
	} `json:"conns"`
}

func c07ReRun(c *c07ReCase) (string, bool) {
	l, err := net.Listen("tcp", "127.0.0.1:0")
	if err != nil {
		return "", true // environment, not judged
	}
	defer l.Close()
	idx := 0
	var mu sync.Mutex
	served := make(chan int, 16)
	go func() {
		for {
			conn, err := l.Accept()
			if err != nil {
				return
			}
			mu.Lock()
			k := idx
			idx++
			mu.Unlock()
			go func(conn net.Conn, k int) {
				defer conn.Close()
				buf := make([]byte, 64)
				conn.SetReadDeadline(time.Now().Add(2 * time.Second))
				conn.Read(buf) // the request that made the client dial
				if k < len(c.Conns) {
					var out []byte
					for _, p := range c.Conns[k].Packets {
						out = append(out, p...)
					}
					out = append(out, c.Conns[k].Tail...)
					conn.Write(out)
				}
				time.Sleep(30 * time.Millisecond)
				served <- k
			}(conn, k)
		}
	}()
	rec := &recProto{client: true}
	tc := transport.NewTarsClient(l.Addr().String(), rec, &transport.TarsClientConf{Proto: "tcp", QueueLen: 10, IdleTimeout: time.Hour, ReadTimeout: 200 * time.Millisecond, WriteTimeout: time.Second, DialTimeout: time.Second})
	var want [][]byte
	for k := range c.Conns {
		// wait until the client has noticed that the previous connection is gone, then send (which re-dials)
		deadline := time.Now().Add(3 * time.Second)
		for k > 0 && time.Now().Before(deadline) {
			if closed, _, _, _ := transport.VerifClientState(tc); closed {
				break
			}
			time.Sleep(5 * time.Millisecond)
		}
		if err := tc.Send([]byte{0, 0, 0, 8, 'r', 'e', 'q', byte(k)}); err != nil {
			return "", true
		}
		select {
		case <-served:
		case <-time.After(3 * time.Second):
			return "", true
		}
		for _, p := range c.Conns[k].Packets {
			want = append(want, p)
		}
	}
	// all deliveries happen in goroutines: wait until the count is stable
	for i := 0; i < 200; i++ {
		rec.mu.Lock()
		n := len(rec.pkgs)
		rec.mu.Unlock()
		if n >= len(want) {
			break
		}
		time.Sleep(5 * time.Millisecond)
	}
	time.Sleep(30 * time.Millisecond)
	tc.Close()
	rec.mu.Lock()
	got := append([][]byte(nil), rec.pkgs...)
	rec.mu.Unlock()
	// multiset comparison (per-packet goroutines)
	used := make([]bool, len(got))
	for _, w := range want {
		found := false
		for j, g := range got {
			if !used[j] && bytes.Equal(g, w) {
				used[j], found = true, true
				break
			}
		}
		if !found {
			return fmt.Sprintf("packet %s sent complete on one of the connections was not delivered (delivered %d packets, expected %d)", hexOf(trunc(w)), len(got), len(want)), false
		}
	}
	for j, g := range got {
		if !used[j] {
			return fmt.Sprintf("delivered %s which no connection sent as a packet (bytes carried over from a lost connection?)", hexOf(trunc(g))), false
		}
	}
	return "", false
}

func c07Reconnect(tier string, rng *rand.Rand, res *Result) {
	n := 8
	if tier == "thorough" {
		n = 80
	}
	protocol.SetMaxPackageLength(10485760)
	skipped := 0
	for i := 0; i < n; i++ {
		var c c07ReCase
		c.Kind = "client-reconnect"
		nc := 2 + rng.Intn(2)
		for k := 0; k < nc; k++ {
			var cn struct {
				Packets []B `json:"packets"`
				Tail    B   `json:"tail"`
			}
			for j := 0; j < rng.Intn(3); j++ {
				cn.Packets = append(cn.Packets, mkPacket(rng, 8+rng.Intn(40), 100*k+j))
			}
			if k < nc-1 || rng.Intn(2) == 0 { // a lost connection usually dies inside a packet
				p := mkPacket(rng, 12+rng.Intn(30), 900+k)
				cn.Tail = p[:1+rng.Intn(len(p)-1)]
			}
			if k == nc-1 && len(cn.Packets) == 0 {
				cn.Packets = append(cn.Packets, mkPacket(rng, 16, 100*k))
			}
			c.Conns = append(c.Conns, cn)
		}
		msg, env := c07ReRun(&c)
		if env {
			skipped++
			continue
		}
		res.Evaluations++
		if msg != "" {
			res.Failures = append(res.Failures, Failure{Sig: "framing/client-reconnect/delivered-differs", Desc: msg, Replay: c})
		}
	}
	res.Stats["client_reconnect_cases_skipped_env"] = skipped
}
