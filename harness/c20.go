package main

// C20 — rogger: FlushLogger writes every entry logged before it, once and in order.
//
// Every scenario runs in a fresh child process (the flusher goroutine is process-global and returns after
// one flush). The child drives the real logger through its public API with recording LogWriters and records
// a totally ordered event trace (atomic sequence numbers):
//   0 call  g n w   a logging call of goroutine g (its n-th entry, addressed to writer w) begins
//   1 ret   g n w   that call has returned
//   2 write g n w   writer w received one Write whose buffer is exactly that entry
//   3 FlushLogger called      4 FlushLogger returned, flusher had acknowledged      5 returned on its timer
// L3: the monitor c20Monitor checks the property on the trace (complete at flush return, once, FIFO /
// per-goroutine order, one whole entry per Write, right writer). L2: the trace must be accepted by the
// specification machine Flush.accepts of the Coq model.
//
// Modes: forced  — the flusher is held at the verif yield point between its two selects while the last entries
//                  are logged and the flush is requested, then released: both select cases are ready;
//        stress  — goroutines log concurrently, FlushLogger is called at a random moment;
//        late    — all logging calls have returned, slow writer, the queue is occupied when the flush is requested;
//        fullq   — the writer is blocked until the queue is full and senders block; then released, then flush;
//        quiesce — no flush: everything logged is written by the background flusher;
//        panic   — entries are logged, then the goroutine panics under tars.CheckPanic (flush, os.Exit); in half of them
//                  the stack dump file cannot be created (argv[0] under /proc/self) and a slow writer keeps entries pending;
//                  in a third of them 2-4 guarded goroutines panic 0..25 ms apart while a backlog is being flushed;
//        sizes   — like late, with entries of exactly 1, 4095..4097, 65535..65537, 200 KiB and 1 MiB bytes (more in thorough)
//                  through every logging entry point (Debugf/Info/Warnf/Error/Infof/WriteLog/Trace, text and JSON): one entry =
//                  exactly one Write call with exactly its bytes; other modes also draw about 1 in 8 entries above 64 KiB
//                  when their padding limit is 70000;
//        levels  — the first Write is blocked; in 2-4 phases the global level is set (DEBUG..OFF, raised and lowered) and every
//                  goroutine calls all seven entry points; the level is set once more, then the flush: what passed the level
//                  filter at call time (and every WriteLog / Trace) must be written once and in order, what was filtered never;
//        rawonly — like late, but only WriteLog / Trace calls precede the flush;
//        swap    — entries are queued behind a blocked writer, every logger gets a new writer (SetWriter), more entries are
//                  logged, then the flush: each entry must reach the writer installed when its logging call was made;
//        invoke  — the real tars Protocol.Invoke with a dispatcher whose method logs through a slow writer and panics:
//                  the framework's own `defer CheckPanic()`; entries in the log, exit status 255;
//        clientcall — ServantProxy.TarsInvoke with a registered client filter that logs and panics (the client-side guard);
//                  all three exit modes range over the kind of the panic value (c20PanicKinds: runtime errors, string,
//                  error values, int, struct, pointer, Stringer, panic(nil), slice, float), every kind at every place;
//        lifecycle — entries are logged (slow writer), then the application's own tars.Run() ends the process: its one-time
//                  initialisation panics (log path below a regular file, server / adapter / client / per-object TLS files
//                  that cannot be loaded: before and after the logger set-up) and the panic unwinds through Run, or Run
//                  returns (unparsable configuration then SIGTERM, a listener on an occupied port, complete
//                  configuration then SIGTERM);
//        runexit — entries are logged while tars.Run is running; SIGTERM; Run returns through its deferred FlushLogger;
//        second  — flush, log again, flush again (FlushLogger is one-shot in the code: known finding).

import (
	"bufio"
	"context"
	"encoding/binary"
	"encoding/json"
	"errors"
	"fmt"
	"math/rand"
	"net"
	"os"
	"os/exec"
	"os/signal"
	"syscall"
	"path/filepath"
	"regexp"
	"runtime"
	"sort"
	"strconv"
	"strings"
	"sync"
	"sync/atomic"
	"time"

	"github.com/TarsCloud/TarsGo/tars"
	"github.com/TarsCloud/TarsGo/tars/protocol/codec"
	"github.com/TarsCloud/TarsGo/tars/protocol/res/requestf"
	"github.com/TarsCloud/TarsGo/tars/util/rogger"
)

const (
	c20KCall = iota
	c20KRet
	c20KWrite
	c20KFlushCall
	c20KFlushRetDone
	c20KFlushRetTimer
	c20KFlush2Call     // a second FlushLogger call (mode second)
	c20KFlush2RetDone
	c20KFlush2RetTimer
	c20BadG = 999999 // goroutine id of a Write whose buffer is not one whole expected entry
)

type c20Scenario struct {
	Mode  string `json:"mode"`
	G     int    `json:"g"`     // logging goroutines
	N     int    `json:"n"`     // entries per goroutine (before the window / before the flush)
	Last  int    `json:"last"`  // forced: goroutines that log one more entry inside the window; stress: percentage of calls returned before the flush
	LastN int    `json:"lastn"` // forced: entries per such goroutine
	W     int    `json:"w"`     // loggers, each with its own recording writer
	Delay int    `json:"delay"` // writer delay per Write, microseconds
	JSON  bool   `json:"json"`
	Procs int    `json:"procs"`
	Seed  int64  `json:"seed"`
	Pad   int    `json:"pad"` // maximal padding of an entry, bytes
	Dir   string `json:"dir,omitempty"`
	// panic mode: the child runs with an argv[0] under /proc/self, so debug.DumpStack cannot create its file
	// "panic.<time>" next to the binary (as with a read-only or full installation directory)
	NoDump bool `json:"nodump,omitempty"`
	// panic mode: Panics >= 2 goroutines under `defer tars.CheckPanic()` panic GapMs milliseconds apart
	Panics int `json:"panics,omitempty"`
	GapMs  int `json:"gap_ms,omitempty"`
	// only WriteLog / Trace calls (the paths that do not go through Writef)
	Raw bool `json:"raw,omitempty"`
	// exit-through-CheckPanic modes: what is panicked with (index into c20PanicKinds), and for mode invoke whether the
	// panic happens in a registered pre server filter instead of the dispatcher's method
	// mode lifecycle: how the application's own tars.Run() ends (index into c20LifeKinds)
	Life     int  `json:"life,omitempty"`
	// Callers >= 2: that many goroutines call FlushLogger concurrently (modes forced, stress, late, rawonly)
	Callers  int  `json:"callers,omitempty"`
	// mode sizes: the payload of entry n has exactly Sizes[n % len(Sizes)] bytes and goes through entry point (n/len(Sizes)+g) % 7
	Sizes    []int `json:"sizes,omitempty"`
	// mode levels: the global level of each phase (0 DEBUG .. 4 OFF) and the level set just before the flush
	Levels   []int `json:"levels,omitempty"`
	Final    int   `json:"final,omitempty"`
	Kind     int  `json:"kind,omitempty"`
	InFilter bool `json:"in_filter,omitempty"`
}

type c20ChildOut struct {
	Events    [][4]int `json:"events"` // kind, g, n, w in stamp order
	Content   []string `json:"content"`
	QLen      int      `json:"qlen"` // queue length when FlushLogger was called
	FlushMs   float64  `json:"flush_ms"`
	TimeoutMs float64  `json:"timeout_ms"`
	Exit      int      `json:"exit"` // exit-through-CheckPanic modes: exit status of the child
	Hook      string   `json:"hook"` // non-empty: the forced interleaving could not be set up
	Note      string   `json:"note"`
}

type c20Case struct {
	Sc      c20Scenario `json:"scenario"`
	Expect  bool        `json:"expect"` // verdict expected from the model (false: self-test, a Write deleted from a recorded trace)
	Events  [][4]int    `json:"events"`
	QLen    int         `json:"qlen"`
	FlushMs float64     `json:"flush_ms"`
	Retries int         `json:"retries"`
	WallMs  float64     `json:"wall_ms"`
	Note    string      `json:"note,omitempty"`
	NoCoq   bool        `json:"no_coq,omitempty"`
	SelfOf  int         `json:"self_of,omitempty"` // > 0: self-test derived from case SelfOf-1 by deleting a required Write
}

// ---------- child ----------

var c20seq int64

type c20Rec struct {
	stamp int64
	ev    [4]int
}

type c20Writer struct {
	id     int
	prefix bool
	delay  time.Duration
	gate   chan struct{} // non-nil: the first Write blocks until it is closed
	gated  *int32
	sc     *c20Scenario
	mu     sync.Mutex
	recs   []c20Rec
	bad    []string
	file   *os.File
}

func (w *c20Writer) NeedPrefix() bool { return w.prefix }

func (w *c20Writer) Write(v []byte) {
	if w.gate != nil && atomic.CompareAndSwapInt32(w.gated, 0, 1) {
		<-w.gate
	}
	g, n, msg := c20Parse(w.sc, w, v)
	st := atomic.AddInt64(&c20seq, 1)
	w.mu.Lock()
	w.recs = append(w.recs, c20Rec{st, [4]int{c20KWrite, g, n, w.id}})
	if msg != "" && len(w.bad) < 5 {
		w.bad = append(w.bad, msg)
	}
	w.mu.Unlock()
	if w.file != nil {
		fmt.Fprintf(w.file, "%d %d %d %d %d\n", st, c20KWrite, g, n, w.id)
	}
	if w.delay > 0 {
		time.Sleep(w.delay)
	}
}

// deterministic shape of entry (g, n): which writer, which API, which padding
func c20Shape(sc *c20Scenario, g, n int) (w, api int, pad string) {
	h := uint64(sc.Seed)*0x9E3779B97F4A7C15 + uint64(g)*0xBF58476D1CE4E5B9 + uint64(n)*0x94D049BB133111EB
	h ^= h >> 29
	h *= 0xBF58476D1CE4E5B9
	h ^= h >> 32
	w = int(h % uint64(sc.W))
	api = int((h >> 8) % 7)
	if sc.Raw {
		api = 5 + int((h>>8)%2)
	}
	pl := 0
	if sc.Pad > 0 {
		pl = int((h >> 16) % uint64(sc.Pad+1))
		if (h>>40)%16 == 0 {
			pl = sc.Pad
		}
	}
	if sc.Mode == "levels" {
		if v, ok := c20ApiOf.Load(c20Key{g, n}); ok {
			api = v.(int)
		}
	}
	if k := len(sc.Sizes); k > 0 { // exact payload sizes, every entry point in turn
		api = (n/k + g) % 7
		pl = sc.Sizes[n%k] - len(fmt.Sprintf("c20|%d|%d|%d||end", g, n, w))
		if pl < 0 {
			pl = 0
		}
	}
	b := make([]byte, pl)
	if pl <= 4096 {
		for i := range b {
			b[i] = byte('a' + (h>>uint(i%48)+uint64(i))%26)
		}
	} else { // large entries: a 61-byte pattern (61 is prime: no power-of-two boundary falls on a period) repeated by doubling copies
		for i := 0; i < 61; i++ {
			b[i] = byte('a' + (h>>uint(i%48)+uint64(i))%26)
		}
		for k := 61; k < pl; k *= 2 {
			copy(b[k:], b[:k])
		}
	}
	return w, api, string(b)
}

func c20Payload(sc *c20Scenario, g, n int) string {
	w, _, pad := c20Shape(sc, g, n)
	return fmt.Sprintf("c20|%d|%d|%d|%s|end", g, n, w, pad)
}

var c20TextPrefix = regexp.MustCompile(`^\d{4}-\d\d-\d\d \d\d:\d\d:\d\d\.\d{3}\|(pfx\d+\|)?[^|\n]+:[^|\n]+:\d+\|(DEBUG|INFO|WARN|ERROR)\|$`)
var c20TracePrefix = regexp.MustCompile(`^\d{4}-\d\d-\d\d \d\d:\d\d:\d\d\|$`)

// c20Parse maps the buffer of one Write to the entry it is; msg != "" when it is not exactly one whole entry
func c20Parse(sc *c20Scenario, w *c20Writer, v []byte) (g, n int, msg string) {
	s := string(v)
	if strings.Contains(s, "c20f|") {
		return c20BadG, 0, fmt.Sprintf("FILTERED: writer %d received an entry whose logging call was below the level at the time of the call: %.100q", w.id, s)
	}
	i := strings.Index(s, "c20|")
	if i < 0 {
		return c20BadG, 0, fmt.Sprintf("writer %d received a buffer that contains no entry: %.80q", w.id, s)
	}
	f := strings.SplitN(s[i:], "|", 5)
	if len(f) < 5 {
		return c20BadG, 0, fmt.Sprintf("writer %d received a truncated entry: %.80q", w.id, s)
	}
	g, e1 := strconv.Atoi(f[1])
	n, e2 := strconv.Atoi(f[2])
	if e1 != nil || e2 != nil || g < 0 || n < 0 || g >= c20BadG {
		return c20BadG, 0, fmt.Sprintf("writer %d received an unparsable entry: %.80q", w.id, s)
	}
	payload := c20Payload(sc, g, n)
	_, api, _ := c20Shape(sc, g, n)
	ok := false
	switch {
	case api == 5: // WriteLog: raw
		ok = s == payload
	case api == 6: // Trace
		if w.prefix {
			ok = len(s) > len(payload)+1 && strings.HasSuffix(s, payload+"\n") && c20TracePrefix.MatchString(s[:len(s)-len(payload)-1])
		} else {
			ok = s == payload
		}
	case sc.JSON:
		var jl rogger.JsonLog
		ok = strings.HasSuffix(s, "\n") && strings.Count(s, "\n") == 1 && json.Unmarshal(v, &jl) == nil && jl.Msg == payload
	case w.prefix:
		ok = len(s) > len(payload)+1 && strings.HasSuffix(s, payload+"\n") && c20TextPrefix.MatchString(s[:len(s)-len(payload)-1])
	default:
		ok = s == payload
	}
	if !ok {
		return c20BadG, 0, fmt.Sprintf("writer %d: the buffer of one Write is not exactly the entry g=%d n=%d (api %d): %d bytes %.120q", w.id, g, n, api, len(s), s)
	}
	return g, n, ""
}

type c20Env struct {
	sc      *c20Scenario
	loggers []*rogger.Logger
	writers []*c20Writer
	mu      sync.Mutex
	recs    [][]c20Rec // per logging goroutine, plus one for the flush caller (index G)
	file    *os.File
	next    []int // next sequence number per goroutine
	level   int   // mode levels: the global level now (changed only while no logging call is in progress)
	calls   []int // mode levels: logging calls made so far per goroutine (accepted or filtered)
	cur     []int // id of the writer currently installed on each logger (changed only while no logging call is in progress)
}

func (e *c20Env) rec(slot int, kind, g, n, w int) {
	st := atomic.AddInt64(&c20seq, 1)
	e.recs[slot] = append(e.recs[slot], c20Rec{st, [4]int{kind, g, n, w}})
	if e.file != nil {
		fmt.Fprintf(e.file, "%d %d %d %d %d\n", st, kind, g, n, w)
	}
}

// logOne performs the next logging call of goroutine g (only g itself calls this)
// levels of the entry points 0..4 (Debugf, Info, Warnf, Error, Infof); WriteLog (5) and Trace (6) have none
var c20ApiLevel = []int{0, 1, 2, 3, 1}

// mode levels: the entry point of entry (g, n) is chosen per call, not per entry (a filtered call creates no entry)
var c20ApiOf sync.Map

func (e *c20Env) logOne(g int) {
	n := e.next[g]
	if e.sc.Mode == "levels" {
		k := e.calls[g]
		e.calls[g]++
		api := int((uint64(e.sc.Seed)>>3 + uint64(g)*7919 + uint64(k)*104729) % 7)
		if api < 5 && c20ApiLevel[api] < e.level {
			// below the level now: the call must be filtered and nothing of it may ever reach a writer
			w, _, _ := c20Shape(e.sc, g, n)
			c20CallApi(e.loggers[w], api, fmt.Sprintf("c20f|%d|%d|filtered at level %d", g, k, e.level))
			return
		}
		c20ApiOf.Store(c20Key{g, n}, api)
	}
	e.next[g]++
	w, api, _ := c20Shape(e.sc, g, n)
	p := c20Payload(e.sc, g, n)
	lg := e.loggers[w]
	wid := e.cur[w] // the writer this entry is addressed to: the one installed on its logger now
	e.rec(g, c20KCall, g, n, wid)
	c20CallApi(lg, api, p)
	e.rec(g, c20KRet, g, n, wid)
}

func c20CallApi(lg *rogger.Logger, api int, p string) {
	switch api {
	case 0:
		lg.Debugf("%s", p)
	case 1:
		lg.Info(p)
	case 2:
		lg.Warnf("%s%s", p[:len(p)/2], p[len(p)/2:])
	case 3:
		lg.Error(p)
	case 4:
		lg.Infof("%s", p)
	case 5:
		lg.WriteLog([]byte(p))
	case 6:
		lg.Trace(p)
	}
}

// c20Disp is the dispatcher handed to the real tars Protocol in mode invoke
type c20Disp struct{ run func() }

func (d *c20Disp) Dispatch(ctx context.Context, imp interface{}, req *requestf.RequestPacket, rsp *requestf.ResponsePacket, withContext bool) error {
	d.run()
	return nil
}

func c20ExitMode(m string) bool { return m == "panic" || m == "invoke" || m == "clientcall" || m == "lifecycle" }

// the ways the application's own lifecycle ends the process: tars.Run() panics in its one-time initialisation at
// different points (before / after the logger set-up), or returns (configuration unusable, a listener cannot be
// opened, SIGTERM with a complete configuration)
var c20LifeKinds = []string{"init-panic-logpath", "init-panic-server-tls", "init-panic-client-tls", "init-panic-adapter-tls",
	"init-panic-client-obj-tls", "config-unparsable-then-sigterm", "listen-fails", "configured-then-sigterm"}

var c20HeldListener net.Listener

// c20LifeConfig writes the server configuration of a lifecycle scenario; port is an occupied TCP port
func c20LifeConfig(dir string, life int, port int) (string, error) {
	blocker := filepath.Join(dir, "blocker")
	if err := os.WriteFile(blocker, []byte("x"), 0o644); err != nil {
		return "", err
	}
	logpath := filepath.Join(dir, "applog")
	srvExtra, adapter, cliExtra := "", "", ""
	switch life {
	case 0:
		logpath = filepath.Join(blocker, "sub") // below a regular file: MkdirAll fails, SetFileRoller panics
	case 1:
		srvExtra = "key=" + filepath.Join(dir, "nokey.pem") + "\ncert=" + filepath.Join(dir, "nocert.pem") + "\n"
	case 2:
		cliExtra = "ca=" + filepath.Join(dir, "noca.pem") + "\n"
	case 3:
		adapter = "<VerifApp.C20Server.TlsAdapter>\nendpoint=ssl -h 127.0.0.1 -p 1 -t 60000\nservant=VerifApp.C20Server.TlsObj\nprotocol=tars\nkey=" +
			filepath.Join(dir, "nokey.pem") + "\ncert=" + filepath.Join(dir, "nocert.pem") + "\n</VerifApp.C20Server.TlsAdapter>\n"
	case 4:
		cliExtra = "<VerifApp.Other.Obj>\nca=" + filepath.Join(dir, "noca.pem") + "\n</VerifApp.Other.Obj>\n"
	case 6:
		adapter = fmt.Sprintf("<VerifApp.C20Server.ObjAdapter>\nendpoint=tcp -h 127.0.0.1 -p %d -t 60000\nservant=VerifApp.C20Server.Obj\nprotocol=tars\nmaxconns=100\nthreads=1\n</VerifApp.C20Server.ObjAdapter>\n", port)
	}
	cfg := "<tars>\n<application>\n<server>\napp=VerifApp\nserver=C20Server\nlocalip=127.0.0.1\nlogpath=" + logpath + "\ndatapath=" + dir + "\n" +
		srvExtra + adapter + "</server>\n<client>\n" + cliExtra + "</client>\n</application>\n</tars>\n"
	if life == 5 {
		cfg = "<tars>\n<application>\n<server>\napp=VerifApp\nlogpath=a&b\n</application>\n" // not a document the parser accepts
	}
	path := filepath.Join(dir, "server.conf")
	return path, os.WriteFile(path, []byte(cfg), 0o644)
}

// the kinds of panic value a guarded goroutine may die with: CheckPanic must dump, flush and exit for every one of them
var c20PanicKinds = []string{"nil-map-write", "string", "errors.New", "int", "struct", "nil-deref", "stringer", "struct-pointer",
	"panic(nil)", "index-out-of-range", "wrapped-error", "byte-slice", "divide-by-zero", "type-assertion", "custom-error", "float"}

type c20PStruct struct {
	A int
	B string
}
type c20PStringer struct{ n int }

func (s c20PStringer) String() string { return fmt.Sprintf("stringer-%d", s.n) }

type c20PErr struct{ code int }

func (e *c20PErr) Error() string { return fmt.Sprintf("custom error %d", e.code) }

// c20Boom panics with a value of the given kind
func c20Boom(kind int) {
	var zero int
	var np *c20PStruct
	var anyv interface{} = "text"
	switch kind % len(c20PanicKinds) {
	case 0:
		var m map[string]int
		m["boom"] = 1
	case 1:
		panic("c20: a string")
	case 2:
		panic(errors.New("c20: an error"))
	case 3:
		panic(42)
	case 4:
		panic(c20PStruct{A: 7, B: "seven"})
	case 5:
		_ = np.A
	case 6:
		panic(c20PStringer{n: 3})
	case 7:
		panic(&c20PStruct{A: 8})
	case 8:
		panic(nil)
	case 9:
		l := []int{1, 2}
		_ = l[2+zero]
	case 10:
		panic(fmt.Errorf("c20: wrapped: %w", os.ErrNotExist))
	case 11:
		panic([]byte("c20 bytes"))
	case 12:
		_ = 1 / zero
	case 13:
		_ = anyv.(int)
	case 14:
		panic(&c20PErr{code: 78})
	case 15:
		panic(3.5)
	}
	panic("c20: unreachable kind")
}

func c20WaitFor(cond func() bool, d time.Duration) bool {
	dl := time.Now().Add(d)
	for i := 0; !cond(); i++ {
		if time.Now().After(dl) {
			return false
		}
		if i < 50 {
			runtime.Gosched()
		} else {
			time.Sleep(100 * time.Microsecond)
		}
	}
	return true
}

const c20Wait = 10 * time.Second

func c20RunScenario(sc c20Scenario) c20ChildOut {
	out := c20ChildOut{TimeoutMs: float64(rogger.VerifWaitFlushTimeout()) / 1e6}
	rng := rand.New(rand.NewSource(sc.Seed))
	rogger.SetLevel(rogger.DEBUG)
	if sc.JSON {
		rogger.SetFormat(rogger.Json)
	}
	env := &c20Env{sc: &sc, recs: make([][]c20Rec, sc.G+1+sc.Callers), next: make([]int, sc.G), calls: make([]int, sc.G)}
	if sc.Dir != "" {
		f, err := os.OpenFile(filepath.Join(sc.Dir, "events.log"), os.O_WRONLY|os.O_CREATE|os.O_APPEND, 0o644)
		if err != nil {
			out.Hook = "events file: " + err.Error()
			return out
		}
		env.file = f
	}
	var gate chan struct{}
	var gated int32
	if sc.Mode == "fullq" || sc.Mode == "swap" || sc.Mode == "levels" {
		gate = make(chan struct{})
	}
	for w := 0; w < sc.W; w++ {
		wr := &c20Writer{id: w, prefix: w%2 == 1, delay: time.Duration(sc.Delay) * time.Microsecond, sc: &sc, file: env.file}
		wr.gate, wr.gated = gate, &gated // fullq: the first Write (on whichever writer) blocks until the gate opens
		lg := rogger.GetLogger(fmt.Sprintf("c20-%d", w))
		lg.SetWriter(wr)
		if w%4 == 3 {
			lg.SetPrefix(fmt.Sprintf("pfx%d", w))
		}
		env.loggers = append(env.loggers, lg)
		env.writers = append(env.writers, wr)
		env.cur = append(env.cur, w)
	}
	flushSlot := sc.G
	var returned int64 // logging calls that have returned
	logN := func(g, k int, pause bool, wg *sync.WaitGroup) {
		defer wg.Done()
		r := rand.New(rand.NewSource(sc.Seed + int64(g)*7919))
		for i := 0; i < k; i++ {
			env.logOne(g)
			atomic.AddInt64(&returned, 1)
			if pause {
				switch r.Intn(8) {
				case 0:
					runtime.Gosched()
				case 1:
					time.Sleep(time.Duration(r.Intn(200)) * time.Microsecond)
				}
			}
		}
	}
	var flushMu sync.Mutex
	timerSeen := false
	// one FlushLogger call of caller c (the caller id is the g field of the flush events)
	flushAs := func(c, base int) {
		ql := rogger.VerifQueueLen()
		env.rec(flushSlot+c, base, c, 0, 0)
		t0 := time.Now()
		rogger.FlushLogger()
		done := rogger.VerifFlushDone()
		ms := float64(time.Since(t0)) / 1e6
		flushMu.Lock()
		if base == c20KFlushCall {
			if c == 0 {
				out.QLen = ql
			}
			// the duration reported is that of a call that returned on its timer if there is one (the shortest), else caller 0's
			if !done && (!timerSeen || ms < out.FlushMs) {
				out.FlushMs, timerSeen = ms, true
			} else if done && !timerSeen && c == 0 {
				out.FlushMs = ms
			}
		}
		flushMu.Unlock()
		if done {
			env.rec(flushSlot+c, base+1, c, 0, 0)
		} else {
			env.rec(flushSlot+c, base+2, c, 0, 0)
		}
	}
	flushK := func(base int) { flushAs(0, base) }
	// flush: one caller, or sc.Callers concurrent callers a few dozen microseconds apart
	flush := func() {
		if sc.Callers < 2 {
			flushK(c20KFlushCall)
			return
		}
		var fw sync.WaitGroup
		for c := 0; c < sc.Callers; c++ {
			fw.Add(1)
			go func(c int) {
				defer fw.Done()
				if d := (sc.Seed >> uint(4*c)) % 8; d > 0 {
					time.Sleep(time.Duration(d*25) * time.Microsecond)
				}
				flushAs(c, c20KFlushCall)
			}(c)
		}
		fw.Wait()
	}
	var wg sync.WaitGroup
	switch sc.Mode {
	case "forced":
		for g := 0; g < sc.G; g++ {
			wg.Add(1)
			go logN(g, sc.N, true, &wg)
		}
		wg.Wait()
		// hold the flusher between its two selects: arm the yield point, make it pass through once more
		rogger.VerifArmYield()
		reached := make(chan struct{})
		go func() { rogger.VerifWaitYield(); close(reached) }()
		wg.Add(1)
		logN(0, 1, false, &wg)
		select {
		case <-reached:
		case <-time.After(c20Wait):
			out.Hook = "the flusher did not reach the yield point between its two selects"
			return out
		}
		// inside the window: the last entries are logged and their calls return ...
		for g := 0; g < sc.Last && g < sc.G; g++ {
			wg.Add(1)
			go logN(g, sc.LastN, false, &wg)
		}
		wg.Wait()
		// ... and the flush is requested
		fdone := make(chan struct{})
		go func() { flush(); close(fdone) }()
		if !c20WaitFor(rogger.VerifFlushRequested, c20Wait) {
			out.Hook = "FlushLogger did not signal the flusher"
			return out
		}
		rogger.VerifResumeYield()
		select {
		case <-fdone:
		case <-time.After(c20Wait):
			out.Hook = "FlushLogger did not return"
			return out
		}
	case "stress":
		total := int64(sc.G * sc.N)
		for g := 0; g < sc.G; g++ {
			wg.Add(1)
			go logN(g, sc.N, true, &wg)
		}
		want := total * int64(sc.Last) / 100
		c20WaitFor(func() bool { return atomic.LoadInt64(&returned) >= want }, c20Wait)
		if rng.Intn(2) == 0 {
			time.Sleep(time.Duration(rng.Intn(300)) * time.Microsecond)
		}
		flush()
		wg.Wait()
	case "late", "rawonly", "sizes":
		for g := 0; g < sc.G; g++ {
			wg.Add(1)
			go logN(g, sc.N, false, &wg)
		}
		wg.Wait()
		flush()
	case "fullq":
		capQ := rogger.VerifQueueCap()
		total := capQ + 1 + sc.Last // one entry is held by the blocked writer, Last senders block
		per := (total + sc.G - 1) / sc.G
		for g := 0; g < sc.G; g++ {
			wg.Add(1)
			go logN(g, per, false, &wg)
		}
		// wait until the queue is full and every sender has either finished or blocked
		full := c20WaitFor(func() bool { return rogger.VerifQueueLen() == capQ }, c20Wait)
		time.Sleep(2 * time.Millisecond)
		out.Note = fmt.Sprintf("queue full=%v cap=%d returned=%d of %d", full, capQ, atomic.LoadInt64(&returned), per*sc.G)
		close(gate)
		wg.Wait()
		flush()
	case "runexit":
		// the framework's own flush: tars.Run returns after SIGTERM (grace shutdown) through its deferred FlushLogger
		sig := make(chan os.Signal, 8)
		signal.Notify(sig, syscall.SIGTERM) // SIGTERM never kills this process, also before Run has installed its handler
		runDone := make(chan struct{})
		go func() { tars.Run(); close(runDone) }()
		for g := 0; g < sc.G; g++ {
			wg.Add(1)
			go logN(g, sc.N, true, &wg)
		}
		wg.Wait()
		out.QLen = rogger.VerifQueueLen()
		env.rec(flushSlot, c20KFlushCall, 0, 0, 0)
		t0 := time.Now()
		stopped := false
		for i := 0; i < 200 && !stopped; i++ {
			syscall.Kill(os.Getpid(), syscall.SIGTERM)
			select {
			case <-runDone:
				stopped = true
			case <-time.After(50 * time.Millisecond):
			}
		}
		if !stopped {
			out.Hook = "tars.Run did not return after SIGTERM"
			return out
		}
		out.FlushMs = 0 // the duration of FlushLogger inside Run is not observable; only the acknowledged case is judged
		_ = t0
		if rogger.VerifFlushDone() {
			env.rec(flushSlot, c20KFlushRetDone, 0, 0, 0)
		} else {
			out.Hook = "tars.Run returned but the flusher has not acknowledged a flush (FlushLogger not called on the way out, or it ran into its time limit)"
			return out
		}
	case "levels":
		// the first Write blocks: what is accepted stays queued while the level is changed (raised and lowered) between the
		// phases and once more just before the flush; every entry point at every level
		for _, lv := range sc.Levels {
			rogger.SetLevel(rogger.LogLevel(lv))
			env.level = lv
			for g := 0; g < sc.G; g++ {
				wg.Add(1)
				go logN(g, sc.N, false, &wg)
			}
			wg.Wait()
		}
		rogger.SetLevel(rogger.LogLevel(sc.Final))
		env.level = sc.Final
		out.Note = fmt.Sprintf("queued at the last level change: %d", rogger.VerifQueueLen())
		close(gate)
		flush()
	case "swap":
		// the first Write blocks: everything logged now stays queued, addressed to the first writers
		for g := 0; g < sc.G; g++ {
			wg.Add(1)
			go logN(g, sc.N, false, &wg)
		}
		wg.Wait()
		// every logger gets a new writer while its entries are queued (as framework start-up replaces the console writer)
		for w := 0; w < sc.W; w++ {
			nb := &c20Writer{id: sc.W + w, prefix: env.writers[w].prefix, delay: env.writers[w].delay, sc: &sc, file: env.file}
			env.loggers[w].SetWriter(nb)
			env.writers = append(env.writers, nb)
			env.cur[w] = sc.W + w
		}
		for g := 0; g < sc.G; g++ {
			wg.Add(1)
			go logN(g, sc.LastN, false, &wg)
		}
		wg.Wait()
		out.Note = fmt.Sprintf("queued at the writer change: %d", rogger.VerifQueueLen())
		close(gate)
		flush()
	case "invoke":
		// the framework's own server-side path: the real Protocol.Invoke with a dispatcher whose method logs and panics
		disp := &c20Disp{run: func() {
			for g := 0; g < sc.G; g++ {
				wg.Add(1)
				go logN(g, sc.N, true, &wg)
			}
			wg.Wait()
			env.rec(flushSlot, c20KFlushCall, 0, 0, 0)
			fmt.Fprintf(env.file, "P %d\n", time.Now().UnixNano())
			c20Boom(sc.Kind) // inside the servant method (or the filter)
		}}
		if sc.InFilter {
			run := disp.run
			disp.run = func() {}
			tars.RegisterPreServerFilter(func(ctx context.Context, d tars.Dispatch, f interface{}, req *requestf.RequestPacket, resp *requestf.ResponsePacket, withContext bool) error {
				run()
				return nil
			})
		}
		p := tars.VerifNewProtocol(disp, nil, sc.JSON)
		rq := requestf.RequestPacket{IVersion: 1, CPacketType: 0, IRequestId: 7, SServantName: "verif.c20", SFuncName: "boom", SBuffer: []int8{},
			ITimeout: int32(sc.Last), Context: map[string]string{}, Status: map[string]string{}}
		buf := codec.NewBuffer()
		rq.WriteTo(buf)
		body := buf.ToBytes()
		frame := make([]byte, 4+len(body))
		binary.BigEndian.PutUint32(frame, uint32(len(frame)))
		copy(frame[4:], body)
		p.Invoke(context.Background(), frame)
		out.Hook = "Protocol.Invoke returned after the servant method panicked"
		return out
	case "lifecycle":
		// the process ends through the application's own tars.Run(): a panic in its one-time initialisation unwinds through
		// Run (its deferred FlushLogger), or Run returns; the child then exits at once
		life := sc.Life % len(c20LifeKinds)
		ln, lerr := net.Listen("tcp", "127.0.0.1:0") // an occupied port for the listener that must fail
		if lerr != nil {
			out.Hook = "listen: " + lerr.Error()
			return out
		}
		c20HeldListener = ln // keeps the port occupied: an unreferenced listener is closed by its finalizer at the next GC
		cfgPath, cerr := c20LifeConfig(sc.Dir, life, ln.Addr().(*net.TCPAddr).Port)
		if cerr != nil {
			out.Hook = "config: " + cerr.Error()
			return out
		}
		tars.ServerConfigPath = cfgPath
		sig := make(chan os.Signal, 8)
		signal.Notify(sig, syscall.SIGTERM) // SIGTERM never kills this process, also before Run has installed its handler
		if life == 6 {
			tars.GetServerConfig() // performs the initialisation here; Run's listener then fails on the occupied port
			tars.AddServant(&c20Disp{run: func() {}}, nil, "VerifApp.C20Server.Obj")
		}
		for g := 0; g < sc.G; g++ {
			wg.Add(1)
			go logN(g, sc.N, true, &wg)
		}
		wg.Wait()
		out.QLen = rogger.VerifQueueLen()
		env.rec(flushSlot, c20KFlushCall, 0, 0, 0)
		fmt.Fprintf(env.file, "P %d\n", time.Now().UnixNano())
		if life == 5 || life == 7 {
			go func() {
				for {
					time.Sleep(20 * time.Millisecond)
					syscall.Kill(os.Getpid(), syscall.SIGTERM)
				}
			}()
		}
		tars.Run()
		os.Exit(3) // Run returned: the process ends here
	case "clientcall":
		// the client-side guard: ServantProxy.TarsInvoke's `defer CheckPanic()`, panic in a registered client filter
		tars.RegisterClientFilter(func(ctx context.Context, msg *tars.Message, invoke tars.Invoke, timeout time.Duration) error {
			for g := 0; g < sc.G; g++ {
				wg.Add(1)
				go logN(g, sc.N, true, &wg)
			}
			wg.Wait()
			env.rec(flushSlot, c20KFlushCall, 0, 0, 0)
			fmt.Fprintf(env.file, "P %d\n", time.Now().UnixNano())
			c20Boom(sc.Kind)
			return nil
		})
		sp := tars.NewServantProxy(tars.NewCommunicator(), "verif.c20.obj@tcp -h 127.0.0.1 -p 9 -t 1000")
		var resp requestf.ResponsePacket
		err := sp.TarsInvoke(context.Background(), 0, "op", []byte{}, nil, nil, &resp)
		out.Hook = fmt.Sprintf("ServantProxy.TarsInvoke returned (%v) after the client filter panicked", err)
		return out
	case "second":
		for g := 0; g < sc.G; g++ {
			wg.Add(1)
			go logN(g, sc.N, true, &wg)
		}
		wg.Wait()
		flush()
		for g := 0; g < sc.G; g++ {
			wg.Add(1)
			go logN(g, sc.LastN, true, &wg)
		}
		wg.Wait()
		flushK(c20KFlush2Call)
	case "quiesce":
		for g := 0; g < sc.G; g++ {
			wg.Add(1)
			go logN(g, sc.N, true, &wg)
		}
		wg.Wait()
		total := sc.G * sc.N
		ok := c20WaitFor(func() bool {
			k := 0
			for _, w := range env.writers {
				w.mu.Lock()
				k += len(w.recs)
				w.mu.Unlock()
			}
			return k >= total
		}, c20Wait)
		if !ok {
			out.Hook = "without a flush: the background flusher did not write everything that was logged"
		}
	case "panic":
		for g := 0; g < sc.G; g++ {
			wg.Add(1)
			go logN(g, sc.N, true, &wg)
		}
		wg.Wait()
		env.rec(flushSlot, c20KFlushCall, 0, 0, 0)
		fmt.Fprintf(env.file, "P %d\n", time.Now().UnixNano())
		boom := func(kind int) {
			defer tars.CheckPanic()
			c20Boom(kind)
		}
		if sc.Panics >= 2 { // several guarded goroutines panic within a short window; the process exits from one of them
			for k := 0; k < sc.Panics; k++ {
				go func(k int) {
					time.Sleep(time.Duration(k*sc.GapMs) * time.Millisecond)
					boom(sc.Kind + k)
				}(k)
			}
			time.Sleep(c20Wait)
		} else {
			boom(sc.Kind)
		}
		out.Hook = "CheckPanic returned"
		return out
	}
	// merge
	var all []c20Rec
	for _, r := range env.recs {
		all = append(all, r...)
	}
	for _, w := range env.writers {
		w.mu.Lock()
		all = append(all, w.recs...)
		out.Content = append(out.Content, w.bad...)
		w.mu.Unlock()
	}
	sort.Slice(all, func(i, j int) bool { return all[i].stamp < all[j].stamp })
	for _, r := range all {
		out.Events = append(out.Events, r.ev)
	}
	return out
}

func c20WorkerMain() {
	var sc c20Scenario
	if err := json.NewDecoder(os.Stdin).Decode(&sc); err != nil {
		fatal("c20-worker: %v", err)
	}
	if sc.Procs > 0 {
		runtime.GOMAXPROCS(sc.Procs)
	}
	out := c20RunScenario(sc)
	b, _ := json.Marshal(out)
	w := bufio.NewWriter(os.Stdout)
	w.WriteString("C20OUT ")
	w.Write(b)
	w.WriteString("\n")
	w.Flush()
}

// ---------- monitor (L3) ----------

type c20Key struct{ g, n int }

// c20Monitor checks the property on a trace. timeoutMs/flushMs: duration of the flusher's time limit and of the call.
func c20Monitor(evs [][4]int, flushMs, timeoutMs float64, smallBacklog bool) []Failure {
	var fs []Failure
	add := func(sig, desc string) {
		for _, f := range fs {
			if f.Sig == sig {
				return
			}
		}
		fs = append(fs, Failure{Sig: sig, Desc: desc})
	}
	type info struct {
		call, ret, write, w int
	}
	ents := map[c20Key]*info{}
	var retOrder []c20Key // returned entries in order of return
	head := 0
	flushCall, flushRet, flush2Call := -1, -1, -1
	flushDone, timerRet := false, false
	for i, e := range evs {
		k := c20Key{e[1], e[2]}
		switch e[0] {
		case c20KCall:
			if ents[k] != nil {
				add("C20/harness/duplicate-call", fmt.Sprintf("entry %v logged twice by the harness", k))
				continue
			}
			ents[k] = &info{call: i, ret: -1, write: -1, w: e[3]}
		case c20KRet:
			if in := ents[k]; in != nil {
				in.ret = i
				retOrder = append(retOrder, k)
			}
		case c20KWrite:
			if e[1] == c20BadG {
				add("C20/write/not-one-whole-entry", fmt.Sprintf("event %d: writer %d received a buffer that is not exactly one logged entry", i, e[3]))
				continue
			}
			in := ents[k]
			if in == nil {
				add("C20/write/entry-never-logged", fmt.Sprintf("event %d: writer %d received entry g=%d n=%d whose logging call has not begun", i, e[3], e[1], e[2]))
				continue
			}
			if in.write >= 0 {
				add("C20/write/twice", fmt.Sprintf("entry g=%d n=%d was handed to its writer twice (events %d and %d)", e[1], e[2], in.write, i))
				continue
			}
			if in.w != e[3] {
				add("C20/write/wrong-writer", fmt.Sprintf("entry g=%d n=%d addressed to writer %d was handed to writer %d", e[1], e[2], in.w, e[3]))
			}
			in.write = i
			// FIFO: an unwritten entry whose call returned before this entry's call began was enqueued first
			for head < len(retOrder) && ents[retOrder[head]].write >= 0 {
				head++
			}
			for j := head; j < len(retOrder); j++ {
				o := retOrder[j]
				oi := ents[o]
				if oi.write >= 0 {
					continue
				}
				if oi.ret < in.call {
					if o.g == k.g {
						add("C20/order/per-goroutine", fmt.Sprintf("entry g=%d n=%d was written (event %d) before the earlier entry n=%d of the same goroutine", k.g, k.n, i, o.n))
					} else {
						add("C20/order/fifo", fmt.Sprintf("entry g=%d n=%d (call began at event %d) was written at event %d before entry g=%d n=%d whose call had returned at event %d", k.g, k.n, in.call, i, o.g, o.n, oi.ret))
					}
				}
				break // retOrder is ascending in ret: the first unwritten one is the oldest
			}
		case c20KFlushCall: // the first call of any caller counts: what returned before it is owed by every acknowledged return
			if flushCall < 0 {
				flushCall = i
			}
		case c20KFlushRetDone:
			if flushRet < 0 {
				flushRet = i
			}
			flushDone = true
		case c20KFlushRetTimer:
			timerRet = true
		case c20KFlush2Call:
			flush2Call = i
		case c20KFlush2RetDone:
			n := 0
			var first c20Key
			for k, in := range ents {
				if in.ret >= 0 && in.ret < flush2Call && in.write < 0 {
					n++
					if n == 1 || k.g < first.g || (k.g == first.g && k.n < first.n) {
						first = k
					}
				}
			}
			if n > 0 {
				add("C20/second-flush/entry-not-written", fmt.Sprintf("a second FlushLogger call returned on the (stale) acknowledgement of the first flush while %d entr(ies) logged between the two flushes were not handed to their writer; first: g=%d n=%d", n, first.g, first.n))
			}
		}
	}
	if flushRet >= 0 && flushDone {
		lost, late := 0, 0
		var first c20Key
		for k, in := range ents {
			if in.ret >= 0 && in.ret < flushCall && (in.write < 0 || in.write > flushRet) {
				if in.write < 0 {
					lost++
				} else {
					late++
				}
				if lost+late == 1 || k.g < first.g || (k.g == first.g && k.n < first.n) {
					first = k
				}
			}
		}
		if lost+late > 0 {
			add("C20/flush/entry-not-written", fmt.Sprintf("FlushLogger returned after the flusher's acknowledgement, but %d entr(ies) whose logging call had returned before FlushLogger was called were not handed to their writer by then (%d never, %d later); first: g=%d n=%d", lost+late, lost, late, first.g, first.n))
		}
	}
	if timerRet {
		if flushMs < timeoutMs-100 {
			add("C20/flush/returned-early", fmt.Sprintf("FlushLogger returned after %.1f ms without the flusher's acknowledgement and before its time limit of %.0f ms", flushMs, timeoutMs))
		} else if smallBacklog {
			add("C20/flush/timeout-small-backlog", fmt.Sprintf("FlushLogger gave up after %.0f ms (limit %.0f ms) although the backlog needed a few milliseconds", flushMs, timeoutMs))
		}
	}
	return fs
}

// ---------- parent ----------

func c20Child(sc c20Scenario) (c20ChildOut, string) {
	bin := os.Args[0]
	if sc.Dir != "" {
		// debug.DumpStack writes next to os.Args[0]: run the panic scenario through a link in the work directory
		abs, _ := filepath.Abs(bin)
		link := filepath.Join(sc.Dir, "c20bin")
		os.Remove(link)
		if err := os.Symlink(abs, link); err == nil {
			bin = link
		}
	}
	cmd := exec.Command(bin, "c20-worker")
	if sc.NoDump {
		cmd.Args[0] = "/proc/self/c20-nodump" // os.Args[0] of the child: its directory exists but no file can be created in it
	}
	b, _ := json.Marshal(sc)
	cmd.Stdin = strings.NewReader(string(b))
	cmd.Env = append(os.Environ(), "GOTRACEBACK=single")
	var so, se strings.Builder
	cmd.Stdout = &so
	cmd.Stderr = &capWriter{sb: &se}
	t0 := time.Now()
	if err := cmd.Start(); err != nil {
		return c20ChildOut{}, "start: " + err.Error()
	}
	ch := make(chan error, 1)
	go func() { ch <- cmd.Wait() }()
	var werr error
	select {
	case werr = <-ch:
	case <-time.After(45 * time.Second):
		cmd.Process.Kill()
		<-ch
		return c20ChildOut{}, "child killed after 45 s"
	}
	_ = t0
	if c20ExitMode(sc.Mode) {
		return c20PanicOut(sc, werr, time.Now(), so.String()+se.String())
	}
	if werr != nil {
		return c20ChildOut{}, "child failed: " + werr.Error() + ": " + se.String()
	}
	var out c20ChildOut
	s := so.String()
	i := strings.LastIndex(s, "C20OUT ")
	if i < 0 {
		return c20ChildOut{}, "child output missing"
	}
	if err := json.Unmarshal([]byte(strings.TrimSpace(s[i+7:])), &out); err != nil {
		return c20ChildOut{}, "child output: " + err.Error()
	}
	return out, ""
}

// c20PanicOut reconstructs the trace of a child that ended in CheckPanic's os.Exit from its event file
func c20PanicOut(sc c20Scenario, werr error, exited time.Time, stdout string) (c20ChildOut, string) {
	out := c20ChildOut{TimeoutMs: 1000}
	wallMs := 0.0
	if werr == nil {
		out.Hook = "the panicking child exited with status 0 (CheckPanic did not exit the process)"
		return out, ""
	}
	if ee, ok := werr.(*exec.ExitError); ok {
		out.Exit = ee.ExitCode()
	}
	f, err := os.Open(filepath.Join(sc.Dir, "events.log"))
	if err != nil {
		return out, "events file: " + err.Error()
	}
	defer f.Close()
	var all []c20Rec
	s := bufio.NewScanner(f)
	for s.Scan() {
		var st int64
		var e [4]int
		if strings.HasPrefix(s.Text(), "P ") {
			var ns int64
			fmt.Sscan(s.Text()[2:], &ns)
			wallMs = float64(exited.UnixNano()-ns) / 1e6
			continue
		}
		if n, _ := fmt.Sscan(s.Text(), &st, &e[0], &e[1], &e[2], &e[3]); n == 5 {
			all = append(all, c20Rec{st, e})
		}
	}
	sort.Slice(all, func(i, j int) bool { return all[i].stamp < all[j].stamp })
	sawFlush := false
	for _, r := range all {
		out.Events = append(out.Events, r.ev)
		if r.ev[0] == c20KFlushCall {
			sawFlush = true
		}
	}
	if !sawFlush {
		return out, "child died before the panic: " + werr.Error()
	}
	// the process has exited: FlushLogger inside CheckPanic has returned. Acknowledged unless it ran into its time limit.
	out.FlushMs = wallMs
	if wallMs < 900 {
		out.Events = append(out.Events, [4]int{c20KFlushRetDone, 0, 0, 0})
	} else {
		out.Events = append(out.Events, [4]int{c20KFlushRetTimer, 0, 0, 0})
	}
	return out, ""
}

func c20IsTiming(sig string) bool {
	return sig == "C20/child" || sig == "C20/flush/timeout-small-backlog" || strings.HasPrefix(sig, "C20/hook/")
}

func c20SmallBacklog(sc c20Scenario) bool {
	// at most ~130 sleeping Writes (a millisecond or two each), or a few thousand immediate ones
	// (mode sizes moves tens of megabytes through JSON encoding and the recording writers: a timer return is not judged there)
	return sc.Mode != "fullq" && sc.Mode != "sizes" && (sc.Delay == 0 || sc.G*(sc.N+sc.LastN+1) <= 140)
}

// c20Run runs one scenario; a failure that depends on a time limit counts only when it reproduces three times in a row.
func c20Run(c *c20Case) []Failure {
	if c.SelfOf > 0 { // self-test cases are derived after the recorded ones (c20SelfTests)
		return nil
	}
	t0 := time.Now()
	defer func() { c.WallMs = float64(time.Since(t0)) / 1e6 }()
	if _, broken := c20Broken.Load(c.Sc.Mode); broken {
		c.Note = "skipped: a time-limit failure of this mode was already confirmed on this run"
		c.NoCoq = true
		return nil
	}
	for attempt := 0; ; attempt++ {
		sc := c.Sc
		if c20ExitMode(sc.Mode) {
			d, err := os.MkdirTemp(c20WorkDir, "c20panic")
			if err != nil {
				return []Failure{{Sig: "C20/child", Desc: "work dir: " + err.Error()}}
			}
			sc.Dir = d
			defer os.RemoveAll(d)
		}
		out, cerr := c20Child(sc)
		var fs []Failure
		if cerr != "" {
			fs = append(fs, Failure{Sig: "C20/child", Desc: cerr})
		}
		if out.Hook != "" {
			sig := "C20/hook/" + sc.Mode
			if sc.Mode == "quiesce" {
				sig = "C20/hook/never-written-without-flush"
			}
			if sc.Mode == "runexit" {
				sig = "C20/hook/run-exit-flush-not-acknowledged"
			}
			fs = append(fs, Failure{Sig: sig, Desc: out.Hook})
		}
		for _, m := range out.Content {
			if strings.HasPrefix(m, "FILTERED:") {
				fs = append(fs, Failure{Sig: "C20/level/filtered-entry-written", Desc: m})
				break
			}
		}
		for _, m := range out.Content {
			if !strings.HasPrefix(m, "FILTERED:") {
				fs = append(fs, Failure{Sig: "C20/write/not-one-whole-entry", Desc: m})
				break
			}
		}
		if sc.Mode == "lifecycle" && cerr == "" && out.Hook == "" {
			want := 3 // tars.Run returned
			if sc.Life%len(c20LifeKinds) <= 4 {
				want = 2 // the initialisation panicked: the Go runtime ends the process after Run's deferred calls
			}
			if out.Exit != want {
				fs = append(fs, Failure{Sig: "C20/lifecycle/unexpected-end", Desc: fmt.Sprintf("lifecycle scenario %s: the child ended with exit status %d, expected %d (2 = panic in the initialisation unwound through tars.Run, 3 = tars.Run returned)", c20LifeKinds[sc.Life%len(c20LifeKinds)], out.Exit, want)})
			}
		}
		if c20ExitMode(sc.Mode) && sc.Mode != "lifecycle" && cerr == "" && out.Hook == "" && out.Exit != 255 {
			fs = append(fs, Failure{Sig: "C20/panic-exit/exit-status", Desc: fmt.Sprintf("the process that panicked (value kind: %s; place: %s) under the framework's CheckPanic guard ended with exit status %d, not with CheckPanic's os.Exit(-1) (255): the panic was not handled by CheckPanic (no stack dump, no FlushLogger)", c20PanicKinds[sc.Kind%len(c20PanicKinds)], sc.Mode, out.Exit)})
		}
		for _, f := range c20Monitor(out.Events, out.FlushMs, out.TimeoutMs, c20SmallBacklog(sc)) {
			dup := false
			for _, g := range fs {
				dup = dup || g.Sig == f.Sig
			}
			if !dup {
				fs = append(fs, f)
			}
		}
		timing, functional := false, false
		for _, f := range fs {
			if c20IsTiming(f.Sig) {
				timing = true
			} else {
				functional = true
			}
		}
		if timing && !functional && attempt < 2 {
			c.Retries++
			continue
		}
		if c20Replaying && len(fs) == 0 && attempt < 40 {
			continue
		}
		if timing && !functional {
			c20Broken.Store(sc.Mode, true)
		}
		c.Events, c.QLen, c.FlushMs, c.Note = out.Events, out.QLen, out.FlushMs, out.Note
		c.NoCoq = len(out.Events) > 2500 || len(out.Events) == 0
		return fs
	}
}

var c20WorkDir = ""
var c20Broken sync.Map // mode -> true once a time-limit failure of that mode has been confirmed three times: the remaining scenarios of the mode are skipped
var c20Replaying = false // --replay: the schedule of a scenario is not deterministic, repeat it until it fails (at most 40 times)

func c20Gen(tier string, rng *rand.Rand) []c20Case {
	var cs []c20Case
	procs := []int{1, 2, 4, 16}
	kindNo := map[string]int{}
	lifeNo := 0
	mk := func(mode string) c20Case {
		sc := c20Scenario{Mode: mode, Seed: rng.Int63n(1 << 40), Procs: procs[rng.Intn(4)], W: 1 + rng.Intn(4), JSON: rng.Intn(4) == 0}
		sc.Pad = []int{0, 8, 64, 600, 5000, 70000}[rng.Intn(6)] // 70000: about one entry in eight is larger than 64 KiB
		switch mode {
		case "forced":
			sc.G = 1 + rng.Intn(6)
			sc.N = rng.Intn(12)
			sc.Last = rng.Intn(sc.G + 1)
			sc.LastN = 1 + rng.Intn(3)
			if rng.Intn(3) == 0 {
				sc.Delay = rng.Intn(100)
			}
		case "stress":
			sc.G = 1 + rng.Intn(12)
			sc.N = 1 + rng.Intn(60)
			sc.Last = []int{0, 30, 60, 90, 100}[rng.Intn(5)]
			sc.Delay = []int{0, 0, 5, 50}[rng.Intn(4)]
			if sc.Delay > 0 { // a sleeping writer costs a millisecond or more per entry whatever the nominal delay
				sc.N = 1 + 80/sc.G
			}
		case "late":
			sc.G = 1 + rng.Intn(8)
			sc.N = 1 + rng.Intn(50)
			sc.Delay = []int{0, 20, 100, 300}[rng.Intn(4)]
			if sc.Delay > 0 {
				sc.N = 1 + 80/sc.G
			}
		case "fullq":
			sc.G = 2 + rng.Intn(8)
			sc.Last = 1 + rng.Intn(sc.G)
			sc.Pad = []int{0, 8}[rng.Intn(2)]
			sc.JSON = false
		case "quiesce":
			sc.G = 1 + rng.Intn(8)
			sc.N = 1 + rng.Intn(40)
		case "panic":
			sc.G = 1 + rng.Intn(6)
			sc.N = 1 + rng.Intn(30)
			sc.Delay = []int{0, 0, 50}[rng.Intn(3)]
			if rng.Intn(2) == 0 { // the stack dump fails, entries still pending behind a slow writer
				sc.NoDump = true
				sc.Delay = 50
				sc.N = 3 + rng.Intn(12)
			}
			if rng.Intn(3) == 0 { // concurrent panics while the first one's flush is still draining a backlog
				sc.Panics = 2 + rng.Intn(3)
				sc.GapMs = []int{0, 1, 3, 10, 25}[rng.Intn(5)]
				sc.Delay = 50
				sc.N = 30/sc.G + rng.Intn(1+50/sc.G)
			}
		case "swap":
			sc.G = 1 + rng.Intn(6)
			sc.N = 1 + rng.Intn(10)
			sc.LastN = rng.Intn(6)
			sc.Delay = []int{0, 0, 20}[rng.Intn(3)]
			sc.W = 1 + rng.Intn(4)
		case "lifecycle":
			sc.G = 1 + rng.Intn(4)
			sc.N = 5 + rng.Intn(20)
			sc.Delay = []int{50, 50, 0}[rng.Intn(3)]
			sc.Life = lifeNo % len(c20LifeKinds)
			lifeNo++
		case "clientcall":
			sc.G = 1 + rng.Intn(4)
			sc.N = 5 + rng.Intn(20)
			sc.Delay = []int{0, 50, 50}[rng.Intn(3)]
		case "invoke":
			sc.InFilter = rng.Intn(3) == 0
			sc.G = 1 + rng.Intn(4)
			sc.N = 5 + rng.Intn(20)
			sc.Delay = []int{0, 50, 50}[rng.Intn(3)]
			sc.Last = []int{0, 3000}[rng.Intn(2)] // request timeout: with and without the deferred cancel
		case "levels":
			sc.G = 1 + rng.Intn(4)
			sc.N = 3 + rng.Intn(8)
			sc.W = 1 + rng.Intn(3)
			for k := 2 + rng.Intn(3); k > 0; k-- {
				sc.Levels = append(sc.Levels, rng.Intn(5))
			}
			sc.Final = rng.Intn(5)
			sc.Delay = []int{0, 0, 20}[rng.Intn(3)]
			if sc.Pad > 5000 {
				sc.Pad = 600
			}
		case "sizes":
			// entry sizes around the boundaries a writer / buffer may have, through every logging entry point
			sc.Sizes = []int{1, 4095, 4096, 4097, 65535, 65536, 65537, 200 << 10, 1 << 20}
			if tier == "thorough" {
				sc.Sizes = append(sc.Sizes, 16383, 16384, 16385, 131071, 131072, 131073, 3<<20+1, 8<<20)
			}
			sc.G = 1 + rng.Intn(2)
			sc.N = 7 * len(sc.Sizes)
			sc.Pad = 0
			sc.Delay = 0
		case "rawonly":
			sc.G = 1 + rng.Intn(4)
			sc.N = 1 + rng.Intn(20)
			sc.Delay = []int{0, 20}[rng.Intn(2)]
			sc.Raw = true
		case "runexit":
			sc.G = 1 + rng.Intn(6)
			sc.N = 1 + rng.Intn(30)
			sc.Delay = []int{0, 0, 50}[rng.Intn(3)]
		case "second":
			sc.G = 1 + rng.Intn(4)
			sc.N = rng.Intn(10)
			sc.LastN = 1 + rng.Intn(5)
		}
		if (mode == "forced" || mode == "stress" || mode == "late" || mode == "rawonly") && rng.Intn(4) == 0 {
			sc.Callers = 2 + rng.Intn(3) // concurrent FlushLogger callers
		}
		if c20ExitMode(mode) { // every kind of panic value at every place, in turn
			sc.Kind = kindNo[mode] % len(c20PanicKinds)
			kindNo[mode]++
		}
		return c20Case{Sc: sc, Expect: true}
	}
	counts := map[string]int{"forced": 200, "stress": 120, "late": 40, "fullq": 4, "quiesce": 12, "panic": 32, "second": 4, "runexit": 8, "rawonly": 4, "swap": 16, "invoke": 16, "clientcall": 16, "lifecycle": 16, "sizes": 6, "levels": 20}
	if tier == "thorough" {
		counts = map[string]int{"forced": 3000, "stress": 2000, "late": 600, "fullq": 30, "quiesce": 150, "panic": 400, "second": 20, "runexit": 100, "rawonly": 40, "swap": 200, "invoke": 128, "clientcall": 64, "lifecycle": 160, "sizes": 16, "levels": 250}
	}
	// the smallest forced case first: one goroutine, one entry inside the window
	cs = append(cs, c20Case{Sc: c20Scenario{Mode: "forced", G: 1, N: 0, Last: 1, LastN: 1, W: 1, Procs: 2, Seed: 1}, Expect: true})
	for _, m := range []string{"forced", "stress", "late", "rawonly", "sizes", "levels", "swap", "fullq", "quiesce", "panic", "invoke", "clientcall", "lifecycle", "runexit", "second"} {
		for i := 0; i < counts[m]; i++ {
			cs = append(cs, mk(m))
		}
	}
	// self-tests: a recorded trace from which a Write the flush had to perform is deleted must be rejected
	k := 0
	for i := range cs {
		if (cs[i].Sc.Mode == "forced" || cs[i].Sc.Mode == "late") && k < 6 {
			cs = append(cs, c20Case{Sc: cs[i].Sc, SelfOf: i + 1, Expect: false})
			k++
		}
	}
	return cs
}

func c20SelfTests(cs []c20Case, fails [][]Failure) {
	for i := range cs {
		if cs[i].SelfOf <= 0 || cs[i].SelfOf > len(cs) {
			continue
		}
		src := &cs[cs[i].SelfOf-1]
		ev := c20DropWrite(src.Events)
		if ev == nil || src.NoCoq {
			cs[i].NoCoq = true
			continue
		}
		cs[i].Events = ev
		seen := false
		for _, f := range c20Monitor(ev, 1, 1000, false) {
			seen = seen || f.Sig == "C20/flush/entry-not-written"
		}
		if !seen {
			fails[i] = append(fails[i], Failure{Sig: "C20/selftest/monitor-blind", Desc: "the monitor accepted a trace from which a Write required by the flush was deleted"})
		}
	}
}

// c20DropWrite deletes from a recorded trace the Write of an entry that the flush had to write (self-test of
// the model's acceptor and of the monitor); nil if the trace has none
func c20DropWrite(evs [][4]int) [][4]int {
	fc, fr := -1, -1
	for i, e := range evs {
		if e[0] == c20KFlushCall && fc < 0 {
			fc = i
		}
		if e[0] == c20KFlushRetDone && fr < 0 {
			fr = i
		}
	}
	if fc < 0 || fr < 0 {
		return nil
	}
	ret := map[c20Key]bool{}
	victim := -1
	for i, e := range evs[:fr] {
		if e[0] == c20KRet && i < fc {
			ret[c20Key{e[1], e[2]}] = true
		}
		if e[0] == c20KWrite && ret[c20Key{e[1], e[2]}] {
			victim = i
		}
	}
	if victim < 0 {
		return nil
	}
	out := append([][4]int{}, evs[:victim]...)
	return append(out, evs[victim+1:]...)
}

func c20Coq(c *c20Case) string {
	if c.NoCoq || len(c.Events) == 0 {
		return ""
	}
	var sb strings.Builder
	for i, e := range c.Events {
		k := e[0]
		if k >= c20KFlush2Call { // a later FlushLogger call is the same visible event in the model
			k = k - c20KFlush2Call + c20KFlushCall
		}
		if i > 0 {
			sb.WriteString(";")
		}
		fmt.Fprintf(&sb, "(%d,%d,%d,%d)", k, e[1], e[2], e[3])
	}
	return fmt.Sprintf("mkcase %s [%s]", coqBool(c.Expect), sb.String())
}

func c20QBucket(n int) string {
	switch {
	case n == 0:
		return "q0"
	case n == 1:
		return "q1"
	case n < 10:
		return "q<10"
	case n < 100:
		return "q<100"
	case n < 10000:
		return "q<cap"
	}
	return "qfull"
}

func init() {
	constGens = append(constGens, func() {
		fmt.Printf("Definition c_rogger_queue_cap := %d.\n", rogger.VerifQueueCap())
		fmt.Printf("Definition c_rogger_wait_flush_timeout_ms := %d.\n", rogger.VerifWaitFlushTimeout().Milliseconds())
	})
	props["c20-worker"] = func(a Args) { c20WorkerMain() }
	props["C20"] = func(a Args) {
		c20WorkDir = a.Out
		c20Replaying = a.Replay != ""
		runProp(Prop[c20Case]{
			ID:       "C20",
			Require:  "From TarsV Require Import Conc.Flush.",
			CaseType: "tcase",
			Mismatch: "c20_mismatch",
			Corr:     "Flush.accepts (specification machine of the log queue / flusher / FlushLogger protocol) on the recorded event trace",
			Rule:     "distinct (mode, goroutines, writers, window entries, writer delay class, format, GOMAXPROCS, queue occupancy class at the flush) configurations whose trace contains at least one Write",
			Shard:    40,
			Gen:      c20Gen,
			RunAll: func(cs []c20Case) [][]Failure {
				fails := make([][]Failure, len(cs))
				var wg sync.WaitGroup
				ch := make(chan int)
				for k := 0; k < 4; k++ {
					wg.Add(1)
					go func() {
						defer wg.Done()
						for i := range ch {
							fails[i] = c20Run(&cs[i])
						}
					}()
				}
				for i := range cs {
					ch <- i
				}
				close(ch)
				wg.Wait()
				c20SelfTests(cs, fails)
				return fails
			},
			Run: c20Run,
			Coq: c20Coq,
			Class: func(c *c20Case) string {
				wr := false
				if c.SelfOf > 0 {
					return ""
				}
				for _, e := range c.Events {
					wr = wr || e[0] == c20KWrite
				}
				if !wr {
					return ""
				}
				d := "d0"
				if c.Sc.Delay > 0 {
					d = "d+"
				}
				m := c.Sc.Mode
				if c.Sc.NoDump {
					m += "-nodump"
				}
				if c.Sc.Callers >= 2 {
					m += fmt.Sprintf("-callers%d", c.Sc.Callers)
				}
				if c.Sc.Mode == "lifecycle" {
					m += "-" + c20LifeKinds[c.Sc.Life%len(c20LifeKinds)]
				} else if c20ExitMode(c.Sc.Mode) {
					m += "-" + c20PanicKinds[c.Sc.Kind%len(c20PanicKinds)]
					if c.Sc.InFilter {
						m += "-filter"
					}
				}
				if c.Sc.Panics >= 2 {
					m += fmt.Sprintf("-x%d-gap%d", c.Sc.Panics, c.Sc.GapMs)
				}
				return fmt.Sprintf("%s/G%d/W%d/l%d/%s/j%v/p%d/%s", m, c.Sc.G, c.Sc.W, c.Sc.Last*c.Sc.LastN, d, c.Sc.JSON, c.Sc.Procs, c20QBucket(c.QLen))
			},
			Extra: func(tier string, rng *rand.Rand, res *Result) {
				res.Traces = len(res.Cases)
			},
		}, a)
	}
}
