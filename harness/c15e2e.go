package main

// C15 — real-call histories: the same manager and model, but calls go through the public ServantProxy.TarsInvoke
// (-> doInvoke: SelectAdapterProxy, Send, wait for the reply or the deadline, failAdd/successAdd, the reinstating
// goroutine after an answered probe) against scripted loopback servers that answer, stay silent or refuse.
// What the caller sees (reply / error) is the outcome label; which adapter was used comes from the message the public
// client filter is handed; which server read the request is recorded by the servers themselves.
//
// Time: the code compares whole wall-clock seconds. Elapsed real seconds are fed to the model as Advance labels
// (the model clock is re-synchronised before every step); a step that would run close to a second boundary is delayed
// past it, and a history in which a step nevertheless ran across a boundary is discarded and re-run.

import (
	"context"
	"encoding/binary"
	"fmt"
	"math/rand"
	"net"
	"sync"
	"time"

	"github.com/TarsCloud/TarsGo/tars"
	"github.com/TarsCloud/TarsGo/tars/protocol/codec"
	"github.com/TarsCloud/TarsGo/tars/protocol/res/basef"
	"github.com/TarsCloud/TarsGo/tars/protocol/res/requestf"
	"github.com/TarsCloud/TarsGo/tars/util/current"
)

type c15Sent struct {
	reqID int32
	eid   int
	ok    bool
}

// ---------- scripted server ----------

func (g *c15Gate) serve(c net.Conn) {
	defer c.Close()
	var buf []byte
	tmp := make([]byte, 4096)
	for {
		n, err := c.Read(tmp)
		if err != nil {
			return
		}
		buf = append(buf, tmp[:n]...)
		for len(buf) >= 4 {
			l := int(binary.BigEndian.Uint32(buf[:4]))
			if l < 4 || l > 1<<20 {
				return
			}
			if len(buf) < l {
				break
			}
			frame := buf[4:l]
			buf = buf[l:]
			var req requestf.RequestPacket
			if err := req.ReadFrom(codec.NewReader(frame)); err != nil {
				continue
			}
			g.mu.Lock()
			if g.got == nil {
				g.got = map[int32]bool{}
			}
			g.got[req.IRequestId] = true
			answer := g.up
			code := g.code
			delay := g.delay
			g.mu.Unlock()
			if !answer || req.CPacketType == basef.TARSONEWAY { // nobody waits for an answer to a one-way request
				continue
			}
			if delay > 0 { // slow endpoint: the answer leaves after the caller's deadline
				go func(req requestf.RequestPacket) {
					time.Sleep(time.Duration(delay) * time.Millisecond)
					g.reply(c, &req, code)
				}(req)
				continue
			}
			if !g.reply(c, &req, code) {
				return
			}
		}
	}
}

func (g *c15Gate) reply(c net.Conn, req *requestf.RequestPacket, code int32) bool {
	rsp := requestf.ResponsePacket{IVersion: req.IVersion, IRequestId: req.IRequestId, IRet: code}
	if code != 0 {
		rsp.SResultDesc = "scripted error reply"
	}
	os := codec.NewBuffer()
	_ = os.WriteSliceInt8(make([]int8, 4))
	if err := rsp.WriteTo(os); err != nil {
		return true
	}
	bs := os.ToBytes()
	binary.BigEndian.PutUint32(bs, uint32(len(bs)))
	_, err := c.Write(bs)
	g.mu.Lock()
	if g.wrote == nil {
		g.wrote = map[int32]bool{}
	}
	g.wrote[req.IRequestId] = err == nil
	g.mu.Unlock()
	return err == nil
}

func c15MaxDelay() int {
	d := 0
	for _, g := range c15Gates {
		g.mu.Lock()
		if g.delay > d {
			d = g.delay
		}
		g.mu.Unlock()
	}
	return d
}

func (g *c15Gate) hasWritten(id int32) bool {
	g.mu.Lock()
	defer g.mu.Unlock()
	return g.wrote[id]
}

func (g *c15Gate) setUp(v bool) {
	g.mu.Lock()
	g.up = v
	g.mu.Unlock()
}

func (g *c15Gate) has(id int32) bool {
	g.mu.Lock()
	defer g.mu.Unlock()
	return g.got[id]
}

// ---------- the message of the call in flight, through the public client filter ----------

var c15FilterOnce sync.Once
var c15LastMsg struct {
	mu  sync.Mutex
	msg *tars.Message
}

func c15InstallFilter() {
	c15FilterOnce.Do(func() {
		tars.RegisterClientFilter(func(ctx context.Context, msg *tars.Message, invoke tars.Invoke, timeout time.Duration) error {
			err := invoke(ctx, msg, timeout)
			c15LastMsg.mu.Lock()
			c15LastMsg.msg = msg
			c15LastMsg.mu.Unlock()
			return err
		})
	})
}

// ---------- wall clock ----------

// syncWall feeds the real seconds that have elapsed to the model, and keeps a step of the given length (ms) away
// from the next second boundary.
func (r *c15Run) syncWall(needMs int, lbl *[]string) {
	for k := 0; k < 3; k++ {
		now := time.Now()
		if left := 1e9 - now.Nanosecond(); left < (needMs+25)*1e6 {
			time.Sleep(time.Duration(left) + 3*time.Millisecond)
			continue
		}
		break
	}
	w := time.Now().Unix()
	if d := w - r.wall; d > 0 {
		r.wall = w
		r.now += d
		s := r.snap()
		*lbl = append(*lbl, fmt.Sprintf("([Advance %d], %s)", d, r.obs(s, false)))
	}
}

func (r *c15Run) checkWall() {
	if time.Now().Unix() != r.wall {
		r.straddled = true
	}
}

// ---------- one real call ----------

func (r *c15Run) e2eCall(op *c15Op, last bool) []string {
	var lbl []string
	before := r.snap()
	expectProbe := before.q > 0 && len(r.mgr.Registry()) > 0 // the selection takes the head of the probe queue whenever one is queued
	actBefore := map[int]uint64{}
	for e := 0; e < c15Universe; e++ {
		actBefore[e] = (before.act >> uint(4*e)) & 15
	}
	c15LastMsg.mu.Lock()
	c15LastMsg.msg = nil
	c15LastMsg.mu.Unlock()
	var resp requestf.ResponsePacket
	cType := byte(basef.TARSNORMAL)
	if op.OneWay {
		cType = byte(basef.TARSONEWAY)
	}
	ctx := context.Background()
	if op.Hash != 0 { // a hashed call: mod-hash (0) / consistent-hash (1) through the public client context
		ctx = current.ContextWithTarsCurrent(ctx)
		current.SetClientHash(ctx, op.Hash-1, op.Code)
	}
	err := r.sp.TarsInvoke(ctx, cType, "ping", nil, nil, nil, &resp)
	qAfter := uint64(r.mgr.ProbeQueueLen())
	c15LastMsg.mu.Lock()
	msg := c15LastMsg.msg
	c15LastMsg.mu.Unlock()
	if msg == nil {
		r.fail("failover/harness-no-message", "the client filter was not run for the call")
		return nil
	}
	adp := msg.Adp
	if adp == nil {
		if err == nil {
			r.fail("failover/call-ok-without-adapter", "the call returned no error although no adapter was selected")
		}
		return []string{r.selectedNone(op, last)}
	}
	ai, _ := r.idOf(adp)
	sh := r.sh[ai]
	// the call carried the queued probe iff the queue lost its head (nothing else touches the queue during a call)
	probe := expectProbe && qAfter+1 == before.q
	r.monCarried(op, before, probe)
	// the outcome in the property's terms: was the call ANSWERED (whatever the return code of the answer)?
	// doInvoke replaces msg.Resp by the received packet exactly when a reply arrived before the deadline.
	ok := msg.Resp != nil && msg.Resp != &resp
	if op.OneWay {
		// a one-way call awaits nothing: it either fails at Send (the caller gets the error: a failed call like any other)
		// or is handed to the transport
		if ok {
			r.fail("failover/one-way-call-answered", "a one-way call came back with a reply packet")
		}
		ok = err == nil
		r.classes["one-way"] = true
		if !ok {
			r.classes["one-way-send-failed"] = true
		}
	}
	if err == nil && !ok {
		r.fail("failover/call-ok-without-answer", "the call returned no error although no reply was received")
	}
	if ok && msg.Resp.IRet != 0 {
		r.classes["error-code-answer"] = true
		if probe {
			r.classes["error-code-probe-answer"] = true
		}
		if err == nil {
			r.fail("failover/error-reply-not-reported", fmt.Sprintf("the server answered with return code %d but the call returned no error", msg.Resp.IRet))
		}
	}
	r.sent = append(r.sent, c15Sent{reqID: msg.Req.IRequestId, eid: sh.eid, ok: ok})
	r.monSelected(op, before, ai, probe, "")
	if probe {
		r.pcall[ai] = before.st&(1<<uint(ai)) == 0 // blocked when it was handed out (status bits before the call)
	}
	r.shadowOutcome(ai, ok)
	sel := fmt.Sprintf("SelPick %d %d", sh.eid, ai)
	if probe {
		sel = fmt.Sprintf("SelProbe %d", ai)
	}
	labels := fmt.Sprintf("%s; Out %d %s %s", sel, ai, coqBool(ok), coqBool(probe))
	if op.OneWay && ok {
		labels = fmt.Sprintf("%s; Sent %d %s", sel, ai, coqBool(probe))
		if probe {
			r.classes["one-way-probe"] = true
		}
	}
	if !ok && !op.OneWay {
		// slow endpoint: wait for the answer that leaves after the deadline, give Recv time to find no waiter; in the
		// model a late reply is a label without effect (if it had one here, this and later observations differ)
		g := c15Gates[sh.eid]
		g.mu.Lock()
		delay, up := g.delay, g.up
		g.mu.Unlock()
		if delay > 0 && up && g.has(msg.Req.IRequestId) {
			deadline := time.Now().Add(time.Duration(delay+500) * time.Millisecond)
			for time.Now().Before(deadline) && !g.hasWritten(msg.Req.IRequestId) {
				time.Sleep(500 * time.Microsecond)
			}
			if g.hasWritten(msg.Req.IRequestId) {
				time.Sleep(8 * time.Millisecond)
				labels += fmt.Sprintf("; Late %d", ai)
				r.classes["late-reply"] = true
				if probe {
					r.classes["late-reply-to-probe"] = true
				}
			}
		}
	}
	op.Txt = fmt.Sprintf("real call -> adapter %d endpoint %d probe=%v answered=%v err=%v", ai, sh.eid, probe, ok, err != nil)
	if op.OneWay {
		op.Txt = fmt.Sprintf("real one-way call -> adapter %d endpoint %d probe=%v sent=%v", ai, sh.eid, probe, ok)
	}
	if !op.OneWay && ok && !c15Gates[sh.eid].has(msg.Req.IRequestId) {
		r.fail("failover/answer-from-another-server", fmt.Sprintf("the call was answered, the selected adapter belongs to endpoint %d, but that server never read request %d", sh.eid, msg.Req.IRequestId))
	}
	if probe && ok && !op.OneWay {
		// the reinstating goroutine: reset, then addAliveEp (its last action appends to activeEp)
		deadline := time.Now().Add(3 * time.Second)
		done := false
		for time.Now().Before(deadline) {
			n := uint64(0)
			for _, h := range r.mgr.ActiveEp() {
				if c15EidOfHost(h) == sh.eid {
					n++
				}
			}
			if n > actBefore[sh.eid] {
				done = true
				break
			}
			time.Sleep(200 * time.Microsecond)
		}
		if !done {
			// not a matter of whole seconds: reported even though the wait ran across second boundaries, if it
			// reproduces on three consecutive runs of the history (c15RunCase)
			s := r.snap()
			r.hard = append(r.hard, Failure{Sig: "failover/not-reinstated-after-successful-probe", Desc: fmt.Sprintf("the probe of endpoint %d was answered but 3 s later the endpoint has not been put back (status=%v rr=%b)", sh.eid, adp.VerifC15Health().Status, s.rr)})
			r.straddled = true
			return lbl
		}
		delete(r.pcall, ai)
		l, s2 := r.afterReinstate(ai)
		r.always("reinst", s2)
		_ = l
		return append(lbl, fmt.Sprintf("([%s; Reinstate %d], %s)", labels, ai, r.obs(s2, true)))
	}
	s := r.snap()
	r.always("out", s)
	r.monOutcome(adp, ai, probe, ok, s)
	return append(lbl, fmt.Sprintf("([%s], %s)", labels, r.obs(s, true)))
}

// after the history: every request was read by the server of the endpoint whose adapter carried it, and by no other
func (r *c15Run) e2eFinish() {
	time.Sleep(5 * time.Millisecond)
	for _, c := range r.sent {
		for e, g := range c15Gates {
			if e != c.eid && g.has(c.reqID) {
				r.fail("failover/call-received-by-another-server", fmt.Sprintf("request %d was sent through the adapter of endpoint %d but was read by the server of endpoint %d", c.reqID, c.eid, e))
			}
		}
	}
}

// ---------- histories ----------

var c15Codes = []int64{5, 1, -1, -3, -7, -99, 1000}

func (b *c15B) code(e int, c int64) { b.ops = append(b.ops, c15Op{K: "code", E: e, D: c}) }

func c15E2EGenOne(rng *rand.Rand, i int) c15Case {
	b := &c15B{rng: rng}
	// traffic mix: two-way only / one-way and two-way mixed / one-way only (notification-style client)
	switch rng.Intn(10) {
	case 0, 1, 2:
		b.ow = 0.4
		b.name = "mixed-oneway "
	case 3, 4:
		b.ow = 1
		b.name = "oneway-only "
	}
	// routing mix: plain only / plain and hashed mixed / hashed only (mod-hash, consistent-hash or both)
	switch rng.Intn(10) {
	case 0, 1, 2:
		b.hp, b.hk = 0.5, 0
		b.name += "mixed-hash "
	case 3:
		b.hp, b.hk = 1, 1
		b.name += "modhash-only "
	case 4:
		b.hp, b.hk = 1, 2
		b.name += "conhash-only "
	case 5:
		b.hp, b.hk = 1, 0
		b.name += "hashed-only "
	}
	n := 1 + rng.Intn(3)
	perm := rng.Perm(c15Universe)
	b.refresh(perm[:n])
	for k := 0; k < 2*n; k++ {
		b.call(0, 0, false)
	}
	segs := 2 + rng.Intn(3)
	for k := 0; k < segs; k++ {
		e := b.ep()
		switch rng.Intn(10) {
		case 8: // slow rather than dead: every answer leaves after the caller's deadline (after good calls: the ratio rule is quiet)
			b.segSlow(e)
		case 9: // the registry moves an endpoint (blocked or not) to its inactive list and back
			b.segFlap(true)
		case 6: // the registry answer changes (adapters of dropped endpoints are closed; they may still be queued)
			b.segRefresh()
			for q := 0; q < len(b.reg)+1; q++ {
				b.call(0, 0, false)
			}
		case 0, 1: // an endpoint stops answering or refuses connections: streak, block
			if b.coin(0.5) {
				b.net(e, false)
			} else {
				b.up(e, false)
			}
			for q := 0; q < (5+rng.Intn(2))*len(b.reg); q++ {
				b.call(0, 0, false)
			}
			b.adv(b.pick(4, 5, 6))
			b.check()
			for q := 0; q < 2*len(b.reg); q++ {
				b.call(0, 0, false)
			}
			b.name += fmt.Sprintf("e2e-streak(%d) ", e)
		case 2, 3: // probe after 30 s, answered or not
			b.adv(b.pick(29, 30, 31))
			b.check()
			if b.coin(0.6) {
				b.net(e, true)
				b.up(e, true)
				if b.coin(0.5) { // the recovered server answers, but with an error code: still an answer
					b.code(e, c15Codes[rng.Intn(len(c15Codes))])
				}
				b.adv(b.pick(1, 30))
				b.check()
			}
			for q := 0; q < len(b.reg)+1; q++ {
				b.call(0, 0, false)
			}
			b.name += "e2e-probe "
		case 4: // everything down: calls are still attempted
			for _, x := range b.reg {
				if b.coin(0.5) {
					b.net(x, false)
				} else {
					b.up(x, false)
				}
			}
			for q := 0; q < 5*len(b.reg)+1; q++ {
				b.call(0, 0, false)
			}
			b.adv(5)
			b.check()
			b.call(0, 0, false)
			b.call(0, 0, false)
			for _, x := range b.reg {
				b.net(x, true)
				b.up(x, true)
				if b.coin(0.4) {
					b.code(x, c15Codes[rng.Intn(len(c15Codes))])
				}
			}
			if b.coin(0.6) {
				for q := 0; q < len(b.reg)+1; q++ {
					b.call(0, 0, false) // answered fallback calls are not probes
				}
				b.check()
			}
			b.adv(30)
			b.check()
			for q := 0; q < len(b.reg)+1; q++ {
				b.call(0, 0, false)
			}
			b.name += "e2e-allblocked "
		case 5: // ordinary calls answered with an error code are answered calls: never a reason to block
			b.code(e, c15Codes[rng.Intn(len(c15Codes))])
			for q := 0; q < 6*len(b.reg); q++ {
				b.call(0, 0, false)
			}
			b.adv(b.pick(5, 61))
			b.check()
			b.call(0, 0, false)
			if b.coin(0.5) {
				b.code(e, 0)
			}
			b.name += fmt.Sprintf("e2e-errcode(%d) ", e)
		default: // ratio rule: a few failures among successes, 60 s
			b.up(e, false)
			for q := 0; q < 2*len(b.reg); q++ {
				b.call(0, 0, false)
			}
			b.up(e, true)
			for q := 0; q < len(b.reg); q++ {
				b.call(0, 0, false)
			}
			b.adv(b.pick(59, 61))
			b.check()
			b.call(0, 0, false)
			b.name += fmt.Sprintf("e2e-ratio(%d) ", e)
		}
	}
	b.check()
	return c15Case{Name: b.name, Ops: b.ops, Up: c15AllUp(), E2E: true, Timeout: 40}
}

func c15E2ECorpus() []c15Case {
	var out []c15Case
	mk := func(name string, f func(b *c15B)) {
		b := &c15B{rng: rand.New(rand.NewSource(1))}
		f(b)
		out = append(out, c15Case{Name: name, Ops: b.ops, Up: c15AllUp(), E2E: true, Timeout: 40})
	}
	// the life cycle of the property statement, with real calls: silent server -> deadline failures -> blocked ->
	// not selected -> probe (one call) -> answered -> back in rotation
	for _, refuse := range []bool{false, true} {
		refuse := refuse
		mk(fmt.Sprintf("e2e-lifecycle(refuse=%v)", refuse), func(b *c15B) {
			b.refresh([]int{0, 1})
			for i := 0; i < 4; i++ {
				b.call(0, 0, false)
			}
			if refuse {
				b.net(1, false)
			} else {
				b.up(1, false)
			}
			for i := 0; i < 11; i++ {
				b.call(0, 0, false)
			}
			b.adv(5)
			b.check()
			for i := 0; i < 4; i++ {
				b.call(0, 0, false)
			}
			b.adv(30)
			b.check() // refused: ReConnect fails, no probe; silent: connection is fine, probe queued
			b.call(0, 0, false)
			b.call(0, 0, false)
			b.net(1, true)
			b.up(1, true)
			b.adv(30)
			b.check()
			b.call(0, 0, false)
			b.call(0, 0, false)
			b.call(0, 0, false)
			b.check()
		})
	}
	// endpoint 1 blocked while endpoint 0 stays active; >= 30 s later a check queues the probe; the probe is answered
	// with a non-zero return code (server-side error / framework code): an answer, so endpoint 1 comes back
	for _, code := range []int64{5, -3, -7} {
		code := code
		mk(fmt.Sprintf("e2e-probe-answered-with-error-code(%d)", code), func(b *c15B) {
			b.refresh([]int{0, 1})
			for i := 0; i < 4; i++ {
				b.call(0, 0, false)
			}
			b.up(1, false)
			for i := 0; i < 11; i++ {
				b.call(0, 0, false)
			}
			b.adv(5)
			b.check()
			for i := 0; i < 3; i++ {
				b.call(0, 0, false)
			}
			b.up(1, true)
			b.code(1, code)
			b.adv(30)
			b.check()
			b.call(0, 0, false) // the probe
			b.check()
			for i := 0; i < 12; i++ {
				b.call(0, 0, false) // error-code answers on ordinary calls: endpoint 1 stays in rotation
			}
			b.adv(6)
			b.check()
			b.adv(61)
			b.check()
			b.call(0, 0, false)
			b.call(0, 0, false)
		})
	}
	// one-way traffic (only, and mixed with two-way) against an endpoint that refuses connections: a call that fails at
	// Send is a failed call whatever its packet type; the dead endpoint leaves rotation
	for _, mix := range []int{1, 2, 3} {
		mix := mix
		name := "e2e-oneway-dead-endpoint(one-way only)"
		if mix > 1 {
			name = fmt.Sprintf("e2e-oneway-dead-endpoint(every %d. call two-way)", mix)
		}
		mk(name, func(b *c15B) {
			k := 0
			call := func() {
				k++
				b.call(0, 0, false)
				if mix == 1 || k%mix != 0 {
					b.ops[len(b.ops)-1].OneWay = true
				}
			}
			b.refresh([]int{0, 1})
			for i := 0; i < 8; i++ {
				call()
			}
			b.net(1, false)
			for i := 0; i < 13; i++ {
				call()
			}
			b.adv(5)
			b.check() // endpoint 1 is out
			for i := 0; i < 4; i++ {
				call()
			}
			b.net(1, true)
			b.adv(30)
			b.check()
			call() // the probe; if one-way: handed to the transport, no answer, stays blocked
			call()
			b.adv(30)
			b.check()
			b.call(0, 0, false) // a two-way probe (if one is queued) is answered: back
			b.call(0, 0, false)
			b.check()
		})
	}
	// hashed traffic only: the due probe must be carried by the next call whatever its routing kind, and the endpoint
	// comes back once that probe is answered
	for _, kind := range []int{1, 2} {
		kind := kind
		mk(fmt.Sprintf("e2e-hashed-only-probe(kind=%d)", kind), func(b *c15B) {
			b.hp, b.hk = 1, kind
			b.refresh([]int{0, 1, 2})
			for i := 0; i < 12; i++ {
				b.call(0, 0, false)
			}
			b.up(1, false)
			for i := 0; i < 40; i++ {
				b.call(0, 0, false)
			}
			b.adv(5)
			b.check()
			for i := 0; i < 4; i++ {
				b.call(0, 0, false)
			}
			b.up(1, true)
			b.adv(30)
			b.check()
			b.call(0, 0, false) // hashed, carries the probe
			b.call(0, 0, false)
			b.check()
			for i := 0; i < 6; i++ {
				b.call(0, 0, false)
			}
		})
	}
	// slow, not dead: after good calls every answer of endpoint 1 leaves after the caller's deadline
	mk("e2e-slow-endpoint", func(b *c15B) {
		b.refresh([]int{0, 1})
		for i := 0; i < 16; i++ {
			b.call(0, 0, false)
		}
		b.slow(1, 65)
		for i := 0; i < 11; i++ {
			b.call(0, 0, false)
		}
		b.adv(5)
		b.check() // endpoint 1: >= 5 timeouts in a row over >= 5 s: out, like a silent one
		for i := 0; i < 4; i++ {
			b.call(0, 0, false)
		}
		b.adv(30)
		b.check()
		b.call(0, 0, false) // probe, answered late: stays blocked
		b.slow(1, 0)
		b.adv(30)
		b.check()
		b.call(0, 0, false)
		b.call(0, 0, false)
		b.check()
	})
	// blocked endpoint moved to the registry's inactive list and back: stays out until a probe is answered
	mk("e2e-blocked-endpoint-flap", func(b *c15B) {
		b.refresh([]int{0, 1, 2})
		for i := 0; i < 6; i++ {
			b.call(0, 0, false)
		}
		b.up(1, false)
		for i := 0; i < 16; i++ {
			b.call(0, 0, false)
		}
		b.adv(5)
		b.check()
		b.refreshI([]int{0, 2}, []int{1})
		for i := 0; i < 3; i++ {
			b.call(0, 0, false)
		}
		b.up(1, true)
		b.refreshI([]int{0, 1, 2}, nil)
		b.check()
		for i := 0; i < 6; i++ {
			b.call(0, 0, false)
		}
		b.adv(30)
		b.check()
		for i := 0; i < 4; i++ {
			b.call(0, 0, false)
		}
		b.check()
	})
	mk("e2e-all-blocked", func(b *c15B) {
		b.refresh([]int{2, 3})
		for i := 0; i < 4; i++ {
			b.call(0, 0, false)
		}
		b.net(2, false)
		b.up(3, false)
		for i := 0; i < 11; i++ {
			b.call(0, 0, false)
		}
		b.adv(5)
		b.check()
		for i := 0; i < 3; i++ {
			b.call(0, 0, false)
		}
		b.net(2, true)
		b.up(3, true)
		for i := 0; i < 4; i++ {
			b.call(0, 0, false) // answered, but not probes: both endpoints stay blocked
		}
		b.check()
		b.adv(30)
		b.check()
		for i := 0; i < 4; i++ {
			b.call(0, 0, false)
		}
		b.check()
	})
	return out
}

func (b *c15B) slow(e int, ms int64) { b.ops = append(b.ops, c15Op{K: "slow", E: e, D: ms}) }

// slow endpoint: good calls first, then every call on e times out and is answered late, over >= 5 s; status check; it must be
// out exactly as a silent endpoint would be; optionally it recovers and is probed
func (b *c15B) segSlow(e int) {
	n := len(b.reg)
	for _, x := range b.reg {
		b.net(x, true)
		b.up(x, true)
		b.code(x, 0)
	}
	for q := 0; q < int(b.pick(6, 8))*n; q++ {
		b.call(0, 0, false)
	}
	b.slow(e, b.pick(60, 75))
	for q := 0; q < int(b.pick(5, 6))*n; q++ {
		b.call(0, 0, false)
	}
	b.adv(b.pick(5, 6))
	b.check()
	for q := 0; q < 2*n; q++ {
		b.call(0, 0, false)
	}
	if b.coin(0.5) {
		b.adv(30)
		b.check()
		b.call(0, 0, false) // the probe is answered late too: stays blocked
		b.check()
	}
	if b.coin(0.6) {
		b.slow(e, 0)
		b.adv(31)
		b.check()
		for q := 0; q < n+1; q++ {
			b.call(0, 0, false)
		}
	} else {
		b.slow(e, 0)
	}
	b.name += fmt.Sprintf("slow(%d) ", e)
}

func c15Without(l []int, e int) []int {
	var out []int
	for _, x := range l {
		if x != e {
			out = append(out, x)
		}
	}
	return out
}

// registry flap: endpoint e (first blocked, most of the time) moves active -> inactive -> active; other list changes
// happen meanwhile; no probe of e is answered unless the history says so. real = real-call history (failures by silence).
func (b *c15B) segFlap(real bool) {
	if len(b.reg) < 2 {
		return
	}
	e := b.ep()
	n := len(b.reg)
	block := b.coin(0.8)
	if block {
		if real {
			b.up(e, false)
			for q := 0; q < int(b.pick(5, 6))*n; q++ {
				b.call(0, 0, false)
			}
		} else {
			b.outs(e, int(b.pick(5, 6)), false)
		}
		b.adv(b.pick(5, 6))
		b.check()
	}
	active := append([]int(nil), b.reg...)
	rest := c15Without(active, e)
	b.refreshI(rest, []int{e}) // e inactive
	for q := 0; q < n; q++ {
		b.call(0, 0, false)
	}
	if b.coin(0.5) {
		b.adv(b.pick(1, 30, 31))
		b.check()
	}
	if b.coin(0.3) { // another list change while e is inactive: some other endpoint joins or leaves
		var other []int
		for x := 0; x < c15Universe; x++ {
			if x != e {
				in := false
				for _, y := range rest {
					in = in || y == x
				}
				if in && (len(other) == 0 || b.coin(0.7)) || !in && b.coin(0.3) {
					other = append(other, x)
				}
			}
		}
		if len(other) > 0 {
			rest = other
			b.refreshI(rest, []int{e})
			b.call(0, 0, false)
		}
	}
	if real {
		b.up(e, true)
	}
	back := append(append([]int(nil), rest...), e)
	b.refreshI(back, nil) // e active again: no probe has been answered, it must stay out if it was blocked
	b.check()
	for q := 0; q < len(back)+1; q++ {
		b.call(0, 0, false)
	}
	if b.coin(0.5) { // now the regular way back
		b.adv(31)
		b.check()
		for q := 0; q < len(back)+1; q++ {
			b.call(0, 0, false)
		}
	}
	b.name += fmt.Sprintf("flap(%d,blocked=%v) ", e, block)
}
