package main

// C14 — hash routing: history generators and the implementation-side monitors that compare two selectors
// (history independence, minimal disruption), plus the search for a real virtual-node collision.

import (
	"fmt"
	"math/rand"

	"github.com/TarsCloud/TarsGo/tars/selector/consistenthash"
	"github.com/TarsCloud/TarsGo/tars/util/endpoint"
)

func c14Gen(tier string, rng *rand.Rand) []c13Case {
	n := 15
	if tier == "thorough" {
		n = 300
	}
	var cs []c13Case
	for i := 0; i < n; i++ {
		for _, k := range []string{"conhash-ketama", "conhash-default", "modhash"} {
			for _, w := range []bool{false, true} {
				mode := "conhash"
				if k == "modhash" {
					mode = []string{"plain", "mixed", "ratio"}[(i+i/6)%3] // not in step with the scripted history i%6
				}
				c := c13GenHistory(rng, k, w, mode)
				c13AddRingCodes(&c)
				cs = append(cs, c)
				c = c13GenScenario(rng, k, w, mode, i)
				c13AddRingCodes(&c)
				cs = append(cs, c)
			}
		}
	}
	cs = append(cs, c14MgrGenCases(tier, rng)...)
	return append(cs, c14MgrHealthGen(tier, rng)...)
}

func c14Probe(rng *rand.Rand, keys []uint32) []uint32 {
	codes := []uint32{0, 1, 0x7fffffff, 0x80000000, 0xfffffffe, 0xffffffff}
	for i := 0; i < len(keys); i += 1 + len(keys)/60 {
		codes = append(codes, keys[i], keys[i]-1, keys[i]+1)
	}
	if len(keys) > 0 {
		codes = append(codes, keys[0], keys[0]-1, keys[len(keys)-1], keys[len(keys)-1]+1)
	}
	for i := 0; i < 300; i++ {
		codes = append(codes, rng.Uint32())
	}
	return codes
}

// ---------- implementation-side monitors: history independence, minimal disruption ----------
func c14Extra(tier string, rng *rand.Rand, res *Result) {
	n := 40
	if tier == "thorough" {
		n = 600
	}
	count := 0
	for it := 0; it < n; it++ {
		kind := []string{"conhash-ketama", "conhash-default"}[it%2]
		weighted := it%4 >= 2
		k := 2 + rng.Intn(9)
		perm := rng.Perm(len(c13HostPool))[:k]
		var set []c13Ep
		for _, p := range perm {
			w := int32(100)
			if weighted {
				w = []int32{4, 8, 40, 100, 400}[rng.Intn(5)]
			}
			set = append(set, c13Ep{Host: c13HostPool[p], Port: 1, Weight: w, WType: 1})
		}
		// history A: refresh with the set.  History B: a larger refresh first, removals of the extras, adds in another
		// order with detours (add + remove of other hosts, removal through a value with another weight).
		var script []string
		a := c13NewSelector(kind, weighted)
		l := c13Eps(set)
		a.Refresh(l)
		b := c13NewSelector(kind, weighted)
		switch rng.Intn(3) {
		case 0:
			b.Refresh(l[:len(l)/2])
			script = append(script, fmt.Sprintf("refresh(first %d)", len(l)/2))
		case 1:
			extra := []c13Ep{{Host: "extra-1", Port: 1, Weight: 40, WType: 1}, {Host: "extra-2", Port: 1, Weight: 100, WType: 1}}
			b.Refresh(append(c13Eps(extra), l...))
			b.Refresh(append(c13Eps(extra[:1]), l[:1+len(l)/2]...))
			x := extra[0]
			x.Weight = 8
			b.Remove(x.ep())
			script = append(script, "refresh(extra-1,extra-2,all)", fmt.Sprintf("refresh(extra-1, first %d)", 1+len(l)/2), "remove(extra-1 with weight 8)")
		}
		for _, p := range rng.Perm(len(set)) {
			if rng.Intn(3) == 0 {
				other := c13Ep{Host: "detour-" + fmt.Sprint(rng.Intn(3)), Port: 1, Weight: set[p].Weight, WType: 1}
				b.Add(other.ep())
				b.Add(set[p].ep())
				b.Remove(other.ep())
				script = append(script, "add("+other.Host+")", "add("+set[p].Host+")", "remove("+other.Host+")")
			} else {
				b.Add(set[p].ep())
				script = append(script, "add("+set[p].Host+")")
			}
		}
		// remove one / add one
		victim := set[rng.Intn(len(set))]
		ar := c13NewSelector(kind, weighted)
		ar.Refresh(l)
		ar.Remove(victim.ep())
		newcomer := c13Ep{Host: "newcomer", Port: 1, Weight: victim.Weight, WType: 1}
		aa := c13NewSelector(kind, weighted)
		aa.Refresh(l)
		aa.Add(newcomer.ep())
		keys, _ := a.(*consistenthash.ConsistentHash).VerifRing()
		nk, _ := aa.(*consistenthash.ConsistentHash).VerifRing()
		for _, code := range c14Probe(rng, append(keys, nk...)) {
			count++
			ea, _ := a.Select(c13Msg{code})
			eb, _ := b.Select(c13Msg{code})
			if ea.Host != eb.Host {
				res.Failures = append(res.Failures, Failure{Sig: "hash-routing/" + kind + "/history-dependent", Desc: fmt.Sprintf("two selectors holding the same set %v route code %d to %s (set installed by one Refresh) and %s (history %v)", set, code, ea.Host, eb.Host, script), Replay: map[string]interface{}{"kind": kind, "weighted": weighted, "set": set, "code": code, "history_b": script}})
				break
			}
			er, _ := ar.Select(c13Msg{code})
			if er.Host != ea.Host && ea.Host != victim.Host {
				res.Failures = append(res.Failures, Failure{Sig: "hash-routing/" + kind + "/remove-not-minimal", Desc: fmt.Sprintf("removing %s re-routed code %d from %s to %s", victim.Host, code, ea.Host, er.Host), Replay: map[string]interface{}{"kind": kind, "weighted": weighted, "set": set, "code": code, "removed": victim}})
				break
			}
			en, _ := aa.Select(c13Msg{code})
			if en.Host != ea.Host && en.Host != newcomer.Host {
				res.Failures = append(res.Failures, Failure{Sig: "hash-routing/" + kind + "/add-not-minimal", Desc: fmt.Sprintf("adding %s moved code %d from %s to %s", newcomer.Host, code, ea.Host, en.Host), Replay: map[string]interface{}{"kind": kind, "weighted": weighted, "set": set, "code": code, "added": newcomer}})
				break
			}
		}
	}
	res.Evaluations += count
	res.Stats["history_independence_and_disruption_probes"] = count
	c14Collision(tier, res)
	c14PrefixFamilies(res)
	c14CtxRouting(tier, rng, res)
	c14MgrHistories(tier, rng, res)
	c13RaceStress(tier, rng, res, "hash", "hash-routing") // lookups concurrent with Add / Remove / Refresh, under the race detector
}

// c14Collision searches generated host names for two hosts with a common virtual node (a real md5 collision on
// 32 bits) and, when one exists, shows on the implementation that the routing of that point depends on the
// order in which the two hosts were installed — the case the NoCollision hypothesis of the theorems excludes.
func c14Collision(tier string, res *Result) {
	hosts := 1500
	if tier == "thorough" {
		hosts = 6000
	}
	owner := map[uint32]int{}
	name := func(i int) c13Ep {
		return c13Ep{Host: fmt.Sprintf("10.%d.%d.%d", 1+i/65536, (i/256)%256, i%256), Port: 1, Weight: 100, WType: 1}
	}
	kind := "conhash-ketama"
	found := 0
	var first [2]int
	var firstKey uint32
	for i := 0; i < hosts; i++ {
		s := c13NewSelector(kind, false).(*consistenthash.ConsistentHash)
		s.Refresh([]endpoint.Endpoint{name(i).ep()})
		keys, _ := s.VerifRing()
		for _, k := range keys {
			if j, ok := owner[k]; ok && j != i {
				if found == 0 {
					first, firstKey = [2]int{j, i}, k
				}
				found++
			} else {
				owner[k] = i
			}
		}
	}
	st := map[string]interface{}{"hosts_searched": hosts, "points": len(owner), "colliding_points_found": found}
	res.Stats["virtual_node_collision_search"] = st
	if found == 0 {
		return
	}
	x, y := name(first[0]), name(first[1])
	s1 := c13NewSelector(kind, false)
	s1.Refresh([]endpoint.Endpoint{x.ep(), y.ep()})
	s2 := c13NewSelector(kind, false)
	s2.Refresh([]endpoint.Endpoint{y.ep(), x.ep()})
	e1, _ := s1.Select(c13Msg{firstKey})
	e2, _ := s2.Select(c13Msg{firstKey})
	st["first"] = map[string]interface{}{"hosts": []string{x.Host, y.Host}, "point": firstKey, "refresh_xy_routes_to": e1.Host, "refresh_yx_routes_to": e2.Host}
	if e1.Host != e2.Host {
		res.Failures = append(res.Failures, Failure{Sig: fmt.Sprintf("hash-routing/conhash-ketama/virtual-node-collision/order-dependent/%s+%s", x.Host, y.Host),
			Desc:   fmt.Sprintf("hosts %s and %s share the virtual node %d; Refresh([%s,%s]) routes code %d to %s, Refresh([%s,%s]) routes it to %s: with colliding virtual nodes the mapping depends on the installation order", x.Host, y.Host, firstKey, x.Host, y.Host, firstKey, e1.Host, y.Host, x.Host, e2.Host),
			Replay: map[string]interface{}{"kind": kind, "hosts": []c13Ep{x, y}, "code": firstKey}})
	}
}

// c14PrefixFamilies: the virtual nodes of different hosts of the pool - which contains names that are prefixes of other
// names continuing with digits - must be disjoint, for 25 rounds (weights off) and 100 rounds (weight 400), both hash
// algorithms; and the two installation orders of any two of them must route alike.  (The pool is fixed, so this is
// deterministic: no md5 coincidence among these names on the unchanged tree.)
func c14PrefixFamilies(res *Result) {
	checked := 0
	for _, kind := range []string{"conhash-ketama", "conhash-default"} {
		for _, weighted := range []bool{false, true} {
			owner := map[uint32]string{}
			reported := false
			for _, h := range c13HostPool {
				e := c13Ep{Host: h, Port: 1, Weight: 400, WType: 1}
				for _, k := range c13PointsOf(kind, weighted, e) {
					checked++
					o, ok := owner[k]
					if !ok || o == h {
						owner[k] = h
						continue
					}
					if reported {
						continue
					}
					reported = true
					x, y := c13Ep{Host: o, Port: 1, Weight: 400, WType: 1}, e
					s1, s2 := c13NewSelector(kind, weighted), c13NewSelector(kind, weighted)
					s1.Refresh(c13Eps([]c13Ep{x, y}))
					s2.Refresh(c13Eps([]c13Ep{y, x}))
					e1, _ := s1.Select(c13Msg{k})
					e2, _ := s2.Select(c13Msg{k})
					res.Failures = append(res.Failures, Failure{Sig: fmt.Sprintf("hash-routing/%s/virtual-nodes-of-different-hosts-shared/%s+%s", kind, o, h),
						Desc:   fmt.Sprintf("hosts %s and %s (weights enabled=%v) both own the virtual node %d: their virtual-node names are not kept apart; Refresh([%s,%s]) routes code %d to %s, Refresh([%s,%s]) to %s", o, h, weighted, k, o, h, k, e1.Host, h, o, e2.Host),
						Replay: map[string]interface{}{"kind": kind, "weighted": weighted, "hosts": []c13Ep{x, y}, "code": k}})
				}
			}
		}
	}
	res.Evaluations += checked
	res.Stats["virtual_nodes_of_pool_hosts_checked_disjoint"] = checked
}
