package main

// C15 — failover: AdapterProxy health logic and endpointManager status check / selection / probe queue
// against the model Select/Failover.v.
//
// Corpus (a): a real endpointManager (fake public Registrar, not registered with the global manager, so no
// periodic goroutine touches it) and its real AdapterProxy objects are driven op by op: accounting through
// sendAdd/successAdd/failAdd, checkStatus, SelectAdapterProxy, reset+addAliveEp, doFresh; elapsed seconds are
// VerifC15Shift of the three health timestamps. After every op the observable state is recorded; the Coq model
// must accept the resulting labelled trace (L2), and monitors phrased in terms of the property itself run on
// ground truth kept by the harness (L3).

import (
	"context"
	"fmt"
	"math/rand"
	"net"
	"os"
	"sort"
	"strings"
	"sync"
	"syscall"
	"time"

	"github.com/TarsCloud/TarsGo/tars"
	"github.com/TarsCloud/TarsGo/tars/protocol/res/endpointf"
	tarsreg "github.com/TarsCloud/TarsGo/tars/registry"
	"github.com/TarsCloud/TarsGo/tars/util/endpoint"
)

func init() {
	constGens = append(constGens, func() {
		k := tars.VerifC15GetConsts()
		fmt.Printf("Definition c_fainN := %d.\n", k.FainN)
		fmt.Printf("Definition c_failInterval := %d.\n", k.FailInterval)
		fmt.Printf("Definition c_checkTime := %d.\n", k.CheckTime)
		fmt.Printf("Definition c_overN := %d.\n", k.OverN)
		fmt.Printf("Definition c_failRatioNum := %s.\n", k.FailRatioNum)
		fmt.Printf("Definition c_failRatioDen := %s.\n", k.FailRatioDen)
		fmt.Printf("Definition c_tryTimeInterval := %d.\n", k.TryTimeInterval)
	})
	props["C15"] = func(a Args) { runProp(c15Prop(), a) }
	props["C14ctx"] = c14ctxMain
}

const c15Universe = 6
const c15Cap = 100000

// ---------- gates: one loopback address per endpoint; "reachable" = listening, "unreachable" = bound, not listening ----------

type c15Gate struct {
	host  string
	port  int
	mu    sync.Mutex
	ln    net.Listener
	raw   int
	conns []net.Conn
	up    bool           // scripted server (real-call histories): answer or stay silent
	got   map[int32]bool // request ids this server has read
	code  int32          // return code of the answers (0 = success; non-zero = server-side / framework error reply)
	delay int            // ms: answer only after this delay (slow endpoint: set above the caller's deadline)
	wrote map[int32]bool // request ids this server has written its answer for
}

var c15Gates []*c15Gate
var c15GateOnce sync.Once

func c15Host(i int) string {
	p := os.Getpid()
	return fmt.Sprintf("127.%d.%d.%d", 64+p%64, 1+(p/64)%250, 101+i)
}

func c15InitGates() {
	c15GateOnce.Do(func() {
		for i := 0; i < c15Universe; i++ {
			g := &c15Gate{host: c15Host(i), raw: -1}
			ln, err := net.Listen("tcp", g.host+":0")
			if err != nil {
				fatal("c15: listen %s: %v", g.host, err)
			}
			g.port = ln.Addr().(*net.TCPAddr).Port
			g.ln = ln
			go g.acceptLoop(ln)
			c15Gates = append(c15Gates, g)
		}
	})
}

func (g *c15Gate) acceptLoop(ln net.Listener) {
	for {
		c, err := ln.Accept()
		if err != nil {
			return
		}
		g.mu.Lock()
		g.conns = append(g.conns, c)
		g.mu.Unlock()
		go g.serve(c)
	}
}

func (g *c15Gate) open() {
	if g.ln != nil {
		return
	}
	if g.raw >= 0 {
		syscall.Close(g.raw)
		g.raw = -1
	}
	var ln net.Listener
	var err error
	for k := 0; k < 50; k++ {
		ln, err = net.Listen("tcp", fmt.Sprintf("%s:%d", g.host, g.port))
		if err == nil {
			break
		}
		time.Sleep(2 * time.Millisecond)
	}
	if err != nil {
		fatal("c15: re-listen %s:%d: %v", g.host, g.port, err)
	}
	g.ln = ln
	go g.acceptLoop(ln)
}

func (g *c15Gate) shut() {
	if g.ln == nil {
		return
	}
	g.ln.Close()
	g.ln = nil
	g.mu.Lock()
	for _, c := range g.conns {
		c.Close()
	}
	g.conns = nil
	g.mu.Unlock()
	fd, err := syscall.Socket(syscall.AF_INET, syscall.SOCK_STREAM, 0)
	if err != nil {
		fatal("c15: socket: %v", err)
	}
	syscall.SetsockoptInt(fd, syscall.SOL_SOCKET, syscall.SO_REUSEADDR, 1)
	ip := net.ParseIP(g.host).To4()
	sa := &syscall.SockaddrInet4{Port: g.port}
	copy(sa.Addr[:], ip)
	for k := 0; k < 50; k++ {
		if err = syscall.Bind(fd, sa); err == nil {
			break
		}
		time.Sleep(2 * time.Millisecond)
	}
	if err != nil {
		fatal("c15: bind %s:%d: %v", g.host, g.port, err)
	}
	g.raw = fd
}

func c15Epf(i int) endpointf.EndpointF {
	g := c15Gates[i]
	return endpointf.EndpointF{Host: g.host, Port: int32(g.port), Istcp: endpoint.TCP, Timeout: 3000}
}

func c15EidOfHost(h string) int {
	for i, g := range c15Gates {
		if g.host == h {
			return i
		}
	}
	return -1
}

type c15Registrar struct {
	mu    sync.Mutex
	eps   []int
	inact []int // endpoints the registry lists as inactive
}

func (r *c15Registrar) Registry(context.Context, *tarsreg.ServantInstance) error   { return nil }
func (r *c15Registrar) Deregister(context.Context, *tarsreg.ServantInstance) error { return nil }
func (r *c15Registrar) QueryServant(context.Context, string) ([]tarsreg.Endpoint, []tarsreg.Endpoint, error) {
	r.mu.Lock()
	defer r.mu.Unlock()
	out := make([]tarsreg.Endpoint, 0, len(r.eps))
	for _, i := range r.eps {
		out = append(out, c15Epf(i))
	}
	var in []tarsreg.Endpoint
	for _, i := range r.inact {
		in = append(in, c15Epf(i))
	}
	return out, in, nil
}
func (r *c15Registrar) QueryServantBySet(ctx context.Context, id, _ string) ([]tarsreg.Endpoint, []tarsreg.Endpoint, error) {
	return r.QueryServant(ctx, id)
}

// ---------- ops (the replayable case) and observations ----------

type c15Op struct {
	K     string `json:"k"`               // adv | out | call | check | reinst | refresh | net | up | code (D = return code of the server's answers) | slow (D = ms the server waits before answering; 0 = off)
	D     int64  `json:"d,omitempty"`     // adv: seconds
	E     int    `json:"e"`               // out: endpoint whose attached adapter is charged; net: endpoint
	Ok    bool   `json:"ok,omitempty"`    // out: answered / failed; net: reachable
	Hash  int    `json:"hash,omitempty"`  // call: 0 none, 1 mod hash, 2 consistent hash
	Code  uint32 `json:"code,omitempty"`  // call: hash code
	Defer bool   `json:"defer,omitempty"` // call: if this is an answered probe, leave the reinstatement to a later "reinst"
	OneWay bool  `json:"oneway,omitempty"` // call (real-call histories): a one-way call (nothing is awaited)
	L     []int  `json:"l,omitempty"`     // refresh: what the registry returns as active
	I     []int  `json:"i,omitempty"`     // refresh: what the registry returns as inactive
	// recorded
	Lbl string `json:"lbl,omitempty"` // model labels with observations, Coq syntax
	Txt string `json:"txt,omitempty"` // short human-readable trace of what happened
}

type c15Case struct {
	Name     string  `json:"name"`
	Ops      []c15Op `json:"ops"`
	Up       []bool  `json:"up"` // initial scripted server health per endpoint
	E2E      bool    `json:"e2e,omitempty"`      // real calls: TarsInvoke -> doInvoke against scripted servers
	Timeout  int     `json:"timeout_ms,omitempty"`
	Skipped  bool    `json:"skipped,omitempty"`
	Retries  int     `json:"retries,omitempty"`
	Diverted int     `json:"hash_calls_diverted_as_probe,omitempty"`
	Classes  []string `json:"classes,omitempty"`
	c14      []Failure // C14's manager-level clause (hash routing through SelectAdapterProxy); not part of the C15 verdict
}

type c15Shadow struct { // ground truth kept by the harness, in the property's own terms
	eid      int
	gfail    int   // failed calls since creation / last reinstatement
	streak   int   // consecutive failures
	lastSucc int64 // model second of the last success, -1 = never
	status   bool
	enq      int // probe requests queued for this adapter
	probes   int // times handed out as probe
}

type c15Run struct {
	mgr     *tars.VerifC15Mgr
	regr    *c15Registrar
	adps    []*tars.AdapterProxy
	aid     map[*tars.AdapterProxy]int
	sh      []*c15Shadow
	now     int64
	up      []bool
	reach   []bool
	pending []int // adapters with an answered probe whose reinstatement has not run
	pcall   map[int]bool
	shrunk  bool         // a refresh dropped an endpoint that had an adapter from BOTH registry lists (ground truth: what the harness fed)
	epOut   map[int]bool // endpoint-level ground truth: an adapter of it was blocked and none has been reinstated since
	lastReq map[int]int64
	fails   []Failure
	c14     []Failure
	classes map[string]bool
	divert  int
	// real-call histories (c15e2e.go)
	e2e       bool
	sp        *tars.ServantProxy
	timeoutMs int
	wall      int64 // wall-clock second the model clock is synchronised to
	straddled bool  // a time-sensitive step ran across a wall-clock second boundary: the history is re-run
	hard      []Failure // failures that do not depend on whole seconds (reported if they reproduce three times in a row)
	sent      []c15Sent
}

func (r *c15Run) fail(sig, desc string) {
	r.fails = append(r.fails, Failure{Sig: sig, Desc: desc})
}

func (r *c15Run) idOf(a *tars.AdapterProxy) (int, bool) {
	if i, ok := r.aid[a]; ok {
		return i, false
	}
	i := len(r.adps)
	r.aid[a] = i
	r.adps = append(r.adps, a)
	r.sh = append(r.sh, &c15Shadow{eid: c15EidOfHost(a.VerifC15Health().Host), lastSucc: -1, status: true})
	return i, true
}

type c15Snap struct {
	st, q, pset, rr, ch, mh, reg, act, att uint64
	attached                          map[int]int // eid -> aid
}

func c15MaskHosts(hs []string) uint64 {
	var m uint64
	for _, h := range hs {
		if i := c15EidOfHost(h); i >= 0 {
			m |= 1 << uint(i)
		}
	}
	return m
}

func (r *c15Run) snap() c15Snap {
	var s c15Snap
	for i, a := range r.adps {
		if a.VerifC15Health().Status {
			s.st |= 1 << uint(i)
		}
	}
	s.q = uint64(r.mgr.ProbeQueueLen())
	s.pset = c15MaskHosts(r.mgr.ProbeSet())
	s.reg = c15MaskHosts(r.mgr.Registry())
	for _, h := range r.mgr.ActiveEp() {
		if i := c15EidOfHost(h); i >= 0 {
			s.act += 1 << uint(4*i)
		}
	}
	rr, ch, mh := r.mgr.Selectors()
	if rr != nil {
		for k := 0; k < 2*c15Universe; k++ {
			if ep, err := rr.Select(&tars.Message{}); err == nil {
				s.rr |= c15MaskHosts([]string{ep.Host})
			}
		}
	}
	if ch != nil {
		_, owners := ch.VerifRing()
		s.ch = c15MaskHosts(owners)
	}
	if mh != nil {
		for k := 0; k < 2*c15Universe; k++ {
			m := &tars.Message{}
			m.SetHash(uint32(k), tars.ModHash)
			if ep, err := mh.Select(m); err == nil {
				s.mh |= c15MaskHosts([]string{ep.Host})
			}
		}
	}
	s.attached = map[int]int{}
	for h, a := range r.mgr.Adapters() {
		s.att |= c15MaskHosts([]string{h})
		if i, ok := r.aid[a]; ok {
			s.attached[c15EidOfHost(h)] = i
		} else {
			s.attached[c15EidOfHost(h)] = -2 // an adapter the harness has never been handed
		}
	}
	return s
}

func c15Age(now, t int64) int64 {
	d := now - t
	if d > c15Cap {
		d = c15Cap
	}
	if d < 0 {
		d = 0
	}
	return d
}

func (r *c15Run) obs(s c15Snap, full bool) string {
	f := "None"
	if full {
		now := time.Now().Unix()
		var rows []string
		for _, a := range r.adps {
			h := a.VerifC15Health()
			st := 0
			if h.Status {
				st = 1
			}
			rows = append(rows, fmt.Sprintf("[%d;%d;%d;%d;%d;%d;%d;%d]", c15EidOfHost(h.Host), st, h.FailCount, h.LastFailCount, h.SendCount,
				c15Age(now, h.LastSuccessTime), c15Age(now, h.LastBlockTime), c15Age(now, h.LastCheckTime)))
		}
		f = "(Some [" + strings.Join(rows, ";") + "])"
	}
	return fmt.Sprintf("(mkO %d %d %d %d %d %d %d %d %d %s)", s.st, s.q, s.pset, s.rr, s.ch, s.mh, s.reg, s.act, s.att, f)
}

func c15List(l []int) string {
	s := make([]string, len(l))
	for i, x := range l {
		s[i] = fmt.Sprint(x)
	}
	return "[" + strings.Join(s, ";") + "]"
}

func (r *c15Run) inSelectors(s c15Snap, e int) bool {
	b := uint64(1) << uint(e)
	return s.rr&b != 0 && s.ch&b != 0 && s.mh&b != 0
}
func (r *c15Run) inAnySelector(s c15Snap, e int) bool {
	b := uint64(1) << uint(e)
	return s.rr&b != 0 || s.ch&b != 0 || s.mh&b != 0
}

// after every op: monitors that hold at all times
func (r *c15Run) always(op string, s c15Snap) {
	for i, a := range r.adps {
		st := a.VerifC15Health().Status
		sh := r.sh[i]
		if sh.status && !st {
			if op != "check" {
				r.fail("failover/blocked-outside-status-check", fmt.Sprintf("adapter %d (endpoint %d) went from active to blocked during %q", i, sh.eid, op))
			}
			if sh.gfail < 2 {
				r.fail("failover/blocked-with-fewer-than-2-failures", fmt.Sprintf("endpoint %d was taken out of rotation with %d failed call(s) since it was last (re)instated", sh.eid, sh.gfail))
			}
			r.classes["blocked"] = true
			r.epOut[sh.eid] = true
		}
		if !sh.status && st && op != "reinst" {
			r.fail("failover/unblocked-without-successful-probe", fmt.Sprintf("adapter %d (endpoint %d) went from blocked to active during %q", i, sh.eid, op))
		}
		sh.status = st
	}
	// the dedupe set is exactly the set of endpoints with a queued probe (C15_probe_queue_dedupe): an endpoint in the set
	// but not in the queue would never be probed again
	if s.q != uint64(popcount(s.pset)) {
		r.fail("failover/probe-queue-and-dedupe-set-disagree", fmt.Sprintf("after %q the probe queue holds %d adapter(s) but the dedupe set names %d endpoint(s) (%b): an endpoint in the set without a queued probe is locked out of future probes", op, s.q, popcount(s.pset), s.pset))
	}
	for e := 0; e < c15Universe; e++ {
		// whatever the registry did with it meanwhile: a blocked endpoint re-enters rotation only through a successful probe
		if r.epOut[e] && !r.shrunk && r.inAnySelector(s, e) {
			r.fail("failover/blocked-endpoint-back-in-rotation-without-probe", fmt.Sprintf("endpoint %d was blocked and no probe of it has been answered since, but after %q it is in a selector (rr=%b ch=%b mh=%b, registry active list=%b)", e, op, s.rr, s.ch, s.mh, s.reg))
		}
		if s.reg&(1<<uint(e)) == 0 {
			continue
		}
		ai, ok := s.attached[e]
		if !ok || (ai >= 0 && r.sh[ai].gfail == 0) {
			if !r.inSelectors(s, e) {
				r.fail("failover/endpoint-without-failures-out-of-rotation", fmt.Sprintf("endpoint %d has no failed call since it was (re)instated but is missing from a selector (rr=%b ch=%b mh=%b) after %q", e, s.rr, s.ch, s.mh, op))
			}
		}
	}
}

func (r *c15Run) shift(d int64) {
	r.mgr.ShiftClock(d, r.adps...)
	r.now += d
}

func (r *c15Run) account(ai int, ok bool) {
	a := r.adps[ai]
	a.VerifC15SendAdd()
	if ok {
		a.VerifC15SuccessAdd()
	} else {
		a.VerifC15FailAdd()
	}
	r.shadowOutcome(ai, ok)
}

// ground truth in the property's terms: what the caller saw
func (r *c15Run) shadowOutcome(ai int, ok bool) {
	sh := r.sh[ai]
	if ok {
		sh.streak = 0
		sh.lastSucc = r.now
	} else {
		sh.streak++
		sh.gfail++
	}
}

func (r *c15Run) reinstate(ai int) (string, c15Snap) {
	r.mgr.Reinstate(r.adps[ai])
	return r.afterReinstate(ai)
}

// checks once reset+addAliveEp have run for adapter ai
func (r *c15Run) afterReinstate(ai int) (string, c15Snap) {
	sh := r.sh[ai]
	sh.gfail, sh.streak = 0, 0
	r.epOut[sh.eid] = false
	s := r.snap()
	h := r.adps[ai].VerifC15Health()
	if !h.Status || !r.inSelectors(s, sh.eid) || h.FailCount != 0 || h.LastFailCount != 0 || h.SendCount != 0 {
		r.fail("failover/not-reinstated-after-successful-probe", fmt.Sprintf("after the reinstatement of endpoint %d: status=%v failCount=%d lastFailCount=%d sendCount=%d in selectors=%v", sh.eid, h.Status, h.FailCount, h.LastFailCount, h.SendCount, r.inSelectors(s, sh.eid)))
	}
	r.classes["reinstated"] = true
	return fmt.Sprintf("([Reinstate %d], %s)", ai, r.obs(s, true)), s
}

// exec runs one op on the implementation and returns the model labels (with observations) it corresponds to.
func (r *c15Run) exec(op *c15Op, last bool) {
	var lbl []string
	if r.e2e {
		switch op.K {
		case "call":
			r.syncWall(r.timeoutMs+40+c15MaxDelay(), &lbl)
		case "adv", "check", "refresh":
			r.syncWall(0, &lbl)
		case "out", "reinst":
			op.Txt = "not used in real-call histories"
			return
		}
		defer r.checkWall()
	}
	switch op.K {
	case "adv":
		r.shift(op.D)
		s := r.snap()
		r.always("adv", s)
		lbl = append(lbl, fmt.Sprintf("([Advance %d], %s)", op.D, r.obs(s, last)))
		op.Txt = fmt.Sprintf("+%ds", op.D)
	case "net":
		g := c15Gates[op.E]
		if op.Ok {
			g.open()
		} else {
			g.shut()
			for i, a := range r.adps {
				if r.sh[i].eid == op.E {
					a.VerifC15DropConn()
				}
			}
		}
		r.reach[op.E] = op.Ok
		op.Txt = fmt.Sprintf("net %d %v", op.E, op.Ok)
	case "up":
		r.up[op.E] = op.Ok
		c15Gates[op.E].setUp(op.Ok)
		op.Txt = fmt.Sprintf("server %d answers=%v", op.E, op.Ok)
	case "code":
		g := c15Gates[op.E]
		g.mu.Lock()
		g.code = int32(op.D)
		g.mu.Unlock()
		op.Txt = fmt.Sprintf("server %d answers with return code %d", op.E, op.D)
	case "slow":
		g := c15Gates[op.E]
		g.mu.Lock()
		g.delay = int(op.D)
		g.mu.Unlock()
		op.Txt = fmt.Sprintf("server %d answers after %d ms", op.E, op.D)
	case "out":
		a, ok := r.mgr.Adapters()[c15Gates[op.E].host]
		if !ok {
			op.Txt = "out: no adapter"
			return
		}
		ai, _ := r.idOf(a)
		r.account(ai, op.Ok)
		s := r.snap()
		r.always("out", s)
		lbl = append(lbl, fmt.Sprintf("([Out %d %s false], %s)", ai, coqBool(op.Ok), r.obs(s, last)))
		op.Txt = fmt.Sprintf("out adapter %d (endpoint %d) ok=%v", ai, op.E, op.Ok)
	case "check":
		before := r.snap()
		type exp struct{ ai, e int }
		var must []exp
		for _, e := range r.mgr.Registry() {
			ei := c15EidOfHost(e)
			if ai, ok := before.attached[ei]; ok && ai >= 0 {
				sh := r.sh[ai]
				if sh.streak >= 5 && (sh.lastSucc < 0 || r.now-sh.lastSucc >= 5) {
					must = append(must, exp{ai, ei})
				}
			}
		}
		// no lock-out: a blocked endpoint whose probe interval has elapsed and whose ReConnect will succeed must be queued
		var due []exp
		nowSec := time.Now().Unix()
		for _, e := range r.mgr.Registry() {
			ei := c15EidOfHost(e)
			if ai, ok := before.attached[ei]; ok && ai >= 0 && r.reach[ei] && !r.shrunk {
				h := r.adps[ai].VerifC15Health()
				if !h.Status && !h.Closed && nowSec-h.LastBlockTime >= 30 {
					due = append(due, exp{ai, ei})
				}
			}
		}
		r.mgr.CheckStatus()
		s := r.snap()
		for _, d := range due {
			if s.pset&(1<<uint(d.e)) == 0 {
				r.fail("failover/probe-not-requested-when-due", fmt.Sprintf("endpoint %d is blocked, its last block/probe time is >= 30 s ago and it is reachable, but after the status check no probe of it is queued (dedupe set %b, queue length %d)", d.e, s.pset, s.q))
			}
			r.classes["probe-due"] = true
		}
		for _, m := range must {
			if r.adps[m.ai].VerifC15Health().Status || (!r.shrunk && r.inAnySelector(s, m.e)) {
				r.fail("failover/streak-not-blocked", fmt.Sprintf("endpoint %d had %d consecutive failures and no success for >= 5 s, but after the status check status=%v, selectors rr=%b ch=%b mh=%b", m.e, r.sh[m.ai].streak, r.adps[m.ai].VerifC15Health().Status, s.rr, s.ch, s.mh))
			}
			r.classes["streak-block"] = true
		}
		// probe requests that were queued by this check
		for e := 0; e < c15Universe; e++ {
			b := uint64(1) << uint(e)
			if s.pset&b != 0 && before.pset&b == 0 {
				if t, ok := r.lastReq[e]; ok && r.now-t < 30 {
					r.fail("failover/probe-rate", fmt.Sprintf("endpoint %d: probe requested %d s after the previous request", e, r.now-t))
				}
				r.lastReq[e] = r.now
				if ai, ok := s.attached[e]; ok && ai >= 0 {
					r.sh[ai].enq++
					if r.adps[ai].VerifC15Health().Status {
						r.fail("failover/probe-of-active-endpoint", fmt.Sprintf("endpoint %d is active but was queued for a probe", e))
					}
				}
				r.classes["probe-requested"] = true
			}
		}
		if s.q != before.q+uint64(popcount(s.pset&^before.pset)) {
			r.fail("failover/probe-queue-dedupe", fmt.Sprintf("probe queue length %d -> %d but dedupe set %b -> %b", before.q, s.q, before.pset, s.pset))
		}
		r.always("check", s)
		var reach []int
		for e := 0; e < c15Universe; e++ {
			if r.reach[e] {
				reach = append(reach, e)
			}
		}
		lbl = append(lbl, fmt.Sprintf("([Check %s], %s)", c15List(reach), r.obs(s, true)))
		op.Txt = fmt.Sprintf("check: status=%b queue=%d", s.st, s.q)
	case "call":
		if r.e2e {
			lbl = append(lbl, r.e2eCall(op, last)...)
			break
		}
		before := r.snap()
		ht := tars.ModHash
		if op.Hash == 2 {
			ht = tars.ConsistentHash
		}
		hashWant := r.hashWant(op, ht)
		adp, probe := r.mgr.Select(op.Hash != 0, ht, op.Code)
		r.monCarried(op, before, adp != nil && probe)
		if adp == nil {
			lbl = append(lbl, r.selectedNone(op, last))
			break
		}
		ai, _ := r.idOf(adp)
		sh := r.sh[ai]
		s := r.snap()
		r.monSelected(op, before, ai, probe, hashWant)
		if probe {
			lbl = append(lbl, fmt.Sprintf("([SelProbe %d], %s)", ai, r.obs(s, false)))
		} else {
			lbl = append(lbl, fmt.Sprintf("([SelPick %d %d], %s)", sh.eid, ai, r.obs(s, false)))
		}
		r.always("call", s)
		ok := r.up[sh.eid]
		r.account(ai, ok)
		s = r.snap()
		r.always("out", s)
		lbl = append(lbl, fmt.Sprintf("([Out %d %s %s], %s)", ai, coqBool(ok), coqBool(probe), r.obs(s, last && !(probe && ok && !op.Defer))))
		op.Txt = fmt.Sprintf("call -> adapter %d endpoint %d probe=%v ok=%v", ai, sh.eid, probe, ok)
		r.monOutcome(adp, ai, probe, ok, s)
		if probe && ok {
			if op.Defer {
				r.pending = append(r.pending, ai)
			} else {
				l, s2 := r.reinstate(ai)
				r.always("reinst", s2)
				lbl = append(lbl, l)
			}
		}
	case "reinst":
		if len(r.pending) == 0 {
			op.Txt = "reinst: nothing pending"
			return
		}
		ai := r.pending[0]
		r.pending = r.pending[1:]
		l, s := r.reinstate(ai)
		r.always("reinst", s)
		lbl = append(lbl, l)
		op.Txt = fmt.Sprintf("reinstate adapter %d", ai)
	case "refresh":
		l := append([]int(nil), op.L...)
		sort.Ints(l)
		in := append([]int(nil), op.I...)
		before := r.snap()
		regBefore := r.mgr.Registry()
		r.regr.mu.Lock()
		r.regr.eps = l
		r.regr.inact = in
		r.regr.mu.Unlock()
		r.mgr.Refresh()
		s := r.snap()
		// ground truth: the refresh takes effect iff the active list is non-empty and differs from the current one;
		// then an endpoint with an adapter that is in NEITHER list loses its health record (scope of the streak clause left)
		same := len(l) == len(regBefore)
		for i := 0; same && i < len(l); i++ {
			same = c15Gates[l[i]].host == regBefore[i]
		}
		if len(l) > 0 && !same {
			listed := map[int]bool{}
			for _, e := range l {
				listed[e] = true
			}
			for _, e := range in {
				listed[e] = true
			}
			for e := range before.attached {
				if !listed[e] {
					r.shrunk = true
				} else if _, still := s.attached[e]; !still {
					r.fail("failover/health-record-lost-at-refresh", fmt.Sprintf("endpoint %d is still listed by the registry (active %v, inactive %v) but its adapter - the health record - is gone after the refresh", e, l, in))
				}
			}
			if len(in) > 0 {
				r.classes["refresh-inactive"] = true
				for _, e := range in {
					if r.epOut[e] {
						r.classes["blocked-moved-inactive"] = true
					}
				}
			}
			for _, e := range l {
				if r.epOut[e] && before.reg&(1<<uint(e)) == 0 {
					r.classes["blocked-relisted-active"] = true
				}
			}
		}
		r.always("refresh", s)
		lbl = append(lbl, fmt.Sprintf("([Refresh %s %s], %s)", c15List(l), c15List(in), r.obs(s, true)))
		op.Txt = fmt.Sprintf("refresh active %v inactive %v -> reg=%b rr=%b", l, in, s.reg, s.rr)
		r.classes["refresh"] = true
	}
	op.Lbl = strings.Join(lbl, "; ")
}

// where the hash selectors alone would send this call (C14's manager-level clause)
func (r *c15Run) hashWant(op *c15Op, ht tars.HashType) string {
	if op.Hash == 0 {
		return ""
	}
	_, ch, mh := r.mgr.Selectors()
	m := &tars.Message{}
	m.SetHash(op.Code, ht)
	if op.Hash == 1 && mh != nil {
		if ep, err := mh.Select(m); err == nil {
			return ep.Host
		}
	}
	if op.Hash == 2 && ch != nil {
		if ep, err := ch.Select(m); err == nil {
			return ep.Host
		}
	}
	return ""
}

func (r *c15Run) selectedNone(op *c15Op, last bool) string {
	s := r.snap()
	if len(r.mgr.Registry()) > 0 {
		r.fail("failover/select-none-with-registry", fmt.Sprintf("the registry lists %d endpoint(s) (active in rotation: %b) but SelectAdapterProxy returned no adapter: the call fails outright", len(r.mgr.Registry()), s.rr))
	}
	r.always("call", s)
	op.Txt = "call: no adapter"
	return fmt.Sprintf("([SelNone], %s)", r.obs(s, last))
}

// a queued probe is carried by the NEXT call, whatever its routing kind (plain, mod-hash, consistent-hash): otherwise the
// probe is never made, its dedupe entry never cleared and the endpoint never comes back (C15_never_none: probe head first)
func (r *c15Run) monCarried(op *c15Op, before c15Snap, probe bool) {
	if before.q == 0 || len(r.mgr.Registry()) == 0 {
		return
	}
	kind := [...]string{"plain", "mod-hash", "consistent-hash"}[op.Hash%3]
	r.classes["probe-queued-at-"+kind+"-call"] = true
	if !probe {
		r.fail("failover/queued-probe-not-carried-by-next-call", fmt.Sprintf("%d probe(s) are queued (dedupe set %b) but the next call (%s routing, code %d) was not used as the probe: the blocked endpoint is not probed and cannot come back", before.q, before.pset, kind, op.Code))
	}
}

// monitors at the moment an adapter has been selected for a call
func (r *c15Run) monSelected(op *c15Op, before c15Snap, ai int, probe bool, hashWant string) {
	sh := r.sh[ai]
	if probe {
		sh.probes++
		if sh.probes > sh.enq {
			r.fail("failover/probe-not-single", fmt.Sprintf("adapter %d (endpoint %d) handed out as probe %d times for %d queued request(s)", ai, sh.eid, sh.probes, sh.enq))
		}
		r.pcall[ai] = !r.adps[ai].VerifC15Health().Status // was it (still) blocked when it was handed out?
		r.classes["probe-call"] = true
		if op.Hash != 0 {
			r.classes["probe-call-hash"] = true
			if hashWant != "" && hashWant != c15Gates[sh.eid].host {
				r.divert++
				r.c14 = append(r.c14, Failure{Sig: "hash-routing/call-diverted-as-failover-probe", Desc: fmt.Sprintf("a call carrying hash type %d code %d is owned by endpoint %d under the current endpoint set but was sent to blocked endpoint %d as its failover probe", op.Hash, op.Code, c15EidOfHost(hashWant), sh.eid)})
			}
		}
		return
	}
	if before.rr != 0 && !r.shrunk && before.rr&(1<<uint(sh.eid)) == 0 {
		r.fail("failover/blocked-endpoint-selected", fmt.Sprintf("endpoint %d is out of rotation (rr=%b) but a normal call was routed to it", sh.eid, before.rr))
	}
	if before.rr == 0 {
		r.classes["all-blocked-fallback"] = true
	}
	if op.Hash != 0 && hashWant != "" && hashWant != c15Gates[sh.eid].host {
		r.c14 = append(r.c14, Failure{Sig: "hash-routing/ctx-not-routed-by-hash", Desc: fmt.Sprintf("hash type %d code %d: selector says endpoint %d, SelectAdapterProxy returned endpoint %d (no probe pending)", op.Hash, op.Code, c15EidOfHost(hashWant), sh.eid)})
	}
	if op.Hash != 0 {
		r.classes["hash-call"] = true
	}
}

// monitors once the outcome of the call has been accounted (s = snapshot after it, before any reinstatement)
func (r *c15Run) monOutcome(adp *tars.AdapterProxy, ai int, probe, ok bool, s c15Snap) {
	sh := r.sh[ai]
	wasBlocked := r.pcall[ai]
	delete(r.pcall, ai)
	if probe && !ok && wasBlocked { // (an adapter reinstated by an earlier answered probe can still have a request queued)
		if adp.VerifC15Health().Status || (!r.shrunk && r.inAnySelector(s, sh.eid)) {
			r.fail("failover/failed-probe-reinstated", fmt.Sprintf("the probe of endpoint %d failed but status=%v selectors rr=%b", sh.eid, adp.VerifC15Health().Status, s.rr))
		}
		r.classes["probe-failed"] = true
	}
}

func popcount(x uint64) int {
	n := 0
	for ; x != 0; x &= x - 1 {
		n++
	}
	return n
}

var c15Seq int

func c15RunOnce(c *c15Case) (*c15Run, bool) {
	c15InitGates()
	for _, g := range c15Gates {
		g.open()
	}
	c15Seq++
	regr := &c15Registrar{}
	comm := tars.NewCommunicator(tars.Registrar(regr))
	r := &c15Run{regr: regr, aid: map[*tars.AdapterProxy]int{}, pcall: map[int]bool{}, lastReq: map[int]int64{}, classes: map[string]bool{}, epOut: map[int]bool{}}
	r.mgr = tars.VerifC15NewManager(fmt.Sprintf("VerifC15.Srv%d.Obj", c15Seq), comm)
	r.up = append([]bool(nil), c.Up...)
	for len(r.up) < c15Universe {
		r.up = append(r.up, true)
	}
	r.reach = make([]bool, c15Universe)
	for i := range r.reach {
		r.reach[i] = true
	}
	for i, g := range c15Gates {
		g.mu.Lock()
		g.up = r.up[i]
		g.got = nil
		g.wrote = nil
		g.code = 0
		g.delay = 0
		g.mu.Unlock()
	}
	if c.E2E {
		c15InstallFilter()
		r.e2e = true
		r.timeoutMs = c.Timeout
		if r.timeoutMs <= 0 {
			r.timeoutMs = 40
		}
		r.sp = tars.VerifC15NewServant(comm, fmt.Sprintf("VerifC15.Srv%d.Obj", c15Seq), r.mgr)
		r.sp.TarsSetTimeout(r.timeoutMs)
	}
	sec := time.Now().Unix()
	r.wall = sec
	for i := range c.Ops {
		c.Ops[i].Lbl, c.Ops[i].Txt = "", ""
		r.exec(&c.Ops[i], i == len(c.Ops)-1)
		if r.straddled {
			break
		}
	}
	crossed := time.Now().Unix() != sec
	if c.E2E {
		crossed = r.straddled
		if !crossed {
			r.e2eFinish()
		}
	}
	for _, a := range r.adps {
		a.Close()
	}
	return r, crossed
}

func c15RunCase(c *c15Case) []Failure {
	var r *c15Run
	c.Skipped = false
	hardRuns := 0
	for try := 0; ; try++ {
		// the code compares whole seconds: a direct-drive history is only valid if it ran inside one wall-clock second
		// (real-call histories synchronise the model clock step by step instead, see c15e2e.go)
		if ns := time.Now().Nanosecond(); !c.E2E && ns > 850e6 {
			time.Sleep(time.Duration(1e9-ns) + 2*time.Millisecond)
		}
		var crossed bool
		r, crossed = c15RunOnce(c)
		c.Retries = try
		if len(r.hard) > 0 {
			hardRuns++
			if hardRuns >= 3 {
				c.Skipped = true // the trace after a 3 s stall is not sent to the model; the monitor failure stands
				return r.hard
			}
			continue
		}
		hardRuns = 0
		if !crossed {
			break
		}
		if try >= 8 {
			c.Skipped = true
			return nil
		}
	}
	c.Diverted = r.divert
	c.Classes = nil
	for k := range r.classes {
		c.Classes = append(c.Classes, k)
	}
	sort.Strings(c.Classes)
	c.c14 = r.c14
	return r.fails
}

func c15Coq(c *c15Case) string {
	if c.Skipped {
		return ""
	}
	var l []string
	for _, o := range c.Ops {
		if o.Lbl != "" {
			l = append(l, o.Lbl)
		}
	}
	return "[" + strings.Join(l, ";\n ") + "]"
}

func c15Prop() Prop[c15Case] {
	return Prop[c15Case]{
		ID:       "C15",
		Require:  "From TarsV Require Import Select.Failover.",
		CaseType: "c15_case",
		Mismatch: "c15_mismatch",
		Corr:     "corr_C15_failover_trace (Select/Failover.v: accepts init trace)",
		Rule:     "histories that differ in the set of exercised behaviours (blocked by streak/ratio, probe requested/called/failed, reinstated, all-blocked fallback, refresh, hash call, hash call taken as probe)",
		Shard:    12,
		Workers:  1,
		Corpus:   c15Corpus,
		Gen:      c15Gen,
		Run:      c15RunCase,
		Coq:      c15Coq,
		Class: func(c *c15Case) string {
			if c.Skipped {
				return ""
			}
			return strings.Join(c.Classes, ",")
		},
		Extra: func(tier string, rng *rand.Rand, res *Result) {
			res.Traces = len(res.Cases)
		},
	}
}
