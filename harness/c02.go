package main

// C02 — primitive codec: Buffer.Write* / Reader.Read* against Codec/Prim.v, plus direct monitors
// (round trip bit-exact, cursor exact, bytes = wire specification, widening reads).

import (
	"bytes"
	"encoding/binary"
	"encoding/json"
	"fmt"
	"math"
	"math/rand"
	"sync"

	"github.com/TarsCloud/TarsGo/tars/protocol/codec"
)

type c02Case struct {
	Raw     bool   `json:"raw,omitempty"`
	WT      string `json:"wt,omitempty"` // writer type
	Z       int64  `json:"z"`            // integer value / float bit pattern (as int64 two's complement for f64 bits)
	U       uint64 `json:"u,omitempty"`  // float64 bit pattern
	S       B      `json:"s,omitempty"`
	Tag     int    `json:"tag"`
	Written B      `json:"written"`
	Suffix  B      `json:"suffix"`
	RT      string `json:"rt"`
	RTag    int    `json:"rtag"`
	Req     bool   `json:"req"`
	Err     bool   `json:"err"`
	Absent  bool   `json:"absent"`
	OZ      int64  `json:"oz"`
	OU      uint64 `json:"ou,omitempty"`
	OS      B      `json:"os,omitempty"`
	Remain  int    `json:"remain"`
	PanicS  string `json:"panic,omitempty"`
}

var ptyCoq = map[string]string{"bool": "PBool", "int8": "PI8", "uint8": "PU8", "int16": "PI16", "uint16": "PU16", "int32": "PI32", "uint32": "PU32", "int64": "PI64", "f32": "PF32", "f64": "PF64", "string": "PStr"}

func c02Write(buf *codec.Buffer, c *c02Case) error {
	t := byte(c.Tag)
	switch c.WT {
	case "bool":
		return buf.WriteBool(c.Z != 0, t)
	case "int8":
		return buf.WriteInt8(int8(c.Z), t)
	case "uint8":
		return buf.WriteUint8(uint8(c.Z), t)
	case "int16":
		return buf.WriteInt16(int16(c.Z), t)
	case "uint16":
		return buf.WriteUint16(uint16(c.Z), t)
	case "int32":
		return buf.WriteInt32(int32(c.Z), t)
	case "uint32":
		return buf.WriteUint32(uint32(c.Z), t)
	case "int64":
		return buf.WriteInt64(c.Z, t)
	case "f32":
		return buf.WriteFloat32(math.Float32frombits(uint32(c.U)), t)
	case "f64":
		return buf.WriteFloat64(math.Float64frombits(c.U), t)
	case "string":
		return buf.WriteString(string(c.S), t)
	}
	return fmt.Errorf("bad type")
}

const sentinel = -77

// alt selects the second set of initial values
func sentI(alt bool) int64 {
	if alt {
		return -55
	}
	return sentinel
}

func sentU(alt bool) uint64 {
	if alt {
		return 201
	}
	return 177
}

// c02Read reads with reader type rt; absent is detected through a sentinel the reader must leave untouched.
func c02Read(rd *codec.Reader, c *c02Case) {
	c02Read1(rd, c, false)
	c.Absent = !c.Err && c02IsSentinel(c, false)
	if c.Absent && c.RT != "bool" {
		// the sentinel is also a legal value (e.g. the byte 0xb3 read as -77): a field really is absent only if a second
		// read of the same bytes leaves a different sentinel untouched as well
		c2 := *c
		c02Read1(codec.NewReader(rd.ToBytes()), &c2, true)
		c.Absent = !c2.Err && c02IsSentinel(&c2, true)
	}
	if c.RT == "bool" && c.Absent { // the sentinel false is also a legal value: read again with the other initial value
		rd2 := codec.NewReader(rd.ToBytes())
		v := true
		_ = rd2.ReadBool(&v, byte(c.RTag), c.Req)
		c.Absent = v
	}
}

func c02Read1(rd *codec.Reader, c *c02Case, alt bool) {
	t := byte(c.RTag)
	var err error
	c.Absent = false
	switch c.RT {
	case "bool":
		// two reads cannot be done; detect absence with both initial values: use initial true and compare remaining
		v := false
		err = rd.ReadBool(&v, t, c.Req)
		if v {
			c.OZ = 1
		} else {
			c.OZ = 0
		}
	case "int8":
		v := int8(sentI(alt))
		err = rd.ReadInt8(&v, t, c.Req)
		c.OZ = int64(v)
	case "uint8":
		v := uint8(sentU(alt))
		err = rd.ReadUint8(&v, t, c.Req)
		c.OZ = int64(v)
	case "int16":
		v := int16(sentI(alt))
		err = rd.ReadInt16(&v, t, c.Req)
		c.OZ = int64(v)
	case "uint16":
		v := uint16(sentU(alt))
		err = rd.ReadUint16(&v, t, c.Req)
		c.OZ = int64(v)
	case "int32":
		v := int32(sentI(alt))
		err = rd.ReadInt32(&v, t, c.Req)
		c.OZ = int64(v)
	case "uint32":
		v := uint32(sentU(alt))
		err = rd.ReadUint32(&v, t, c.Req)
		c.OZ = int64(v)
	case "int64":
		v := int64(sentI(alt))
		err = rd.ReadInt64(&v, t, c.Req)
		c.OZ = v
	case "f32":
		v := math.Float32frombits(uint32(0x12345678 + sentU(alt) - 177))
		err = rd.ReadFloat32(&v, t, c.Req)
		c.OU = uint64(math.Float32bits(v))
	case "f64":
		v := math.Float64frombits(0x123456789abcdef0 + sentU(alt) - 177)
		err = rd.ReadFloat64(&v, t, c.Req)
		c.OU = math.Float64bits(v)
	case "string":
		v := "\x00absent\x00"
		if alt {
			v = "\x00absent2\x00"
		}
		err = rd.ReadString(&v, t, c.Req)
		c.OS = B(v)
	}
	c.Err = err != nil
	c.Remain = rd.VerifRemaining()
}

// whether the field was absent cannot be read off the API; the model decides it, and the harness
// cross-checks with the sentinel: when the model says "absent" the observed value must be the sentinel.
func c02IsSentinel(c *c02Case, alt bool) bool {
	switch c.RT {
	case "bool":
		return c.OZ == 0
	case "int8", "int16", "int32", "int64":
		return c.OZ == sentI(alt)
	case "uint8", "uint16", "uint32":
		return c.OZ == int64(sentU(alt))
	case "f32":
		return c.OU == 0x12345678+sentU(alt)-177
	case "f64":
		return c.OU == 0x123456789abcdef0+sentU(alt)-177
	case "string":
		return string(c.OS) == "\x00absent\x00" || (alt && string(c.OS) == "\x00absent2\x00")
	}
	return false
}

// ---- independent wire specification (from the protocol description) ----
func specHead(ty byte, tag int) []byte {
	if tag < 15 {
		return []byte{byte(tag<<4) | ty}
	}
	return []byte{0xF0 | ty, byte(tag)}
}
func specInt(v int64, tag int) []byte {
	switch {
	case v == 0:
		return specHead(12, tag)
	case v >= -128 && v <= 127:
		return append(specHead(0, tag), byte(v))
	case v >= -32768 && v <= 32767:
		b := make([]byte, 2)
		binary.BigEndian.PutUint16(b, uint16(v))
		return append(specHead(1, tag), b...)
	case v >= -2147483648 && v <= 2147483647:
		b := make([]byte, 4)
		binary.BigEndian.PutUint32(b, uint32(v))
		return append(specHead(2, tag), b...)
	}
	b := make([]byte, 8)
	binary.BigEndian.PutUint64(b, uint64(v))
	return append(specHead(3, tag), b...)
}
func c02Spec(c *c02Case) []byte {
	switch c.WT {
	case "bool", "int8", "uint8", "int16", "uint16", "int32", "uint32", "int64":
		return specInt(c.Z, c.Tag)
	case "f32":
		b := make([]byte, 4)
		binary.BigEndian.PutUint32(b, uint32(c.U))
		return append(specHead(4, c.Tag), b...)
	case "f64":
		b := make([]byte, 8)
		binary.BigEndian.PutUint64(b, c.U)
		return append(specHead(5, c.Tag), b...)
	case "string":
		if len(c.S) <= 255 {
			return append(append(specHead(6, c.Tag), byte(len(c.S))), c.S...)
		}
		b := make([]byte, 4)
		binary.BigEndian.PutUint32(b, uint32(len(c.S)))
		return append(append(specHead(7, c.Tag), b...), c.S...)
	}
	return nil
}

var widerOf = map[string][]string{
	"bool": {"bool", "int8", "int16", "int32", "int64"}, "int8": {"int8", "int16", "int32", "int64"}, "int16": {"int16", "int32", "int64"},
	"int32": {"int32", "int64"}, "int64": {"int64"}, "uint8": {"uint8", "uint16", "uint32", "int16", "int32", "int64"},
	"uint16": {"uint16", "uint32", "int32", "int64"}, "uint32": {"uint32", "int64"}, "f32": {"f32", "f64"}, "f64": {"f64"}, "string": {"string"},
}

// widen32Go is what the platform's float32->float64 conversion does, on bit patterns
func widen32Go(b uint32) uint64 { return math.Float64bits(float64(math.Float32frombits(b))) }

func c02Run(c *c02Case) (fs []Failure) {
	defer func() {
		if r := recover(); r != nil {
			c.PanicS = fmt.Sprint(r)
			fs = append(fs, Failure{Sig: "codec.prim/panic/" + c.RT, Desc: fmt.Sprintf("reader %s panicked: %v", c.RT, r)})
		}
	}()
	if c.Raw {
		rd := codec.NewReader(append([]byte(nil), c.Written...))
		c02Read(rd, c)
		return nil
	}
	buf := codec.NewBuffer()
	if err := c02Write(buf, c); err != nil {
		return []Failure{{Sig: "codec.prim/write-error", Desc: err.Error()}}
	}
	c.Written = append(B(nil), buf.ToBytes()...)
	all := append(append([]byte(nil), c.Written...), c.Suffix...)
	rd := codec.NewReader(all)
	c02Read(rd, c)
	// L3 monitors
	if sp := c02Spec(c); !bytes.Equal(sp, c.Written) {
		fs = append(fs, Failure{Sig: "codec.prim/wire-format/" + c.WT, Desc: fmt.Sprintf("Write %s value z=%d u=%#x len(s)=%d tag %d wrote % x, the wire format prescribes % x", c.WT, c.Z, c.U, len(c.S), c.Tag, c.Written, trunc(sp))})
	}
	if c.RTag == c.Tag && isWider(c.WT, c.RT) {
		ok := !c.Err && c.Remain == len(c.Suffix)
		if ok {
			switch {
			case c.WT == "f32" && c.RT == "f32", c.WT == "f64" && c.RT == "f64":
				ok = c.OU == c.U
			case c.WT == "f32" && c.RT == "f64":
				ok = c.OU == widen32Go(uint32(c.U))
			case c.WT == "string":
				ok = bytes.Equal(c.OS, c.S)
			case c.WT == "bool":
				ok = (c.OZ != 0) == (c.Z != 0)
			default:
				ok = c.OZ == c.Z
			}
		}
		if !ok {
			fs = append(fs, Failure{Sig: "codec.prim/roundtrip/" + c.WT + "->" + c.RT, Desc: fmt.Sprintf("wrote %s z=%d u=%#x len(s)=%d at tag %d, read as %s: err=%v value z=%d u=%#x remaining=%d (suffix %d bytes)", c.WT, c.Z, c.U, len(c.S), c.Tag, c.RT, c.Err, c.OZ, c.OU, c.Remain, len(c.Suffix))})
		}
	}
	return fs
}

func isWider(wt, rt string) bool {
	for _, x := range widerOf[wt] {
		if x == rt {
			return true
		}
	}
	return false
}

func c02CoqVal(t string, z int64, u uint64, s []byte) string {
	switch t {
	case "f32", "f64":
		return fmt.Sprintf("(PZ %d%%Z)", u)
	case "string":
		return fmt.Sprintf("(PS %s)", hx(s))
	}
	return fmt.Sprintf("(PZ %s)", coqZ(z))
}

func c02Coq(c *c02Case) string {
	obs := "None"
	if c.PanicS != "" {
		return ""
	}
	if !c.Err {
		// the sentinel marks "absent": encode as (None, remaining); the model decides whether absence is right
		if c.Absent && (c.Raw || c.RTag != c.Tag) {
			obs = fmt.Sprintf("(Some (None, %d))", c.Remain)
		} else {
			obs = fmt.Sprintf("(Some (Some %s, %d))", c02CoqVal(c.RT, c.OZ, c.OU, c.OS), c.Remain)
		}
	}
	if c.Raw {
		return fmt.Sprintf("inr (%s, %s, %d, %s, %s)", hx(c.Written), ptyCoq[c.RT], c.RTag, coqBool(c.Req), obs)
	}
	return fmt.Sprintf("inl (%s, %s, %d, %s, %s, %s, %d, %s, %s)", ptyCoq[c.WT], c02CoqVal(c.WT, c.Z, c.U, c.S), c.Tag, hx(c.Written), hx(c.Suffix), ptyCoq[c.RT], c.RTag, coqBool(c.Req), obs)
}

var intRanges = map[string][2]int64{"bool": {0, 1}, "int8": {-128, 127}, "uint8": {0, 255}, "int16": {-32768, 32767}, "uint16": {0, 65535},
	"int32": {-2147483648, 2147483647}, "uint32": {0, 4294967295}, "int64": {math.MinInt64, math.MaxInt64}}

func boundaryVals(lo, hi int64, rng *rand.Rand, nrand int) []int64 {
	cand := []int64{0, 1, -1, 2, -2, 126, 127, 128, 129, -127, -128, -129, -130, 254, 255, 256, 257, 32766, 32767, 32768, 32769, -32767, -32768, -32769, -32770,
		65534, 65535, 65536, 65537, 2147483646, 2147483647, 2147483648, 2147483649, -2147483647, -2147483648, -2147483649, -2147483650, 4294967294, 4294967295,
		4294967296, -100000, 100000, math.MaxInt64, math.MaxInt64 - 1, math.MinInt64, math.MinInt64 + 1, 1 << 40, -(1 << 40), 1 << 62, -(1 << 62)}
	var out []int64
	for _, v := range cand {
		if v >= lo && v <= hi {
			out = append(out, v)
		}
	}
	for i := 0; i < nrand; i++ {
		var v int64
		switch rng.Intn(3) {
		case 0:
			v = int64(rng.Uint64())
		case 1:
			v = int64(int32(rng.Uint32()))
		default:
			v = int64(int16(rng.Uint32()))
		}
		if hi-lo > 0 && hi-lo < math.MaxInt64 {
			span := uint64(hi-lo) + 1
			v = lo + int64(uint64(v)%span)
		}
		if v >= lo && v <= hi {
			out = append(out, v)
		}
	}
	return out
}

var f32Bits = []uint32{0, 0x80000000, 0x7f800000, 0xff800000, 0x7fc00000, 0xffc00000, 0x7f800001, 0x7fa00000, 0xff800001, 0x7fffffff, 0x00000001, 0x00000002,
	0x007fffff, 0x00400000, 0x80000001, 0x00800000, 0x3f800000, 0xbf800000, 0x7f7fffff, 0x00ffffff, 0x3eaaaaab, 0x00000003, 0x00012345, 0x7fc12345, 0x7f812345}
var f64Bits = []uint64{0, 0x8000000000000000, 0x7ff0000000000000, 0xfff0000000000000, 0x7ff8000000000000, 0x7ff0000000000001, 0x7ff4000000000000, 0xffffffffffffffff,
	1, 0x000fffffffffffff, 0x0010000000000000, 0x3ff0000000000000, 0xbff0000000000000, 0x7fefffffffffffff, 0x7ff8000000012345, 0xfff0000000000001}

func c02Gen(tier string, rng *rand.Rand) []c02Case {
	var cs []c02Case
	tags := []int{0, 1, 7, 13, 14, 15, 16, 17, 127, 128, 200, 254, 255}
	nrand := 6
	if tier == "thorough" {
		nrand = 60
		for t := 2; t < 254; t += 9 {
			tags = append(tags, t)
		}
	}
	suffixes := [][]byte{{}, {0x0b}, {0x1c, 0xff, 0x00}}
	add := func(c c02Case) {
		c.Suffix = suffixes[rng.Intn(len(suffixes))]
		cs = append(cs, c)
	}
	for _, wt := range []string{"bool", "int8", "uint8", "int16", "uint16", "int32", "uint32", "int64"} {
		r := intRanges[wt]
		vals := boundaryVals(r[0], r[1], rng, nrand)
		for vi, v := range vals {
			for ti, tag := range tags {
				if (vi+ti)%3 != 0 && tier != "thorough" && len(vals) > 8 {
					continue
				}
				ws := widerOf[wt]
				rt := ws[(vi+ti)%len(ws)]
				add(c02Case{WT: wt, Z: v, Tag: tag, RT: rt, RTag: tag, Req: (vi+ti)%2 == 0})
			}
		}
		// exhaustive 8-bit values at the head-byte boundary tags
		if wt == "int8" || wt == "uint8" {
			for v := r[0]; v <= r[1]; v++ {
				for _, tag := range []int{14, 15} {
					add(c02Case{WT: wt, Z: v, Tag: tag, RT: wt, RTag: tag, Req: true})
				}
			}
		}
		// all 256 tags at one non-trivial value
		for tag := 0; tag < 256; tag++ {
			add(c02Case{WT: wt, Z: r[1], Tag: tag, RT: wt, RTag: tag, Req: true})
		}
	}
	for i, b := range f32Bits {
		for j, tag := range tags {
			if (i+j)%2 == 0 {
				add(c02Case{WT: "f32", U: uint64(b), Tag: tag, RT: []string{"f32", "f64"}[(i+j/2)%2], RTag: tag, Req: true})
			}
		}
	}
	for i := 0; i < 40*nrand; i++ {
		b := rng.Uint32()
		if i%4 == 0 {
			b &= 0x807fffff // subnormals
		}
		if i%4 == 1 {
			b |= 0x7f800000 // NaN / inf
		}
		add(c02Case{WT: "f32", U: uint64(b), Tag: tags[rng.Intn(len(tags))], RT: []string{"f32", "f64"}[i%2], Req: true})
		cs[len(cs)-1].RTag = cs[len(cs)-1].Tag
	}
	for i, b := range f64Bits {
		add(c02Case{WT: "f64", U: b, Tag: tags[i%len(tags)], RT: "f64", RTag: tags[i%len(tags)], Req: true})
	}
	for i := 0; i < 10*nrand; i++ {
		add(c02Case{WT: "f64", U: rng.Uint64(), Tag: tags[rng.Intn(len(tags))], RT: "f64", Req: true})
		cs[len(cs)-1].RTag = cs[len(cs)-1].Tag
	}
	strLens := []int{0, 1, 2, 254, 255, 256, 257, 300}
	if tier == "thorough" {
		strLens = append(strLens, 65535, 65536, 70000)
	}
	for i, l := range strLens {
		s := make([]byte, l)
		rng.Read(s)
		if l > 2 {
			s[1] = 0
			s[2] = 0x80
		}
		for j := 0; j < 3; j++ {
			tag := tags[(i*3+j)%len(tags)]
			add(c02Case{WT: "string", S: s, Tag: tag, RT: "string", RTag: tag, Req: true})
			cs[len(cs)-1].Suffix = suffixes[j] // every length as the very last bytes of the input, before a struct end, before another field
		}
	}
	// every type once as the very last bytes of the input (nothing behind the field) and once before further bytes
	for _, c := range []c02Case{{WT: "bool", Z: 1}, {WT: "int8", Z: -5}, {WT: "uint8", Z: 200}, {WT: "int16", Z: -300}, {WT: "uint16", Z: 40000}, {WT: "int32", Z: -70000},
		{WT: "uint32", Z: 3000000000}, {WT: "int64", Z: -5000000000}, {WT: "f32", U: 0x3dcccccd}, {WT: "f64", U: 0x3fb999999999999a}, {WT: "string", S: []byte{}}, {WT: "string", S: []byte("x")},
		{WT: "bool", Z: 0}, {WT: "int32", Z: 0}, {WT: "int64", Z: 0}, {WT: "f32", U: 0}, {WT: "f64", U: 0}} {
		for _, tag := range []int{0, 14, 15, 255} {
			for _, sf := range suffixes {
				c.Tag, c.RTag, c.RT, c.Req, c.Suffix = tag, tag, c.WT, true, sf
				cs = append(cs, c)
			}
		}
	}
	// cross-tag reads: the wanted tag is after / before the written one (skip, absent, required-missing)
	types := []string{"bool", "int8", "uint8", "int16", "uint16", "int32", "uint32", "int64", "f32", "f64", "string"}
	for i := 0; i < 30*nrand; i++ {
		wt := types[rng.Intn(len(types))]
		rt := types[rng.Intn(len(types))]
		tag := tags[rng.Intn(len(tags))]
		rtag := tag + []int{-1, 1, 0, 0, 2}[rng.Intn(5)]
		if rtag < 0 || rtag > 255 {
			rtag = tag
		}
		c := c02Case{WT: wt, Tag: tag, RT: rt, RTag: rtag, Req: rng.Intn(2) == 0}
		switch wt {
		case "f32":
			c.U = uint64(f32Bits[rng.Intn(len(f32Bits))])
		case "f64":
			c.U = f64Bits[rng.Intn(len(f64Bits))]
		case "string":
			c.S = B("hello")
		default:
			r := intRanges[wt]
			vs := boundaryVals(r[0], r[1], rng, 1)
			c.Z = vs[rng.Intn(len(vs))]
		}
		c.Suffix = []byte{byte(0x0c | ((rtag & 0xf) << 4)), 0x0b}
		cs = append(cs, c)
	}
	// malformed stream: arbitrary bytes through every reader
	for i := 0; i < 60*nrand; i++ {
		l := rng.Intn(14)
		b := make([]byte, l)
		rng.Read(b)
		if l > 0 && rng.Intn(2) == 0 { // make the head plausible: tag 0..2, any type
			b[0] = byte(rng.Intn(3)<<4) | byte(rng.Intn(14))
		}
		cs = append(cs, c02Case{Raw: true, Written: b, RT: types[rng.Intn(len(types))], RTag: rng.Intn(3), Req: rng.Intn(2) == 0})
	}
	return cs
}

// exhaustive grids on the implementation only (round trip + wire spec): 8-bit x all tags, 16-bit x tags
func c02Extra(tier string, rng *rand.Rand, res *Result) {
	count := 0
	tags16 := []int{0, 14, 15, 255}
	if tier == "thorough" {
		tags16 = nil
		for t := 0; t < 256; t++ {
			tags16 = append(tags16, t)
		}
	}
	fail := map[string]bool{}
	run := func(wt string, lo, hi int64, tags []int) {
		for _, tag := range tags {
			for v := lo; v <= hi; v++ {
				c := c02Case{WT: wt, Z: v, Tag: tag, RT: wt, RTag: tag, Req: true, Suffix: B{0x0b}}
				fs := c02Run(&c)
				count++
				for _, f := range fs {
					if !fail[f.Sig] {
						fail[f.Sig] = true
						f.Replay = c
						res.Failures = append(res.Failures, f)
					}
				}
			}
		}
	}
	all := make([]int, 256)
	for i := range all {
		all[i] = i
	}
	run("bool", 0, 1, all)
	run("int8", -128, 127, all)
	run("uint8", 0, 255, all)
	run("int16", -32768, 32767, tags16)
	run("uint16", 0, 65535, tags16)
	// long strings (implementation only: wire spec + round trip), around 64 KiB, 100 KiB, 1 MiB and beyond
	for _, l := range []int{65535, 65536, 102399, 102400, 102401, 300000, 1 << 20, 3<<20 + 1} {
		s := bytes.Repeat([]byte{'a', 0, 0x80, 'z'}, l/4+1)[:l]
		for _, tag := range []int{0, 15, 255} {
			c := c02Case{WT: "string", S: s, Tag: tag, RT: "string", RTag: tag, Req: true, Suffix: B{0x0b}}
			fs := c02Run(&c)
			count++
			for _, f := range fs {
				if !fail[f.Sig] {
					fail[f.Sig] = true
					f.Replay = map[string]interface{}{"long_string_len": l, "tag": tag}
					res.Failures = append(res.Failures, f)
				}
			}
		}
	}
	res.Stats["exhaustive_grid_cases_impl_only"] = count
	res.Evaluations += count
	c02Concurrent(tier, res, fail)
}

// contention: G goroutines write and read back their own values on their own Buffers/Readers at the same time (the codec
// has no shared state, so each goroutine must see exactly what a single-threaded run sees: wire spec + round trip).
// Values are goroutine-specific so that a leak from a neighbour is visible.
func c02Concurrent(tier string, res *Result, fail map[string]bool) {
	G, N := 8, 20000
	if tier == "thorough" {
		N = 400000
	}
	var mu sync.Mutex
	var wg sync.WaitGroup
	total := 0
	for g := 0; g < G; g++ {
		wg.Add(1)
		go func(g int) {
			defer wg.Done()
			pat := uint64(0x0101010101010101) * uint64(g+1)
			str := bytes.Repeat([]byte{byte('a' + g)}, 3+g*40)
			mk := []c02Case{
				{WT: "int64", RT: "int64", Z: int64(pat >> 1)}, {WT: "int64", RT: "int64", Z: -int64(pat>>1) - 1},
				{WT: "f64", RT: "f64", U: pat}, {WT: "f32", RT: "f32", U: pat & 0xffffffff}, {WT: "f32", RT: "f64", U: pat & 0x7f7fffff},
				{WT: "int32", RT: "int32", Z: int64(int32(pat))}, {WT: "int32", RT: "int64", Z: -int64(int32(pat)) - 1},
				{WT: "uint32", RT: "uint32", Z: int64(uint32(pat) | 0x80000000)}, {WT: "int16", RT: "int16", Z: int64(int16(pat)) | 0x100},
				{WT: "uint16", RT: "uint16", Z: int64(uint16(pat)) | 0x8000}, {WT: "uint8", RT: "uint8", Z: int64(uint8(pat)) | 0x80},
				{WT: "string", RT: "string", S: str}, {WT: "string", RT: "string", S: bytes.Repeat(str, 4)},
			}
			n := 0
			for it := 0; it < N; it++ {
				c := mk[it%len(mk)]
				c.Tag = []int{0, 7, 14, 15, 200, 255}[(it/len(mk)+g)%6]
				c.RTag, c.Req, c.Suffix = c.Tag, true, B{0x0b}
				fs := c02Run(&c)
				n++
				if len(fs) > 0 {
					mu.Lock()
					for _, f := range fs {
						f.Sig = "concurrent/" + f.Sig
						if !fail[f.Sig] {
							fail[f.Sig] = true
							f.Desc = fmt.Sprintf("with %d goroutines encoding/decoding on their own buffers at the same time (goroutine %d, iteration %d): %s", G, g, it, f.Desc)
							f.Replay = map[string]interface{}{"concurrent": true, "goroutines": G, "iterations": N, "case": c}
							res.Failures = append(res.Failures, f)
						}
					}
					mu.Unlock()
				}
			}
			mu.Lock()
			total += n
			mu.Unlock()
		}(g)
	}
	wg.Wait()
	res.Stats["concurrent_roundtrips_impl_only"] = total
	res.Evaluations += total
}

func init() {
	props["C02"] = func(a Args) {
		runProp(Prop[c02Case]{
			ID: "C02", Require: "From TarsV Require Import Base.Hex Codec.Wire Codec.Skip Codec.Prim.", CaseType: "c02_case + c02_raw_case",
			Mismatch: "failing_from c02_all", Corr: "Prim.c02_all (w_T = Buffer.WriteT bytes; r_T = Reader.ReadT value, error class and cursor)",
			Rule:  "(type, value, tag) triples: boundary-dense + random values per type at tags {0,1,7,13,14,15,16,17,127,128,200,254,255}, all 256 tags per type, exhaustive int8/uint8 at tags 14/15, float specials (NaN payloads, sNaN, inf, +-0, subnormals) + random bits, strings of length 0,1,2,254..257,300 (thorough: 65535,65536,70000) with NUL and >=0x80 bytes; readers of the same and of every wider type; cross-tag reads (skip / absent / required-missing); arbitrary bytes through every reader; implementation-only exhaustive grids (8-bit x 256 tags, 16-bit x {0,14,15,255} tags; thorough: x 256 tags) for round trip + wire spec; implementation-only contention runs (8 goroutines x 20000 (thorough 400000) round trips of goroutine-specific 64/32/16/8-bit, float and string values on their own buffers at the same time); class = (writer type, reader type, wire width chosen, tag class <15/>=15, kind)",
			Shard: 700, Workers: 8,
			Gen: c02Gen, Run: c02Run, Coq: c02Coq,
			Class: func(c *c02Case) string {
				if c.Raw {
					return fmt.Sprintf("raw/%s/%v/%d", c.RT, c.Err, len(c.Written))
				}
				tc := "lt15"
				if c.Tag >= 15 {
					tc = "ge15"
				}
				return fmt.Sprintf("%s/%s/w%d/%s/%v", c.WT, c.RT, len(c.Written), tc, c.RTag == c.Tag)
			},
			Extra: c02Extra,
			ReplayExtra: func(raw json.RawMessage, res *Result) bool {
				var m struct {
					Concurrent bool `json:"concurrent"`
				}
				if json.Unmarshal(raw, &m) != nil || !m.Concurrent {
					return false
				}
				c02Concurrent("quick", res, map[string]bool{})
				return true
			},
		}, a)
	}
}
