package main

// C05, real client receive path: a ServantProxy built through the public API calls a scripted TCP server that
// answers every request with the case's (hostile) response bytes. The bytes travel through the real
// transport receive loop, AdapterProxy.Recv and ResponsePacket decoding; a panic that escapes that path
// kills the worker process and is attributed to the case.

import (
	"context"
	"encoding/binary"
	"fmt"
	"io"
	"math/rand"
	"net"
	"sync"
	"time"

	"github.com/TarsCloud/TarsGo/tars"
	"github.com/TarsCloud/TarsGo/tars/protocol/res/requestf"
)

var (
	c05CliOnce sync.Once
	c05CliSP   *tars.ServantProxy
	c05CliMu   sync.Mutex
	c05CliResp []byte
	c05CliErr  error
)

func c05CliStart() {
	c05CliOnce.Do(func() {
		l, err := net.Listen("tcp", "127.0.0.1:0")
		if err != nil {
			c05CliErr = err
			return
		}
		go func() {
			for {
				c, err := l.Accept()
				if err != nil {
					return
				}
				go func(c net.Conn) {
					defer c.Close()
					var h [4]byte
					for {
						if _, err := io.ReadFull(c, h[:]); err != nil {
							return
						}
						n := int(binary.BigEndian.Uint32(h[:]))
						if n < 4 || n > 1<<24 {
							return
						}
						if _, err := io.CopyN(io.Discard, c, int64(n-4)); err != nil {
							return
						}
						c05CliMu.Lock()
						rs := append([]byte(nil), c05CliResp...)
						c05CliMu.Unlock()
						if len(rs) > 0 {
							c.SetWriteDeadline(time.Now().Add(2 * time.Second))
							if _, err := c.Write(rs); err != nil {
								return
							}
						}
					}
				}(c)
			}
		}()
		port := l.Addr().(*net.TCPAddr).Port
		comm := tars.NewCommunicator()
		c05CliSP = tars.NewServantProxy(comm, fmt.Sprintf("verif.c05client.obj@tcp -h 127.0.0.1 -p %d -t 60000", port))
	})
}

func init() {
	prev := entryDecodeNet
	entryDecodeNet = func(entry string, bs []byte) (string, string, bool) {
		if entry != "net-client-real" {
			if prev != nil {
				return prev(entry, bs)
			}
			return "", "", false
		}
		c05CliStart()
		if c05CliErr != nil {
			return "OErr", "harness: cannot listen: " + c05CliErr.Error(), true
		}
		c05CliMu.Lock()
		c05CliResp = bs
		c05CliMu.Unlock()
		ctx, cancel := context.WithTimeout(context.Background(), 120*time.Millisecond)
		defer cancel()
		var rp requestf.ResponsePacket
		// the hostile reply rarely carries the call's id, so the call usually ends by its deadline; what is judged is
		// that the process survives the packet (a panic in the per-packet Recv goroutine would end it)
		_ = c05CliSP.TarsInvoke(ctx, 0, "probe", []byte{}, nil, nil, &rp)
		time.Sleep(10 * time.Millisecond)
		return "OVal (VInt 0%Z)", "", true
	}
}

// c05Client: hostile response packets through the real client path
func c05Client(tier string, rng *rand.Rand, res *Result) {
	initRegistry()
	sid := -1
	var e regEntry
	for i, x := range registry {
		if x.name == "requestf.ResponsePacket" {
			sid, e = i, x
		}
	}
	if sid < 0 {
		return
	}
	type nc struct {
		note string
		body []byte
	}
	var cands []nc
	n := 25
	if tier == "thorough" {
		n = 400
	}
	for i := 0; i < n; i++ {
		v := gRandomValue(rng, e)
		body, err := gEncode(v)
		if err != nil {
			continue
		}
		cands = append(cands, nc{"random response packet", body})
		nb := append([]byte(nil), body...)
		for k := 0; k <= rng.Intn(3) && len(nb) > 0; k++ {
			nb[rng.Intn(len(nb))] = byte(rng.Intn(256))
		}
		cands = append(cands, nc{"mutated response packet", nb})
		if sp, ok := walkTop(body); ok {
			for _, s := range allSpans(sp) {
				if s.CountField != nil {
					cf := *s.CountField
					hc := hostileCounts(len(body) - cf.End)
					for _, k := range rng.Perm(len(hc))[:3] {
						cands = append(cands, nc{fmt.Sprintf("count of wire type %d := % x", s.Ty, hc[k]), append(append(append([]byte(nil), body[:cf.Start]...), hc[k]...), body[cf.End:]...)})
					}
				}
			}
		}
	}
	// the response's byte vector written as a LIST with hostile counts (the decoder panics on a negative count: the client must contain it)
	for _, cnt := range [][]byte{{0x00, 0xff}, {0x00, 0x80}, {0x01, 0x80, 0x00}, {0x02, 0xff, 0xff, 0xff, 0xff}, {0x00, 0x05}, {0x0c}} {
		body := append([]byte{0x10, 0x01, 0x20, 0x00, 0x30, 0x01, 0x40, 0x00, 0x50, 0x00, 0x69}, cnt...)
		cands = append(cands, nc{fmt.Sprintf("sBuffer as LIST with count % x", cnt), body})
	}
	for _, bm := range skipBombs() {
		cands = append(cands, nc{"skip bomb " + bm.note, bm.bs})
	}
	var pre []decReq
	for i, c := range cands {
		pre = append(pre, decReq{ID: i, Sid: sid, Bytes: c.body})
	}
	preResp := decodeMany(pre, 12, 20000)
	var reqs []decReq
	var notes []string
	for k, r := range preResp {
		// payloads on which the decoder itself dies or over-allocates are judged by the decoder cases (known findings);
		// a decoder PANIC is kept: the client receive path has to contain it
		if r.Died != "" || r.Alloc > 256*uint64(len(pre[k].Bytes))+(1<<20) {
			continue
		}
		reqs = append(reqs, decReq{ID: len(reqs), Entry: "net-client-real", Bytes: c05Frame(cands[k].body)})
		notes = append(notes, "net-client-real: "+cands[k].note+map[bool]string{true: " (the decoder panics on it)", false: ""}[r.Obs == "OPanic"])
	}
	for l := 0; l <= 5; l++ {
		raw := make([]byte, 4+l)
		raw[3] = byte(l)
		reqs = append(reqs, decReq{ID: len(reqs), Entry: "net-client-real", Bytes: raw})
		notes = append(notes, fmt.Sprintf("net-client-real: length prefix %d", l))
	}
	resp := decodeMany(reqs, 6, 30000)
	cnt := 0
	for i, r := range resp {
		sig := ""
		switch {
		case r.Died != "":
			sig = "network/process-death/net-client-real"
		case r.Obs == "OPanic":
			sig = "network/panic-or-dead-server/net-client-real"
		case r.Obs == "OErr":
			continue
		}
		cnt++
		if sig != "" {
			res.Failures = append(res.Failures, Failure{Sig: sig, Desc: fmt.Sprintf("%s [%d bytes %s]: obs=%s err=%s died=%s", notes[i], len(reqs[i].Bytes), hexOf(trunc(reqs[i].Bytes)), r.Obs, r.Err, r.Died), Replay: reqs[i]})
		}
	}
	res.Evaluations += len(reqs)
	if m, ok := res.Stats["network_entry_cases"].(map[string]int); ok {
		m["net-client-real"] = cnt
	} else {
		res.Stats["network_entry_cases_client_real"] = cnt
	}
}
