package main

import (
	"fmt"
	"os"

	"github.com/TarsCloud/TarsGo/tars/util/rogger"
)

var props = map[string]func(Args){}

func main() {
	if len(os.Args) < 2 {
		fmt.Fprintln(os.Stderr, "usage: harness <property|gen-consts|...> key=value ...")
		os.Exit(2)
	}
	rogger.SetLevel(rogger.OFF)
	a := parseArgs(os.Args[2:])
	f, ok := props[os.Args[1]]
	if !ok {
		fmt.Fprintln(os.Stderr, "unknown sub-command", os.Args[1])
		os.Exit(2)
	}
	f(a)
}
