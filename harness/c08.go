package main

// C08 — request ids and the pending-reply table.
//  (a) genRequestID differential: the real function from a set counter, single-threaded (= model exactly) and in
//      concurrent batches (non-zero, pairwise distinct, inside the reachable window);
//  (b) N concurrent callers on one ServantProxy against a scripted raw TCP server that answers in permuted order,
//      twice, late, never, with forged ids (0, never issued, already completed) and one-way typed packets; each caller
//      must end with its own payload or no reply; the event log is turned into a label sequence of Conc/Pending.v
//      and validated by [accepts].

import (
	"bytes"
	"context"
	"encoding/binary"
	"encoding/json"
	"fmt"
	"io"
	"math/rand"
	"net"
	"os"
	"os/exec"
	"path/filepath"
	"runtime"
	"sort"
	"strings"
	"sync"
	"sync/atomic"
	"time"

	"github.com/TarsCloud/TarsGo/tars"
	"github.com/TarsCloud/TarsGo/tars/protocol/codec"
	"github.com/TarsCloud/TarsGo/tars/protocol/res/basef"
	"github.com/TarsCloud/TarsGo/tars/protocol/res/requestf"
	tarsreg "github.com/TarsCloud/TarsGo/tars/registry"
	"github.com/TarsCloud/TarsGo/tars/util/current"
	"github.com/TarsCloud/TarsGo/tars/util/tools"
)

func init() {
	constGens = append(constGens, func() { fmt.Printf("Definition c_maxInt32 := %d.\n", tars.VerifC08MaxInt32()) })
}

// ---------------------------------------------------------------- shared plumbing (also used by C09)

var (
	c08CommOnce sync.Once
	c08Comm     *tars.Communicator
)

func c08Communicator() *tars.Communicator {
	c08CommOnce.Do(func() {
		c08Comm = tars.NewCommunicator()
		tars.RegisterPreClientFilter(c08PreFilter)
	})
	return c08Comm
}

// c08Proxy creates a ServantProxy for a direct endpoint; every scenario uses its own object name (own manager/adapter).
func c08Proxy(obj string, port int) *tars.ServantProxy {
	comm := c08Communicator()
	return tars.NewServantProxy(comm, fmt.Sprintf("%s@tcp -h 127.0.0.1 -p %d -t 60000", obj, port))
}

// a registrar that knows no endpoint for any object: calls on a proxy resolved through it are rejected by doInvoke with
// 'no adapter Proxy selected' before anything is registered or sent
type c08NoEndpoints struct{}

func (c08NoEndpoints) Registry(ctx context.Context, servant *tarsreg.ServantInstance) error { return nil }
func (c08NoEndpoints) Deregister(ctx context.Context, servant *tarsreg.ServantInstance) error {
	return nil
}
func (c08NoEndpoints) QueryServant(ctx context.Context, id string) ([]tarsreg.Endpoint, []tarsreg.Endpoint, error) {
	return nil, nil, nil
}
func (c08NoEndpoints) QueryServantBySet(ctx context.Context, id, set string) ([]tarsreg.Endpoint, []tarsreg.Endpoint, error) {
	return nil, nil, nil
}

// a registrar whose answer per object the scenario scripts (and changes while calls are outstanding)
type c08ScriptedRegistrar struct {
	mu  sync.Mutex
	eps map[string][]tarsreg.Endpoint
}

func (r *c08ScriptedRegistrar) set(obj string, port int) {
	r.mu.Lock()
	r.eps[obj] = []tarsreg.Endpoint{{Host: "127.0.0.1", Port: int32(port), Timeout: 60000, Istcp: 1}}
	r.mu.Unlock()
}
func (r *c08ScriptedRegistrar) Registry(ctx context.Context, servant *tarsreg.ServantInstance) error {
	return nil
}
func (r *c08ScriptedRegistrar) Deregister(ctx context.Context, servant *tarsreg.ServantInstance) error {
	return nil
}
func (r *c08ScriptedRegistrar) QueryServant(ctx context.Context, id string) ([]tarsreg.Endpoint, []tarsreg.Endpoint, error) {
	r.mu.Lock()
	defer r.mu.Unlock()
	return append([]tarsreg.Endpoint(nil), r.eps[id]...), nil, nil
}
func (r *c08ScriptedRegistrar) QueryServantBySet(ctx context.Context, id, set string) ([]tarsreg.Endpoint, []tarsreg.Endpoint, error) {
	return r.QueryServant(ctx, id)
}

var (
	c08RegOnce sync.Once
	c08Reg     = &c08ScriptedRegistrar{eps: map[string][]tarsreg.Endpoint{}}
	c08RegComm *tars.Communicator
)

// c08RegistryProxy creates a proxy whose endpoints come from the scripted registrar (initially the given port).
func c08RegistryProxy(obj string, port int) *tars.ServantProxy {
	c08Communicator()
	c08RegOnce.Do(func() { c08RegComm = tars.NewCommunicator(tars.Registrar(c08Reg)) })
	c08Reg.set(obj, port)
	return tars.NewServantProxy(c08RegComm, obj)
}

var (
	c08NoEpOnce sync.Once
	c08NoEpComm *tars.Communicator
)

func c08NoEpProxy(obj string) *tars.ServantProxy {
	c08Communicator()
	c08NoEpOnce.Do(func() { c08NoEpComm = tars.NewCommunicator(tars.Registrar(c08NoEndpoints{})) })
	return tars.NewServantProxy(c08NoEpComm, obj)
}

// the pre client filter sees every request (with its id) just before doInvoke
var (
	c08HookMu sync.RWMutex
	c08Hooks  = map[string]func(req *requestf.RequestPacket){}
)

func c08PreFilter(ctx context.Context, msg *tars.Message, invoke tars.Invoke, timeout time.Duration) error {
	c08HookMu.RLock()
	f := c08Hooks[msg.Req.SServantName]
	c08HookMu.RUnlock()
	if f != nil {
		f(msg.Req)
	}
	return nil
}

func c08SetHook(obj string, f func(req *requestf.RequestPacket)) {
	c08HookMu.Lock()
	if f == nil {
		delete(c08Hooks, obj)
	} else {
		c08Hooks[obj] = f
	}
	c08HookMu.Unlock()
}

func c08EncodeResponse(id int32, ptype int8, payload []byte) []byte {
	rsp := requestf.ResponsePacket{IVersion: basef.TARSVERSION, CPacketType: ptype, IRequestId: id, SBuffer: tools.ByteToInt8(payload)}
	os := codec.NewBuffer()
	_ = os.WriteSliceInt8(make([]int8, 4))
	_ = rsp.WriteTo(os)
	bs := os.ToBytes()
	binary.BigEndian.PutUint32(bs, uint32(len(bs)))
	return bs
}

// c08ReadRequest reads one length-prefixed request from conn.
func c08ReadRequest(conn net.Conn) (*requestf.RequestPacket, error) {
	var h [4]byte
	if _, err := io.ReadFull(conn, h[:]); err != nil {
		return nil, err
	}
	n := int(binary.BigEndian.Uint32(h[:]))
	if n < 4 || n > 64<<20 {
		return nil, fmt.Errorf("bad length %d", n)
	}
	body := make([]byte, n-4)
	if _, err := io.ReadFull(conn, body); err != nil {
		return nil, err
	}
	req := &requestf.RequestPacket{}
	if err := req.ReadFrom(codec.NewReader(body)); err != nil {
		return nil, err
	}
	return req, nil
}

// ---------------------------------------------------------------- cases

type c08Ev struct {
	Kind   string  `json:"k"` // reg | pkt | end | snap
	K      int     `json:"c"` // caller (reg, end)
	ID     int32   `json:"id"`
	Pay    uint64  `json:"pay"` // pkt: payload; end: payload got (if Got)
	Conn   int     `json:"conn,omitempty"` // pkt: connection it was written to
	Oneway bool    `json:"ow,omitempty"`
	Got    bool    `json:"got,omitempty"`
	IDs    []int32 `json:"ids,omitempty"` // snap: ids found in the pending-reply table at that moment
	Ctr    int32   `json:"ctr"`           // every event: value of the id counter when the event was logged
}

type c08Case struct {
	Kind string `json:"kind"` // seq | mt | mtbig | trace
	// seq / mt
	Start   int32   `json:"start"`
	Calls   int     `json:"calls"`
	Threads int     `json:"threads"`
	IDs     []int32 `json:"ids"`
	Final   int32   `json:"final"`
	// trace
	N         int      `json:"n"`      // callers per round
	Rounds    int      `json:"rounds"` // rounds on the same proxy / connection, one after the other (0 = 1)
	Proxies   int      `json:"proxies"` // ServantProxy objects (own adapter, own connection to the same server) the callers are spread over (0 = 1)
	Filters   string   `json:"filters,omitempty"` // "": the harness process (pre client filter only). "prepost" | "cf": child process with pass-through pre+post client filters / a pass-through client filter
	Wire      []int32  `json:"wire"`    // observed: request ids of all requests the scripted server received, any packet type
	NConn     int      `json:"nconn"`   // observed: connections the server accepted
	ConnOf    []int    `json:"conn_of"` // observed, per caller: connection its request arrived on (-1: never seen)
	Pending   []int32  `json:"pending"` // observed: ids left in the pending-reply table after the last round
	SetID     bool     `json:"set_id"` // set the counter to Start before the scenario
	Acts      []string `json:"acts"`   // per caller
	Order     []int    `json:"order"`  // order in which the server handles the callers
	TimeoutMs int      `json:"timeout_ms"`
	Events    []c08Ev  `json:"events"`
	Class     string   `json:"class"`
	Skipped   bool     `json:"skipped,omitempty"` // not run (an earlier genRequestID case hung)
	Push       bool   `json:"push,omitempty"`        // trace: proxy 0 has a push callback; id-0 packets on its connections must reach it
	Registry   bool   `json:"registry,omitempty"`    // trace: the proxies resolve their endpoint through a scripted registrar; CloseAt then means: the registrar lists another endpoint (second listener of the same peer) and the proxies refresh
	CloseAt    int    `json:"close_at,omitempty"`    // trace: 1+round in which every adapter of the scenario's proxies is closed while that round's calls are outstanding (0 = never)
	PatienceMs int    `json:"patience_ms,omitempty"` // set by the parent when it runs the case in a child: deadline of answered callers
	Opts       bool   `json:"opts,omitempty"`        // trace: callers carry per-call options through the context (client timeout - the same value for all of them -, hash, dyeing key) and status / context maps
	C0         int32  `json:"c0"`                    // trace, observed: the id counter when the scenario started (after positioning)
	QueueMax   int    `json:"queue_max,omitempty"`   // trace: ObjQueueMax during the scenario (0 = default 100000): callers beyond it are rejected with 'invoke queue is full'
	Pings      int    `json:"pings,omitempty"`       // trace: keep-alive pings triggered per proxy while each round is outstanding; the peer acknowledges them (echo of the id, normal type, poisoned payload)
	PingAt     bool   `json:"ping_at,omitempty"`     // trace: position the id counter so that a call of the first round holds the id equal to the proxy's timeout in ms
	NPings     int    `json:"npings,omitempty"`      // observed: ping requests the server received
	Follow     bool   `json:"follow,omitempty"`      // trace: a caller answered by reply/dup at once makes a second call (index total+k)
	DupN       int    `json:"dupn,omitempty"`        // trace: act dup sends 3 writes of DupN replies each (0 = 1)
	Procs      int    `json:"procs,omitempty"`       // trace: GOMAXPROCS during the scenario (0 = unchanged)
	Spin       int64  `json:"spin,omitempty"`        // wrap: allocations between call A and call B
	WrapServed []bool `json:"wrap_served,omitempty"` // wrap, observed: did A / B come back with a reply
}

const c08Poison = 0xFFFFFFFF

// c08Patience is the deadline of a caller that is going to be answered: far beyond anything a loaded machine needs (the
// scripted server answers within milliseconds of having collected the round's requests).
const c08PatienceFull = 12 * time.Second

// Once a scenario of the run has reported a failure the verdict is a violation anyway: the remaining scenarios still run and
// report, but their answered callers wait 2 s instead of 12 s, so that a change that loses most replies is reported in
// minutes, not in tens of minutes. On a tree without failures nothing changes. (Children get the value through the case.)
var c08Patience = c08PatienceFull

func c08NoteFailures(fs []Failure) {
	if len(fs) > 0 {
		c08Patience = 2 * time.Second
	}
}

// c08OptTimeoutMs is the per-call client timeout (ms) that callers with options put into their context: the same value
// for all of them, beyond the patience of any caller.
const c08OptTimeoutMs = 15000

func c08Payload(k uint32, variant uint32) []byte {
	b := make([]byte, 8)
	binary.BigEndian.PutUint32(b, k)
	binary.BigEndian.PutUint32(b[4:], variant)
	return b
}

var c08ObjSeq int
var c08ObjMu sync.Mutex

func c08NextObj(prefix string) string {
	c08ObjMu.Lock()
	defer c08ObjMu.Unlock()
	c08ObjSeq++
	return fmt.Sprintf("Verif.%sSrv%d.Obj", prefix, c08ObjSeq)
}

// c08GenStuck is set when a genRequestID case did not come back: its goroutines still spin on the process-wide counter,
// so the remaining cases of this run are skipped (the failure is reported; a replay runs the case alone).
var c08GenStuck bool

func c08RunGen(c *c08Case) []Failure {
	done := make(chan []Failure, 1)
	go func() { done <- c08RunGenBody(c) }()
	select {
	case fs := <-done:
		return fs
	case <-time.After(60 * time.Second):
		c08GenStuck = true
		c.Skipped = true
		return []Failure{{Sig: "genRequestID/does-not-return", Desc: fmt.Sprintf("genRequestID: %d calls on %d threads from counter %d did not finish within 60 s (each call is one CAS and at most two increments)", c.Calls, c.Threads, c.Start)}}
	}
}

func c08RunGenBody(c *c08Case) []Failure {
	sp := c08Proxy("Verif.C08Gen.Obj", 1)
	var fs []Failure
	var ids []int32
	if c.Kind == "seq" {
		tars.VerifC08SetMsgID(c.Start)
		for i := 0; i < c.Calls; i++ {
			ids = append(ids, tars.VerifC08GenRequestID(sp))
		}
	} else {
		tars.VerifC08SetMsgID(c.Start)
		per := c.Calls / c.Threads
		out := make([][]int32, c.Threads)
		var wg sync.WaitGroup
		start := make(chan struct{})
		for t := 0; t < c.Threads; t++ {
			wg.Add(1)
			go func(t int) {
				defer wg.Done()
				l := make([]int32, 0, per)
				<-start
				for i := 0; i < per; i++ {
					l = append(l, tars.VerifC08GenRequestID(sp))
				}
				out[t] = l
			}(t)
		}
		close(start)
		wg.Wait()
		for _, l := range out {
			ids = append(ids, l...)
		}
	}
	c.Final = tars.VerifC08MsgID()
	if c.Kind != "mtbig" { // the large batches are checked here only and not kept in the case
		c.IDs = ids
	}
	seen := make(map[int32]bool, len(ids))
	for _, id := range ids {
		if id == 0 {
			fs = append(fs, Failure{Sig: "genRequestID/zero-id", Desc: fmt.Sprintf("genRequestID returned 0 (counter started at %d, %d calls, %d threads)", c.Start, c.Calls, c.Threads)})
			break
		}
	}
	for _, id := range ids {
		if seen[id] {
			fs = append(fs, Failure{Sig: "genRequestID/duplicate-id", Desc: fmt.Sprintf("genRequestID returned %d twice within %d allocations (counter started at %d, %d threads)", id, len(ids), c.Start, c.Threads)})
			break
		}
		seen[id] = true
	}
	if c.Kind == "mtbig" {
		// n calls perform n increments, plus one for each time the counter passes 0; a CAS at the threshold skips ahead.
		// Away from both the counter must have advanced by exactly n.
		maxi, n, st := int64(tars.VerifC08MaxInt32()), int64(len(ids)), int64(c.Start)
		if (st < 0 && st+n < 0) || (st >= 0 && st+n < maxi) {
			if int64(c.Final) != st+n {
				fs = append(fs, Failure{Sig: "genRequestID/lost-or-extra-increment", Desc: fmt.Sprintf("%d calls on %d threads from counter %d (no wrap, no zero in reach) left the counter at %d, expected %d", n, c.Threads, c.Start, c.Final, st+n)})
			}
		}
	}
	return fs
}

// ---- scripted server scenario

type c08Log struct {
	mu sync.Mutex
	ev []c08Ev
}

// add appends an event together with the value of the process-wide id counter read under the log's lock: the counter
// values appear in the log in the order in which they were read.
func (l *c08Log) add(e c08Ev) {
	l.mu.Lock()
	e.Ctr = tars.VerifC08MsgID()
	l.ev = append(l.ev, e)
	l.mu.Unlock()
}

// ---- scenarios with registered client filters run in a child process (filters are process-global and select the branch
// TarsInvoke takes around doInvoke): "prepost" = the logging pre client filter plus pass-through post client filters,
// "cf" = one pass-through client filter (RegisterClientFilter), "mw" = one pass-through client filter middleware.
var c08InChild bool

func c08InstallFilters(mode string) {
	c08Communicator() // registers the logging pre client filter
	pass := func(ctx context.Context, msg *tars.Message, invoke tars.Invoke, timeout time.Duration) error { return nil }
	switch mode {
	case "plain": // no filter beyond the logging pre client filter: a child only because the scenario may kill the process
	case "prepost":
		tars.RegisterPreClientFilter(pass)
		tars.RegisterPostClientFilter(pass)
		tars.RegisterPostClientFilter(pass)
	case "cf":
		tars.RegisterClientFilter(func(ctx context.Context, msg *tars.Message, invoke tars.Invoke, timeout time.Duration) error {
			_ = c08PreFilter(ctx, msg, invoke, timeout)
			return invoke(ctx, msg, timeout)
		})
	case "mw":
		tars.UseClientFilterMiddleware(func(next tars.ClientFilter) tars.ClientFilter {
			return func(ctx context.Context, msg *tars.Message, invoke tars.Invoke, timeout time.Duration) error {
				_ = c08PreFilter(ctx, msg, invoke, timeout)
				return next(ctx, msg, invoke, timeout)
			}
		})
	default:
		fatal("c08-child: unknown filter mode %q", mode)
	}
}

type c08ChildOut struct {
	Case  c08Case   `json:"case"`
	Fails []Failure `json:"fails"`
}

func init() {
	props["c08-child"] = func(a Args) {
		b, err := os.ReadFile(a.Replay)
		if err != nil {
			fatal("c08-child: %v", err)
		}
		var c c08Case
		if err := json.Unmarshal(b, &c); err != nil {
			fatal("c08-child: %v", err)
		}
		c08InChild = true
		if c.PatienceMs > 0 {
			c08Patience = time.Duration(c.PatienceMs) * time.Millisecond
		}
		c08InstallFilters(c.Filters)
		fs := c08RunTrace(&c)
		ob, _ := json.Marshal(c08ChildOut{Case: c, Fails: fs})
		if err := os.WriteFile(a.Out, ob, 0o644); err != nil {
			fatal("c08-child: %v", err)
		}
	}
}

var c08ChildSeq int

func c08RunChild(c *c08Case, dir string) []Failure {
	c08ChildSeq++
	in := filepath.Join(dir, fmt.Sprintf("c08-child-%d-in.json", c08ChildSeq))
	out := filepath.Join(dir, fmt.Sprintf("c08-child-%d-out.json", c08ChildSeq))
	c.PatienceMs = int(c08Patience / time.Millisecond)
	b, _ := json.Marshal(c)
	c.PatienceMs = 0
	if err := os.WriteFile(in, b, 0o644); err != nil {
		fatal("c08 child input: %v", err)
	}
	ctx, cancel := context.WithTimeout(context.Background(), 5*time.Minute)
	defer cancel()
	cmd := exec.CommandContext(ctx, os.Args[0], "c08-child", "replay="+in, "out="+out)
	msg, err := cmd.CombinedOutput()
	var res c08ChildOut
	if err == nil {
		var ob []byte
		if ob, err = os.ReadFile(out); err == nil {
			err = json.Unmarshal(ob, &res)
		}
	}
	if err != nil {
		tail := string(msg)
		if len(tail) > 600 {
			tail = tail[len(tail)-600:]
		}
		c.Skipped = true
		return []Failure{{Sig: "child/scenario-process-failed", Desc: fmt.Sprintf("the child process running the scenario with client filters %q did not deliver a result: %v; output: %s", c.Filters, err, tail)}}
	}
	*c = res.Case
	c.PatienceMs = 0
	return res.Fails
}

func c08RunTrace(c *c08Case) []Failure {
	if c.Procs > 0 {
		defer runtime.GOMAXPROCS(runtime.GOMAXPROCS(c.Procs))
	}
	ln, err := net.Listen("tcp", "127.0.0.1:0")
	if err != nil {
		fatal("listen: %v", err)
	}
	defer ln.Close()
	port := ln.Addr().(*net.TCPAddr).Port
	nprox := c.Proxies
	if nprox < 1 {
		nprox = 1
	}
	log := &c08Log{}
	var sps []*tars.ServantProxy
	var objs []string
	var ln2 net.Listener
	if c.Registry {
		if ln2, err = net.Listen("tcp", "127.0.0.1:0"); err != nil {
			fatal("listen: %v", err)
		}
		defer ln2.Close()
	}
	for i := 0; i < nprox; i++ {
		obj := c08NextObj("C08")
		objs = append(objs, obj)
		if c.Registry {
			sps = append(sps, c08RegistryProxy(obj, port))
		} else {
			sps = append(sps, c08Proxy(obj, port))
		}
		c08SetHook(obj, func(req *requestf.RequestPacket) {
			b := tools.Int8ToByte(req.SBuffer)
			if len(b) == 8 {
				log.add(c08Ev{Kind: "reg", K: int(binary.BigEndian.Uint32(b)), ID: req.IRequestId, Oneway: req.CPacketType == basef.TARSONEWAY})
			}
		})
		defer c08SetHook(obj, nil)
	}
	if c.Push {
		sps[0].SetPushCallback(func(b []byte) {
			e := c08Ev{Kind: "push"}
			if len(b) == 8 {
				e.Pay = binary.BigEndian.Uint64(b)
			}
			log.add(e)
		})
	}
	// a proxy whose endpoint refuses connections: its calls fail inside doInvoke (act "fail")
	var deadSp *tars.ServantProxy
	for _, a := range c.Acts {
		if a == "fail" && deadSp == nil {
			dport := 1 // tcpmux: nobody listens there; a port that was just closed could be handed to another process's listener
			obj := c08NextObj("C08Dead")
			deadSp = c08Proxy(obj, dport)
			c08SetHook(obj, func(req *requestf.RequestPacket) {
				b := tools.Int8ToByte(req.SBuffer)
				if len(b) == 8 {
					log.add(c08Ev{Kind: "reg", K: int(binary.BigEndian.Uint32(b)), ID: req.IRequestId, Oneway: req.CPacketType == basef.TARSONEWAY})
				}
			})
			defer c08SetHook(obj, nil)
		}
	}
	var noepSp *tars.ServantProxy
	for _, a := range c.Acts {
		if a == "noep" && noepSp == nil {
			obj := c08NextObj("C08NoEp")
			noepSp = c08NoEpProxy(obj)
			c08SetHook(obj, func(req *requestf.RequestPacket) {
				b := tools.Int8ToByte(req.SBuffer)
				if len(b) == 8 {
					log.add(c08Ev{Kind: "reg", K: int(binary.BigEndian.Uint32(b)), ID: req.IRequestId, Oneway: req.CPacketType == basef.TARSONEWAY})
				}
			})
			defer c08SetHook(obj, nil)
		}
	}
	if c.QueueMax > 0 {
		cfg := c08Communicator().Client
		old := cfg.ObjQueueMax
		cfg.ObjQueueMax = int32(c.QueueMax)
		defer func() { cfg.ObjQueueMax = old }()
	}
	pendingIDs := func() []int32 {
		var ids []int32
		for _, sp := range sps {
			ids = append(ids, tars.VerifC08PendingIDs(sp)...)
		}
		return ids
	}
	rounds := c.Rounds
	if rounds < 1 {
		rounds = 1
	}
	total := c.N * rounds

	type seen struct {
		k    int
		id   int32
		conn net.Conn
		ci   int
	}
	reqCh := make(chan seen, total+8)
	// follow-up calls (caller index total+k): a caller that was answered (acts reply, dup) at once makes a second call on
	// the same proxy; the server answers it on sight. Whatever the first call left behind (receivers still holding its
	// channel, stale packets) must not reach the second.
	var npings int32
	wantedPings := 0
	var followMu sync.Mutex
	followSeen := map[int]seen{}
	var sendFn func(conn net.Conn, id int32, pay []byte, ow bool)
	var wireMu sync.Mutex
	var wire []int32
	var wmu sync.Mutex
	var conns []net.Conn
	var cmu sync.Mutex
	serve := func(ln net.Listener) {
		for {
			conn, err := ln.Accept()
			if err != nil {
				return
			}
			cmu.Lock()
			ci := len(conns)
			conns = append(conns, conn)
			cmu.Unlock()
			go func(conn net.Conn) {
				for {
					req, err := c08ReadRequest(conn)
					if err != nil {
						return
					}
					wireMu.Lock()
					wire = append(wire, req.IRequestId)
					wireMu.Unlock()
					b := tools.Int8ToByte(req.SBuffer)
					if req.SFuncName == "tars_ping" { // keep-alive: an allocation from the same generator; acknowledged like an ordinary call
						log.add(c08Ev{Kind: "ping", ID: req.IRequestId, Conn: ci})
						sendFn(conn, req.IRequestId, c08Payload(c08Poison, 0x50494E47), false)
						atomic.AddInt32(&npings, 1)
						continue
					}
					if len(b) != 8 {
						continue
					}
					if k := int(binary.BigEndian.Uint32(b)); k >= total {
						followMu.Lock()
						followSeen[k] = seen{k, req.IRequestId, conn, ci}
						followMu.Unlock()
						sendFn(conn, req.IRequestId, c08Payload(uint32(k), 0), false)
						continue
					}
					reqCh <- seen{int(binary.BigEndian.Uint32(b)), req.IRequestId, conn, ci}
				}
			}(conn)
		}
	}
	go serve(ln)
	if ln2 != nil {
		go serve(ln2)
	}
	defer func() {
		cmu.Lock()
		for _, cn := range conns {
			cn.Close()
		}
		cmu.Unlock()
	}()

	ended := make([]chan struct{}, total)
	for i := range ended {
		ended[i] = make(chan struct{})
	}
	connIdx := func(conn net.Conn) int {
		cmu.Lock()
		defer cmu.Unlock()
		for i, cn := range conns {
			if cn == conn {
				return i
			}
		}
		return 0
	}
	send := func(conn net.Conn, id int32, pay []byte, ow bool) {
		pt := basef.TARSNORMAL
		if ow {
			pt = basef.TARSONEWAY
		}
		pkt := c08EncodeResponse(id, pt, pay)
		ci := connIdx(conn)
		wmu.Lock()
		log.add(c08Ev{Kind: "pkt", ID: id, Pay: binary.BigEndian.Uint64(pay), Oneway: ow, Conn: ci})
		conn.SetWriteDeadline(time.Now().Add(5 * time.Second))
		conn.Write(pkt)
		wmu.Unlock()
	}

	sendFn = send
	if c.PingAt { // one of the first callers gets the id that equals the proxy's timeout value in ms
		c.SetID, c.Start = true, int32(tars.VerifC08ProxyTimeout(sps[0])-1-c.N/2)
	}
	if c.SetID {
		tars.VerifC08SetMsgID(c.Start)
	}
	c.C0 = tars.VerifC08MsgID()
	type outc struct {
		got    bool // a two-way call came back without an error
		pay    uint64
		noBody bool // ... but its ResponsePacket carries no payload
		owBody bool // a one-way call came back with a payload
	}
	outs := make([]outc, 2*total)
	reqs := map[int]seen{}
	var fs []Failure
	var lateWg sync.WaitGroup
	var doneList []int // callers known to have returned
	patient := func(k int) bool {
		switch c.Acts[k] {
		case "none", "late", "ow", "fail", "noep", "cancel", "cancelD", "closed":
			return false
		}
		return true
	}
	var bodyMu sync.Mutex
	gotBody := map[int][]byte{}  // callers that came back with more than the 8-byte payload: the whole body
	sentBody := map[int][]byte{} // act split: the body the peer sent
	var cancelMu sync.Mutex
	cancels := map[int]context.CancelFunc{}
	cancelOf := func(k int) {
		cancelMu.Lock()
		f := cancels[k]
		cancelMu.Unlock()
		if f != nil {
			f()
		}
	}
	replied := map[int]time.Time{} // callers the server has written the genuine reply to, and when
	started := map[int]time.Time{}
	wantPush := map[uint64]int{} // payloads of id-0 packets written to connections of the proxy that has a push callback

	for round := 0; round < rounds; round++ {
		lo, hi := round*c.N, (round+1)*c.N
		// callers of this round
		var wg sync.WaitGroup
		startCh := make(chan struct{})
		for k := lo; k < hi; k++ {
			wg.Add(1)
			go func(k int) {
				defer wg.Done()
				to := c08Patience
				if !patient(k) {
					to = time.Duration(c.TimeoutMs) * time.Millisecond
				}
				// the caller's context: a deadline; or (acts cancel / cancelD) a cancellable context without a deadline of its
				// own / under a distant deadline, cancelled by the script while the two-way request is in flight
				var ctx context.Context
				var cancel context.CancelFunc
				switch c.Acts[k] {
				case "cancel":
					ctx, cancel = context.WithCancel(context.Background())
				case "cancelD":
					parent, pc := context.WithTimeout(context.Background(), 60*time.Second)
					defer pc()
					ctx, cancel = context.WithCancel(parent)
				}
				if cancel != nil {
					cancelMu.Lock()
					cancels[k] = cancel
					cancelMu.Unlock()
				}
				<-startCh
				if cancel == nil {
					ctx, cancel = context.WithTimeout(context.Background(), to)
				}
				defer cancel()
				var resp requestf.ResponsePacket
				sp, ptype := sps[k%nprox], byte(basef.TARSNORMAL)
				if c.Acts[k] == "fail" {
					sp = deadSp
				}
				if c.Acts[k] == "noep" {
					sp = noepSp
				}
				if c.Acts[k] == "ow" {
					ptype = byte(basef.TARSONEWAY)
				}
				var status, reqCtx map[string]string
				if c.Opts { // per-call options travel in the context; none of them has anything to do with the request id
					ctx = current.ContextWithClientCurrent(current.ContextWithTarsCurrent(ctx))
					switch k % 5 {
					case 0:
						current.SetClientTimeout(ctx, c08OptTimeoutMs)
					case 1:
						current.SetClientHash(ctx, int(tars.ModHash), uint32(k))
					case 2:
						current.SetClientTimeout(ctx, c08OptTimeoutMs)
						current.SetClientHash(ctx, int(tars.ConsistentHash), 7)
					case 3:
						current.SetDyeingKey(ctx, "verif-dye")
						status = map[string]string{"verif": "status"}
					case 4:
						current.SetClientTimeout(ctx, 0)
						reqCtx = map[string]string{"verif": "context"}
					}
				}
				err := sp.TarsInvoke(ctx, ptype, "echo", c08Payload(uint32(k), 0), status, reqCtx, &resp)
				o := outc{}
				b := tools.Int8ToByte(resp.SBuffer)
				switch {
				case c.Acts[k] == "ow":
					o.owBody = err == nil && len(b) != 0
				case err == nil && len(b) >= 8:
					o = outc{got: true, pay: binary.BigEndian.Uint64(b)}
					if len(b) > 8 {
						bodyMu.Lock()
						gotBody[k] = append([]byte(nil), b...)
						bodyMu.Unlock()
					}
				case err == nil:
					o = outc{got: true, pay: uint64(c08Poison)<<32 | 0xBAD, noBody: true}
				}
				outs[k] = o
				log.add(c08Ev{Kind: "end", K: k, Got: o.got, Pay: o.pay})
				close(ended[k])
				if c.Follow && o.got && (c.Acts[k] == "reply" || c.Acts[k] == "dup") { // follow-up call, at once, same proxy
					fk := total + k
					ctx2, cancel2 := context.WithTimeout(context.Background(), c08Patience)
					defer cancel2()
					var resp2 requestf.ResponsePacket
					err := sp.TarsInvoke(ctx2, byte(basef.TARSNORMAL), "echo", c08Payload(uint32(fk), 0), nil, nil, &resp2)
					o2 := outc{}
					b2 := tools.Int8ToByte(resp2.SBuffer)
					switch {
					case err == nil && len(b2) == 8:
						o2 = outc{got: true, pay: binary.BigEndian.Uint64(b2)}
					case err == nil:
						o2 = outc{got: true, pay: uint64(c08Poison)<<32 | 0xBAD, noBody: true}
					}
					outs[fk] = o2
					log.add(c08Ev{Kind: "end", K: fk, Got: o2.got, Pay: o2.pay})
				}
			}(k)
		}
		started[round] = time.Now()
		close(startCh)

		// server script: collect the round's requests, then handle them in the scripted order
		deadline := time.After(4 * time.Second)
		have, expect := 0, 0
		for k := lo; k < hi; k++ {
			if c.Acts[k] != "fail" && c.Acts[k] != "noep" {
				expect++
			}
		}
		tick := time.NewTicker(5 * time.Millisecond)
	collect:
		for have < expect {
			select {
			case s := <-reqCh:
				if _, dup := reqs[s.k]; !dup && s.k >= lo && s.k < hi {
					have++
				}
				reqs[s.k] = s
			case <-tick.C:
				if c.QueueMax > 0 { // callers rejected because the queue is full have come back without sending anything
					gone := 0
					for k := lo; k < hi; k++ {
						if _, seenReq := reqs[k]; !seenReq && c.Acts[k] != "fail" && c.Acts[k] != "noep" {
							select {
							case <-ended[k]:
								gone++
							default:
							}
						}
					}
					if have+gone >= expect {
						time.Sleep(20 * time.Millisecond) // requests still on their way
						for {
							select {
							case s := <-reqCh:
								reqs[s.k] = s
								continue
							default:
							}
							break
						}
						break collect
					}
				}
			case <-deadline:
				break collect
			}
		}
		tick.Stop()
		// snapshot of the pending-reply table while the round's calls are outstanding: a call whose request the server
		// has seen and that cannot end yet (8 s deadline, nothing sent to it) must have its entry under its own id
		snap := pendingIDs()
		log.add(c08Ev{Kind: "snap", IDs: snap})
		inSnap := map[int32]bool{}
		for _, id := range snap {
			inSnap[id] = true
		}
		// (callers that race on a proxy's first call may each create an adapter and connection of their own, of which the
		// endpoint manager keeps one; the accessor sees that one, so the monitor applies when the whole round came
		// through one connection per proxy)
		usedConn, usedProx := map[int]bool{}, map[int]bool{}
		for k := lo; k < hi; k++ {
			if s, ok := reqs[k]; ok {
				usedConn[s.ci] = true
				usedProx[k%nprox] = true
			}
		}
		oneConn := len(usedConn) > 0 && len(usedConn) == len(usedProx) // one connection per proxy in use
		if c.QueueMax > 0 && round == 0 {
			oneConn = false // the creator of the adapter the endpoint manager kept may be among the rejected callers
		}
		for k := lo; k < hi && oneConn; k++ {
			if s, ok := reqs[k]; ok && patient(k) && !inSnap[s.id] {
				fs = append(fs, Failure{Sig: "call/outstanding-call-has-no-entry", Desc: fmt.Sprintf("caller %d is outstanding with request id %d (request seen by the server, no reply sent, deadline far away) but the pending-reply table holds only %v", k, s.id, snap)})
				break
			}
		}
		if c.Pings > 0 { // keep-alive pings while the round is outstanding; wait until the peer has seen (and acknowledged) them
			want := atomic.LoadInt32(&npings)
			for i := 0; i < c.Pings; i++ {
				for _, sp := range sps {
					n := tars.VerifC08KeepAlive(sp)
					want += int32(n)
					wantedPings += n
				}
			}
			for i := 0; i < 200 && atomic.LoadInt32(&npings) < want; i++ {
				time.Sleep(10 * time.Millisecond)
			}
		}
		if c.CloseAt == round+1 { // every adapter is closed under the feet of the round's outstanding calls
			for i, sp := range sps {
				if c.Registry { // the registry now lists another endpoint; the refresh closes the adapter of the dropped one
					c08Reg.set(objs[i], ln2.Addr().(*net.TCPAddr).Port)
					if err := tars.VerifC08Refresh(sp); err != nil {
						fs = append(fs, Failure{Sig: "registry/refresh-failed", Desc: fmt.Sprintf("registry refresh of the proxy failed: %v", err)})
					}
				} else {
					tars.VerifC08CloseAdapters(sp)
				}
			}
		}
		for oi, k := range c.Order {
			if k < lo || k >= hi {
				continue
			}
			s, ok := reqs[k]
			if !ok {
				continue
			}
			genuine := func() {
				replied[k] = time.Now()
				send(s.conn, s.id, c08Payload(uint32(k), 0), false)
			}
			switch c.Acts[k] {
			case "reply":
				genuine()
				if len(doneList) == 0 { // remember a completed caller for the "already completed" forgery
					select {
					case <-ended[k]:
						doneList = append(doneList, k)
					case <-time.After(20 * time.Millisecond):
					}
				}
			case "dup": // a stream of replies (3 writes of DupN, default 1): receivers keep finding the entry while the first reply is handed over and the caller leaves
				replied[k] = time.Now()
				ci := connIdx(s.conn)
				wmu.Lock()
				per := uint32(c.DupN)
				if per == 0 {
					per = 1
				}
				for w := uint32(0); w < 3; w++ {
					var buf []byte
					for v := w * per; v < w*per+per; v++ {
						pay := c08Payload(uint32(k), v)
						log.add(c08Ev{Kind: "pkt", ID: s.id, Pay: binary.BigEndian.Uint64(pay), Conn: ci})
						buf = append(buf, c08EncodeResponse(s.id, basef.TARSNORMAL, pay)...)
					}
					s.conn.SetWriteDeadline(time.Now().Add(5 * time.Second))
					s.conn.Write(buf)
				}
				wmu.Unlock()
			case "none":
			case "late":
				lateWg.Add(1)
				go func(k int, s seen) {
					defer lateWg.Done()
					select {
					case <-ended[k]:
					case <-time.After(60 * time.Second):
					}
					send(s.conn, s.id, c08Payload(uint32(k), 7), false)
				}(k, s)
			case "cancel", "cancelD": // the caller gives up while its request is in flight; the reply comes after it has left
				cancelOf(k)
				lateWg.Add(1)
				go func(k int, s seen) {
					defer lateWg.Done()
					select {
					case <-ended[k]:
					case <-time.After(60 * time.Second):
					}
					send(s.conn, s.id, c08Payload(uint32(k), 7), false)
				}(k, s)
			case "f0": // id 0 (push) carrying a poisoned payload, then the genuine reply
				if c.Push && k%nprox == 0 {
					wantPush[binary.BigEndian.Uint64(c08Payload(c08Poison, uint32(k)))]++
				}
				send(s.conn, 0, c08Payload(c08Poison, uint32(k)), false)
				genuine()
			case "funk": // ids nobody registered
				send(s.conn, s.id^0x40000000, c08Payload(c08Poison, uint32(k)), false)
				send(s.conn, s.id^0x20000000, c08Payload(c08Poison, uint32(k)), false)
				genuine()
			case "falias":
				// stray replies whose ids are the two's-complement aliases of this (outstanding) call's id at every narrower
				// encoding width of the id field — id-+256 (byte), id-+65536 (short) —, its negation and bit complement: ids
				// nobody waits for, in one write with the genuine reply behind them. A stray reply reaches nobody.
				used := map[int32]bool{0: true}
				for _, v := range reqs {
					used[v.id] = true
				}
				followMu.Lock()
				for _, v := range followSeen {
					used[v.id] = true
				}
				followMu.Unlock()
				for _, d := range []int64{-256, 256, -65536, 65536, -2 * int64(s.id), -2*int64(s.id) - 1} {
					a := int64(s.id) + d
					if a < -(1<<31) || a > 1<<31-1 || used[int32(a)] {
						continue
					}
					if (d == 256 || d > 0 && d < 4096) && total > 60 { // could be drawn by a later call of this scenario
						continue
					}
					if d > 0 && d <= 65536 && a-int64(s.id) < int64(4*total+64) {
						continue
					}
					used[int32(a)] = true
					send(s.conn, int32(a), c08Payload(c08Poison, uint32(k)), false)
				}
				genuine()
			case "oneway": // right id, one-way packet type: dropped by Recv
				send(s.conn, s.id, c08Payload(c08Poison, uint32(k)), true)
				genuine()
			case "ow": // a one-way request is never answered; a peer that echoes it anyway (same id, poisoned payload) must reach nobody
				send(s.conn, s.id, c08Payload(c08Poison, uint32(k)), false)
			case "closed": // its adapter has been closed while it waits: nothing will come
			case "split":
				// the reply leaves in two pieces with a silent gap longer than the client's read timeout (100 ms); its payload
				// (own 8 bytes first) embeds a well-formed response frame, poisoned, for a call that is still waiting on this
				// connection (another one if there is one, else this one), and the second piece starts with that frame
				victim := s.id
				for _, kk := range c.Order[oi+1:] {
					if v, ok := reqs[kk]; ok && kk >= lo && kk < hi && patient(kk) && v.conn == s.conn {
						if _, done := replied[kk]; !done {
							victim = v.id
							break
						}
					}
				}
				emb := c08EncodeResponse(victim, basef.TARSNORMAL, c08Payload(c08Poison, uint32(k)))
				body := append(c08Payload(uint32(k), 0), emb...)
				pkt := c08EncodeResponse(s.id, basef.TARSNORMAL, body)
				off := bytes.Index(pkt, emb)
				if off <= 0 {
					off = len(pkt) / 2
				}
				replied[k] = time.Now()
				sentBody[k] = body
				ci := connIdx(s.conn)
				wmu.Lock()
				log.add(c08Ev{Kind: "pkt", ID: s.id, Pay: binary.BigEndian.Uint64(body), Conn: ci})
				s.conn.SetWriteDeadline(time.Now().Add(5 * time.Second))
				s.conn.Write(pkt[:off])
				time.Sleep(170 * time.Millisecond)
				s.conn.SetWriteDeadline(time.Now().Add(5 * time.Second))
				s.conn.Write(pkt[off:])
				wmu.Unlock()
			case "fail", "noep": // never arrives
			case "fcross": // this call's id, poisoned payload, on another connection of the process (if there is one)
				cmu.Lock()
				var other net.Conn
				for _, cn := range conns {
					if cn != s.conn {
						other = cn
					}
				}
				cmu.Unlock()
				if other != nil {
					send(other, s.id, c08Payload(c08Poison, uint32(k)), false)
				}
				genuine()
			case "fdone": // id of a call that has already returned (this round or an earlier one)
				var j = -1
				for _, d := range doneList {
					j = d
				}
				if j < 0 { // wait for any "reply" caller handled earlier
					for _, kk := range c.Order {
						if kk == k {
							break
						}
						if _, ok := reqs[kk]; ok && (c.Acts[kk] == "reply" || c.Acts[kk] == "dup") {
							select {
							case <-ended[kk]:
								j = kk
							case <-time.After(2 * time.Second):
							}
							break // one wait at most
						}
					}
				}
				if j >= 0 {
					send(s.conn, reqs[j].id, c08Payload(c08Poison, uint32(k)), false)
				}
				genuine()
			}
		}
		for k := lo; k < hi; k++ { // (also those whose request never arrived)
			if c.Acts[k] == "cancel" || c.Acts[k] == "cancelD" {
				cancelOf(k)
			}
		}
		wg.Wait() // the next round starts while this round's late replies are still to come
		for k := lo; k < hi; k++ {
			if _, ok := reqs[k]; ok && (c.Acts[k] == "dup" || c.Acts[k] == "reply") {
				doneList = append(doneList, k)
			}
		}
	}
	lateWg.Wait()
	time.Sleep(30 * time.Millisecond) // let the receivers of the late packets run
	if c.Push {
		nwant := 0
		for _, n := range wantPush {
			nwant += n
		}
		for i := 0; i < 500; i++ { // push callbacks run in their receiver goroutines: up to 10 s
			log.mu.Lock()
			got := 0
			for _, e := range log.ev {
				if e.Kind == "push" {
					got++
				}
			}
			log.mu.Unlock()
			if got >= nwant {
				break
			}
			time.Sleep(20 * time.Millisecond)
		}
	}
	c.Pending = pendingIDs()
	c.NPings = int(atomic.LoadInt32(&npings))
	defer func() { // no ticker of this scenario may dial its port after the scenario gave it up
		for _, sp := range sps {
			tars.VerifC08CloseAdapters(sp)
		}
	}()
	cmu.Lock()
	c.NConn = len(conns)
	cmu.Unlock()
	c.ConnOf = make([]int, 2*total)
	followMu.Lock()
	for k := range c.ConnOf {
		c.ConnOf[k] = -1
		if s, ok := reqs[k]; ok {
			c.ConnOf[k] = s.ci
		}
		if s, ok := followSeen[k]; ok {
			c.ConnOf[k] = s.ci
		}
	}
	followMu.Unlock()
	log.mu.Lock()
	c.Events = append([]c08Ev(nil), log.ev...)
	log.mu.Unlock()

	// ---- L3 monitors
	if c.Push {
		gotPush := map[uint64]int{}
		for _, e := range c.Events {
			if e.Kind == "push" {
				gotPush[e.Pay]++
			}
		}
		for pay, n := range wantPush {
			if gotPush[pay] != n {
				fs = append(fs, Failure{Sig: "push/id-0-packet-not-handed-to-push-callback", Desc: fmt.Sprintf("%d packet(s) with request id 0 and payload %016x were written to a connection of the proxy with a push callback; the callback saw %d", n, pay, gotPush[pay])})
				break
			}
		}
		for pay, n := range gotPush {
			if wantPush[pay] == 0 {
				fs = append(fs, Failure{Sig: "push/callback-got-a-packet-that-was-not-a-push", Desc: fmt.Sprintf("the push callback was called %d time(s) with payload %016x, which was never sent under request id 0 to that proxy", n, pay)})
				break
			}
		}
	}
	active := map[int32]int{}
	idOf := map[int]int32{}
	for _, e := range c.Events {
		switch e.Kind {
		case "reg":
			if e.ID == 0 {
				fs = append(fs, Failure{Sig: "call/id-zero-on-wire", Desc: fmt.Sprintf("caller %d was given request id 0", e.K)})
			}
			if j, dup := active[e.ID]; dup {
				fs = append(fs, Failure{Sig: "call/id-shared-by-outstanding-calls", Desc: fmt.Sprintf("callers %d and %d are outstanding with the same request id %d", j, e.K, e.ID)})
			}
			active[e.ID] = e.K
			idOf[e.K] = e.ID
		case "end":
			delete(active, idOf[e.K])
		case "ping":
			if e.ID == 0 {
				fs = append(fs, Failure{Sig: "ping/id-zero-on-wire", Desc: "a keep-alive ping went out with request id 0"})
			}
			if j, dup := active[e.ID]; dup {
				fs = append(fs, Failure{Sig: "ping/id-shared-with-outstanding-call", Desc: fmt.Sprintf("a keep-alive ping went out with request id %d while caller %d is outstanding with that id", e.ID, j)})
			}
		}
	}
	if wantedPings > 0 && c.NPings == 0 && c.QueueMax == 0 { // (doKeepAlive itself stands back while the queue is full)
		fs = append(fs, Failure{Sig: "ping/no-ping-on-wire", Desc: fmt.Sprintf("%d keep-alive pings per proxy and round were triggered (%d doKeepAlive calls) but the scripted server received none", c.Pings, wantedPings)})
	}
	// every id a call or ping carries was drawn from the generator during the scenario: in the forward order of the
	// counter it lies after the counter's value at the start and not after its value when the event was logged
	for _, e := range c.Events {
		if e.Kind == "reg" || e.Kind == "ping" {
			if d, w := uint32(e.ID-c.C0), uint32(e.Ctr-c.C0); d == 0 || d > w {
				fs = append(fs, Failure{Sig: "call/id-not-drawn-from-the-generator", Desc: fmt.Sprintf("a %s event carries request id %d, but the id counter stood at %d when the scenario started and at %d when the event was logged: the id is not one of the values the generator handed out in between", e.Kind, e.ID, c.C0, e.Ctr)})
				break
			}
		}
	}
	// the id counter only moves forward (a drawn id is never handed back); it falls only at the wrap
	{
		maxi := int64(tars.VerifC08MaxInt32())
		for i := 1; i < len(c.Events); i++ {
			a, b := int64(c.Events[i-1].Ctr), int64(c.Events[i].Ctr)
			if b < a && !(a > maxi-(1<<20) && (b < 0 || b < (1<<20))) {
				fs = append(fs, Failure{Sig: "genRequestID/counter-moved-backwards", Desc: fmt.Sprintf("the process-wide request id counter read %d and later %d (events %d and %d of the scenario, read under one lock): ids that were drawn have been handed back", a, b, i-1, i)})
				break
			}
		}
	}
	wireMu.Lock()
	c.Wire = append([]int32(nil), wire...)
	wireMu.Unlock()
	onWire := map[int32]bool{}
	for _, id := range c.Wire {
		if id == 0 {
			fs = append(fs, Failure{Sig: "wire/request-id-zero", Desc: "the scripted server received a request carrying request id 0 (reserved for server push)"})
			break
		}
	}
	for _, id := range c.Wire {
		if onWire[id] {
			fs = append(fs, Failure{Sig: "wire/request-id-repeated", Desc: fmt.Sprintf("the scripted server received request id %d twice among the %d requests of the scenario (all packet types)", id, len(c.Wire))})
			break
		}
		onWire[id] = true
	}
	for k := 0; k < total; k++ {
		o := outs[k]
		if o.noBody {
			fs = append(fs, Failure{Sig: "call/success-without-a-reply", Desc: fmt.Sprintf("caller %d (act %s, filters %q): TarsInvoke returned a nil error for a two-way call but the ResponsePacket carries no reply (neither its own response nor an error)", k, c.Acts[k], c.Filters)})
			continue
		}
		if want, ok := sentBody[k]; ok && o.got && !bytes.Equal(gotBody[k], want) {
			fs = append(fs, Failure{Sig: "call/reply-body-altered", Desc: fmt.Sprintf("caller %d (act split): the peer sent a %d-byte payload in two pieces, the caller came back with %d bytes that differ from it", k, len(want), len(gotBody[k]))})
		}
		if o.owBody {
			fs = append(fs, Failure{Sig: "call/one-way-call-received-a-payload", Desc: fmt.Sprintf("caller %d made a one-way call and came back with a payload", k)})
		}
		if o.got && uint32(o.pay>>32) != uint32(k) {
			fs = append(fs, Failure{Sig: "call/foreign-reply-delivered", Desc: fmt.Sprintf("caller %d (act %s) received payload %016x, which is not its own (forged id 0 / unknown id / completed id / one-way packets, other callers' replies and replies to earlier calls must reach nobody else)", k, c.Acts[k], o.pay)})
		}
		if o.got && !patient(k) {
			fs = append(fs, Failure{Sig: "call/reply-without-source", Desc: fmt.Sprintf("caller %d (act %s) received a reply although none had been sent before it returned", k, c.Acts[k])})
		}
		if at, ok := replied[k]; ok && !o.got && patient(k) && at.Sub(started[k/c.N]) < c08Patience/2 {
			fs = append(fs, Failure{Sig: "call/matching-reply-not-delivered", Desc: fmt.Sprintf("caller %d (act %s, id %d): the server wrote the matching reply %v after the round started, the caller's deadline was %v, but the call ended without it", k, c.Acts[k], reqs[k].id, at.Sub(started[k/c.N]).Round(time.Millisecond), c08Patience)})
		}
	}
	for fk := total; fk < 2*total; fk++ {
		o := outs[fk]
		if o.noBody {
			fs = append(fs, Failure{Sig: "call/success-without-a-reply", Desc: fmt.Sprintf("follow-up call of caller %d (filters %q): TarsInvoke returned a nil error for a two-way call but the ResponsePacket carries no reply", fk-total, c.Filters)})
		} else if o.got && uint32(o.pay>>32) != uint32(fk) {
			fs = append(fs, Failure{Sig: "call/foreign-reply-delivered", Desc: fmt.Sprintf("the follow-up call caller %d (act %s) made right after its first call was answered received payload %016x, which is not its own (a reply to the earlier call reached the later one)", fk-total, c.Acts[fk-total], o.pay)})
		} else if _, seenReq := followSeen[fk]; seenReq && !o.got {
			fs = append(fs, Failure{Sig: "call/matching-reply-not-delivered", Desc: fmt.Sprintf("follow-up call of caller %d: the server answered it on sight, the deadline was %v, but the call ended without the reply", fk-total, c08Patience)})
		}
	}
	if len(c.Pending) != 0 {
		fs = append(fs, Failure{Sig: "call/pending-entry-left", Desc: fmt.Sprintf("after all %d callers returned the pending-reply table still holds ids %v", total, c.Pending)})
	}
	for _, sp := range sps {
		if q := tars.VerifC08QueueLen(sp); q != 0 {
			fs = append(fs, Failure{Sig: "call/queueLen-not-restored", Desc: fmt.Sprintf("after all %d callers returned queueLen = %d", total, q)})
		}
	}
	return fs
}

// c08RunWrap replays the wrap-around witness (Coq: C08SysProofs.outstanding_share_id_after_wrap) on the code: with the
// counter at 1, call A is left outstanding, 2^31-3 further ids are allocated, call B is made. The 32-bit counter hands B
// the id A still holds. Observations go to the model's prediction (KWrap); the monitors are those of every scenario that
// do not presuppose distinct ids: B gets its own payload, A never gets B's.
func c08RunWrap(c *c08Case) []Failure {
	ln, err := net.Listen("tcp", "127.0.0.1:0")
	if err != nil {
		fatal("listen: %v", err)
	}
	defer ln.Close()
	obj := c08NextObj("C08Wrap")
	sp := c08Proxy(obj, ln.Addr().(*net.TCPAddr).Port)
	type seen struct {
		k    int
		id   int32
		conn net.Conn
	}
	reqCh := make(chan seen, 8)
	var conns []net.Conn
	var cmu sync.Mutex
	go func() {
		for {
			conn, err := ln.Accept()
			if err != nil {
				return
			}
			cmu.Lock()
			conns = append(conns, conn)
			cmu.Unlock()
			go func(conn net.Conn) {
				for {
					req, err := c08ReadRequest(conn)
					if err != nil {
						return
					}
					if b := tools.Int8ToByte(req.SBuffer); len(b) == 8 {
						reqCh <- seen{int(binary.BigEndian.Uint32(b)), req.IRequestId, conn}
					}
				}
			}(conn)
		}
	}()
	defer func() {
		cmu.Lock()
		for _, cn := range conns {
			cn.Close()
		}
		cmu.Unlock()
	}()
	type outc struct {
		got bool
		pay uint64
	}
	call := func(ctx context.Context, k int, out *outc, done chan struct{}) {
		var resp requestf.ResponsePacket
		if err := sp.TarsInvoke(ctx, 0, "echo", c08Payload(uint32(k), 0), nil, nil, &resp); err == nil {
			if b := tools.Int8ToByte(resp.SBuffer); len(b) == 8 {
				*out = outc{true, binary.BigEndian.Uint64(b)}
			} else {
				*out = outc{true, uint64(c08Poison)<<32 | 0xBAD}
			}
		}
		close(done)
	}
	wait := func(k int) (seen, bool) {
		select {
		case s := <-reqCh:
			return s, s.k == k
		case <-time.After(10 * time.Second):
			return seen{}, false
		}
	}
	c.IDs = []int32{0, 0, 0}
	tars.VerifC08SetMsgID(c.Start)
	var outA, outB outc
	doneA, doneB := make(chan struct{}), make(chan struct{})
	ctxA, cancelA := context.WithTimeout(context.Background(), 30*time.Minute)
	defer cancelA()
	go call(ctxA, 0, &outA, doneA)
	sA, ok := wait(0)
	if !ok {
		return []Failure{{Sig: "wrap/request-not-seen", Desc: "the scripted server did not receive call A's request within 10 s"}}
	}
	c.IDs[0] = sA.id
	// 2^31-3 further allocations
	spin := make(chan int32, 1)
	go func() {
		var last int32
		for i := int64(0); i < c.Spin; i++ {
			last = tars.VerifC08GenRequestID(sp)
		}
		spin <- last
	}()
	select {
	case c.IDs[1] = <-spin:
	case <-time.After(20 * time.Minute):
		c08GenStuck = true
		return []Failure{{Sig: "genRequestID/does-not-return", Desc: fmt.Sprintf("%d consecutive genRequestID calls did not finish within 20 minutes", c.Spin)}}
	}
	ctxB, cancelB := context.WithTimeout(context.Background(), 8*time.Second)
	defer cancelB()
	go call(ctxB, 1, &outB, doneB)
	sB, ok := wait(1)
	if !ok {
		return []Failure{{Sig: "wrap/request-not-seen", Desc: "the scripted server did not receive call B's request within 10 s"}}
	}
	c.IDs[2] = sB.id
	write := func(conn net.Conn, id int32, k uint32) {
		conn.SetWriteDeadline(time.Now().Add(5 * time.Second))
		conn.Write(c08EncodeResponse(id, basef.TARSNORMAL, c08Payload(k, 0)))
	}
	write(sB.conn, sB.id, 1)
	select {
	case <-doneB:
	case <-time.After(9 * time.Second):
	}
	write(sA.conn, sA.id, 0) // the reply to A: A's entry is gone if B shared its id
	select {
	case <-doneA:
	case <-time.After(500 * time.Millisecond):
		cancelA()
		<-doneA
	}
	<-doneB
	c.Pending = tars.VerifC08PendingIDs(sp)
	c.WrapServed = []bool{outA.got, outB.got}
	var fs []Failure
	if outB.got && uint32(outB.pay>>32) != 1 {
		fs = append(fs, Failure{Sig: "call/foreign-reply-delivered", Desc: fmt.Sprintf("wrap scenario: caller B received payload %016x, which is not its own", outB.pay)})
	}
	if outA.got && uint32(outA.pay>>32) != 0 {
		fs = append(fs, Failure{Sig: "call/foreign-reply-delivered", Desc: fmt.Sprintf("wrap scenario: caller A received payload %016x, which is not its own", outA.pay)})
	}
	if len(c.Pending) != 0 {
		fs = append(fs, Failure{Sig: "call/pending-entry-left", Desc: fmt.Sprintf("wrap scenario: after both callers returned the pending-reply table still holds ids %v", c.Pending)})
	}
	return fs
}

// c08RunBurst: high contention on one adapter. W callers on one proxy (one adapter, one connection: a warm-up call comes
// first) make R calls each, in lock step: the scripted peer waits until it holds a request of every caller that is still
// running and answers the whole batch in ONE write, echoing id and payload, so that the W replies are decoded back-to-back and
// handed to W callers at the same moment on different CPUs. Every caller must get the response that carries ITS id and ITS
// payload. Monitor only (thousands of calls; nothing here that the model could say more about than C08_routing).
func c08RunBurst(c *c08Case) []Failure {
	if c.Procs > 0 {
		defer runtime.GOMAXPROCS(runtime.GOMAXPROCS(c.Procs))
	}
	ln, err := net.Listen("tcp", "127.0.0.1:0")
	if err != nil {
		fatal("listen: %v", err)
	}
	defer ln.Close()
	obj := c08NextObj("C08Burst")
	sp := c08Proxy(obj, ln.Addr().(*net.TCPAddr).Port)
	defer tars.VerifC08CloseAdapters(sp)
	var idMu sync.Mutex
	idOf := map[uint64]int32{} // payload -> id given to the call (seen by the pre client filter)
	c08SetHook(obj, func(req *requestf.RequestPacket) {
		if b := tools.Int8ToByte(req.SBuffer); len(b) == 8 {
			idMu.Lock()
			idOf[binary.BigEndian.Uint64(b)] = req.IRequestId
			idMu.Unlock()
		}
	})
	defer c08SetHook(obj, nil)
	type rq struct {
		id   int32
		pay  []byte
		conn net.Conn
	}
	reqCh := make(chan rq, 4*c.N+8)
	var running int32 // callers still making calls
	var conns []net.Conn
	var cmu sync.Mutex
	go func() {
		for {
			conn, err := ln.Accept()
			if err != nil {
				return
			}
			cmu.Lock()
			conns = append(conns, conn)
			cmu.Unlock()
			go func(conn net.Conn) {
				for {
					req, err := c08ReadRequest(conn)
					if err != nil {
						return
					}
					if b := tools.Int8ToByte(req.SBuffer); len(b) == 8 {
						reqCh <- rq{req.IRequestId, b, conn}
					}
				}
			}(conn)
		}
	}()
	defer func() {
		cmu.Lock()
		for _, cn := range conns {
			cn.Close()
		}
		cmu.Unlock()
	}()
	stop := make(chan struct{})
	var srv sync.WaitGroup
	srv.Add(1)
	go func() { // the batching peer
		defer srv.Done()
		var batch []rq
		flush := func() {
			per := map[net.Conn][]byte{}
			for _, r := range batch {
				per[r.conn] = append(per[r.conn], c08EncodeResponse(r.id, basef.TARSNORMAL, r.pay)...)
			}
			for conn, buf := range per {
				conn.SetWriteDeadline(time.Now().Add(5 * time.Second))
				conn.Write(buf)
			}
			batch = batch[:0]
		}
		for {
			var idle <-chan time.Time
			if len(batch) > 0 {
				idle = time.After(3 * time.Millisecond) // a caller fell behind: do not keep the others waiting
			}
			select {
			case r := <-reqCh:
				batch = append(batch, r)
				if n := int(atomic.LoadInt32(&running)); len(batch) >= n || len(batch) >= c.N {
					flush()
				}
			case <-idle:
				flush()
			case <-stop:
				return
			}
		}
	}()
	call := func(w, i int) (bad string) {
		ctx, cancel := context.WithTimeout(context.Background(), c08Patience)
		defer cancel()
		pay := c08Payload(uint32(w), uint32(i))
		var resp requestf.ResponsePacket
		if err := sp.TarsInvoke(ctx, 0, "echo", pay, nil, nil, &resp); err != nil {
			return fmt.Sprintf("matching-reply-not-delivered|caller %d call %d: the peer answers every request at once, the call ended with an error (%d s deadline)", w, i, int(c08Patience/time.Second))
		}
		want := binary.BigEndian.Uint64(pay)
		idMu.Lock()
		id := idOf[want]
		idMu.Unlock()
		b := tools.Int8ToByte(resp.SBuffer)
		if len(b) != 8 || binary.BigEndian.Uint64(b) != want {
			return fmt.Sprintf("foreign-reply-delivered|caller %d call %d (request id %d, payload %016x) came back with payload %x: the response of another call on the same adapter", w, i, id, want, b)
		}
		if resp.IRequestId != id {
			return fmt.Sprintf("response-id-differs-from-request-id|caller %d call %d was given request id %d and came back with a response carrying id %d", w, i, id, resp.IRequestId)
		}
		return ""
	}
	atomic.StoreInt32(&running, 1)
	var gaveUp int32
	var fs []Failure
	seenSig := map[string]int{}
	var fmu sync.Mutex
	note := func(bad string) {
		if bad == "" {
			return
		}
		kv := strings.SplitN(bad, "|", 2)
		fmu.Lock()
		seenSig[kv[0]]++
		if seenSig[kv[0]] == 1 {
			fs = append(fs, Failure{Sig: "burst/" + kv[0], Desc: kv[1]})
		}
		fmu.Unlock()
	}
	note(call(c.N, 0)) // warm-up: the adapter and its connection exist before the callers start
	atomic.StoreInt32(&running, int32(c.N))
	var wg sync.WaitGroup
	start := make(chan struct{})
	for w := 0; w < c.N; w++ {
		wg.Add(1)
		go func(w int) {
			defer wg.Done()
			defer atomic.AddInt32(&running, -1)
			<-start
			for i := 1; i <= c.Calls && atomic.LoadInt32(&gaveUp) == 0; i++ {
				bad := call(w, i)
				note(bad)
				if strings.HasPrefix(bad, "matching-reply-not-delivered") { // replies are being lost: no point in sitting out thousands of deadlines
					atomic.StoreInt32(&gaveUp, 1)
				}
			}
		}(w)
	}
	close(start)
	wg.Wait()
	close(stop)
	srv.Wait()
	for sig, n := range seenSig {
		for i := range fs {
			if fs[i].Sig == "burst/"+sig {
				fs[i].Desc += fmt.Sprintf(" [%d of %d calls]", n, c.N*c.Calls)
			}
		}
	}
	if ids := tars.VerifC08PendingIDs(sp); len(ids) != 0 {
		fs = append(fs, Failure{Sig: "call/pending-entry-left", Desc: fmt.Sprintf("burst scenario: the pending-reply table still holds ids %v", ids)})
	}
	return fs
}

// c08Labels turns the event log into a tagged label sequence of the product of Conc/Pending.v machines (one per
// connection the server accepted, plus one for callers whose request never arrived) and the per-connection, per-call
// observed outcomes (calls numbered in registration order on their connection). Internal steps (lookup, hand-over,
// timeout) are placed where the machine can take them; a log the machine cannot follow is rejected by maccepts.
func c08Labels(c *c08Case) (int, string, string, string, string) {
	nad := c.NConn + 1
	adOf := func(k int) int {
		if k >= 0 && k < len(c.ConnOf) && c.ConnOf[k] >= 0 && c.ConnOf[k] < c.NConn {
			return c.ConnOf[k]
		}
		return c.NConn
	}
	var ls []string
	var snaps, pings []string
	idx := map[int]int{} // caller -> call number on its adapter
	idOf := map[int]int32{}
	owOf := map[int]bool{}
	type rcv struct {
		id     int32
		pay    uint64
		ow     bool
		looked bool
		used   bool
	}
	rs := make([][]rcv, nad)
	outs := make([][]string, nad)
	add := func(a int, f string, args ...interface{}) {
		ls = append(ls, fmt.Sprintf("(%d%%nat, %s)", a, fmt.Sprintf(f, args...)))
	}
	for _, e := range c.Events {
		switch e.Kind {
		case "reg":
			a := adOf(e.K)
			idx[e.K] = len(outs[a])
			idOf[e.K] = e.ID
			owOf[e.K] = e.Oneway
			add(a, "LRegister (%d)%%Z %s", e.ID, coqBool(e.Oneway))
			if a != c.NConn { // the request reached the server: the send succeeded
				add(a, "LSendOk %d", idx[e.K])
			}
			outs[a] = append(outs[a], "None")
		case "pkt":
			a := e.Conn
			if a < 0 || a >= c.NConn {
				a = c.NConn
			}
			add(a, "LPacket (mkp (%d)%%Z %d%%N %s)", e.ID, e.Pay, coqBool(e.Oneway))
			rs[a] = append(rs[a], rcv{id: e.ID, pay: e.Pay, ow: e.Oneway})
		case "snap":
			snaps = append(snaps, fmt.Sprintf("(%d%%nat, %s)", len(ls), c08Zs(e.IDs)))
		case "ping":
			pings = append(pings, fmt.Sprintf("(%d%%nat, (%d)%%Z)", len(ls), e.ID))
		case "end":
			ci, ok := idx[e.K]
			if !ok { // never registered (call failed before the filter): not part of the table's history
				continue
			}
			a := adOf(e.K)
			if a == c.NConn { // the request never reached the server: the send failed (or never happened)
				if e.Got {
					add(a, "LSendOk %d", ci)
				} else {
					add(a, "LSendFail %d", ci)
					add(a, "LReturn %d", ci)
					continue
				}
			}
			if owOf[e.K] && !e.Got { // a one-way call returns right after the send
				add(a, "LReturn %d", ci)
				continue
			}
			if e.Got {
				r := -1
				for i := range rs[a] {
					if !rs[a][i].used && !rs[a][i].looked && !rs[a][i].ow && rs[a][i].id == idOf[e.K] && rs[a][i].pay == e.Pay {
						r = i
						break
					}
				}
				ra := a
				if r < 0 { // no packet on its connection explains this delivery: pick any unused packet with that payload, on any connection, so that maccepts rejects
				search:
					for b := range rs {
						for i := range rs[b] {
							if !rs[b][i].used && !rs[b][i].looked && rs[b][i].pay == e.Pay {
								r, ra = i, b
								break search
							}
						}
					}
				}
				if r >= 0 {
					rs[ra][r].used, rs[ra][r].looked = true, true
					add(ra, "LLookup %d", r)
					add(ra, "LHandoff %d", r)
				}
				add(a, "LReturn %d", ci)
				outs[a][ci] = fmt.Sprintf("Some %d%%N", e.Pay)
			} else {
				add(a, "LTimeout %d", ci)
				add(a, "LReturn %d", ci)
			}
		}
	}
	for a := range rs {
		for i := range rs[a] {
			if !rs[a][i].looked {
				add(a, "LLookup %d", i)
			}
		}
	}
	os := make([]string, nad)
	for a := range outs {
		os[a] = "[" + strings.Join(outs[a], "; ") + "]"
	}
	return nad, "[" + strings.Join(ls, "; ") + "]", "[" + strings.Join(os, "; ") + "]", "[" + strings.Join(snaps, "; ") + "]", "[" + strings.Join(pings, "; ") + "]"
}

func c08Zs(l []int32) string {
	s := make([]string, len(l))
	for i, v := range l {
		s[i] = fmt.Sprintf("(%d)%%Z", v)
	}
	return "[" + strings.Join(s, "; ") + "]"
}

func c08Coq(c *c08Case) string {
	if c.Skipped {
		return ""
	}
	switch c.Kind {
	case "mtbig", "burst":
		return ""
	case "wrap":
		if len(c.IDs) != 3 || len(c.WrapServed) != 2 {
			return ""
		}
		return fmt.Sprintf("KWrap ((%d)%%Z, (%d)%%Z, (%d)%%Z, %s, %s)", c.IDs[0], c.IDs[1], c.IDs[2], coqBool(c.WrapServed[1]), coqBool(c.WrapServed[0]))
	case "seq":
		return fmt.Sprintf("KSeq ((%d)%%Z, %s, (%d)%%Z)", c.Start, c08Zs(c.IDs), c.Final)
	case "mt":
		return fmt.Sprintf("KMt ((%d)%%Z, %s, (%d)%%Z)", c.Start, c08Zs(c.IDs), c.Final)
	}
	nad, ls, outs, snaps, pings := c08Labels(c)
	// connections whose adapter has a push callback (those of proxy 0's callers) and what the callback saw
	var pads, pushes []string
	if c.Push {
		nprox := c.Proxies
		if nprox < 1 {
			nprox = 1
		}
		seen := map[int]bool{}
		for k, ci := range c.ConnOf {
			if k%nprox == 0 && ci >= 0 && ci < c.NConn && !seen[ci] {
				seen[ci] = true
				pads = append(pads, fmt.Sprintf("%d%%nat", ci))
			}
		}
		for _, e := range c.Events {
			if e.Kind == "push" {
				pushes = append(pushes, fmt.Sprintf("%d%%N", e.Pay))
			}
		}
	}
	var ctrs []int32 // readings of the id counter, consecutive repetitions dropped
	for _, e := range c.Events {
		if len(ctrs) == 0 || ctrs[len(ctrs)-1] != e.Ctr {
			ctrs = append(ctrs, e.Ctr)
		}
	}
	var regs []string // (id, counter reading after the draw) of every call and ping
	for _, e := range c.Events {
		if e.Kind == "reg" || e.Kind == "ping" {
			regs = append(regs, fmt.Sprintf("((%d)%%Z, (%d)%%Z)", e.ID, e.Ctr))
		}
	}
	return fmt.Sprintf("KTrace ((%d%%nat, %s, %s, %s, %s, ([%s], [%s])), %s, %s, %s, ((%d)%%Z, [%s]))", nad, ls, outs, snaps, c08Zs(c.Pending), strings.Join(pads, "; "), strings.Join(pushes, "; "), c08Zs(c.Wire), pings, c08Zs(ctrs), c.C0, strings.Join(regs, "; "))
}

func c08Gen(tier string, rng *rand.Rand) []c08Case {
	var cs []c08Case
	maxi := int64(tars.VerifC08MaxInt32())
	mini := int64(-1) << 31
	var starts []int32
	for _, b := range []int64{0, maxi, mini} {
		for d := int64(-4); d <= 4; d++ {
			v := b + d
			if v >= mini && v <= int64(1<<31-1) {
				starts = append(starts, int32(v))
			}
		}
	}
	starts = append(starts, 1<<30, -(1 << 30), 12345, int32(maxi/2), int32(maxi/2+1))
	for i := 0; i < 6; i++ {
		starts = append(starts, int32(rng.Uint32()))
	}
	for _, s := range starts {
		cs = append(cs, c08Case{Kind: "seq", Start: s, Calls: 1 + rng.Intn(7), Threads: 1, Class: "seq/" + c08Zone(int64(s), maxi)})
	}
	nmt := 10
	if tier == "thorough" {
		nmt = 120
	}
	for i := 0; i < nmt; i++ {
		threads := []int{2, 4, 8, 16, 32}[rng.Intn(5)]
		per := 4 + rng.Intn(30)
		base := []int64{0, maxi, mini, maxi, 0}[i%5]
		s := base - int64(rng.Intn(threads*per+2))
		if s < mini {
			s = mini + int64(rng.Intn(5))
		}
		cs = append(cs, c08Case{Kind: "mt", Start: int32(s), Calls: threads * per, Threads: threads, Class: fmt.Sprintf("mt/%s/t%d", c08Zone(s, maxi), threads)})
	}
	// large concurrent batches (monitor only: non-zero, pairwise distinct, counter inside the reachable window)
	nbig := 3
	if tier == "thorough" {
		nbig = 24
	}
	for i := 0; i < nbig; i++ {
		threads := []int{16, 8, 32, 4}[i%4]
		per := 20000 + rng.Intn(20000)
		base := []int64{maxi, 0, mini}[i%3]
		s := base - int64(rng.Intn(threads*per))
		if s < mini {
			s = mini + int64(rng.Intn(5))
		}
		cs = append(cs, c08Case{Kind: "mtbig", Start: int32(s), Calls: threads * per, Threads: threads, Class: fmt.Sprintf("mtbig/%s/t%d", c08Zone(s, maxi), threads)})
	}
	// the wrap-around witness on the code (2^31 allocations: some tens of seconds). Before the scripted-server scenarios:
	// a proxy with a push callback starts a keep-alive ticker that may take an id minutes later.
	if tier == "thorough" {
		cs = append(cs, c08Case{Kind: "wrap", Start: 1, Spin: int64(1)<<31 - 3, Class: "wrap/full-cycle"})
	}
	// scripted-server scenarios
	sizes := []int{1, 1, 1, 4, 4, 4, 4, 4, 32, 32, 32, 256, 256, 2, 8, 16, 64, 4, 32, 128, 2, 16}
	if tier == "thorough" {
		for i := 0; i < 24; i++ {
			sizes = append(sizes, 1, 4, 4, 32, 32, 256, 8, 64, 128, 2, 16)
		}
	}
	kinds := []string{"reply", "dup", "none", "late", "f0", "funk", "oneway", "fdone", "fcross", "ow", "ow", "fail", "noep", "cancel", "cancelD", "falias"}
	for si, n := range sizes {
		c := c08Case{Kind: "trace", N: n, TimeoutMs: 150 + rng.Intn(200)}
		// rounds on the same proxy and connection: replies to one round's calls (late, duplicated) arrive during the next
		c.Rounds = 1 + rng.Intn(3)
		if n >= 256 {
			c.Rounds = 1 + rng.Intn(2)
			if tier != "thorough" {
				c.Rounds = 1
			}
		}
		c.Follow = n <= 64
		if si == 0 || si == 3 {
			c.Rounds = 3
		}
		c.Proxies = 1 + rng.Intn(2)
		if n == 1 {
			c.Proxies = 1
		}
		c.Push = si%3 == 1
		c.Opts = si%2 == 1
		if si%2 == 0 {
			c.Pings = 1 + rng.Intn(3)
		}
		if si%8 == 4 && n <= 64 {
			c.Pings, c.PingAt = 2, true
		}
		if tier == "thorough" {
			c.Procs = []int{0, 1, 2, 4, 0, 16}[si%6]
		} else if si%6 == 5 {
			c.Procs = 1 + rng.Intn(2)
		}
		used := map[string]bool{}
		for k := 0; k < n*c.Rounds; k++ {
			a := kinds[rng.Intn(len(kinds))]
			if n == 1 {
				a = kinds[(si*3+rng.Intn(3)+k)%len(kinds)]
			}
			if rng.Intn(3) == 0 {
				a = "reply"
			}
			if k < n && c.Rounds > 1 && rng.Intn(3) == 0 {
				a = "dup" // duplicates in a round that is followed by another one
			}
			c.Acts = append(c.Acts, a)
			used[a] = true
		}
		if c.Push {
			c.Acts[0] = "f0"
			used["f0"] = true
		}
		for r := 0; r < c.Rounds; r++ {
			for _, k := range rng.Perm(n) {
				c.Order = append(c.Order, r*n+k)
			}
		}
		switch si % 4 { // where the ids of this scenario lie
		case 1:
			c.SetID, c.Start = true, int32(-1-rng.Intn(n*c.Rounds+1)) // crosses 0
		case 2:
			c.SetID, c.Start = true, int32(maxi-int64(rng.Intn(n*c.Rounds+2))) // crosses the wrap threshold
		case 3:
			c.SetID, c.Start = true, int32(mini+int64(rng.Intn(1000))) // negative ids
		}
		var ks []string
		for a := range used {
			ks = append(ks, a)
		}
		sort.Strings(ks)
		c.Class = fmt.Sprintf("trace/n%d/r%d/p%d/g%d/push%v/ping%d%v/opts%v/ids%d/%s", n, c.Rounds, c.Proxies, c.Procs, c.Push, c.Pings, c.PingAt, c.Opts, si%4, strings.Join(ks, "+"))
		cs = append(cs, c)
	}
	// answered-then-call-again chains: every caller gets five replies at once and immediately calls again, three rounds
	ndc := 3
	if tier == "thorough" {
		ndc = 12
	}
	for i := 0; i < ndc; i++ {
		n := []int{16, 32, 8, 24, 12, 1}[i%6]
		c := c08Case{Kind: "trace", N: n, Rounds: 3, Proxies: 1 + i%2, TimeoutMs: 200, DupN: 8, Follow: true}
		if n == 1 {
			c.Proxies = 1
		}
		if tier == "thorough" {
			c.Procs = []int{0, 1, 2, 4}[i%4]
		}
		for k := 0; k < n*c.Rounds; k++ {
			c.Acts = append(c.Acts, "dup")
		}
		for r := 0; r < c.Rounds; r++ {
			for _, k := range rng.Perm(n) {
				c.Order = append(c.Order, r*n+k)
			}
		}
		c.Class = fmt.Sprintf("trace-dupchain/n%d/p%d/g%d", n, c.Proxies, c.Procs)
		cs = append(cs, c)
	}
	// the id counter positioned just below every encoding-width boundary of the id field (byte, short, and their negative
	// counterparts), so that the round's ids straddle it; stray replies under the aliases of outstanding ids
	nw := 4
	if tier == "thorough" {
		nw = 16
	}
	for i := 0; i < nw; i++ {
		n := []int{8, 16, 4, 32}[(i/4)%4]
		bound := []int64{127, 32767, 65535, -32769, 255, -129, 65407, 32639}[i%8]
		c := c08Case{Kind: "trace", N: n, Rounds: 2, Proxies: 1 + (i/2)%2, TimeoutMs: 200, Follow: i%2 == 0, Pings: (i / 4) % 2}
		c.SetID, c.Start = true, int32(bound-int64(rng.Intn(n)+1))
		wk := []string{"falias", "falias", "reply", "dup", "falias", "none", "funk"}
		for k := 0; k < n*c.Rounds; k++ {
			a := wk[rng.Intn(len(wk))]
			if k%n < 2 {
				a = "falias"
			}
			c.Acts = append(c.Acts, a)
		}
		for r := 0; r < c.Rounds; r++ {
			perm := rng.Perm(n)
			for _, k := range perm {
				c.Order = append(c.Order, r*n+k)
			}
		}
		c.Class = fmt.Sprintf("trace-width/b%d/n%d/p%d", bound, n, c.Proxies)
		cs = append(cs, c)
	}
	// replies in two pieces with a gap longer than the client's read timeout, embedding frames for calls still waiting
	nsp := 2
	if tier == "thorough" {
		nsp = 8
	}
	for i := 0; i < nsp; i++ {
		n := []int{4, 8, 2, 16, 1, 6}[i%6]
		c := c08Case{Kind: "trace", N: n, Rounds: 1 + i%2, Proxies: 1, TimeoutMs: 200, Follow: true}
		sk := []string{"split", "reply", "reply", "dup", "split", "reply", "none"}
		for k := 0; k < n*c.Rounds; k++ {
			a := sk[rng.Intn(len(sk))]
			if k%n == 0 {
				a = "split"
			}
			c.Acts = append(c.Acts, a)
		}
		for r := 0; r < c.Rounds; r++ {
			perm := rng.Perm(n)
			for j, k := range perm { // a split caller first, so that others are still waiting behind it
				if c.Acts[r*n+k] == "split" {
					perm[0], perm[j] = perm[j], perm[0]
					break
				}
			}
			for _, k := range perm {
				c.Order = append(c.Order, r*n+k)
			}
		}
		c.Class = fmt.Sprintf("trace-split/n%d/r%d", n, c.Rounds)
		cs = append(cs, c)
	}
	// adapters closed while calls are outstanding on them (child process: the process must survive it); the next round
	// runs on the same proxies
	ncl := 2
	if tier == "thorough" {
		ncl = 6
	}
	for i := 0; i < ncl; i++ {
		n := []int{4, 16, 1, 32, 8, 2}[i%6]
		c := c08Case{Kind: "trace", N: n, Rounds: 2, Proxies: 1 + i%2, TimeoutMs: 250 + rng.Intn(150), Filters: "plain", CloseAt: 1, Follow: true, Opts: i%2 == 1, Registry: i%2 == 1}
		if n == 1 {
			c.Proxies = 1
		}
		for k := 0; k < n; k++ {
			c.Acts = append(c.Acts, []string{"closed", "closed", "closed", "ow", "cancel"}[rng.Intn(5)])
		}
		c.Acts[0] = "closed"
		for k := 0; k < n; k++ {
			c.Acts = append(c.Acts, []string{"reply", "dup", "none", "reply", "late"}[rng.Intn(5)])
		}
		for r := 0; r < c.Rounds; r++ {
			for _, k := range rng.Perm(n) {
				c.Order = append(c.Order, r*n+k)
			}
		}
		c.Class = fmt.Sprintf("trace-close/n%d/p%d/opts%v/registry%v", n, c.Proxies, c.Opts, c.Registry)
		cs = append(cs, c)
	}
	// high-contention bursts: W callers in lock step on one adapter, every batch of W replies in one write
	nb := 3
	if tier == "thorough" {
		nb = 12
	}
	for i := 0; i < nb; i++ {
		w := []int{32, 32, 64, 16, 48, 32}[i%6]
		c := c08Case{Kind: "burst", N: w, Calls: 4000 / w * 2, Class: fmt.Sprintf("burst/w%d", w)}
		if tier == "thorough" {
			c.Procs = []int{0, 4, 16, 2}[i%4]
			c.Class += fmt.Sprintf("/g%d", c.Procs)
		}
		cs = append(cs, c)
	}
	// rejected calls interleaved with outstanding ones: more concurrent callers than ObjQueueMax admits ('invoke queue is
	// full', whoever comes late) and callers on a proxy without a selectable endpoint ('no adapter Proxy selected'); a
	// rejected call has drawn an id — it is never handed back
	nrj := 3
	if tier == "thorough" {
		nrj = 12
	}
	for i := 0; i < nrj; i++ {
		n := []int{16, 32, 8, 64, 24, 12}[i%6]
		c := c08Case{Kind: "trace", N: n, Rounds: 2, Proxies: 1 + i%2, TimeoutMs: 150 + rng.Intn(150), QueueMax: 1 + rng.Intn(n/4+1), Follow: true, Pings: i % 2, Opts: i%2 == 0}
		if tier == "thorough" {
			c.Procs = []int{0, 2, 4, 1}[i%4]
		}
		used := map[string]bool{}
		rk := []string{"reply", "reply", "dup", "none", "noep", "late", "reply", "ow", "noep", "cancel", "cancelD"}
		for k := 0; k < n*c.Rounds; k++ {
			a := rk[rng.Intn(len(rk))]
			c.Acts = append(c.Acts, a)
			used[a] = true
		}
		for r := 0; r < c.Rounds; r++ {
			for _, k := range rng.Perm(n) {
				c.Order = append(c.Order, r*n+k)
			}
		}
		if i%3 == 1 {
			c.SetID, c.Start = true, int32(-1-rng.Intn(n))
		}
		var ks []string
		for a := range used {
			ks = append(ks, a)
		}
		sort.Strings(ks)
		c.Class = fmt.Sprintf("trace-reject/n%d/q%d/p%d/g%d/%s", n, c.QueueMax, c.Proxies, c.Procs, strings.Join(ks, "+"))
		cs = append(cs, c)
	}
	// scenarios with registered pass-through client filters (child process each): calls that succeed, time out, fail in
	// doInvoke, one-way calls — the outcome at the call site must be the own reply or an error
	nf := 1
	if tier == "thorough" {
		nf = 4
	}
	fkinds := []string{"reply", "none", "fail", "late", "ow", "dup", "reply", "none", "fail", "f0", "oneway", "noep", "cancel", "cancelD"}
	for i := 0; i < nf; i++ {
		for _, mode := range []string{"prepost", "cf", "mw"} {
			n := []int{4, 8, 16, 32}[rng.Intn(4)]
			c := c08Case{Kind: "trace", N: n, Rounds: 1 + rng.Intn(2), Proxies: 1 + rng.Intn(2), TimeoutMs: 150 + rng.Intn(200), Filters: mode, Push: rng.Intn(2) == 0, Follow: true, Pings: rng.Intn(3), PingAt: rng.Intn(2) == 0, Opts: rng.Intn(2) == 0}
			used := map[string]bool{}
			for k := 0; k < n*c.Rounds; k++ {
				a := fkinds[rng.Intn(len(fkinds))]
				if k < 3 {
					a = []string{"none", "fail", "cancel"}[k]
				}
				c.Acts = append(c.Acts, a)
				used[a] = true
			}
			for r := 0; r < c.Rounds; r++ {
				for _, k := range rng.Perm(n) {
					c.Order = append(c.Order, r*n+k)
				}
			}
			var ks []string
			for a := range used {
				ks = append(ks, a)
			}
			sort.Strings(ks)
			c.Class = fmt.Sprintf("trace-filters/%s/n%d/r%d/p%d/%s", mode, n, c.Rounds, c.Proxies, strings.Join(ks, "+"))
			cs = append(cs, c)
		}
	}
	return cs
}

func c08Zone(s, maxi int64) string {
	switch {
	case s >= -4 && s <= 4:
		return fmt.Sprintf("zero%+d", s)
	case s >= maxi-4:
		return fmt.Sprintf("max%+d", s-maxi)
	case s <= -(1<<31)+4:
		return fmt.Sprintf("min%+d", s+(1<<31))
	case s < 0:
		return "neg"
	}
	return "pos"
}

func init() {
	props["C08"] = func(a Args) {
		runProp(Prop[c08Case]{
			ID: "C08", Require: "From TarsV Require Import Base.Hex Rpc.ReqId Conc.Pending Conc.C08Corr.", CaseType: "c08_case",
			Mismatch: "failing_from c08_check",
			Corr:     "C08Corr.c08_check (gen_seq = real genRequestID from a set counter; concurrent batches within the theorems' conclusions; maccepts = the recorded trace, per connection, is a good run of the product of pending-table machines with the observed outcomes, table snapshots and empty tables at the end; wrap witness = the theorem's prediction)",
			Rule:     "genRequestID: counter set to 0/maxInt32/minInt32 +-4, 2^30, random, then 1-7 calls single-threaded (exact vs gen_seq); 2-32 threads x 4-33 calls straddling 0, maxInt32, minInt32 (non-zero, distinct, reachable window, in Coq); 4-32 threads x 20000-40000 calls (monitor: non-zero, distinct, no lost increment). Scripted raw TCP server: N in {1,2,4,8,16,32,64,128,256} concurrent callers spread over 1-2 ServantProxy objects (own adapter and connection each), 1-3 rounds on the same connections, per caller one of reply / three replies / no reply / reply in two pieces with a gap beyond the client read timeout whose payload embeds a poisoned frame for a waiting call / adapters closed while calls are outstanding (child process) / reply after the caller left / caller's context cancelled (plain, or under a distant deadline) while the request is in flight / forged id 0 / forged unknown ids / stray replies under the two's-complement aliases of the caller's id (id-+256, id-+65536, -id, ~id) with the id counter positioned across 127, 255, 32767, 65535, -129, -32769 / one-way typed packet with the right id / id of a completed call / right id on another connection / one-way call (echoed by the peer under its id) / call failing in doInvoke (refused endpoint); answered callers call again at once (follow-up); dup-chain scenarios (3x8 replies per call); client-filter scenarios in child processes (pass-through pre+post filters, client filter, middleware); ids of all requests received by the server non-zero and distinct; server handling order a random permutation per round; request ids positioned to cross 0, the wrap threshold, or be negative; GOMAXPROCS 1,2,4,16 in thorough; table snapshot while the round is outstanding. Burst: 16-64 callers in lock step on one adapter, ~8000 calls, every batch of replies in one write (monitor: own id and payload). Thorough: full-cycle wrap witness (2^31 allocations). class = (kind, counter zone, threads | N, rounds, proxies, GOMAXPROCS, id zone, set of acts)",
			Shard:    4,
			Workers:  1,
			Gen:      c08Gen,
			Coq:      c08Coq,
			Class:    func(c *c08Case) string { return c.Class },
			RunAll: func(cs []c08Case) [][]Failure {
				fails := make([][]Failure, len(cs))
				for i := range cs { // the id counter is process-global: one case at a time
					if i > 0 {
						c08NoteFailures(fails[i-1])
					}
					if c08GenStuck {
						cs[i].Skipped = true
						continue
					}
					if cs[i].Kind == "burst" {
						fails[i] = c08RunBurst(&cs[i])
					} else if cs[i].Kind == "wrap" {
						fails[i] = c08RunWrap(&cs[i])
					} else if os.Getenv("C08_TIMING") != "" && cs[i].Kind == "trace" && cs[i].Filters == "" {
						t0 := time.Now()
						fails[i] = c08RunTrace(&cs[i])
						fmt.Fprintf(os.Stderr, "%6.2fs %s\n", time.Since(t0).Seconds(), cs[i].Class)
					} else if cs[i].Kind == "trace" && cs[i].Filters != "" {
						fails[i] = c08RunChild(&cs[i], a.Out)
					} else if cs[i].Kind == "trace" {
						fails[i] = c08RunTrace(&cs[i])
					} else {
						fails[i] = c08RunGen(&cs[i])
					}
				}
				return fails
			},
			Extra: func(tier string, rng *rand.Rand, res *Result) {
				n := 0
				for _, c := range res.Cases {
					if strings.Contains(string(c), `"kind":"trace"`) {
						n++
					}
				}
				res.Traces = n
			},
		}, a)
	}
}
