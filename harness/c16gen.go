package main

// C16 — generator of IDL programs (as token lists), printer with arbitrary spacing/comments, and the
// malformed stream: token-level mutations, truncations, hostile lexical material, random bytes.
// Every new top-level identifier of this file is prefixed c16.

import (
	"fmt"
	"math/rand"
	"strconv"
	"strings"
)

type c16Ty struct {
	K        string // int bool short byte long float double string vector map name
	Unsigned bool
	Name     string
	A, B     *c16Ty
}

type c16Member struct {
	Tag    int
	Req    bool
	Ty     *c16Ty
	Key    string
	ArrLen int    // > 0: fixed array member  T key[ArrLen]
	Def    string // source text of the default; "" = none
}
type c16Struct struct {
	Name string
	Mb   []c16Member
}
type c16EnumMb struct {
	Key  string
	Kind int // 0 "= value", 1 "= Name", 2 auto
	Val  int64
	Ref  string
}
type c16Enum struct {
	Name string
	Mb   []c16EnumMb
}
type c16Const struct {
	Ty   *c16Ty
	Name string
	Val  string
}
type c16Arg struct {
	Name string
	Out  bool
	Ty   *c16Ty
}
type c16Func struct {
	Name string
	Ret  *c16Ty // nil = void
	Args []c16Arg
}
type c16Iface struct {
	Name  string
	Funcs []c16Func
}
type c16Decl struct {
	E *c16Enum
	C *c16Const
	S *c16Struct
	I *c16Iface
	K []string // key[Struct, m1, ...]
}
type c16Module struct {
	Name  string
	Decls []c16Decl
	Dep   *c16Module `json:",omitempty"` // the module of the included file "<Dep.Name>.tars" whose types this one uses
}

// ---------- printing to tokens ----------
func (t *c16Ty) toks() []string {
	switch t.K {
	case "vector":
		return append(append([]string{"vector", "<"}, t.A.toks()...), ">")
	case "map":
		o := append([]string{"map", "<"}, t.A.toks()...)
		o = append(o, ",")
		o = append(o, t.B.toks()...)
		return append(o, ">")
	case "name":
		return []string{t.Name}
	}
	if t.Unsigned {
		return []string{"unsigned", t.K}
	}
	return []string{t.K}
}

func (m *c16Module) toks() []string {
	var o []string
	if m.Dep != nil {
		o = append(o, "#include", `"`+m.Dep.Name+`.tars"`)
	}
	o = append(o, "module", m.Name, "{")
	for _, d := range m.Decls {
		switch {
		case d.E != nil:
			o = append(o, "enum", d.E.Name, "{")
			for i, mb := range d.E.Mb {
				if i > 0 {
					o = append(o, ",")
				}
				o = append(o, mb.Key)
				if mb.Kind == 0 {
					o = append(o, "=", strconv.FormatInt(mb.Val, 10))
				} else if mb.Kind == 1 {
					o = append(o, "=", mb.Ref)
				}
			}
			o = append(o, "}", ";")
		case d.C != nil:
			o = append(o, "const")
			o = append(o, d.C.Ty.toks()...)
			o = append(o, d.C.Name, "=", d.C.Val, ";")
		case d.S != nil:
			o = append(o, "struct", d.S.Name, "{")
			for _, mb := range d.S.Mb {
				o = append(o, strconv.Itoa(mb.Tag))
				if mb.Req {
					o = append(o, "require")
				} else {
					o = append(o, "optional")
				}
				o = append(o, mb.Ty.toks()...)
				o = append(o, mb.Key)
				if mb.ArrLen > 0 {
					o = append(o, "[", strconv.Itoa(mb.ArrLen), "]")
				} else if mb.Def != "" {
					o = append(o, "=", mb.Def)
				}
				o = append(o, ";")
			}
			o = append(o, "}", ";")
		case d.I != nil:
			o = append(o, "interface", d.I.Name, "{")
			for _, f := range d.I.Funcs {
				if f.Ret == nil {
					o = append(o, "void")
				} else {
					o = append(o, f.Ret.toks()...)
				}
				o = append(o, f.Name, "(")
				for i, a := range f.Args {
					if i > 0 {
						o = append(o, ",")
					}
					if a.Out {
						o = append(o, "out")
					}
					o = append(o, a.Ty.toks()...)
					if a.Name != "" {
						o = append(o, a.Name)
					}
				}
				o = append(o, ")", ";")
			}
			o = append(o, "}", ";")
		case d.K != nil:
			o = append(o, "key", "[")
			for i, k := range d.K {
				if i > 0 {
					o = append(o, ",")
				}
				o = append(o, k)
			}
			o = append(o, "]", ";")
		}
	}
	return append(o, "}", ";")
}

func c16IsPunct(t string) bool {
	return len(t) == 1 && strings.ContainsAny(t, "{};=<>,()[]")
}

var c16Seps = []string{" ", "\n", "\t", "  ", "\r\n", " \n  ", "\f", "\v", " /* c */ ", "/**/", " // line\n", "\n/* a * b ** / */\n", "\r", " /***/ "}

// c16Join renders tokens with arbitrary separators; style 0 = plain single blanks/newlines
func c16Join(toks []string, rng *rand.Rand, style int) string {
	var sb strings.Builder
	for i, t := range toks {
		if i > 0 {
			need := !(c16IsPunct(t) || c16IsPunct(toks[i-1]))
			switch {
			case style == 0:
				if t == "}" || toks[i-1] == ";" || toks[i-1] == "{" {
					sb.WriteString("\n")
				} else if need || !c16IsPunct(t) || t == "{" || t == "=" {
					sb.WriteString(" ")
				}
			case need || rng.Intn(3) > 0:
				sb.WriteString(c16Seps[rng.Intn(len(c16Seps))])
			}
		}
		sb.WriteString(t)
	}
	if style != 0 && rng.Intn(2) == 0 {
		sb.WriteString(c16Seps[rng.Intn(len(c16Seps))])
	}
	return sb.String()
}

// ---------- generator of valid programs ----------
type c16GenOpt struct {
	Compilable bool // stay inside the fragment whose generated Go must compile (no known gaps, Go-safe names)
	Gaps       bool // include the known codegen gaps (byte arrays, enum arrays)
	Small      bool
	IdBase     int // first number used in generated names (keeps the names of two modules apart)
	Transitive bool // prefer the types of the module the included module includes (not included directly)
}

var c16Scalars = []string{"int", "bool", "short", "byte", "long", "float", "double", "string"}

type c16Gen struct {
	mod     string // the module's own name: its types may be written Mod::Name
	dep     *c16Module
	rng     *rand.Rand
	opt     c16GenOpt
	enums   []*c16Enum
	structs []string // names of structs defined so far (usable by value)
	allSt   []string
	n       int
}

func (g *c16Gen) id(prefix string) string {
	g.n++
	if g.rng.Intn(4) == 0 { // names need not start with a capital: the generator capitalises the Go identifiers
		prefix = strings.ToLower(prefix[:1]) + prefix[1:]
	}
	return fmt.Sprintf("%s%d", prefix, g.n)
}

func (g *c16Gen) scalar() *c16Ty {
	k := c16Scalars[g.rng.Intn(len(c16Scalars))]
	t := &c16Ty{K: k}
	if (k == "int" || k == "short" || k == "byte") && g.rng.Intn(3) == 0 {
		t.Unsigned = true
	}
	return t
}

func (g *c16Gen) keyTy() *c16Ty {
	if len(g.enums) > 0 && g.rng.Intn(6) == 0 {
		return &c16Ty{K: "name", Name: g.enums[g.rng.Intn(len(g.enums))].Name}
	}
	for {
		t := g.scalar()
		if t.K != "float" && t.K != "double" || g.rng.Intn(4) == 0 {
			return t
		}
	}
}

// ty: a random type; byValue = struct names allowed directly (not the struct being defined)
func (g *c16Gen) ty(depth int, self string) *c16Ty {
	r := g.rng.Intn(10)
	switch {
	case r < 4 || depth <= 0:
		if g.dep != nil && g.rng.Intn(3) == 0 { // a struct or enum of the included module
			var names []string
			for dm := g.dep; dm != nil; dm = dm.Dep { // the included module and, through it, those it includes
				if g.opt.Transitive && dm == g.dep && dm.Dep != nil && g.rng.Intn(3) > 0 {
					continue
				}
				for _, d := range dm.Decls {
					if d.S != nil {
						names = append(names, dm.Name+"::"+d.S.Name)
					} else if d.E != nil {
						names = append(names, dm.Name+"::"+d.E.Name)
					}
				}
			}
			if len(names) > 0 {
				return &c16Ty{K: "name", Name: names[g.rng.Intn(len(names))]}
			}
		}
		own := ""
		if g.mod != "" && g.rng.Intn(5) == 0 { // the module's own types may be qualified
			own = g.mod + "::"
		}
		if len(g.enums) > 0 && g.rng.Intn(5) == 0 {
			return &c16Ty{K: "name", Name: own + g.enums[g.rng.Intn(len(g.enums))].Name}
		}
		if len(g.structs) > 0 && g.rng.Intn(4) == 0 {
			return &c16Ty{K: "name", Name: own + g.structs[g.rng.Intn(len(g.structs))]}
		}
		return g.scalar()
	case r < 7:
		if self != "" && g.rng.Intn(5) == 0 {
			return &c16Ty{K: "vector", A: &c16Ty{K: "name", Name: self}}
		}
		return &c16Ty{K: "vector", A: g.ty(depth-1, self)}
	default:
		return &c16Ty{K: "map", A: g.keyTy(), B: g.ty(depth-1, self)}
	}
}

var c16IntLits = map[string][]string{
	"byte":   {"0", "1", "-1", "127", "-128", "7", "0x7f", "017"},
	"ubyte":  {"0", "1", "255", "128", "0xff"},
	"short":  {"0", "-3", "32767", "-32768", "256"},
	"ushort": {"0", "7", "65535", "32768"},
	"int":    {"0", "100000", "-1", "2147483647", "-2147483648", "0x7fffffff"},
	"uint":   {"0", "1", "4294967295", "2147483648"},
	"long":   {"0", "-5000000000", "9223372036854775807", "-9223372036854775808", "1"},
}

func (g *c16Gen) litFor(t *c16Ty) string {
	switch t.K {
	case "bool":
		return []string{"true", "false"}[g.rng.Intn(2)]
	case "float", "double":
		return []string{"1.5", "0.0", "-2.25", "3.", "100.125", "7", "-1"}[g.rng.Intn(7)]
	case "string":
		return []string{`""`, `"x y"`, `"dflt"`, `"a;b{c}"`, `"// not a comment"`, `"täst"`}[g.rng.Intn(6)]
	case "int", "short", "byte", "long":
		k := t.K
		if t.Unsigned {
			k = "u" + k
		}
		l := c16IntLits[k]
		return l[g.rng.Intn(len(l))]
	}
	return ""
}

func (g *c16Gen) enum() *c16Enum {
	e := &c16Enum{Name: g.id("En")}
	n := 1 + g.rng.Intn(6)
	for i := 0; i < n; i++ {
		mb := c16EnumMb{Key: fmt.Sprintf("%s_K%d", strings.ToUpper(e.Name), i), Kind: 2}
		if g.rng.Intn(5) == 0 {
			mb.Key = fmt.Sprintf("k%d_%s", i, e.Name)
		}
		switch g.rng.Intn(4) {
		case 0:
			mb.Kind, mb.Val = 0, []int64{0, 1, 5, -1, 100, 2147483647, -2147483648}[g.rng.Intn(7)]
		case 1:
			if i > 0 {
				mb.Kind, mb.Ref = 1, e.Mb[g.rng.Intn(i)].Key
			}
		}
		e.Mb = append(e.Mb, mb)
	}
	return e
}

func (g *c16Gen) strct() *c16Struct {
	s := &c16Struct{Name: g.id("St")}
	n := 1 + g.rng.Intn(7)
	if g.opt.Small {
		n = 1 + g.rng.Intn(3)
	}
	used := map[int]bool{}
	for i := 0; i < n; i++ {
		tag := g.rng.Intn(256)
		if g.rng.Intn(3) == 0 {
			tag = []int{0, 1, 14, 15, 16, 127, 128, 200, 254, 255}[g.rng.Intn(10)]
		}
		for used[tag] {
			tag = (tag + 1) % 256
		}
		used[tag] = true
		mb := c16Member{Tag: tag, Req: g.rng.Intn(2) == 0, Key: fmt.Sprintf("m%d", i)}
		mb.Ty = g.ty(2, s.Name)
		switch {
		case g.rng.Intn(7) == 0:
			// fixed array member
			mb.Ty = g.scalar()
			if g.rng.Intn(3) == 0 && len(g.structs) > 0 {
				mb.Ty = &c16Ty{K: "name", Name: g.structs[g.rng.Intn(len(g.structs))]}
			}

			if len(g.enums) > 0 && g.rng.Intn(3) == 0 {
				mb.Ty = &c16Ty{K: "name", Name: g.enums[0].Name}
			}
			mb.ArrLen = 1 + g.rng.Intn(4)
		case mb.Ty.K == "name":
			for _, e := range g.enums {
				if e.Name == mb.Ty.Name && g.rng.Intn(2) == 0 {
					mb.Def = e.Mb[g.rng.Intn(len(e.Mb))].Key
				}
			}
			for dm := g.dep; dm != nil; dm = dm.Dep {
				if strings.HasPrefix(mb.Ty.Name, dm.Name+"::") && g.rng.Intn(2) == 0 {
					for _, d := range dm.Decls {
						if d.E != nil && dm.Name+"::"+d.E.Name == mb.Ty.Name {
							mb.Def = d.E.Mb[g.rng.Intn(len(d.E.Mb))].Key
						}
					}
				}
			}
		case mb.Ty.K != "vector" && mb.Ty.K != "map":
			if g.rng.Intn(2) == 0 {
				mb.Def = g.litFor(mb.Ty)
				if mb.Ty.K == "float" || mb.Ty.K == "double" {
					if mb.Def == "7" || mb.Def == "-1" { // integer literal as a float default: accepted, fine in Go
					}
				}
			}
		}
		s.Mb = append(s.Mb, mb)
	}
	return s
}

func (g *c16Gen) iface() *c16Iface {
	it := &c16Iface{Name: g.id("If")}
	n := 1 + g.rng.Intn(3)
	for i := 0; i < n; i++ {
		f := c16Func{Name: fmt.Sprintf("op%d", i)}
		if g.rng.Intn(3) > 0 {
			f.Ret = g.ty(1, "")
		}
		na := g.rng.Intn(4)
		for j := 0; j < na; j++ {
			f.Args = append(f.Args, c16Arg{Name: fmt.Sprintf("p%d", j), Out: g.rng.Intn(3) == 0, Ty: g.ty(2, "")})
		}
		it.Funcs = append(it.Funcs, f)
	}
	return it
}

// c16GenModule: one module of the supported language
func c16GenModule(rng *rand.Rand, name string, opt c16GenOpt, withIface bool) *c16Module {
	return c16GenModuleDep(rng, name, opt, withIface, nil)
}

// c16GenModuleDep: a module that may use the structs and enums of dep, included as "<dep.Name>.tars"
func c16GenModuleDep(rng *rand.Rand, name string, opt c16GenOpt, withIface bool, dep *c16Module) *c16Module {
	g := &c16Gen{rng: rng, opt: opt, dep: dep, n: opt.IdBase, mod: name}
	m := &c16Module{Name: name, Dep: dep}
	nd := 3 + rng.Intn(5)
	if opt.Small {
		nd = 1 + rng.Intn(3)
	}
	for i := 0; i < nd; i++ {
		switch r := rng.Intn(10); {
		case r < 2:
			e := g.enum()
			g.enums = append(g.enums, e)
			m.Decls = append(m.Decls, c16Decl{E: e})
		case r < 3:
			t := g.scalar()
			m.Decls = append(m.Decls, c16Decl{C: &c16Const{Ty: t, Name: g.id("Cn"), Val: g.litFor(t)}})
		case r < 9:
			s := g.strct()
			g.structs = append(g.structs, s.Name)
			m.Decls = append(m.Decls, c16Decl{S: s})
			if rng.Intn(6) == 0 {
				k := []string{s.Name}
				for _, mb := range s.Mb {
					k = append(k, mb.Key)
				}
				m.Decls = append(m.Decls, c16Decl{K: k})
			}
		default:
			if withIface {
				m.Decls = append(m.Decls, c16Decl{I: g.iface()})
			}
		}
	}
	if withIface && rng.Intn(2) == 0 {
		m.Decls = append(m.Decls, c16Decl{I: g.iface()})
	}
	return m
}

// ---------- the malformed stream ----------
var c16Vocab = []string{"{", "}", ";", "=", "<", ">", ",", "(", ")", "[", "]", "module", "enum", "struct", "interface", "require", "optional",
	"const", "unsigned", "void", "out", "key", "true", "false", "int", "bool", "short", "byte", "long", "float", "double", "string", "vector",
	"map", "array", "#include", `"inc.tars"`, `"x"`, "A", "b", "M::T", "a::b::c", "a:b", "x-1", "_u", "0", "1", "-1", "255", "256", "0x10", "0X1f",
	"017", "08", "-", "0x", "1x2", "9223372036854775807", "9223372036854775808", "-9223372036854775808", "-9223372036854775809",
	"2147483648", "4294967296", "1.5", "-.5", "1.", "1.2.3", "1.5x", "0x1.8", "--1", "1-2", "$", "@", "\"unterminated", "/* open", "//c\n", "/*x*/", "/", "*", "\x00", "\x80", "#inc", "#"}

// c16Mutate applies k token-level edits
func c16Mutate(toks []string, rng *rand.Rand, k int) []string {
	o := append([]string(nil), toks...)
	for ; k > 0; k-- {
		if len(o) == 0 {
			o = append(o, c16Vocab[rng.Intn(len(c16Vocab))])
			continue
		}
		i := rng.Intn(len(o))
		switch rng.Intn(8) {
		case 0: // delete
			o = append(o[:i], o[i+1:]...)
		case 1: // duplicate
			o = append(o[:i+1], o[i:]...)
		case 2: // replace
			o[i] = c16Vocab[rng.Intn(len(c16Vocab))]
		case 3: // insert
			o = append(o[:i], append([]string{c16Vocab[rng.Intn(len(c16Vocab))]}, o[i:]...)...)
		case 4: // swap with neighbour
			if i+1 < len(o) {
				o[i], o[i+1] = o[i+1], o[i]
			}
		case 6, 7: // replace by a token of the same kind (stays syntactically valid more often)
			o[i] = c16SameKind(o[i], rng)
		case 5: // duplicate a span
			j := i + rng.Intn(8)
			if j > len(o) {
				j = len(o)
			}
			span := append([]string(nil), o[i:j]...)
			o = append(o[:j], append(span, o[j:]...)...)
		}
	}
	return o
}

// hand-written lexical / syntactic corner cases; each entry is a complete input
var c16Corners = []string{
	"", " ", "\n", "\x00", "module", "module m", "module m {", "module m { }", "module m { };", "module m { } ; x",
	"module m { enum E {", "module m { enum E { A", "module m { enum E { A,", "module m { enum E { A =", "module m { enum E { A = 1",
	"module m { enum E { A = 1 ,", "module m { enum E { A B", "module m { enum E { ; ; 1 2 struct", "module m { enum E { } ; };",
	"module m { enum E { A B , C = 2 D , F } ; };", "module m { enum E { A = B, B = 3 } ; };", "module m { enum E { A } ; enum E { B } ; };",
	"module m { enum E { A = 4294967297, B = -2147483649, C = 2147483648 }; };",
	"module m { struct S {", "module m { struct S { 0", "module m { struct S { 0 require", "module m { struct S { 0 require int", "module m { struct S { 0 require int a",
	"module m { struct S { 0 require int a ;", "module m { struct S { 0 require int a ; }", "module m { struct S { 0 require int a ; } ;", "module m { struct S { 0 require int a ; } ; }",
	"module m { struct S { 0 require int a ; } ; } ;", "module m { struct S { 0 require int a; 0 require int b; }; };", "module m { struct S { 4294967296 require int a; 0 require int b; }; };",
	"module m { struct S { 2 require int a; 1 require int b; 0 optional int c; }; };", "module m { struct S { -1 require int a; 300 optional int b; }; };",
	"module m { struct S { 0 require T a; }; };", "module m { struct S { 0 require m::S a; 1 require x::S b; }; };", "module m { struct S { 0 require vector<S> a; 1 optional map<int, vector<S>> b; }; };",
	"module m { enum E { A }; struct T { 0 require int x; }; struct S { 0 require map<string, E> a; 1 require map<E, T> b; 2 optional vector<map<int, vector<E>>> c; 3 optional map<string, map<string, T>> d; 4 optional m::E q = A; 5 optional vector<m::T> r; }; interface I { map<string,E> f(map<int,T> a, out map<E,m::E> b); }; };",
	"module m { enum E { A }; struct S { 0 require map<string, Nope> a; }; };", "module m { enum E { A }; struct S { 0 require map<Nope, E> a; }; };", "module m { struct S { 0 require vector<vector<Nope>> a; }; };",
	"module m { enum E { A }; interface I { void f(map<int, Nope> a); }; };", "module m { enum E { A }; interface I { map<E, Nope> f(); }; };",
	"module m { struct S { 0 require int a[3]; 1 optional T b[2]; 2 require byte c[0]; 3 require string d[-1]; }; };",
	"module m { struct S { 0 require unsigned unsigned int a; 1 require unsigned long b; }; };", "module m { struct S { 0 require unsigned vector<int> a; }; };",
	"module m { struct S { 0 require array a; }; };", "module m { struct S { 0 require vector<int a; }; };", "module m { struct S { 0 require map<int> a; }; };",
	"module m { struct S { 0 optional int a = 1.5; 1 optional bool b = 1; 2 optional string s = 3; }; };", "module m { struct S { 0 optional vector<int> v = \"x\"; }; };",
	"module m { struct S { 0 optional bool b = true; 1 optional int i = true; }; };", "module m { enum E { A, B }; struct S { 0 optional E e = B; 1 optional int i = A; 2 optional E f = m::A; }; };",
	"module m { enum E { A }; enum F { A }; struct S { 0 optional E e = A; }; };", "module m { enum E { A }; struct S { 0 optional E e = Z; }; };",
	"module m { enum e { a }; struct S { 0 optional e x = a; }; };",
	"module m { const int c = 1; const string s = \"x\"; const bool b = true; const float f = 1.5; const unsigned byte u = 255; };",
	"module m { const int c = \"x\"; };", "module m { const string s = 1; };", "module m { const vector<int> v = 1; };", "module m { const E c = 1; };", "module m { const bool b = 1; };",
	"module m { interface I {", "module m { interface I { void f(", "module m { interface I { void f(>", "module m { interface I { void f(> int g(); }; };", "module m { interface I { void f(); int g(int a, out string b); vector<int> h(map<int,string>); }; };",
	"module m { interface I { void f(int a,); }; };", "module m { interface I { void f(out); }; };", "module m { interface I { f(); }; };", "module m { interface I { T f(U a); }; };",
	"module m { interface I { void f(int a int b); }; };", "module m { interface I { unsigned int f(unsigned short a, out unsigned byte b); }; };",
	"module m { key[S, a, b]; };", "module m { key[S]; };", "module m { key[S, a,]; };", "module m { key[S, a", "module m { key",
	"#include \"a.tars\"", "#include", "#include x", "#includes \"a\"", "#inc", "# include \"a\"", "#include \"a.tars\" module m { };", "module m { }; #include \"in.tars\"",
	"module a { struct S { 0 require int x; }; }; module b { struct T { 0 require a::S s; }; };",
	"module a { struct S { 0 require Nope x; }; }; module b { };", "module a { struct S { 0 require b::T x; }; }; module b { struct T { 0 require int y; }; };",
	"module a { enum E { X }; struct S { 0 optional E e = NOPE; }; }; module b { }; module c { };", "module a { interface I { Nope f(); }; }; module b { };",
	"module a { struct S { 0 require vector<map<int, Nope>> x; }; }; module b { struct T { 0 require a::S s; }; }; module c { struct U { 0 require b::T t; }; };",
	"module a { }; module b { }; module c { struct U { 0 require Nope t; }; };", "module a { }; module a { };", "module a { }; module b { struct T { 0 require Nope s; }; };",
	"module a { }; module b { enum E {", "module m { }; module",
	"/* unterminated", "/* ok */", "/* almost *", "/* star then nul *\x00 module", "// only a comment", "// c\nmodule m { };", "/ x", "/", "module m /* c */ { } /* d */ ;",
	"module m { }; \x00 garbage {{{{", "module \x00", "\"str", "\"a\x00b\"", "module \"m\" { };",
	"module m { const long l = 9223372036854775807; const long k = -9223372036854775808; };", "module m { const long l = 9223372036854775808; };", "module m { const int i = 0x7fffffff; const int j = 017; const int k = 0; const int z = -0; };",
	"module m { const int i = 08; };", "module m { const int i = 0x; };", "module m { const int i = 0xg; };", "module m { const int i = 1x; };", "module m { const int i = -; };", "module m { const int i = 1-1; };",
	"module m { const int i = 0b1; };", "module m { const int i = 0x0b1; };", "module m { const int i = 0Xab; };", "module m { const int i = 1e5; };",
	"module m { const double d = 1.; const double e = -.5; const float f = 0.0; };", "module m { const double d = 1.2.3; };", "module m { const double d = .5; };", "module m { const double d = 1.5x; };", "module m { const double d = 0x1.8; };", "module m { const double d = -.; };",
	"module a::b { };", "module a:b { };", "module a::b::c { struct x::y::z { 0 require int q; }; };", "module a:::b { };", "module a::::b { };", "module a:1 { };", "module a::1 { };", "module a-b { struct s-1 { 0 require int x-y; }; };", "module _m { };", "module 1m { };",
	"module m { struct S { 0 require int a; }; struct S { 0 require int b; }; };", "module m { interface I { void f(); }; interface I { void g(); }; };",
	"module m { struct S { 0 require int a } ; };", "module m { struct S { 0 require int a; } };", "module m { struct S { require int a; }; };", "module m { struct S { 0 int a; }; };", "module m { struct S { 0 require a; }; };",
	"module m { struct S { 0 require int 5; }; };", "module m { struct S { 0 require int a = ; }; };", "module m { struct S { 0 require int a [ ]; }; };", "module m { struct S { 0 require int a [ 3 ; }; };",
	"module m { struct S { 0 require int a [ x ]; }; };", "module m { struct module { 0 require int a; }; };", "module module { };", "module int { };", "module m { struct S { 0 require int int; }; };",
	"struct S { 0 require int a; };", "enum E { A };", "module m { module n { }; };", "module m { int x; };", "}", ";", "{", "module m { } ; ;",
}

func c16Float(n int, frac bool) string {
	s := "1" + strings.Repeat("0", n)
	if frac {
		return s + ".5"
	}
	return s + "."
}

// boundary inputs around the comparisons of the number lexer: int64 range, octal/hex prefixes, float overflow
func c16NumberCorners() []string {
	var o []string
	wrap := func(ty, lit string) string { return "module m { const " + ty + " c = " + lit + "; };" }
	for _, l := range []string{"179769313486231570814527423731704356798070567525844996598917476803157260780028538760589558632766878171540458953514382464234321326889464182768467546703537516986049910576551282076245490090389328944075868508455133942304583236903222948165808559332123348274797826204144723168738177180919299881250404026184124858367.", // 2^1024-2^970-1
		"179769313486231570814527423731704356798070567525844996598917476803157260780028538760589558632766878171540458953514382464234321326889464182768467546703537516986049910576551282076245490090389328944075868508455133942304583236903222948165808559332123348274797826204144723168738177180919299881250404026184124858368.", // 2^1024-2^970
		"179769313486231570814527423731704356798070567525844996598917476803157260780028538760589558632766878171540458953514382464234321326889464182768467546703537516986049910576551282076245490090389328944075868508455133942304583236903222948165808559332123348274797826204144723168738177180919299881250404026184124858367.9999",
		c16Float(308, true), c16Float(309, false), c16Float(400, true), "-" + c16Float(309, true), "0." + strings.Repeat("0", 400) + "1", "00001.5", "1.5000000000000000000000000000000000001"} {
		o = append(o, wrap("double", l))
	}
	for _, l := range []string{"0xffffffffffffffff", "0x8000000000000000", "0x7fffffffffffffff", "-0x8000000000000000", "-0x8000000000000001", "0777777777777777777777", "01000000000000000000000", "01777777777777777777777", "02000000000000000000000",
		"18446744073709551615", "18446744073709551616", "99999999999999999999999999", "00", "007", "-00", "0x0", "0x00ff", "-0x1", "0xABCDEF", "0xabcdefg", "00x1", "0x1x2", "0x-1"} {
		o = append(o, wrap("long", l))
	}
	return o
}

var c16KindSets = [][]string{
	{"int", "bool", "short", "byte", "long", "float", "double", "string", "unsigned int", "unsigned byte", "unsigned short", "unsigned long", "vector<int>", "map<string,int>", "Undefined", "array"},
	{"require", "optional"},
	{"0", "1", "-1", "255", "256", "0x10", "017", "2147483647", "2147483648", "-2147483649", "4294967296", "4294967297", "1.5", "true", "false", `"s"`, "En1_K0"},
	{"enum", "struct", "interface", "const", "key"},
	{";", ",", "}", ")", ">", "]"},
	{"{", "(", "<", "[", "="},
	{"void", "out", "int", "St1", "En1"},
}

func c16SameKind(t string, rng *rand.Rand) string {
	for _, set := range c16KindSets {
		for _, x := range set {
			if x == t {
				return set[rng.Intn(len(set))]
			}
		}
	}
	if _, err := strconv.Atoi(t); err == nil {
		return c16KindSets[2][rng.Intn(len(c16KindSets[2]))]
	}
	if len(t) > 0 && (t[0] >= 'A' && t[0] <= 'Z' || t[0] >= 'a' && t[0] <= 'z') { // a name: another name, maybe a defined one
		return []string{"St1", "St2", "En1", "En2", "m0", "m1", "Mod0::St1", "X::St1", "zz", "En1_K0", "EN1_K0", "EN2_K1"}[rng.Intn(12)]
	}
	return t
}

// ---------- several files: programs that include others (compared with Idl/Include.v parse_fs) ----------
func c16FileCase(kind, main string, files map[string]string) c16Case {
	c := c16Case{Kind: kind, Input: B(main), Files: map[string]B{}}
	for n, t := range files {
		c.Files[n] = B(t)
	}
	return c
}

func c16GenFileCases(tier string, rng *rand.Rand) []c16Case {
	var cs []c16Case
	// the hand-written scenarios whose files sit beside in.tars
	for _, sc := range c16ScenarioList {
		ok := len(sc.Includes) == 0
		for n := range sc.Files {
			if strings.Contains(n, "/") {
				ok = false
			}
		}
		if ok {
			cs = append(cs, c16FileCase("inc-scenario", sc.Main, sc.Files))
		}
	}
	fixed := []struct {
		main  string
		files map[string]string
	}{
		{`#include "d.tars" module M { struct S { 0 require T t; }; };`, map[string]string{"d.tars": `module M { struct T { 0 require int x; }; };`}},                                     // same module name in both files: unqualified name resolves there
		{`#include "d.tars" module M { struct S { 0 require M::T t; 1 optional E e = B; 2 optional M::E f = M::A; }; };`, map[string]string{"d.tars": `module M { enum E { A, B }; struct T { 0 require int x; }; };`}},
		{`#include "d.tars" module M { struct S { 0 require T t; }; };`, map[string]string{"d.tars": `module D { struct T { 0 require int x; }; };`}},                                     // unqualified name of another module: undefined
		{`#include "d.tars" module M { enum E { A }; struct S { 0 optional E e = A; 1 optional D::F f = A; }; };`, map[string]string{"d.tars": `module D { enum F { A, X }; };`}},       // own enum member wins
		{`#include "d.tars" module M { struct S { 0 optional D::F f = X; 1 optional D::F g = D::X; }; };`, map[string]string{"d.tars": `module D { enum F { A, X }; };`}},
		{`#include "d.tars" module M { struct S { 0 optional D::F f = X; }; };`, map[string]string{"d.tars": `module D { enum F { X }; enum G { X }; };`}},                                // conflict inside the included module
		{`#include "d.tars" #include "e.tars" module M { struct S { 0 optional D::F f = X; 1 require E::T t; }; };`, map[string]string{"d.tars": `module D { enum F { X }; };`, "e.tars": `module E { enum G { X }; struct T { 0 require int x; }; };`}}, // first included file wins
		{`#include "d.tars" #include "d.tars" module M { struct S { 0 require D::T t; }; };`, map[string]string{"d.tars": `module D { struct T { 0 require int x; }; };`}},               // the same file twice
		{`#include "d.tars" module M { struct S { 0 require E::T t; 1 require vector<map<string, E::T>> v; 2 optional E::T a[2]; }; interface I { E::T f(D::U u, out map<int, E::T> m); }; };`,
			map[string]string{"d.tars": `#include "e.tars" module D { struct U { 0 require E::T t; }; };`, "e.tars": `module E { struct T { 0 require int x; }; };`}},                   // through two levels
		{`#include "d.tars" module M { struct S { 0 require D::U u; }; };`, map[string]string{"d.tars": `#include "e.tars" module D { struct U { 0 require E::Nope t; }; };`, "e.tars": `module E { };`}}, // error inside an included file
		{`#include "d.tars" module M { };`, map[string]string{"d.tars": `module D { struct U { 0 require int a } };`}},                                                                // syntax error inside an included file
		{`#include "d.tars" module M { };`, map[string]string{"d.tars": `#include "e.tars" module D { };`, "e.tars": `#include "f.tars" module E { };`, "f.tars": `#include "d.tars" module F { };`}}, // cycle not through the main file
		{`#include "d.tars" module M { };`, map[string]string{"d.tars": `#include "e.tars" module D { };`, "e.tars": `#include "f.tars" module E { };`, "f.tars": `#include "g.tars" module F { };`, "g.tars": `module G { };`}},
		{`#include "d.tars" module M { };`, map[string]string{"d.tars": `module D { }; module D2 { };`}},                                                                              // several modules in an included file
		{`#include "d.tars" module M { struct S { 0 require D::T t; }; };`, map[string]string{"d.tars": ``}},                                                                         // empty included file
		{`#include "d.tars"`, map[string]string{"d.tars": `module D { struct T { 0 require int x; }; };`}},                                                                          // no module in the main file
		{`#include "d.tars" module M { struct S { 0 require D::T t; }; };`, map[string]string{"d.tars": "module D { struct T { 0 require int x; }; }; \x00 garbage"}},
		{`#include "d.tars" module M { struct S { 0 require D::e x; 1 optional D::e y = k; }; };`, map[string]string{"d.tars": `module D { enum e { k }; };`}},
	}
	for _, f := range fixed {
		cs = append(cs, c16FileCase("inc-corner", f.main, f.files))
	}
	n := 6
	if tier == "thorough" {
		n = 80
	}
	for p := 0; p < n; p++ {
		dep := c16GenModule(rng, fmt.Sprintf("Dep%d", p), c16GenOpt{Small: true}, false)
		use := c16GenModuleDep(rng, fmt.Sprintf("Use%d", p), c16GenOpt{Small: p%2 == 0, IdBase: 100}, true, dep)
		depText, useText := c16Join(dep.toks(), rng, p%2), c16Join(use.toks(), rng, (p+1)%2)
		files := map[string]string{dep.Name + ".tars": depText}
		cs = append(cs, c16FileCase("inc-valid", useText, files))
		cs = append(cs, c16FileCase("inc-missing", useText, map[string]string{}))
		dt := dep.toks()
		cs = append(cs, c16FileCase("inc-dep-mutated", useText, map[string]string{dep.Name + ".tars": c16Join(c16Mutate(dt, rng, 1+rng.Intn(2)), rng, 0)}))
		cs = append(cs, c16FileCase("inc-dep-truncated", useText, map[string]string{dep.Name + ".tars": c16Join(dt[:rng.Intn(len(dt)+1)], rng, 0)}))
		cs = append(cs, c16FileCase("inc-circular", useText, map[string]string{dep.Name + ".tars": `#include "in.tars" ` + depText}))
		cs = append(cs, c16FileCase("inc-use-mutated", c16Join(c16Mutate(use.toks(), rng, 1+rng.Intn(2)), rng, 0), files))
		// several modules in the main file, the first one using the included file's types
		second := c16GenModule(rng, fmt.Sprintf("Sec%d", p), c16GenOpt{Small: true, IdBase: 200}, false)
		cs = append(cs, c16FileCase("inc-multi", useText+"\n"+c16Join(second.toks(), rng, 0), files))
		cs = append(cs, c16FileCase("inc-multi-missing-type", strings.Replace(useText, dep.Name+"::", "Nowhere::", 1)+"\n"+c16Join(second.toks(), rng, 0), files))
		// a third file between the two
		mid := fmt.Sprintf("#include \"%s.tars\" module Mid%d { struct Box { 0 require %s::%s inner; }; };", dep.Name, p, dep.Name, c16FirstType(dep))
		if c16FirstType(dep) != "" {
			cs = append(cs, c16FileCase("inc-chain", strings.Replace(useText, `"`+dep.Name+`.tars"`, `"mid.tars"`, 1), map[string]string{"mid.tars": mid, dep.Name + ".tars": depText}))
		}
	}
	return cs
}

func c16FirstType(m *c16Module) string {
	for _, d := range m.Decls {
		if d.S != nil {
			return d.S.Name
		}
		if d.E != nil {
			return d.E.Name
		}
	}
	return ""
}
