package main

// C16 — tables of the tars2go front end regenerated from the tree on every run (`harness gen-c16-tables` ->
// coq/Gen/C16Tables.v): the numeric token codes, the keyword / type-name table in the order readIdent scans it, the
// outcome of the compiled lexer on four probe families that pin every character class and the punctuation switch
// (b, a·b, 1·b, 0x·b for every byte b), the range of integer literals it accepts, and the token package's type
// predicates. coq/Idl/TablesProofs.v proves that the hand-written model computes exactly these tables.

import (
	"fmt"
	"math/big"
	"strings"

	"github.com/TarsCloud/TarsGo/tars/tools/tars2go/ast"
	"github.com/TarsCloud/TarsGo/tars/tools/tars2go/gencode"
	"github.com/TarsCloud/TarsGo/tars/tools/tars2go/lexer"
	"github.com/TarsCloud/TarsGo/tars/tools/tars2go/options"
	"github.com/TarsCloud/TarsGo/tars/tools/tars2go/token"
	"github.com/TarsCloud/TarsGo/tars/tools/tars2go/utils"
)

func c16CoqBytes(s string) string {
	parts := make([]string, len(s))
	for i := 0; i < len(s); i++ {
		parts[i] = fmt.Sprint(s[i])
	}
	return "[" + strings.Join(parts, "; ") + "]"
}

// one NextToken of the compiled lexer: (token code or 255 for a lexer panic, text, integer value)
func c16LexProbe(data []byte) (code int, text string, val int64) {
	defer func() {
		if r := recover(); r != nil {
			code, text, val = 255, "", 0
		}
	}()
	tk := lexer.NewLexState("probe", data).NextToken()
	code = int(tk.T)
	if tk.S != nil {
		text = tk.S.S
		if tk.T == token.Integer {
			val = tk.S.I
		}
	}
	return
}

func c16Accepts(lit string) bool {
	c, _, _ := c16LexProbe([]byte(lit + " "))
	return c == int(token.Integer)
}

func init() {
	props["gen-c16-tables"] = func(a Args) {
		fmt.Println("(* GENERATED from the tree by `harness gen-c16-tables` on every run - do not edit.")
		fmt.Println("   Token codes and keyword table of tars/tools/tars2go/token, and what the compiled lexer")
		fmt.Println("   (tars/tools/tars2go/lexer) does on the probe inputs b, a.b, 1.b, 0x.b (each followed by a blank). *)")
		fmt.Println("From Coq Require Import List NArith ZArith.\nImport ListNotations.\nOpen Scope N_scope.")
		codes := []struct {
			n string
			v token.Type
		}{{"Eof", token.Eof}, {"BraceLeft", token.BraceLeft}, {"BraceRight", token.BraceRight}, {"Semi", token.Semi}, {"Eq", token.Eq}, {"Shl", token.Shl},
			{"Shr", token.Shr}, {"Comma", token.Comma}, {"Ptl", token.Ptl}, {"Ptr", token.Ptr}, {"SquareLeft", token.SquareLeft}, {"SquarerRight", token.SquarerRight},
			{"Include", token.Include}, {"Module", token.Module}, {"Enum", token.Enum}, {"Struct", token.Struct}, {"Interface", token.Interface}, {"Require", token.Require},
			{"Optional", token.Optional}, {"Const", token.Const}, {"Unsigned", token.Unsigned}, {"Void", token.Void}, {"Out", token.Out}, {"Key", token.Key}, {"True", token.True},
			{"False", token.False}, {"TInt", token.TInt}, {"TBool", token.TBool}, {"TShort", token.TShort}, {"TByte", token.TByte}, {"TLong", token.TLong}, {"TFloat", token.TFloat},
			{"TDouble", token.TDouble}, {"TString", token.TString}, {"TVector", token.TVector}, {"TMap", token.TMap}, {"TArray", token.TArray}, {"Name", token.Name},
			{"String", token.String}, {"Integer", token.Integer}, {"Float", token.Float}}
		for _, c := range codes {
			fmt.Printf("Definition c16_tk_%s : N := %d.\n", c.n, c.v)
		}
		fmt.Printf("Definition c16_tk_EOF_byte : N := %d.\n", token.EOF)
		// the table readIdent scans: keywords, then type names, each in the order of their codes
		var kw []string
		for i := token.DummyKeywordBegin + 1; i < token.DummyKeywordEnd; i++ {
			kw = append(kw, fmt.Sprintf("(%s, %d)", c16CoqBytes(token.Value(i)), i))
		}
		for i := token.DummyTypeBegin + 1; i < token.DummyTypeEnd; i++ {
			kw = append(kw, fmt.Sprintf("(%s, %d)", c16CoqBytes(token.Value(i)), i))
		}
		fmt.Printf("Definition c16_kw_table : list (list N * N) := [\n  %s ].\n", strings.Join(kw, ";\n  "))
		// type predicates over every code
		var isT, isN []string
		for i := 0; i <= int(token.Float); i++ {
			if token.IsType(token.Type(i)) {
				isT = append(isT, fmt.Sprint(i))
			}
			if token.IsNumberType(token.Type(i)) {
				isN = append(isN, fmt.Sprint(i))
			}
		}
		fmt.Printf("Definition c16_is_type_codes : list N := [%s].\nDefinition c16_is_number_type_codes : list N := [%s].\n", strings.Join(isT, "; "), strings.Join(isN, "; "))
		// probes
		fams := []struct {
			name string
			pre  []byte
		}{{"c16_probe_b", nil}, {"c16_probe_ab", []byte("a")}, {"c16_probe_1b", []byte("1")}, {"c16_probe_0xb", []byte("0x")}}
		for _, f := range fams {
			var rows []string
			for b := 0; b < 256; b++ {
				data := append(append([]byte{}, f.pre...), byte(b), ' ')
				c, s, v := c16LexProbe(data)
				rows = append(rows, fmt.Sprintf("(%d, %s, (%d)%%Z)", c, c16CoqBytes(s), v))
			}
			fmt.Printf("Definition %s : list (N * list N * Z) := [\n  %s ].\n", f.name, strings.Join(rows, ";\n  "))
		}
		// further families pre.b.suf: string contents, comment starts and bodies, qualified names, signs, fractions, #include
		more := []struct{ pre, suf string }{{"\"", "\" "}, {"/", " x "}, {"/*", "*/ x "}, {"/*a*", "/ x "}, {"//", "\nx "}, {"a:", " "}, {"a::", " "}, {"a::b", " "},
			{"-", " "}, {"1.", " "}, {"0", "1 "}, {"#include", " "}, {"#", "nclude "}, {"x", "y "}, {"\n", "\nq "}}
		var fams2 []string
		for _, f := range more {
			var rows []string
			for b := 0; b < 256; b++ {
				data := append(append([]byte(f.pre), byte(b)), []byte(f.suf)...)
				c, s, v := c16LexProbe(data)
				rows = append(rows, fmt.Sprintf("(%d, %s, (%d)%%Z)", c, c16CoqBytes(s), v))
			}
			fams2 = append(fams2, fmt.Sprintf("(%s, %s, [\n  %s ])", c16CoqBytes(f.pre), c16CoqBytes(f.suf), strings.Join(rows, ";\n  ")))
		}
		fmt.Printf("Definition c16_probe_more : list (list N * list N * list (N * list N * Z)) := [\n%s ].\n", strings.Join(fams2, ";\n"))
		// utils.UpperFirstLetter on every ASCII first byte (one-byte string, and followed by 'x')
		var up1, up2 []string
		for b := 0; b < 128; b++ {
			up1 = append(up1, c16CoqBytes(utils.UpperFirstLetter(string([]byte{byte(b)}))))
			up2 = append(up2, c16CoqBytes(utils.UpperFirstLetter(string([]byte{byte(b), 'x'}))))
		}
		fmt.Printf("Definition c16_upper_first_1 : list (list N) := [%s].\nDefinition c16_upper_first_2 : list (list N) := [%s].\nDefinition c16_upper_first_empty : list N := %s.\n",
			strings.Join(up1, "; "), strings.Join(up2, "; "), c16CoqBytes(utils.UpperFirstLetter("")))
		// the generator's Go type text and zero text per scalar type (gen_go.go genType / typeDef through the verif hook)
		var gts, tds []string
		for i := token.DummyTypeBegin + 1; i < token.DummyTypeEnd; i++ {
			for _, u := range []bool{false, true} {
				t, ok := gencode.VerifGenType(&options.Options{}, &ast.VarType{Type: i, Unsigned: u, TypeK: &ast.VarType{Type: token.TInt}, TypeV: &ast.VarType{Type: token.TString}, TypeL: 3})
				if !ok {
					t = ""
				}
				gts = append(gts, fmt.Sprintf("(%d, %v, %s, %v)", i, u, c16CoqBytes(t), ok))
			}
			d, ok := gencode.VerifTypeDef(&options.Options{}, &ast.StructMember{Type: &ast.VarType{Type: i}})
			if !ok {
				d = ""
			}
			tds = append(tds, fmt.Sprintf("(%d, %s, %v)", i, c16CoqBytes(d), ok))
		}
		fmt.Printf("Definition c16_gentype : list (N * bool * list N * bool) := [\n  %s ].\n", strings.Join(gts, ";\n  "))
		fmt.Printf("Definition c16_typedef : list (N * list N * bool) := [\n  %s ].\n", strings.Join(tds, ";\n  "))
		nm := func(s string) string {
			t, _ := gencode.VerifGenType(&options.Options{}, &ast.VarType{Type: token.Name, TypeSt: s})
			return c16CoqBytes(t)
		}
		fmt.Printf("Definition c16_gentype_names : list (list N * list N) := [(%s, %s); (%s, %s); (%s, %s); (%s, %s)].\n",
			c16CoqBytes("st1"), nm("st1"), c16CoqBytes("St1"), nm("St1"), c16CoqBytes("modA::en2"), nm("modA::en2"), c16CoqBytes("M::T"), nm("M::T"))
		// integer literals: the largest / smallest decimal literal the lexer accepts (binary search between 0 and 2^80)
		search := func(neg bool) *big.Int {
			lo, hi := big.NewInt(0), new(big.Int).Lsh(big.NewInt(1), 80) // lo accepted, hi rejected
			lit := func(x *big.Int) string {
				if neg {
					return "-" + x.String()
				}
				return x.String()
			}
			if !c16Accepts(lit(lo)) || c16Accepts(lit(hi)) {
				return big.NewInt(-1)
			}
			for new(big.Int).Sub(hi, lo).Cmp(big.NewInt(1)) > 0 {
				mid := new(big.Int).Rsh(new(big.Int).Add(lo, hi), 1)
				if c16Accepts(lit(mid)) {
					lo = mid
				} else {
					hi = mid
				}
			}
			return lo
		}
		fmt.Printf("Definition c16_int_lit_max : Z := (%s)%%Z.\n", search(false).String())
		fmt.Printf("Definition c16_int_lit_min : Z := (-%s)%%Z.\n", search(true).String())
	}
}
