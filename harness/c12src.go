package main

// C12 — facts regenerated from the SOURCE of tars/transport on every run (go/parser): the time constants the model
// abstracts (the two 500 ms tickers whose equality justifies the model's `polled` guard, the idle threshold, the
// shutdown read deadline) and the shape of the steps the model mirrors (order of CloseIdles' notification and
// sweep, the accept loop going on after a non-timeout error, numInvoke++ before the handler is dispatched,
// `allClosed` only ever cleared, sendCloseMsg's Range never stopping early). They are printed into Gen/Consts.v;
// Conc/ShutdownSrc.v proves the equalities the model relies on, so an edit of that source breaks L1.
// Anything not found is printed as 999 (the proofs then fail).

import (
	"fmt"
	"go/ast"
	"go/parser"
	"go/token"
	"os"
	"path/filepath"
	"strconv"
)

func c12Repo() string {
	if r := os.Getenv("VERIF_REPO"); r != "" {
		return r
	}
	return "/repo"
}

func c12ParseFuncs(file string) map[string]*ast.FuncDecl {
	out := map[string]*ast.FuncDecl{}
	f, err := parser.ParseFile(token.NewFileSet(), filepath.Join(c12Repo(), file), nil, 0)
	if err != nil {
		return out
	}
	for _, d := range f.Decls {
		if fd, ok := d.(*ast.FuncDecl); ok && fd.Body != nil {
			out[fd.Name.Name] = fd
		}
	}
	return out
}

// c12MsLit: the integer n of an expression `time.Millisecond * n` (either order); -1 otherwise
func c12MsLit(e ast.Expr) int {
	b, ok := e.(*ast.BinaryExpr)
	if !ok || b.Op != token.MUL {
		return -1
	}
	isMs := func(x ast.Expr) bool {
		s, ok := x.(*ast.SelectorExpr)
		if !ok {
			return false
		}
		id, ok := s.X.(*ast.Ident)
		return ok && id.Name == "time" && s.Sel.Name == "Millisecond"
	}
	lit := func(x ast.Expr) int {
		if l, ok := x.(*ast.BasicLit); ok && l.Kind == token.INT {
			if n, err := strconv.Atoi(l.Value); err == nil {
				return n
			}
		}
		return -1
	}
	if isMs(b.X) {
		return lit(b.Y)
	}
	if isMs(b.Y) {
		return lit(b.X)
	}
	return -1
}

// c12WatchInterval: n of the (single) `watchInterval := time.Millisecond * n` below node
func c12WatchInterval(n ast.Node) int {
	found, cnt := 999, 0
	ast.Inspect(n, func(x ast.Node) bool {
		if as, ok := x.(*ast.AssignStmt); ok && len(as.Lhs) == 1 && len(as.Rhs) == 1 {
			if id, ok := as.Lhs[0].(*ast.Ident); ok && id.Name == "watchInterval" {
				if v := c12MsLit(as.Rhs[0]); v >= 0 {
					found = v
					cnt++
				}
			}
		}
		return true
	})
	if cnt != 1 {
		return 999
	}
	return found
}

func c12IsCall(e ast.Expr, sel string) (*ast.CallExpr, bool) {
	c, ok := e.(*ast.CallExpr)
	if !ok {
		return nil, false
	}
	if s, ok := c.Fun.(*ast.SelectorExpr); ok && s.Sel.Name == sel {
		return c, true
	}
	return nil, false
}

func c12Contains(n ast.Node, pred func(ast.Node) bool) bool {
	hit := false
	ast.Inspect(n, func(x ast.Node) bool {
		if x != nil && pred(x) {
			hit = true
		}
		return !hit
	})
	return hit
}

func c12SourceFacts() map[string]int {
	facts := map[string]int{}
	for _, k := range []string{"shutdown_tick_ms", "recv_drain_tick_ms", "closeidles_idle_s", "shutdown_read_deadline_ms",
		"closemsg_before_sweep", "accept_error_continues", "count_before_dispatch", "allclosed_only_cleared", "closemsg_range_continues",
		"decrement_deferred_in_handler", "drain_wait_only_exit"} {
		facts[k] = 999
	}
	srv := c12ParseFuncs("tars/transport/tarsserver.go")
	tcp := c12ParseFuncs("tars/transport/tcphandler.go")
	if fd := srv["Shutdown"]; fd != nil {
		facts["shutdown_tick_ms"] = c12WatchInterval(fd)
		ast.Inspect(fd, func(x ast.Node) bool {
			if e, ok := x.(ast.Expr); ok {
				if c, ok := c12IsCall(e, "CloseIdles"); ok && len(c.Args) == 1 {
					if l, ok := c.Args[0].(*ast.BasicLit); ok && l.Kind == token.INT {
						if n, err := strconv.Atoi(l.Value); err == nil {
							facts["closeidles_idle_s"] = n
						}
					}
				}
			}
			return true
		})
	}
	if fd := tcp["recv"]; fd != nil {
		facts["recv_drain_tick_ms"] = c12WatchInterval(fd)
		// the read deadline set while isClosed = 1: SetReadDeadline(time.Now().Add(time.Millisecond * n)) in the first
		// branch of the `if atomic.LoadInt32(&t.server.isClosed) == 1` at the top of the loop
		ast.Inspect(fd, func(x ast.Node) bool {
			ifs, ok := x.(*ast.IfStmt)
			if !ok || !c12Contains(ifs.Cond, func(n ast.Node) bool {
				s, ok := n.(*ast.SelectorExpr)
				return ok && s.Sel.Name == "isClosed"
			}) {
				return true
			}
			for _, st := range ifs.Body.List {
				es, ok := st.(*ast.ExprStmt)
				if !ok {
					continue
				}
				if c, ok := c12IsCall(es.X, "SetReadDeadline"); ok && len(c.Args) == 1 {
					if add, ok := c12IsCall(c.Args[0], "Add"); ok && len(add.Args) == 1 {
						if v := c12MsLit(add.Args[0]); v >= 0 {
							facts["shutdown_read_deadline_ms"] = v
						}
					}
				}
			}
			return true
		})
	}
	if fd := tcp["recv"]; fd != nil {
		// the deferred drain wait `for range tk.C { if numInvoke == 0 { break } }`: the loop body is that single `if`,
		// and it holds the only break / return / goto of the loop
		ast.Inspect(fd, func(x ast.Node) bool {
			rs, ok := x.(*ast.RangeStmt)
			if !ok || !c12Contains(rs.X, func(n ast.Node) bool { s, ok := n.(*ast.SelectorExpr); return ok && s.Sel.Name == "C" }) {
				return true
			}
			facts["drain_wait_only_exit"] = 0
			exits := 0
			ast.Inspect(rs.Body, func(y ast.Node) bool {
				switch v := y.(type) {
				case *ast.BranchStmt:
					if v.Tok == token.BREAK || v.Tok == token.GOTO {
						exits++
					}
				case *ast.ReturnStmt:
					exits++
				}
				return true
			})
			if len(rs.Body.List) == 1 && exits == 1 {
				if ifs, ok := rs.Body.List[0].(*ast.IfStmt); ok && ifs.Else == nil && ifs.Init == nil {
					if b, ok := ifs.Cond.(*ast.BinaryExpr); ok && b.Op == token.EQL &&
						c12Contains(b.X, func(n ast.Node) bool { s, ok := n.(*ast.SelectorExpr); return ok && s.Sel.Name == "numInvoke" }) {
						if l, ok := b.Y.(*ast.BasicLit); ok && l.Value == "0" {
							facts["drain_wait_only_exit"] = 1
						}
					}
				}
			}
			return true
		})
	}
	if fd := tcp["CloseIdles"]; fd != nil {
		iMsg, iSweep := -1, -1
		onlyCleared, decl := 1, 0
		for i, st := range fd.Body.List {
			if c12Contains(st, func(n ast.Node) bool {
				e, ok := n.(ast.Expr)
				if !ok {
					return false
				}
				_, is := c12IsCall(e, "sendCloseMsg")
				return is
			}) && iMsg < 0 {
				iMsg = i
			}
			if c12Contains(st, func(n ast.Node) bool {
				e, ok := n.(ast.Expr)
				if !ok {
					return false
				}
				_, is := c12IsCall(e, "Range")
				return is
			}) && iSweep < 0 {
				iSweep = i
			}
		}
		if iMsg >= 0 && iSweep >= 0 {
			facts["closemsg_before_sweep"] = 0
			if iMsg < iSweep {
				facts["closemsg_before_sweep"] = 1
			}
		}
		ast.Inspect(fd, func(x ast.Node) bool {
			as, ok := x.(*ast.AssignStmt)
			if !ok {
				return true
			}
			for i, l := range as.Lhs {
				id, ok := l.(*ast.Ident)
				if !ok || id.Name != "allClosed" || i >= len(as.Rhs) {
					continue
				}
				v, isId := as.Rhs[i].(*ast.Ident)
				switch {
				case as.Tok == token.DEFINE && isId && v.Name == "true":
					decl++
				case as.Tok == token.ASSIGN && isId && v.Name == "false":
				default:
					onlyCleared = 0
				}
			}
			return true
		})
		if decl == 1 {
			facts["allclosed_only_cleared"] = onlyCleared
		}
	}
	if fd := tcp["Handle"]; fd != nil {
		// the `if err != nil { … }` that follows `conn, err := t.listener.Accept()`: no return inside
		ast.Inspect(fd, func(x ast.Node) bool {
			blk, ok := x.(*ast.BlockStmt)
			if !ok {
				return true
			}
			for i, st := range blk.List {
				as, ok := st.(*ast.AssignStmt)
				if !ok || len(as.Rhs) != 1 {
					continue
				}
				if _, isAcc := c12IsCall(as.Rhs[0], "Accept"); !isAcc || i+1 >= len(blk.List) {
					continue
				}
				if ifs, ok := blk.List[i+1].(*ast.IfStmt); ok {
					facts["accept_error_continues"] = 1
					if c12Contains(ifs.Body, func(n ast.Node) bool { _, r := n.(*ast.ReturnStmt); return r }) ||
						c12Contains(ifs.Body, func(n ast.Node) bool { b, r := n.(*ast.BranchStmt); return r && b.Tok == token.BREAK }) {
						facts["accept_error_continues"] = 0
					}
				}
			}
			return true
		})
	}
	if fd := tcp["handleConn"]; fd != nil {
		isAdd := func(st ast.Stmt, delta string) bool {
			es, ok := st.(*ast.ExprStmt)
			if !ok {
				return false
			}
			c, ok := c12IsCall(es.X, "AddInt32")
			if !ok || len(c.Args) != 2 || !c12Contains(c.Args[0], func(n ast.Node) bool {
				s, ok := n.(*ast.SelectorExpr)
				return ok && s.Sel.Name == "numInvoke"
			}) {
				return false
			}
			switch a := c.Args[1].(type) {
			case *ast.BasicLit:
				return delta == "+1" && a.Value == "1"
			case *ast.UnaryExpr:
				l, ok := a.X.(*ast.BasicLit)
				return delta == "-1" && a.Op == token.SUB && ok && l.Value == "1"
			}
			return false
		}
		iInc, iDispatch := -1, -1
		for i, st := range fd.Body.List {
			if isAdd(st, "+1") && iInc < 0 {
				iInc = i
			}
			if c12Contains(st, func(n ast.Node) bool {
				switch v := n.(type) {
				case *ast.GoStmt:
					return true
				case *ast.SendStmt:
					return c12Contains(v.Chan, func(m ast.Node) bool { s, ok := m.(*ast.SelectorExpr); return ok && s.Sel.Name == "JobQueue" })
				}
				return false
			}) && iDispatch < 0 {
				iDispatch = i
			}
		}
		incInLit := c12Contains(fd, func(n ast.Node) bool {
			fl, ok := n.(*ast.FuncLit)
			return ok && c12Contains(fl.Body, func(m ast.Node) bool { st, ok := m.(ast.Stmt); return ok && isAdd(st, "+1") })
		})
		if iDispatch >= 0 {
			facts["count_before_dispatch"] = 0
			if iInc >= 0 && iInc < iDispatch && !incInLit {
				facts["count_before_dispatch"] = 1
			}
		}
		// the handler's first statement is `defer atomic.AddInt32(&connSt.numInvoke, -1)`: the decrement follows the write
		facts["decrement_deferred_in_handler"] = 0
		ast.Inspect(fd, func(x ast.Node) bool {
			fl, ok := x.(*ast.FuncLit)
			if !ok || len(fl.Body.List) == 0 {
				return true
			}
			if d, ok := fl.Body.List[0].(*ast.DeferStmt); ok && isAdd(&ast.ExprStmt{X: d.Call}, "-1") {
				facts["decrement_deferred_in_handler"] = 1
			}
			return true
		})
	}
	if fd := tcp["sendCloseMsg"]; fd != nil {
		facts["closemsg_range_continues"] = 999
		ast.Inspect(fd, func(x ast.Node) bool {
			c, ok := x.(*ast.CallExpr)
			if !ok {
				return true
			}
			if _, isR := c12IsCall(c, "Range"); !isR || len(c.Args) != 1 {
				return true
			}
			fl, ok := c.Args[0].(*ast.FuncLit)
			if !ok {
				return true
			}
			all, n := 1, 0
			ast.Inspect(fl.Body, func(y ast.Node) bool {
				if r, ok := y.(*ast.ReturnStmt); ok {
					n++
					if len(r.Results) != 1 {
						all = 0
					} else if id, ok := r.Results[0].(*ast.Ident); !ok || id.Name != "true" {
						all = 0
					}
				}
				return true
			})
			if n > 0 {
				facts["closemsg_range_continues"] = all
			}
			return true
		})
	}
	return facts
}

func init() {
	constGens = append(constGens, func() {
		f := c12SourceFacts()
		for _, k := range []string{"shutdown_tick_ms", "recv_drain_tick_ms", "closeidles_idle_s", "shutdown_read_deadline_ms",
			"closemsg_before_sweep", "accept_error_continues", "count_before_dispatch", "allclosed_only_cleared", "closemsg_range_continues",
			"decrement_deferred_in_handler", "drain_wait_only_exit"} {
			fmt.Printf("Definition c_c12_%s := %d.\n", k, f[k])
		}
	})
}
