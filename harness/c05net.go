package main

// C05, network entry points: the property quantifies over "all decode entry points reachable from the
// network (TCP and UDP server receive path, client receive path)". These cases push hostile byte streams
// and datagrams through the REAL transport servers (transport.TarsServer over loopback TCP and UDP, the
// real receive loops, tars.Protocol.Invoke, a generated dispatcher) and through the real client receive
// loop, inside a child worker: Invoke turns any panic into os.Exit, so a killing packet ends the worker
// and is attributed to the case.

import (
	"bytes"
	"context"
	"encoding/binary"
	"fmt"
	"io"
	"math/rand"
	"net"
	"strings"
	"sync"
	"time"

	"github.com/TarsCloud/TarsGo/tars"
	"github.com/TarsCloud/TarsGo/tars/protocol"
	"github.com/TarsCloud/TarsGo/tars/protocol/codec"
	"github.com/TarsCloud/TarsGo/tars/protocol/res/adminf"
	"github.com/TarsCloud/TarsGo/tars/protocol/res/requestf"
	"github.com/TarsCloud/TarsGo/tars/protocol/tup"
	"github.com/TarsCloud/TarsGo/tars/transport"
)

type c05Admin struct{}

func (c05Admin) Shutdown() error                       { return nil }
func (c05Admin) Notify(command string) (string, error) { return "ok:" + command, nil }

var (
	c05NetOnce sync.Once
	c05TCPAddr string
	c05UDPAddr string
	c05NetErr  error
)

func c05FreeAddr(network string) string {
	if network == "udp" {
		c, err := net.ListenPacket("udp", "127.0.0.1:0")
		if err != nil {
			return ""
		}
		defer c.Close()
		return c.LocalAddr().String()
	}
	l, err := net.Listen("tcp", "127.0.0.1:0")
	if err != nil {
		return ""
	}
	defer l.Close()
	return l.Addr().String()
}

func c05NetStart() {
	c05NetOnce.Do(func() {
		for _, pr := range []string{"tcp", "udp"} {
			var lastErr error
			for try := 0; try < 5; try++ {
				addr := c05FreeAddr(pr)
				p := tars.VerifNewProtocol(new(adminf.AdminF), c05Admin{}, false)
				conf := &transport.TarsServerConf{Proto: pr, Address: addr, MaxInvoke: 0, AcceptTimeout: 200 * time.Millisecond,
					ReadTimeout: 200 * time.Millisecond, WriteTimeout: 2 * time.Second, HandleTimeout: 0, IdleTimeout: time.Hour, QueueCap: 1000, TCPNoDelay: true}
				s := transport.NewTarsServer(p, conf)
				if lastErr = s.Listen(); lastErr == nil {
					go s.Serve()
					if pr == "tcp" {
						c05TCPAddr = addr
					} else {
						c05UDPAddr = addr
					}
					break
				}
			}
			if lastErr != nil {
				c05NetErr = lastErr
			}
		}
	})
}

func c05Frame(body []byte) []byte {
	out := make([]byte, 4+len(body))
	binary.BigEndian.PutUint32(out, uint32(len(out)))
	copy(out[4:], body)
	return out
}

func c05PingPacket(id int32) []byte {
	rq := requestf.RequestPacket{IVersion: 1, CPacketType: 0, IRequestId: id, SServantName: "verif.obj", SFuncName: "tars_ping", SBuffer: []int8{}, ITimeout: 3000,
		Context: map[string]string{}, Status: map[string]string{}}
	buf := codec.NewBuffer()
	rq.WriteTo(buf)
	return c05Frame(buf.ToBytes())
}

var c05PingID int32 = 1000

// c05Alive: the server still answers a ping (on a fresh connection / datagram)
func c05Alive(network string) error {
	c05PingID++
	pk := c05PingPacket(c05PingID)
	var lastErr error
	for try := 0; try < 3; try++ {
		addr := c05TCPAddr
		if network == "udp" {
			addr = c05UDPAddr
		}
		c, err := net.DialTimeout(network, addr, 2*time.Second)
		if err != nil {
			lastErr = err
			continue
		}
		c.SetDeadline(time.Now().Add(3 * time.Second))
		c.Write(pk)
		rb := make([]byte, 65536)
		n := 0
		for n < 4 || n < int(binary.BigEndian.Uint32(rb[:4])) {
			k, err := c.Read(rb[n:])
			n += k
			if err != nil {
				lastErr = err
				break
			}
		}
		c.Close()
		if n >= 4 && n >= int(binary.BigEndian.Uint32(rb[:4])) {
			var rp requestf.ResponsePacket
			if err := rp.ReadFrom(codec.NewReader(rb[4:n])); err == nil && rp.IRequestId == c05PingID {
				return nil
			}
			lastErr = fmt.Errorf("unexpected ping reply")
		}
	}
	return lastErr
}

type c05ClientRec struct {
	p   *protocol.TarsProtocol
	mu  sync.Mutex
	n   int
	bad int
}

func (r *c05ClientRec) Recv(pkg []byte) {
	// what AdapterProxy.Recv does first (it recovers and drops undecodable packets; here a panic is recorded)
	defer func() {
		if e := recover(); e != nil {
			r.mu.Lock()
			r.bad++
			r.mu.Unlock()
			panic(e)
		}
	}()
	r.p.ResponseUnpack(pkg)
	r.mu.Lock()
	r.n++
	r.mu.Unlock()
}
func (r *c05ClientRec) ParsePackage(buff []byte) (int, int) { return r.p.ParsePackage(buff) }

type c05ScriptConn struct {
	r *bytes.Reader
}

func (c *c05ScriptConn) Read(b []byte) (int, error) {
	if c.r.Len() == 0 {
		return 0, io.EOF
	}
	return c.r.Read(b)
}
func (c *c05ScriptConn) Write(b []byte) (int, error)        { return len(b), nil }
func (c *c05ScriptConn) Close() error                       { return nil }
func (c *c05ScriptConn) LocalAddr() net.Addr                { return &net.TCPAddr{IP: net.IPv4(127, 0, 0, 1), Port: 1} }
func (c *c05ScriptConn) RemoteAddr() net.Addr               { return &net.TCPAddr{IP: net.IPv4(127, 0, 0, 1), Port: 2} }
func (c *c05ScriptConn) SetDeadline(t time.Time) error      { return nil }
func (c *c05ScriptConn) SetReadDeadline(t time.Time) error  { return nil }
func (c *c05ScriptConn) SetWriteDeadline(t time.Time) error { return nil }

func init() {
	entryDecodeNet = func(entry string, bs []byte) (obs string, errMsg string, handled bool) {
		switch entry {
		case "net-tcp", "net-udp":
			c05NetStart()
			if c05NetErr != nil {
				return "OErr", "harness: cannot listen: " + c05NetErr.Error(), true
			}
			network, addr := "tcp", c05TCPAddr
			if entry == "net-udp" {
				network, addr = "udp", c05UDPAddr
			}
			c, err := net.DialTimeout(network, addr, 2*time.Second)
			if err != nil {
				return "OErr", "harness: dial: " + err.Error(), true
			}
			c.SetDeadline(time.Now().Add(2 * time.Second))
			if len(bs) > 0 || network == "udp" {
				c.Write(bs)
			}
			// give the handler goroutine time to run: read whatever comes back for a short while
			c.SetReadDeadline(time.Now().Add(60 * time.Millisecond))
			rb := make([]byte, 65536)
			c.Read(rb)
			c.Close()
			if err := c05Alive(network); err != nil {
				return "OPanic", "server no longer answers a ping after this input: " + err.Error(), true
			}
			return "OVal (VInt 0%Z)", "", true
		case "net-client-stream":
			rec := &c05ClientRec{p: &protocol.TarsProtocol{}}
			done := make(chan struct{})
			var pv interface{}
			go func() {
				defer close(done)
				defer func() { pv = recover() }()
				transport.VerifClientRecv(rec, &transport.TarsClientConf{Proto: "tcp", QueueLen: 10, ReadTimeout: time.Second, IdleTimeout: time.Hour}, &c05ScriptConn{r: bytes.NewReader(bs)})
			}()
			select {
			case <-done:
			case <-time.After(10 * time.Second):
				return "OPanic", "client receive loop did not return within 10 s", true
			}
			time.Sleep(5 * time.Millisecond) // per-packet goroutines
			if pv != nil {
				return "OPanic", fmt.Sprint(pv), true
			}
			rec.mu.Lock()
			defer rec.mu.Unlock()
			if rec.bad > 0 {
				return "OPanic", "panic while unpacking a response", true
			}
			return "OVal (VInt 0%Z)", "", true
		}
		return "", "", false
	}
}

// c05NetCases: hostile streams / datagrams for the three network entry points
func c05Net(tier string, rng *rand.Rand, res *Result) {
	initRegistry()
	reqSid := -1
	var reqE regEntry
	for sid, e := range registry {
		if e.name == "requestf.RequestPacket" {
			reqSid, reqE = sid, e
		}
	}
	if reqSid < 0 {
		return
	}
	type nc struct {
		note string
		body []byte // request packet body (framed for the net entries); nil: raw stream in raw
		raw  []byte
	}
	var cands []nc
	n := 40
	if tier == "thorough" {
		n = 600
	}
	// (a) framing level: every small length prefix with short / exact / long bodies, and tiny datagrams
	for l := 0; l <= 9; l++ {
		for _, extra := range []int{0, 1, 3, 8} {
			raw := make([]byte, 4+extra)
			binary.BigEndian.PutUint32(raw, uint32(l))
			for i := 4; i < len(raw); i++ {
				raw[i] = byte(rng.Intn(256))
			}
			cands = append(cands, nc{note: fmt.Sprintf("length prefix %d followed by %d bytes", l, extra), raw: raw})
		}
	}
	for l := 0; l <= 8; l++ {
		raw := make([]byte, l)
		rng.Read(raw)
		cands = append(cands, nc{note: fmt.Sprintf("%d random bytes", l), raw: raw})
	}
	for _, v := range []uint32{0xffffffff, 0x80000000, 0x7fffffff, 10485761, 10485760} {
		raw := make([]byte, 12)
		binary.BigEndian.PutUint32(raw, v)
		cands = append(cands, nc{note: fmt.Sprintf("length prefix %#x", v), raw: raw})
	}
	// (b) request packets: valid, mutated, with hostile argument buffers for every protocol version
	mkReq := func(ver int16, fn string, sbuf []byte, ptype int8) []byte {
		rq := requestf.RequestPacket{IVersion: ver, CPacketType: ptype, IRequestId: int32(rng.Intn(1 << 20)), SServantName: "verif.obj", SFuncName: fn,
			SBuffer: make([]int8, len(sbuf)), ITimeout: 3000, Context: map[string]string{"k": "v"}, Status: map[string]string{}}
		for i, b := range sbuf {
			rq.SBuffer[i] = int8(b)
		}
		buf := codec.NewBuffer()
		rq.WriteTo(buf)
		return append([]byte(nil), buf.ToBytes()...)
	}
	argOK := func() []byte { b := codec.NewBuffer(); b.WriteString("cmd", 1); return append([]byte(nil), b.ToBytes()...) }()
	tupOK := func() []byte {
		u := tup.NewUniAttribute()
		b := codec.NewBuffer()
		b.WriteString("cmd", 0)
		u.PutBuffer("command", b.ToBytes())
		o := codec.NewBuffer()
		u.Encode(o)
		return append([]byte(nil), o.ToBytes()...)
	}()
	hostileBufs := [][]byte{argOK, tupOK, {}, {0x16}, {0x16, 0xff}, {0x17, 0xff, 0xff, 0xff, 0xff}, {0x17, 0x7f, 0xff, 0xff, 0xff, 'a'}, {0x08, 0x02, 0x7f, 0xff, 0xff, 0xff},
		{0x08, 0x02, 0x08, 0x00, 0x00, 0x00}, {0x08, 0x00, 0xff}, {0x08, 0x01, 0x80, 0x00}, {0x09, 0x02, 0x7f, 0xff, 0xff, 0xff}, {0x0d, 0x00, 0x02, 0x7f, 0xff, 0xff, 0xff},
		bytes.Repeat([]byte{0x0a}, 600), bytes.Repeat([]byte{0x09, 0x00, 0x01}, 600), []byte(`{"command":`), []byte(`{"command":"x"}`), []byte(`[[[[[[[[[[[[[[[[[[[[`), []byte("\xff\xfe")}
	for _, hb := range hostileBufs {
		for _, ver := range []int16{1, 2, 3, 0, 4, -1} {
			for _, fn := range []string{"notify", "shutdown", "nosuch", "tars_ping"} {
				if fn != "notify" && rng.Intn(3) != 0 {
					continue
				}
				cands = append(cands, nc{note: fmt.Sprintf("request v%d %s with argument buffer % x", ver, fn, trunc(hb)), body: mkReq(ver, fn, hb, int8(rng.Intn(2)))})
			}
		}
	}
	// (b') well-formed requests whose META data is hostile: every message-type bit (hash, grid, dyed, sample, async, set name,
	// trace, unknown bits) combined with the status / context entries the framework itself interprets on the receive path
	// (trace key, dyeing key, set name, grid ...) set to empty, separator-less, over-segmented, huge and binary values
	{
		odd := []string{"", "abc", "|", "||", "a|b", "a|b|c", "a|b|c|d", "1|2|3|4|5|6|7|8", "-1", "999999999999999999999", strings.Repeat("x", 70000), "\x00\xff|\xfe", "%s%d%v", " ", "\n"}
		keys := []string{"STATUS_TRACE_KEY", "STATUS_DYED_KEY", "STATUS_GRID_KEY", "STATUS_SETNAME_VALUE", "STATUS_SAMPLE_KEY", "STATUS_RESULT_CODE", "STATUS_RESULT_DESC", "TARS_DYED_KEY", "nosuch"}
		types := []int32{0x100, 0x04, 0x02, 0x80, 0x08, 0x01, 0x10, 0x1ff, -1, 0x7fffffff, 0x100 | 0x04, 0x200, 0x40000000}
		cnt := 0
		for ti, mt := range types {
			for ki, k := range keys {
				for oi, v := range odd {
					if tier != "thorough" && (ti+ki+oi)%4 != 0 && !(mt == 0x100 && k == "STATUS_TRACE_KEY") && !(mt == 0x04 && k == "STATUS_DYED_KEY") {
						continue
					}
					v2 := strings.NewReplacer("\\x00", "\x00", "\\xff", "\xff", "\\xfe", "\xfe", "\\n", "\n").Replace(v)
					rq := requestf.RequestPacket{IVersion: 1, CPacketType: int8(cnt % 2), IMessageType: mt, IRequestId: int32(1000 + cnt), SServantName: "verif.obj", SFuncName: []string{"tars_ping", "notify"}[cnt%2],
						SBuffer: []int8{}, ITimeout: 3000, Context: map[string]string{k: v2}, Status: map[string]string{k: v2}}
					if cnt%2 == 1 {
						for _, b := range argOK {
							rq.SBuffer = append(rq.SBuffer, int8(b))
						}
					}
					buf := codec.NewBuffer()
					rq.WriteTo(buf)
					note := v
					if len(note) > 40 {
						note = note[:40] + "..."
					}
					cands = append(cands, nc{note: fmt.Sprintf("well-formed request, message type %#x, status/context[%s] = %q", mt, k, note), body: append([]byte(nil), buf.ToBytes()...)})
					cnt++
				}
			}
		}
	}
	for i := 0; i < n; i++ {
		v := gRandomValue(rng, reqE)
		body, err := gEncode(v)
		if err != nil {
			continue
		}
		cands = append(cands, nc{note: "random request packet", body: body})
		nb := append([]byte(nil), body...)
		for k := 0; k <= rng.Intn(3) && len(nb) > 0; k++ {
			nb[rng.Intn(len(nb))] = byte(rng.Intn(256))
		}
		cands = append(cands, nc{note: "mutated request packet", body: nb})
		if len(body) > 1 {
			cands = append(cands, nc{note: "truncated request packet", body: body[:rng.Intn(len(body))]})
		}
	}
	// unknown-member skip bombs inside a request (huge announced counts, truncated content)
	for _, pat := range skipBombs() {
		cands = append(cands, nc{note: "request packet = skip bomb " + pat.note, body: pat.bs})
	}
	// direct decode first: payloads that hit a (known or new) defect of the generated decoder itself are judged by the
	// decoder cases; only payloads the decoder survives are sent through the servers
	var pre []decReq
	for i, c := range cands {
		if c.body != nil {
			pre = append(pre, decReq{ID: i, Sid: reqSid, Bytes: c.body})
		}
	}
	preResp := decodeMany(pre, 12, 20000)
	clean := map[int]bool{}
	for k, r := range preResp {
		if r.Died == "" && r.Obs != "OPanic" && r.Alloc <= 256*uint64(len(pre[k].Bytes))+(1<<20) {
			clean[pre[k].ID] = true
		}
	}
	var reqs []decReq
	var notes []string
	for i, c := range cands {
		if c.body != nil {
			if !clean[i] {
				continue
			}
			fr := c05Frame(c.body)
			for _, e := range []string{"net-tcp", "net-udp"} {
				reqs = append(reqs, decReq{ID: len(reqs), Entry: e, Bytes: fr})
				notes = append(notes, e+": "+c.note)
			}
			continue
		}
		for _, e := range []string{"net-tcp", "net-udp", "net-client-stream"} {
			reqs = append(reqs, decReq{ID: len(reqs), Entry: e, Bytes: c.raw})
			notes = append(notes, e+": "+c.note)
		}
	}
	// one worker per entry keeps a server alive across cases; 4 workers in parallel
	resp := decodeMany(reqs, 6, 30000)
	cnt := map[string]int{}
	for i, r := range resp {
		sig := ""
		switch {
		case r.Died != "":
			sig = "network/process-death/" + reqs[i].Entry
		case r.Obs == "OPanic":
			sig = "network/panic-or-dead-server/" + reqs[i].Entry
		case r.Obs == "OErr":
			cnt["harness-error"]++
			continue
		}
		cnt[reqs[i].Entry]++
		if sig != "" {
			res.Failures = append(res.Failures, Failure{Sig: sig, Desc: fmt.Sprintf("%s [%d bytes %s]: obs=%s err=%s died=%s", notes[i], len(reqs[i].Bytes), hexOf(trunc(reqs[i].Bytes)), r.Obs, r.Err, r.Died), Replay: reqs[i]})
		}
	}
	res.Evaluations += len(reqs)
	res.Stats["network_entry_cases"] = cnt
	_ = context.Background
}

type bomb struct {
	note string
	bs   []byte
}

// skipBombs: unknown members (tag 0 / tag 200) whose announced element counts are huge while the content is missing;
// skipping them must fail at the end of the input, not iterate over the announced count
func skipBombs() []bomb {
	i32 := func(v uint32) []byte { return []byte{0x02, byte(v >> 24), byte(v >> 16), byte(v >> 8), byte(v)} }
	var out []bomb
	for _, cnt := range []uint32{0x7fffffff, 0x40000000, 0x01000000} {
		for _, depth := range []int{1, 2, 8} {
			out = append(out, bomb{fmt.Sprintf("%d nested LIST heads announcing %d elements", depth, cnt), bytes.Repeat(append([]byte{0x09}, i32(cnt)...), depth)})
			out = append(out, bomb{fmt.Sprintf("%d nested MAP heads announcing %d entries", depth, cnt), bytes.Repeat(append([]byte{0x08}, i32(cnt)...), depth)})
			out = append(out, bomb{fmt.Sprintf("%d nested ext-tag LIST heads announcing %d elements", depth, cnt), bytes.Repeat(append([]byte{0xf9, 200}, i32(cnt)...), depth)})
		}
		out = append(out, bomb{fmt.Sprintf("SimpleList announcing %d bytes", cnt), append([]byte{0x0d, 0x00}, i32(cnt)...)})
		out = append(out, bomb{fmt.Sprintf("LIST announcing %d elements followed by one element", cnt), append(append([]byte{0x09}, i32(cnt)...), 0x00, 0x01)})
		out = append(out, bomb{fmt.Sprintf("MAP announcing %d entries followed by one entry", cnt), append(append([]byte{0x08}, i32(cnt)...), 0x00, 0x01, 0x10, 0x02)})
	}
	// negative announced lengths / counts in skip position: skipping must neither move backwards nor iterate
	for _, neg := range [][]byte{{0x00, 0xfc}, {0x00, 0xff}, {0x00, 0x80}, {0x01, 0xff, 0xfc}, {0x01, 0x80, 0x00}, {0x02, 0xff, 0xff, 0xff, 0xfb}, {0x02, 0x80, 0x00, 0x00, 0x00}} {
		out = append(out, bomb{fmt.Sprintf("SimpleList announcing the negative length % x", neg), append([]byte{0x0d, 0x00}, neg...)})
		out = append(out, bomb{fmt.Sprintf("ext-tag SimpleList announcing the negative length % x", neg), append([]byte{0xfd, 200, 0x00}, neg...)})
		out = append(out, bomb{fmt.Sprintf("LIST announcing the negative count % x", neg), append([]byte{0x09}, neg...)})
		out = append(out, bomb{fmt.Sprintf("MAP announcing the negative count % x", neg), append([]byte{0x08}, neg...)})
		out = append(out, bomb{fmt.Sprintf("SimpleList negative length % x followed by a field", neg), append(append([]byte{0x0d, 0x00}, neg...), 0x10, 0x01)})
	}
	return out
}
