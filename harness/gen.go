package main

// Regenerators of coq/Gen/*.v: values as the compiler sees them in the current tree.

import (
	"fmt"

	"github.com/TarsCloud/TarsGo/tars/protocol/codec"
)

func init() {
	props["gen-consts"] = func(a Args) {
		fmt.Println("(* GENERATED from /repo by `harness gen-consts` on every run - do not edit *)")
		fmt.Println("From Coq Require Import NArith ZArith.")
		fmt.Println("Open Scope N_scope.")
		tc := []struct {
			n string
			v byte
		}{{"BYTE", codec.BYTE}, {"SHORT", codec.SHORT}, {"INT", codec.INT}, {"LONG", codec.LONG}, {"FLOAT", codec.FLOAT}, {"DOUBLE", codec.DOUBLE},
			{"STRING1", codec.STRING1}, {"STRING4", codec.STRING4}, {"MAP", codec.MAP}, {"LIST", codec.LIST}, {"StructBegin", codec.StructBegin},
			{"StructEnd", codec.StructEnd}, {"ZeroTag", codec.ZeroTag}, {"SimpleList", codec.SimpleList}}
		for _, t := range tc {
			fmt.Printf("Definition c_%s := %d.\n", t.n, t.v)
		}
		fmt.Printf("Definition c_maxSkipDepth := %d.\n", codec.VerifMaxSkipDepth())
		genConstsMore()
	}
}
