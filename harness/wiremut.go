package main

// A small independent walker over Tars wire bytes (for locating field boundaries, embedded lengths and
// counts in VALID encodings) and generators of well-formed random fields (for schema-evolution extras).

import (
	"encoding/binary"
	"math/rand"
)

type span struct {
	Start, BodyStart, End int // [Start,End) whole field incl. head; BodyStart after the head
	Tag                   int
	Ty                    byte
	LenAt, LenSize        int   // position/size of an embedded byte length (STRING1/4) or -1
	CountField            *span // the count field of LIST/MAP/SimpleList
	Kids                  []span
}

func readHeadAt(b []byte, p int) (ty byte, tag int, n int, ok bool) {
	if p >= len(b) {
		return 0, 0, 0, false
	}
	ty = b[p] & 0x0f
	tag = int(b[p] >> 4)
	if tag == 15 {
		if p+1 >= len(b) {
			return 0, 0, 0, false
		}
		return ty, int(b[p+1]), 2, true
	}
	return ty, tag, 1, true
}

// walkField parses one field at p; ok=false when the bytes are not a well-formed field
func walkField(b []byte, p int) (s span, ok bool) {
	ty, tag, n, ok := readHeadAt(b, p)
	if !ok {
		return s, false
	}
	s = span{Start: p, BodyStart: p + n, Tag: tag, Ty: ty, LenAt: -1}
	q := p + n
	fixed := map[byte]int{0: 1, 1: 2, 2: 4, 3: 8, 4: 4, 5: 8, 12: 0, 11: 0}
	if w, isFixed := fixed[ty]; isFixed {
		s.End = q + w
		return s, s.End <= len(b)
	}
	intVal := func(c span) int {
		switch c.Ty {
		case 12:
			return 0
		case 0:
			return int(int8(b[c.BodyStart]))
		case 1:
			return int(int16(binary.BigEndian.Uint16(b[c.BodyStart:])))
		case 2:
			return int(int32(binary.BigEndian.Uint32(b[c.BodyStart:])))
		}
		return -1
	}
	switch ty {
	case 6:
		if q >= len(b) {
			return s, false
		}
		s.LenAt, s.LenSize = q, 1
		s.End = q + 1 + int(b[q])
	case 7:
		if q+4 > len(b) {
			return s, false
		}
		s.LenAt, s.LenSize = q, 4
		s.End = q + 4 + int(binary.BigEndian.Uint32(b[q:]))
	case 13:
		h, ok := walkField(b, q)
		if !ok || h.Ty != 0 && false {
			return s, false
		}
		_, _, hn, ok2 := readHeadAt(b, q)
		if !ok2 {
			return s, false
		}
		c, ok := walkField(b, q+hn)
		if !ok {
			return s, false
		}
		s.CountField = &c
		s.End = c.End + intVal(c)
	case 9, 8:
		c, ok := walkField(b, q)
		if !ok {
			return s, false
		}
		s.CountField = &c
		cnt := intVal(c)
		if ty == 8 {
			cnt *= 2
		}
		r := c.End
		for i := 0; i < cnt; i++ {
			k, ok := walkField(b, r)
			if !ok {
				return s, false
			}
			s.Kids = append(s.Kids, k)
			r = k.End
		}
		s.End = r
	case 10:
		r := q
		for {
			k, ok := walkField(b, r)
			if !ok {
				return s, false
			}
			r = k.End
			if k.Ty == 11 {
				break
			}
			s.Kids = append(s.Kids, k)
		}
		s.End = r
	default:
		return s, false
	}
	return s, s.End <= len(b)
}

func walkTop(b []byte) ([]span, bool) {
	var out []span
	p := 0
	for p < len(b) {
		s, ok := walkField(b, p)
		if !ok {
			return out, false
		}
		out = append(out, s)
		p = s.End
	}
	return out, true
}

func allSpans(l []span) []span {
	var out []span
	for _, s := range l {
		out = append(out, s)
		if s.CountField != nil {
			out = append(out, *s.CountField)
		}
		out = append(out, allSpans(s.Kids)...)
	}
	return out
}

// ---- writers for well-formed random fields ----
func mkHead(ty byte, tag int) []byte {
	if tag < 15 {
		return []byte{byte(tag<<4) | ty}
	}
	return []byte{0xf0 | ty, byte(tag)}
}

func mkCount(n int) []byte {
	switch {
	case n == 0:
		return mkHead(12, 0)
	case n < 128:
		return append(mkHead(0, 0), byte(n))
	case n < 32768:
		return append(mkHead(1, 0), byte(n>>8), byte(n))
	}
	return append(mkHead(2, 0), byte(n>>24), byte(n>>16), byte(n>>8), byte(n))
}

// randField produces a well-formed field of a random wire type (any nesting) with the given tag
func randField(rng *rand.Rand, tag int, depth int) []byte {
	ty := byte([]int{0, 1, 2, 3, 4, 5, 6, 7, 8, 9, 10, 12, 13}[rng.Intn(13)])
	if depth <= 0 && (ty == 8 || ty == 9 || ty == 10) {
		ty = 6
	}
	return randFieldOf(rng, ty, tag, depth)
}

func randFieldOf(rng *rand.Rand, ty byte, tag int, depth int) []byte {
	out := mkHead(ty, tag)
	rb := func(n int) []byte { b := make([]byte, n); rng.Read(b); return b }
	switch ty {
	case 0:
		out = append(out, rb(1)...)
	case 1:
		out = append(out, rb(2)...)
	case 2, 4:
		out = append(out, rb(4)...)
	case 3, 5:
		out = append(out, rb(8)...)
	case 6:
		n := []int{0, 1, 5, 255}[rng.Intn(4)]
		out = append(append(out, byte(n)), rb(n)...)
	case 7:
		n := []int{0, 3, 256, 300}[rng.Intn(4)]
		out = append(append(out, byte(n>>24), byte(n>>16), byte(n>>8), byte(n)), rb(n)...)
	case 13:
		n := []int{0, 1, 7, 130}[rng.Intn(4)]
		out = append(out, mkHead(0, 0)...)
		out = append(append(out, mkCount(n)...), rb(n)...)
	case 9:
		n := rng.Intn(4)
		out = append(out, mkCount(n)...)
		for i := 0; i < n; i++ {
			out = append(out, randField(rng, 0, depth-1)...)
		}
	case 8:
		n := rng.Intn(3)
		out = append(out, mkCount(n)...)
		for i := 0; i < n; i++ {
			out = append(out, randField(rng, 0, depth-1)...)
			out = append(out, randField(rng, 1, depth-1)...)
		}
	case 10:
		n := rng.Intn(4)
		t := 0
		for i := 0; i < n; i++ {
			t += rng.Intn(40)
			if t > 255 {
				break
			}
			out = append(out, randField(rng, t, depth-1)...)
			t++
		}
		out = append(out, mkHead(11, 0)...)
	}
	return out
}
