package main

// xlate_selftest.go - `harness gen-xlate-selftest` -> coq/Gen/TranslatedSelfTest.v: the functions of
// harness/xlatesample translated to Gallina, and for each of them an Example stating that on a grid of boundary
// inputs the translation evaluates to what the compiled Go function returned (a panic is the outcome Panic).
// The inputs are deterministic, so the file only changes when the translator, the samples or Go's behaviour do.

import (
	"fmt"
	"math"
	"os"
	"path/filepath"
	"reflect"
	"strings"

	"verifharness/xlatesample"
)

var xSamples = []struct {
	name string
	f    interface{}
}{
	{"Arith8", xlatesample.Arith8}, {"ArithU8", xlatesample.ArithU8}, {"Arith16", xlatesample.Arith16}, {"ArithU16", xlatesample.ArithU16},
	{"Arith32", xlatesample.Arith32}, {"ArithU32", xlatesample.ArithU32}, {"Arith64", xlatesample.Arith64}, {"ArithU64", xlatesample.ArithU64},
	{"Div32", xlatesample.Div32}, {"Rem32", xlatesample.Rem32}, {"Div64", xlatesample.Div64}, {"DivU8", xlatesample.DivU8},
	{"Bits", xlatesample.Bits}, {"BitsU", xlatesample.BitsU}, {"Shl32", xlatesample.Shl32}, {"Shr32", xlatesample.Shr32},
	{"ShlU16", xlatesample.ShlU16}, {"ShiftSigned", xlatesample.ShiftSigned}, {"ConstShift", xlatesample.ConstShift},
	{"Conv", xlatesample.Conv}, {"ConvU", xlatesample.ConvU}, {"Cmp", xlatesample.Cmp}, {"CmpU", xlatesample.CmpU}, {"Logic", xlatesample.Logic},
	{"Index", xlatesample.Index}, {"Guarded", xlatesample.Guarded}, {"Slice", xlatesample.Slice}, {"SliceOpen", xlatesample.SliceOpen},
	{"BE", xlatesample.BE}, {"Str", xlatesample.Str}, {"Switch", xlatesample.Switch}, {"SwitchRet", xlatesample.SwitchRet},
	{"IfMerge", xlatesample.IfMerge}, {"Swap", xlatesample.Swap}, {"RangeSum", xlatesample.RangeSum}, {"RangeMinMax", xlatesample.RangeMinMax},
	{"Count", xlatesample.Count}, {"CountRet", xlatesample.CountRet}, {"Struct", xlatesample.Struct}, {"Ret0", xlatesample.Ret0},
	{"Collect", xlatesample.Collect}, {"Make", xlatesample.Make}, {"Search", xlatesample.Search}, {"Widen", xlatesample.Widen}, {"SortDesc", xlatesample.SortDesc}, {"StrOrder", xlatesample.StrOrder}, {"LoopCut", xlatesample.LoopCut}, {"FillPkt", xlatesample.FillPkt}, {"MapErr", xlatesample.MapErr}, {"SumTo", xlatesample.SumTo}, {"NormCmp", xlatesample.NormCmp}, {"GuardOrder", xlatesample.GuardOrder}, {"GuardPanic", xlatesample.GuardPanic},
}

// pure samples with a `for { }` loop take fuel
var xSampleFuel = map[string]bool{"LoopCut": true}

// samples whose error results are values (unit option ErrVals): the error struct's name
var xSampleErrVals = map[string]string{"MapErr": "E"}
var xErrValsNow string // set while the results of such a sample are written

// boundary values of a parameter type
func xGrid(t reflect.Type) []reflect.Value {
	var vs []reflect.Value
	add := func(v interface{}) { vs = append(vs, reflect.ValueOf(v).Convert(t)) }
	switch t.Kind() {
	case reflect.Int8, reflect.Int16, reflect.Int32, reflect.Int64, reflect.Int:
		w := uint(t.Bits())
		for _, v := range []int64{-1 << (w - 1), -1<<(w-1) + 1, -100, -3, -1, 0, 1, 2, 7, 100, 1<<(w-1) - 2, 1<<(w-1) - 1} {
			add(v)
		}
	case reflect.Uint8, reflect.Uint16, reflect.Uint32, reflect.Uint64, reflect.Uint:
		w := uint(t.Bits())
		for _, v := range []uint64{0, 1, 2, 3, 7, 15, 16, 31, 100, 1 << (w - 1), 1<<(w-1) + 1, 1<<w - 2, 1<<w - 1} {
			add(v)
		}
		if w == 32 { // float32 patterns: subnormals, least normal, 1.0, max, infinities, NaNs (signalling, quiet), negative ones
			for _, v := range []uint64{0x00000001, 0x00000400, 0x007fffff, 0x00800000, 0x3f800000, 0x3fc00000, 0x7f7fffff, 0x7f800000, 0x7f800001,
				0x7fa00000, 0x7fc00000, 0x7fffffff, 0x80000001, 0x807fffff, 0xbf800000, 0xff800000, 0xffc00001, 0x40490fdb} {
				add(v)
			}
		}
	case reflect.Bool:
		add(false)
		add(true)
	case reflect.String:
		for _, v := range []string{"", "tcp", "ssl", "s", "udp", "tcpx", "tc", "\xff", "tcq"} {
			add(v)
		}
	case reflect.Slice:
		switch t.Elem().Kind() {
		case reflect.Uint8:
			for _, v := range [][]byte{nil, {7}, {0, 7, 255}, {1, 2, 3, 4, 5}, {255, 254, 253, 252, 251, 250, 249, 248, 7, 1, 0}, {2, 9, 3, 1, 1, 1, 5}, {1, 1, 1, 0, 4}, {3, 0, 7, 2, 8}} {
				add(v)
			}
		case reflect.Int32:
			for _, v := range [][]int32{nil, {5}, {1, 2, 3}, {2147483647, 1, 1}, {4, -2, 9}, {-2147483648}, {-100, -1, 0, 1, 2, 2, 7, 100}} {
				add(v)
			}
		case reflect.Int16:
			for _, v := range [][]int16{nil, {5}, {1, -2, 3}, {32767, -32768, 0, 7}} {
				add(v)
			}
		}
	}
	if len(vs) == 0 {
		panic("xlate selftest: no input grid for " + t.String())
	}
	return vs
}

// Gallina text of a Go value in the translator's representation
func xCoqVal(v reflect.Value) string {
	switch v.Kind() {
	case reflect.Int8, reflect.Int16, reflect.Int32, reflect.Int64, reflect.Int:
		if v.Int() < 0 {
			return fmt.Sprintf("(%d)", v.Int())
		}
		return fmt.Sprint(v.Int())
	case reflect.Uint8, reflect.Uint16, reflect.Uint32, reflect.Uint64, reflect.Uint:
		return fmt.Sprint(v.Uint())
	case reflect.Float32:
		return fmt.Sprint(math.Float32bits(float32(v.Float())))
	case reflect.Float64:
		return fmt.Sprint(math.Float64bits(v.Float()))
	case reflect.Bool:
		return fmt.Sprint(v.Bool())
	case reflect.Interface: // an error: nil or not
		if xErrValsNow != "" { // an error value: nil, the error struct, or a text (errors.New)
			rec := "go_xlatesample_" + xErrValsNow
			if v.IsNil() {
				return "(@GoErrNil " + rec + ")"
			}
			if el := v.Elem(); el.Kind() == reflect.Ptr && el.Elem().Kind() == reflect.Struct && el.Elem().Type().Name() == xErrValsNow {
				return "(GoErrVal " + xCoqVal(el.Elem()) + ")"
			}
			return "(@GoErrNew " + rec + " " + xBytesLit(v.Interface().(error).Error()) + ")"
		}
		return fmt.Sprint(!v.IsNil())
	case reflect.String:
		return xBytesLit(v.String())
	case reflect.Slice:
		if v.Type().Elem().Kind() == reflect.Uint8 {
			return xBytesLit(string(v.Bytes()))
		}
		t := "(@nil Z)"
		for i := v.Len() - 1; i >= 0; i-- {
			t = "(" + xCoqVal(v.Index(i)) + " :: " + t + ")"
		}
		return t
	case reflect.Struct:
		fs := []string{"Build_go_" + filepath.Base(v.Type().PkgPath()) + "_" + v.Type().Name()}
		for i := 0; i < v.NumField(); i++ {
			if v.Field(i).Kind() == reflect.Chan { // outside the subset: not a member of the generated record
				continue
			}
			fs = append(fs, xCoqVal(v.Field(i)))
		}
		return "(" + strings.Join(fs, " ") + ")"
	}
	panic("xlate selftest: no Gallina form for " + v.Type().String())
}

func xTuple(vs []reflect.Value) string {
	var ts []string
	for _, v := range vs {
		ts = append(ts, xCoqVal(v))
	}
	if len(ts) == 1 {
		return ts[0]
	}
	return "(" + strings.Join(ts, ", ") + ")"
}

func xCallSample(f reflect.Value, args []reflect.Value) (res string) {
	defer func() {
		if recover() != nil {
			res = "Panic"
		}
	}()
	return "Return " + xTuple(f.Call(args))
}

// state-mode samples: methods of xlatesample.R, run on readers over several byte strings at several positions
var sampleReader = &xStateSpec{
	Type:   "go_reader",
	Fields: map[string]xStField{"b.depth": {"rd_depth", "go_rd_set_depth"}, "b.ref": {"rd_ref", ""}},
	Pure:   map[string]string{"b.buf.Len": "go_rd_len"},
	Prims:  codecReader.Prims,
	Errs:   map[string]bool{"fmt.Errorf": true},
	Calls:  map[string]string{"b.Nest": "tr_s_Nest", "b.Walk": "tr_s_Walk", "b.Deeper": "tr_s_Deeper"},
}
var xRdSamples = []struct {
	name  string
	fuel  bool
	group string
}{{"Head", false, ""}, {"Unread", false, ""}, {"Jump", false, ""}, {"Left", false, ""}, {"U8", false, ""}, {"U16", false, ""},
	{"U32", false, ""}, {"U64", false, ""}, {"Full", false, ""}, {"Read", false, ""}, {"Nest", false, ""},
	{"Walk", true, "walk"}, {"Deeper", true, "walk"}}

var xRdRefs = [][]byte{nil, {7}, {0xf3, 0x10, 9}, {0xfc}, {0x1c, 0xf0}, {1, 2, 3, 4, 5, 6, 7, 8, 9},
	{3, 1, 2, 2, 1, 9, 9, 0, 5}, {1, 1, 1, 1, 0}, {1, 3, 0xff, 0xfe, 0, 2, 200, 0}, {1, 2, 0, 0, 3, 0}, {2, 1, 7, 1, 0, 0, 4}}

func xRdCases(name string) (terms, outs []string) {
	probe := reflect.ValueOf(xlatesample.NewR(nil, 0, 0)).MethodByName(name)
	mt := probe.Type()
	fuel := ""
	for _, s := range xRdSamples {
		if s.name == name && s.fuel {
			fuel = " 40"
		}
	}
	// argument grids: the pointee for a pointer parameter; none for a function parameter (Nest is run on Deeper)
	var grids [][]reflect.Value
	for i := 0; i < mt.NumIn(); i++ {
		t := mt.In(i)
		switch t.Kind() {
		case reflect.Ptr:
			g := xGrid(t.Elem())
			if len(g) > 3 {
				g = []reflect.Value{g[0], g[len(g)/2], g[len(g)-1]}
			}
			grids = append(grids, g)
		case reflect.Func:
			grids = append(grids, []reflect.Value{reflect.Zero(t)})
		default:
			grids = append(grids, xGrid(t))
		}
	}
	n := 1
	for _, g := range grids {
		n *= len(g)
	}
	for _, ref := range xRdRefs {
		for _, pos := range []int64{0, 1, 2, int64(len(ref)), int64(len(ref)) + 3} {
			for _, depth := range []int{0, 2, 3} {
				if pos > int64(len(ref))+3 || (name != "Nest" && name != "Walk" && name != "Deeper" && depth != 0) {
					continue
				}
				for k := 0; k < n; k++ {
					r := xlatesample.NewR(ref, pos, depth)
					m := reflect.ValueOf(r).MethodByName(name)
					args := make([]reflect.Value, len(grids))
					var as []string
					var ptrs []reflect.Value
					for i, q := 0, k; i < len(grids); i++ {
						v := grids[i][q%len(grids[i])]
						q /= len(grids[i])
						switch mt.In(i).Kind() {
						case reflect.Ptr:
							pv := reflect.New(mt.In(i).Elem())
							pv.Elem().Set(v)
							args[i] = pv
							ptrs = append(ptrs, pv)
							as = append(as, xCoqVal(v))
						case reflect.Func:
							args[i] = reflect.ValueOf(r.Deeper)
							as = append(as, "(tr_s_Deeper 40)")
						default:
							args[i] = v
							as = append(as, xCoqVal(v))
						}
					}
					state := func(p int64, d int) string {
						return fmt.Sprintf("(Build_go_reader %s %d %d)", xBytesLit(string(ref)), p, d)
					}
					terms = append(terms, "tr_s_"+name+fuel+" "+strings.Join(append(as, state(pos, depth)), " "))
					res := func() (out string) {
						defer func() {
							if recover() != nil {
								out = "Panic"
							}
						}()
						rs := m.Call(args)
						p2, d2 := r.State()
						parts := []string{state(p2, d2)}
						for _, pv := range ptrs {
							parts = append(parts, xCoqVal(pv.Elem()))
						}
						for _, v := range rs {
							parts = append(parts, xCoqVal(v))
						}
						if len(parts) == 1 {
							return "Return " + parts[0]
						}
						return "Return (" + strings.Join(parts, ", ") + ")"
					}()
					outs = append(outs, res)
				}
			}
		}
	}
	if step := (len(terms) + 299) / 300; step > 1 { // a deterministic sample of at most 300 cases per method
		var t2, o2 []string
		for i := range terms {
			if i%step == 0 {
				t2, o2 = append(t2, terms[i]), append(o2, outs[i])
			}
		}
		terms, outs = t2, o2
	}
	return
}

func init() {
	props["gen-xlate-selftest"] = func(a Args) {
		root := os.Getenv("VERIF_HARNESS_SRC")
		if root == "" {
			root = "harness"
		}
		var units []xUnit
		for _, s := range xSamples {
			units = append(units, xUnit{Name: "tr_s_" + s.name, Dir: "xlatesample", Func: s.name, Fuel: xSampleFuel[s.name], ErrVals: xSampleErrVals[s.name]})
		}
		for _, s := range xRdSamples {
			units = append(units, xUnit{Name: "tr_s_" + s.name, Dir: "xlatesample", Func: "R." + s.name, State: sampleReader, Fuel: s.fuel, Group: s.group})
		}
		defs, errs := xlateUnits(root, units)
		fmt.Println("(* GENERATED by `harness gen-xlate-selftest` on every run - do not edit. The functions of harness/xlatesample")
		fmt.Println("   translated to Gallina, and what the compiled functions returned on a grid of boundary inputs. *)")
		fmt.Println("From Coq Require Import List NArith ZArith Bool.\nFrom TarsV Require Import Xlate.GoSem.\nImport ListNotations.\nOpen Scope Z_scope.\n")
		fmt.Println(strings.Join(defs, "\n"))
		for _, e := range errs { // a sample outside the subset: the file does not compile
			fmt.Printf("(* %s *)\nDefinition sample_outside_the_subset : False := I.\n", strings.ReplaceAll(strings.ReplaceAll(e, "(*", "( *"), "*)", "* )"))
		}
		total := 0
		for _, s := range xSamples {
			f := reflect.ValueOf(s.f)
			t := f.Type()
			grids := make([][]reflect.Value, t.NumIn())
			n := 1
			for i := range grids {
				grids[i] = xGrid(t.In(i))
				n *= len(grids[i])
			}
			var ins, outs []string
			xErrValsNow = xSampleErrVals[s.name]
			for k := 0; k < n; k++ { // the full product of the grids
				args := make([]reflect.Value, len(grids))
				for i, r := 0, k; i < len(grids); i++ {
					args[i] = grids[i][r%len(grids[i])]
					r /= len(grids[i])
				}
				var as []string
				for _, v := range args {
					as = append(as, xCoqVal(v))
				}
				fuel := ""
				if xSampleFuel[s.name] {
					fuel = " 40"
				}
				ins = append(ins, "tr_s_"+s.name+fuel+" "+strings.Join(as, " "))
				outs = append(outs, xCallSample(f, args))
			}
			xErrValsNow = ""
			total += n
			fmt.Printf("\nExample selftest_%s :\n  [%s]\n  = [%s].\nProof. vm_compute. reflexivity. Qed.\n", s.name, strings.Join(ins, ";\n   "), strings.Join(outs, ";\n     "))
		}
		for _, s := range xRdSamples {
			ins, outs := xRdCases(s.name)
			total += len(ins)
			fmt.Printf("\nExample selftest_R_%s :\n  [%s]\n  = [%s].\nProof. vm_compute. reflexivity. Qed.\n", s.name, strings.Join(ins, ";\n   "), strings.Join(outs, ";\n     "))
		}
		fmt.Printf("\n(* %d evaluations of %d sample functions *)\n", total, len(xSamples)+len(xRdSamples))
	}
}
